(* C19 - second leg of the 24-bit round trip: the style string the decoder
   hands on (_create_style_string) resolves, through an empty Style, to the
   canonical form of the original attributes. *)
From Coq Require Import ZArith List Bool Lia String.
From PTK Require Import Lib.Py Lib.C19_Str Gen.Whitespace Gen.C19_Palette
     Model.C19_Palette Model.C19_Style Model.C19_Sgr
     Proofs.C19_PaletteFacts Proofs.C19_StrFacts Proofs.C19_StyleFacts Proofs.C19_SgrFacts.
Import ListNotations.
Open Scope Z_scope.

(* the colour value a 24-bit sequence can carry *)
Definition canon_color (c : option str) : str :=
  match dec_color c with
  | None => []
  | Some (35 :: h) => h
  | Some n => n
  end.

Definition canon (a : attrs) : attrs :=
  mkA (Some (canon_color (a_color a))) (Some (canon_color (a_bgcolor a)))
      (Some (truthy (a_bold a))) (Some (truthy (a_underline a))) (Some (truthy (a_strike a)))
      (Some (truthy (a_italic a))) (Some (truthy (a_blink a))) (Some (truthy (a_reverse a)))
      (Some (truthy (a_hidden a))).

(* ---------------------------------------------------------------------- *)
(* parts that are not class parts and parse to one entry each *)

Definition part_is (p : str) (e : attrs) : Prop :=
  word_ok p = true /\ startswith p s_class = false /\ parse_style_str p = Some e.

Lemma parts_loop_inline : forall table parts entries acc seen,
  Forall2 part_is parts entries ->
  parts_loop table parts acc seen = Some (acc ++ entries).
Proof.
  intros table parts entries acc seen H. revert acc.
  induction H as [|p e ps es (Hw & Hc & Hp) Hrest IH]; intros acc.
  - rewrite app_nil_r. reflexivity.
  - cbn [parts_loop]. rewrite Hc, Hp. rewrite IH. rewrite <- app_assoc. reflexivity.
Qed.

Lemma Forall2_word_ok : forall parts entries,
  Forall2 part_is parts entries -> forallb word_ok parts = true.
Proof.
  intros parts entries H. induction H as [|p e ps es (Hw & _) _ IH]; [reflexivity|].
  cbn [forallb]. rewrite Hw, IH. reflexivity.
Qed.

(* ---- a word without 'n' does not contain "noinherit" ------------------- *)
Lemma no_n_no_noinherit : forall s,
  forallb (fun c => negb (c =? 110)) s = true -> contains s_noinherit s = false.
Proof.
  intros s H. unfold contains, find_sub.
  assert (G : forall s i, forallb (fun c => negb (c =? 110)) s = true ->
                          find_sub_from s_noinherit s i = -1).
  { induction s0 as [|x r IH]; intros i Hs.
    - reflexivity.
    - cbn [forallb] in Hs. apply andb_prop in Hs. destruct Hs as [Hx Hr].
      apply negb_true_iff in Hx.
      cbn [find_sub_from]. change s_noinherit with (110 :: [111; 105; 110; 104; 101; 114; 105; 116]).
      cbn [startswith]. rewrite Hx. cbn [andb]. apply IH. exact Hr. }
  rewrite (G s 0 H). reflexivity.
Qed.

Lemma single_word : forall w, word_ok w = true -> split_ws w = [w].
Proof.
  intros w H. change w with (join [32] [w]) at 1. apply split_ws_join.
  cbn [forallb]. rewrite H. reflexivity.
Qed.

(* ---- "#" + six lower-case hexadecimal digits --------------------------- *)

Lemma mem_str_len_false : forall (l : list str) (k : str),
  forallb (fun x => negb (len x =? len k)) l = true -> mem_str k l = false.
Proof.
  induction l as [|x r IH]; intros k H; [reflexivity|].
  cbn [forallb] in H. apply andb_prop in H. destruct H as [H1 H2].
  unfold mem_str. cbn [existsb]. destruct (str_eqb k x) eqn:E.
  - apply str_eqb_len in E. rewrite E, Z.eqb_refl in H1. discriminate.
  - cbn [orb]. apply IH. exact H2.
Qed.

Lemma names_len_table :
  forallb (fun x : str => negb (len x =? 6)) ansi_color_names = true /\
  forallb (fun kv : str * str => negb (len (fst kv) =? 6)) ansi_color_aliases = true.
Proof. vm_compute. split; reflexivity. Qed.

Lemma parse_color_hash6 : forall c1 c2 c3 c4 c5 c6,
  is_hex_b c1 = true -> is_hex_b c2 = true -> is_hex_b c3 = true ->
  is_hex_b c4 = true -> is_hex_b c5 = true -> is_hex_b c6 = true ->
  parse_color [35; c1; c2; c3; c4; c5; c6] = Some [c1; c2; c3; c4; c5; c6].
Proof.
  intros c1 c2 c3 c4 c5 c6 X1 X2 X3 X4 X5 X6. destruct names_len_table as [HN HA].
  assert (HX : hex36_b [c1; c2; c3; c4; c5; c6] = true).
  { unfold hex36_b. cbn [forallb]. rewrite X1, X2, X3, X4, X5, X6. reflexivity. }
  unfold parse_color.
  change (mem_str [35; c1; c2; c3; c4; c5; c6] ansi_color_names) with false.
  change (assoc [35; c1; c2; c3; c4; c5; c6] ansi_color_aliases) with (@None str).
  cbn iota.
  replace (assoc (lower [35; c1; c2; c3; c4; c5; c6]) named_colors_lower) with (@None str)
    by (symmetry; reflexivity).
  cbn iota.
  change (str_eqb (slice2 [35; c1; c2; c3; c4; c5; c6] 0 1) [35]) with true. cbn iota.
  change (slice_from [35; c1; c2; c3; c4; c5; c6] 1) with [c1; c2; c3; c4; c5; c6].
  rewrite (mem_str_len_false ansi_color_names [c1; c2; c3; c4; c5; c6]) by exact HN.
  rewrite (assoc_len_none ansi_color_aliases [c1; c2; c3; c4; c5; c6]) by exact HA.
  rewrite HX. reflexivity.
Qed.

Lemma apply_part_hash : forall t a,
  apply_part (35 :: t) a =
  match parse_color (35 :: t) with Some c => Some (set_color (Some c) a) | None => None end.
Proof. intros. reflexivity. Qed.

Lemma apply_part_bg : forall t a,
  apply_part (98 :: 103 :: 58 :: t) a =
  match parse_color (slice_from (98 :: 103 :: 58 :: t) 3) with
  | Some c => Some (set_bgcolor (Some c) a)
  | None => None
  end.
Proof. intros [|x t] a; reflexivity. Qed.

Lemma slice_from_bg : forall t, slice_from (98 :: 103 :: 58 :: t) 3 = t.
Proof.
  intros t. rewrite slice_from_in_range.
  - reflexivity.
  - lia.
  - unfold len. cbn [List.length]. lia.
Qed.

Definition lhex (c : Z) : Prop := exists v, hexval c = Some v /\ lower_c c = c.

Lemma andb_range_false : forall lo hi c, (lo <=? c) && (c <=? hi) = false -> lo <= c <= hi -> False.
Proof.
  intros lo hi c E H. apply andb_false_elim in E. destruct E as [E | E]; apply Z.leb_gt in E; lia.
Qed.

Lemma andb_range_true : forall lo hi c, (lo <=? c) && (c <=? hi) = true -> lo <= c <= hi.
Proof. intros lo hi c E. apply andb_prop in E. destruct E as [A B]. apply Z.leb_le in A, B. lia. Qed.

Lemma lower_is_lhex : forall c v, hexval c = Some v -> lhex (lower_c c).
Proof.
  intros c v H. unfold lhex.
  assert (D : (48 <= c <= 57) \/ (97 <= c <= 102) \/ (65 <= c <= 70)).
  { unfold hexval in H.
    destruct ((48 <=? c) && (c <=? 57)) eqn:E1; [left; apply andb_range_true; exact E1|].
    destruct ((97 <=? c) && (c <=? 102)) eqn:E2; [right; left; apply andb_range_true; exact E2|].
    destruct ((65 <=? c) && (c <=? 70)) eqn:E3; [right; right; apply andb_range_true; exact E3 | discriminate]. }
  assert (Hd : forall x, 48 <= x <= 57 -> hexval x = Some (x - 48) /\ lower_c x = x).
  { intros x Hx. unfold hexval, lower_c. split.
    - destruct ((48 <=? x) && (x <=? 57)) eqn:E; [reflexivity | exfalso; eapply andb_range_false; eauto].
    - destruct ((65 <=? x) && (x <=? 90)) eqn:E; [apply andb_range_true in E; lia | reflexivity]. }
  assert (Hl : forall x, 97 <= x <= 102 -> hexval x = Some (x - 87) /\ lower_c x = x).
  { intros x Hx. unfold hexval, lower_c. split.
    - destruct ((48 <=? x) && (x <=? 57)) eqn:E; [apply andb_range_true in E; lia|].
      destruct ((97 <=? x) && (x <=? 102)) eqn:E2; [reflexivity | exfalso; eapply andb_range_false; eauto].
    - destruct ((65 <=? x) && (x <=? 90)) eqn:E; [apply andb_range_true in E; lia | reflexivity]. }
  destruct D as [D | [D | D]].
  - destruct (Hd c D) as [A B]. rewrite B. eauto.
  - destruct (Hl c D) as [A B]. rewrite B. eauto.
  - assert (E : lower_c c = c + 32).
    { unfold lower_c. destruct ((65 <=? c) && (c <=? 90)) eqn:E; [reflexivity|].
      exfalso. eapply (andb_range_false 65 90 c); [exact E | lia]. }
    rewrite E. destruct (Hl (c + 32) ltac:(lia)) as [A B]. eauto.
Qed.

Lemma lhex_is_hex : forall c, lhex c -> is_hex_b c = true.
Proof. intros c (v & H & _). unfold is_hex_b. rewrite H. reflexivity. Qed.

Lemma lhex_props : forall c, lhex c ->
  is_space c = false /\ (c =? 110) = false.
Proof.
  intros c (v & H & _). destruct (hexval_props _ _ H) as (_ & _ & _ & _ & _ & _ & _ & _ & Hn & Hs & _).
  split; assumption.
Qed.

Lemma hash6_part : forall c1 c2 c3 c4 c5 c6,
  lhex c1 -> lhex c2 -> lhex c3 -> lhex c4 -> lhex c5 -> lhex c6 ->
  part_is [35; c1; c2; c3; c4; c5; c6] (set_color (Some [c1; c2; c3; c4; c5; c6]) EMPTY_ATTRS) /\
  part_is (98 :: 103 :: 58 :: [35; c1; c2; c3; c4; c5; c6])
          (set_bgcolor (Some [c1; c2; c3; c4; c5; c6]) EMPTY_ATTRS).
Proof.
  intros c1 c2 c3 c4 c5 c6 L1 L2 L3 L4 L5 L6.
  destruct (lhex_props _ L1) as [S1 N1]. destruct (lhex_props _ L2) as [S2 N2].
  destruct (lhex_props _ L3) as [S3 N3]. destruct (lhex_props _ L4) as [S4 N4].
  destruct (lhex_props _ L5) as [S5 N5]. destruct (lhex_props _ L6) as [S6 N6].
  assert (W1 : word_ok [35; c1; c2; c3; c4; c5; c6] = true).
  { unfold word_ok, no_space. cbn [nonempty_b forallb]. rewrite S1, S2, S3, S4, S5, S6. reflexivity. }
  assert (W2 : word_ok (98 :: 103 :: 58 :: [35; c1; c2; c3; c4; c5; c6]) = true).
  { unfold word_ok, no_space. cbn [nonempty_b forallb]. rewrite S1, S2, S3, S4, S5, S6. reflexivity. }
  split.
  - split; [exact W1|]. split; [reflexivity|].
    unfold parse_style_str. rewrite no_n_no_noinherit.
    + rewrite (single_word _ W1). cbn [apply_parts]. rewrite apply_part_hash, parse_color_hash6 by (apply lhex_is_hex; assumption). reflexivity.
    + cbn [forallb]. rewrite N1, N2, N3, N4, N5, N6. reflexivity.
  - split; [exact W2|]. split; [reflexivity|].
    unfold parse_style_str. rewrite no_n_no_noinherit.
    + rewrite (single_word _ W2). cbn [apply_parts]. rewrite apply_part_bg, slice_from_bg, parse_color_hash6 by (apply lhex_is_hex; assumption). reflexivity.
    + cbn [forallb]. rewrite N1, N2, N3, N4, N5, N6. reflexivity.
Qed.

(* ---- ANSI names (finite) ----------------------------------------------- *)
Lemma name_part : forall n, In n ansi_color_names ->
  part_is n (set_color (Some n) EMPTY_ATTRS) /\
  part_is (98 :: 103 :: 58 :: n) (set_bgcolor (Some n) EMPTY_ATTRS).
Proof.
  intros n H. unfold ansi_color_names in H. cbn [In] in H.
  repeat (destruct H as [H | H]; [subst n; unfold part_is; vm_compute; repeat split; reflexivity|]).
  destruct H.
Qed.

(* ---- the parts and entries of a decoder state -------------------------- *)

Definition color_part (bg : bool) (d : option str) : list str :=
  match nonempty_opt d with
  | Some c => [if bg then s_bg ++ c else c]
  | None => []
  end.
Definition color_entry (bg : bool) (d : option str) : list attrs :=
  match nonempty_opt d with
  | Some (35 :: h) => [if bg then set_bgcolor (Some h) EMPTY_ATTRS else set_color (Some h) EMPTY_ATTRS]
  | Some n => [if bg then set_bgcolor (Some n) EMPTY_ATTRS else set_color (Some n) EMPTY_ATTRS]
  | None => []
  end.

Lemma color_parts_ok : forall bg c, color_ok c = true ->
  Forall2 part_is (color_part bg (dec_color c)) (color_entry bg (dec_color c)).
Proof.
  intros bg c Hok. destruct c as [s|]; [|constructor].
  cbn [color_ok] in Hok. unfold dec_color.
  destruct (is_nil s || str_eqb s s_default) eqn:E1; [constructor|].
  cbn [orb] in Hok.
  destruct (mem_str s ansi_color_names) eqn:Emem.
  - apply mem_str_In in Emem. destruct (name_part s Emem) as [P1 P2].
    unfold color_part.
    assert (Hs : exists x r, s = x :: r /\ x <> 35).
    { destruct P1 as (W & _). destruct s as [|x r]; [discriminate|].
      exists x, r. split; [reflexivity|]. intro Hx. subst x.
      assert (X : forallb (fun n : str => match n with 35 :: _ => false | _ => true end) ansi_color_names = true)
        by (vm_compute; reflexivity).
      pose proof (proj1 (forallb_forall _ _) X _ Emem) as Y. discriminate. }
    destruct Hs as (x & r & -> & Hx).
    assert (Hm : forall (T : Type) (a : list Z -> T) (b : T),
               match x :: r with 35 :: h => a h | _ => b end = b).
    { intros T a0 b0. destruct x as [|p|p]; try reflexivity.
      repeat (destruct p as [p|p|]; try reflexivity). contradiction. }
    assert (Hce : color_entry bg (Some (x :: r)) =
                  [if bg then set_bgcolor (Some (x :: r)) EMPTY_ATTRS else set_color (Some (x :: r)) EMPTY_ATTRS]).
    { unfold color_entry. cbn [nonempty_opt].
      apply (Hm _ (fun h => [if bg then set_bgcolor (Some h) EMPTY_ATTRS else set_color (Some h) EMPTY_ATTRS])). }
    match goal with |- Forall2 _ _ ?e =>
      replace e with [if bg then set_bgcolor (Some (x :: r)) EMPTY_ATTRS else set_color (Some (x :: r)) EMPTY_ATTRS]
        by (symmetry; exact Hce) end.
    cbn [nonempty_opt].
    destruct bg.
    + constructor; [|constructor]. exact P2.
    + constructor; [|constructor]. exact P1.
  - cbn [orb] in Hok. unfold hex6_b in Hok. apply andb_prop in Hok. destruct Hok as [Hlen Hhex].
    apply Z.eqb_eq in Hlen.
    destruct s as [|c1 [|c2 [|c3 [|c4 [|c5 [|c6 [|c7 s']]]]]]];
      try (unfold len in Hlen; cbn [List.length] in Hlen; lia).
    cbn [forallb] in Hhex.
    repeat (apply andb_prop in Hhex; let H := fresh "Hx" in destruct Hhex as [H Hhex]).
    apply is_hex_b_val in Hx, Hx0, Hx1, Hx2, Hx3, Hx4.
    destruct Hx as [v1 V1], Hx0 as [v2 V2], Hx1 as [v3 V3], Hx2 as [v4 V4], Hx3 as [v5 V5], Hx4 as [v6 V6].
    destruct (hash6_part _ _ _ _ _ _ (lower_is_lhex _ _ V1) (lower_is_lhex _ _ V2) (lower_is_lhex _ _ V3)
                         (lower_is_lhex _ _ V4) (lower_is_lhex _ _ V5) (lower_is_lhex _ _ V6)) as [P1 P2].
    unfold color_part, color_entry. cbn [lower map nonempty_opt].
    destruct bg; (constructor; [|constructor]); assumption.
Qed.

Definition flag_parts (b1 b2 b3 b4 b5 b6 b7 : bool) : list str :=
  (if b1 then [s_bold] else []) ++ (if b2 then [s_underline] else []) ++ (if b3 then [s_strike] else [])
  ++ (if b4 then [s_italic] else []) ++ (if b5 then [s_blink] else []) ++ (if b6 then [s_reverse] else [])
  ++ (if b7 then [s_hidden] else []).
Definition flag_entries (b1 b2 b3 b4 b5 b6 b7 : bool) : list attrs :=
  (if b1 then [set_bold (Some true) EMPTY_ATTRS] else [])
  ++ (if b2 then [set_underline (Some true) EMPTY_ATTRS] else [])
  ++ (if b3 then [set_strike (Some true) EMPTY_ATTRS] else [])
  ++ (if b4 then [set_italic (Some true) EMPTY_ATTRS] else [])
  ++ (if b5 then [set_blink (Some true) EMPTY_ATTRS] else [])
  ++ (if b6 then [set_reverse (Some true) EMPTY_ATTRS] else [])
  ++ (if b7 then [set_hidden (Some true) EMPTY_ATTRS] else []).

Lemma flag_parts_ok : forall b1 b2 b3 b4 b5 b6 b7,
  Forall2 part_is (flag_parts b1 b2 b3 b4 b5 b6 b7) (flag_entries b1 b2 b3 b4 b5 b6 b7).
Proof.
  assert (P1 : part_is s_bold (set_bold (Some true) EMPTY_ATTRS)) by (unfold part_is; vm_compute; auto).
  assert (P2 : part_is s_underline (set_underline (Some true) EMPTY_ATTRS)) by (unfold part_is; vm_compute; auto).
  assert (P3 : part_is s_strike (set_strike (Some true) EMPTY_ATTRS)) by (unfold part_is; vm_compute; auto).
  assert (P4 : part_is s_italic (set_italic (Some true) EMPTY_ATTRS)) by (unfold part_is; vm_compute; auto).
  assert (P5 : part_is s_blink (set_blink (Some true) EMPTY_ATTRS)) by (unfold part_is; vm_compute; auto).
  assert (P6 : part_is s_reverse (set_reverse (Some true) EMPTY_ATTRS)) by (unfold part_is; vm_compute; auto).
  assert (P7 : part_is s_hidden (set_hidden (Some true) EMPTY_ATTRS)) by (unfold part_is; vm_compute; auto).
  intros. unfold flag_parts, flag_entries.
  repeat (apply Forall2_app; [match goal with |- Forall2 _ (if ?b then _ else _) _ => destruct b end;
                              [constructor; [assumption | constructor] | constructor]|]).
  destruct b7; [constructor; [assumption | constructor] | constructor].
Qed.

Lemma create_style_string_parts : forall st,
  create_style_string st =
  join [32] (color_part false (d_color st) ++ color_part true (d_bgcolor st)
             ++ flag_parts (d_bold st) (d_underline st) (d_strike st) (d_italic st)
                           (d_blink st) (d_reverse st) (d_hidden st)).
Proof. intros st. reflexivity. Qed.

Lemma merge_entries : forall fg bg b1 b2 b3 b4 b5 b6 b7,
  merge_attrs (DEFAULT_ATTRS :: (match fg with Some h => [set_color (Some h) EMPTY_ATTRS] | None => [] end)
               ++ (match bg with Some h => [set_bgcolor (Some h) EMPTY_ATTRS] | None => [] end)
               ++ flag_entries b1 b2 b3 b4 b5 b6 b7)
  = mkA (Some (match fg with Some h => h | None => [] end))
        (Some (match bg with Some h => h | None => [] end))
        (Some b1) (Some b2) (Some b3) (Some b4) (Some b5) (Some b6) (Some b7).
Proof.
  intros [fg|] [bg|] [|] [|] [|] [|] [|] [|] [|]; reflexivity.
Qed.

(* value carried by an entry list of one colour *)
Definition color_value (d : option str) : option str :=
  match nonempty_opt d with
  | Some (35 :: h) => Some h
  | Some n => Some n
  | None => None
  end.

Lemma color_entry_value : forall bg d,
  color_entry bg d =
  match color_value d with
  | Some h => [if bg then set_bgcolor (Some h) EMPTY_ATTRS else set_color (Some h) EMPTY_ATTRS]
  | None => []
  end.
Proof.
  intros bg d. unfold color_entry, color_value.
  destruct (nonempty_opt d) as [[|x r]|]; try reflexivity.
  destruct x as [|p|p]; try reflexivity.
  repeat (destruct p as [p|p|]; try reflexivity).
Qed.

Lemma dec_color_nonempty : forall c, color_ok c = true -> nonempty_opt (dec_color c) = dec_color c.
Proof.
  intros c H. destruct c as [s|]; [|reflexivity]. unfold dec_color.
  destruct (is_nil s || str_eqb s s_default) eqn:E; [reflexivity|].
  destruct (mem_str s ansi_color_names); [|reflexivity].
  destruct s; [discriminate | reflexivity].
Qed.

Lemma canon_color_value : forall c, color_ok c = true ->
  canon_color c = match color_value (dec_color c) with Some h => h | None => [] end.
Proof.
  intros c H. unfold canon_color, color_value. rewrite (dec_color_nonempty c H).
  destruct (dec_color c) as [[|x r]|]; try reflexivity.
  destruct x as [|p|p]; try reflexivity.
  repeat (destruct p as [p|p|]; try reflexivity).
Qed.

(* Style([]).get_attrs_for_style_str(_create_style_string()) *)
Theorem style_string_roundtrip : forall a,
  rt_dom a ->
  get_attrs [] (create_style_string (state_of a)) DEFAULT_ATTRS = Ok (canon a).
Proof.
  intros a [Hfg Hbg]. unfold get_attrs, list_of_attrs.
  rewrite create_style_string_parts. unfold state_of. cbn [d_color d_bgcolor d_bold d_underline d_strike d_italic d_blink d_reverse d_hidden].
  pose proof (color_parts_ok false _ Hfg) as F1.
  pose proof (color_parts_ok true _ Hbg) as F2.
  pose proof (flag_parts_ok (truthy (a_bold a)) (truthy (a_underline a)) (truthy (a_strike a))
                            (truthy (a_italic a)) (truthy (a_blink a)) (truthy (a_reverse a))
                            (truthy (a_hidden a))) as F3.
  pose proof (Forall2_app F1 (Forall2_app F2 F3)) as F.
  rewrite (split_ws_join _ (Forall2_word_ok _ _ F)).
  cbn [filter map].
  rewrite (parts_loop_inline [] _ _ [DEFAULT_ATTRS] [] F).
  rewrite !color_entry_value. cbn [app].
  f_equal. unfold canon.
  rewrite (canon_color_value _ Hfg), (canon_color_value _ Hbg).
  destruct (color_value (dec_color (a_color a))) as [h1|];
  destruct (color_value (dec_color (a_bgcolor a))) as [h2|].
  - exact (merge_entries (Some h1) (Some h2) _ _ _ _ _ _ _).
  - exact (merge_entries (Some h1) None _ _ _ _ _ _ _).
  - exact (merge_entries None (Some h2) _ _ _ _ _ _ _).
  - exact (merge_entries None None _ _ _ _ _ _ _).
Qed.

(* the whole trip: emitted text -> ANSI(...) fragment -> Attrs *)
Theorem sgr_roundtrip_24_attrs : forall a,
  rt_dom a -> decode_seq (escape_code 24 a) = Ok (canon a).
Proof.
  intros a Hdom. unfold decode_seq. rewrite (sgr_roundtrip_24_fragment a Hdom).
  cbn [rev app]. apply style_string_roundtrip. exact Hdom.
Qed.
