(* C09 round 6 - runs of consecutive word kills of ANY length for all four word-kill
   bindings (M-d, C-Delete, C-w, M-Backspace), through [step]; the Vi cursor fix-up
   is idempotent, so the second fix-up (run by the count digits) before a counted
   register paste changes nothing: yank-into-register then counted paste as one chain. *)
From Coq Require Import ZArith List Bool Lia PeanoNat.
From PTK Require Import Lib.Sx Lib.Py Model.Document Model.BufferEdit Proofs.BufferEditFacts
  Proofs.C02_Base Proofs.C02_Coords
  Model.C09_Kill Proofs.C09_Ring Proofs.C09_KillFacts Proofs.C09_YankFacts Proofs.C09_CutFacts
  Proofs.C09_StepFacts.
Import ListNotations.
Open Scope Z_scope.

(* ---------------------------------------------------------------------- *)
(* the four word-kill key bindings *)
Definition is_wk (c : cmd) : bool :=
  match c with KillWordMd | KillWordCDel | CtrlW | MetaBackspace => true | _ => false end.
(* forward (kill-word) or backward (unix-word-rubout / backward-kill-word) *)
Definition wk_fwd (c : cmd) : bool :=
  match c with KillWordMd | KillWordCDel => true | _ => false end.
(* what goes on the ring: on a repeat the previous head joined in TEXT order *)
Definition wk_acc (c : cmd) (rep : bool) (head del : str) : str :=
  if rep then (if wk_fwd c then head ++ del else del ++ head) else del.

Lemma step_wk s c :
  is_wk c = true -> svi s = false -> ssel s = None ->
  step s c None =
  (let '(code, s') := exec s c 1 (sprev s =? cmd_id c) in
   if code =? 0 then (0, with_prev (fix_vi_cursor s') (cmd_id c))
   else if code =? E_UNMODELLED then (code, s) else (code, with_prev s' 0)).
Proof.
  intros Hc Hvi Hsel. unfold step, has_sel. rewrite Hvi, Hsel.
  destruct c; try discriminate; reflexivity.
Qed.

Lemma kill_with_frame s r f :
  svi (snd (kill_with s r f)) = svi s /\ (ssel s = None -> ssel (snd (kill_with s r f)) = None).
Proof.
  destruct r as [b' del|code b']; cbn [kill_with ok snd with_ring upd with_buf svi ssel];
    (split; [reflexivity|]); intros ->; destruct (negb _); reflexivity.
Qed.

Lemma exec_wk_frame s c rep :
  is_wk c = true -> ssel s = None ->
  svi (snd (exec s c 1 rep)) = svi s /\ ssel (snd (exec s c 1 rep)) = None.
Proof.
  intros Hc Hsel.
  assert (KW : forall a, svi (snd (kill_word s a rep)) = svi s /\ ssel (snd (kill_word s a rep)) = None).
  { intros a. unfold kill_word. destruct (find_next_word_ending _ _) as [pos|]; [|now split].
    destruct (pos =? 0); [now split|].
    destruct (kill_with_frame s (delete (sb s) pos)
                (fun del => if rep then ctext (ring_get (sring s)) ++ del else del)) as [A B].
    split; [exact A|now apply B]. }
  assert (UW : forall a big, svi (snd (unix_word_rubout s a rep big)) = svi s /\
                             ssel (snd (unix_word_rubout s a rep big)) = None).
  { intros a big. unfold unix_word_rubout.
    set (pos := match find_start_of_previous_word _ _ _ with Some p => p | None => _ end).
    destruct (pos =? 0); [now split|].
    destruct (kill_with_frame s (delete_before_cursor (sb s) (- pos))
                (fun del => if rep then del ++ ctext (ring_get (sring s)) else del)) as [A B].
    split; [exact A|now apply B]. }
  destruct c; try discriminate; cbn [exec]; try apply KW; try apply UW.
  unfold has_sel. rewrite Hsel. apply UW.
Qed.

Lemma exec_wk_exact s c rep :
  is_wk c = true -> ssel s = None -> Inv (sb s) ->
  exec s c 1 rep = ok s \/
  killed (wk_fwd c) s (exec s c 1 rep) (wk_acc c rep (ctext (ring_get (sring s)))).
Proof.
  intros Hc Hsel Hi. destruct c; try discriminate; cbn [exec].
  - exact (kill_word_exact s 1 rep Hi).
  - exact (kill_word_exact s 1 rep Hi).
  - unfold has_sel. rewrite Hsel. exact (unix_word_rubout_exact s 1 rep true Hi).
  - exact (unix_word_rubout_exact s 1 rep false Hi).
Qed.

(* one press of a word-kill key (no argument) through [step] *)
Lemma step_wk_out s c :
  is_wk c = true -> svi s = false -> ssel s = None -> Inv (sb s) ->
  exists s1, step s c None = (0, s1) /\
    svi s1 = false /\ ssel s1 = None /\ sprev s1 = cmd_id c /\
    ((btext (sb s1) = btext (sb s) /\ bcur (sb s1) = bcur (sb s) /\ sring s1 = sring s) \/
     killed (wk_fwd c) s (0, s1) (wk_acc c (sprev s =? cmd_id c) (ctext (ring_get (sring s))))).
Proof.
  intros Hc Hvi Hsel Hi. rewrite step_wk by assumption.
  destruct (exec_wk_frame s c (sprev s =? cmd_id c) Hc Hsel) as [Fv Fs].
  destruct (exec_wk_exact s c (sprev s =? cmd_id c) Hc Hsel Hi) as [E|K].
  - rewrite E. cbn [ok]. change (0 =? 0) with true. cbv iota. rewrite (fix_vi_cursor_emacs s Hvi).
    eexists. split; [reflexivity|]. cbn [with_prev svi ssel sprev sb sring]. repeat split; auto.
  - destruct (exec s c 1 (sprev s =? cmd_id c)) as [code s'] eqn:E. cbn [snd] in Fv, Fs.
    destruct K as (pre & rem & post & H1 & H2 & H3 & H4 & H5 & H6). cbn [fst snd] in *. subst code.
    change (0 =? 0) with true. cbv iota. rewrite (fix_vi_cursor_emacs s') by congruence.
    eexists. split; [reflexivity|]. cbn [with_prev svi ssel sprev].
    split; [congruence|]. split; [exact Fs|]. split; [reflexivity|]. right.
    exists pre, rem, post. cbn [fst snd with_prev sb sring]. repeat split; assumption.
Qed.

(* n further presses of the same key *)
Fixpoint wk_run (c : cmd) (n : nat) (s : st) : st :=
  match n with O => s | S k => snd (step (wk_run c k s) c None) end.

(* The invariant of a run of consecutive presses of one word-kill key that started
   with a kill: the ring head R is everything the run removed, in text order; the
   text is the original one with exactly that span gone; the span started at the
   original cursor (forward kills) or ended there (backward kills). *)
Definition wrun_inv (c : cmd) (s0 s : st) : Prop :=
  svi s = false /\ ssel s = None /\ sprev s = cmd_id c /\
  exists pre R post,
    btext (sb s0) = pre ++ R ++ post /\
    (if wk_fwd c then len pre = bcur (sb s0) else len pre + len R = bcur (sb s0)) /\
    btext (sb s) = pre ++ post /\ bcur (sb s) = len pre /\
    ring_get (sring s) = mkclip R CHARACTERS.

Lemma app_eq_len {T} (a b c d : list T) : a ++ b = c ++ d -> len a = len c -> a = c /\ b = d.
Proof.
  intros H L.
  assert (E : a = c).
  { pose proof (firstn_app_len a b) as E1. rewrite H, L in E1. now rewrite firstn_app_len in E1. }
  subst c. split; [reflexivity|]. now apply app_inv_head in H.
Qed.

Lemma wrun_inv_step c s0 s :
  is_wk c = true -> wrun_inv c s0 s -> wrun_inv c s0 (snd (step s c None)).
Proof.
  intros Hwk (Hvi & Hsel & Hprev & pre & R & post & Ht0 & Hl & Ht & Hc & Hh).
  assert (Hi : Inv (sb s)).
  { unfold Inv. rewrite Ht, Hc, len_app. pose proof (len_nonneg pre). pose proof (len_nonneg post). lia. }
  destruct (step_wk_out s c Hwk Hvi Hsel Hi) as (s1 & Hst & Hv1 & Hs1 & Hp1 & Hcase). rewrite Hst. cbn [snd].
  split; [exact Hv1|]. split; [exact Hs1|]. split; [exact Hp1|].
  destruct Hcase as [(E1 & E2 & E3)|K].
  - exists pre, R, post. rewrite E1, E2, E3. repeat split; assumption.
  - rewrite Hprev, Z.eqb_refl, Hh in K. cbn [ctext] in K. unfold wk_acc in K.
    destruct (wk_fwd c) eqn:F.
    + destruct K as (pre' & r & post' & Kt & _ & Kt1 & Kc1 & Kf & Kr). cbn [fst snd] in *.
      rewrite Ht in Kt. rewrite Hc in Kf.
      destruct (app_eq_len pre post pre' (r ++ post') Kt (eq_sym Kf)) as [<- ->].
      exists pre, (R ++ r), post'. split; [rewrite Ht0; now rewrite <- !app_assoc|].
      split; [exact Hl|]. split; [exact Kt1|]. split; [exact Kc1|].
      rewrite Kr. apply ring_get_set.
    + destruct K as (pre' & r & post' & Kt & _ & Kt1 & Kc1 & Kf & Kr). cbn [fst snd] in *.
      rewrite Ht in Kt. rewrite Hc in Kf. rewrite app_assoc in Kt.
      assert (L : len pre = len (pre' ++ r)) by (rewrite len_app; lia).
      destruct (app_eq_len pre post (pre' ++ r) post' Kt L) as [-> ->].
      exists pre', (r ++ R), post'. split; [rewrite Ht0; now rewrite <- !app_assoc|].
      split; [rewrite len_app in *; lia|]. split; [exact Kt1|]. split; [exact Kc1|].
      rewrite Kr. apply ring_get_set.
Qed.

(* A first press that is not itself a repeat and that kills something, followed by
   ANY number n of further presses of the same key: the invariant holds, and one
   yank gives back the text from before the whole run. *)
Lemma wk_run_accumulates c n s s1 :
  is_wk c = true ->
  svi s = false -> ssel s = None -> Inv (sb s) -> sprev s <> cmd_id c ->
  step s c None = (0, s1) -> sring s1 <> sring s ->
  wrun_inv c s (wk_run c n s1) /\
  exists s3, yank (wk_run c n s1) 1 = (0, s3) /\ btext (sb s3) = btext (sb s).
Proof.
  intros Hwk Hvi Hsel Hi Hprev Hst Hring.
  assert (H1 : wrun_inv c s s1).
  { destruct (step_wk_out s c Hwk Hvi Hsel Hi) as (s1' & Hst' & Hv1 & Hs1 & Hp1 & Hcase).
    rewrite Hst in Hst'. injection Hst' as <-.
    split; [exact Hv1|]. split; [exact Hs1|]. split; [exact Hp1|].
    destruct Hcase as [(_ & _ & E3)|K]; [congruence|].
    destruct (sprev s =? cmd_id c) eqn:E; [lia|]. unfold wk_acc in K.
    destruct K as (pre & r & post & Kt & _ & Kt1 & Kc1 & Kf & Kr). cbn [fst snd] in *.
    exists pre, r, post. repeat split; try assumption. rewrite Kr. apply ring_get_set. }
  assert (Hn : wrun_inv c s (wk_run c n s1)).
  { induction n as [|n IH]; [exact H1|]. cbn [wk_run]. now apply wrun_inv_step. }
  split; [exact Hn|].
  destruct Hn as (_ & _ & _ & pre & R & post & Ht0 & Hl & Ht & Hc & Hh).
  assert (Hin : Inv (sb (wk_run c n s1))).
  { unfold Inv. rewrite Ht, Hc, len_app. pose proof (len_nonneg pre). pose proof (len_nonneg post). lia. }
  destruct (yank_1 (wk_run c n s1) Hin) as (s3 & Hy & Ht3 & _); [rewrite Hh; reflexivity|].
  exists s3. split; [exact Hy|].
  rewrite Ht3, Hh, Ht, Hc. cbn [ctext]. rewrite firstn_app_len, skipn_app_len. now rewrite Ht0.
Qed.

(* the hypotheses are satisfiable for a backward run: "ab cd", cursor 5, C-w C-w C-w *)
Lemma wk_run_example :
  let s := mkst (mkbuf [97; 98; 32; 99; 100] 5) None [] None 0 [] false in
  let s1 := snd (step s CtrlW None) in
  sring s1 <> sring s /\
  ctext (ring_get (sring (wk_run CtrlW 2 s1))) = [97; 98; 32; 99; 100] /\
  btext (sb (wk_run CtrlW 2 s1)) = [].
Proof. cbv zeta. split; [vm_compute; discriminate|]. split; vm_compute; reflexivity. Qed.

(* ---------------------------------------------------------------------- *)
(* _fix_vi_cursor_position is idempotent *)

Lemma index_app_mid {T} (a : list T) x b : index (a ++ x :: b) (len a) = Some x.
Proof.
  pose proof (len_nonneg a) as Ha. pose proof (len_nonneg b) as Hb.
  rewrite (c02_index_nth _ _ x).
  - unfold len. rewrite Nat2Z.id. rewrite app_nth2 by lia. now rewrite Nat.sub_diag.
  - rewrite len_app. replace (len (x :: b)) with (1 + len b); [lia|].
    unfold len. cbn [length]. lia.
Qed.

Lemma move_to_buf s v :
  0 <= v <= len (btext (sb s)) ->
  btext (sb (move_to s v)) = btext (sb s) /\ bcur (sb (move_to s v)) = v.
Proof.
  intros Hv. unfold move_to, upd, set_cursor. cbn [with_buf sb btext bcur]. split; [reflexivity|].
  destruct (len (btext (sb s)) <? v) eqn:E1; [lia|]. destruct (v <? 0) eqn:E2; lia.
Qed.

Lemma fix_noop_not_eol s y :
  index (btext (sb s)) (bcur (sb s)) = Some y -> (y =? NL) = false -> fix_vi_cursor s = s.
Proof.
  intros H1 H2. unfold fix_vi_cursor, cur_doc, bdoc. cbn [dtext dcur]. rewrite H1, H2.
  now rewrite andb_false_r.
Qed.

Lemma fix_vi_cursor_idem s : Inv (sb s) -> fix_vi_cursor (fix_vi_cursor s) = fix_vi_cursor s.
Proof.
  intros Hi. unfold fix_vi_cursor at 2 3.
  destruct (_ && _) eqn:C; [|unfold fix_vi_cursor; cbv zeta; now rewrite C].
  apply andb_prop in C. destruct C as [C Hcl]. apply andb_prop in C. destruct C as [C Heol].
  set (d := cur_doc s) in *.
  assert (Hv : valid d) by exact Hi.
  pose proof (tb_ta d Hv) as Hsplit. pose proof (len_tb d Hv) as Hlb.
  (* nothing of the line after the cursor *)
  assert (Ha : current_line_after_cursor d = []).
  { unfold current_line_after_cursor. destruct (text_after_cursor d) as [|x ta] eqn:Eta; [reflexivity|].
    assert (Hx : index (dtext d) (dcur d) = Some x).
    { rewrite <- Hsplit, <- Hlb. apply index_app_mid. }
    rewrite Hx in Heol. cbn [before_first]. now rewrite Heol. }
  (* so the part before the cursor is not empty; it holds no newline *)
  rewrite len_current_line, Ha in Hcl. change (len (@nil Z)) with 0 in Hcl.
  destruct (clb_split d) as (p & Hp & _).
  pose proof (clb_no_nl d) as Hno.
  destruct (current_line_before_cursor d) as [|z w0] eqn:Eb; [cbn in Hcl; lia|].
  destruct (@exists_last Z (z :: w0)) as (w & y & Ew); [discriminate|].
  rewrite Ew in Hp, Hno. rewrite mem_Z_app in Hno. apply orb_false_elim in Hno. destruct Hno as [_ Hy].
  cbn [mem_Z] in Hy. rewrite orb_false_r in Hy.
  assert (Ht : btext (sb s) = (p ++ w) ++ y :: text_after_cursor d).
  { change (btext (sb s)) with (dtext d). rewrite <- Hsplit, Hp. now rewrite <- !app_assoc. }
  assert (Hc : len (p ++ w) = bcur (sb s) - 1).
  { change (bcur (sb s)) with (dcur d). rewrite <- Hlb, Hp, !len_app. change (len [y]) with 1. lia. }
  assert (Hr : 0 <= bcur (sb s) - 1 <= len (btext (sb s))).
  { destruct Hi. pose proof (len_nonneg (p ++ w)). lia. }
  destruct (move_to_buf s (bcur (sb s) - 1) Hr) as [M1 M2].
  apply (fix_noop_not_eol _ y); [|exact Hy].
  rewrite M1, M2, Ht, <- Hc. apply index_app_mid.
Qed.

Lemma fix_with_prev s p : fix_vi_cursor (with_prev s p) = with_prev (fix_vi_cursor s) p.
Proof.
  unfold fix_vi_cursor, cur_doc. cbn [with_prev sb svi ssel].
  destruct (_ && _); reflexivity.
Qed.

(* reg-y in visual mode, then <count> reg-p / reg-P, as ONE chain through [step]:
   the fix-up run by the count digits finds the cursor already fixed by the fix-up
   that followed the yank, so the n copies go in at the position the mode defines
   for the cursor the yank left. *)
Lemma register_yank_then_counted_paste s orig r (before : bool) n :
  svi s = true -> ssel s = None -> Inv (sb s) -> 0 <= orig <= len (btext (sb s)) ->
  is_register_name r = true -> selected_chars s orig <> [] -> n < 1000000 ->
  exists s1 s2,
    step s (ViVisual orig CHARACTERS 4 r) None = (0, s1) /\
    step s1 (ViPasteReg r before) (Some n) = (0, s2) /\
    bcur (sb s) - 1 <= bcur (sb s1) <= bcur (sb s) /\
    let at_ := paste_at (if before then VI_BEFORE else VI_AFTER) (bcur (sb s1)) (len (btext (sb s))) in
    btext (sb s2) = firstn (Z.to_nat at_) (btext (sb s))
                    ++ repeat_str (selected_chars s orig) (Z.to_nat n)
                    ++ skipn (Z.to_nat at_) (btext (sb s)).
Proof.
  intros Hvi Hsel Hi Ho Hr Hne Hn.
  (* the yank, as in step_visual_register_yank, keeping the shape of the result *)
  destruct (visual_register_yank s orig r Hi Ho Hr Hne) as (s' & Hv & Hb & Hring & Hs' & Hg & _).
  assert (Hi' : Inv (sb s')) by (rewrite Hb; exact Hi).
  assert (Hst : step s (ViVisual orig CHARACTERS 4 r) None = (0, with_prev (fix_vi_cursor s') 44)).
  { unfold step, has_sel. rewrite Hvi, Hsel. cbn [negb Bool.eqb is_vi_cmd andb insert_only].
    destruct (orig <? 0) eqn:E1; [lia|]. destruct (len (btext (sb s)) <? orig) eqn:E2; [lia|].
    cbn [orb]. cbv zeta. cbn [exec]. rewrite Hv. reflexivity. }
  set (s1 := with_prev (fix_vi_cursor s') 44) in *.
  destruct (step_visual_register_yank s orig r Hvi Hsel Hi Ho Hr Hne)
    as (s1' & Hst' & Ht1 & Hr1 & Hv1 & Hs1 & Hg1 & Hc1).
  rewrite Hst in Hst'. injection Hst' as <-.
  assert (Hfix : fix_vi_cursor s1 = s1).
  { unfold s1. rewrite fix_with_prev. now rewrite fix_vi_cursor_idem. }
  assert (Hi1 : Inv (sb s1)).
  { destruct (fix_vi_cursor_frame s' Hi') as (_ & _ & _ & _ & _ & _ & Fc).
    unfold Inv. rewrite Ht1. change (bcur (sb s1)) with (bcur (sb (fix_vi_cursor s'))).
    rewrite Hb in Fc. destruct Hi. destruct Fc as [->|[? ->]]; lia. }
  destruct (step_register_paste s1 r before n (mkclip (selected_chars s orig) CHARACTERS)
              Hv1 Hs1 Hi1 Hr Hg1 eq_refl Hn) as (s2 & Hp & Ht2 & _).
  exists s1, s2. split; [exact Hst|]. split; [exact Hp|]. split; [exact Hc1|].
  cbv zeta in Ht2 |- *. rewrite Hfix, Ht1 in Ht2. exact Ht2.
Qed.

(* a word kill typed right after any OTHER key command (another binding, e.g. M-d
   then C-Delete, or anything after a typed argument) is not a repeat: it stores
   exactly what it removed *)
Lemma wk_not_repeat s c :
  is_wk c = true -> svi s = false -> ssel s = None -> Inv (sb s) -> sprev s <> cmd_id c ->
  exists s1, step s c None = (0, s1) /\
    ((btext (sb s1) = btext (sb s) /\ bcur (sb s1) = bcur (sb s) /\ sring s1 = sring s) \/
     killed (wk_fwd c) s (0, s1) (fun x => x)).
Proof.
  intros Hc Hvi Hsel Hi Hp.
  destruct (step_wk_out s c Hc Hvi Hsel Hi) as (s1 & Hst & _ & _ & _ & Hcase).
  exists s1. split; [exact Hst|]. destruct Hcase as [H|K]; [now left|right].
  destruct (sprev s =? cmd_id c) eqn:E; [lia|]. exact K.
Qed.
