(* C15 (round 6) - the list start_history_lines_completion computes
   (Model/C15_HistLines.v) and the menu it installs.

   Function level: the entries are exactly the stripped, non-empty lines of
   the working lines that start with the (left-stripped) current line before
   the cursor, each once ([hist_sound], [hist_complete], [hist_nodup]); every
   entry applied to the document keeps the text before the cursor and only
   inserts the rest of the line at the cursor ([hist_apply_extends]).
   State level: from every state that satisfies the invariant the step never
   raises and installs exactly this list for the current document, entry 0
   selected ([hist_step_spec]). *)
From Coq Require Import ZArith List Bool Lia.
From PTK Require Import Lib.Sx Lib.Py Model.C15_HistLines Model.C15_Async
  Proofs.C15_Base Proofs.C15_User Proofs.C15_Sched Proofs.C15_Rebase Proofs.C15_Theorems.
Import ListNotations.
Open Scope Z_scope.

Lemma str_mem_In x l : str_mem x l = true <-> In x l.
Proof.
  unfold str_mem. rewrite existsb_exists. split.
  - intros (y & Hy & E). apply str_eqb_eq in E. subst; auto.
  - intros H. exists x. split; auto. apply str_eqb_refl.
Qed.

(* `if l and l.startswith(current_line)` *)
Definition qual (cl l : str) : bool := negb (is_nil l) && startswith l cl.

(* the scan seen through the texts only: (found_completions, texts of completions) *)
Definition dd (cl : str) (acc : list str * list str) (l : str) : list str * list str :=
  if qual cl l then if str_mem l (fst acc) then acc else (l :: fst acc, snd acc ++ [l]) else acc.

Definition proj (st : hl_state) : list str * list str := (fst st, map hl_text (snd st)).

Lemma proj_visit cl i j l0 st : proj (hl_visit cl i j l0 st) = dd cl (proj st) (strip_by hl_space l0).
Proof.
  unfold hl_visit, dd, qual, proj. cbn [fst snd].
  destruct (negb (is_nil (strip_by hl_space l0)) && startswith (strip_by hl_space l0) cl); [|reflexivity].
  destruct (str_mem (strip_by hl_space l0) (fst st)); [reflexivity|]. cbn [fst snd]. rewrite map_app. reflexivity.
Qed.

Lemma proj_lines cl i : forall ls j st,
  proj (hl_lines cl i j ls st) = fold_left (dd cl) (map (strip_by hl_space) ls) (proj st).
Proof.
  induction ls as [|l0 r IH]; intros j st; cbn [hl_lines map fold_left]; [reflexivity|].
  rewrite IH, proj_visit. reflexivity.
Qed.

(* every line of every working line, stripped, in scan order *)
Definition stripped_lines (wl : list str) : list str :=
  flat_map (fun s => map (strip_by hl_space) (split_on NL s)) wl.

Lemma proj_strings cl : forall wl i st,
  proj (hl_strings cl i wl st) = fold_left (dd cl) (stripped_lines wl) (proj st).
Proof.
  induction wl as [|s r IH]; intros i st; cbn [hl_strings stripped_lines flat_map]; [reflexivity|].
  rewrite IH, proj_lines. fold (stripped_lines r). rewrite fold_left_app. reflexivity.
Qed.

Lemma NoDup_snoc {T} (l : list T) (x : T) : NoDup l -> ~ In x l -> NoDup (l ++ [x]).
Proof.
  intros H Hn. apply (NoDup_Add (a := x) (l := l)).
  - pose proof (Add_app x l []) as A. rewrite app_nil_r in A. exact A.
  - split; assumption.
Qed.

Lemma dd_one cl acc a :
  (forall x, In x (fst acc) <-> In x (snd acc)) -> NoDup (snd acc) ->
  (forall x, In x (fst (dd cl acc a)) <-> In x (snd (dd cl acc a))) /\
  NoDup (snd (dd cl acc a)) /\
  (forall x, In x (snd (dd cl acc a)) <-> In x (snd acc) \/ (x = a /\ qual cl x = true)).
Proof.
  intros Hs Hn. unfold dd. destruct (qual cl a) eqn:Eq.
  - destruct (str_mem a (fst acc)) eqn:Em.
    + split; [exact Hs|]. split; [exact Hn|]. intros x. split; [auto|].
      intros [P|(P & _)]; [exact P|]. subst x. apply Hs. apply str_mem_In. exact Em.
    + assert (Hni : ~ In a (snd acc)).
      { intros P. apply Hs in P. apply str_mem_In in P. congruence. }
      cbn [fst snd]. split.
      * intros x. rewrite in_app_iff. cbn [In]. rewrite (Hs x). tauto.
      * split; [apply NoDup_snoc; assumption|]. intros x. rewrite in_app_iff. cbn [In]. split.
        -- intros [P|[P|[]]]; [left; exact P|]. subst x. right. split; [reflexivity|exact Eq].
        -- intros [P|(P & _)]; [left; exact P|]. subst x. right. left. reflexivity.
  - split; [exact Hs|]. split; [exact Hn|]. intros x. split; [auto|].
    intros [P|(P & Q)]; [exact P|]. subst x. congruence.
Qed.

Lemma dd_fold cl : forall L acc,
  (forall x, In x (fst acc) <-> In x (snd acc)) -> NoDup (snd acc) ->
  (forall x, In x (fst (fold_left (dd cl) L acc)) <-> In x (snd (fold_left (dd cl) L acc))) /\
  NoDup (snd (fold_left (dd cl) L acc)) /\
  (forall x, In x (snd (fold_left (dd cl) L acc)) <-> In x (snd acc) \/ (In x L /\ qual cl x = true)).
Proof.
  induction L as [|a L IH]; intros acc Hs Hn; cbn [fold_left].
  - split; [exact Hs|]. split; [exact Hn|]. intros x. split; [auto|]. intros [A|(A & _)]; [exact A|destruct A].
  - destruct (dd_one cl acc a Hs Hn) as (S1 & N1 & I1).
    destruct (IH (dd cl acc a) S1 N1) as (A & B & C). split; [exact A|]. split; [exact B|].
    intros x. rewrite C, I1. cbn [In]. split.
    + intros [[P|(P & Q)]|(P & Q)]; [left; exact P|right; split; [left; symmetry; exact P|exact Q]|right; split; [right; exact P|exact Q]].
    + intros [P|([P|P] & Q)]; [left; left; exact P|left; right; split; [symmetry; exact P|exact Q]|right; split; assumption].
Qed.

Lemma hist_texts wl t p :
  map hl_text (hist_entries wl t p) =
  rev (snd (fold_left (dd (hl_current_line t p)) (stripped_lines wl) ([], []))).
Proof.
  unfold hist_entries. rewrite map_rev. f_equal.
  change (map hl_text (snd (hl_strings (hl_current_line t p) 0 wl ([], []))))
    with (snd (proj (hl_strings (hl_current_line t p) 0 wl ([], [])))).
  rewrite proj_strings. reflexivity.
Qed.

Lemma in_stripped_lines wl x :
  In x (stripped_lines wl) <-> exists s l0, In s wl /\ In l0 (split_on NL s) /\ x = strip_by hl_space l0.
Proof.
  unfold stripped_lines. rewrite in_flat_map. split.
  - intros (s & Hs & Hx). apply in_map_iff in Hx. destruct Hx as (l0 & E & Hl). exists s, l0. auto.
  - intros (s & l0 & Hs & Hl & E). exists s. split; [exact Hs|]. apply in_map_iff. exists l0. auto.
Qed.

Lemma hist_facts wl t p :
  NoDup (map hl_text (hist_entries wl t p)) /\
  (forall x, In x (map hl_text (hist_entries wl t p)) <->
             In x (stripped_lines wl) /\ qual (hl_current_line t p) x = true).
Proof.
  rewrite hist_texts.
  destruct (dd_fold (hl_current_line t p) (stripped_lines wl) ([], [])) as (_ & B & C).
  - intros x. cbn [fst snd]. tauto.
  - constructor.
  - split; [apply NoDup_rev; exact B|]. intros x. rewrite <- in_rev, C. cbn [snd In]. tauto.
Qed.

(* every entry is a stripped, non-empty line of a working line that starts
   with the left-stripped current line before the cursor *)
Theorem hist_sound wl t p l st : In (l, st) (hist_lines wl t p) ->
  st = - len (hl_current_line t p) /\ st <= 0 /\ l <> [] /\
  startswith l (hl_current_line t p) = true /\
  exists s l0, In s wl /\ In l0 (split_on NL s) /\ l = strip_by hl_space l0.
Proof.
  unfold hist_lines. intros H. apply in_map_iff in H. destruct H as (e & E & He). inversion E; subst l st; clear E.
  split; [reflexivity|]. split; [pose proof (len_nonneg (hl_current_line t p)); lia|].
  destruct (hist_facts wl t p) as (_ & C).
  assert (Hin : In (hl_text e) (map hl_text (hist_entries wl t p))) by (apply in_map; exact He).
  apply C in Hin. destruct Hin as (A & Q). unfold qual in Q. apply andb_true_iff in Q. destruct Q as (Q1 & Q2).
  split; [destruct (hl_text e); [discriminate Q1|discriminate]|]. split; [exact Q2|].
  apply in_stripped_lines. exact A.
Qed.

(* ... and every such line is an entry *)
Theorem hist_complete wl t p s l0 :
  In s wl -> In l0 (split_on NL s) ->
  strip_by hl_space l0 <> [] -> startswith (strip_by hl_space l0) (hl_current_line t p) = true ->
  In (strip_by hl_space l0, - len (hl_current_line t p)) (hist_lines wl t p).
Proof.
  intros Hs Hl Hne Hsw. unfold hist_lines.
  destruct (hist_facts wl t p) as (_ & C).
  assert (Hin : In (strip_by hl_space l0) (map hl_text (hist_entries wl t p))).
  { apply C. split; [apply in_stripped_lines; eauto|]. unfold qual. rewrite Hsw.
    destruct (strip_by hl_space l0); [congruence|reflexivity]. }
  apply in_map_iff in Hin. destruct Hin as (e & E & He). apply in_map_iff. exists e. rewrite E. auto.
Qed.

(* ... once *)
Theorem hist_nodup wl t p : NoDup (map fst (hist_lines wl t p)).
Proof.
  unfold hist_lines. rewrite map_map. cbn [fst]. apply (proj1 (hist_facts wl t p)).
Qed.

(* --- applying an entry ----------------------------------------------------- *)
Lemma lstrip_suffix f : forall s, exists a, s = a ++ lstrip_by f s.
Proof.
  induction s as [|x r IH]; cbn [lstrip_by]; [exists []; reflexivity|].
  destruct (f x); [|exists []; reflexivity].
  destruct IH as (a & Ha). exists (x :: a). cbn [app]. f_equal. exact Ha.
Qed.

Lemma before_first_prefix c : forall s, exists b, s = before_first c s ++ b.
Proof.
  induction s as [|x r IH]; cbn [before_first]; [exists []; reflexivity|].
  destruct (x =? c); [exists (x :: r); reflexivity|].
  destruct IH as (b & Hb). exists b. cbn [app]. f_equal. exact Hb.
Qed.

Lemma after_last_suffix c s : exists a, s = a ++ after_last c s.
Proof.
  unfold after_last. destruct (before_first_prefix c (rev s)) as (b & Hb).
  exists (rev b). rewrite <- rev_app_distr, <- Hb. symmetry. apply rev_involutive.
Qed.

(* the left-stripped current line is the end of the text before the cursor *)
Lemma current_line_suffix t p : exists pre, slice_to t p = pre ++ hl_current_line t p.
Proof.
  unfold hl_current_line. destruct (after_last_suffix NL (slice_to t p)) as (a & Ha).
  destruct (lstrip_suffix hl_space (after_last NL (slice_to t p))) as (b & Hb).
  exists (a ++ b). rewrite <- app_assoc, <- Hb. exact Ha.
Qed.

Lemma slice_to_neg_suffix {T} (pre cl : list T) : cl <> [] -> slice_to (pre ++ cl) (- len cl) = pre.
Proof.
  intros Hne. unfold slice_to, slice, adj_index.
  assert (Hl : 0 < len cl) by (destruct cl; [congruence|rewrite len_cons; pose proof (len_nonneg cl); lia]).
  destruct (- len cl <? 0) eqn:E; [|lia].
  rewrite len_app. replace (- len cl + (len pre + len cl)) with (len pre) by lia.
  pose proof (len_nonneg pre) as Hp. rewrite Z.max_r by lia.
  destruct (0 <? len pre) eqn:E2.
  - rewrite Z.sub_0_r. cbn [Z.to_nat skipn]. unfold len. rewrite Nat2Z.id.
    rewrite firstn_app, Nat.sub_diag, firstn_all. cbn [firstn]. apply app_nil_r.
  - destruct pre; [reflexivity|rewrite len_cons in E2; pose proof (len_nonneg pre); lia].
Qed.

(* selecting an entry keeps everything before the cursor and inserts the rest
   of the found line at the cursor *)
Theorem hist_apply_extends wl t p l st src : 0 <= p <= len t -> In (l, st) (hist_lines wl t p) ->
  apply_comp (mkdoc t p) (mkc l st src) =
  (slice_to t p ++ skipn (length (hl_current_line t p)) l ++ slice_from t p,
   p + len l - len (hl_current_line t p)).
Proof.
  intros Hp Hin. destruct (hist_sound _ _ _ _ _ Hin) as (Hst & _ & _ & Hsw & _). subst st.
  apply startswith_split in Hsw.
  destruct (current_line_suffix t p) as (pre & Hpre).
  assert (Hlen : len (slice_to t p) = p) by (apply (len_tbc (mkdoc t p)); exact Hp).
  unfold apply_comp, tbc, tac. cbn [ctext cstart dtext dcur].
  set (cl := hl_current_line t p) in *.
  clearbody cl.
  destruct cl as [|c0 cr].
  - change (- len (@nil Z) =? 0) with true. cbn [length skipn]. rewrite app_nil_r in Hpre.
    change (len (@nil Z)) with 0. f_equal. lia.
  - assert (E : (- len (c0 :: cr) =? 0) = false).
    { rewrite len_cons. pose proof (len_nonneg cr). apply Z.eqb_neq. lia. }
    rewrite E. rewrite Hpre at 1 2. rewrite slice_to_neg_suffix by discriminate.
    f_equal.
    + rewrite Hpre. rewrite Hsw at 1. rewrite <- !app_assoc. reflexivity.
    + rewrite Hpre, len_app in Hlen. lia.
Qed.

(* --- the step --------------------------------------------------------------- *)
Definition pairs (l : list completion) : list (str * Z) := map (fun c => (ctext c, cstart c)) l.

Lemma pairs_tagged d l : pairs (map (fun x : str * Z => mkc (fst x) (snd x) d) l) = l.
Proof.
  unfold pairs. rewrite map_map. cbn [ctext cstart]. rewrite <- (map_id l) at 2. apply map_ext. intros [a b]. reflexivity.
Qed.

(* start_history_lines_completion from any state of the invariant: no
   exception; a new menu for the CURRENT document whose entries are exactly
   the computed list, each tagged as computed from the current document;
   entry 0 selected (nothing when the list is empty) and applied *)
Theorem hist_step_spec s b a s' e : Inv s -> step s (HistoryLines b a) = (s', e) ->
  let l := hist_lines (working_lines s b a) (text s) (cur s) in
  e = 0 /\ Inv s' /\
  exists cs, cst s' = Some cs /\ cs_orig cs = cur_doc s /\ pairs (cs_comps cs) = l /\
             Forall (fun c => csrc c = cur_doc s) (cs_comps cs) /\ cs_shift cs = [] /\
             cs_idx cs = (match l with [] => None | _ => Some 0 end) /\
             ntp cs = Some (text s', cur s').
Proof.
  intros HI H l. cbn [step] in H. unfold hist_step in H. fold l in H.
  pose proof (install_menu_Inv _ _ _ _ HI H) as HI'.
  unfold install_menu in H.
  set (comps := map (fun x : str * Z => mkc (fst x) (snd x) (cur_doc s)) l) in *.
  assert (Hf : Forall (fun c => csrc c = cur_doc s) comps).
  { apply Forall_forall. intros c Hin. apply in_map_iff in Hin. destruct Hin as (x & Hx & _). subst c. reflexivity. }
  pose proof (set_completions_Inv s comps HI Hf) as (W1 & _ & _ & K1).
  set (s1 := set_completions s comps []) in *.
  set (cs0 := mkcs (next_id s) (cur_doc s) comps None []).
  assert (Hc1 : cst s1 = Some cs0) by reflexivity.
  destruct (gtc_spec _ _ _ _ W1 K1 H) as (_ & _ & _ & G).
  assert (Hp : pairs comps = l) by apply pairs_tagged.
  destruct l as [|x r] eqn:El.
  - (* empty list: go_to_index changes nothing *)
    assert (Hg : go_to_index cs0 (Some 0) = Some cs0) by reflexivity.
    destruct (G cs0 cs0 Hc1 Hg) as (E0 & Hc' & Hn); [unfold idx_ok; cbn; exact I|].
    split; [exact E0|]. split; [exact HI'|]. exists cs0. repeat split; auto.
  - assert (Hg : go_to_index cs0 (Some 0) = Some (cs_with_idx cs0 (Some 0))).
    { unfold go_to_index. cbn [cs_comps cs0]. unfold comps. cbn [map].
      replace ((0 <=? 0) && (0 <? len (mkc (fst x) (snd x) (cur_doc s) :: map (fun x0 : str * Z => mkc (fst x0) (snd x0) (cur_doc s)) r)))
        with true; [reflexivity|].
      symmetry. apply andb_true_iff. split; [reflexivity|]. rewrite len_cons.
      pose proof (len_nonneg (map (fun x0 : str * Z => mkc (fst x0) (snd x0) (cur_doc s)) r)). apply Z.ltb_lt. lia. }
    destruct (G cs0 _ Hc1 Hg) as (E0 & Hc' & Hn).
    { unfold idx_ok; cbn [cs_idx cs_with_idx cs_comps cs0]. unfold comps. cbn [map]. rewrite len_cons.
      pose proof (len_nonneg (map (fun x0 : str * Z => mkc (fst x0) (snd x0) (cur_doc s)) r)). lia. }
    split; [exact E0|]. split; [exact HI'|]. exists (cs_with_idx cs0 (Some 0)). repeat split; auto.
Qed.

Lemma reach_hist_step c t p ls before after s' e :
  0 <= p <= len t ->
  let s := reach c t p ls in
  step s (HistoryLines before after) = (s', e) ->
  let l := hist_lines (before ++ [text s] ++ after) (text s) (cur s) in
  e = 0 /\
  exists cs, cst s' = Some cs /\ cs_orig cs = cur_doc s /\
             map (fun x => (ctext x, cstart x)) (cs_comps cs) = l /\
             Forall (fun x => csrc x = cur_doc s) (cs_comps cs) /\
             cs_idx cs = (match l with [] => None | _ => Some 0 end) /\
             ntp cs = Some (text s', cur s').
Proof.
  intros Hp s H l.
  assert (HI : Inv s) by (apply reachc_Inv; exact Hp).
  destruct (hist_step_spec s before after s' e HI H) as (E0 & _ & cs & A1 & A2 & A3 & A4 & _ & A6 & A7).
  split; [exact E0|]. exists cs. repeat split; auto.
Qed.
