(* C02 - word motions of prompt_toolkit.document.Document
   (Model/C02_DocQueries.v, section "Word motions").

   [runs cls s] models regex.finditer(s) for _FIND_WORD_RE / _FIND_BIG_WORD_RE:
   proved here to be the sorted list of the maximal runs of one non-blank
   class ([is_run]).  On top of that: every offset returned by the word
   motions is inside the text, goes in the advertised direction and lands on a
   word boundary - except find_previous_word_ending, which is off by one when
   the cursor is at the end of the text (refuted below, proved otherwise) and
   escapes the text for count = 0. *)
From Coq Require Import ZArith List Bool Lia.
From PTK Require Import Lib.Sx Lib.Py Gen.Whitespace Model.Document Model.C02_DocQueries Proofs.C02_Base.
Import ListNotations.
Open Scope Z_scope.

(* class of the character at Z-index j of s, 0 (blank) outside the string *)
Definition clsat (cls : Z -> Z) (s : str) (j : Z) : Z :=
  if j <? 0 then 0
  else match nth_error s (Z.to_nat j) with Some c => cls c | None => 0 end.

Definition is_run (cls : Z -> Z) (s : str) (st en : Z) : Prop :=
  0 <= st < en /\ en <= len s /\
  exists k, k <> 0 /\ (forall j, st <= j < en -> clsat cls s j = k) /\
            clsat cls s (st - 1) <> k /\ clsat cls s en <> k.

(* ---------------------------------------------------------------------- *)
(* List helpers *)

Lemma w_skipn_cons_nth {T} (w : list T) : forall n c r,
  skipn n w = c :: r -> nth_error w n = Some c /\ skipn (S n) w = r.
Proof.
  induction w as [|x w IH]; intros n c r H.
  - destruct n; discriminate.
  - destruct n as [|n].
    + cbn [skipn] in H. inversion H; subst. split; reflexivity.
    + cbn [skipn] in H. apply IH in H. exact H.
Qed.

Lemma w_nth_error_skipn {T} (s : list T) : forall n m,
  nth_error (skipn n s) m = nth_error s (n + m).
Proof.
  induction s as [|x s IH]; intros n m.
  - destruct n; destruct m; reflexivity.
  - destruct n as [|n]; [reflexivity|]. cbn [skipn]. rewrite IH. reflexivity.
Qed.

Lemma w_nth_error_firstn {T} (s : list T) : forall n m,
  (m < n)%nat -> nth_error (firstn n s) m = nth_error s m.
Proof.
  induction s as [|x s IH]; intros n m H.
  - destruct n; reflexivity.
  - destruct n as [|n]; [lia|]. destruct m as [|m]; [reflexivity|].
    cbn [firstn nth_error]. apply IH. lia.
Qed.

Lemma w_nth_error_rev (s : str) n :
  (n < length s)%nat -> nth_error (rev s) n = nth_error s (length s - S n).
Proof.
  intros H. rewrite (nth_error_nth' (rev s) 0) by (rewrite rev_length; exact H).
  rewrite (nth_error_nth' s 0) by lia. f_equal. apply rev_nth. exact H.
Qed.

Lemma w_firstn_S_snoc {T} : forall n (t : list T) x,
  nth_error t n = Some x -> firstn (S n) t = firstn n t ++ [x].
Proof.
  induction n as [|n IH]; intros t x H.
  - destruct t as [|y t]; [discriminate|]. cbn [nth_error] in H. inversion H; subst. reflexivity.
  - destruct t as [|y t]; [discriminate|]. cbn [nth_error] in H.
    change (firstn (S (S n)) (y :: t)) with (y :: firstn (S n) t).
    rewrite (IH _ _ H). reflexivity.
Qed.

Lemma w_slice_from_1 {T} (s : list T) : slice_from s 1 = skipn 1 s.
Proof.
  destruct s as [|x s]; [reflexivity|].
  change 1%nat with (Z.to_nat 1). apply slice_from_in_range; [lia|].
  rewrite len_cons. pose proof (len_nonneg s). lia.
Qed.

Lemma w_slice_to_1 {T} (s : list T) : slice_to s 1 = firstn 1 s.
Proof.
  destruct s as [|x s]; [reflexivity|].
  change 1%nat with (Z.to_nat 1). apply slice_to_in_range; [lia|].
  rewrite len_cons. pose proof (len_nonneg s). lia.
Qed.

(* ---------------------------------------------------------------------- *)
(* clsat *)

Lemma clsat_neg cls s j : j < 0 -> clsat cls s j = 0.
Proof. intros H. unfold clsat. destruct (j <? 0) eqn:E; [reflexivity|lia]. Qed.

Lemma clsat_some cls s j c :
  0 <= j -> nth_error s (Z.to_nat j) = Some c -> clsat cls s j = cls c.
Proof. intros H Hn. unfold clsat. destruct (j <? 0) eqn:E; [lia|]. now rewrite Hn. Qed.

Lemma clsat_high cls s j : len s <= j -> clsat cls s j = 0.
Proof.
  intros H. unfold clsat. destruct (j <? 0) eqn:E; [reflexivity|].
  assert (Hn : nth_error s (Z.to_nat j) = None).
  { apply nth_error_None. unfold len in H. lia. }
  now rewrite Hn.
Qed.

Lemma clsat_skipn cls s n j :
  0 <= j -> clsat cls (skipn n s) j = clsat cls s (Z.of_nat n + j).
Proof.
  intros Hj. unfold clsat. destruct (j <? 0) eqn:E1; [lia|].
  destruct (Z.of_nat n + j <? 0) eqn:E2; [apply Z.ltb_lt in E2; lia|].
  rewrite w_nth_error_skipn.
  replace (Z.to_nat (Z.of_nat n + j)) with (n + Z.to_nat j)%nat by lia. reflexivity.
Qed.

Lemma clsat_firstn cls s n j :
  j < Z.of_nat n -> clsat cls (firstn n s) j = clsat cls s j.
Proof.
  intros Hj. unfold clsat. destruct (j <? 0) eqn:E; [reflexivity|].
  rewrite w_nth_error_firstn by lia. reflexivity.
Qed.

Lemma clsat_rev cls p j :
  0 <= j < len p -> clsat cls (rev p) j = clsat cls p (len p - 1 - j).
Proof.
  intros Hj. unfold clsat. destruct (j <? 0) eqn:E1; [lia|].
  destruct (len p - 1 - j <? 0) eqn:E2; [lia|].
  rewrite w_nth_error_rev by (unfold len in Hj; lia).
  replace (Z.to_nat (len p - 1 - j)) with (length p - S (Z.to_nat j))%nat
    by (unfold len in *; lia).
  reflexivity.
Qed.

(* ---------------------------------------------------------------------- *)
(* runs: ordered, disjoint, inside the string *)

Fixpoint chain (lo hi : Z) (l : list (Z * Z)) : Prop :=
  match l with
  | [] => lo <= hi
  | (st, en) :: r => lo <= st /\ st < en /\ chain en hi r
  end.

Lemma chain_le lo hi l : chain lo hi l -> lo <= hi.
Proof.
  revert lo. induction l as [|[st en] r IH]; intros lo H; cbn [chain] in H.
  - exact H.
  - destruct H as (H1 & H2 & H3). apply IH in H3. lia.
Qed.

Lemma chain_weaken lo lo' hi l : lo' <= lo -> chain lo hi l -> chain lo' hi l.
Proof.
  destruct l as [|[st en] r]; cbn [chain]; intros Hl H; [lia|].
  destruct H as (H1 & H2 & H3). repeat split; try lia. exact H3.
Qed.

Lemma chain_In lo hi l st en :
  chain lo hi l -> In (st, en) l -> lo <= st < en /\ en <= hi.
Proof.
  revert lo. induction l as [|[st0 en0] r IH]; intros lo H HI; cbn [chain] in H.
  - destruct HI.
  - destruct H as (H1 & H2 & H3). destruct HI as [HE|HI].
    + inversion HE; subst. apply chain_le in H3. lia.
    + specialize (IH _ H3 HI). lia.
Qed.

Lemma chain_sorted lo hi l :
  chain lo hi l ->
  forall (a b : nat) st1 en1 st2 en2, (a < b)%nat ->
    nth_error l a = Some (st1, en1) -> nth_error l b = Some (st2, en2) -> en1 <= st2.
Proof.
  revert lo. induction l as [|[st0 en0] r IH]; intros lo H a b st1 en1 st2 en2 Hab Ha Hb.
  - destruct a; discriminate.
  - cbn [chain] in H. destruct H as (H1 & H2 & H3).
    destruct b as [|b']; [lia|]. cbn [nth_error] in Hb.
    destruct a as [|a']; cbn [nth_error] in Ha.
    + inversion Ha; subst. apply nth_error_In in Hb.
      pose proof (chain_In _ _ _ _ _ H3 Hb) as HB. lia.
    + apply (IH _ H3 a' b' st1 en1 st2 en2); [lia|exact Ha|exact Hb].
Qed.

Lemma runs_aux_chain cls s : forall i cur,
  match cur with Some (st0, _) => st0 < i | None => True end ->
  chain (match cur with Some (st0, _) => st0 | None => i end) (i + len s)
        (runs_aux cls s i cur).
Proof.
  induction s as [|c r IH]; intros i cur Hc.
  - cbn [runs_aux]. destruct cur as [[st0 k0]|]; cbn [chain]; rewrite len_nil; lia.
  - cbn [runs_aux]. cbv zeta. rewrite len_cons.
    replace (i + (1 + len r)) with (i + 1 + len r) by lia.
    assert (Hn : chain i (i + 1 + len r)
                   (runs_aux cls r (i + 1) (if cls c =? 0 then None else Some (i, cls c)))).
    { destruct (cls c =? 0) eqn:E0.
      - apply (chain_weaken (i + 1)); [lia|]. apply (IH (i + 1) None). exact I.
      - apply (IH (i + 1) (Some (i, cls c))). lia. }
    destruct cur as [[st0 k0]|].
    + destruct (cls c =? k0) eqn:E.
      * apply (IH (i + 1) (Some (st0, k0))). lia.
      * cbn [chain]. split; [lia|]. split; [lia|]. exact Hn.
    + exact Hn.
Qed.

Lemma runs_chain cls s : chain 0 (len s) (runs cls s).
Proof. unfold runs. apply (runs_aux_chain cls s 0 None). exact I. Qed.

(* 1 *)
Lemma C02w_runs_bounds cls s st en :
  In (st, en) (runs cls s) -> 0 <= st < en /\ en <= len s.
Proof. apply chain_In. apply runs_chain. Qed.

(* 2 *)
Lemma C02w_runs_sorted cls s :
  forall (a b : nat) st1 en1 st2 en2, (a < b)%nat ->
    nth_error (runs cls s) a = Some (st1, en1) ->
    nth_error (runs cls s) b = Some (st2, en2) -> en1 <= st2.
Proof. apply (chain_sorted 0 (len s)). apply runs_chain. Qed.

(* ---------------------------------------------------------------------- *)
(* runs: every match is a maximal run of one non-blank class *)

Definition run_inv (cls : Z -> Z) (w : str) (i : Z) (cur : option (Z * Z)) : Prop :=
  match cur with
  | Some (st0, k0) =>
      k0 <> 0 /\ 0 <= st0 < i /\ (forall j, st0 <= j < i -> clsat cls w j = k0) /\
      clsat cls w (st0 - 1) <> k0
  | None => clsat cls w (i - 1) = 0
  end.

Lemma runs_aux_is_run cls w : forall s i cur,
  0 <= i -> i <= len w -> skipn (Z.to_nat i) w = s -> run_inv cls w i cur ->
  forall st en, In (st, en) (runs_aux cls s i cur) -> is_run cls w st en.
Proof.
  induction s as [|c r IH]; intros i cur Hi Hiw Hs Hinv st en HI.
  - cbn [runs_aux] in HI. destruct cur as [[st0 k0]|]; [|destruct HI].
    destruct HI as [HE|[]]. inversion HE; subst st0 i.
    cbn [run_inv] in Hinv. destruct Hinv as (Hk & Hst & Hall & Hprev).
    assert (Hlen : len w <= en).
    { pose proof (len_skipn w (Z.to_nat en)) as HL. rewrite Hs, len_nil in HL. lia. }
    unfold is_run. split; [lia|]. split; [lia|]. exists k0.
    split; [exact Hk|]. split; [exact Hall|]. split; [exact Hprev|].
    rewrite clsat_high by exact Hlen. intro HH. apply Hk. now symmetry.
  - apply w_skipn_cons_nth in Hs. destruct Hs as [Hn Hs'].
    replace (S (Z.to_nat i)) with (Z.to_nat (i + 1)) in Hs' by lia.
    assert (Hci : clsat cls w i = cls c) by (apply clsat_some; assumption).
    assert (Hi1 : i + 1 <= len w).
    { assert (Z.to_nat i < length w)%nat as HH by (apply nth_error_Some; rewrite Hn; discriminate).
      unfold len. lia. }
    assert (Hnxt : (cls c <> 0 -> clsat cls w (i - 1) <> cls c) ->
                   run_inv cls w (i + 1) (if cls c =? 0 then None else Some (i, cls c))).
    { intros Hp. destruct (cls c =? 0) eqn:E0; cbn [run_inv].
      - replace (i + 1 - 1) with i by lia. rewrite Hci. lia.
      - assert (Hk : cls c <> 0) by lia.
        split; [exact Hk|]. split; [lia|]. split.
        + intros j Hj. assert (j = i) by lia. subst j. exact Hci.
        + apply Hp. exact Hk. }
    cbn [runs_aux] in HI. cbv zeta in HI.
    destruct cur as [[st0 k0]|]; cbn [run_inv] in Hinv.
    + destruct Hinv as (Hk & Hst & Hall & Hprev).
      destruct (cls c =? k0) eqn:E.
      * apply (IH (i + 1) (Some (st0, k0))); try assumption; try lia.
        cbn [run_inv]. split; [exact Hk|]. split; [lia|]. split; [|exact Hprev].
        intros j Hj. destruct (Z.eq_dec j i) as [->|Hne].
        -- rewrite Hci. lia.
        -- apply Hall. lia.
      * destruct HI as [HE|HI].
        -- inversion HE; subst st0 i.
           unfold is_run. split; [lia|]. split; [lia|]. exists k0.
           split; [exact Hk|]. split; [exact Hall|]. split; [exact Hprev|].
           rewrite Hci. lia.
        -- apply (IH (i + 1) (if cls c =? 0 then None else Some (i, cls c)));
             try assumption; try lia.
           apply Hnxt. intros _. rewrite (Hall (i - 1)) by lia. lia.
    + apply (IH (i + 1) (if cls c =? 0 then None else Some (i, cls c)));
        try assumption; try lia.
      apply Hnxt. intros Hk. rewrite Hinv. lia.
Qed.

(* 3 *)
Lemma C02w_runs_is_run cls s st en : In (st, en) (runs cls s) -> is_run cls s st en.
Proof.
  unfold runs. apply (runs_aux_is_run cls s s 0 None).
  - lia.
  - apply len_nonneg.
  - reflexivity.
  - cbn [run_inv]. apply clsat_neg. lia.
Qed.

(* ---------------------------------------------------------------------- *)
(* nth_match / bump *)

(* 4 *)
Lemma nth_match_spec {T} (ms : list T) count x :
  nth_match ms count = Some x -> 1 <= count /\ nth_error ms (Z.to_nat (count - 1)) = Some x.
Proof.
  unfold nth_match. destruct (count <? 1) eqn:E; [discriminate|]. intros H. split; [lia|exact H].
Qed.

Lemma nth_match_In {T} (ms : list T) count x : nth_match ms count = Some x -> In x ms.
Proof. intros H. apply nth_match_spec in H. destruct H as [_ H]. eapply nth_error_In. exact H. Qed.

Lemma bump_chain ms hi count st en :
  chain 0 hi ms -> 1 <= count -> nth_match ms (bump ms count) = Some (st, en) -> 1 <= st.
Proof.
  intros Hch Hc H. apply nth_match_spec in H. destruct H as [_ H].
  destruct ms as [|[st0 en0] ms].
  - destruct (Z.to_nat (bump [] count - 1)); discriminate.
  - cbn [bump] in H. cbn [chain] in Hch. destruct Hch as (H1 & H2 & H3).
    destruct (st0 =? 0) eqn:E0.
    + destruct (Z.to_nat (count + 1 - 1)) as [|n] eqn:En; [lia|].
      cbn [nth_error] in H. apply nth_error_In in H.
      pose proof (chain_In _ _ _ _ _ H3 H) as HB. lia.
    + destruct (Z.to_nat (count - 1)) as [|n] eqn:En; cbn [nth_error] in H.
      * inversion H; subst. lia.
      * apply nth_error_In in H. pose proof (chain_In _ _ _ _ _ H3 H) as HB. lia.
Qed.

(* 5 *)
Lemma C02w_bump_skips_zero cls s count st en :
  1 <= count -> nth_match (runs cls s) (bump (runs cls s) count) = Some (st, en) -> 1 <= st.
Proof. intros Hc H. exact (bump_chain _ _ _ _ _ (runs_chain cls s) Hc H). Qed.

(* ---------------------------------------------------------------------- *)
(* What each core returns, in terms of [runs] *)

Lemma prev_beg_core_run d count WORD r :
  previous_word_beginning_core d count WORD = Some r ->
  exists st en, r = - en /\ In (st, en) (runs (word_cls WORD) (rev (text_before_cursor d))).
Proof.
  unfold previous_word_beginning_core. intros H.
  destruct (nth_match (runs (word_cls WORD) (rev (text_before_cursor d))) count)
    as [[st en]|] eqn:E; [|discriminate].
  inversion H; subst. exists st, en. split; [reflexivity|]. eapply nth_match_In. exact E.
Qed.

Lemma next_beg_core_run d count WORD r :
  next_word_beginning_core d count WORD = Some r ->
  exists en, In (r, en) (runs (word_cls WORD) (text_after_cursor d)) /\ (1 <= count -> 1 <= r).
Proof.
  unfold next_word_beginning_core. cbv zeta. intros H.
  destruct (nth_match (runs (word_cls WORD) (text_after_cursor d))
              (bump (runs (word_cls WORD) (text_after_cursor d)) count))
    as [[st en]|] eqn:E; [|discriminate].
  inversion H; subst. exists en. split.
  - eapply nth_match_In. exact E.
  - intros Hc. eapply C02w_bump_skips_zero; [exact Hc|exact E].
Qed.

Lemma next_end_core_run d incl count WORD r :
  next_word_ending_core d incl count WORD = Some r ->
  exists st en,
    In (st, en) (runs (word_cls WORD)
                   (if incl then text_after_cursor d else skipn 1 (text_after_cursor d))) /\
    r = (if incl then en else en + 1).
Proof.
  unfold next_word_ending_core. cbv zeta. rewrite w_slice_from_1. intros H.
  destruct (nth_match
              (runs (word_cls WORD)
                 (if incl then text_after_cursor d else skipn 1 (text_after_cursor d))) count)
    as [[st en]|] eqn:E; [|discriminate].
  inversion H; subst. exists st, en. split; [|reflexivity]. eapply nth_match_In. exact E.
Qed.

Lemma prev_end_core_run d count WORD r :
  previous_word_ending_core d count WORD = Some r ->
  exists st en,
    In (st, en) (runs (word_cls WORD)
                   (firstn 1 (text_after_cursor d) ++ rev (text_before_cursor d))) /\
    r = - st + 1 /\ (1 <= count -> 1 <= st).
Proof.
  unfold previous_word_ending_core. cbv zeta. rewrite w_slice_to_1. intros H.
  destruct (nth_match
              (runs (word_cls WORD) (firstn 1 (text_after_cursor d) ++ rev (text_before_cursor d)))
              (bump (runs (word_cls WORD)
                       (firstn 1 (text_after_cursor d) ++ rev (text_before_cursor d))) count))
    as [[st en]|] eqn:E; [|discriminate].
  inversion H; subst. exists st, en. split; [|split; [reflexivity|]].
  - eapply nth_match_In. exact E.
  - intros Hc. eapply C02w_bump_skips_zero; [exact Hc|exact E].
Qed.

(* ---------------------------------------------------------------------- *)
(* 6/7: in bounds and direction, per core *)

Lemma prev_beg_core_bounds d count WORD r :
  valid d -> previous_word_beginning_core d count WORD = Some r ->
  0 <= dcur d + r <= len (dtext d) /\ r < 0.
Proof.
  intros Hv H. apply prev_beg_core_run in H. destruct H as (st & en & -> & HI).
  apply C02w_runs_bounds in HI. rewrite len_rev, (len_tb d Hv) in HI.
  destruct Hv as [Hv0 Hv1]. lia.
Qed.

Lemma next_beg_core_bounds d count WORD r :
  valid d -> next_word_beginning_core d count WORD = Some r ->
  0 <= dcur d + r <= len (dtext d) /\ 0 <= r /\ (1 <= count -> 1 <= r).
Proof.
  intros Hv H. apply next_beg_core_run in H. destruct H as (en & HI & Hd).
  apply C02w_runs_bounds in HI. rewrite (len_ta d Hv) in HI.
  destruct Hv as [Hv0 Hv1]. split; [lia|]. split; [lia|exact Hd].
Qed.

Lemma next_end_core_bounds d incl count WORD r :
  valid d -> next_word_ending_core d incl count WORD = Some r ->
  0 <= dcur d + r <= len (dtext d) /\ 1 <= r.
Proof.
  intros Hv H. apply next_end_core_run in H. destruct H as (st & en & HI & ->).
  apply C02w_runs_bounds in HI. pose proof (len_ta d Hv) as HL.
  destruct Hv as [Hv0 Hv1]. destruct incl.
  - lia.
  - rewrite len_skipn in HI. lia.
Qed.

Lemma prev_end_core_bounds d count WORD r :
  valid d -> 1 <= count -> previous_word_ending_core d count WORD = Some r ->
  0 <= dcur d + r <= len (dtext d) /\ r <= 0.
Proof.
  intros Hv Hc H. apply prev_end_core_run in H. destruct H as (st & en & HI & -> & Hst).
  specialize (Hst Hc).
  apply C02w_runs_bounds in HI. rewrite len_app, len_firstn, len_rev, (len_tb d Hv) in HI.
  destruct Hv as [Hv0 Hv1]. lia.
Qed.

Lemma C02w_start_of_previous_word_in_bounds d count WORD r :
  valid d -> find_start_of_previous_word d count WORD = Some r ->
  0 <= dcur d + r <= len (dtext d).
Proof. intros Hv H. exact (proj1 (prev_beg_core_bounds d count WORD r Hv H)). Qed.

Lemma C02w_start_of_previous_word_backward d count WORD r :
  valid d -> 1 <= count -> find_start_of_previous_word d count WORD = Some r -> r < 0.
Proof. intros Hv _ H. exact (proj2 (prev_beg_core_bounds d count WORD r Hv H)). Qed.

Lemma C02w_next_word_beginning_in_bounds d count WORD r :
  valid d -> find_next_word_beginning d count WORD = Some r ->
  0 <= dcur d + r <= len (dtext d).
Proof.
  intros Hv H. unfold find_next_word_beginning in H. destruct (count <? 0) eqn:E.
  - exact (proj1 (prev_beg_core_bounds _ _ _ _ Hv H)).
  - exact (proj1 (next_beg_core_bounds _ _ _ _ Hv H)).
Qed.

Lemma C02w_previous_word_beginning_in_bounds d count WORD r :
  valid d -> find_previous_word_beginning d count WORD = Some r ->
  0 <= dcur d + r <= len (dtext d).
Proof.
  intros Hv H. unfold find_previous_word_beginning in H. destruct (count <? 0) eqn:E.
  - exact (proj1 (next_beg_core_bounds _ _ _ _ Hv H)).
  - exact (proj1 (prev_beg_core_bounds _ _ _ _ Hv H)).
Qed.

(* holds for every count: a negative count delegates to
   previous_word_ending_core with -count >= 1 *)
Lemma C02w_next_word_ending_in_bounds_all d incl count WORD r :
  valid d -> find_next_word_ending d incl count WORD = Some r ->
  0 <= dcur d + r <= len (dtext d).
Proof.
  intros Hv H. unfold find_next_word_ending in H. destruct (count <? 0) eqn:E.
  - assert (Hc : 1 <= - count) by lia.
    exact (proj1 (prev_end_core_bounds _ _ _ _ Hv Hc H)).
  - exact (proj1 (next_end_core_bounds _ _ _ _ _ Hv H)).
Qed.

Lemma C02w_next_word_ending_in_bounds d incl count WORD r :
  valid d -> 0 <= count -> find_next_word_ending d incl count WORD = Some r ->
  0 <= dcur d + r <= len (dtext d).
Proof. intros Hv _. apply C02w_next_word_ending_in_bounds_all. exact Hv. Qed.

Lemma C02w_previous_word_ending_in_bounds d count WORD r :
  valid d -> 1 <= count -> find_previous_word_ending d count WORD = Some r ->
  0 <= dcur d + r <= len (dtext d) /\ r <= 0.
Proof.
  intros Hv Hc H. unfold find_previous_word_ending in H. destruct (count <? 0) eqn:E; [lia|].
  exact (prev_end_core_bounds _ _ _ _ Hv Hc H).
Qed.

(* every count except 0 *)
Lemma C02w_previous_word_ending_in_bounds_nonzero d count WORD r :
  valid d -> count <> 0 -> find_previous_word_ending d count WORD = Some r ->
  0 <= dcur d + r <= len (dtext d).
Proof.
  intros Hv Hc H. unfold find_previous_word_ending in H. destruct (count <? 0) eqn:E.
  - exact (proj1 (next_end_core_bounds _ _ _ _ _ Hv H)).
  - assert (Hc1 : 1 <= count) by lia. exact (proj1 (prev_end_core_bounds _ _ _ _ Hv Hc1 H)).
Qed.

(* count = 0 escapes: "a" with the cursor at the end answers +1 *)
Lemma C02w_previous_word_ending_count0_out_of_bounds :
  find_previous_word_ending (mkdoc [97] 1) 0 false = Some 1.
Proof. vm_compute. reflexivity. Qed.

Lemma C02w_next_word_beginning_forward d count WORD r :
  valid d -> 1 <= count -> find_next_word_beginning d count WORD = Some r -> 1 <= r.
Proof.
  intros Hv Hc H. unfold find_next_word_beginning in H. destruct (count <? 0) eqn:E; [lia|].
  exact (proj2 (proj2 (next_beg_core_bounds _ _ _ _ Hv H)) Hc).
Qed.

Lemma C02w_previous_word_beginning_backward d count WORD r :
  valid d -> 1 <= count -> find_previous_word_beginning d count WORD = Some r -> r < 0.
Proof.
  intros Hv Hc H. unfold find_previous_word_beginning in H. destruct (count <? 0) eqn:E; [lia|].
  exact (proj2 (prev_beg_core_bounds _ _ _ _ Hv H)).
Qed.

Lemma C02w_next_word_ending_forward d incl count WORD r :
  valid d -> 1 <= count -> find_next_word_ending d incl count WORD = Some r -> 1 <= r.
Proof.
  intros Hv Hc H. unfold find_next_word_ending in H. destruct (count <? 0) eqn:E; [lia|].
  exact (proj2 (next_end_core_bounds _ _ _ _ _ Hv H)).
Qed.

(* ---------------------------------------------------------------------- *)
(* 9: boundaries of the current word *)

Lemma span_len_bounds p s : 0 <= span_len p s <= len s.
Proof.
  induction s as [|c r IH]; cbn [span_len].
  - unfold len. cbn [length]. lia.
  - rewrite len_cons. destruct (p c); lia.
Qed.

Lemma span_len_two p q s :
  0 <= span_len p s + span_len q (skipn (Z.to_nat (span_len p s)) s) <= len s.
Proof.
  pose proof (span_len_bounds p s) as H1.
  pose proof (span_len_bounds q (skipn (Z.to_nat (span_len p s)) s)) as H2.
  rewrite len_skipn in H2. lia.
Qed.

Lemma cur_word_end_bounds WORD incl s v :
  cur_word_end WORD incl s = Some v -> 0 <= v <= len s.
Proof.
  unfold cur_word_end. destruct s as [|c s']; [discriminate|]. cbv zeta.
  remember (c :: s') as s eqn:Es. clear Es.
  destruct (word_cls WORD c =? 0) eqn:E; [discriminate|]. intros H. injection H as <-.
  destruct incl.
  - apply span_len_two.
  - apply span_len_bounds.
Qed.

Lemma C02w_boundaries_in_bounds d WORD lead trail s e :
  valid d -> find_boundaries_of_current_word d WORD lead trail = (s, e) ->
  - len (current_line_before_cursor d) <= s <= 0 /\
  0 <= e <= len (current_line_after_cursor d).
Proof.
  intros Hv H. unfold find_boundaries_of_current_word in H. cbv zeta in H.
  pose proof (cur_word_end_bounds WORD lead (rev (current_line_before_cursor d))) as Hb.
  pose proof (cur_word_end_bounds WORD trail (current_line_after_cursor d)) as Ha.
  rewrite len_rev in Hb.
  pose proof (len_nonneg (current_line_before_cursor d)) as Lb.
  pose proof (len_nonneg (current_line_after_cursor d)) as La.
  destruct (cur_word_end WORD lead (rev (current_line_before_cursor d))) as [vb|];
  destruct (cur_word_end WORD trail (current_line_after_cursor d)) as [va|];
  try (specialize (Hb _ eq_refl)); try (specialize (Ha _ eq_refl)).
  - destruct WORD.
    + inversion H; subst. lia.
    + destruct (index (dtext d) (dcur d - 1)) as [c1|];
      [destruct (index (dtext d) (dcur d)) as [c2|];
       [destruct (xorb (is_wordch c1) (is_wordch c2))|]|];
      inversion H; subst; lia.
  - inversion H; subst. lia.
  - inversion H; subst. lia.
  - inversion H; subst. lia.
Qed.

(* ---------------------------------------------------------------------- *)
(* 8: the target is a word boundary *)

(* a run of the text after the cursor, seen in the whole text *)
Lemma run_after_start cls t n st en :
  is_run cls (skipn n t) st en -> 1 <= st ->
  clsat cls t (Z.of_nat n + st) <> 0 /\
  clsat cls t (Z.of_nat n + st - 1) <> clsat cls t (Z.of_nat n + st).
Proof.
  intros (Hb & He & k & Hk & Hall & Hprev & Hnext) Hst.
  assert (H1 : clsat cls t (Z.of_nat n + st) = k).
  { rewrite <- clsat_skipn by lia. apply Hall. lia. }
  rewrite clsat_skipn in Hprev by lia.
  replace (Z.of_nat n + st - 1) with (Z.of_nat n + (st - 1)) by lia.
  rewrite H1. split; [exact Hk|exact Hprev].
Qed.

Lemma run_after_end cls t n st en :
  is_run cls (skipn n t) st en ->
  clsat cls t (Z.of_nat n + en - 1) <> 0 /\
  clsat cls t (Z.of_nat n + en) <> clsat cls t (Z.of_nat n + en - 1).
Proof.
  intros (Hb & He & k & Hk & Hall & Hprev & Hnext).
  assert (H1 : clsat cls t (Z.of_nat n + en - 1) = k).
  { replace (Z.of_nat n + en - 1) with (Z.of_nat n + (en - 1)) by lia.
    rewrite <- clsat_skipn by lia. apply Hall. lia. }
  rewrite clsat_skipn in Hnext by lia.
  rewrite H1. split; [exact Hk|exact Hnext].
Qed.

(* a run of the reversed text before the cursor: its end is a word start *)
Lemma run_before_end cls t c st en :
  0 <= c <= len t -> is_run cls (rev (firstn (Z.to_nat c) t)) st en ->
  clsat cls t (c - en) <> 0 /\ clsat cls t (c - en - 1) <> clsat cls t (c - en).
Proof.
  intros Hc (Hb & He & k & Hk & Hall & Hprev & Hnext).
  assert (Lp : len (firstn (Z.to_nat c) t) = c) by (rewrite len_firstn; lia).
  rewrite len_rev, Lp in He.
  assert (H1 : clsat cls t (c - en) = k).
  { specialize (Hall (en - 1)). rewrite clsat_rev in Hall by (rewrite Lp; lia).
    rewrite Lp in Hall. replace (c - 1 - (en - 1)) with (c - en) in Hall by lia.
    rewrite clsat_firstn in Hall by lia. apply Hall. lia. }
  rewrite H1. split; [exact Hk|].
  destruct (Z.eq_dec en c) as [->|Hne].
  - rewrite clsat_neg by lia. intro HH. apply Hk. now symmetry.
  - rewrite clsat_rev in Hnext by (rewrite Lp; lia). rewrite Lp in Hnext.
    replace (c - 1 - en) with (c - en - 1) in Hnext by lia.
    rewrite clsat_firstn in Hnext by lia. exact Hnext.
Qed.

Lemma prev_beg_core_lands d count WORD r :
  valid d -> previous_word_beginning_core d count WORD = Some r ->
  clsat (word_cls WORD) (dtext d) (dcur d + r) <> 0 /\
  clsat (word_cls WORD) (dtext d) (dcur d + r - 1) <> clsat (word_cls WORD) (dtext d) (dcur d + r).
Proof.
  intros Hv H. apply prev_beg_core_run in H. destruct H as (st & en & -> & HI).
  apply C02w_runs_is_run in HI. rewrite (tb_firstn d Hv) in HI.
  apply run_before_end in HI; [|exact Hv].
  replace (dcur d + - en) with (dcur d - en) by lia. exact HI.
Qed.

Lemma next_beg_core_lands d count WORD r :
  valid d -> 1 <= count -> next_word_beginning_core d count WORD = Some r ->
  clsat (word_cls WORD) (dtext d) (dcur d + r) <> 0 /\
  clsat (word_cls WORD) (dtext d) (dcur d + r - 1) <> clsat (word_cls WORD) (dtext d) (dcur d + r).
Proof.
  intros Hv Hc H. apply next_beg_core_run in H. destruct H as (en & HI & Hd).
  specialize (Hd Hc). apply C02w_runs_is_run in HI. rewrite (ta_skipn d Hv) in HI.
  apply run_after_start in HI; [|exact Hd].
  destruct Hv as [Hv0 Hv1]. rewrite Z2Nat.id in HI by exact Hv0. exact HI.
Qed.

Lemma next_end_core_lands d incl count WORD r :
  valid d -> next_word_ending_core d incl count WORD = Some r ->
  clsat (word_cls WORD) (dtext d) (dcur d + r - 1) <> 0 /\
  clsat (word_cls WORD) (dtext d) (dcur d + r) <> clsat (word_cls WORD) (dtext d) (dcur d + r - 1).
Proof.
  intros Hv H. apply next_end_core_run in H. destruct H as (st & en & HI & ->).
  apply C02w_runs_is_run in HI. rewrite (ta_skipn d Hv) in HI.
  destruct Hv as [Hv0 Hv1]. destruct incl.
  - apply run_after_end in HI. rewrite Z2Nat.id in HI by exact Hv0. exact HI.
  - destruct HI as (Hb & He & k & Hk & Hall & Hprev & Hnext).
    assert (Hsh : forall j, 0 <= j ->
              clsat (word_cls WORD) (skipn 1 (skipn (Z.to_nat (dcur d)) (dtext d))) j =
              clsat (word_cls WORD) (dtext d) (dcur d + 1 + j)).
    { intros j Hj. rewrite clsat_skipn by exact Hj. rewrite clsat_skipn by lia.
      f_equal. lia. }
    assert (H1 : clsat (word_cls WORD) (dtext d) (dcur d + (en + 1) - 1) = k).
    { replace (dcur d + (en + 1) - 1) with (dcur d + 1 + (en - 1)) by lia.
      rewrite <- Hsh by lia. apply Hall. lia. }
    rewrite Hsh in Hnext by lia.
    replace (dcur d + (en + 1)) with (dcur d + 1 + en) by lia.
    replace (dcur d + 1 + en - 1) with (dcur d + (en + 1) - 1) by lia.
    rewrite H1. split; [exact Hk|exact Hnext].
Qed.

Lemma C02w_next_word_beginning_lands d count WORD r :
  valid d -> 1 <= count -> find_next_word_beginning d count WORD = Some r ->
  clsat (word_cls WORD) (dtext d) (dcur d + r) <> 0 /\
  clsat (word_cls WORD) (dtext d) (dcur d + r - 1) <> clsat (word_cls WORD) (dtext d) (dcur d + r).
Proof.
  intros Hv Hc H. unfold find_next_word_beginning in H. destruct (count <? 0) eqn:E; [lia|].
  exact (next_beg_core_lands _ _ _ _ Hv Hc H).
Qed.

Lemma C02w_next_word_ending_lands d incl count WORD r :
  valid d -> 1 <= count -> find_next_word_ending d incl count WORD = Some r ->
  clsat (word_cls WORD) (dtext d) (dcur d + r - 1) <> 0 /\
  clsat (word_cls WORD) (dtext d) (dcur d + r) <> clsat (word_cls WORD) (dtext d) (dcur d + r - 1).
Proof.
  intros Hv Hc H. unfold find_next_word_ending in H. destruct (count <? 0) eqn:E; [lia|].
  exact (next_end_core_lands _ _ _ _ _ Hv H).
Qed.

Lemma C02w_previous_word_beginning_lands d count WORD r :
  valid d -> 1 <= count -> find_previous_word_beginning d count WORD = Some r ->
  clsat (word_cls WORD) (dtext d) (dcur d + r) <> 0 /\
  clsat (word_cls WORD) (dtext d) (dcur d + r - 1) <> clsat (word_cls WORD) (dtext d) (dcur d + r).
Proof.
  intros Hv Hc H. unfold find_previous_word_beginning in H. destruct (count <? 0) eqn:E; [lia|].
  exact (prev_beg_core_lands _ _ _ _ Hv H).
Qed.

Lemma C02w_start_of_previous_word_lands d count WORD r :
  valid d -> 1 <= count -> find_start_of_previous_word d count WORD = Some r ->
  clsat (word_cls WORD) (dtext d) (dcur d + r) <> 0 /\
  clsat (word_cls WORD) (dtext d) (dcur d + r - 1) <> clsat (word_cls WORD) (dtext d) (dcur d + r).
Proof. intros Hv _ H. exact (prev_beg_core_lands d count WORD r Hv H). Qed.

(* ---------------------------------------------------------------------- *)
(* find_previous_word_ending *)

(* /repo defect: with the cursor at the end of the text the answer is one too
   far to the right.  "ab cd", cursor 5: the answer is -2 (index 3, "c"), the
   end of the previous word "ab" is index 2. *)
Lemma C02w_previous_word_ending_lands_refuted :
  exists d count WORD r,
    valid d /\ 1 <= count /\ find_previous_word_ending d count WORD = Some r /\
    ~ (clsat (word_cls WORD) (dtext d) (dcur d + r - 1) <> 0).
Proof.
  exists (mkdoc [97; 98; 32; 99; 100] 5), 1, false, (-2).
  split; [|split; [|split]].
  - unfold valid. vm_compute. split; discriminate.
  - lia.
  - vm_compute. reflexivity.
  - intros H. apply H. vm_compute. reflexivity.
Qed.

(* when the cursor is not at the end, the scanned string is the reversal of
   text[0 .. cursor] *)
Lemma prev_end_text (t : str) c :
  0 <= c < len t ->
  firstn 1 (skipn (Z.to_nat c) t) ++ rev (firstn (Z.to_nat c) t) =
  rev (firstn (Z.to_nat (c + 1)) t).
Proof.
  intros Hc. destruct (skipn (Z.to_nat c) t) as [|x rest] eqn:E.
  - pose proof (len_skipn t (Z.to_nat c)) as HL. rewrite E in HL.
    change (len (@nil Z)) with 0 in HL. lia.
  - apply w_skipn_cons_nth in E. destruct E as [Hn _].
    replace (Z.to_nat (c + 1)) with (S (Z.to_nat c)) by lia.
    rewrite (w_firstn_S_snoc _ _ _ Hn). rewrite rev_app_distr. reflexivity.
Qed.

(* a run of rev (text[0 .. c]) that does not start at 0: its start is the last
   character of a word of the text *)
Lemma run_rev_start cls t c st en :
  0 <= c < len t -> is_run cls (rev (firstn (Z.to_nat (c + 1)) t)) st en -> 1 <= st ->
  clsat cls t (c - st) <> 0 /\ clsat cls t (c - st + 1) <> clsat cls t (c - st).
Proof.
  intros Hc (Hb & He & k & Hk & Hall & Hprev & Hnext) Hst.
  assert (Lp : len (firstn (Z.to_nat (c + 1)) t) = c + 1) by (rewrite len_firstn; lia).
  rewrite len_rev, Lp in He.
  assert (H1 : clsat cls t (c - st) = k).
  { specialize (Hall st). rewrite clsat_rev in Hall by (rewrite Lp; lia).
    rewrite Lp in Hall. replace (c + 1 - 1 - st) with (c - st) in Hall by lia.
    rewrite clsat_firstn in Hall by lia. apply Hall. lia. }
  rewrite H1. split; [exact Hk|].
  rewrite clsat_rev in Hprev by (rewrite Lp; lia). rewrite Lp in Hprev.
  replace (c + 1 - 1 - (st - 1)) with (c - st + 1) in Hprev by lia.
  rewrite clsat_firstn in Hprev by lia. exact Hprev.
Qed.

Lemma prev_end_core_lands d count WORD r :
  valid d -> dcur d < len (dtext d) -> 1 <= count ->
  previous_word_ending_core d count WORD = Some r ->
  clsat (word_cls WORD) (dtext d) (dcur d + r - 1) <> 0 /\
  clsat (word_cls WORD) (dtext d) (dcur d + r) <> clsat (word_cls WORD) (dtext d) (dcur d + r - 1).
Proof.
  intros Hv Hlt Hc H. apply prev_end_core_run in H. destruct H as (st & en & HI & -> & Hst).
  specialize (Hst Hc). apply C02w_runs_is_run in HI.
  rewrite (ta_skipn d Hv), (tb_firstn d Hv) in HI.
  destruct Hv as [Hv0 Hv1].
  rewrite prev_end_text in HI by lia.
  apply run_rev_start in HI; [|lia|exact Hst].
  replace (dcur d + (- st + 1) - 1) with (dcur d - st) by lia.
  replace (dcur d + (- st + 1)) with (dcur d - st + 1) by lia.
  exact HI.
Qed.

Lemma C02w_previous_word_ending_lands_partial d count WORD r :
  valid d -> dcur d < len (dtext d) -> 1 <= count ->
  find_previous_word_ending d count WORD = Some r ->
  clsat (word_cls WORD) (dtext d) (dcur d + r - 1) <> 0 /\
  clsat (word_cls WORD) (dtext d) (dcur d + r) <> clsat (word_cls WORD) (dtext d) (dcur d + r - 1).
Proof.
  intros Hv Hlt Hc H. unfold find_previous_word_ending in H.
  destruct (count <? 0) eqn:E; [lia|].
  exact (prev_end_core_lands _ _ _ _ Hv Hlt Hc H).
Qed.
