(* C11 - the wrap / wide statements lifted to what [render] returns: cursor
   verdict (render_cursor_ok), r_cursor, and the r_grid cell at the cursor. *)
From Coq Require Import ZArith List Bool Lia.
From PTK Require Import Lib.Sx Lib.Py Model.C11_Scroll Model.C11_CopyBody
     Proofs.C11_ScrollFacts Proofs.C11_CopyFacts Proofs.C11_RenderFacts Proofs.C11_DocFacts
     Proofs.C11_ScreenFacts Proofs.C11_PackFacts Proofs.C11_PatchedFacts.
Import ListNotations.
Open Scope Z_scope.

(* r_cursor is the rowcol_to_yx entry of the content cursor (or the (0,0) fallback) *)
Lemma render_cursor_shape : forall g W Hh xpos ypos text cursor st r,
  render g W Hh xpos ypos text cursor st = Some r ->
  r_cursor r = match alist_get (cr2 (r_out g Hh xpos ypos text r)) (r_ui r) with
               | Some yx => yx | None => (0, 0) end.
Proof.
  intros g W Hh xpos ypos text cursor st r H. unfold render, render_gen in H.
  destruct ((W <=? 0) || (Hh <=? 0)); [discriminate|].
  fold (r_lines g text) in H.
  destruct (nth_error _ (Z.to_nat (cursor_row text cursor))) as [pl|]; [|discriminate].
  destruct (pl_s2d pl (cursor_col text cursor)) as [ucol|]; [|discriminate].
  inversion H; subst r; clear H. unfold r_out. cbn [r_cursor r_ui r_mw r_bw r_st]. reflexivity.
Qed.

(* Wrapping, every displayed width >= 1 (any source widths >= 0), on [render]
   itself: if get_height_for_line under-estimates no content line and, for an
   (estimated) over-tall cursor line, gets the cursor slice right, then the
   render's verdict is "cursor visible", r_cursor is the registered position
   inside the body, and the r_grid cell there shows the content character at
   the content cursor. *)
Theorem render_wrap_wide : forall g W Hh xpos ypos text cursor st r kc xc,
  render g W Hh xpos ypos text cursor st = Some r -> g_wrap g = true ->
  (forall c, 0 <= tab_sw g c) -> (forall c, 1 <= tab_dw g c) ->
  (forall l k c, pfxw (tab_dw g) (g_haspfx g) (cfg_pfx g) l k + tab_dw g c <= r_bw r) ->
  0 <= g_top g -> 0 <= g_bottom g -> 0 <= vs st ->
  let lines := r_lines g text in
  let row := fst (r_ui r) in let ucol := snd (r_ui r) in
  0 <= ucol < len (xline_of lines row) ->
  nth_error (pack_line (tab_dw g) (g_haspfx g) (cfg_pfx g) (r_bw r) row (xline_of lines row)) (Z.to_nat ucol) = Some (kc, xc) ->
  let Hfn l := height_for_line (tab_sw g) (g_haspfx g) (cfg_pfx g) (xline_of lines l) l (r_bw r) None in
  let tbhn s := height_for_line (tab_sw g) (g_haspfx g) (cfg_pfx g) (xline_of lines row) row (r_bw r) (Some s) in
  (forall l, 0 <= l < len lines -> prows (tab_dw g) (g_haspfx g) (cfg_pfx g) (r_bw r) l (xline_of lines l) <= Hfn l) ->
  (Hh - g_top g < Hfn row -> tbhn (ucol + 1) = kc + 1) ->
  rendered_cursor_ok W Hh xpos ypos r = true /\
  exists Y X rowg c,
    r_cursor r = (Y, X) /\ ypos <= Y < ypos + Hh /\ xpos + r_mw r <= X < xpos + r_mw r + r_bw r /\
    nth_error (xline_of lines row) (Z.to_nat ucol) = Some c /\
    nth_error (r_grid r) (Z.to_nat (Y - ypos)) = Some rowg /\
    nth_error rowg (Z.to_nat (X - xpos - r_mw r)) = Some (tab_disp g c).
Proof.
  intros g W Hh xpos ypos text cursor st r kc xc Hr Hw Hsw Hdw Hfit Ht Hb Hvs lines row ucol Hcx Hpk Hfn tbhn Hover Hslice.
  destruct (render_shape _ _ _ _ _ _ _ _ _ Hr) as (HW & HH & Hmw & Hbw & Hrow & Hst & Hlook & Hvl & Hgrid).
  pose proof (render_cursor_shape _ _ _ _ _ _ _ _ _ Hr) as Hcur.
  rewrite Hw in Hst. fold lines row ucol in Hst, Hrow.
  pose proof (wrap_visible_if_not_under (tab_sw g) (tab_dw g) (tab_disp g) (g_haspfx g) (cfg_pfx g)
                (r_bw r) Hh (xpos + r_mw r) ypos (g_top g) (g_bottom g) lines row ucol st (g_allow g)
                Hsw Hdw Hfit HH Ht Hb Hvs Hrow Hcx kc xc Hpk Hover Hslice) as HT.
  cbv zeta in HT.
  change (fun l => height_for_line (tab_sw g) (g_haspfx g) (cfg_pfx g) (xline_of lines l) l (r_bw r) None) with Hfn in HT.
  change (fun s => height_for_line (tab_sw g) (g_haspfx g) (cfg_pfx g) (xline_of lines row) row (r_bw r) (Some s)) with tbhn in HT.
  assert (Est : r_st r = scroll_wrap (g_allow g) Hfn tbhn (r_bw r) Hh (g_top g) (g_bottom g) row ucol (len lines) st).
  { rewrite Hst. reflexivity. }
  rewrite <- Est in HT. fold lines in HT.
  change (copy_body (tab_sw g) (tab_dw g) (tab_disp g) true (g_haspfx g) (cfg_pfx g) (r_bw r) Hh (xpos + r_mw r) ypos lines (r_st r))
    with (copy_body (tab_sw g) (tab_dw g) (tab_disp g) true (g_haspfx g) (cfg_pfx g) (r_bw r) Hh (xpos + r_mw r) ypos (r_lines g text) (r_st r)) in HT.
  assert (Eout : r_out g Hh xpos ypos text r
                 = copy_body (tab_sw g) (tab_dw g) (tab_disp g) true (g_haspfx g) (cfg_pfx g) (r_bw r) Hh (xpos + r_mw r) ypos (r_lines g text) (r_st r))
    by (unfold r_out; now rewrite Hw).
  rewrite <- Eout in HT.
  destruct HT as (Hy & Hx & Hget & c & Hc & Hcell).
  match type of Hget with _ = Some (?a + ypos, ?b + _) => set (yy := a) in *; set (xx := b) in * end.
  assert (Hui : r_ui r = (row, ucol)) by (unfold row, ucol; now destruct (r_ui r)).
  rewrite Hui in Hcur. rewrite Hget in Hcur.
  assert (Hline : nth_error lines (Z.to_nat row) = Some (xline_of lines row)) by (apply xline_nth; exact Hrow).
  split.
  - unfold rendered_cursor_ok. rewrite Hlook. fold row ucol lines.
    rewrite (map_i_nth _ lines 0 _ _ Hline).
    rewrite nth_zrange_map by (unfold len in Hcx; lia).
    replace (0 + Z.of_nat (Z.to_nat row)) with row by lia.
    replace (0 + Z.of_nat (Z.to_nat ucol)) with ucol by lia.
    rewrite Hget.
    destruct (ypos <=? yy + ypos) eqn:E1; [|lia]. destruct (yy + ypos <? ypos + Hh) eqn:E2; [|lia].
    destruct (xpos + r_mw r <=? xx + (xpos + r_mw r)) eqn:E3; [|lia].
    destruct (xx + (xpos + r_mw r) <? xpos + r_mw r + r_bw r) eqn:E4; [|lia]. reflexivity.
  - destruct (grid_cell (cscr (r_out g Hh xpos ypos text r)) Hh (r_bw r) xpos ypos (r_mw r) yy xx Hy Hx) as (rowg & G1 & G2).
    exists (yy + ypos), (xx + (xpos + r_mw r)), rowg, c.
    split; [exact Hcur|]. split; [lia|]. split; [lia|]. split; [exact Hc|].
    replace (yy + ypos - ypos) with yy by lia.
    replace (xx + (xpos + r_mw r) - xpos - r_mw r) with xx by lia.
    rewrite Hgrid. split; [exact G1|]. rewrite G2. f_equal.
    replace (xx + xpos + r_mw r) with (xx + (xpos + r_mw r)) by lia. exact Hcell.
Qed.
