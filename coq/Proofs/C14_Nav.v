(* Navigation laws of Model/C14_HistoryNav.v: back k / forward k, prefix search. *)
From Coq Require Import ZArith List Bool Lia.
From PTK Require Import Lib.Sx Lib.Py Model.Document Model.BufferEdit Model.C14_HistoryNav Proofs.C14_Facts.
Import ListNotations.
Open Scope Z_scope.

Lemma length_range_down a : length (range_down a) = Z.to_nat (a + 1).
Proof. unfold range_down. rewrite map_length, seq_length. reflexivity. Qed.

Lemma length_range_up a b : length (range_up a b) = Z.to_nat (b - a).
Proof. unfold range_up. rewrite map_length, seq_length. reflexivity. Qed.

Lemma nth_map_seq (f : nat -> Z) n k d : (k < n)%nat -> nth k (map f (seq 0 n)) d = f k.
Proof.
  intros H. rewrite (nth_indep _ d (f 0%nat)) by (rewrite map_length, seq_length; exact H).
  rewrite map_nth. rewrite seq_nth by exact H. reflexivity.
Qed.

Lemma nth_range_down a k : (k < Z.to_nat (a + 1))%nat -> nth k (range_down a) 0 = a - Z.of_nat k.
Proof. intros H. unfold range_down. apply (nth_map_seq (fun k => a - Z.of_nat k)); exact H. Qed.

Lemma nth_range_up a b k : (k < Z.to_nat (b - a))%nat -> nth k (range_up a b) 0 = a + Z.of_nat k.
Proof. intros H. unfold range_up. apply (nth_map_seq (fun k => a + Z.of_nat k)); exact H. Qed.

(* Without a search text the loop moves exactly [n] entries along the range. *)
Lemma nav_loop_nofilter c idxs : forall s n f,
  hst s = None -> 1 <= n <= Z.of_nat (length idxs) ->
  snd (nav_loop c idxs s n f) = true /\
  wi (fst (nav_loop c idxs s n f)) = nth (Z.to_nat (n - 1)) idxs 0 /\
  hst (fst (nav_loop c idxs s n f)) = None.
Proof.
  induction idxs as [|i r IH]; intros s n f Hh Hn; [cbn [length] in Hn; lia|].
  cbn [nav_loop]. unfold history_matches. rewrite Hh.
  destruct (n - 1 =? 0) eqn:E.
  - cbn [fst snd]. assert (n = 1) by lia; subst. cbn. rewrite set_wi_wi, set_wi_hst. auto.
  - cbn [length] in Hn.
    destruct (IH (set_wi c s i) (n - 1) true) as (A & B & C).
    + rewrite set_wi_hst; exact Hh.
    + lia.
    + rewrite A, B, C. repeat split; auto.
      replace (Z.to_nat (n - 1)) with (S (Z.to_nat (n - 1 - 1))) by lia. reflexivity.
Qed.

Lemma set_history_search_off s : ehs s = false -> set_history_search s = set_hst s None.
Proof. unfold set_history_search. intros ->. reflexivity. Qed.

Lemma history_backward_pos_nofilter c s k :
  ehs s = false -> 1 <= k <= wi s ->
  wi (history_backward_pos c s k) = wi s - k.
Proof.
  intros He Hk. unfold history_backward_pos. rewrite set_history_search_off by exact He.
  assert (Hl : 1 <= k <= Z.of_nat (length (range_down (wi (set_hst s None) - 1)))).
  { rewrite length_range_down. unfold set_hst; proj. lia. }
  destruct (nav_loop_nofilter c (range_down (wi (set_hst s None) - 1)) (set_hst s None) k false eq_refl Hl)
    as (A & B & _).
  destruct (nav_loop _ _ _ _ _) as [s1 found]; cbn [fst snd] in A, B. subst found.
  rewrite set_cursor_wi, B. rewrite nth_range_down by (unfold set_hst; proj; lia).
  unfold set_hst; proj. lia.
Qed.

Lemma history_forward_pos_nofilter c s k :
  ehs s = false -> 0 <= wi s -> 1 <= k -> wi s + k < len (wl s) ->
  wi (history_forward_pos c s k) = wi s + k.
Proof.
  intros He H0 Hk Hlen. unfold history_forward_pos. rewrite set_history_search_off by exact He.
  assert (Hl : 1 <= k <= Z.of_nat (length (range_up (wi (set_hst s None) + 1) (len (wl (set_hst s None)))))).
  { rewrite length_range_up. unfold set_hst; proj. lia. }
  destruct (nav_loop_nofilter c _ (set_hst s None) k false eq_refl Hl) as (A & B & _).
  destruct (nav_loop _ _ _ _ _) as [s1 found]; cbn [fst snd] in A, B. subst found.
  rewrite !set_cursor_wi, B. rewrite nth_range_up by (unfold set_hst; proj; lia).
  unfold set_hst; proj. lia.
Qed.

Lemma history_backward_nofilter c s k :
  ehs s = false -> 0 <= k <= wi s ->
  wi (history_backward c s k) = wi s - k.
Proof.
  intros He Hk. unfold history_backward.
  destruct (k =? 0) eqn:E0; [lia|]. destruct (k <? 0) eqn:E1; [lia|].
  apply history_backward_pos_nofilter; [exact He | lia].
Qed.

Lemma history_forward_nofilter c s k :
  ehs s = false -> 0 <= wi s -> 0 <= k -> wi s + k < len (wl s) ->
  wi (history_forward c s k) = wi s + k.
Proof.
  intros He H0 Hk Hlen. unfold history_forward.
  destruct (k =? 0) eqn:E0; [lia|]. destruct (k <? 0) eqn:E1; [lia|].
  apply history_forward_pos_nofilter; [exact He | exact H0 | lia | exact Hlen].
Qed.

(* Back k then forward k (0 <= k, k entries available): same entry, same text,
   all working lines untouched. *)
Lemma back_forth c s k :
  thr (th s) = false -> Inv s -> ehs s = false -> 0 <= k <= wi s ->
  let s1 := step_state c s (OBack k) in
  let s2 := step_state c s1 (OFwd k) in
  wi s1 = wi s - k /\ wi s2 = wi s /\ wl s2 = wl s /\ text s2 = text s.
Proof.
  intros Ht HI He Hk s1 s2.
  assert (Ht1 : thr (th s1) = false) by (unfold s1; rewrite step_thr; exact Ht).
  assert (F1 : frame s s1) by (apply nav_step_frame; [exact Ht | exact I]).
  assert (F2 : frame s1 s2) by (apply nav_step_frame; [exact Ht1 | exact I]).
  assert (W1 : wi s1 = wi s - k).
  { unfold s1. rewrite step_state_eq by exact Ht. cbn [step_core ok fst snd]. rewrite flush_wi.
    apply history_backward_nofilter; assumption. }
  destruct F1 as (L1 & _ & _ & _ & E1 & _). destruct F2 as (L2 & _).
  assert (W2 : wi s2 = wi s).
  { unfold s2. rewrite step_state_eq by exact Ht1. cbn [step_core ok fst snd]. rewrite flush_wi.
    rewrite history_forward_nofilter; unfold Inv in HI; try rewrite L1; try lia. congruence. }
  repeat split; auto; [congruence|].
  apply text_eq; congruence.
Qed.

(* Before the count fix (finding C14-F2): history_backward(0) walked to the
   oldest entry, history_forward(0) to the newest, instead of staying. *)
Definition zero_witness : hs :=
  mk [[97]; [98]; [99]] 1 0 None None V_UNKNOWN false (mkst [[98]; [97]] [[97]; [98]] true) (Some 2) true false false (mkth false 0 false [] 0).

Lemma back_forth_zero_pinned_refuted :
  exists c s, Inv s /\ ehs s = false /\ hst s = None /\ 0 <= 0 <= wi s /\
    wi (history_forward_pinned c (history_backward_pinned c s 0) 0) <> wi s.
Proof.
  exists (mkcfg false false None), zero_witness.
  repeat split; try (vm_compute; congruence); try reflexivity.
Qed.

(* ---------------------------------------------------------------------- *)
(* Prefix search *)
Lemma set_wi_text c s i :
  text (set_wi c s i) = match index (wl s) i with Some t => t | None => [] end.
Proof.
  unfold text at 1. rewrite set_wi_wi. destruct (set_wi_frame c s i) as (A & _). rewrite A. reflexivity.
Qed.

Lemma nav_loop_prefix c p w0 idxs : forall s n f,
  hst s = Some p -> (wi s = w0 \/ startswith (text s) p = true) ->
  hst (fst (nav_loop c idxs s n f)) = Some p /\
  (wi (fst (nav_loop c idxs s n f)) = w0 \/ startswith (text (fst (nav_loop c idxs s n f))) p = true).
Proof.
  induction idxs as [|i r IH]; intros s n f Hh HP; cbn [nav_loop]; [cbn [fst]; auto|].
  destruct (history_matches s i) eqn:Em.
  - unfold history_matches in Em. rewrite Hh in Em.
    destruct (index (wl s) i) as [l|] eqn:Ei; [|discriminate].
    assert (Hh1 : hst (set_wi c s i) = Some p) by (rewrite set_wi_hst; exact Hh).
    assert (HP1 : wi (set_wi c s i) = w0 \/ startswith (text (set_wi c s i)) p = true)
      by (right; rewrite set_wi_text, Ei; exact Em).
    destruct (n - 1 =? 0); cbn [fst]; [auto | apply IH; auto].
  - destruct (n =? 0); cbn [fst]; [auto | apply IH; auto].
Qed.

Definition search_prefix (s : hs) : str :=
  match hst s with Some q => q | None => text_before_cursor (sdoc s) end.

Lemma set_history_search_on s :
  ehs s = true -> hst (set_history_search s) = Some (search_prefix s).
Proof.
  unfold set_history_search, search_prefix. intros ->. destruct (hst s) eqn:E; [exact E | reflexivity].
Qed.

Lemma history_backward_pos_prefix c s k :
  ehs s = true ->
  hst (history_backward_pos c s k) = Some (search_prefix s) /\
  (wi (history_backward_pos c s k) = wi s \/ startswith (text (history_backward_pos c s k)) (search_prefix s) = true).
Proof.
  intros He. unfold history_backward_pos.
  destruct (nav_loop_prefix c (search_prefix s) (wi s) (range_down (wi (set_history_search s) - 1))
              (set_history_search s) k false (set_history_search_on s He)) as (A & B).
  { left. apply set_history_search_wi. }
  destruct (nav_loop _ _ _ _ _) as [s1 found]; cbn [fst] in A, B.
  destruct found; [|auto].
  rewrite set_cursor_hst, set_cursor_wi, set_cursor_text. auto.
Qed.

Lemma history_forward_pos_prefix c s k :
  ehs s = true ->
  hst (history_forward_pos c s k) = Some (search_prefix s) /\
  (wi (history_forward_pos c s k) = wi s \/ startswith (text (history_forward_pos c s k)) (search_prefix s) = true).
Proof.
  intros He. unfold history_forward_pos.
  destruct (nav_loop_prefix c (search_prefix s) (wi s)
              (range_up (wi (set_history_search s) + 1) (len (wl (set_history_search s))))
              (set_history_search s) k false (set_history_search_on s He)) as (A & B).
  { left. apply set_history_search_wi. }
  destruct (nav_loop _ _ _ _ _) as [s1 found]; cbn [fst] in A, B.
  destruct found; [|auto].
  rewrite !set_cursor_hst, !set_cursor_wi, !set_cursor_text. auto.
Qed.

Definition reached_ok (s s' : hs) : Prop :=
  wi s' = wi s \/ startswith (text s') (search_prefix s) = true.

Lemma search_prefix_some s p : hst s = Some p -> search_prefix s = p.
Proof. unfold search_prefix. intros ->. reflexivity. Qed.

Lemma history_backward_prefix c s k :
  ehs s = true -> reached_ok s (history_backward c s k).
Proof.
  intros He. unfold history_backward, reached_ok. destruct (k =? 0); [left; reflexivity|].
  destruct (k <? 0); [apply history_forward_pos_prefix | apply history_backward_pos_prefix]; exact He.
Qed.

Lemma history_forward_prefix c s k :
  ehs s = true -> reached_ok s (history_forward c s k).
Proof.
  intros He. unfold history_forward, reached_ok. destruct (k =? 0); [left; reflexivity|].
  destruct (k <? 0); [apply history_backward_pos_prefix | apply history_forward_pos_prefix]; exact He.
Qed.

Lemma history_backward_hst c s k p :
  ehs s = true -> hst s = Some p -> hst (history_backward c s k) = Some p.
Proof.
  intros He Hh. unfold history_backward. destruct (k =? 0); [exact Hh|].
  destruct (k <? 0);
    [destruct (history_forward_pos_prefix c s (- k) He) as (A & _)
    |destruct (history_backward_pos_prefix c s k He) as (A & _)];
    rewrite A, (search_prefix_some s p Hh); reflexivity.
Qed.

Lemma history_forward_hst c s k p :
  ehs s = true -> hst s = Some p -> hst (history_forward c s k) = Some p.
Proof.
  intros He Hh. unfold history_forward. destruct (k =? 0); [exact Hh|].
  destruct (k <? 0);
    [destruct (history_backward_pos_prefix c s (- k) He) as (A & _)
    |destruct (history_forward_pos_prefix c s k He) as (A & _)];
    rewrite A, (search_prefix_some s p Hh); reflexivity.
Qed.

Lemma auto_up_prefix c s n g :
  ehs s = true -> reached_ok s (auto_up c s n g).
Proof.
  intros He. unfold auto_up, cursor_up. destruct (0 <? _).
  - left. unfold set_pref; proj. apply set_cursor_wi.
  - destruct (sel s); [left; reflexivity|]. pose proof (history_backward_prefix c s n He) as B. unfold reached_ok in *.
    destruct g; [|exact B]. unfold go_start_of_line. rewrite set_cursor_wi, set_cursor_text. exact B.
Qed.

Lemma auto_down_prefix c s n g :
  ehs s = true -> reached_ok s (auto_down c s n g).
Proof.
  intros He. unfold auto_down, cursor_down. destruct (_ <? _).
  - left. unfold set_pref; proj. apply set_cursor_wi.
  - destruct (sel s); [left; reflexivity|]. pose proof (history_forward_prefix c s n He) as B. unfold reached_ok in *.
    destruct g; [|exact B]. unfold go_start_of_line. rewrite set_cursor_wi, set_cursor_text. exact B.
Qed.

Definition is_hist_step (o : op) : Prop :=
  match o with OBack _ | OFwd _ | OAutoUp _ _ | OAutoDown _ _ => True | _ => False end.

(* every entry reached by an up/down step starts with the prefix *)
Lemma hist_step_prefix c s o :
  thr (th s) = false -> ehs s = true -> is_hist_step o -> reached_ok s (step_state c s o).
Proof.
  intros Ht He Ho. rewrite step_state_eq by exact Ht. unfold reached_ok. rewrite flush_wi, flush_text.
  destruct o; cbn [is_hist_step] in Ho; try contradiction; cbn [step_core ok fst snd].
  - apply history_backward_prefix; exact He.
  - apply history_forward_prefix; exact He.
  - apply auto_up_prefix; exact He.
  - apply auto_down_prefix; exact He.
Qed.

(* ... and once captured the prefix survives every navigation operation *)
Lemma go_to_history_hst c s i : hst (go_to_history c s i) = hst s.
Proof.
  unfold go_to_history. destruct ((0 <=? i) && (i <? len (wl s))); [|reflexivity].
  rewrite set_cursor_hst, set_wi_hst. reflexivity.
Qed.

Lemma validate_hst c s sc : hst (fst (validate c s sc)) = hst s.
Proof.
  unfold validate. destruct (negb _); cbn [fst]; [reflexivity|].
  destruct (val c) as [V|]; [|reflexivity].
  destruct (V _ _); cbn [fst]; [|reflexivity].
  destruct sc; [|reflexivity]. unfold set_vst; proj. apply set_cursor_hst.
Qed.

Lemma nav_hst_stable c s o p :
  thr (th s) = false -> is_nav o -> ehs s = true -> hst s = Some p -> hst (step_state c s o) = Some p.
Proof.
  intros Ht Ho He Hh. rewrite step_state_eq by exact Ht. rewrite flush_hst.
  destruct o; cbn [is_nav] in Ho; try contradiction; cbn [step_core ok fst snd].
  - apply history_backward_hst; assumption.
  - apply history_forward_hst; assumption.
  - rewrite go_to_history_hst; exact Hh.
  - unfold auto_up, cursor_up. destruct (0 <? _).
    + unfold set_pref; proj. rewrite set_cursor_hst. exact Hh.
    + destruct (sel s); [exact Hh|]. destruct gts; [unfold go_start_of_line; rewrite set_cursor_hst|];
        apply history_backward_hst; assumption.
  - unfold auto_down, cursor_down. destruct (_ <? _).
    + unfold set_pref; proj. rewrite set_cursor_hst. exact Hh.
    + destruct (sel s); [exact Hh|]. destruct gts; [unfold go_start_of_line; rewrite set_cursor_hst|];
        apply history_forward_hst; assumption.
  - unfold end_of_history. rewrite go_to_history_hst. apply history_forward_hst; assumption.
  - rewrite set_cursor_hst; exact Hh.
  - rewrite set_cursor_hst; exact Hh.
  - rewrite set_cursor_hst; exact Hh.
  - rewrite validate_hst; exact Hh.
  - unfold jump. destruct (_ && _); [|exact Hh]. rewrite set_cursor_hst, set_wi_hst. exact Hh.
  - exact Hh.
Qed.

(* with a selection Up/Down never browse: they move inside the text or do nothing *)
Lemma selection_no_browse c s n g :
  sel s = true -> wi (auto_up c s n g) = wi s /\ wi (auto_down c s n g) = wi s.
Proof.
  intros H. unfold auto_up, auto_down, cursor_up, cursor_down. rewrite H.
  split; [destruct (0 <? _) | destruct (_ <? _)]; try reflexivity;
    unfold set_pref; proj; apply set_cursor_wi.
Qed.
