(* C06 - facts about the terminal interpreter: effect of each renderer
   fragment's tokens. *)
From Coq Require Import ZArith List Bool Lia.
From PTK Require Import Lib.Sx Lib.Py Model.C06_Terminal Model.C06_Renderer.
Import ListNotations.
Open Scope Z_scope.

Lemma trun_app : forall W a b t, trun W t (a ++ b) = trun W (trun W t a) b.
Proof. intros. unfold trun. apply fold_left_app. Qed.

Lemma trun_nil : forall W t, trun W t [] = t.
Proof. reflexivity. Qed.

Lemma trun_cons : forall W k ks t, trun W t (k :: ks) = trun W (tstep W t k) ks.
Proof. reflexivity. Qed.

Lemma str_eqb_eq : forall a b, str_eqb a b = true -> a = b.
Proof.
  induction a as [|x a IH]; destruct b as [|y b]; cbn [str_eqb]; intros H; try discriminate; auto.
  apply andb_true_iff in H. destruct H as [H1 H2]. apply Z.eqb_eq in H1. subst. f_equal. auto.
Qed.

Lemma str_eqb_refl : forall a, str_eqb a a = true.
Proof. induction a; cbn [str_eqb]; auto. rewrite Z.eqb_refl. auto. Qed.

(* ---- cursor motion fragments: only the cursor (and pending flag) change ---- *)
Definition same_but_cursor (t t' : term) : Prop :=
  tgrid t' = tgrid t /\ pen t' = pen t /\ aw t' = aw t /\ cvis t' = cvis t /\ undef t' = undef t.

Lemma sbc_refl : forall t, same_but_cursor t t.
Proof. unfold same_but_cursor; auto. Qed.

Lemma sbc_trans : forall a b c, same_but_cursor a b -> same_but_cursor b c -> same_but_cursor a c.
Proof. unfold same_but_cursor; intros a b c (A1&A2&A3&A4&A5) (B1&B2&B3&B4&B5). repeat split; congruence. Qed.

Lemma crlf_run : forall W n t,
  (0 < n)%nat ->
  let t' := trun W t (crlf n) in
  same_but_cursor t t' /\ cx t' = 0 /\ cy t' = cy t + Z.of_nat n /\ pend t' = false.
Proof.
  intros W n. induction n as [|n IH]; intros t Hn; [lia|].
  cbn [crlf]. rewrite !trun_cons.
  destruct n as [|n'].
  - cbn [crlf trun fold_left tstep cx cy pend]. unfold same_but_cursor. cbn. repeat split; lia.
  - specialize (IH (tstep W (tstep W t TCR) TLF) ltac:(lia)).
    cbv zeta in IH. destruct IH as (S1 & X & Y & P).
    cbv zeta. split; [|split; [|split]]; auto.
    rewrite Y. cbn [tstep cy]. lia.
Qed.

Lemma cuf_run : forall W n t,
  0 <= n -> pend t = false ->
  let t' := trun W t (cuf n) in
  same_but_cursor t t' /\ cx t' = Z.min (W - 1) (cx t + n) /\ cy t' = cy t /\ pend t' = false
  \/ (n = 0 /\ trun W t (cuf n) = t).
Proof.
  intros W n t Hn Hp. unfold cuf. destruct (n =? 0) eqn:E.
  - right. split; [lia|reflexivity].
  - left. cbn [trun fold_left tstep]. unfold pn. rewrite E. unfold same_but_cursor; cbn. auto 10.
Qed.

Lemma cuf_run0 : forall W n t,
  0 <= n <= W - 1 -> cx t = 0 -> pend t = false ->
  let t' := trun W t (cuf n) in
  same_but_cursor t t' /\ cx t' = n /\ cy t' = cy t /\ pend t' = false.
Proof.
  intros W n t Hn Hx Hp. destruct (cuf_run W n t ltac:(lia) Hp) as [(S & X & Y & P)|(N & E)].
  - cbv zeta. split; [exact S|]. split; [rewrite X, Hx; lia|]. split; auto.
  - cbv zeta. rewrite E. split; [apply sbc_refl|]. split; [lia|]. split; auto.
Qed.

Lemma cuu_run : forall W n t,
  0 <= n <= cy t -> pend t = false ->
  let t' := trun W t (cuu n) in
  same_but_cursor t t' /\ cx t' = cx t /\ cy t' = cy t - n /\ pend t' = false.
Proof.
  intros W n t Hn Hp. unfold cuu. destruct (n =? 0) eqn:E; cbv zeta.
  - cbn. repeat split; auto using sbc_refl. lia.
  - cbn [trun fold_left tstep]. unfold pn. rewrite E. unfold same_but_cursor; cbn. repeat split; auto.
Qed.

Lemma cub_run : forall W n t,
  0 <= n <= cx t -> pend t = false ->
  let t' := trun W t (cub n) in
  same_but_cursor t t' /\ cx t' = cx t - n /\ cy t' = cy t /\ pend t' = false.
Proof.
  intros W n t Hn Hp. unfold cub. destruct (n =? 0) eqn:E; cbv zeta.
  - cbn. repeat split; auto using sbc_refl. lia.
  - destruct (n =? 1) eqn:E1; cbn [trun fold_left tstep]; unfold pn; try rewrite E;
      unfold same_but_cursor; cbn; repeat split; auto; lia.
Qed.

(* erasing never touches rows above the cursor row *)
Lemma boh_other_row : forall g y x y' x', y' <> y -> boh g y x y' x' = g y' x'.
Proof.
  intros g y x y' x' N. unfold boh, upd.
  assert (E : (y' =? y) = false) by (destruct (y' =? y) eqn:E; [apply Z.eqb_eq in E; lia|reflexivity]).
  destruct (tk (g y x) =? 1); [rewrite E; reflexivity|].
  destruct (tk (g y x) =? 2); [rewrite E; reflexivity|reflexivity].
Qed.

Lemma erase_line_other_row : forall t y x, y <> cy t -> erase_line t y x = tgrid t y x.
Proof.
  intros t y x N. unfold erase_line.
  assert (E : (y =? cy t) = false) by (destruct (y =? cy t) eqn:E; [apply Z.eqb_eq in E; lia|reflexivity]).
  rewrite E. cbn [andb].
  destruct (tk (tgrid t (cy t) (cx t)) =? 2); [apply boh_other_row; exact N|reflexivity].
Qed.

Lemma erase_down_above : forall t y x, y < cy t -> erase_down t y x = tgrid t y x.
Proof.
  intros t y x H. unfold erase_down.
  destruct (cy t <? y) eqn:E; [lia|]. apply erase_line_other_row. lia.
Qed.
