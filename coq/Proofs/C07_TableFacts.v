(* C07 - facts about the binding table regenerated from /repo
   (Gen/C07_Bindings.v, recompiled whenever the table text changes), and about
   the rows as they stood at the pinned commit. *)
From Coq Require Import ZArith List Bool Lia.
From PTK Require Import Lib.Sx Lib.Py Lib.C07_Lemmas Model.C07_Undo Model.C07_Keys Model.C07_Table
  Gen.C07_Bindings Proofs.C07_UndoFacts Proofs.C07_KeysFacts.
Import ListNotations.
Open Scope Z_scope.

(* ---- generic: decidable table checks mean what they say, for every row
        reachable through [lookup] ---- *)

Lemma lookup_in_or_default tbl h : In (lookup tbl h) tbl \/ lookup tbl h = (1, 0, 0).
Proof.
  unfold lookup. destruct (h <? 0); [right; reflexivity|].
  destruct (nth_in_or_default (Z.to_nat h) tbl (1, 0, 0)); [left|right]; assumption.
Qed.

Lemma forallb_lookup (f : row -> bool) tbl h :
  forallb f tbl = true -> f (1, 0, 0) = true -> f (lookup tbl h) = true.
Proof.
  intros Hall Hd. destruct (lookup_in_or_default tbl h) as [Hin|Heq]; [|rewrite Heq; exact Hd].
  rewrite forallb_forall in Hall. auto.
Qed.

Lemma shape_sane tbl : tbl_shape_ok tbl = true -> tbl_sane tbl.
Proof.
  intros H h Hc. pose proof (forallb_lookup row_shape_ok tbl h H eq_refl) as Hr.
  unfold row_shape_ok in Hr. rewrite Hc in Hr. cbn [Z.eqb Pos.eqb orb andb negb] in Hr.
  apply andb_true_iff in Hr. destruct Hr as [_ Hr]. apply Z.eqb_eq in Hr. exact Hr.
Qed.

Lemma group_ok_row tbl h :
  tbl_group_ok tbl = true -> is_group_role (lookup tbl h) = true ->
  r_cls (lookup tbl h) = 2 /\ r_act (lookup tbl h) = 0.
Proof.
  intros H Hrole.
  pose proof (forallb_lookup _ tbl h H eq_refl) as Hr. cbn beta in Hr.
  rewrite Hrole in Hr. cbn [negb orb] in Hr. apply andb_true_iff in Hr.
  destruct Hr as [H1 H2]. apply Z.eqb_eq in H1. apply Z.eqb_eq in H2. split; assumption.
Qed.

Lemma undo_ok_row tbl h :
  tbl_undo_ok tbl = true -> r_act (lookup tbl h) = 1 -> r_cls (lookup tbl h) = 0.
Proof.
  intros H Ha.
  pose proof (forallb_lookup _ tbl h H eq_refl) as Hr. cbn beta in Hr.
  rewrite Ha in Hr. cbn [Z.eqb Pos.eqb negb orb] in Hr. apply Z.eqb_eq in Hr. exact Hr.
Qed.

(* ---- the live table ---- *)

Lemma live_nrows : len c07_rows = c07_nrows.
Proof. vm_compute. reflexivity. Qed.

Lemma live_shape : tbl_shape_ok c07_rows = true.
Proof. vm_compute. reflexivity. Qed.

Theorem live_sane : tbl_sane c07_rows.
Proof. apply shape_sane. exact live_shape. Qed.

(* the Vi undo key never snapshots, and its handler calls Buffer.undo *)
Lemma live_vi_undo_rows :
  forallb (fun r => negb (r_role r =? 4) || ((r_cls r =? 0) && (r_act r =? 1))) c07_rows = true.
Proof. vm_compute. reflexivity. Qed.

Theorem live_vi_undo h :
  r_role (lookup c07_rows h) = 4 -> r_cls (lookup c07_rows h) = 0 /\ r_act (lookup c07_rows h) = 1.
Proof.
  intros Hr. pose proof (forallb_lookup _ c07_rows h live_vi_undo_rows eq_refl) as H. cbn beta in H.
  rewrite Hr in H. cbn [Z.eqb Pos.eqb negb orb] in H. apply andb_true_iff in H.
  destruct H as [H1 H2]. apply Z.eqb_eq in H1. apply Z.eqb_eq in H2. split; assumption.
Qed.

(* the Vi multiple-cursor insert binding is if_no_repeat on a plain handler *)
Lemma live_multicursor_rows :
  forallb (fun r => negb (r_role r =? 6) || ((r_cls r =? 2) && (r_act r =? 0))) c07_rows = true.
Proof. vm_compute. reflexivity. Qed.

Theorem live_multicursor h :
  r_role (lookup c07_rows h) = 6 -> r_cls (lookup c07_rows h) = 2 /\ r_act (lookup c07_rows h) = 0.
Proof.
  intros Hr. pose proof (forallb_lookup _ c07_rows h live_multicursor_rows eq_refl) as H. cbn beta in H.
  rewrite Hr in H. cbn [Z.eqb Pos.eqb negb orb] in H. apply andb_true_iff in H.
  destruct H as [H1 H2]. apply Z.eqb_eq in H1. apply Z.eqb_eq in H2. split; assumption.
Qed.

Lemma live_roles_present :
  has_role c07_rows 1 = true /\ has_role c07_rows 2 = true /\ has_role c07_rows 3 = true /\
  has_role c07_rows 4 = true /\ has_role c07_rows 5 = true /\ has_role c07_rows 6 = true.
Proof. vm_compute. repeat split. Qed.

(* One undo after a run of the multiple-cursor insert binding restores the
   pre-run text and cursor: C07_group applied to the real table. *)
Theorem live_multicursor_group h s e evs :
  r_role (lookup c07_rows h) = 6 ->
  kprev s <> Some h -> Forall (is_key_of h) (e :: evs) -> wf (kbuf s) ->
  let s' := krun c07_rows s (e :: evs) in
  utext (kbuf s') <> utext (kbuf s) ->
  here (undo (kbuf s')) = here (kbuf s).
Proof.
  intros Hr Hp Hall Hwf. cbn zeta. intros Hne.
  destruct (live_multicursor h Hr) as [Hc Ha].
  apply (group_one_undo c07_rows h s e evs Hc Ha Hp Hall Hwf Hne).
Qed.

(* The regenerated table classifies every typed-character / backspace /
   delete / multiple-cursor binding as if_no_repeat on a plain handler
   (recomputed over the whole table whenever it changes) ... *)
Lemma live_group_flag : tbl_group_ok c07_rows = true.
Proof. vm_compute. reflexivity. Qed.

(* ... and every binding whose handler calls Buffer.undo never snapshots. *)
Lemma live_undo_flag : tbl_undo_ok c07_rows = true.
Proof. vm_compute. reflexivity. Qed.

Theorem live_undo_never_snapshots h :
  r_act (lookup c07_rows h) = 1 -> r_cls (lookup c07_rows h) = 0.
Proof. apply undo_ok_row. exact live_undo_flag. Qed.

(* A run of typed characters, of backspaces or of deletes (any grouping
   binding of the real table) is undone as one group. *)
Theorem live_typed_group h s e evs :
  is_group_role (lookup c07_rows h) = true ->
  kprev s <> Some h -> Forall (is_key_of h) (e :: evs) -> wf (kbuf s) ->
  let s' := krun c07_rows s (e :: evs) in
  utext (kbuf s') <> utext (kbuf s) ->
  here (undo (kbuf s')) = here (kbuf s) /\
  rstack (undo (kbuf s')) = [here (kbuf s')].
Proof.
  intros Hr Hp Hall Hwf. cbn zeta. intros Hne.
  destruct (group_ok_row c07_rows h live_group_flag Hr) as [Hc Ha].
  apply (group_one_undo c07_rows h s e evs Hc Ha Hp Hall Hwf Hne).
Qed.

(* Every binding of the real table falls in one of the three categories the
   key-level model has an event for: a plain handler behind a binding that
   snapshots (generic [Key], arbitrary effect), an undo handler ([UndoKey]), or
   the cursor-position-report binding (delivered as [Cpr]).  In particular the
   ONLY binding that never snapshots and is not an undo key is the CPR one. *)
Lemma live_classification_rows :
  forallb (fun r => ((r_act r =? 0) && negb (r_cls r =? 0))
                    || ((r_act r =? 1) && (r_cls r =? 0))
                    || ((r_role r =? 7) && (r_act r =? 0) && (r_cls r =? 0))) c07_rows = true.
Proof. vm_compute. reflexivity. Qed.

Theorem live_classification h :
  (r_act (lookup c07_rows h) = 0 /\ r_cls (lookup c07_rows h) <> 0) \/
  (r_act (lookup c07_rows h) = 1 /\ r_cls (lookup c07_rows h) = 0) \/
  r_role (lookup c07_rows h) = 7.
Proof.
  pose proof (forallb_lookup _ c07_rows h live_classification_rows eq_refl) as H. cbn beta in H.
  apply orb_true_iff in H. destruct H as [H|H]; [apply orb_true_iff in H; destruct H as [H|H]|].
  - left. apply andb_true_iff in H. destruct H as [H1 H2]. apply Z.eqb_eq in H1.
    split; [exact H1|]. intros E. rewrite E in H2. discriminate.
  - right. left. apply andb_true_iff in H. destruct H as [H1 H2].
    apply Z.eqb_eq in H1. apply Z.eqb_eq in H2. split; assumption.
  - right. right. apply andb_true_iff in H. destruct H as [H _].
    apply andb_true_iff in H. destruct H as [H _]. apply Z.eqb_eq in H. exact H.
Qed.

(* Repeated undo reaches the initial text after EVERY session over the real
   table whose generic key events are dispatches of plain snapshotting
   bindings (whatever they do), whose undo keys behave as the handler model
   says and whose terminal reports are delivered as process_keys delivers
   them - no assumption about texts left alone. *)
Theorem live_reaches_start t0 c0 evs k :
  0 <= c0 <= len t0 -> Forall kev_ok evs -> Forall (modelled c07_rows) evs ->
  let s := kbuf (krun c07_rows (kfresh t0 c0) evs) in
  (length (ustack s) <= k)%nat ->
  utext (iter_op Undo k s) = ksession_start t0 evs.
Proof. apply key_reaches_start_modelled. exact live_sane. Qed.

(* every undo handler of the real table is one of the two modelled ones
   (Vi u: event.arg calls; emacs c-_ / c-x c-u: one call) *)
Lemma live_undo_roles_rows :
  forallb (fun r => negb (r_act r =? 1) || (r_role r =? 4) || (r_role r =? 5)) c07_rows = true.
Proof. vm_compute. reflexivity. Qed.

Theorem live_undo_roles h :
  r_act (lookup c07_rows h) = 1 -> r_role (lookup c07_rows h) = 4 \/ r_role (lookup c07_rows h) = 5.
Proof.
  intros Ha. pose proof (forallb_lookup _ c07_rows h live_undo_roles_rows eq_refl) as H. cbn beta in H.
  rewrite Ha in H. cbn [Z.eqb Pos.eqb negb orb] in H. apply orb_true_iff in H.
  destruct H as [H|H]; apply Z.eqb_eq in H; [left|right]; exact H.
Qed.

(* kill-line (c-k), kill-word (escape d), yank (c-y): plain handlers behind
   bindings that snapshot before every invocation *)
Lemma live_kill_yank_rows :
  forallb (fun r => negb ((r_role r =? 8) || (r_role r =? 9) || (r_role r =? 10))
                    || ((r_cls r =? 1) && (r_act r =? 0))) c07_rows = true.
Proof. vm_compute. reflexivity. Qed.

Theorem live_kill_yank h :
  r_role (lookup c07_rows h) = 8 \/ r_role (lookup c07_rows h) = 9 \/ r_role (lookup c07_rows h) = 10 ->
  r_cls (lookup c07_rows h) = 1 /\ r_act (lookup c07_rows h) = 0.
Proof.
  intros Hr. pose proof (forallb_lookup _ c07_rows h live_kill_yank_rows eq_refl) as H. cbn beta in H.
  assert (E : (r_role (lookup c07_rows h) =? 8) || (r_role (lookup c07_rows h) =? 9) || (r_role (lookup c07_rows h) =? 10) = true).
  { destruct Hr as [Hr|[Hr|Hr]]; rewrite Hr; reflexivity. }
  rewrite E in H. cbn [negb orb] in H. apply andb_true_iff in H.
  destruct H as [H1 H2]. apply Z.eqb_eq in H1. apply Z.eqb_eq in H2. split; assumption.
Qed.

Lemma live_roles_present_2 :
  has_role c07_rows 7 = true /\ has_role c07_rows 8 = true /\ has_role c07_rows 9 = true /\ has_role c07_rows 10 = true.
Proof. vm_compute. repeat split. Qed.

(* no binding of the real table has a handler that calls Buffer.redo *)
Lemma live_no_redo_rows : forallb (fun r => negb (r_act r =? 2)) c07_rows = true.
Proof. vm_compute. reflexivity. Qed.

Theorem live_no_redo_handler : tbl_no_redo_handler c07_rows.
Proof.
  intros h E. pose proof (forallb_lookup _ c07_rows h live_no_redo_rows eq_refl) as H. cbn beta in H.
  rewrite E in H. discriminate.
Qed.

(* ---- the rows as they stood at the pinned commit ---- *)

(* Typing "xy" after "abc" and pressing the (emacs) undo key once: the text
   before the run was "abc", one undo gives "abcx". *)
Definition typed_xy : list kev :=
  [Key 0 0 [97; 98; 99; 120] 4; Key 0 0 [97; 98; 99; 120; 121] 5].

Theorem typed_run_one_undo_pinned_refuted :
  exists h s e evs,
    r_role (lookup pinned_rows h) = 1 /\
    kprev s <> Some h /\ Forall (is_key_of h) (e :: evs) /\ wf (kbuf s) /\
    utext (kbuf (krun pinned_rows s (e :: evs))) <> utext (kbuf s) /\
    here (undo (kbuf (krun pinned_rows s (e :: evs)))) <> here (kbuf s).
Proof.
  exists 0, (kfresh [97; 98; 99] 3), (Key 0 0 [97; 98; 99; 120] 4), [Key 0 0 [97; 98; 99; 120; 121] 5].
  split; [reflexivity|]. split; [discriminate|].
  split; [repeat constructor|].
  split; [apply wf_fresh; vm_compute; split; discriminate|].
  split; vm_compute; discriminate.
Qed.

Lemma pinned_flags : tbl_group_ok pinned_rows = false /\ tbl_undo_ok pinned_rows = false.
Proof. vm_compute. split; reflexivity. Qed.

(* With the rows the proposed fix produces, the same keys are one group. *)
Lemma fixed_flags :
  tbl_shape_ok fixed_rows = true /\ tbl_group_ok fixed_rows = true /\ tbl_undo_ok fixed_rows = true.
Proof. vm_compute. repeat split. Qed.

Theorem typed_run_one_undo_fixed h s e evs :
  is_group_role (lookup fixed_rows h) = true ->
  kprev s <> Some h -> Forall (is_key_of h) (e :: evs) -> wf (kbuf s) ->
  let s' := krun fixed_rows s (e :: evs) in
  utext (kbuf s') <> utext (kbuf s) ->
  here (undo (kbuf s')) = here (kbuf s).
Proof.
  intros Hr Hp Hall Hwf. cbn zeta. intros Hne.
  destruct fixed_flags as (_ & Hg & _).
  destruct (group_ok_row fixed_rows h Hg Hr) as [Hc Ha].
  apply (group_one_undo fixed_rows h s e evs Hc Ha Hp Hall Hwf Hne).
Qed.
