(* C08 - facts about the Vi operator model (Model/C08_ViOps.v). *)
From Coq Require Import ZArith List Bool Lia.
From PTK Require Import Lib.Sx Lib.Py Model.Document Model.BufferEdit Model.C02_DocQueries
  Model.C08_ViOps Model.C08_TextObjects Proofs.BufferEditFacts Proofs.BufferEditIndent.
Import ListNotations.
Open Scope Z_scope.

(* ---------------------------------------------------------------------- *)
(* Small list facts *)

Lemma c08_len_firstn_le {T} (s : list T) (a : Z) :
  0 <= a <= len s -> len (firstn (Z.to_nat a) s) = a.
Proof. intros H. rewrite len_firstn. lia. Qed.

Lemma c08_nonempty_len (s : str) : 0 < len s -> nonempty s = true.
Proof. destruct s; [cbn; lia|reflexivity]. Qed.

Lemma c08_len_mid {T} (s : list T) (a b : Z) :
  0 <= a -> a <= b -> b <= len s ->
  len (firstn (Z.to_nat (b - a)) (skipn (Z.to_nat a) s)) = b - a.
Proof. intros Ha Hab Hb. rewrite len_firstn, len_skipn. lia. Qed.

(* ---------------------------------------------------------------------- *)
(* operator_range for the character-wise types *)

Definition charwise (t : totype) : Prop := t = EXCL \/ t = INCL.

Lemma charwise_flags t : charwise t -> is_linew t = false /\ selection_type t = 0.
Proof. intros [->| ->]; split; reflexivity. Qed.

(* start of the range = the smaller end; end = the larger end, +1 when
   inclusive, -1 when exclusive, the range is not empty and the larger end
   sits in column 0 *)
Lemma operator_range_charwise d o :
  charwise (ttype o) ->
  let lo := Z.min (tstart o) (tend o) in
  let hi := Z.max (tstart o) (tend o) in
  fst (operator_range d o) = lo /\
  (ttype o = INCL -> snd (operator_range d o) = hi + 1) /\
  (ttype o = EXCL -> snd (operator_range d o) = hi \/
                     (snd (operator_range d o) = hi - 1 /\ lo < hi /\
                      snd (translate_index_to_position d (hi + dcur d)) = 0)).
Proof.
  intros Hc lo hi. unfold operator_range, to_sorted.
  destruct (tstart o <? tend o) eqn:E.
  - assert (lo = tstart o) by (unfold lo; lia). assert (hi = tend o) by (unfold hi; lia).
    destruct Hc as [Ht|Ht]; rewrite Ht; cbn [is_excl is_incl is_linew andb fst snd].
    + rewrite E. cbn [andb].
      destruct (snd (translate_index_to_position d (tend o + dcur d)) =? 0) eqn:E2;
        cbn [fst snd]; (split; [lia|]); (split; [discriminate|]); intros _.
      * right. split; [lia|]. split; [lia|]. rewrite H0. lia.
      * left. lia.
    + cbn [fst snd]. split; [lia|]. split; [intros _; lia|discriminate].
  - assert (lo = tend o) by (unfold lo; lia). assert (hi = tstart o) by (unfold hi; lia).
    destruct Hc as [Ht|Ht]; rewrite Ht; cbn [is_excl is_incl is_linew andb fst snd].
    + destruct (tend o <? tstart o) eqn:E1; cbn [andb].
      * destruct (snd (translate_index_to_position d (tstart o + dcur d)) =? 0) eqn:E2;
          cbn [fst snd]; (split; [lia|]); (split; [discriminate|]); intros _.
        -- right. split; [lia|]. split; [lia|]. rewrite H0. lia.
        -- left. lia.
      * cbn [fst snd]. split; [lia|]. split; [discriminate|]. intros _. left. lia.
    + cbn [fst snd]. split; [lia|]. split; [intros _; lia|discriminate].
Qed.

(* a motion (one end is the cursor itself) yields a range that touches the
   cursor: start <= 0 <= end, or - exclusive-column-0 rule, backward motion
   from column 0 - end = -1 *)
Lemma operator_range_adjacent d o :
  charwise (ttype o) ->
  Z.min (tstart o) (tend o) <= 0 <= Z.max (tstart o) (tend o) ->
  fst (operator_range d o) <= 0 /\
  (0 <= snd (operator_range d o) \/
   (snd (operator_range d o) = -1 /\ ttype o = EXCL /\ fst (operator_range d o) < 0 /\
    snd (translate_index_to_position d (dcur d)) = 0)).
Proof.
  intros Hc Hb. destruct (operator_range_charwise d o Hc) as (H1 & H2 & H3).
  split; [lia|]. destruct Hc as [Ht|Ht].
  - destruct (H3 Ht) as [H|[H [Hl H']]]; [left; lia|].
    destruct (Z.eq_dec (Z.max (tstart o) (tend o)) 0) as [Hz|Hz].
    + right. rewrite Hz in *. split; [lia|]. split; [exact Ht|]. split; [lia|exact H'].
    + left. lia.
  - left. rewrite (H2 Ht). lia.
Qed.

(* ---------------------------------------------------------------------- *)
(* TextObject.cut for a non-empty character-wise range inside the text *)

Lemma cut_selection_chars text a b :
  0 <= a -> a < b -> b <= len text ->
  cut_selection text (b - 1) a 0 =
  Some (firstn (Z.to_nat a) text ++ skipn (Z.to_nat b) text, a,
        mkcd (firstn (Z.to_nat (b - a)) (skipn (Z.to_nat a) text)) 0).
Proof.
  intros Ha Hab Hb. unfold cut_selection, selection_ranges.
  change (0 =? 2) with false. change (0 =? 1) with false. cbn [andb].
  rewrite Z.min_r by lia. rewrite Z.max_l by lia.
  replace (b - 1 + 1) with b by lia.
  cbn [fold_left cut_step]. change (0 =? 0) with true. cbn [app].
  cbn [join].
  rewrite slice2_in_range by lia. rewrite slice2_in_range by lia.
  rewrite slice_from_in_range by lia.
  rewrite Z.sub_0_r. change (Z.to_nat 0) with O. cbn [skipn].
  assert (Hl : len (firstn (Z.to_nat a) text ++ skipn (Z.to_nat b) text) = a + (len text - b)).
  { rewrite len_app, len_firstn, len_skipn. lia. }
  rewrite Hl. destruct (a + (len text - b) <? a) eqn:E; [lia|]. reflexivity.
Qed.

Lemma to_cut_charwise b o :
  charwise (ttype o) ->
  let a := bcur b + fst (operator_range (bdoc b) o) in
  let e := bcur b + snd (operator_range (bdoc b) o) in
  0 <= a -> a < e -> e <= len (btext b) ->
  to_cut b o =
  Some (firstn (Z.to_nat a) (btext b) ++ skipn (Z.to_nat e) (btext b), a,
        mkcd (firstn (Z.to_nat (e - a)) (skipn (Z.to_nat a) (btext b))) 0).
Proof.
  intros Hc a e Ha Hae He. unfold to_cut.
  destruct (operator_range (bdoc b) o) as [f t] eqn:Er. cbn [fst snd] in *.
  destruct (charwise_flags _ Hc) as [Hl Hs]. rewrite Hl, Hs.
  assert (Hb : is_block (ttype o) = false) by (destruct Hc as [->| ->]; reflexivity).
  rewrite Hb. cbn [negb andb orb].
  destruct (t <=? f) eqn:Etf; [unfold a, e in *; lia|].
  replace (t + bcur b - 1) with (e - 1) by (unfold e; lia).
  replace (f + bcur b) with a by (unfold a; lia).
  destruct (len (btext b) <? e - 1) eqn:E; [lia|].
  apply cut_selection_chars; lia.
Qed.

(* ---------------------------------------------------------------------- *)
(* The operators *)

Lemma op_yank_buf st o ev : vbuf (snd (op_yank st o ev)) = vbuf st.
Proof.
  unfold op_yank. destruct (to_cut (vbuf st) o) as [[[t c] cd]|]; cbn [snd]; [|reflexivity].
  destruct (nonempty (ctext cd)); reflexivity.
Qed.

Lemma op_yank_reg_buf st o ev : vbuf (snd (op_yank_reg st o ev)) = vbuf st.
Proof.
  unfold op_yank_reg. destruct (nth_error (ekeys ev) 1); [|reflexivity].
  destruct (is_regname z); [|reflexivity].
  destruct (to_cut (vbuf st) o) as [[[t c] cd]|]; [|reflexivity].
  cbn [snd]. destruct (nonempty (ctext cd)); reflexivity.
Qed.

(* delete / change without register: exactly the span goes, the clipboard
   receives exactly the span *)
Lemma op_delete_span delete_only st o ev :
  charwise (ttype o) ->
  let b := vbuf st in
  let a := bcur b + fst (operator_range (bdoc b) o) in
  let e := bcur b + snd (operator_range (bdoc b) o) in
  0 <= a -> a < e -> e <= len (btext b) ->
  op_delete delete_only false st o ev =
  (0, mkvst (mkbuf (firstn (Z.to_nat a) (btext b) ++ skipn (Z.to_nat e) (btext b)) a)
            (Some (mkcd (firstn (Z.to_nat (e - a)) (skipn (Z.to_nat a) (btext b))) 0))
            (vreg st) (if delete_only then vins st else true)).
Proof.
  intros Hc b a e Ha Hae He. unfold op_delete. fold b.
  rewrite (to_cut_charwise b o Hc) by assumption. fold a e.
  cbn [ctext]. rewrite c08_nonempty_len by (rewrite c08_len_mid; lia).
  unfold set_doc. rewrite Z.max_r by lia. cbn [vbuf vclip vreg vins].
  destruct delete_only; reflexivity.
Qed.

(* ... with a register: the named register receives it when the second key
   of the event's key sequence is a register name *)
Lemma op_delete_span_reg delete_only st o ev k :
  charwise (ttype o) ->
  let b := vbuf st in
  let a := bcur b + fst (operator_range (bdoc b) o) in
  let e := bcur b + snd (operator_range (bdoc b) o) in
  0 <= a -> a < e -> e <= len (btext b) ->
  nth_error (ekeys ev) 1 = Some k -> is_regname k = true ->
  op_delete delete_only true st o ev =
  (0, mkvst (mkbuf (firstn (Z.to_nat a) (btext b) ++ skipn (Z.to_nat e) (btext b)) a)
            (vclip st)
            (Some (k, mkcd (firstn (Z.to_nat (e - a)) (skipn (Z.to_nat a) (btext b))) 0))
            (if delete_only then vins st else true)).
Proof.
  intros Hc b a e Ha Hae He Hk Hr. unfold op_delete. fold b.
  rewrite (to_cut_charwise b o Hc) by assumption. fold a e.
  cbn [ctext]. rewrite c08_nonempty_len by (rewrite c08_len_mid; lia).
  rewrite Hk, Hr. unfold set_doc. rewrite Z.max_r by lia. cbn [vbuf vclip vreg vins].
  destruct delete_only; reflexivity.
Qed.

(* yank stores exactly the span *)
Lemma op_yank_span st o ev :
  charwise (ttype o) ->
  let b := vbuf st in
  let a := bcur b + fst (operator_range (bdoc b) o) in
  let e := bcur b + snd (operator_range (bdoc b) o) in
  0 <= a -> a < e -> e <= len (btext b) ->
  op_yank st o ev =
  (0, mkvst b (Some (mkcd (firstn (Z.to_nat (e - a)) (skipn (Z.to_nat a) (btext b))) 0))
            (vreg st) (vins st)).
Proof.
  intros Hc b a e Ha Hae He. unfold op_yank. fold b.
  rewrite (to_cut_charwise b o Hc) by assumption. fold a e.
  cbn [ctext]. rewrite c08_nonempty_len by (rewrite c08_len_mid; lia). reflexivity.
Qed.

(* case operators *)
Lemma op_transform_frame F st o ev :
  Inv (vbuf st) ->
  let b := vbuf st in
  let a := bcur b + fst (operator_range (bdoc b) o) in
  let e := bcur b + snd (operator_range (bdoc b) o) in
  0 <= a -> a < e -> e <= len (btext b) ->
  exists c',
    op_transform F st o ev =
    (0, with_buf st (mkbuf (firstn (Z.to_nat a) (btext b)
                            ++ F (firstn (Z.to_nat (e - a)) (skipn (Z.to_nat a) (btext b)))
                            ++ skipn (Z.to_nat e) (btext b)) c')).
Proof.
  intros Hi b a e Ha Hae He. unfold op_transform. fold b.
  destruct (operator_range (bdoc b) o) as [s t] eqn:Er. cbn [fst snd] in *.
  destruct (s <? t) eqn:E; [|unfold a, e in *; lia].
  destruct (transform_region_spec F b a e Hi Ha Hae He) as (c' & Htr & _).
  fold a e. rewrite Htr. eexists. unfold set_cursor. cbn [btext bcur]. reflexivity.
Qed.

Lemma op_transform_empty F st o ev :
  snd (operator_range (bdoc (vbuf st)) o) <= fst (operator_range (bdoc (vbuf st)) o) ->
  op_transform F st o ev = (0, st).
Proof.
  intros H. unfold op_transform.
  destruct (operator_range (bdoc (vbuf st)) o) as [s t]. cbn [fst snd] in H.
  destruct (s <? t) eqn:E; [lia|reflexivity].
Qed.

(* indent operators: only rows from_..to of get_line_numbers are rewritten *)
Lemma op_indent_text st o ev st' :
  op_indent st o ev = (0, st') ->
  let '(f, t) := get_line_numbers (vbuf st) o in
  btext (vbuf st') =
  transform_lines (fun l => str_mul INDENT (earg ev) ++ l) (btext (vbuf st)) f (t + 1).
Proof.
  unfold op_indent. destruct (get_line_numbers (vbuf st) o) as [f t].
  destruct (indent (vbuf st) f (t + 1) (earg ev)) as [b' r|c b'] eqn:E; cbn [of_res].
  - intros H. injection H as <-. cbn [with_buf vbuf]. eapply indent_text; exact E.
  - intros H. injection H as Hc _. unfold indent, set_document in E.
    match type of E with context [if ?x then _ else _] => destruct x end;
      cbn [bind] in E; [|discriminate].
    injection E as <- _. discriminate.
Qed.

Lemma op_unindent_text st o ev st' :
  op_unindent st o ev = (0, st') ->
  let '(f, t) := get_line_numbers (vbuf st) o in
  btext (vbuf st') =
  transform_lines (unindent_line (str_mul INDENT (earg ev))) (btext (vbuf st)) f (t + 1).
Proof.
  unfold op_unindent. destruct (get_line_numbers (vbuf st) o) as [f t].
  destruct (unindent (vbuf st) f (t + 1) (earg ev)) as [b' r|c b'] eqn:E; cbn [of_res].
  - intros H. injection H as <-. cbn [with_buf vbuf]. eapply unindent_text; exact E.
  - intros H. injection H as Hc _. unfold unindent, set_document in E.
    match type of E with context [if ?x then _ else _] => destruct x end;
      cbn [bind] in E; [|discriminate].
    injection E as <- _. discriminate.
Qed.

(* gq: whole lines before from_row and after to_row are kept *)
Lemma reshape_frame b f t :
  reshape_text b f t = b \/
  exists mid,
    btext (reshape_text b f t) =
    concat (slice_to (splitlines_keep (btext b)) f) ++ mid
    ++ concat (slice_from (splitlines_keep (btext b)) (t + 1)).
Proof.
  unfold reshape_text.
  destruct (slice2 (splitlines_keep (btext b)) f (t + 1)) as [|first rest]; [left; reflexivity|].
  right. eexists. unfold set_doc. cbn [btext]. reflexivity.
Qed.

(* ---------------------------------------------------------------------- *)
(* The empty range is a no-op (since fix f3ffc71) *)

Definition st_of (text : str) (cur : Z) : vst := mkvst (mkbuf text cur) None None false.

Lemma to_cut_empty b o :
  is_linew (ttype o) = false -> is_block (ttype o) = false ->
  snd (operator_range (bdoc b) o) <= fst (operator_range (bdoc b) o) ->
  to_cut b o = Some (btext b, bcur b, mkcd [] (selection_type (ttype o))).
Proof.
  intros Hl Hb H. unfold to_cut.
  destruct (operator_range (bdoc b) o) as [f t]. cbn [fst snd] in H.
  rewrite Hl, Hb. cbn [negb andb orb]. destruct (t <=? f) eqn:E; [reflexivity|lia].
Qed.

Lemma set_doc_same b : 0 <= bcur b -> set_doc (btext b) (bcur b) = b.
Proof. intros H. unfold set_doc. rewrite Z.max_r by lia. destruct b; reflexivity. Qed.

Lemma op_delete_empty delete_only with_register st o ev :
  is_linew (ttype o) = false -> is_block (ttype o) = false -> 0 <= bcur (vbuf st) ->
  snd (operator_range (bdoc (vbuf st)) o) <= fst (operator_range (bdoc (vbuf st)) o) ->
  op_delete delete_only with_register st o ev =
  (0, mkvst (vbuf st) (vclip st) (vreg st) (if delete_only then vins st else true)).
Proof.
  intros Hl Hb Hc H. unfold op_delete. rewrite to_cut_empty by assumption.
  cbn [ctext nonempty]. rewrite set_doc_same by exact Hc.
  destruct delete_only; reflexivity.
Qed.

Lemma op_yank_empty st o ev :
  is_linew (ttype o) = false -> is_block (ttype o) = false ->
  snd (operator_range (bdoc (vbuf st)) o) <= fst (operator_range (bdoc (vbuf st)) o) ->
  op_yank st o ev = (0, st).
Proof.
  intros Hl Hb H. unfold op_yank. rewrite to_cut_empty by assumption. reflexivity.
Qed.

Lemma op_yank_reg_empty st o ev :
  is_linew (ttype o) = false -> is_block (ttype o) = false ->
  snd (operator_range (bdoc (vbuf st)) o) <= fst (operator_range (bdoc (vbuf st)) o) ->
  snd (op_yank_reg st o ev) = st.
Proof.
  intros Hl Hb H. unfold op_yank_reg. destruct (nth_error (ekeys ev) 1); [|reflexivity].
  destruct (is_regname z); [|reflexivity]. rewrite to_cut_empty by assumption. reflexivity.
Qed.

(* the failed exclusive object TextObject(0) has the empty range (0, 0) *)
Lemma operator_range_mk1_0 d : operator_range d (mk1 0) = (0, 0).
Proof. unfold operator_range, to_sorted, mk1. cbn [tstart tend ttype]. reflexivity. Qed.

Lemma op_transform_failed_excl F st ev : op_transform F st (mk1 0) ev = (0, st).
Proof. apply op_transform_empty. rewrite operator_range_mk1_0. cbn [fst snd]. lia. Qed.

(* ---------------------------------------------------------------------- *)
(* ... which the functions as they stood at the pinned commit did not satisfy *)

(* "abc def", cursor 0, TextObject(0): the text grows *)
Lemma empty_range_not_noop_pinned :
  exists text cur o,
    0 <= cur <= len text /\ ttype o = EXCL /\
    0 <= cur + tstart o <= len text /\ 0 <= cur + tend o <= len text /\
    snd (operator_range_pinned (mkdoc text cur) o) <= fst (operator_range_pinned (mkdoc text cur) o) /\
    snd (op_delete_pinned true (st_of text cur) o) <> st_of text cur /\
    len text < len (btext (vbuf (snd (op_delete_pinned true (st_of text cur) o)))).
Proof.
  exists [97; 98; 99; 32; 100; 101; 102], 0, (mkto 0 0 EXCL).
  vm_compute. repeat split; try (intros H; discriminate H).
Qed.

(* mid-line: the two characters around the cursor went *)
Lemma empty_range_deletes_two_pinned :
  exists text cur o,
    ttype o = EXCL /\ tstart o = 0 /\ tend o = 0 /\
    op_delete_pinned true (st_of text cur) o =
    (0, mkvst (mkbuf [97; 98; 99; 32; 100] 5) (Some (mkcd [101; 102] 0)) None false).
Proof.
  exists [97; 98; 99; 32; 100; 101; 102], 6, (mkto 0 0 EXCL). vm_compute. repeat split.
Qed.
