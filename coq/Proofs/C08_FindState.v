(* C08 (round 6, seeded C08-12) - vi_state.last_character_find as session
   state: f F t T record the search whether or not the character is found,
   no other key touches it, and ; / , under an operator are the recorded
   search - so after a FAILED find, ; and , fail too and the operator is
   cancelled. *)
From Coq Require Import ZArith List Bool Lia.
From PTK Require Import Lib.Sx Lib.Py Model.Document Model.BufferEdit Model.C02_DocQueries
  Model.C08_ViOps Model.C08_TextObjects Model.C08_Session Proofs.C08_ViFacts Proofs.C08_Failed
  Proofs.C08_SessionFacts.
Import ListNotations.
Open Scope Z_scope.

(* every text-object key leaves upd_find behind - found or not, operator
   applied, cancelled or raised, under an operator or typed alone *)
Lemma find_recorded p s m status s' :
  key_step_gen p s (KM m) = (status, s') -> ks_find s' = upd_find (ks_find s) m.
Proof.
  unfold key_step_gen. cbv zeta.
  destruct (ks_op s) as [[k keys]|].
  - destruct (text_object _ _ _ _) as [o failed|].
    + destruct (p && cancelled o failed).
      * intros H; injection H as _ <-. reflexivity.
      * destruct (run_op k (ks_vst s) o _) as [st0 st1]. intros H; injection H as _ <-. reflexivity.
    + intros H; injection H as _ <-. reflexivity.
  - destruct (text_object _ _ _ _) as [o failed|]; intros H; injection H as _ <-; reflexivity.
Qed.

Lemma upd_find_zero f : upd_find f T_zero = f.
Proof. reflexivity. Qed.

(* digits, operator keys and Escape do not touch it *)
Lemma other_keys_keep_find p s key status s' :
  (forall m, key <> KM m) -> key_step_gen p s key = (status, s') -> ks_find s' = ks_find s.
Proof.
  intros Hk. destruct key as [d|k keys| |m]; [| | |exfalso; exact (Hk m eq_refl)].
  - intros H. destruct (ks_arg s) as [a|] eqn:Ea.
    + unfold key_step_gen in H. cbv zeta in H. rewrite Ea in H. injection H as _ <-. reflexivity.
    + destruct (d =? 0) eqn:Ed.
      * assert (H' : key_step_gen p s (KM T_zero) = (status, s')).
        { unfold key_step_gen in *. cbv zeta in *. rewrite Ea, Ed in H. rewrite Ea. exact H. }
        rewrite (find_recorded p s T_zero status s' H'). reflexivity.
      * unfold key_step_gen in H. cbv zeta in H. rewrite Ea, Ed in H. injection H as _ <-. reflexivity.
  - unfold key_step_gen. cbv zeta. destruct (ks_op s); intros H; injection H as _ <-; reflexivity.
  - unfold key_step_gen. cbv zeta. intros H; injection H as _ <-. reflexivity.
Qed.

(* ; and , are the recorded search: f (inclusive) in its direction, the
   exclusive F against it *)
Lemma resolve_after_find f ch :
  resolve_tok (upd_find f (T_f ch)) (T_rep false) = T_repeat false true ch false /\
  resolve_tok (upd_find f (T_t ch)) (T_rep false) = T_repeat false true ch false /\
  resolve_tok (upd_find f (T_F ch)) (T_rep false) = T_repeat false true ch true /\
  resolve_tok (upd_find f (T_T ch)) (T_rep false) = T_repeat false true ch true /\
  resolve_tok (upd_find f (T_f ch)) (T_rep true) = T_repeat true true ch false /\
  resolve_tok (upd_find f (T_t ch)) (T_rep true) = T_repeat true true ch false /\
  resolve_tok (upd_find f (T_F ch)) (T_rep true) = T_repeat true true ch true /\
  resolve_tok (upd_find f (T_T ch)) (T_rep true) = T_repeat true true ch true.
Proof. repeat split. Qed.

(* under a pending operator, ; / , on a recorded search that finds nothing
   cancel the operator: nothing changes, nothing stays pending, the recorded
   search stays *)
Lemma repeat_fails_cancels s k keys rv ch bw o :
  ks_op s = Some (k, keys) -> ks_find s = Some (ch, bw) ->
  let '(n, hc) := pending_count (ks_oparg s) (ks_arg s) in
  text_object (T_repeat rv true ch bw) (bdoc (vbuf (ks_vst s))) n hc = TO o true ->
  key_step s (KM (T_rep rv)) = (0, cleared s).
Proof.
  intros Hop Hf. pose proof (wrapper_cancels s k keys (T_rep rv) o true Hop) as W.
  unfold pending_count in *. rewrite Hf in W. cbn [resolve_tok upd_find] in W.
  intros Ht. rewrite (W Ht eq_refl). rewrite <- Hf.
  replace (with_find (cleared s) (ks_find s)) with (cleared s); [reflexivity|].
  unfold with_find, cleared. reflexivity.
Qed.

(* ... and without any recorded search *)
Lemma repeat_without_find_cancels s k keys rv :
  ks_op s = Some (k, keys) -> ks_find s = None ->
  key_step s (KM (T_rep rv)) = (0, cleared s).
Proof.
  intros Hop Hf. pose proof (wrapper_cancels s k keys (T_rep rv) (mk1 0) true Hop) as W.
  unfold pending_count in *. rewrite Hf in W. cbn [resolve_tok upd_find text_object] in W.
  rewrite (W eq_refl eq_refl).
  unfold with_find, cleared. cbn [ks_vst ks_arg ks_oparg ks_op ks_last]. rewrite Hf. reflexivity.
Qed.

(* the scenario of the seeded change as one statement: a find of ch typed
   alone (found or not), then operator + ; where ch does not occur after the
   cursor on its line: cancelled.  [s1] is the state after the find. *)
Lemma failed_find_then_repeat s ch status s1 k keys o :
  key_step s (KM (T_f ch)) = (status, s1) -> ks_op s1 = Some (k, keys) ->
  let '(n, hc) := pending_count (ks_oparg s1) (ks_arg s1) in
  text_object (T_f ch) (bdoc (vbuf (ks_vst s1))) n hc = TO o true ->
  key_step s1 (KM (T_rep false)) = (0, cleared s1).
Proof.
  intros H1 Hop. apply find_recorded in H1. cbn [upd_find] in H1.
  pose proof (repeat_fails_cancels s1 k keys false ch false o Hop H1) as R.
  unfold pending_count in *. intros Ht. apply R. cbn [text_object xorb]. exact Ht.
Qed.
