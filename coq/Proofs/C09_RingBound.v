(* C09 - the kill ring as a bounded structure, with max_size as a parameter:
   any sequence of pushes (set_data) and rotations keeps it within max_size; a
   push on an exactly-full ring drops exactly the oldest entry and nothing
   else; a rotation (yank-pop) never loses anything, full or not.  Every
   command of the editor model changes the ring only by such pushes and
   rotations. *)
From Coq Require Import ZArith List Bool Lia PeanoNat Permutation.
From PTK Require Import Lib.Sx Lib.Py Model.Document Model.BufferEdit Model.C09_Kill Proofs.C09_Ring.
Import ListNotations.
Open Scope Z_scope.

(* InMemoryClipboard.set_data with max_size = m *)
Definition ring_set_n (m : nat) (r : list clip) (d : clip) : list clip := firstn m (d :: r).

Lemma ring_set_is_n r d : ring_set r d = ring_set_n MAX_SIZE r d.
Proof. reflexivity. Qed.

Inductive rop := RPush (d : clip) | RRotate.
Definition rstep (m : nat) (r : list clip) (o : rop) : list clip :=
  match o with RPush d => ring_set_n m r d | RRotate => ring_rotate r end.
Definition rrun (m : nat) (ops : list rop) (r : list clip) : list clip := fold_left (rstep m) ops r.

Lemma ring_set_n_length m r d : (length (ring_set_n m r d) <= m)%nat.
Proof. unfold ring_set_n. rewrite firstn_length. apply Nat.le_min_l. Qed.

Lemma rstep_bounded m r o : (length r <= m)%nat -> (length (rstep m r o) <= m)%nat.
Proof.
  intros H. destruct o; cbn [rstep]; [apply ring_set_n_length|now rewrite ring_rotate_length].
Qed.

(* the bound holds after any sequence of ring operations *)
Lemma rrun_bounded m ops : forall r, (length r <= m)%nat -> (length (rrun m ops r) <= m)%nat.
Proof.
  induction ops as [|o ops IH]; intros r H; cbn [rrun fold_left]; [exact H|].
  apply IH. now apply rstep_bounded.
Qed.

(* a push while there is room keeps everything *)
Lemma ring_set_n_room m r d : (length r < m)%nat -> ring_set_n m r d = d :: r.
Proof. intros H. unfold ring_set_n. apply firstn_all2. cbn [length]. lia. Qed.

(* a push on an exactly-full ring drops exactly the oldest (last) entry *)
Lemma ring_set_n_full m r d :
  (1 <= m)%nat -> length r = m -> ring_set_n m r d = d :: removelast r.
Proof.
  intros Hm Hl. unfold ring_set_n. destruct m as [|m]; [lia|]. cbn [firstn]. f_equal.
  clear Hm. revert m Hl. induction r as [|x r IH]; intros m Hl; [discriminate|].
  cbn [length] in Hl. destruct r as [|y r].
  - cbn in Hl. assert (m = O) by lia. subst. reflexivity.
  - destruct m as [|m]; [cbn in Hl; lia|].
    change (firstn (S m) (x :: y :: r)) with (x :: firstn m (y :: r)).
    change (removelast (x :: y :: r)) with (x :: removelast (y :: r)).
    f_equal. apply IH. cbn [length] in *. lia.
Qed.

(* a rotation loses nothing and keeps the length, whatever the fill level *)
Lemma rotate_any_fill r : Permutation (ring_rotate r) r /\ length (ring_rotate r) = length r.
Proof. split; [apply ring_rotate_perm|apply ring_rotate_length]. Qed.

(* a sequence of rotations only (yank; yank-pop; yank-pop; ...) on a full ring *)
Lemma rotations_lose_nothing m k r :
  length r = m -> Permutation (rotate_n k r) r /\ length (rotate_n k r) = m.
Proof. intros H. split; [apply rotate_n_perm|now rewrite rotate_n_length]. Qed.

(* ---------------------------------------------------------------------- *)
(* Every command of the model changes the ring by pushes and rotations only *)
Definition ring_evolves (r r' : list clip) : Prop := exists ops, r' = rrun MAX_SIZE ops r.

Lemma ev_refl r : ring_evolves r r.
Proof. exists []. reflexivity. Qed.
Lemma ev_push r d : ring_evolves r (ring_set r d).
Proof. exists [RPush d]. reflexivity. Qed.
Lemma ev_push_text r t : ring_evolves r (ring_set_text r t).
Proof. apply ev_push. Qed.
Lemma ev_rotate r : ring_evolves r (ring_rotate r).
Proof. exists [RRotate]. reflexivity. Qed.
Lemma ev_trans a b c : ring_evolves a b -> ring_evolves b c -> ring_evolves a c.
Proof.
  intros [o1 ->] [o2 ->]. exists (o1 ++ o2). unfold rrun. now rewrite fold_left_app.
Qed.

Lemma ring_evolves_bounded r r' :
  ring_evolves r r' -> (length r <= MAX_SIZE)%nat -> (length r' <= MAX_SIZE)%nat.
Proof. intros [ops ->]. apply rrun_bounded. Qed.

Ltac ring_ev :=
  cbn [fst snd ok with_ring with_buf with_sel with_prev with_dbp with_regs upd set_doc move_to sring];
  first [ apply ev_refl | apply ev_push | apply ev_push_text | apply ev_rotate
        | eapply ev_trans; [apply ev_rotate|apply ev_refl] ].

Lemma kill_with_ev s r f : ring_evolves (sring s) (sring (snd (kill_with s r f))).
Proof. unfold kill_with. destruct r; ring_ev. Qed.

Lemma buf_paste_ev s data mode n : sring (snd (buf_paste s data mode n)) = sring s.
Proof. unfold buf_paste. destruct (doc_paste _ _ _ _) as [[t c]|]; reflexivity. Qed.

Lemma fix_vi_cursor_ring s : sring (fix_vi_cursor s) = sring s.
Proof. unfold fix_vi_cursor. destruct (_ && _); reflexivity. Qed.

Lemma copy_selection_ring s sel cut : sring (snd (fst (copy_selection s sel cut))) = sring s.
Proof.
  unfold copy_selection. destruct (doc_cut_selection _ _ _) as [[[t c]|] data]; [|reflexivity].
  destruct cut; reflexivity.
Qed.

Lemma region_cmd_ev s cut : ring_evolves (sring s) (sring (snd (region_cmd s cut))).
Proof.
  unfold region_cmd. destruct (ssel s) as [sel|]; [|ring_ev].
  pose proof (copy_selection_ring s sel cut) as H.
  destruct (copy_selection s sel cut) as [[code s1] data]. cbn [fst snd] in H.
  destruct (code =? 0); cbn [snd ok with_ring sring]; [rewrite <- H; apply ev_push|rewrite H; apply ev_refl].
Qed.

Lemma vi_visual_ev s sel key r : ring_evolves (sring s) (sring (snd (vi_visual s sel key r))).
Proof.
  unfold vi_visual. destruct (key =? 2).
  - pose proof (copy_selection_ring (with_sel s (Some sel)) sel true) as H.
    destruct (copy_selection _ sel true) as [[code s1] data]. cbn [fst snd] in H.
    change (sring (with_sel s (Some sel))) with (sring s) in H.
    destruct (code =? 0); cbn [snd ok with_ring sring]; [rewrite <- H; apply ev_push|rewrite H; apply ev_refl].
  - destruct (tobj_cut _ _ _ _) as [[nd data]|]; [|ring_ev].
    destruct ((key =? 0) || (key =? 3)).
    + destruct nd as [[t c]|]; [|ring_ev].
      destruct (match ctext data with [] => false | _ => true end);
        [destruct (key =? 3); [destruct (is_register_name r)|]|]; ring_ev.
    + destruct (key =? 1).
      * destruct nd; [|ring_ev]. destruct (match ctext data with [] => false | _ => true end); ring_ev.
      * destruct (is_register_name r); [|ring_ev]. destruct nd; [|ring_ev].
        destruct (match ctext data with [] => false | _ => true end); ring_ev.
Qed.

Lemma kill_line_ev s arg : ring_evolves (sring s) (sring (snd (kill_line s arg))).
Proof. unfold kill_line. destruct (arg <? 0); [|destruct (current_char_is_nl _)]; apply kill_with_ev. Qed.
Lemma kill_word_ev s arg rep : ring_evolves (sring s) (sring (snd (kill_word s arg rep))).
Proof.
  unfold kill_word. destruct (find_next_word_ending _ _) as [p|]; [destruct (p =? 0)|]; try ring_ev; apply kill_with_ev.
Qed.
Lemma rubout_ev s arg rep big : ring_evolves (sring s) (sring (snd (unix_word_rubout s arg rep big))).
Proof. unfold unix_word_rubout. destruct (_ =? 0); [ring_ev|apply kill_with_ev]. Qed.
Lemma discard_ev s : ring_evolves (sring s) (sring (snd (unix_line_discard s))).
Proof.
  unfold unix_line_discard. destruct (_ && _); [|apply kill_with_ev].
  destruct (delete_before_cursor _ _); ring_ev.
Qed.
Lemma yank_ev s arg : ring_evolves (sring s) (sring (snd (yank s arg))).
Proof. unfold yank. rewrite buf_paste_ev. apply ev_refl. Qed.
Lemma yank_pop_ev s : ring_evolves (sring s) (sring (snd (yank_pop s))).
Proof.
  unfold yank_pop. destruct (sdbp s) as [[t c]|]; [|ring_ev].
  rewrite buf_paste_ev. ring_ev.
Qed.
Lemma set_mark_ev s : ring_evolves (sring s) (sring (snd (set_mark s))).
Proof. unfold set_mark. destruct (btext (sb s)); ring_ev. Qed.
Lemma self_insert_ev s c arg : ring_evolves (sring s) (sring (snd (self_insert_cmd s c arg))).
Proof. unfold self_insert_cmd. destruct (insert_text _ _ _ _); ring_ev. Qed.
Lemma vi_x_ev s arg : ring_evolves (sring s) (sring (snd (vi_x s arg))).
Proof. unfold vi_x. destruct (_ =? 0); [ring_ev|apply kill_with_ev]. Qed.
Lemma vi_X_ev s arg : ring_evolves (sring s) (sring (snd (vi_X s arg))).
Proof. unfold vi_X. destruct (_ =? 0); [ring_ev|apply kill_with_ev]. Qed.
Lemma vi_dd_ev s arg : ring_evolves (sring s) (sring (snd (vi_dd s arg))).
Proof. unfold vi_dd. cbv zeta. destruct (mk_document _ _); ring_ev. Qed.
Lemma vi_paste_reg_ev s r mode arg : ring_evolves (sring s) (sring (snd (vi_paste_reg s r mode arg))).
Proof.
  unfold vi_paste_reg. destruct (is_register_name r); [|ring_ev].
  destruct (reg_get _ _); [rewrite buf_paste_ev|]; ring_ev.
Qed.

Lemma vi_escape_ring o : sring (snd (vi_escape o)) = sring (snd o).
Proof. unfold vi_escape. destruct o as [code s]. destruct (code =? 0); reflexivity. Qed.
Lemma vi_subst_ev s arg : ring_evolves (sring s) (sring (snd (vi_escape (vi_subst_core s arg)))).
Proof. rewrite vi_escape_ring. apply kill_with_ev. Qed.
Lemma vi_bigC_ev s : ring_evolves (sring s) (sring (snd (vi_escape (vi_bigC_core s)))).
Proof. rewrite vi_escape_ring. apply kill_with_ev. Qed.
Lemma vi_bigS_ev s : ring_evolves (sring s) (sring (snd (vi_escape (vi_bigS_core s)))).
Proof.
  rewrite vi_escape_ring. unfold vi_bigS_core. cbv zeta.
  destruct (delete _ _); ring_ev.
Qed.

Lemma vi_op_ev s op reg m arg : ring_evolves (sring s) (sring (snd (vi_op s op reg m arg))).
Proof.
  unfold vi_op. destruct (motion_obj _ _ _) as [[start oty]|]; [|ring_ev].
  destruct (_ && _); [ring_ev|]. destruct (_ && _); [ring_ev|].
  destruct (tobj_cut _ _ _ _) as [[nd data]|]; [|ring_ev].
  destruct nd as [[t c]|]; [|ring_ev].
  destruct (op =? 1).
  - destruct (match ctext data with [] => false | _ => true end);
      [destruct (0 <=? reg); [destruct (is_register_name reg)|]|]; ring_ev.
  - destruct (op =? 2); [rewrite vi_escape_ring|];
    (destruct (match ctext data with [] => false | _ => true end);
      [destruct (0 <=? reg); [destruct (is_register_name reg)|]|]; ring_ev).
Qed.

Lemma exec_ev s c arg rep : ring_evolves (sring s) (sring (snd (exec s c arg rep))).
Proof.
  destruct c; cbn [exec];
  first [ apply kill_line_ev | apply kill_word_ev | apply rubout_ev | apply discard_ev
        | apply yank_ev | apply yank_pop_ev | apply set_mark_ev | apply self_insert_ev
        | apply region_cmd_ev | apply vi_x_ev | apply vi_X_ev | apply vi_dd_ev
        | apply vi_paste_reg_ev | apply vi_visual_ev | apply kill_with_ev
        | apply vi_subst_ev | apply vi_bigC_ev | apply vi_bigS_ev | apply vi_op_ev
        | (rewrite buf_paste_ev; apply ev_refl)
        | (destruct (has_sel s); [apply region_cmd_ev|apply rubout_ev])
        | ring_ev ].
Qed.

Lemma step_tail_ev s s0 c arg rep bid :
  sring s0 = sring s ->
  ring_evolves (sring s)
    (sring (snd (let '(code, s') := exec s0 c arg rep in
                 if code =? 0 then (0, with_prev (fix_vi_cursor s') bid)
                 else if code =? E_UNMODELLED then (code, s)
                 else (code, with_prev s' 0)))).
Proof.
  intros H0. pose proof (exec_ev s0 c arg rep) as H. rewrite H0 in H.
  destruct (exec s0 c arg rep) as [code s']. cbn [snd] in H.
  destruct (code =? 0); [cbn [snd with_prev sring]; rewrite fix_vi_cursor_ring; exact H|].
  destruct (code =? E_UNMODELLED); [apply ev_refl|exact H].
Qed.

Lemma step_ev s c a : ring_evolves (sring s) (sring (snd (step s c a))).
Proof.
  unfold step.
  destruct c; try (cbn [snd ok move_to upd with_buf sring]; apply ev_refl);
  repeat match goal with
  | |- ring_evolves _ (sring (snd (if ?b then (E_UNMODELLED, _) else _))) =>
      destruct b; [apply ev_refl|]
  end;
  cbv zeta; apply step_tail_ev; destruct a; try rewrite fix_vi_cursor_ring; reflexivity.
Qed.

(* the model's state after any command sequence *)
Fixpoint run_steps (s : st) (cs : list (cmd * option Z)) : st :=
  match cs with [] => s | (c, a) :: r => run_steps (snd (step s c a)) r end.

Lemma run_steps_ev cs : forall s, ring_evolves (sring s) (sring (run_steps s cs)).
Proof.
  induction cs as [|[c a] cs IH]; intros s; cbn [run_steps]; [apply ev_refl|].
  eapply ev_trans; [apply step_ev|apply IH].
Qed.

Lemma run_steps_bounded cs s :
  (length (sring s) <= MAX_SIZE)%nat -> (length (sring (run_steps s cs)) <= MAX_SIZE)%nat.
Proof. apply ring_evolves_bounded, run_steps_ev. Qed.
