(* C18 - facts about to_formatted_text / merge_formatted_text (Model/C18_Convert.v). *)
From Coq Require Import ZArith List Bool Lia.
From PTK Require Import Lib.Sx Lib.Py Model.C18_Fragments Model.C18_Ansi Model.C18_Convert.
Import ListNotations.
Open Scope Z_scope.

Definition concat_res (l : list (res (list frag))) : res (list frag) :=
  fold_right res_app (Ok []) l.

(* merge_formatted_text(items)() is the concatenation of the items' conversions,
   the first item that raises deciding the exception *)
Theorem convert_merge ac items :
  convert ac (VMerge items) = concat_res (map (convert false) items).
Proof.
  induction items as [|x r IH]; [reflexivity|].
  cbn [map concat_res fold_right]. fold (concat_res (map (convert false) r)).
  rewrite <- IH. cbn [convert]. destruct (convert false x) as [a|e]; reflexivity.
Qed.

Lemma to_text_app a b :
  fragment_list_to_text (a ++ b) = fragment_list_to_text a ++ fragment_list_to_text b.
Proof.
  induction a as [|f r IH]; [reflexivity|].
  cbn [app fragment_list_to_text]. now rewrite IH, app_assoc.
Qed.

Lemma concat_res_ok l r :
  concat_res l = Ok r ->
  exists rs, l = map Ok rs /\ r = concat rs.
Proof.
  revert r. induction l as [|x t IH]; intros r H.
  - cbn in H. injection H as <-. now exists [].
  - cbn [concat_res fold_right] in H. fold (concat_res t) in H.
    destruct x as [a|e]; [|discriminate]. cbn [res_app] in H.
    destruct (concat_res t) as [b|e] eqn:E; [|discriminate]. injection H as <-.
    destruct (IH b eq_refl) as (rs & -> & ->). exists (a :: rs). split; reflexivity.
Qed.

Lemma to_text_concat rs :
  fragment_list_to_text (concat rs) = concat (map fragment_list_to_text rs).
Proof.
  induction rs as [|a r IH]; [reflexivity|]. cbn [concat map]. now rewrite to_text_app, IH.
Qed.

(* Merging preserves the visible characters in order: the plain text of the
   merged value is the concatenation of the plain texts of its items. *)
Theorem merge_plain_text ac items r :
  convert ac (VMerge items) = Ok r ->
  exists rs, map (convert false) items = map Ok rs /\
             fragment_list_to_text r = concat (map fragment_list_to_text rs).
Proof.
  rewrite convert_merge. intros H. destruct (concat_res_ok _ _ H) as (rs & H1 & ->).
  exists rs. split; [assumption | apply to_text_concat].
Qed.

(* definitional: a list converts to itself *)
Theorem to_formatted_text_list r ac' : to_formatted_text [] ac' (VList r) = Ok r.
Proof. reflexivity. Qed.

(* a callable is transparent (but auto_convert is not passed on) *)
Theorem convert_call ac v : convert ac (VCall v) = convert false v.
Proof. reflexivity. Qed.

(* Converting the result of a conversion again is the identity: the fragment
   list is the canonical form. *)
Theorem to_formatted_text_idempotent st ac v r :
  to_formatted_text st ac v = Ok r ->
  forall ac', to_formatted_text [] ac' (VList r) = Ok r.
Proof. intros _ ac'. reflexivity. Qed.

(* the extra style only prefixes styles: text is untouched *)
Theorem to_formatted_text_style_text st ac v r0 r :
  to_formatted_text [] ac v = Ok r0 -> to_formatted_text st ac v = Ok r ->
  map ftext r = map ftext r0.
Proof.
  unfold to_formatted_text. destruct (convert ac v) as [frs|e]; [|discriminate].
  intros H0 H. injection H0 as <-. injection H as <-.
  destruct st; [reflexivity|]. cbn [apply_style]. rewrite map_map. reflexivity.
Qed.

(* a str is one unstyled fragment; None is empty *)
Theorem convert_str ac s : convert ac (VStr s) = Ok [mkfrag [] s []].
Proof. reflexivity. Qed.

Example merge_example :
  to_formatted_text [] false (VMerge [VStr [97]; VCall (VList [mkfrag [98] [99] []]); VNone])
  = Ok [mkfrag [] [97] []; mkfrag [98] [99] []].
Proof. reflexivity. Qed.
