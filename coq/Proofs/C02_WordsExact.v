(* C02 - word motions of prompt_toolkit.document.Document, exact targets.

   Proofs/C02_Words.v shows that the target of a word motion is *a* run
   boundary in the right direction.  Here: *which* one.  [runs cls s] is
   complete (every non-blank character lies in an emitted run), so its starts
   enumerate the word starts of s and its ends the word ends; transferred to
   the whole text this pins the result of each motion to the count-th word
   start / word end after / before the cursor, and None to "fewer than count
   of them". *)
From Coq Require Import ZArith List Bool Lia Sorted.
From PTK Require Import Lib.Sx Lib.Py Gen.Whitespace Model.Document Model.C02_DocQueries Proofs.C02_Base Proofs.C02_Words.
Import ListNotations.
Open Scope Z_scope.

(* j is the index of the first character of a word *)
Definition word_start (cls : Z -> Z) (s : str) (j : Z) : Prop :=
  clsat cls s j <> 0 /\ clsat cls s (j - 1) <> clsat cls s j.
(* j is one past the last character of a word *)
Definition word_end (cls : Z -> Z) (s : str) (j : Z) : Prop :=
  clsat cls s (j - 1) <> 0 /\ clsat cls s j <> clsat cls s (j - 1).
(* l lists exactly the members of P, in increasing order *)
Definition enumerates (P : Z -> Prop) (l : list Z) : Prop :=
  StronglySorted Z.lt l /\ forall j, In j l <-> P j.
(* = nth_match *)
Definition pick (l : list Z) (count : Z) : option Z :=
  if count <? 1 then None else nth_error l (Z.to_nat (count - 1)).

(* ---------------------------------------------------------------------- *)
(* E1: an enumeration is unique *)

Lemma ss_lt_unique : forall l1 l2 : list Z,
  StronglySorted Z.lt l1 -> StronglySorted Z.lt l2 ->
  (forall j, In j l1 <-> In j l2) -> l1 = l2.
Proof.
  induction l1 as [|a l1 IH]; intros l2 S1 S2 Hm.
  - destruct l2 as [|b l2]; [reflexivity|]. exfalso.
    apply (proj2 (Hm b)). left. reflexivity.
  - destruct l2 as [|b l2].
    + exfalso. apply (proj1 (Hm a)). left. reflexivity.
    + apply StronglySorted_inv in S1. destruct S1 as [S1 F1].
      apply StronglySorted_inv in S2. destruct S2 as [S2 F2].
      rewrite Forall_forall in F1, F2.
      assert (Hab : a = b).
      { destruct (proj1 (Hm a) (or_introl eq_refl)) as [Hba|Hin]; [symmetry; exact Hba|].
        destruct (proj2 (Hm b) (or_introl eq_refl)) as [Hab|Hin2]; [exact Hab|].
        specialize (F1 _ Hin2). specialize (F2 _ Hin). lia. }
      subst b. f_equal. apply IH; [exact S1|exact S2|].
      intros j. split; intros Hj.
      * destruct (proj1 (Hm j) (or_intror Hj)) as [He|Hin]; [|exact Hin].
        specialize (F1 _ Hj). lia.
      * destruct (proj2 (Hm j) (or_intror Hj)) as [He|Hin]; [|exact Hin].
        specialize (F2 _ Hj). lia.
Qed.

Lemma enumerates_unique P l1 l2 : enumerates P l1 -> enumerates P l2 -> l1 = l2.
Proof.
  intros [S1 M1] [S2 M2]. apply ss_lt_unique; [exact S1|exact S2|].
  intros j. split; intros H.
  - apply M2. apply M1. exact H.
  - apply M1. apply M2. exact H.
Qed.

(* ---------------------------------------------------------------------- *)
(* E2: the scanner is complete *)

Lemma clsat_nz_bounds cls s j : clsat cls s j <> 0 -> 0 <= j < len s.
Proof.
  intros H. destruct (Z_lt_le_dec j 0) as [Hn|Hn].
  - exfalso. apply H. apply clsat_neg. exact Hn.
  - destruct (Z_lt_le_dec j (len s)) as [Hh|Hh]; [lia|].
    exfalso. apply H. apply clsat_high. exact Hh.
Qed.

Lemma runs_aux_cover cls w : forall s i cur,
  0 <= i -> skipn (Z.to_nat i) w = s ->
  forall j, (match cur with Some (st0, _) => st0 <= j | None => i <= j end) ->
    j < len w -> clsat cls w j <> 0 ->
    exists st en, In (st, en) (runs_aux cls s i cur) /\ st <= j < en.
Proof.
  induction s as [|c r IH]; intros i cur Hi Hs j Hj Hjw Hcl.
  - assert (Hlen : len w <= i).
    { pose proof (len_skipn w (Z.to_nat i)) as HL. rewrite Hs in HL.
      change (len (@nil Z)) with 0 in HL. lia. }
    cbn [runs_aux]. destruct cur as [[st0 k0]|].
    + exists st0, i. split; [left; reflexivity|lia].
    + lia.
  - apply w_skipn_cons_nth in Hs. destruct Hs as [Hn Hs'].
    replace (S (Z.to_nat i)) with (Z.to_nat (i + 1)) in Hs' by lia.
    assert (Hci : clsat cls w i = cls c) by (apply clsat_some; assumption).
    assert (Hnxt : i <= j ->
              exists st en,
                In (st, en) (runs_aux cls r (i + 1) (if cls c =? 0 then None else Some (i, cls c))) /\
                st <= j < en).
    { intros Hij. apply (IH (i + 1)); [lia|exact Hs'| |exact Hjw|exact Hcl].
      destruct (cls c =? 0) eqn:E0.
      - destruct (Z.eq_dec j i) as [->|Hne]; [|lia]. exfalso. apply Hcl. rewrite Hci. lia.
      - exact Hij. }
    cbn [runs_aux]. cbv zeta.
    destruct cur as [[st0 k0]|].
    + destruct (cls c =? k0) eqn:E.
      * apply (IH (i + 1) (Some (st0, k0))); [lia|exact Hs'|exact Hj|exact Hjw|exact Hcl].
      * destruct (Z_lt_le_dec j i) as [Hlt|Hge].
        -- exists st0, i. split; [left; reflexivity|lia].
        -- destruct (Hnxt Hge) as (st & en & HI & Hb). exists st, en.
           split; [right; exact HI|exact Hb].
    + apply Hnxt. exact Hj.
Qed.

Lemma C02x_runs_cover cls s j :
  0 <= j < len s -> clsat cls s j <> 0 ->
  exists st en, In (st, en) (runs cls s) /\ st <= j < en.
Proof.
  intros Hj Hcl. unfold runs. apply (runs_aux_cover cls s s 0 None).
  - lia.
  - reflexivity.
  - lia.
  - lia.
  - exact Hcl.
Qed.

(* ---------------------------------------------------------------------- *)
(* E3: the starts (ends) of the runs enumerate the word starts (ends) *)

Lemma chain_ss_fst lo hi l : chain lo hi l -> StronglySorted Z.lt (map fst l).
Proof.
  revert lo. induction l as [|[st en] r IH]; intros lo H.
  - constructor.
  - cbn [chain] in H. destruct H as (H1 & H2 & H3).
    change (map fst ((st, en) :: r)) with (st :: map fst r). constructor.
    + exact (IH _ H3).
    + apply Forall_forall. intros x Hx. apply in_map_iff in Hx.
      destruct Hx as ([s' e'] & Hf & HI). cbn [fst] in Hf. subst x.
      pose proof (chain_In _ _ _ _ _ H3 HI) as HB. lia.
Qed.

Lemma chain_ss_snd lo hi l : chain lo hi l -> StronglySorted Z.lt (map snd l).
Proof.
  revert lo. induction l as [|[st en] r IH]; intros lo H.
  - constructor.
  - cbn [chain] in H. destruct H as (H1 & H2 & H3).
    change (map snd ((st, en) :: r)) with (en :: map snd r). constructor.
    + exact (IH _ H3).
    + apply Forall_forall. intros x Hx. apply in_map_iff in Hx.
      destruct Hx as ([s' e'] & Hf & HI). cbn [snd] in Hf. subst x.
      pose proof (chain_In _ _ _ _ _ H3 HI) as HB. lia.
Qed.

Lemma C02x_run_starts cls s : enumerates (word_start cls s) (map fst (runs cls s)).
Proof.
  split; [exact (chain_ss_fst _ _ _ (runs_chain cls s))|].
  intros j. split.
  - intros HI. apply in_map_iff in HI. destruct HI as ([st en] & Hf & HI).
    cbn [fst] in Hf. subst st.
    apply C02w_runs_is_run in HI. destruct HI as (Hb & He & k & Hk & Hall & Hprev & Hnext).
    unfold word_start. rewrite (Hall j) by lia. split; assumption.
  - intros [Hnz Hd]. pose proof (clsat_nz_bounds _ _ _ Hnz) as Hb.
    destruct (C02x_runs_cover cls s j Hb Hnz) as (st & en & HI & Hse).
    destruct (C02w_runs_is_run _ _ _ _ HI) as (Hb' & He & k & Hk & Hall & Hprev & Hnext).
    destruct (Z.eq_dec st j) as [->|Hne].
    + apply in_map_iff. exists (j, en). split; [reflexivity|exact HI].
    + exfalso. apply Hd. rewrite (Hall j) by lia. rewrite (Hall (j - 1)) by lia. reflexivity.
Qed.

Lemma C02x_run_ends cls s : enumerates (word_end cls s) (map snd (runs cls s)).
Proof.
  split; [exact (chain_ss_snd _ _ _ (runs_chain cls s))|].
  intros j. split.
  - intros HI. apply in_map_iff in HI. destruct HI as ([st en] & Hf & HI).
    cbn [snd] in Hf. subst en.
    apply C02w_runs_is_run in HI. destruct HI as (Hb & He & k & Hk & Hall & Hprev & Hnext).
    unfold word_end. rewrite (Hall (j - 1)) by lia. split; assumption.
  - intros [Hnz Hd]. pose proof (clsat_nz_bounds _ _ _ Hnz) as Hb.
    destruct (C02x_runs_cover cls s (j - 1) Hb Hnz) as (st & en & HI & Hse).
    destruct (C02w_runs_is_run _ _ _ _ HI) as (Hb' & He & k & Hk & Hall & Hprev & Hnext).
    destruct (Z.eq_dec en j) as [->|Hne].
    + apply in_map_iff. exists (st, j). split; [reflexivity|exact HI].
    + exfalso. apply Hd. rewrite (Hall j) by lia. rewrite (Hall (j - 1)) by lia. reflexivity.
Qed.

(* ---------------------------------------------------------------------- *)
(* E4: word starts / ends of a suffix, a prefix, the reversal *)

Lemma C02x_word_start_skipn cls t c j :
  0 <= c -> 1 <= j ->
  word_start cls (skipn (Z.to_nat c) t) j <-> word_start cls t (c + j).
Proof.
  intros Hc Hj. unfold word_start.
  rewrite (clsat_skipn cls t (Z.to_nat c) j) by lia.
  rewrite (clsat_skipn cls t (Z.to_nat c) (j - 1)) by lia.
  rewrite Z2Nat.id by lia.
  replace (c + (j - 1)) with (c + j - 1) by lia. apply iff_refl.
Qed.

Lemma C02x_word_end_skipn cls t c j :
  0 <= c -> 1 <= j ->
  word_end cls (skipn (Z.to_nat c) t) j <-> word_end cls t (c + j).
Proof.
  intros Hc Hj. unfold word_end.
  rewrite (clsat_skipn cls t (Z.to_nat c) j) by lia.
  rewrite (clsat_skipn cls t (Z.to_nat c) (j - 1)) by lia.
  rewrite Z2Nat.id by lia.
  replace (c + (j - 1)) with (c + j - 1) by lia. apply iff_refl.
Qed.

Lemma C02x_word_start_firstn cls t n j :
  j < n -> word_start cls (firstn (Z.to_nat n) t) j <-> word_start cls t j.
Proof.
  intros Hj. unfold word_start.
  rewrite (clsat_firstn cls t (Z.to_nat n) j) by lia.
  rewrite (clsat_firstn cls t (Z.to_nat n) (j - 1)) by lia.
  apply iff_refl.
Qed.

Lemma C02x_word_end_firstn cls t n j :
  j < n -> word_end cls (firstn (Z.to_nat n) t) j <-> word_end cls t j.
Proof.
  intros Hj. unfold word_end.
  rewrite (clsat_firstn cls t (Z.to_nat n) j) by lia.
  rewrite (clsat_firstn cls t (Z.to_nat n) (j - 1)) by lia.
  apply iff_refl.
Qed.

(* clsat_rev without the range condition: both sides are 0 outside *)
Lemma clsat_rev_all cls p j : clsat cls (rev p) j = clsat cls p (len p - 1 - j).
Proof.
  destruct (Z_lt_le_dec j 0) as [Hn|Hn].
  - rewrite clsat_neg by lia. rewrite clsat_high by lia. reflexivity.
  - destruct (Z_lt_le_dec j (len p)) as [Hh|Hh].
    + apply clsat_rev. lia.
    + rewrite clsat_high by (rewrite len_rev; lia). rewrite clsat_neg by lia. reflexivity.
Qed.

(* stated for every j (the requested range 0 <= j <= len s is a special case) *)
Lemma C02x_word_end_rev cls s j :
  word_end cls (rev s) j <-> word_start cls s (len s - j).
Proof.
  unfold word_end, word_start. rewrite !clsat_rev_all.
  replace (len s - 1 - (j - 1)) with (len s - j) by lia.
  replace (len s - 1 - j) with (len s - j - 1) by lia. apply iff_refl.
Qed.

Lemma C02x_word_start_rev cls s j :
  word_start cls (rev s) j <-> word_end cls s (len s - j).
Proof.
  unfold word_end, word_start. rewrite !clsat_rev_all.
  replace (len s - 1 - (j - 1)) with (len s - j) by lia.
  replace (len s - 1 - j) with (len s - j - 1) by lia. apply iff_refl.
Qed.

(* ---------------------------------------------------------------------- *)
(* Enumerations under a shift, a reflection, and without a leading 0 *)

Lemma ss_map_shift k l :
  StronglySorted Z.lt l -> StronglySorted Z.lt (map (fun j => k + j) l).
Proof.
  induction l as [|a l IH]; intros S.
  - constructor.
  - apply StronglySorted_inv in S. destruct S as [S F]. rewrite Forall_forall in F.
    change (map (fun j => k + j) (a :: l)) with (k + a :: map (fun j => k + j) l).
    constructor; [exact (IH S)|].
    apply Forall_forall. intros x Hx. apply in_map_iff in Hx. destruct Hx as (y & Hy & HI).
    specialize (F _ HI). lia.
Qed.

Lemma ss_snoc l y :
  StronglySorted Z.lt l -> (forall x, In x l -> x < y) -> StronglySorted Z.lt (l ++ [y]).
Proof.
  induction l as [|a l IH]; intros S Hy.
  - cbn [app]. constructor; [constructor|constructor].
  - apply StronglySorted_inv in S. destruct S as [S F]. rewrite Forall_forall in F.
    change ((a :: l) ++ [y]) with (a :: (l ++ [y])). constructor.
    + apply IH; [exact S|]. intros x Hx. apply Hy. right. exact Hx.
    + apply Forall_forall. intros x Hx. apply in_app_or in Hx. destruct Hx as [Hx|Hx].
      * exact (F _ Hx).
      * destruct Hx as [<-|[]]. apply Hy. left. reflexivity.
Qed.

Lemma ss_rev_mirror k l :
  StronglySorted Z.lt l -> StronglySorted Z.lt (rev (map (fun j => k - j) l)).
Proof.
  induction l as [|a l IH]; intros S.
  - constructor.
  - apply StronglySorted_inv in S. destruct S as [S F]. rewrite Forall_forall in F.
    change (rev (map (fun j => k - j) (a :: l)))
      with (rev (map (fun j => k - j) l) ++ [k - a]).
    apply ss_snoc; [exact (IH S)|].
    intros x Hx. apply in_rev in Hx. apply in_map_iff in Hx. destruct Hx as (y & Hy & HI).
    specialize (F _ HI). lia.
Qed.

Lemma enumerates_shift (P Q : Z -> Prop) k l :
  enumerates P l -> (forall j, P j <-> Q (k + j)) ->
  enumerates Q (map (fun j => k + j) l).
Proof.
  intros [S M] HPQ. split; [exact (ss_map_shift k l S)|].
  intros y. split.
  - intros Hy. apply in_map_iff in Hy. destruct Hy as (x & Hx & HI). subst y.
    apply HPQ. apply M. exact HI.
  - intros Hy. apply in_map_iff. exists (y - k). split; [lia|].
    apply M. apply HPQ. replace (k + (y - k)) with y by lia. exact Hy.
Qed.

Lemma enumerates_mirror (P Q : Z -> Prop) k l :
  enumerates P l -> (forall j, P j <-> Q (k - j)) ->
  enumerates Q (rev (map (fun j => k - j) l)).
Proof.
  intros [S M] HPQ. split; [exact (ss_rev_mirror k l S)|].
  intros y. split.
  - intros Hy. apply in_rev in Hy. apply in_map_iff in Hy. destruct Hy as (x & Hx & HI). subst y.
    apply HPQ. apply M. exact HI.
  - intros Hy. apply -> in_rev. apply in_map_iff. exists (k - y). split; [lia|].
    apply M. apply HPQ. replace (k - (k - y)) with y by lia. exact Hy.
Qed.

(* what `bump` does to the list of starts: a leading 0 is not counted *)
Definition drop0 (l : list Z) : list Z :=
  match l with
  | x :: r => if x =? 0 then r else l
  | [] => []
  end.

Lemma enumerates_drop0 (P : Z -> Prop) l :
  enumerates P l -> (forall j, P j -> 0 <= j) ->
  enumerates (fun j => 1 <= j /\ P j) (drop0 l).
Proof.
  intros [S M] Hnn. destruct l as [|x r].
  - cbn [drop0]. split; [constructor|]. intros j. split.
    + intros [].
    + intros [_ Hp]. apply M in Hp. destruct Hp.
  - pose proof (StronglySorted_inv S) as [S' F]. rewrite Forall_forall in F.
    assert (Hx : 0 <= x) by (apply Hnn; apply M; left; reflexivity).
    cbn [drop0]. destruct (x =? 0) eqn:E.
    + split; [exact S'|]. intros j. split.
      * intros Hj. split; [specialize (F _ Hj); lia|]. apply M. right. exact Hj.
      * intros [H1 Hp]. apply M in Hp. destruct Hp as [He|Hr]; [lia|exact Hr].
    + split; [exact S|]. intros j. split.
      * intros Hj. split; [|apply M; exact Hj].
        destruct Hj as [He|Hr]; [lia|]. specialize (F _ Hr). lia.
      * intros [H1 Hp]. apply M. exact Hp.
Qed.

(* ---------------------------------------------------------------------- *)
(* pick / nth_match *)

Lemma x_nth_error_map {A B} (f : A -> B) : forall l n,
  nth_error (map f l) n = option_map f (nth_error l n).
Proof.
  induction l as [|a l IH]; intros n.
  - destruct n; reflexivity.
  - destruct n as [|n]; [reflexivity|]. cbn [map nth_error]. apply IH.
Qed.

Lemma pick_nth_match l count : pick l count = nth_match l count.
Proof. reflexivity. Qed.

Lemma nth_match_map {A B} (f : A -> B) l count :
  nth_match (map f l) count = option_map f (nth_match l count).
Proof.
  unfold nth_match. destruct (count <? 1) eqn:E; [reflexivity|]. apply x_nth_error_map.
Qed.

Lemma pick_map (f : Z -> Z) l count : pick (map f l) count = option_map f (pick l count).
Proof. rewrite !pick_nth_match. apply nth_match_map. Qed.

Lemma option_map_comp {A B C} (f : A -> B) (g : B -> C) o :
  option_map g (option_map f o) = option_map (fun x => g (f x)) o.
Proof. destruct o; reflexivity. Qed.

Lemma option_map_ext {A B} (f g : A -> B) o :
  (forall x, f x = g x) -> option_map f o = option_map g o.
Proof. intros H. destruct o as [x|]; [|reflexivity]. cbn [option_map]. now rewrite H. Qed.

(* the match picked after `bump`, seen on the list of starts *)
Lemma nth_match_bump (ms : list (Z * Z)) count :
  1 <= count ->
  option_map fst (nth_match ms (bump ms count)) = pick (drop0 (map fst ms)) count.
Proof.
  intros Hc. destruct ms as [|[st en] r].
  - cbn [bump map drop0]. unfold nth_match, pick.
    destruct (count <? 1) eqn:E; [reflexivity|].
    destruct (Z.to_nat (count - 1)); reflexivity.
  - cbn [bump]. change (map fst ((st, en) :: r)) with (st :: map fst r). cbn [drop0].
    destruct (st =? 0) eqn:E0.
    + unfold nth_match, pick.
      destruct (count + 1 <? 1) eqn:E1; [lia|]. destruct (count <? 1) eqn:E2; [lia|].
      replace (Z.to_nat (count + 1 - 1)) with (S (Z.to_nat (count - 1))) by lia.
      cbn [nth_error]. symmetry. apply x_nth_error_map.
    + change (st :: map fst r) with (map fst ((st, en) :: r)).
      rewrite pick_nth_match. symmetry. apply nth_match_map.
Qed.

Lemma opt_fst_match (o : option (Z * Z)) :
  match o with Some (st, _) => Some st | None => None end = option_map fst o.
Proof. destruct o as [[st en]|]; reflexivity. Qed.

Lemma opt_snd_match (g : Z -> Z) (o : option (Z * Z)) :
  match o with Some (_, en) => Some (g en) | None => None end = option_map g (option_map snd o).
Proof. destruct o as [[st en]|]; reflexivity. Qed.

Lemma opt_fst_match_g (g : Z -> Z) (o : option (Z * Z)) :
  match o with Some (st, _) => Some (g st) | None => None end = option_map g (option_map fst o).
Proof. destruct o as [[st en]|]; reflexivity. Qed.

(* ---------------------------------------------------------------------- *)
(* E5: the exact targets, first on a bare (text, cursor) *)

Lemma word_start_nonneg cls s j : word_start cls s j -> 0 <= j.
Proof. intros [Hnz _]. apply clsat_nz_bounds in Hnz. lia. Qed.

Lemma word_end_pos cls s j : word_end cls s j -> 1 <= j.
Proof. intros [Hnz _]. apply clsat_nz_bounds in Hnz. lia. Qed.

(* word starts after the cursor = c + (starts of the runs of text[c:] other than 0) *)
Lemma starts_after_enum cls t c :
  0 <= c ->
  enumerates (fun j => c < j /\ word_start cls t j)
    (map (fun j => c + j) (drop0 (map fst (runs cls (skipn (Z.to_nat c) t))))).
Proof.
  intros Hc.
  apply (enumerates_shift (fun j => 1 <= j /\ word_start cls (skipn (Z.to_nat c) t) j)).
  - apply enumerates_drop0; [apply C02x_run_starts|]. intros j Hw.
    exact (word_start_nonneg _ _ _ Hw).
  - intros j. split.
    + intros [H1 Hw]. split; [lia|]. apply C02x_word_start_skipn; [exact Hc|exact H1|exact Hw].
    + intros [H1 Hw]. assert (H1' : 1 <= j) by lia. split; [exact H1'|].
      apply C02x_word_start_skipn; [exact Hc|exact H1'|exact Hw].
Qed.

Lemma next_beg_exact_core cls t c count l :
  0 <= c -> 1 <= count ->
  enumerates (fun j => c < j /\ word_start cls t j) l ->
  option_map fst (nth_match (runs cls (skipn (Z.to_nat c) t))
                    (bump (runs cls (skipn (Z.to_nat c) t)) count)) =
  option_map (fun j => j - c) (pick l count).
Proof.
  intros Hc Hcount Hl.
  rewrite (enumerates_unique _ _ _ Hl (starts_after_enum cls t c Hc)).
  rewrite (nth_match_bump _ count Hcount). rewrite pick_map, option_map_comp.
  destruct (pick (drop0 (map fst (runs cls (skipn (Z.to_nat c) t)))) count) as [x|];
    cbn [option_map]; [f_equal; lia|reflexivity].
Qed.

Theorem C02x_next_word_beginning_exact d count WORD :
  valid d -> 1 <= count ->
  forall l,
    enumerates (fun j => dcur d < j /\ word_start (word_cls WORD) (dtext d) j) l ->
    find_next_word_beginning d count WORD = option_map (fun j => j - dcur d) (pick l count).
Proof.
  intros Hv Hc l Hl. unfold find_next_word_beginning.
  destruct (count <? 0) eqn:E; [lia|].
  unfold next_word_beginning_core. cbv zeta. rewrite (ta_skipn d Hv). rewrite opt_fst_match.
  destruct Hv as [Hv0 Hv1]. apply next_beg_exact_core; assumption.
Qed.

(* word ends after position b = b + (ends of the runs of text[b:]) *)
Lemma ends_after_enum cls t b :
  0 <= b ->
  enumerates (fun j => b < j /\ word_end cls t j)
    (map (fun j => b + j) (map snd (runs cls (skipn (Z.to_nat b) t)))).
Proof.
  intros Hb.
  apply (enumerates_shift (word_end cls (skipn (Z.to_nat b) t))); [apply C02x_run_ends|].
  intros j. split.
  - intros Hw. pose proof (word_end_pos _ _ _ Hw) as H1. split; [lia|].
    apply C02x_word_end_skipn; [exact Hb|exact H1|exact Hw].
  - intros [H1 Hw]. apply C02x_word_end_skipn; [exact Hb|lia|exact Hw].
Qed.

Lemma x_skipn_1_skipn {T} : forall n (t : list T), skipn 1 (skipn n t) = skipn (S n) t.
Proof.
  induction n as [|n IH]; intros t.
  - reflexivity.
  - destruct t as [|x t]; [reflexivity|].
    change (skipn 1 (skipn n t) = skipn (S n) t). apply IH.
Qed.

Lemma next_end_exact_core cls t b count l :
  0 <= b -> enumerates (fun j => b < j /\ word_end cls t j) l ->
  option_map snd (nth_match (runs cls (skipn (Z.to_nat b) t)) count) =
  option_map (fun j => j - b) (pick l count).
Proof.
  intros Hb Hl.
  rewrite (enumerates_unique _ _ _ Hl (ends_after_enum cls t b Hb)).
  rewrite pick_map, option_map_comp. rewrite pick_nth_match, nth_match_map.
  destruct (nth_match (runs cls (skipn (Z.to_nat b) t)) count) as [x|];
    cbn [option_map]; [f_equal; lia|reflexivity].
Qed.

Theorem C02x_next_word_ending_exact d (incl : bool) count WORD :
  valid d -> 1 <= count ->
  forall l,
    enumerates (fun j => (if incl then dcur d else dcur d + 1) < j /\
                         word_end (word_cls WORD) (dtext d) j) l ->
    find_next_word_ending d incl count WORD = option_map (fun j => j - dcur d) (pick l count).
Proof.
  intros Hv Hc l Hl. unfold find_next_word_ending.
  destruct (count <? 0) eqn:E; [lia|].
  unfold next_word_ending_core. cbv zeta. rewrite w_slice_from_1, (ta_skipn d Hv).
  destruct Hv as [Hv0 Hv1]. destruct incl.
  - rewrite (opt_snd_match (fun en => en)).
    rewrite (next_end_exact_core _ _ _ count l Hv0 Hl).
    destruct (pick l count); reflexivity.
  - rewrite (opt_snd_match (fun en => en + 1)). rewrite x_skipn_1_skipn.
    replace (S (Z.to_nat (dcur d))) with (Z.to_nat (dcur d + 1)) by lia.
    assert (Hb : 0 <= dcur d + 1) by lia.
    rewrite (next_end_exact_core _ _ _ count l Hb Hl).
    destruct (pick l count) as [x|]; cbn [option_map]; [f_equal; lia|reflexivity].
Qed.

(* word starts before the cursor, nearest first = c - (ends of the runs of rev text[:c]) *)
Lemma starts_before_enum cls t c :
  0 <= c <= len t ->
  enumerates (fun j => j < c /\ word_start cls t j)
    (rev (map (fun j => c - j) (map snd (runs cls (rev (firstn (Z.to_nat c) t)))))).
Proof.
  intros Hc.
  assert (Lp : len (firstn (Z.to_nat c) t) = c) by (rewrite len_firstn; lia).
  apply (enumerates_mirror (word_end cls (rev (firstn (Z.to_nat c) t)))); [apply C02x_run_ends|].
  intros j. split.
  - intros Hw. pose proof (word_end_pos _ _ _ Hw) as H1. split; [lia|].
    apply C02x_word_end_rev in Hw. rewrite Lp in Hw.
    apply (C02x_word_start_firstn cls t c (c - j)); [lia|exact Hw].
  - intros [H1 Hw]. apply C02x_word_end_rev. rewrite Lp.
    apply (C02x_word_start_firstn cls t c (c - j)); [lia|exact Hw].
Qed.

Lemma prev_beg_exact_core cls t c count l :
  0 <= c <= len t -> enumerates (fun j => j < c /\ word_start cls t j) l ->
  option_map (fun en => - en)
    (option_map snd (nth_match (runs cls (rev (firstn (Z.to_nat c) t))) count)) =
  option_map (fun j => j - c) (pick (rev l) count).
Proof.
  intros Hc Hl.
  rewrite (enumerates_unique _ _ _ Hl (starts_before_enum cls t c Hc)).
  rewrite rev_involutive. rewrite pick_map, option_map_comp.
  rewrite pick_nth_match, nth_match_map.
  destruct (nth_match (runs cls (rev (firstn (Z.to_nat c) t))) count) as [x|];
    cbn [option_map]; [f_equal; lia|reflexivity].
Qed.

Theorem C02x_previous_word_beginning_exact d count WORD :
  valid d -> 1 <= count ->
  forall l,
    enumerates (fun j => j < dcur d /\ word_start (word_cls WORD) (dtext d) j) l ->
    find_previous_word_beginning d count WORD =
    option_map (fun j => j - dcur d) (pick (rev l) count).
Proof.
  intros Hv Hc l Hl. unfold find_previous_word_beginning.
  destruct (count <? 0) eqn:E; [lia|].
  unfold previous_word_beginning_core. rewrite (tb_firstn d Hv).
  rewrite (opt_snd_match (fun en => - en)). apply prev_beg_exact_core; assumption.
Qed.

Theorem C02x_start_of_previous_word_exact d count WORD :
  valid d -> 1 <= count ->
  forall l,
    enumerates (fun j => j < dcur d /\ word_start (word_cls WORD) (dtext d) j) l ->
    find_start_of_previous_word d count WORD =
    option_map (fun j => j - dcur d) (pick (rev l) count).
Proof.
  intros Hv Hc l Hl. unfold find_start_of_previous_word. rewrite (tb_firstn d Hv).
  rewrite (opt_snd_match (fun en => - en)). apply prev_beg_exact_core; assumption.
Qed.

(* word ends at or before the cursor (cursor not at the end of the text),
   nearest first = c + 1 - (starts of the runs of rev text[:c+1] other than 0) *)
Lemma ends_before_enum cls t c :
  0 <= c < len t ->
  enumerates (fun j => j <= c /\ word_end cls t j)
    (rev (map (fun j => c + 1 - j)
            (drop0 (map fst (runs cls (rev (firstn (Z.to_nat (c + 1)) t))))))).
Proof.
  intros Hc.
  assert (Lp : len (firstn (Z.to_nat (c + 1)) t) = c + 1) by (rewrite len_firstn; lia).
  apply (enumerates_mirror
           (fun j => 1 <= j /\ word_start cls (rev (firstn (Z.to_nat (c + 1)) t)) j)).
  - apply enumerates_drop0; [apply C02x_run_starts|]. intros j Hw.
    exact (word_start_nonneg _ _ _ Hw).
  - intros j. split.
    + intros [H1 Hw]. split; [lia|].
      apply C02x_word_start_rev in Hw. rewrite Lp in Hw.
      apply (C02x_word_end_firstn cls t (c + 1) (c + 1 - j)); [lia|exact Hw].
    + intros [H1 Hw]. split; [lia|]. apply C02x_word_start_rev. rewrite Lp.
      apply (C02x_word_end_firstn cls t (c + 1) (c + 1 - j)); [lia|exact Hw].
Qed.

Lemma prev_end_exact_core cls t c count l :
  0 <= c < len t -> 1 <= count ->
  enumerates (fun j => j <= c /\ word_end cls t j) l ->
  option_map (fun st => - st + 1)
    (option_map fst
       (nth_match (runs cls (rev (firstn (Z.to_nat (c + 1)) t)))
          (bump (runs cls (rev (firstn (Z.to_nat (c + 1)) t))) count))) =
  option_map (fun j => j - c) (pick (rev l) count).
Proof.
  intros Hc Hcount Hl.
  rewrite (enumerates_unique _ _ _ Hl (ends_before_enum cls t c Hc)).
  rewrite rev_involutive. rewrite (nth_match_bump _ count Hcount).
  rewrite pick_map, option_map_comp.
  destruct (pick (drop0 (map fst (runs cls (rev (firstn (Z.to_nat (c + 1)) t))))) count) as [x|];
    cbn [option_map]; [f_equal; lia|reflexivity].
Qed.

(* only for a cursor before the end of the text: at the end the code is off
   by one (finding C02-F2, C02w_previous_word_ending_lands_refuted) *)
Theorem C02x_previous_word_ending_exact_partial d count WORD :
  valid d -> 1 <= count -> dcur d < len (dtext d) ->
  forall l,
    enumerates (fun j => j <= dcur d /\ word_end (word_cls WORD) (dtext d) j) l ->
    find_previous_word_ending d count WORD =
    option_map (fun j => j - dcur d) (pick (rev l) count).
Proof.
  intros Hv Hc Hlt l Hl. unfold find_previous_word_ending.
  destruct (count <? 0) eqn:E; [lia|].
  unfold previous_word_ending_core. cbv zeta.
  rewrite w_slice_to_1, (ta_skipn d Hv), (tb_firstn d Hv).
  destruct Hv as [Hv0 Hv1]. rewrite prev_end_text by lia.
  rewrite (opt_fst_match_g (fun st => - st + 1)). apply prev_end_exact_core; [lia|exact Hc|exact Hl].
Qed.

(* ---------------------------------------------------------------------- *)
(* None exactly when there are fewer than count of them *)

Lemma pick_none_iff l count : 1 <= count -> (pick l count = None <-> len l < count).
Proof.
  intros Hc. unfold pick. destruct (count <? 1) eqn:E; [lia|].
  rewrite nth_error_None. unfold len. lia.
Qed.

Lemma pick_some_in l count x : pick l count = Some x -> In x l.
Proof. rewrite pick_nth_match. apply nth_match_In. Qed.

Lemma option_map_none_iff {A B} (f : A -> B) o : option_map f o = None <-> o = None.
Proof. destruct o; cbn [option_map]; split; intros H; try discriminate; reflexivity. Qed.

Lemma C02x_next_word_beginning_none d count WORD l :
  valid d -> 1 <= count ->
  enumerates (fun j => dcur d < j /\ word_start (word_cls WORD) (dtext d) j) l ->
  (find_next_word_beginning d count WORD = None <-> len l < count).
Proof.
  intros Hv Hc Hl. rewrite (C02x_next_word_beginning_exact d count WORD Hv Hc l Hl).
  rewrite option_map_none_iff. apply pick_none_iff. exact Hc.
Qed.

Lemma C02x_next_word_ending_none d (incl : bool) count WORD l :
  valid d -> 1 <= count ->
  enumerates (fun j => (if incl then dcur d else dcur d + 1) < j /\
                       word_end (word_cls WORD) (dtext d) j) l ->
  (find_next_word_ending d incl count WORD = None <-> len l < count).
Proof.
  intros Hv Hc Hl. rewrite (C02x_next_word_ending_exact d incl count WORD Hv Hc l Hl).
  rewrite option_map_none_iff. apply pick_none_iff. exact Hc.
Qed.

Lemma C02x_previous_word_beginning_none d count WORD l :
  valid d -> 1 <= count ->
  enumerates (fun j => j < dcur d /\ word_start (word_cls WORD) (dtext d) j) l ->
  (find_previous_word_beginning d count WORD = None <-> len l < count).
Proof.
  intros Hv Hc Hl. rewrite (C02x_previous_word_beginning_exact d count WORD Hv Hc l Hl).
  rewrite option_map_none_iff. rewrite <- (len_rev l). apply pick_none_iff. exact Hc.
Qed.

Lemma C02x_start_of_previous_word_none d count WORD l :
  valid d -> 1 <= count ->
  enumerates (fun j => j < dcur d /\ word_start (word_cls WORD) (dtext d) j) l ->
  (find_start_of_previous_word d count WORD = None <-> len l < count).
Proof.
  intros Hv Hc Hl. rewrite (C02x_start_of_previous_word_exact d count WORD Hv Hc l Hl).
  rewrite option_map_none_iff. rewrite <- (len_rev l). apply pick_none_iff. exact Hc.
Qed.

Lemma C02x_previous_word_ending_none_partial d count WORD l :
  valid d -> 1 <= count -> dcur d < len (dtext d) ->
  enumerates (fun j => j <= dcur d /\ word_end (word_cls WORD) (dtext d) j) l ->
  (find_previous_word_ending d count WORD = None <-> len l < count).
Proof.
  intros Hv Hc Hlt Hl.
  rewrite (C02x_previous_word_ending_exact_partial d count WORD Hv Hc Hlt l Hl).
  rewrite option_map_none_iff. rewrite <- (len_rev l). apply pick_none_iff. exact Hc.
Qed.
