(* The loader's event loops, statement by statement: safety is unaffected, and
   with the loop over a COPY every consumer is woken; with the live list
   iterator (code before fixes/C13-set-events-over-copy.patch) one can be
   skipped for ever. *)
From Coq Require Import ZArith List Bool Lia.
From PTK Require Import Lib.Sx Lib.Py Model.C13_Threaded Model.C13_ThreadedEv Proofs.C13_ThreadedFacts.
Import ListNotations.
Open Scope Z_scope.

(* ---- safety does not look at the event flags ------------------------------ *)
Lemma cinv_unset st c : cinv st (set_ev c) -> cinv st c.
Proof. unfold cinv, set_ev. destruct (c_fin c) eqn:E; [now rewrite E|]. cbn. auto. Qed.

Lemma Inv_set_ev st i : Inv st -> Inv (set_cons st (upd_nth (t_cons st) i set_ev)).
Proof.
  intros [[Hfl Hp] Hc]. split.
  - split; [exact Hfl|]. unfold set_cons. cbn. destruct (t_ph st); try exact Hp.
    destruct Hp as (E & Hl). rewrite E. cbn. auto.
  - unfold set_cons. cbn [t_cons]. apply Forall_upd_nth.
    + intros c Hci. apply cinv_set_ev. revert Hci. apply cinv_ext; reflexivity.
    + eapply Forall_impl; [|exact Hc]. intros c. apply cinv_ext; reflexivity.
Qed.

Lemma Inv_loader_action st : Inv st -> Inv (loader_action st).
Proof.
  intros Hi. pose proof (step_inv_prim st LStep (fun s H => ltac:(discriminate H)) Hi eq_refl) as H1.
  unfold loader_action. destruct (t_ph st) as [| |[|x r]|] eqn:Eph; try exact Hi; try exact H1.
  - destruct H1 as [[Hfl Hp] Hc]. unfold tstep in *. rewrite Eph in *. split.
    + split; [exact Hfl|]. exact Hp.
    + cbn [t_cons] in *. rewrite Forall_map in Hc. eapply Forall_impl; [|exact Hc].
      intros c Hci. apply cinv_unset. revert Hci. apply cinv_ext; reflexivity.
  - destruct H1 as [[Hfl Hp] Hc]. unfold tstep in *. rewrite Eph in *. split.
    + split; [exact Hfl|]. exact Hp.
    + cbn [t_cons] in *. rewrite Forall_map in Hc. eapply Forall_impl; [|exact Hc].
      intros c Hci. apply cinv_unset. revert Hci. apply cinv_ext; reflexivity.
Qed.

Lemma esub_inv es : Inv (e_st es) -> Inv (e_st (esub es)).
Proof.
  intros Hi. unfold esub. destruct (e_loop es) as [[|i r]|].
  - exact Hi.
  - cbn [e_st]. now apply Inv_set_ev.
  - destruct (has_loop (t_ph (e_st es))); cbn [e_st]; now apply Inv_loader_action.
Qed.

Lemma drain_inv fuel : forall es, Inv (e_st es) -> Inv (e_st (drain fuel es)).
Proof.
  induction fuel as [|f IH]; intros es Hi; [exact Hi|].
  cbn [drain]. destruct (e_loop es); [apply IH; now apply esub_inv|exact Hi].
Qed.

Lemma estep_inv es l : Inv (e_st es) -> eok_label es l = true -> Inv (e_st (estep es l)).
Proof.
  intros Hi Hok. destruct l as [|l]; [now apply esub_inv|].
  destruct l; cbn [estep e_st]; try (apply step_inv; assumption).
  apply drain_inv. destruct (e_loop es); [exact Hi|now apply esub_inv].
Qed.

Lemma esched_inv sched : forall es, Inv (e_st es) -> eok_sched es sched = true -> Inv (e_st (erun es sched)).
Proof.
  induction sched as [|l r IH]; intros es Hi Hok; [exact Hi|].
  cbn [eok_sched] in Hok. apply andb_true_iff in Hok as [H1 H2].
  unfold erun. cbn [fold_left]. apply IH; [now apply estep_inv|exact H2].
Qed.

(* C13_threaded_exactly_once at the granularity of single event.set() calls *)
Theorem ev_exactly_once S0 sched c :
  eok_sched (einit S0) sched = true ->
  let st := e_st (erun (einit S0) sched) in
  In c (t_cons st) ->
  (c_fin c = true -> c_out c = rev (c_start c)) /\
  (c_fin c = false -> pre (c_out c) (rev (c_start c))) /\
  (t_loaded st = true -> t_ls st = rev (t_store st ++ t_fly st)).
Proof.
  intros Hok st Hin. destruct (esched_inv sched (einit S0) (init_inv S0) Hok) as [Hp Hc].
  fold st in Hp, Hc. rewrite Forall_forall in Hc. specialize (Hc c Hin). unfold cinv in Hc.
  split; [|split].
  - intros E. now rewrite E in Hc.
  - intros E. rewrite E in Hc. destruct (t_ph st) as [| |pend|].
    + contradiction.
    + destruct Hc as (-> & _). apply pre_nil.
    + destruct Hc as (V0 & V1 & _ & _ & _ & H & _). exact H.
    + destruct Hc as (V0 & V1 & _ & _ & _ & H & _). exact H.
  - intros El. destruct Hp as [_ Hp]. destruct (t_ph st) as [| |pend|].
    + destruct Hp as (_ & H). congruence.
    + destruct Hp as (_ & _ & H). congruence.
    + destruct Hp as (A & T & _ & _ & _ & H). congruence.
    + destruct Hp as (A & H1 & H2 & _). rewrite H2, H1, <- app_assoc.
      rewrite (rev_app_distr (t_base st)). reflexivity.
Qed.

(* ---- nobody is left asleep -------------------------------------------------- *)
Lemma active_from_spec cs : forall n i,
  In i (active_from n cs) <->
  (n <= i)%nat /\ exists c, nth_error cs (i - n) = Some c /\ c_fin c = false.
Proof.
  induction cs as [|c0 cs IH]; intros n i; cbn [active_from].
  - split; [contradiction|]. intros (_ & c & H & _). destruct (i - n)%nat; discriminate H.
  - destruct (c_fin c0) eqn:E.
    + rewrite IH. split.
      * intros (Hle & c & Hn & Hf). split; [lia|]. exists c. split; [|exact Hf].
        replace (i - n)%nat with (S (i - S n)) by lia. exact Hn.
      * intros (Hle & c & Hn & Hf). destruct (i - n)%nat as [|k] eqn:Ek.
        -- cbn in Hn. injection Hn as <-. congruence.
        -- split; [lia|]. exists c. split; [|exact Hf]. replace (i - S n)%nat with k by lia. exact Hn.
    + cbn [In]. rewrite IH. split.
      * intros [<-|(Hle & c & Hn & Hf)].
        -- split; [lia|]. exists c0. rewrite Nat.sub_diag. auto.
        -- split; [lia|]. exists c. split; [|exact Hf].
           replace (i - n)%nat with (S (i - S n)) by lia. exact Hn.
      * intros (Hle & c & Hn & Hf). destruct (i - n)%nat as [|k] eqn:Ek.
        -- left. lia.
        -- right. split; [lia|]. exists c. split; [|exact Hf]. replace (i - S n)%nat with k by lia. exact Hn.
Qed.

Lemma active_ids_spec st i :
  In i (active_ids st) <-> exists c, nth_error (t_cons st) i = Some c /\ c_fin c = false.
Proof.
  unfold active_ids. rewrite active_from_spec, Nat.sub_0_r. split.
  - intros (_ & H). exact H.
  - intros H. split; [lia|exact H].
Qed.

Lemma nth_error_upd_nth_other {T} (l : list T) i j f : i <> j -> nth_error (upd_nth l i f) j = nth_error l j.
Proof.
  revert i j. induction l as [|x l IH]; intros [|i] [|j] H; cbn; try reflexivity; try congruence.
  apply IH. congruence.
Qed.

Lemma nth_error_upd_nth_same {T} (l : list T) i f :
  nth_error (upd_nth l i f) i = option_map f (nth_error l i).
Proof. revert i. induction l as [|x l IH]; intros [|i]; cbn; auto. Qed.

Definition W (es : estate) : Prop :=
  let st := e_st es in
  (t_ph st = P4 -> t_loaded st = true) /\
  (t_loaded st = true -> t_ph st = P4) /\
  (t_loaded st = true -> forall i c, nth_error (t_cons st) i = Some c -> c_fin c = false ->
     c_ev c = true \/ exists L, e_loop es = Some L /\ In i L).

Lemma some_if_nonempty_in r i : In i r -> exists L, some_if_nonempty r = Some L /\ In i L.
Proof. destruct r; [contradiction|]. intros H. eexists. split; [reflexivity|exact H]. Qed.

Lemma esub_W es : W es -> W (esub es).
Proof.
  intros (H0 & H1 & H2). unfold esub. destruct (e_loop es) as [[|i r]|] eqn:El.
  - split; [exact H0|]. split; [exact H1|]. cbn [e_st e_loop]. intros Hl j c Hn Hf.
    destruct (H2 Hl j c Hn Hf) as [H|(L & E & Hin)]; [now left|]. injection E as <-. contradiction.
  - unfold W. cbn [e_st e_loop set_cons t_ph t_loaded t_cons]. split; [exact H0|]. split; [exact H1|].
    intros Hl j c Hn Hf. destruct (Nat.eq_dec i j) as [<-|Hne].
    + rewrite nth_error_upd_nth_same in Hn. destruct (nth_error (t_cons (e_st es)) i) as [c0|]; [|discriminate].
      cbn in Hn. injection Hn as <-. left. unfold set_ev in *. destruct (c_fin c0) eqn:E0; [congruence|reflexivity].
    + rewrite nth_error_upd_nth_other in Hn by exact Hne.
      destruct (H2 Hl j c Hn Hf) as [H|(L & E & Hin)]; [now left|]. injection E as <-.
      destruct Hin as [->|Hin]; [congruence|]. right. now apply some_if_nonempty_in.
  - unfold loader_action. destruct (t_ph (e_st es)) as [| |[|x r]|] eqn:Eph; cbn [has_loop].
    + unfold W. cbn [e_st e_loop]. rewrite Eph. split; [exact H0|]. split; [exact H1|].
      exact H2.
    + assert (Hlf : t_loaded (e_st es) = false).
      { destruct (t_loaded (e_st es)) eqn:E; [discriminate (H1 eq_refl)|reflexivity]. }
      unfold W, tstep. rewrite Eph. cbn [e_st e_loop t_ph t_loaded]. rewrite Hlf.
      split; [discriminate|]. split; discriminate.
    + unfold W. cbn [e_st e_loop t_ph t_loaded t_cons]. split; [reflexivity|]. split; [reflexivity|].
      intros _ j c Hn Hf. right. apply some_if_nonempty_in. apply active_ids_spec. cbn [t_cons]. eauto.
    + assert (Hlf : t_loaded (e_st es) = false).
      { destruct (t_loaded (e_st es)) eqn:E; [discriminate (H1 eq_refl)|reflexivity]. }
      unfold W. cbn [e_st e_loop t_ph t_loaded]. rewrite Hlf. split; [discriminate|]. split; discriminate.
    + unfold W. cbn [e_st e_loop]. rewrite Eph. split; [exact H0|]. split; [exact H1|].
      intros Hl j c Hn Hf. destruct (H2 Hl j c Hn Hf) as [H|(L & E & _)]; [now left|discriminate].
Qed.

Lemma drain_W fuel : forall es, W es -> W (drain fuel es).
Proof.
  induction fuel as [|f IH]; intros es Hw; [exact Hw|].
  cbn [drain]. destruct (e_loop es); [apply IH; now apply esub_W|exact Hw].
Qed.

Lemma estep_W es l : W es -> W (estep es l).
Proof.
  intros Hw. destruct l as [|l]; [now apply esub_W|].
  destruct l as [| |k|s|s|s]; cbn [estep].
  - apply drain_W. destruct (e_loop es); [exact Hw|now apply esub_W].
  - (* load() *)
    destruct Hw as (H0 & H1 & H2). unfold W, tstep. cbn [e_st e_loop].
    destruct (t_ph (e_st es)) eqn:Eph; cbn [t_ph t_loaded t_cons].
    + split; [discriminate|]. split; [intros Hl; discriminate (H1 Hl)|].
      intros Hl. discriminate (H1 Hl).
    + split; [exact H0|]. split; [exact H1|]. intros Hl. discriminate (H1 Hl).
    + split; [exact H0|]. split; [exact H1|]. intros Hl. discriminate (H1 Hl).
    + split; [exact H0|]. split; [exact H1|]. intros Hl j c Hn Hf.
      destruct (Nat.lt_ge_cases j (length (t_cons (e_st es)))) as [Hlt|Hge].
      * rewrite nth_error_app1 in Hn by exact Hlt. now apply (H2 Hl j c).
      * rewrite nth_error_app2 in Hn by exact Hge.
        destruct (j - length (t_cons (e_st es)))%nat as [|m]; [|destruct m; discriminate Hn].
        cbn in Hn. injection Hn as <-. left. reflexivity.
  - (* read *)
    destruct Hw as (H0 & H1 & H2). unfold W. cbn [e_st e_loop tstep t_ph t_loaded t_cons].
    split; [exact H0|]. split; [exact H1|]. intros Hl j c Hn Hf.
    destruct (Nat.eq_dec k j) as [<-|Hne].
    + rewrite nth_error_upd_nth_same in Hn. destruct (nth_error (t_cons (e_st es)) k) as [c0|] eqn:E0; [|discriminate].
      cbn in Hn. injection Hn as <-. unfold read in Hf. destruct (c_fin c0) eqn:Ef0; [congruence|].
      cbn in Hf. congruence.
    + rewrite nth_error_upd_nth_other in Hn by exact Hne. now apply (H2 Hl j c).
  - destruct Hw as (H0 & H1 & H2). unfold W. cbn [e_st e_loop tstep ains t_ph t_loaded t_cons]. auto.
  - destruct Hw as (H0 & H1 & H2). unfold W. cbn [e_st e_loop tstep asto t_ph t_loaded t_cons]. auto.
  - destruct Hw as (H0 & H1 & H2). unfold W. cbn [e_st e_loop tstep asto ains t_ph t_loaded t_cons]. auto.
Qed.

Lemma erun_W sched : forall es, W es -> W (erun es sched).
Proof.
  induction sched as [|l r IH]; intros es Hw; [exact Hw|].
  unfold erun. cbn [fold_left]. apply IH. now apply estep_W.
Qed.

(* With the loop over a copy: in EVERY reachable state (any schedule at all,
   at the granularity of single event.set() calls), once the loader thread is
   through - flag set, last loop finished - every load() that has not finished
   has its event set, so its next read is enabled; and that read finishes it. *)
Theorem wakeup S0 sched i c :
  let es := erun (einit S0) sched in
  t_ph (e_st es) = P4 -> e_loop es = None ->
  nth_error (t_cons (e_st es)) i = Some c -> c_fin c = false ->
  c_ev c = true /\ c_fin (read (e_st es) c) = true.
Proof.
  intros es Hp Hl Hn Hf.
  assert (Hw : W es).
  { apply erun_W. unfold W, einit. cbn. repeat split; try discriminate. }
  destruct Hw as (H0 & H1 & H2). pose proof (H0 Hp) as Hld. split.
  - destruct (H2 Hld i c Hn Hf) as [H|(L & E & _)]; [exact H|congruence].
  - unfold read. rewrite Hf. cbn. exact Hld.
Qed.

(* The code before the patch (live list iterator): consumer 0 still has an
   unread wake-up, the loader sets the flag and enters e0.set(); consumer 0
   reads, finishes and unregisters; the loader's index 1 is now past the end of
   the one-element list: consumer 1's event is never set although the loader is
   through - it waits for ever (finding C13-F4). *)
Definition skip_sched : list elabel :=
  [EBase CStart; EBase CStart; ESub; ESub; ESub; ESub; EBase (CRead 1); ESub; EBase (CRead 0); ESub].

Theorem wakeup_pinned_refuted :
  ~ (forall S0 sched i c,
       let ps := prun (pinit S0) sched in
       t_ph (p_st ps) = P4 -> p_cur ps = None ->
       nth_error (t_cons (p_st ps)) i = Some c -> c_fin c = false -> c_ev c = true).
Proof.
  intros H. specialize (H [sa] skip_sched 1%nat (mkc 1 0 [sa] false false [sa])). cbv zeta in H.
  assert (E : prun (pinit [sa]) skip_sched =
              mkp (mkt [sa] [sa] true 0 P4 [mkc 1 0 [sa] true false [sa]; mkc 1 0 [sa] false false [sa]] [] [sa])
                  None 0) by (vm_compute; reflexivity).
  rewrite E in H. cbn in H. specialize (H eq_refl eq_refl eq_refl eq_refl). discriminate H.
Qed.

(* the same schedule with the patch: after it the loop still holds consumer 1's
   event; one more statement and consumer 1 is woken *)
Lemma skip_sched_patched :
  e_loop (erun (einit [sa]) skip_sched) = Some [1%nat] /\
  let es := erun (einit [sa]) (skip_sched ++ [ESub]) in
  t_ph (e_st es) = P4 /\ e_loop es = None /\
  map c_ev (t_cons (e_st es)) = [false; true] /\ map c_fin (t_cons (e_st es)) = [true; false].
Proof. vm_compute. auto. Qed.
