(* C19 - the caches are transparent: after ANY history of queries the cached
   answer is the uncached one. *)
From Coq Require Import ZArith List Bool Lia String.
From PTK Require Import Lib.Py Lib.C19_Str Gen.C19_Palette Model.C19_Palette Model.C19_Style
     Model.C19_Sgr Model.C19_Cache Proofs.C19_PaletteFacts.
Import ListNotations.
Open Scope Z_scope.

Local Strategy 1000 [color256 color256_in scan get16 closest_ansi closest_ansi_in colors_256].

Section Memo.
  Context {K V : Type} (eqb : K -> K -> bool) (f : K -> V).
  Hypothesis eqb_sound : forall a b, eqb a b = true -> a = b.

  Definition Inv (c : list (K * V)) : Prop := forall k v, lookup eqb k c = Some v -> v = f k.

  Lemma Inv_nil : Inv [].
  Proof. intros k v H. discriminate. Qed.

  Lemma memo_get_spec : forall c k, Inv c ->
    fst (memo_get eqb f c k) = f k /\ Inv (snd (memo_get eqb f c k)).
  Proof.
    intros c k Hc. unfold memo_get. destruct (lookup eqb k c) as [v|] eqn:E.
    - cbn [fst snd]. split; [apply Hc; exact E | exact Hc].
    - cbn [fst snd]. split; [reflexivity|].
      intros k' v' H. cbn [lookup] in H. destruct (eqb k' k) eqn:E2.
      + inversion H; subst. apply eqb_sound in E2. subst. reflexivity.
      + apply Hc. exact H.
  Qed.
End Memo.

(* key equalities are sound *)
Lemma rgb_keyb_sound : forall a b, rgb_keyb a b = true -> a = b.
Proof.
  intros [[r g] b] [[r2 g2] b2] H. unfold rgb_keyb in H.
  apply andb_prop in H. destruct H as [H H3]. apply andb_prop in H. destruct H as [H1 H2].
  apply Z.eqb_eq in H1, H2, H3. subst. reflexivity.
Qed.

Lemma strs_eqb_sound : forall a b, strs_eqb a b = true -> a = b.
Proof.
  induction a as [|x a IH]; destruct b as [|y b]; cbn [strs_eqb]; intros H; try discriminate; [reflexivity|].
  apply andb_prop in H. destruct H as [H1 H2]. apply str_eqb_eq in H1. apply IH in H2. subst. reflexivity.
Qed.

Lemma key16b_sound : forall a b, key16b a b = true -> a = b.
Proof.
  intros [k1 e1] [k2 e2] H. unfold key16b in H. cbn [fst snd] in H.
  apply andb_prop in H. destruct H as [H1 H2].
  apply rgb_keyb_sound in H1. apply strs_eqb_sound in H2. subst. reflexivity.
Qed.

Lemma opt_eqb_sound {T} : forall (e : T -> T -> bool),
  (forall x y, e x y = true -> x = y) -> forall a b, opt_eqb e a b = true -> a = b.
Proof.
  intros e He [x|] [y|] H; cbn in H; try discriminate; [|reflexivity].
  apply He in H. subst. reflexivity.
Qed.

Lemma attrs_keyb_sound : forall a b, attrs_keyb a b = true -> a = b.
Proof.
  intros [c1 g1 b1 u1 s1 i1 k1 r1 h1] [c2 g2 b2 u2 s2 i2 k2 r2 h2] H.
  unfold attrs_keyb in H. cbn in H.
  repeat (apply andb_prop in H; let X := fresh "X" in destruct H as [H X]).
  assert (Hs : forall x y, str_eqb x y = true -> x = y) by (intros x y E; apply str_eqb_eq; exact E).
  assert (Hb : forall x y, Bool.eqb x y = true -> x = y) by (intros x y E; apply Bool.eqb_prop; exact E).
  apply (opt_eqb_sound _ Hs) in H, X6.
  apply (opt_eqb_sound _ Hb) in X, X0, X1, X2, X3, X4, X5.
  subst. reflexivity.
Qed.

(* ---------------------------------------------------------------------- *)
Definition f16 (bg : bool) (k : rgb * list str) : Z * str :=
  let '(r', g', b') := fst k in get16 bg r' g' b' (snd k).
Definition f256 (k : rgb) : Z := let '(r', g', b') := k in color256 r' g' b'.

Definition cc_inv (cc : color_caches) : Prop :=
  Inv key16b (f16 false) (cc_fg16 cc) /\ Inv key16b (f16 true) (cc_bg16 cc) /\
  Inv rgb_keyb f256 (cc_256 cc).

Lemma cc_inv_empty : cc_inv EMPTY_CC.
Proof. repeat split; apply Inv_nil. Qed.

Lemma get16_m_spec : forall bg r g b ex cc, cc_inv cc ->
  fst (get16_m bg r g b ex cc) = get16 bg r g b ex /\ cc_inv (snd (get16_m bg r g b ex cc)).
Proof.
  intros bg r g b ex cc (H1 & H2 & H3). unfold get16_m. destruct bg.
  - fold (f16 true).
    destruct (memo_get_spec key16b (f16 true) key16b_sound (cc_bg16 cc) ((r, g, b), ex) H2) as [A B].
    destruct (memo_get key16b (f16 true) (cc_bg16 cc) (r, g, b, ex)) as [v c'].
    cbn [fst snd] in *. split; [exact A | repeat split; assumption].
  - fold (f16 false).
    destruct (memo_get_spec key16b (f16 false) key16b_sound (cc_fg16 cc) ((r, g, b), ex) H1) as [A B].
    destruct (memo_get key16b (f16 false) (cc_fg16 cc) (r, g, b, ex)) as [v c'].
    cbn [fst snd] in *. split; [exact A | repeat split; assumption].
Qed.

Lemma color256_m_spec : forall r g b cc, cc_inv cc ->
  fst (color256_m r g b cc) = color256 r g b /\ cc_inv (snd (color256_m r g b cc)).
Proof.
  intros r g b cc (H1 & H2 & H3). unfold color256_m. fold f256.
  destruct (memo_get_spec rgb_keyb f256 rgb_keyb_sound (cc_256 cc) (r, g, b) H3) as [A B].
  destruct (memo_get rgb_keyb f256 (cc_256 cc) (r, g, b)) as [v c'].
  cbn [fst snd] in *. lazy beta iota delta [f256] in A. split; [exact A | repeat split; assumption].
Qed.

Lemma get_codes_m_spec : forall depth fgc bgc color bg fa cc, cc_inv cc ->
  fst (get_codes_m depth fgc bgc color bg fa cc) = get_codes depth fgc bgc color bg fa /\
  cc_inv (snd (get_codes_m depth fgc bgc color bg fa cc)).
Proof.
  intros depth fgc bgc color bg fa cc Hcc. unfold get_codes_m, get_codes. cbv zeta.
  destruct (is_nil color || (depth =? 1)); [split; [reflexivity | exact Hcc]|].
  match goal with |- context [assoc color ?t] => destruct (assoc color t) end; [split; [reflexivity | exact Hcc]|].
  destruct (color_name_to_rgb color) as [[[r g] b]|]; [|split; [reflexivity | exact Hcc]].
  destruct (depth =? 4).
  - destruct bg.
    + destruct (get16_m_spec true r g b (if negb (str_eqb fgc bgc) then [fa] else []) cc Hcc) as [A B].
      destruct (get16_m true r g b (if negb (str_eqb fgc bgc) then [fa] else []) cc) as [cn cc'].
      cbn [fst snd] in *. rewrite A. split; [reflexivity | exact B].
    + destruct (get16_m_spec false r g b [] cc Hcc) as [A B].
      destruct (get16_m false r g b [] cc) as [cn cc'].
      cbn [fst snd] in *. rewrite A. split; [reflexivity | exact B].
  - destruct (depth =? 24); [split; [reflexivity | exact Hcc]|].
    destruct (color256_m_spec r g b cc Hcc) as [A B].
    destruct (color256_m r g b cc) as [i cc']. cbn [fst snd] in *. rewrite A.
    split; [reflexivity | exact B].
Qed.

Lemma escape_code_m_spec : forall depth a cc, cc_inv cc ->
  fst (escape_code_m depth a cc) = escape_code depth a /\ cc_inv (snd (escape_code_m depth a cc)).
Proof.
  intros depth a cc Hcc. unfold escape_code_m, colors_to_code_m, escape_code, sgr_codes, colors_to_code.
  set (fg := or_empty (a_color a)). set (bg := or_empty (a_bgcolor a)).
  destruct (get_codes_m_spec depth fg bg fg false [] cc Hcc) as [A1 B1].
  destruct (get_codes_m depth fg bg fg false [] cc) as [[c1 fa] cc1]. cbn [fst snd] in A1, B1.
  rewrite <- A1.
  destruct (get_codes_m_spec depth fg bg bg true fa cc1 B1) as [A2 B2].
  destruct (get_codes_m depth fg bg bg true fa cc1) as [[c2 fa2] cc2]. cbn [fst snd] in A2, B2.
  rewrite <- A2. cbn [fst snd]. split; [reflexivity | exact B2].
Qed.

(* ---------------------------------------------------------------------- *)
Definition world_inv (w : world) : Prop :=
  cc_inv (w_cc w) /\
  forall d c, assocZ d (w_esc w) = Some c -> Inv attrs_keyb (escape_code d) c.

Lemma world_inv_empty : world_inv EMPTY_W.
Proof. split; [apply cc_inv_empty | intros d c H; discriminate]. Qed.

Lemma assocZ_set_esc : forall l d c d',
  assocZ d' (set_esc d c l) = if d' =? d then Some c else assocZ d' l.
Proof.
  induction l as [|[d0 c0] r IH]; intros d c d'; cbn [set_esc assocZ].
  - reflexivity.
  - destruct (d =? d0) eqn:E.
    + apply Z.eqb_eq in E. subst d0. cbn [assocZ]. destruct (d' =? d); reflexivity.
    + cbn [assocZ]. rewrite IH. destruct (d' =? d0) eqn:E2; [|reflexivity].
      apply Z.eqb_eq in E2. subst d0. destruct (d' =? d) eqn:E3; [|reflexivity].
      apply Z.eqb_eq in E3. subst. rewrite Z.eqb_refl in E. discriminate.
Qed.

Lemma step_query_spec : forall w q, world_inv w ->
  fst (step_query w q) = pure_answer q /\ world_inv (snd (step_query w q)).
Proof.
  intros w q [Hcc Hesc]. destruct q as [depth a | bg r g b ex | r g b]; cbn [step_query pure_answer].
  - assert (Hc : Inv attrs_keyb (escape_code depth) (esc_cache_of depth w)).
    { unfold esc_cache_of. destruct (assocZ depth (w_esc w)) eqn:E; [eapply Hesc; eauto | apply Inv_nil]. }
    destruct (lookup attrs_keyb a (esc_cache_of depth w)) as [s|] eqn:E.
    + cbn [fst snd]. split; [f_equal; apply Hc; exact E | split; assumption].
    + destruct (escape_code_m_spec depth a (w_cc w) Hcc) as [A B].
      destruct (escape_code_m depth a (w_cc w)) as [s cc']. cbn [fst snd] in *.
      split; [f_equal; exact A|]. split; [exact B|].
      intros d c Hd. cbn [w_esc] in Hd. rewrite assocZ_set_esc in Hd.
      destruct (d =? depth) eqn:Ed.
      * apply Z.eqb_eq in Ed. subst d. inversion Hd; subst c.
        intros k v Hl. cbn [lookup] in Hl. destruct (attrs_keyb k a) eqn:Ek.
        -- inversion Hl; subst. apply attrs_keyb_sound in Ek. subst. reflexivity.
        -- apply Hc. exact Hl.
      * eapply Hesc; eauto.
  - destruct (get16_m_spec bg r g b ex (w_cc w) Hcc) as [A B].
    destruct (get16_m bg r g b ex (w_cc w)) as [cn cc']. cbn [fst snd] in *.
    rewrite A. split; [reflexivity | split; assumption].
  - destruct (color256_m_spec r g b (w_cc w) Hcc) as [A B].
    destruct (color256_m r g b (w_cc w)) as [i cc']. cbn [fst snd] in *.
    rewrite A. split; [reflexivity | split; assumption].
Qed.

(* cached answer = uncached answer, after any query history, from any world
   that satisfies the invariant (in particular the empty one) *)
Theorem caches_transparent : forall qs w, world_inv w -> run_queries w qs = map pure_answer qs.
Proof.
  induction qs as [|q r IH]; intros w Hw; cbn [run_queries map]; [reflexivity|].
  destruct (step_query_spec w q Hw) as [A B].
  destruct (step_query w q) as [a w']. cbn [fst snd] in *. rewrite A, (IH w' B). reflexivity.
Qed.

Corollary caches_transparent_fresh : forall qs, run_queries EMPTY_W qs = map pure_answer qs.
Proof. intros. apply caches_transparent. apply world_inv_empty. Qed.
