(* C20 - in-order delivery and the erase/redraw bracket ACROSS application
   start / exit / stop / loop close / restart, for every label list that
   respects loop validity ([valid]: no application start between a
   `_get_app_loop() -> None` and its use, no stop between a `-> loop` and its
   use or with a callback still pending).  The invariant is "regime 0 or
   regime 1" of C20_Order.v; AppStart and AppStop move between the two. *)
From Coq Require Import ZArith List Bool Lia Arith.
From PTK Require Import Lib.Sx Model.C20_StdoutProxy Proofs.C20_Queue Proofs.C20_Chain Proofs.C20_Order
  Proofs.C20_Refuted Proofs.C20_Terminal.
Import ListNotations.
Open Scope nat_scope.

Definition brk_some_p (s : st) : Prop := exists b, brk_run (out s) = Some b.
Definition IL (s : st) : Prop := (I0 s /\ brk_some_p s) \/ I1 s.

(* in regime 0 a step leaves the trace alone or appends one write made with no application running *)
Lemma I0_out_step : forall s l, I0 s -> no_lifecycle l = true ->
  out (step s l) = out s \/ exists t i, out (step s l) = out s ++ [EWrite t false i; EFlush].
Proof.
  intros s l I NL. destruct (quiet l) eqn:Q.
  { left. apply (quiet_step s l Q). }
  destruct I as [Ia Il Iw Iac Ip It Io Ir Ic].
  destruct l; try discriminate; cbn [step].
  - left. reflexivity.
  - destruct (fth (px s)) as [| | |acc dn [k|]| |] eqn:F; try (left; reflexivity).
    + exfalso. eapply Ip. reflexivity.
    + right. cbn [out]. rewrite Ir. eauto.
  - left. unfold loop_step. destruct (lclosed (en s)); [reflexivity|]. rewrite Il. reflexivity.
  - left. rewrite Ia. reflexivity.
  - left. rewrite Ia. reflexivity.
  - left. rewrite Iac. reflexivity.
  - left. rewrite Iw. destruct i; reflexivity.
  - left. rewrite Ia. reflexivity.
  - left. rewrite Ic. reflexivity.
  - left. reflexivity.
Qed.

Lemma I0_brk_step : forall s l, I0 s -> no_lifecycle l = true -> brk_some_p s -> brk_some_p (step s l).
Proof.
  intros s l I NL [b B]. unfold brk_some_p. destruct (I0_out_step s l I NL) as [E|[t [i E]]]; rewrite E.
  - now exists b.
  - rewrite brk_run_app, B. cbn. rewrite orb_true_r. now exists b.
Qed.

Lemma IL_step : forall s l, IL s -> SI s -> safe s l = true -> IL (step s l).
Proof.
  intros s l [[I B]|I] Si Sf.
  - (* regime 0 *)
    destruct (no_lifecycle l) eqn:NL.
    { left. split; [now apply I0_step|now apply I0_brk_step]. }
    pose proof I as Ifull. destruct I as [Ia Il Iw Iac Ip It Io Ir Ic].
    destruct l; try discriminate NL; cbn [step].
    + (* AppStart: regime 0 -> regime 1 *)
      rewrite Ia, Ir. cbn [negb andb]. right.
      cbn [safe enabled] in Sf. rewrite Ia, Ir in Sf. cbn [negb andb orb] in Sf.
      destruct B as [b Bb].
      constructor; cbn [en ch out px app lclosed lid running loopq].
      * reflexivity.
      * reflexivity.
      * intros acc dn path F. rewrite F in Sf. destruct path as [k|]; [|discriminate Sf].
        exfalso. eapply Ip. exact F.
      * rewrite otext_app, Il. unfold wait_text. rewrite Iw. cbn. rewrite !app_nil_r. exact It.
      * rewrite forallb_app, Io. reflexivity.
      * unfold brk_inv. rewrite brk_run_app, Bb, Iac. cbn. exists false. split; reflexivity.
    + (* AppExit: no application *)
      rewrite Ia. cbn [andb]. left. split; [exact Ifull|exact B].
    + (* AppStop: no application *)
      rewrite Ia. cbn [andb]. left. split; [exact Ifull|exact B].
    + (* LoopClose *)
      left. destruct (negb (app (en s)) && negb (lclosed (en s))); [|split; [exact Ifull|exact B]].
      split; [|exact B]. constructor; cbn [en ch out px cp app running loopq]; try assumption; reflexivity.
    + discriminate Sf.
    + discriminate Sf.
    + (* AppDone: no application *)
      rewrite Ia. cbn [andb]. left. split; [exact Ifull|exact B].
  - (* regime 1 *)
    destruct (app_alive l) eqn:AL.
    { right. now apply I1_step. }
    pose proof I as Ifull. destruct I as [Ia Io Ip It Iok Ib]. destruct Si as [C Wt].
    destruct l; try discriminate AL; cbn [step].
    + (* AppStart: already one *)
      rewrite Ia. cbn [negb andb]. right. exact Ifull.
    + (* AppStop: regime 1 -> regime 0 *)
      destruct (app (en s) && negb (running (en s)) && fdone (ch s) (lastf (ch s)) && Nat.eqb (cprq (cp s)) 0) eqn:G;
        [|right; exact Ifull].
      cbn [safe enabled] in Sf. rewrite G in Sf. cbn [negb orb] in Sf.
      apply andb_true_iff in Sf. destruct Sf as [Sf1 Sf2].
      apply andb_true_iff in G. destruct G as [G Gq]. apply andb_true_iff in G. destruct G as [G Gd].
      apply andb_true_iff in G. destruct G as [_ Gr]. apply negb_true_iff in Gr.
      destruct (idle_when_last_done (ch s) C Gd) as [W [_ [A _]]].
      destruct (loopq (en s)) as [|t q] eqn:Lq; [|discriminate Sf2].
      left. split.
      * constructor; cbn [en ch out px cp app running loopq]; try assumption; try reflexivity.
        -- intros acc dn k F. rewrite F in Sf1. discriminate Sf1.
        -- rewrite <- It. unfold wait_text. rewrite W. cbn. now rewrite !app_nil_r.
        -- now apply Nat.eqb_eq.
      * cbn [out]. exact (brk_some _ _ _ Ib).
    + (* LoopClose: an application is set *)
      rewrite Ia. cbn [negb andb]. right. exact Ifull.
    + discriminate Sf.
    + discriminate Sf.
Qed.

Lemma IL_init : forall c r, IL (init2 c r).
Proof. intros c r. left. split; [apply I0_init|]. exists false. reflexivity. Qed.

Lemma IL_run : forall ls s, IL s -> SI s -> valid s ls = true -> IL (run s ls) /\ SI (run s ls).
Proof.
  induction ls as [|l ls IH]; intros s I Si V; [split; assumption|].
  cbn [valid] in V. apply andb_true_iff in V. destruct V as [V1 V2].
  change (run s (l :: ls)) with (run (step s l) ls).
  apply IH; [now apply IL_step|now apply SI_step|assumption].
Qed.

Lemma valid_raw : forall ls s, valid s ls = true -> forallb raw_label ls = true.
Proof.
  induction ls as [|l ls IH]; intros s V; [reflexivity|].
  cbn [valid] in V. apply andb_true_iff in V. destruct V as [V1 V2].
  cbn [forallb]. rewrite (IH _ V2), andb_true_r. destruct l; try reflexivity; discriminate V1.
Qed.

Lemma in_order_lifecycle : forall c r ls,
  valid (init2 c r) ls = true ->
  let s := run (init2 c r) ls in
  pipeline s = stream ls /\ forallb ev_ok (out s) = true /\ brk_run (out s) <> None /\ lost s = [].
Proof.
  intros c r ls V. cbn zeta.
  destruct (IL_run ls (init2 c r) (IL_init c r) (SI_init c r) V) as [I _].
  assert (L : lost (run (init2 c r) ls) = []).
  { (* nothing is ever on a loop when it is closed *)
    clear I. assert (G : forall ls s, IL s -> SI s -> valid s ls = true -> lost s = [] -> lost (run s ls) = []).
    { induction ls0 as [|l ls0 IH]; intros s I Si V0 L0; [exact L0|].
      cbn [valid] in V0. apply andb_true_iff in V0. destruct V0 as [V1 V2].
      change (run s (l :: ls0)) with (run (step s l) ls0).
      apply IH; [now apply IL_step|now apply SI_step|assumption|].
      destruct l; cbn [step lost]; try exact L0;
        try (solve [repeat (match goal with
          | |- context [if ?g then _ else _] => destruct g
          | |- context [match ?x with _ => _ end] => destruct x
          end); exact L0]).
      - (* LoopClose *)
        destruct (negb (app (en s)) && negb (lclosed (en s))) eqn:G; [|exact L0]. cbn [lost].
        apply andb_true_iff in G. destruct G as [Ga _]. apply negb_true_iff in Ga.
        destruct I as [[I0s _]|I1s]; [|pose proof (i1_app _ I1s); congruence].
        rewrite (i0_loopq _ I0s), L0. reflexivity.
      - (* LoopStep *)
        unfold loop_step. destruct (lclosed (en s)); [exact L0|]. destruct (loopq (en s)); [exact L0|].
        destruct (get_app_or_none _ _ && _); [destruct (submit _ _ _ _ _)|]; exact L0. }
    apply (G ls (init2 c r) (IL_init c r) (SI_init c r) V). reflexivity. }
  destruct I as [[I [b B]]|I].
  - split; [|split; [apply I|split; [rewrite B; discriminate|exact L]]].
    rewrite (pipeline_I0 _ I), (ptext_run _ _ (valid_raw _ _ V)). reflexivity.
  - split; [|split; [apply I|split; [|exact L]]].
    + rewrite (pipeline_I1 _ I), (ptext_run _ _ (valid_raw _ _ V)). reflexivity.
    + destruct (i1_brk _ I) as [b [B _]]. rewrite B. discriminate.
Qed.

(* ... hence, once drained: the TERMINAL (after the flushes) has every write call's text exactly
   once, whole, in lock order (so every thread's calls in its own order: C20_blocks) *)
Lemma exactly_once_lifecycle : forall c r ls,
  valid (init2 c r) ls = true -> drained (run (init2 c r) ls) ->
  term_text (run (init2 c r) ls) = concat (map snd (writes ls)) /\ pending_text (run (init2 c r) ls) = [].
Proof.
  intros c r ls V D. destruct (flushed_always c r ls) as [P T]. split; [|exact P].
  rewrite T, <- stream_writes, <- (drained_out _ D). exact (proj1 (in_order_lifecycle c r ls V)).
Qed.

(* the BYTES on the terminal, for StdoutProxy(raw=...) on a Vt100_Output: every write call's text,
   whole and in lock order, each passed through write_raw (unchanged) or write (ESC -> "?") *)
Lemma terminal_bytes_lifecycle : forall raw c r ls,
  valid (init2 c r) ls = true -> drained (run (init2 c r) ls) ->
  term_bytes raw (run (init2 c r) ls) = concat (map (fun w => vt_write raw (snd w)) (writes ls)) /\
  length (term_bytes raw (run (init2 c r) ls)) = length (stream ls) /\
  concat (ev_bytes raw (out (run (init2 c r) ls))) = term_bytes raw (run (init2 c r) ls).
Proof.
  intros raw c r ls V D. destruct (exactly_once_lifecycle c r ls V D) as [T P].
  pose proof (proj2 (flushed_always c r ls)) as Fl. cbn zeta in Fl.
  unfold term_bytes. split; [|split].
  - rewrite T, vt_write_concat, map_map. reflexivity.
  - rewrite vt_write_length, T, <- stream_writes. reflexivity.
  - rewrite ev_bytes_otext, <- out_text_otext, <- Fl. reflexivity.
Qed.

(* the two stable regimes are special cases: their lists are valid *)
Lemma nolife_valid : forall ls s, forallb no_lifecycle ls = true -> valid s ls = true.
Proof.
  induction ls as [|l ls IH]; intros s H; [reflexivity|].
  cbn [forallb] in H. apply andb_true_iff in H. destruct H as [H1 H2].
  cbn [valid]. rewrite (IH _ H2), andb_true_r. destruct l; try reflexivity; discriminate H1.
Qed.

(* ---- witnesses ---- *)
(* a whole life: print with no application; application 1 with a print above its prompt, exit,
   stop, its loop closed; print; application 2 on a new loop with a print above its prompt *)
Definition w_life : list label :=
  [LW 0%Z ta] ++ batch ++ [LAppStart; LW 1%Z tb] ++ batch ++ [LLoopStep; LAppExit; LAppStop; LLoopClose; LW 0%Z ta]
  ++ batch ++ [LAppStart; LW 1%Z tb] ++ batch ++ [LLoopStep; LAppExit; LAppStop].

Lemma life_ok : valid (init true) w_life = true /\ all_enabled (init true) w_life = true /\
  drained (run (init true) w_life) /\ term_text (run (init true) w_life) = (ta ++ tb ++ ta ++ tb)%list.
Proof. vm_compute. repeat split. Qed.

(* the known start/stop races are exactly violations of loop validity *)
Lemma races_invalid : valid (init true) w_start = false /\ valid (init true) w_stop = false.
Proof. vm_compute. split; reflexivity. Qed.
