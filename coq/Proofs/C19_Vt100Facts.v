(* C19 - histories on ONE Vt100_Output: set_attributes(attrs, depth) writes
   _escape_code_caches[depth][attrs]; whatever was emitted before (any attrs,
   any depth, any direct query of the colour caches), the text written is the
   uncached escape_code depth attrs: a function of attrs and depth only.  In
   particular the per-call state of _colors_to_code (the ANSI name taken by the
   foreground, excluded for the background at 4 bit) does not leak between calls. *)
From Coq Require Import ZArith List Bool.
From PTK Require Import Lib.Py Lib.C19_Str Model.C19_Style Model.C19_Sgr Model.C19_Cache Proofs.C19_CacheFacts.
Import ListNotations.
Open Scope Z_scope.

Definition call_query (c : Z * attrs) : query := QEsc (fst c) (snd c).

Theorem vt100_history : forall calls : list (Z * attrs),
  run_queries EMPTY_W (map call_query calls) = map (fun c => AStr (escape_code (fst c) (snd c))) calls.
Proof. intros calls. rewrite caches_transparent_fresh, map_map. reflexivity. Qed.

(* after ANY earlier queries (same or other depths, colour caches included) *)
Theorem vt100_after_any_history : forall pre depth a,
  run_queries EMPTY_W (pre ++ [QEsc depth a]) = map pure_answer pre ++ [AStr (escape_code depth a)].
Proof. intros pre depth a. rewrite caches_transparent_fresh, map_app. reflexivity. Qed.
