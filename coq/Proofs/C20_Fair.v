(* C20 - the two progress theorems composed: from EVERY reachable state whose
   loop is not closed there is a finite continuation of ENABLED labels - one
   flush(), then the flush thread's own steps, then the loop side's own steps, no
   life-cycle label, no further write - after which nothing is in flight: the
   flush thread has returned after close(), or everything written so far is
   drained; nothing is left unflushed in the Output; and if the whole run
   respects loop validity the terminal has every write call's text exactly once,
   whole, in lock order.  (Liveness as "a fair scheduler can always finish".) *)
From Coq Require Import ZArith List Bool Lia Arith.
From PTK Require Import Lib.Sx Model.C20_StdoutProxy Proofs.C20_Queue Proofs.C20_Chain Proofs.C20_Order
  Proofs.C20_Progress Proofs.C20_Terminal Proofs.C20_Lifecycle Proofs.C20_LoopProgress.
Import ListNotations.
Open Scope nat_scope.

Lemma run_app : forall a b s, run s (a ++ b) = run (run s a) b.
Proof. intros. unfold run. apply fold_left_app. Qed.

Lemma all_enabled_app : forall a b s,
  all_enabled s a = true -> all_enabled (run s a) b = true -> all_enabled s (a ++ b) = true.
Proof.
  induction a as [|l a IH]; intros b s A B; [exact B|].
  change (enabled s l && all_enabled (step s l) a = true) in A.
  change (all_enabled (run (step s l) a) b = true) in B.
  change (enabled s l && all_enabled (step s l) (a ++ b) = true).
  apply andb_true_iff in A. destruct A as [A1 A2].
  rewrite A1. cbn [andb]. apply IH; assumption.
Qed.

Lemma valid_app : forall a b s, valid s a = true -> valid (run s a) b = true -> valid s (a ++ b) = true.
Proof.
  induction a as [|l a IH]; intros b s A B; [exact B|].
  change (safe s l && valid (step s l) a = true) in A.
  change (valid (run (step s l) a) b = true) in B.
  change (safe s l && valid (step s l) (a ++ b) = true).
  apply andb_true_iff in A. destruct A as [A1 A2].
  rewrite A1. cbn [andb]. apply IH; assumption.
Qed.

(* the continuation's labels: no life-cycle label, no write *)
Definition cont_label (l : label) : bool :=
  match l with
  | LFlush _ | LFGet | LFNowait | LFChoose | LFDeliver | LExtEnd | LCprTimeout | LWake _ | LLoopStep => true
  | _ => false
  end.

Lemma cont_nolife : forall ks, forallb cont_label ks = true -> forallb no_lifecycle ks = true.
Proof.
  induction ks as [|l ks IH]; [reflexivity|]. cbn [forallb]. intros H. apply andb_true_iff in H.
  destruct H as [H1 H2]. rewrite (IH H2), andb_true_r. destruct l; try reflexivity; discriminate H1.
Qed.

Lemma cont_stream : forall ks, forallb cont_label ks = true -> stream ks = [].
Proof.
  induction ks as [|l ks IH]; [reflexivity|]. cbn [forallb]. intros H. apply andb_true_iff in H.
  destruct H as [H1 H2]. rewrite stream_cons, (IH H2). destruct l; try reflexivity; discriminate H1.
Qed.

Lemma cont_writes : forall ks, forallb cont_label ks = true -> writes ks = [].
Proof.
  induction ks as [|l ks IH]; [reflexivity|]. cbn [forallb]. intros H. apply andb_true_iff in H.
  destruct H as [H1 H2]. destruct l; try discriminate H1; cbn [writes]; exact (IH H2).
Qed.

Lemma writes_app : forall a b, writes (a ++ b) = writes a ++ writes b.
Proof.
  induction a as [|l a IH]; intros b; [reflexivity|]. destruct l; simpl; rewrite ?IH; reflexivity.
Qed.

(* ---- the flush thread's iteration as a label list ---- *)
Lemma fnext_label : forall s, fnext s = s \/ exists l, enabled s l = true /\ fnext s = step s l /\
  (l = LFGet \/ l = LFNowait \/ l = LFChoose \/ l = LFDeliver).
Proof.
  intros s. unfold fnext. destruct (fth (px s)) eqn:F.
  - destruct (queue (px s)) eqn:Q.
    + left. cbn [step]. unfold do_fget. rewrite F, Q. destruct s as [[b q f h] e c o lo k]. cbn in *. subst. reflexivity.
    + right. exists LFGet. cbn [enabled]. rewrite F, Q. repeat split; auto.
  - right. exists LFNowait. cbn [enabled]. rewrite F. repeat split; auto.
  - right. exists LFChoose. cbn [enabled]. rewrite F. repeat split; auto.
  - right. exists LFDeliver. cbn [enabled]. rewrite F. repeat split; auto.
  - left. reflexivity.
  - left. reflexivity.
Qed.

Lemma fiter_sched : forall n s, exists ks,
  all_enabled s ks = true /\ forallb cont_label ks = true /\ fiter n s = run s ks.
Proof.
  induction n as [|n IH]; intros s; [exists []; repeat split|].
  cbn [fiter]. destruct (fnext_label s) as [E|[l [En [E Hl]]]].
  - rewrite E. apply IH.
  - rewrite E. destruct (IH (step s l)) as [ks [A [B C]]]. exists (l :: ks).
    cbn [all_enabled forallb]. rewrite En, A, B, C.
    assert (Cl0 : cont_label l = true) by (destruct Hl as [ H | [ H | [ H | H ] ] ]; rewrite H; reflexivity).
    rewrite Cl0. repeat split.
Qed.

(* ---- the loop side's iteration as a label list ---- *)
Lemma lnext_label : forall s, LP s -> lquiet s \/ exists l, enabled s l = true /\ lnext s = step s l /\ cont_label l = true.
Proof.
  intros s [[C Wt] [Hw Lc]]. unfold lnext. destruct (active (ch s)) as [own|] eqn:A.
  - right. exists LExtEnd. cbn [enabled]. rewrite A. repeat split.
  - destruct (cprwait (cp s)) eqn:Cw.
    + right. exists LCprTimeout. cbn [enabled]. rewrite Cw. split; [|split; reflexivity].
      rewrite andb_true_iff. split; [|reflexivity]. apply negb_true_iff, Nat.eqb_neq. now apply Hw.
    + destruct (waitq (ch s)) as [|x w] eqn:Wq.
      * destruct (loopq (en s)) as [|t q] eqn:Lq.
        -- left. repeat split; assumption.
        -- right. exists LLoopStep. cbn [enabled]. rewrite Lc, Lq. repeat split.
      * right. exists (LWake 0). cbn [enabled]. rewrite Wq, Cw. cbn [nth_error].
        rewrite (head_pred_done (ch s) x w C A Wq). repeat split.
Qed.

Lemma liter_sched : forall n s, LP s -> exists ks,
  all_enabled s ks = true /\ forallb cont_label ks = true /\ liter n s = run s ks.
Proof.
  induction n as [|n IH]; intros s P; [exists []; repeat split|].
  cbn [liter]. destruct (lnext_label s P) as [Q|[l [En [E Hl]]]].
  - rewrite (lquiet_fix s Q). now apply IH.
  - destruct (lnext_progress s P) as [Q|[P' _]].
    + rewrite (lquiet_fix s Q). now apply IH.
    + rewrite E in *. destruct (IH (step s l) P') as [ks [A [B C]]]. exists (l :: ks).
      cbn [all_enabled forallb]. rewrite En, A, B, C, Hl. repeat split.
Qed.

(* the loop side never touches the proxy; the flush thread never closes a loop *)
Lemma lnext_px : forall s, px (lnext s) = px s.
Proof.
  intros s. unfold lnext. destruct (active (ch s)) eqn:A.
  - cbn [step]. rewrite A. reflexivity.
  - destruct (cprwait (cp s)).
    + cbn [step]. destruct (negb (Nat.eqb (cprq (cp s)) 0) && _); [|reflexivity].
      destruct (cprwait (cp s)); [|reflexivity]. destruct (resume _ _ _ _ _) as [[c' k'] o']. reflexivity.
    + destruct (waitq (ch s)) as [|x w] eqn:Wq.
      * destruct (loopq (en s)); [reflexivity|]. cbn [step]. apply loop_step_px.
      * cbn [step]. rewrite Wq. cbn [nth_error]. destruct (fdone (ch s) (s_prev x) && _); [|reflexivity].
        destruct (cpr_pending (cp s)); [reflexivity|]. destruct (start_sec _ _ _ _). reflexivity.
Qed.

Lemma liter_px : forall n s, px (liter n s) = px s.
Proof. induction n as [|n IH]; intros s; [reflexivity|]. cbn [liter]. now rewrite IH, lnext_px. Qed.

Lemma fnext_keeps : forall s, lclosed (en (fnext s)) = lclosed (en s) /\ buf (px (fnext s)) = buf (px s).
Proof.
  intros s. unfold fnext. destruct (fth (px s)) eqn:F; try (split; reflexivity); cbn [step en px].
  - unfold do_fget. rewrite F. destruct (queue (px s)) as [|[[|z t]|] q]; split; reflexivity.
  - unfold do_fnowait. rewrite F. destruct (queue (px s)) as [|[t|] q]; split; reflexivity.
  - unfold do_fchoose. rewrite F. split; reflexivity.
  - rewrite F. destruct path as [k|].
    + destruct (Nat.eqb k (lid (en s)) && negb (lclosed (en s))); split; reflexivity.
    + split; reflexivity.
Qed.

Lemma fiter_keeps : forall n s, lclosed (en (fiter n s)) = lclosed (en s) /\ buf (px (fiter n s)) = buf (px s).
Proof.
  induction n as [|n IH]; intros s; [split; reflexivity|]. cbn [fiter].
  destruct (IH (fnext s)) as [A B]. destruct (fnext_keeps s) as [C D]. split; congruence.
Qed.

(* ---- the composed statement ---- *)
Lemma fair_drain : forall c r ls,
  lclosed (en (run (init2 c r) ls)) = false ->
  exists ks,
    all_enabled (run (init2 c r) ls) ks = true /\ forallb cont_label ks = true /\
    let s' := run (init2 c r) (ls ++ ks) in
    lquiet s' /\ settled s' /\ buf (px s') = [] /\ pending_text s' = [] /\
    (fth (px s') = FIdle -> drained s').
Proof.
  intros c r ls Lc.
  set (s := run (init2 c r) ls) in *.
  set (s1 := step s (LFlush 0%Z)).
  assert (R1 : s1 = run (init2 c r) (ls ++ [LFlush 0%Z])) by (rewrite run_app; reflexivity).
  destruct (fiter_sched (length (queue (px s1)) + 5) s1) as [kf [Af [Bf Cf]]].
  set (s2 := fiter (length (queue (px s1)) + 5) s1) in *.
  assert (R2 : s2 = run (init2 c r) ((ls ++ [LFlush 0%Z]) ++ kf)) by (rewrite run_app, <- R1; exact Cf).
  assert (Set2 : settled s2).
  { apply flush_thread_progress. rewrite R1. apply never_dies. }
  destruct (fiter_keeps (length (queue (px s1)) + 5) s1) as [Lc2 Bf2]. fold s2 in Lc2, Bf2.
  assert (Lc2' : lclosed (en s2) = false) by (rewrite Lc2; exact Lc).
  assert (B2 : buf (px s2) = []) by (rewrite Bf2; reflexivity).
  assert (P2 : LP s2).
  { rewrite R2. split; [apply SI_run, SI_init|]. split; [|rewrite <- R2; exact Lc2'].
    apply W_run; [apply SI_init|]. unfold W. cbn. discriminate. }
  set (n2 := 3 * length (loopq (en s2)) + 3 * length (waitq (ch s2)) + 2).
  pose proof (loop_progress s2 P2) as Q3. fold n2 in Q3.
  destruct (liter_sched n2 s2 P2) as [kl [Al [Bl Cl]]].
  set (s3 := liter n2 s2) in *.
  exists ((LFlush 0%Z :: kf) ++ kl).
  assert (R3 : run (init2 c r) (ls ++ (LFlush 0%Z :: kf) ++ kl) = s3).
  { rewrite run_app. fold s. rewrite run_app. change (run s (LFlush 0%Z :: kf)) with (run s1 kf).
    rewrite <- Cf. fold s2. symmetry. exact Cl. }
  split; [|split].
  - apply all_enabled_app.
    + cbn [all_enabled enabled andb]. exact Af.
    + change (run s (LFlush 0%Z :: kf)) with (run s1 kf). rewrite <- Cf. exact Al.
  - rewrite forallb_app. cbn [forallb cont_label andb]. now rewrite Bf, Bl.
  - cbn zeta. rewrite R3.
    assert (Px : px s3 = px s2) by apply liter_px.
    split; [exact Q3|]. split; [unfold settled; rewrite Px; exact Set2|].
    split; [rewrite Px; exact B2|]. split.
    + rewrite <- R3. apply (proj1 (flushed_always c r _)).
    + intros Fi. destruct Q3 as [_ [_ [Wq Lq]]]. unfold drained, wait_text, proxy_text.
      rewrite Wq, Lq, Px. rewrite Px in Fi.
      destruct Set2 as [E|[_ Qe]]; [rewrite E in Fi; discriminate|].
      unfold queue_text. rewrite Fi, Qe, B2. repeat split.
Qed.

(* ... and on a run that respects loop validity, the terminal then has every write call's
   text exactly once, whole, in lock order (unless close() had been called before: FExit) *)
Lemma fair_terminal : forall c r ls,
  valid (init2 c r) ls = true -> lclosed (en (run (init2 c r) ls)) = false ->
  exists ks,
    all_enabled (run (init2 c r) ls) ks = true /\ forallb cont_label ks = true /\
    let s' := run (init2 c r) (ls ++ ks) in
    pending_text s' = [] /\
    (fth (px s') = FIdle -> term_text s' = concat (map snd (writes ls))).
Proof.
  intros c r ls V Lc. destruct (fair_drain c r ls Lc) as [ks [A [B H]]]. exists ks.
  split; [exact A|]. split; [exact B|]. cbn zeta in *. destruct H as [_ [_ [_ [P D]]]].
  split; [exact P|]. intros Fi.
  assert (V' : valid (init2 c r) (ls ++ ks) = true).
  { apply valid_app; [exact V|]. apply nolife_valid. now apply cont_nolife. }
  destruct (exactly_once_lifecycle c r (ls ++ ks) V' (D Fi)) as [T _].
  rewrite T, writes_app, (cont_writes ks B), app_nil_r. reflexivity.
Qed.
