(* C15 - the executor hand-off of the threaded wrappers, at the level the model
   needs: a worker thread computes a FUNCTION of the document the call was
   made with and hands the result to the event loop (run_in_executor /
   generator_to_async_generator), where it arrives as a VReturn / SReturn
   label.  When every such label carries the function's value ([det_ok]),
   what the buffer shows is the function's value for the text it shows - the
   oracle of the real-thread stress stream (harness/c15_threads.py), proved
   for verdict and suggestion. *)
From Coq Require Import ZArith List Bool Lia.
From PTK Require Import Lib.Sx Lib.Py Model.C15_Async Proofs.C15_Base Proofs.C15_User Proofs.C15_Sched
  Proofs.C15_Cfg.
Import ListNotations.
Open Scope Z_scope.

Section Det.
Variable fvalid : str -> bool.          (* Validator.validate as a function of the text *)
Variable fsugg : str -> option str.     (* AutoSuggest.get_suggestion *)

Definition vcode (b : bool) : Z := if b then 1 else 2.

Definition det_ok (s : state) (l : label) : Prop :=
  match l with
  | VReturn k ok => forall d, get_nth (vcos s) k = Some d -> ok = fvalid (dtext d)
  | SReturn k v => forall d, get_nth (scos s) k = Some d -> v = fsugg (dtext d)
  | Validate ok _ _ => ok = fvalid (text s)
  | ValidateAndHandle ok _ _ => ok = fvalid (text s)
  | _ => True
  end.

Fixpoint det_run (s : state) (ls : list label) : Prop :=
  match ls with
  | [] => True
  | l :: r => det_ok s l /\ det_run (apply s l) r
  end.

(* value invariant: what is published is the function's value for its source *)
Definition DV (s : state) : Prop :=
  (vst s <> 0 -> exists d, vsrc s = Some d /\ (hval (cfg s) = true -> vst s = vcode (fvalid (dtext d)))) /\
  (forall t d, sug s = Some (t, d) -> fsugg (dtext d) = Some t).

(* steps that only keep or clear verdict and suggestion *)
Definition VS (s s' : state) : Prop :=
  cfg s' = cfg s /\
  ((vst s' = vst s /\ vsrc s' = vsrc s) \/ vst s' = 0) /\
  (sug s' = sug s \/ sug s' = None).

Lemma VS_refl s : VS s s.
Proof. unfold VS; auto. Qed.

Lemma VS_trans a b c : VS a b -> VS b c -> VS a c.
Proof.
  intros (A1 & A2 & A3) (B1 & B2 & B3). split; [congruence|]. split.
  - destruct B2 as [(X & Y)|X]; [|right; auto]. destruct A2 as [(P & Q)|P]; [left; split; congruence|right; congruence].
  - destruct B3 as [X|X]; [|right; auto]. destruct A3 as [P|P]; [left; congruence|right; congruence].
Qed.

Lemma VS_DV s s' : VS s s' -> DV s -> DV s'.
Proof.
  intros (A & B & C) (D1 & D2). split.
  - intros Hv. destruct B as [(X & Y)|X]; [|congruence]. rewrite X, Y, A in *. auto.
  - intros t d Hs. destruct C as [X|X]; [rewrite X in Hs; eauto|congruence].
Qed.

Ltac vs := unfold VS; simp; auto.

Lemma VS_text_changed s : VS s (text_changed s).
Proof. unfold text_changed. destruct (hval (cfg s) && vwt (cfg s)); vs. Qed.

Lemma VS_cursor_changed s : VS s (cursor_changed s).
Proof. unfold cursor_changed. destruct (vst s =? 1); vs. Qed.

Lemma VS_set_document s d : VS s (set_document s d).
Proof.
  unfold set_document.
  set (s1 := set_doc_fields s (dtext d) (Z.max 0 (dcur d))).
  assert (A : VS s s1) by (unfold s1; vs).
  destruct (negb (str_eqb (dtext d) (text s))); destruct (negb (Z.max 0 (dcur d) =? cur s)).
  - eapply VS_trans; [exact A|]. eapply VS_trans; [apply VS_text_changed|apply VS_cursor_changed].
  - eapply VS_trans; [exact A|apply VS_text_changed].
  - eapply VS_trans; [exact A|apply VS_cursor_changed].
  - exact A.
Qed.

Lemma VS_add_pending s t : VS s (add_pending s t).
Proof. vs. Qed.

Lemma VS_insert_text s d s' e : insert_text s d = (s', e) -> VS s s'.
Proof.
  unfold insert_text. intros H.
  destruct (len (slice_to (text s) (cur s) ++ d ++ slice_from (text s) (cur s)) <? cur s + len d);
    [inversion H; apply VS_refl|].
  inversion H; subst.
  destruct (cwt (cfg s)); destruct (hsug (cfg s));
    repeat (eapply VS_trans; [|apply VS_add_pending]); apply VS_set_document.
Qed.

Lemma VS_delete_before s n s' e : delete_before s n = (s', e) -> VS s s'.
Proof.
  unfold delete_before. intros H.
  repeat match type of H with
         | context [if ?x then _ else _] => destruct x
         end; inversion H; subst; auto using VS_set_document, VS_refl.
Qed.

Lemma VS_move_cursor s p : VS s (move_cursor s p).
Proof.
  unfold move_cursor.
  match goal with |- context [if ?c then s else _] => destruct c end; [apply VS_refl|].
  eapply VS_trans; [|apply VS_cursor_changed]. vs.
Qed.

Lemma VS_set_text s v : VS s (set_text s v).
Proof.
  unfold set_text.
  assert (A : VS s (if len v <? cur s then move_cursor s (len v) else s))
    by (destruct (len v <? cur s); [apply VS_move_cursor|apply VS_refl]).
  destruct (str_eqb v _); [exact A|].
  eapply VS_trans; [exact A|]. eapply VS_trans; [|apply VS_text_changed]. vs.
Qed.

Lemma VS_set_cst s v : VS s (set_cst s v).
Proof. vs. Qed.

Lemma VS_gtc s i s' e : go_to_completion s i = (s', e) -> VS s s'.
Proof.
  unfold go_to_completion. intros H.
  destruct (cst s) as [cs|]; [|inversion H; apply VS_refl].
  destruct (go_to_index cs i) as [cs1|]; [|inversion H; apply VS_refl].
  destruct (ntp cs1) as [[t p]|]; [|inversion H; subst; apply VS_set_cst].
  destruct (len t <? p); inversion H; subst; [apply VS_set_cst|].
  eapply VS_trans; [apply VS_set_cst|]. eapply VS_trans; [apply VS_set_document|apply VS_set_cst].
Qed.

Lemma VS_complete_next s c w s' e : complete_next s c w = (s', e) -> VS s s'.
Proof.
  unfold complete_next. intros H.
  destruct (cst s) as [cs|]; [|inversion H; apply VS_refl].
  destruct (cs_idx cs) as [i|]; [|eapply VS_gtc; eauto].
  destruct (i =? len (cs_comps cs) - 1); [destruct w; [inversion H; apply VS_refl|]|]; eapply VS_gtc; eauto.
Qed.

Lemma VS_complete_prev s c w s' e : complete_prev s c w = (s', e) -> VS s s'.
Proof.
  unfold complete_prev. intros H.
  destruct (cst s) as [cs|]; [|inversion H; apply VS_refl].
  destruct (cs_idx cs) as [i|]; [|eapply VS_gtc; eauto].
  destruct (i =? 0); [destruct w; [inversion H; apply VS_refl|]|]; eapply VS_gtc; eauto.
Qed.

Lemma VS_cancel s s' e : cancel_completion s = (s', e) -> VS s s'.
Proof.
  unfold cancel_completion. intros H.
  destruct (cst s) as [cs|]; [|inversion H; apply VS_refl].
  destruct (go_to_completion s None) as [s1 e1] eqn:Eg. apply VS_gtc in Eg.
  destruct (e1 =? 0); inversion H; subst; [eapply VS_trans; [exact Eg|apply VS_set_cst]|exact Eg].
Qed.

Lemma VS_completer_body s f : VS s (completer_body s f).
Proof. unfold completer_body. destruct (cst s); vs. Qed.

Lemma VS_start_task s t : VS s (start_task s t).
Proof.
  destruct t; cbn [start_task]; unfold validator_body, suggester_body.
  - destruct (crun s); [apply VS_refl|]. eapply VS_trans; [|apply VS_completer_body]. vs.
  - destruct (vrun s); [apply VS_refl|]. simp. destruct (vst s =? 0); vs.
  - destruct (srun s); [apply VS_refl|]. simp. destruct (sug s); vs.
Qed.

Lemma VS_start_nth s i : VS s (start_nth s i).
Proof.
  unfold start_nth. destruct (get_nth (pending s) i); [|apply VS_refl].
  eapply VS_trans; [|apply VS_start_task]. vs.
Qed.

Lemma VS_tick_n n : forall s, VS s (tick_n n s).
Proof.
  induction n as [|n IH]; intros s; cbn [tick_n]; [apply VS_refl|].
  eapply VS_trans; [apply VS_start_nth|apply IH].
Qed.

Lemma VS_set_crun s b : VS s (set_crun s b).
Proof. vs. Qed.

Lemma VS_cpost s k co s' e : cpost s k co = (s', e) -> VS s s'.
Proof.
  unfold cpost. intros H.
  set (s0 := set_ccos s (remove_nth (ccos s) k)) in *.
  assert (H0 : VS s s0) by (unfold s0; vs).
  assert (Fin : forall s2, VS s s2 -> VS s (set_crun s2 false))
    by (intros s2 A; eapply VS_trans; [exact A|apply VS_set_crun]).
  destruct (attached s0 co).
  - destruct (cst s0) as [cs|]; [|inversion H; subst; apply Fin; exact H0].
    match type of H with context [set_cst s0 (Some ?c)] => set (cs1 := c) in * end.
    set (s1 := set_cst s0 (Some cs1)) in *.
    assert (H1 : VS s s1) by (eapply VS_trans; [exact H0|apply VS_set_cst]).
    assert (G : forall i s2 e2, go_to_completion s1 i = (s2, e2) -> VS s (set_crun s2 false)).
    { intros i s2 e2 Hg. apply Fin. eapply VS_trans; [exact H1|eapply VS_gtc; eauto]. }
    destruct (cs_idx cs1); [inversion H; subst; apply Fin; exact H1|].
    destruct (cs_comps cs1) as [|c0 r0].
    { inversion H; subst. apply Fin. eapply VS_trans; [exact H1|apply VS_set_cst]. }
    destruct (cc_flag co =? 1).
    { destruct (go_to_completion s1 (Some 0)) eqn:Hg. inversion H; subst. eapply G; eauto. }
    destruct (cc_flag co =? 2).
    { destruct (go_to_completion s1 (Some (len (c0 :: r0) - 1))) eqn:Hg. inversion H; subst. eapply G; eauto. }
    destruct (cc_flag co =? 3); [|inversion H; subst; apply Fin; exact H1].
    destruct (common_suffix (cc_doc co) (c0 :: r0)) as [|x cm].
    { destruct (len (c0 :: r0) =? 1); [|inversion H; subst; apply Fin; exact H1].
      destruct (go_to_completion s1 (Some 0)) eqn:Hg. inversion H; subst. eapply G; eauto. }
    destruct (insert_text s1 (x :: cm)) as [s2 e2] eqn:Hi. apply VS_insert_text in Hi.
    assert (H2 : VS s s2) by (eapply VS_trans; eauto).
    destruct (e2 =? 0); [|inversion H; subst; apply Fin; exact H2].
    destruct (1 <? len (c0 :: r0)); inversion H; subst; apply Fin.
    + eapply VS_trans; [exact H2|]. unfold set_completions. vs.
    + eapply VS_trans; [exact H2|apply VS_set_cst].
  - destruct (str_eqb (tbc (cur_doc s0)) (tbc (cc_doc co))); [inversion H; subst; apply Fin; exact H0|].
    destruct (startswith (tbc (cur_doc s0)) (tbc (cc_doc co))); inversion H; subst; [|apply Fin; exact H0].
    eapply VS_trans; [exact H0|apply VS_completer_body].
Qed.

Lemma VS_cyield s k t st s' e : cyield s k t st = (s', e) -> VS s s'.
Proof.
  intros E. unfold cyield in E. destruct (0 <? st); [inversion E; apply VS_refl|].
  destruct (get_nth (ccos s) k) as [co|]; [|inversion E; apply VS_refl].
  destruct (attached s co); [|eapply VS_cpost; eauto].
  destruct (cst s) as [cs|]; [|inversion E; apply VS_refl].
  match type of E with context [cpost ?s1 _ _] => set (sa := s1) in * end.
  assert (A : VS s sa) by (unfold sa; vs).
  destruct (maxn (cfg s) <=? _); [|inversion E; subst; exact A].
  eapply VS_trans; [exact A|eapply VS_cpost; eauto].
Qed.

Lemma VS_reset s t p s' e : reset_buf s t p = (s', e) -> VS s s'.
Proof.
  unfold reset_buf. destruct ((len t <? p) || (p <? 0)); intros H; inversion H; subst; [apply VS_refl|vs].
Qed.

(* the value-carrying steps *)
Lemma DV_validate_sync s ok epos sc : DV s -> ok = fvalid (text s) -> DV (validate_sync s ok epos sc).
Proof.
  intros D Hok. unfold validate_sync. destruct (vst s =? 0) eqn:E0; [|exact D].
  destruct D as (_ & D2).
  destruct (hval (cfg s)) eqn:Ev; cbn [andb].
  - destruct ok; cbn [negb].
    + split; simp; [|exact D2]. intros _. eexists. split; [reflexivity|]. simp. intros _. rewrite <- Hok. reflexivity.
    + assert (A : forall s1, VS s s1 -> DV (set_val s1 2 (Some (cur_doc s)))).
      { intros s1 (A1 & _ & A3). split; simp.
        - intros _. eexists. split; [reflexivity|]. simp. intros _. rewrite <- Hok. reflexivity.
        - intros t d Hs. destruct A3 as [X|X]; [rewrite X in Hs; eauto|congruence]. }
      destruct sc; [apply A; apply VS_move_cursor|apply A; apply VS_refl].
  - split; simp; [|exact D2]. intros _. eexists. split; [reflexivity|]. intros A. rewrite Ev in A. discriminate.
Qed.

Lemma DV_step s l : DV s -> det_ok s l -> DV (apply s l).
Proof.
  intros D Hd. unfold apply. destruct (step s l) as [s' e] eqn:E. cbn [fst].
  destruct l; cbn [step] in E; cbn [det_ok] in Hd.
  - eapply VS_DV; [eapply VS_insert_text; eauto|auto].
  - eapply VS_DV; [eapply VS_delete_before; eauto|auto].
  - inversion E; subst. eapply VS_DV; [apply VS_move_cursor|auto].
  - eapply VS_DV; [eapply VS_complete_next; eauto|auto].
  - eapply VS_DV; [eapply VS_complete_prev; eauto|auto].
  - eapply VS_DV; [eapply VS_cancel; eauto|auto].
  - inversion E; subst. eapply VS_DV; [apply VS_add_pending|auto].
  - inversion E; subst. eapply VS_DV; [apply VS_start_nth|auto].
  - inversion E; subst. eapply VS_DV; [unfold tick; apply VS_tick_n|auto].
  - eapply VS_DV; [eapply VS_cyield; eauto|auto].
  - unfold cend in E. destruct (get_nth (ccos s) k); [|inversion E; subst; auto].
    eapply VS_DV; [eapply VS_cpost; eauto|auto].
  - (* VReturn *)
    unfold vreturn in E. destruct (get_nth (vcos s) k) as [d|] eqn:Eg; [|inversion E; subst; auto].
    specialize (Hd d eq_refl). destruct D as (D1 & D2).
    destruct (doc_eqb (cur_doc s) d).
    + inversion E; subst s' e; clear E. split; simp; [|exact D2].
      intros _. exists d. split; [reflexivity|]. intros _. rewrite <- Hd.
      match goal with |- (if ?o then _ else _) = _ => destruct o; reflexivity end.
    + destruct (vst s =? 0); inversion E; subst; (split; simp; [exact D1|exact D2]).
  - (* SReturn *)
    unfold sreturn in E. destruct (get_nth (scos s) k) as [d|] eqn:Eg; [|inversion E; subst; auto].
    specialize (Hd d eq_refl). destruct D as (D1 & D2).
    change (cur_doc (set_scos s (remove_nth (scos s) k))) with (cur_doc s) in E.
    destruct (doc_eqb (cur_doc s) d).
    + inversion E; subst s' e; clear E. split; simp; [exact D1|].
      intros t0 d0 Hs. destruct v as [t1|]; [|discriminate]. inversion Hs; subst. symmetry. exact Hd.
    + inversion E; subst. unfold suggester_body; simp. destruct (sug s) eqn:Es; (split; simp; [exact D1|]).
      * rewrite Es. exact D2.
      * rewrite Es. exact D2.
  - eapply VS_DV; [|exact D]. unfold install_menu in E. eapply VS_trans; [|eapply VS_gtc; eauto]. unfold set_completions. vs.
  - inversion E; subst. eapply VS_DV; [|exact D]. unfold delete_fwd. destruct (cur s <? len (text s)); [apply VS_set_text|apply VS_refl].
  - inversion E; subst. eapply VS_DV; [apply VS_set_text|exact D].
  - eapply VS_DV; [|exact D]. unfold swap_chars in E. destruct (2 <=? cur s); [|inversion E; apply VS_refl].
    destruct (index (text s) (cur s - 2)); [|inversion E; apply VS_refl].
    destruct (index (text s) (cur s - 1)); inversion E; subst; [apply VS_set_text|apply VS_refl].
  - inversion E; subst. apply DV_validate_sync; auto.
  - eapply VS_DV; [eapply VS_reset; eauto|auto].
  - assert (Es : s' = validate_and_handle s ok epos keep) by (inversion E; reflexivity).
    rewrite Es. clear E Es. unfold validate_and_handle.
    pose proof (DV_validate_sync s ok epos true D Hd) as D1. set (s1 := validate_sync s ok epos true) in *.
    destruct ((vst s1 =? 1) && negb keep); [|exact D1].
    destruct (reset_buf s1 [] 0) as [s2 e2] eqn:Er. cbn [fst]. eapply VS_DV; [eapply VS_reset; eauto|exact D1].
  - eapply VS_DV; [|exact D]. unfold hist_step, install_menu in E. eapply VS_trans; [|eapply VS_gtc; eauto]. unfold set_completions. vs.
Qed.

Lemma DV_run ls : forall s, DV s -> det_run s ls -> DV (run s ls).
Proof.
  induction ls as [|l r IH]; intros s D H; cbn [run fold_left]; auto.
  destruct H as (H1 & H2). apply IH; [apply DV_step; auto|exact H2].
Qed.

Lemma DV_init c t p : DV (init c t p).
Proof. split; cbn; [intros A; congruence|intros ? ? A; discriminate A]. Qed.

(* what is shown is the wrapped function's value for the text that is shown *)
Theorem det_shown c t p ls :
  0 <= p <= len t -> hval c = true -> det_run (init c t p) ls ->
  let s := run (init c t p) ls in
  (vst s <> 0 -> vst s = vcode (fvalid (text s))) /\
  (forall sg d, sug s = Some (sg, d) -> fsugg (text s) = Some sg).
Proof.
  intros H Hv Hr s.
  pose proof (DV_run ls _ (DV_init c t p) Hr) as (D1 & D2). fold s in D1, D2.
  pose proof (run_Inv ls _ (init_Inv c t p H)) as ((_ & W2 & W3) & _). fold s in W2, W3.
  assert (Hc : cfg s = c) by (unfold s; rewrite cfg_run; reflexivity).
  split.
  - intros A. destruct (D1 A) as (d & E1 & E2). destruct (W2 A) as (d' & F1 & F2).
    rewrite E1 in F1. inversion F1; subst d'. rewrite <- F2. apply E2. rewrite Hc. exact Hv.
  - intros sg d A. rewrite <- (W3 sg d A). eauto.
Qed.

End Det.
