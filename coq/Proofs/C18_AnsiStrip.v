(* C18 - the plain text of ANSI(s), for ALL strings s: a grammar-level
   tokeniser of ANSI input (big-step, independent of the coroutine's modes),
   and the proof that the character-at-a-time machine of Model/C18_Ansi.v
   (at cfg_now) emits exactly the visible text of the tokens, and exactly their
   zero-width payloads. *)
From Coq Require Import ZArith List Bool Lia.
From PTK Require Import Lib.Sx Lib.Py Gen.C18_Tables Model.C18_Fragments Model.C18_Ansi
  Model.C18_AnsiGrammar Proofs.C18_FragmentsFacts Proofs.C18_AnsiFacts.
Import ListNotations.
Open Scope Z_scope.

(* ---------------------------------------------------------------------- *)
(* scanners *)

Lemma span_app p s : fst (span p s) ++ snd (span p s) = s.
Proof.
  induction s as [|c r IH]; [reflexivity|]. cbn [span]. destruct (p c); cbn [fst snd app]; [now rewrite IH | reflexivity].
Qed.

Lemma span_all p s : forallb p (fst (span p s)) = true.
Proof.
  induction s as [|c r IH]; [reflexivity|]. cbn [span]. destruct (p c) eqn:E; cbn [fst forallb]; [now rewrite E, IH | reflexivity].
Qed.

Lemma span_stop p s x r : snd (span p s) = x :: r -> p x = false.
Proof.
  induction s as [|c t IH]; cbn [span]; [discriminate|].
  destruct (p c) eqn:E; cbn [snd]; [exact IH|]. intros H. injection H as -> _. exact E.
Qed.

Lemma span_snd_len p s : (length (snd (span p s)) <= length s)%nat.
Proof.
  induction s as [|c r IH]; [cbn; lia|]. cbn [span]. destruct (p c); cbn [snd length] in *; lia.
Qed.

Lemma break_at_some c s a b : break_at c s = Some (a, b) -> s = a ++ c :: b /\ mem_Z c a = false.
Proof.
  revert a. induction s as [|x r IH]; intros a; cbn [break_at]; [discriminate|].
  destruct (x =? c) eqn:E.
  - intros H. injection H as <- <-. apply Z.eqb_eq in E. subst. split; reflexivity.
  - destruct (break_at c r) as [[a' b']|]; [|discriminate]. intros H. injection H as <- <-.
    destruct (IH a' eq_refl) as [-> Hm]. split; [reflexivity|]. cbn [mem_Z]. now rewrite E, Hm.
Qed.

Lemma break_at_none c s : break_at c s = None -> mem_Z c s = false.
Proof.
  induction s as [|x r IH]; cbn [break_at]; [reflexivity|].
  destruct (x =? c) eqn:E; [discriminate|]. destruct (break_at c r) as [[a b]|]; [discriminate|].
  intros _. cbn [mem_Z]. now rewrite E, IH.
Qed.

Lemma break_at_len c s a b : break_at c s = Some (a, b) -> (length b < length s)%nat.
Proof.
  intros H. destruct (break_at_some c s a b H) as [-> _]. rewrite app_length. cbn [length]. lia.
Qed.

(* the tokens partition the input *)
Lemma tokenize_raw : forall f s, (length s <= f)%nat -> concat (map raw (tokenize f s)) = s.
Proof.
  induction f as [|f IH]; intros s Hl.
  - destruct s; [reflexivity | cbn in Hl; lia].
  - destruct s as [|c r]; [reflexivity|]. cbn [length] in Hl. cbn [tokenize].
    destruct (c =? SOH) eqn:E1.
    { apply Z.eqb_eq in E1. subst c. destruct (break_at STX r) as [[b r']|] eqn:Eb.
      - pose proof (break_at_len _ _ _ _ Eb). destruct (break_at_some _ _ _ _ Eb) as [-> _].
        cbn [map concat raw]. rewrite IH by lia. cbn [app]. now rewrite <- app_assoc.
      - cbn. now rewrite app_nil_r. }
    destruct (c =? ESC) eqn:E2.
    { apply Z.eqb_eq in E2. subst c. destruct r as [|x r1]; [cbn; reflexivity|].
      destruct (x =? 91) eqn:E3.
      - apply Z.eqb_eq in E3. subst x. destruct (snd (span pch r1)) as [|fin r2] eqn:Es.
        + cbn. now rewrite app_nil_r.
        + pose proof (span_snd_len pch r1) as Hs. rewrite Es in Hs. cbn [length] in *.
          cbn [map concat raw csi_intro]. rewrite IH by lia.
          rewrite <- (span_app pch r1) at 2. rewrite Es. cbn [app]. now rewrite <- !app_assoc.
      - cbn [map concat raw]. rewrite IH by (cbn [length] in Hl; lia). reflexivity. }
    destruct (c =? CSI8) eqn:E4.
    { apply Z.eqb_eq in E4. subst c. destruct (snd (span pch r)) as [|fin r2] eqn:Es.
      - cbn. now rewrite app_nil_r.
      - pose proof (span_snd_len pch r) as Hs. rewrite Es in Hs. cbn [length] in *.
        cbn [map concat raw csi_intro]. rewrite IH by lia.
        rewrite <- (span_app pch r) at 2. rewrite Es. cbn [app]. now rewrite <- !app_assoc. }
    cbn [map concat raw]. rewrite IH by lia. reflexivity.
Qed.

Theorem tokens_partition s : concat (map raw (tokens s)) = s.
Proof. apply tokenize_raw. lia. Qed.

(* ---------------------------------------------------------------------- *)
(* Styles built by the parser never contain '[' (so never "[ZeroWidthEscape]"):
   the invariant that lets fragment_list_to_text see every emitted character. *)

Definition clean (s : str) : Prop := mem_Z 91 s = false.
Definition clean_opt (o : option str) : Prop := match o with Some s => clean s | None => True end.
Definition sgr_good (g : sgr) : Prop := clean_opt (s_color g) /\ clean_opt (s_bgcolor g).
Definition good (st : pst) : Prop := clean (p_style st) /\ sgr_good (p_sgr st).

Lemma mem_Z_app c a b : mem_Z c (a ++ b) = mem_Z c a || mem_Z c b.
Proof. induction a as [|x r IH]; [reflexivity|]. cbn [app mem_Z]. now rewrite IH, orb_assoc. Qed.

Lemma clean_app a b : clean a -> clean b -> clean (a ++ b).
Proof. unfold clean. intros Ha Hb. now rewrite mem_Z_app, Ha, Hb. Qed.

Lemma find_sub_from_clean s : clean s -> forall i, find_sub_from ZWE s i = -1.
Proof.
  unfold clean. induction s as [|x r IH]; intros Hc i.
  - reflexivity.
  - cbn [mem_Z] in Hc. apply orb_false_iff in Hc. destruct Hc as [Hx Hr].
    cbn [find_sub_from]. unfold ZWE at 1. cbn [startswith]. rewrite Hx. cbn [andb]. now apply IH.
Qed.

Lemma clean_not_zwe s : clean s -> is_zwe s = false.
Proof. intros H. unfold is_zwe, find_sub. now rewrite find_sub_from_clean. Qed.

Definition table_clean (t : list (Z * str)) : bool := forallb (fun kv => negb (mem_Z 91 (snd kv))) t.

Lemma fg_clean : table_clean c18_fg_colors = true. Proof. vm_compute. reflexivity. Qed.
Lemma bg_clean : table_clean c18_bg_colors = true. Proof. vm_compute. reflexivity. Qed.
Lemma c256_clean : table_clean c18_256_colors = true. Proof. vm_compute. reflexivity. Qed.

Lemma assoc_clean t k v : table_clean t = true -> assoc k t = Some v -> clean v.
Proof.
  induction t as [|[a w] r IH]; cbn [assoc table_clean forallb]; [discriminate|].
  intros H. apply andb_true_iff in H. destruct H as [H1 H2].
  destruct (a =? k); [|now apply IH]. intros E. injection E as <-. cbn [snd] in H1. now apply negb_true_iff in H1.
Qed.

Lemma assoc_clean_opt t k : table_clean t = true -> clean_opt (assoc k t).
Proof. intros H. destruct (assoc k t) eqn:E; [cbn; eapply assoc_clean; eauto | exact I]. Qed.

Lemma hexd_ne d : (hexd d =? 91) = false.
Proof. unfold hexd. destruct (d <? 10) eqn:E; apply Z.eqb_neq; lia. Qed.

Lemma hex02_clean v : clean (hex02 v).
Proof.
  unfold clean, hex02. destruct (v <? 256); [|destruct (v <? 4096)]; cbn [mem_Z]; now rewrite !hexd_ne.
Qed.

Lemma set_color_good g c : sgr_good g -> clean_opt c -> sgr_good (set_color g c).
Proof. intros [H1 H2] Hc. split; assumption. Qed.
Lemma set_bgcolor_good g c : sgr_good g -> clean_opt c -> sgr_good (set_bgcolor g c).
Proof. intros [H1 H2] Hc. split; assumption. Qed.

Lemma sgr0_good : sgr_good sgr0.
Proof. split; exact I. Qed.

Lemma sgr_simple_good a g : sgr_good g -> sgr_good (sgr_simple a g).
Proof.
  intros Hg. unfold sgr_simple.
  destruct (assoc a c18_fg_colors) eqn:E1.
  { apply set_color_good; [assumption|]. cbn. eapply assoc_clean; [apply fg_clean | exact E1]. }
  destruct (assoc a c18_bg_colors) eqn:E2.
  { apply set_bgcolor_good; [assumption|]. cbn. eapply assoc_clean; [apply bg_clean | exact E2]. }
  destruct g as [co bg bo un st it bl re hi]. destruct Hg as [H1 H2]. cbn [s_color s_bgcolor] in H1, H2.
  repeat match goal with |- context [if ?b then _ else _] => destruct b end;
    first [ split; assumption | apply sgr0_good ].
Qed.

Lemma sgr_loop_good : forall n attrs g, (length attrs <= n)%nat -> sgr_good g -> sgr_good (sgr_loop attrs g).
Proof.
  induction n as [|n IH]; intros attrs g Hl Hg.
  - destruct attrs; [assumption | cbn in Hl; lia].
  - destruct attrs as [|a rest]; [assumption|]. cbn [length] in Hl.
    cbn [sgr_loop].
    destruct (not_earlier a && ((a =? 38) || (a =? 48)) && (1 <? len rest)).
    + destruct rest as [|n0 rest2]; [assumption|]. cbn [length] in Hl.
      destruct ((n0 =? 5) && (1 <=? len rest2)).
      * destruct rest2 as [|m rest3]; [assumption|]. cbn [length] in Hl. apply IH; [lia|].
        destruct (a =? 38); [apply set_color_good | apply set_bgcolor_good]; try assumption;
          apply assoc_clean_opt, c256_clean.
      * destruct ((n0 =? 2) && (3 <=? len rest2)).
        -- destruct rest2 as [|r [|gg [|b rest3]]]; try assumption. cbn [length] in Hl. apply IH; [lia|].
           assert (Hc : clean (35 :: hex02 r ++ hex02 gg ++ hex02 b)).
           { unfold clean. cbn [mem_Z]. change (35 =? 91) with false. cbn [orb].
             apply clean_app; [apply hex02_clean | apply clean_app; apply hex02_clean]. }
           destruct (a =? 38); [apply set_color_good | apply set_bgcolor_good]; assumption.
        -- apply IH; [lia | assumption].
    + apply IH; [lia | now apply sgr_simple_good].
Qed.

Lemma select_good attrs g : sgr_good g -> sgr_good (select_graphic_rendition attrs g).
Proof.
  intros Hg. unfold select_graphic_rendition.
  destruct attrs; [apply (sgr_loop_good 1); [cbn; lia | assumption]|].
  now apply (sgr_loop_good (length (z :: attrs))).
Qed.

Lemma join_clean parts : Forall clean parts -> clean (join [SP] parts).
Proof.
  induction parts as [|p r IH]; intros H; [reflexivity|].
  inversion H as [|? ? Hp Hr]; subst. destruct r as [|q r']; [exact Hp|].
  change (join [SP] (p :: q :: r')) with (p ++ [SP] ++ join [SP] (q :: r')).
  apply clean_app; [assumption|]. apply clean_app; [reflexivity | now apply IH].
Qed.

Lemma truthy_clean o : clean_opt o -> clean_opt (truthy o).
Proof. destruct o as [[|x s]|]; cbn; auto. Qed.

Lemma create_style_clean g : sgr_good g -> clean (create_style_string g).
Proof.
  intros [H1 H2]. unfold create_style_string. apply join_clean. unfold style_parts.
  apply Forall_app. split.
  { pose proof (truthy_clean _ H1) as T. destruct (truthy (s_color g)); [constructor; [exact T | constructor] | constructor]. }
  apply Forall_app. split.
  { pose proof (truthy_clean _ H2) as T. destruct (truthy (s_bgcolor g)); [|constructor].
    constructor; [|constructor]. apply clean_app; [reflexivity | exact T]. }
  repeat (apply Forall_app; split);
    match goal with |- Forall clean (if ?b then _ else _) => destruct b; [constructor; [reflexivity | constructor] | constructor] end.
Qed.

(* ---------------------------------------------------------------------- *)
(* what the emitted fragments show *)

Lemma vtext_app a b :
  fragment_list_to_text (a ++ b) = fragment_list_to_text a ++ fragment_list_to_text b.
Proof. induction a as [|f r IH]; [reflexivity|]. cbn [app fragment_list_to_text]. now rewrite IH, app_assoc. Qed.

Lemma zw_app a b : zw_payloads (a ++ b) = zw_payloads a ++ zw_payloads b.
Proof. induction a as [|f r IH]; [reflexivity|]. cbn [app zw_payloads]. now rewrite IH, app_assoc. Qed.

Lemma vtext_as_text sty w : clean sty -> fragment_list_to_text (as_text sty w) = w.
Proof. intros H. apply to_text_as_text. now apply clean_not_zwe. Qed.

Lemma zw_as_text sty w : clean sty -> zw_payloads (as_text sty w) = [].
Proof.
  intros H. induction w as [|c r IH]; [reflexivity|].
  cbn [as_text map zw_payloads fstyle]. rewrite (clean_not_zwe _ H). exact IH.
Qed.

Lemma vtext_spaces sty n : clean sty -> fragment_list_to_text (spaces sty n) = repeat SP n.
Proof.
  intros H. induction n as [|n IH]; [reflexivity|].
  cbn [spaces fragment_list_to_text fstyle ftext repeat]. rewrite (clean_not_zwe _ H), IH. reflexivity.
Qed.

Lemma zw_spaces sty n : clean sty -> zw_payloads (spaces sty n) = [].
Proof.
  intros H. induction n as [|n IH]; [reflexivity|].
  cbn [spaces zw_payloads fstyle]. rewrite (clean_not_zwe _ H). exact IH.
Qed.

(* ---------------------------------------------------------------------- *)
(* one token at a time (the code that is in /repo now) *)

Lemma with_mode_ground st : p_mode st = Ground -> with_mode st Ground = st.
Proof. intros H. rewrite <- H. apply with_mode_same. Qed.

Lemma R_esc2 st x : p_mode st = Ground -> (x =? 91) = false -> run cfg_now st [ESC; x] = Ok (st, []).
Proof.
  intros Hm Hx. cbn [run]. unfold step at 1. rewrite Hm. change (ESC =? SOH) with false. cbn iota.
  unfold dispatch. change (ESC =? ESC) with true. cbn iota.
  unfold step. cbn [p_mode with_mode]. rewrite Hx.
  change (with_mode (with_mode st Esc) Ground) with (with_mode st Ground).
  now rewrite (with_mode_ground st Hm).
Qed.

Lemma R_intro st e : p_mode st = Ground ->
  run cfg_now st (csi_intro e) = Ok (with_mode st (Csi [] []), []).
Proof.
  intros Hm. destruct e; cbn [csi_intro run].
  - unfold step. rewrite Hm. change (CSI8 =? SOH) with false. cbn iota. unfold dispatch.
    change (CSI8 =? ESC) with false. change (CSI8 =? CSI8) with true. reflexivity.
  - unfold step at 1. rewrite Hm. change (ESC =? SOH) with false. cbn iota. unfold dispatch.
    change (ESC =? ESC) with true. cbn iota. unfold step. cbn [p_mode with_mode].
    change (91 =? 91) with true. reflexivity.
Qed.

(* value of params[0] if the sequence ended now *)
Definition headval (cur : str) (params : list Z) : Z :=
  match params with p :: _ => p | [] => conv cur end.

Lemma step_csi_digit st cur params c :
  is_ascii_digit c = true ->
  step cfg_now (with_mode st (Csi cur params)) c = Ok (with_mode st (Csi (cur ++ [c]) params), []).
Proof. intros H. unfold step. cbn [p_mode with_mode]. unfold csi_isdigit. cbn [cfg_ascii_digits cfg_now]. now rewrite H. Qed.

Lemma step_csi_semi st cur params :
  step cfg_now (with_mode st (Csi cur params)) 59 = Ok (with_mode st (Csi [] (params ++ [conv cur])), []).
Proof. reflexivity. Qed.

Lemma R_params st : forall ps cur params,
  forallb pch ps = true ->
  exists cur' params',
    run cfg_now (with_mode st (Csi cur params)) ps = Ok (with_mode st (Csi cur' params'), []) /\
    headval cur' params' =
    match params with p :: _ => p | [] => conv (cur ++ fst (span is_ascii_digit ps)) end.
Proof.
  induction ps as [|c r IH]; intros cur params Hp.
  - exists cur, params. split; [reflexivity|]. destruct params; [cbn; now rewrite app_nil_r | reflexivity].
  - cbn [forallb] in Hp. apply andb_true_iff in Hp. destruct Hp as [Hc Hr].
    destruct (is_ascii_digit c) eqn:Ed.
    + destruct (IH (cur ++ [c]) params Hr) as (cur' & params' & Hrun & Hh).
      exists cur', params'. split.
      * cbn [run]. rewrite (step_csi_digit st cur params c Ed).
        change (with_mode (with_mode st (Csi cur params)) (Csi (cur ++ [c]) params))
          with (with_mode st (Csi (cur ++ [c]) params)).
        rewrite Hrun. reflexivity.
      * rewrite Hh. destruct params; [|reflexivity]. cbn [span]. rewrite Ed. cbn [fst].
        now rewrite <- app_assoc.
    + unfold pch in Hc. rewrite Ed in Hc. cbn [orb] in Hc. apply Z.eqb_eq in Hc. subst c.
      destruct (IH [] (params ++ [conv cur]) Hr) as (cur' & params' & Hrun & Hh).
      exists cur', params'. split.
      * cbn [run]. rewrite step_csi_semi.
        change (with_mode (with_mode st (Csi cur params)) (Csi [] (params ++ [conv cur])))
          with (with_mode st (Csi [] (params ++ [conv cur]))).
        rewrite Hrun. reflexivity.
      * rewrite Hh. destruct params; cbn [app]; [|reflexivity]. cbn [span]. rewrite Ed. cbn [fst].
        now rewrite app_nil_r.
Qed.

Lemma R_final st cur params fin :
  pch fin = false -> good st ->
  exists st' o,
    step cfg_now (with_mode st (Csi cur params)) fin = Ok (st', o) /\
    p_mode st' = Ground /\ good st' /\
    fragment_list_to_text o = (if fin =? 67 then repeat SP (Z.to_nat (headval cur params)) else []) /\
    zw_payloads o = [].
Proof.
  intros Hp [Hs Hg]. unfold pch in Hp. apply orb_false_iff in Hp. destruct Hp as [Hd H59].
  unfold step. cbn [p_mode with_mode]. unfold csi_isdigit, csi_int. cbn [cfg_ascii_digits cfg_now].
  rewrite Hd, H59. fold (conv cur).
  assert (Hh : match params ++ [conv cur] with p :: _ => p | [] => 0 end = headval cur params)
    by (destruct params; reflexivity).
  destruct (fin =? 109) eqn:E1.
  - eexists. eexists. split; [reflexivity|]. split; [reflexivity|].
    assert (fin =? 67 = false) as -> by (apply Z.eqb_eq in E1; subst; reflexivity).
    split; [|split; reflexivity].
    pose proof (select_good (params ++ [conv cur]) (p_sgr st) Hg) as Hg'.
    split; [now apply create_style_clean | exact Hg'].
  - destruct (fin =? 67) eqn:E2.
    + eexists. eexists. split; [reflexivity|]. split; [reflexivity|].
      split; [split; assumption|]. cbn [p_style with_mode]. rewrite Hh.
      split; [now apply vtext_spaces | now apply zw_spaces].
    + eexists. eexists. split; [reflexivity|]. split; [reflexivity|].
      split; [split; assumption|]. split; reflexivity.
Qed.

(* a complete control sequence *)
Lemma R_csi st e ps fin :
  p_mode st = Ground -> good st -> forallb pch ps = true -> pch fin = false ->
  exists st' o,
    run cfg_now st (csi_intro e ++ ps ++ [fin]) = Ok (st', o) /\
    p_mode st' = Ground /\ good st' /\
    fragment_list_to_text o = vis (TCsi e ps fin) /\ zw_payloads o = [].
Proof.
  intros Hm Hg Hps Hfin.
  destruct (R_params st ps [] [] Hps) as (cur' & params' & Hrun & Hh).
  destruct (R_final st cur' params' fin Hfin Hg) as (st' & o & Hstep & Hm' & Hg' & Hv & Hz).
  exists st', o. split.
  - rewrite run_app, (R_intro st e Hm), run_app, Hrun. cbn [run]. rewrite Hstep. cbn [app]. now rewrite app_nil_r.
  - split; [assumption|]. split; [assumption|]. split; [|assumption].
    rewrite Hv, Hh. reflexivity.
Qed.

(* unterminated sequences show nothing *)
Lemma run_zw_open st : forall body acc,
  mem_Z STX body = false ->
  run cfg_now (with_mode st (Zw acc)) body = Ok (with_mode st (Zw (acc ++ body)), []).
Proof.
  induction body as [|c r IH]; intros acc Hb.
  - cbn. now rewrite app_nil_r.
  - apply mem_Z_false_cons in Hb. destruct Hb as [Hc Hr].
    cbn [run]. unfold step at 1. cbn [p_mode with_mode]. rewrite Hc.
    change (with_mode (with_mode st (Zw acc)) (Zw (acc ++ [c]))) with (with_mode st (Zw (acc ++ [c]))).
    rewrite (IH (acc ++ [c]) Hr). now rewrite <- app_assoc.
Qed.

Lemma R_tail_zw st r : p_mode st = Ground -> mem_Z STX r = false ->
  exists st', run cfg_now st (SOH :: r) = Ok (st', []).
Proof.
  intros Hm Hr. cbn [run]. unfold step at 1. rewrite Hm. change (SOH =? SOH) with true. cbn iota.
  rewrite (run_zw_open st r [] Hr). eexists. reflexivity.
Qed.

Lemma R_tail_esc st : p_mode st = Ground -> exists st', run cfg_now st [ESC] = Ok (st', []).
Proof.
  intros Hm. cbn [run]. unfold step. rewrite Hm. change (ESC =? SOH) with false. cbn iota.
  unfold dispatch. change (ESC =? ESC) with true. cbn iota. eexists. reflexivity.
Qed.

Lemma R_tail_csi st e ps : p_mode st = Ground -> forallb pch ps = true ->
  exists st', run cfg_now st (csi_intro e ++ ps) = Ok (st', []).
Proof.
  intros Hm Hps. destruct (R_params st ps [] [] Hps) as (cur' & params' & Hrun & _).
  rewrite run_app, (R_intro st e Hm), Hrun. eexists. reflexivity.
Qed.

(* ---------------------------------------------------------------------- *)
(* all tokens *)

Lemma run_tokens : forall f s st,
  (length s <= f)%nat -> p_mode st = Ground -> good st ->
  exists st' o, run cfg_now st s = Ok (st', o) /\
                fragment_list_to_text o = concat (map vis (tokenize f s)) /\
                zw_payloads o = concat (map zwp (tokenize f s)).
Proof.
  induction f as [|f IH]; intros s st Hl Hm Hg.
  - destruct s; [|cbn in Hl; lia]. exists st, []. repeat split; reflexivity.
  - destruct s as [|c r]; [exists st, []; repeat split; reflexivity|]. cbn [length] in Hl. cbn [tokenize].
    destruct (c =? SOH) eqn:E1.
    { apply Z.eqb_eq in E1. subst c. destruct (break_at STX r) as [[b r']|] eqn:Eb.
      - pose proof (break_at_len _ _ _ _ Eb). destruct (break_at_some _ _ _ _ Eb) as [-> Hb].
        destruct (IH r' st ltac:(lia) Hm Hg) as (st' & o & Hrun & Hv & Hz).
        exists st', (mkfrag ZWE b [] :: o). split.
        + replace (SOH :: b ++ STX :: r') with ((SOH :: b ++ [STX]) ++ r')
            by (cbn [app]; now rewrite <- app_assoc).
          rewrite run_app, (ansi_zero_width_region_now st b Hm Hb), Hrun. reflexivity.
        + cbn [map concat vis zwp fragment_list_to_text zw_payloads fstyle ftext app].
          change (is_zwe ZWE) with true. cbn iota. rewrite Hv, Hz. split; reflexivity.
      - destruct (R_tail_zw st r Hm (break_at_none _ _ Eb)) as [st' Hrun].
        exists st', []. split; [exact Hrun | split; reflexivity]. }
    destruct (c =? ESC) eqn:E2.
    { apply Z.eqb_eq in E2. subst c. destruct r as [|x r1].
      - destruct (R_tail_esc st Hm) as [st' Hrun]. exists st', []. split; [exact Hrun | split; reflexivity].
      - destruct (x =? 91) eqn:E3.
        + apply Z.eqb_eq in E3. subst x.
          pose proof (span_app pch r1) as Hsp. pose proof (span_all pch r1) as Hall.
          destruct (snd (span pch r1)) as [|fin r2] eqn:Es.
          * rewrite app_nil_r in Hsp. rewrite Hsp in Hall.
            destruct (R_tail_csi st false r1 Hm Hall) as [st' Hrun].
            exists st', []. split; [exact Hrun | split; reflexivity].
          * pose proof (span_stop pch r1 fin r2 Es) as Hfin.
            pose proof (span_snd_len pch r1) as Hlen. rewrite Es in Hlen. cbn [length] in *.
            destruct (R_csi st false (fst (span pch r1)) fin Hm Hg Hall Hfin)
              as (st1 & o1 & Hrun1 & Hm1 & Hg1 & Hv1 & Hz1).
            destruct (IH r2 st1 ltac:(lia) Hm1 Hg1) as (st' & o & Hrun & Hv & Hz).
            exists st', (o1 ++ o). split.
            -- replace (ESC :: 91 :: r1) with ((csi_intro false ++ fst (span pch r1) ++ [fin]) ++ r2).
               ++ rewrite run_app, Hrun1, Hrun. reflexivity.
               ++ rewrite <- Hsp at 2. cbn [csi_intro app]. now rewrite <- !app_assoc.
            -- cbn [map concat zwp app]. rewrite vtext_app, zw_app, Hv1, Hz1, Hv, Hz. split; reflexivity.
        + destruct (IH r1 st ltac:(cbn [length] in Hl; lia) Hm Hg) as (st' & o & Hrun & Hv & Hz).
          exists st', o. split.
          * change (ESC :: x :: r1) with ([ESC; x] ++ r1). rewrite run_app, (R_esc2 st x Hm E3), Hrun. reflexivity.
          * cbn [map concat vis zwp app]. split; assumption. }
    destruct (c =? CSI8) eqn:E4.
    { apply Z.eqb_eq in E4. subst c.
      pose proof (span_app pch r) as Hsp. pose proof (span_all pch r) as Hall.
      destruct (snd (span pch r)) as [|fin r2] eqn:Es.
      - rewrite app_nil_r in Hsp. rewrite Hsp in Hall.
        destruct (R_tail_csi st true r Hm Hall) as [st' Hrun].
        exists st', []. split; [exact Hrun | split; reflexivity].
      - pose proof (span_stop pch r fin r2 Es) as Hfin.
        pose proof (span_snd_len pch r) as Hlen. rewrite Es in Hlen. cbn [length] in *.
        destruct (R_csi st true (fst (span pch r)) fin Hm Hg Hall Hfin)
          as (st1 & o1 & Hrun1 & Hm1 & Hg1 & Hv1 & Hz1).
        destruct (IH r2 st1 ltac:(lia) Hm1 Hg1) as (st' & o & Hrun & Hv & Hz).
        exists st', (o1 ++ o). split.
        + replace (CSI8 :: r) with ((csi_intro true ++ fst (span pch r) ++ [fin]) ++ r2).
          * rewrite run_app, Hrun1, Hrun. reflexivity.
          * rewrite <- Hsp at 2. cbn [csi_intro app]. now rewrite <- !app_assoc.
        + cbn [map concat zwp app]. rewrite vtext_app, zw_app, Hv1, Hz1, Hv, Hz. split; reflexivity. }
    assert (Hi : is_intro c = false) by (unfold is_intro; now rewrite E2, E4, E1).
    destruct (IH r st ltac:(lia) Hm Hg) as (st' & o & Hrun & Hv & Hz).
    exists st', (mkfrag (p_style st) [c] [] :: o). split.
    + cbn [run]. rewrite (step_ground_inert cfg_now st c Hm Hi), Hrun. reflexivity.
    + destruct Hg as [Hs _].
      cbn [map concat vis zwp fragment_list_to_text zw_payloads fstyle ftext app].
      rewrite (clean_not_zwe _ Hs), Hv, Hz. split; reflexivity.
Qed.

Lemma good_pst0 : good pst0.
Proof. split; [reflexivity | apply sgr0_good]. Qed.

(* The plain text of ANSI(s) is s with its recognised sequences removed, and
   its zero-width fragments are the payloads of its \001..\002 regions - for
   every string s. *)
Theorem ansi_plain_text s :
  exists o, ansi_parse cfg_now s = Ok o /\
            fragment_list_to_text o = ansi_strip s /\
            zw_payloads o = ansi_zero_width s.
Proof.
  destruct (run_tokens (length s) s pst0 (le_n _) eq_refl good_pst0) as (st' & o & Hrun & Hv & Hz).
  exists o. unfold ansi_parse. rewrite Hrun. split; [reflexivity | split; assumption].
Qed.

(* sanity of the grammar: a string without introducers is its own stripping *)
Lemma tokenize_plain : forall f s, (length s <= f)%nat -> no_intro s = true ->
  concat (map vis (tokenize f s)) = s.
Proof.
  induction f as [|f IH]; intros s Hl Hn.
  - destruct s; [reflexivity | cbn in Hl; lia].
  - destruct s as [|c r]; [reflexivity|]. cbn [length] in Hl.
    cbn [no_intro forallb] in Hn. apply andb_true_iff in Hn. destruct Hn as [Hc Hr].
    apply negb_true_iff in Hc. unfold is_intro in Hc. rewrite !orb_false_iff in Hc. destruct Hc as [[H1 H2] H3].
    cbn [tokenize]. rewrite H3, H1, H2. cbn [map concat vis app]. fold (no_intro r) in Hr.
    now rewrite IH by (assumption || lia).
Qed.

Theorem ansi_strip_plain s : no_intro s = true -> ansi_strip s = s.
Proof. intros H. apply tokenize_plain; [lia | assumption]. Qed.

Example ansi_strip_example :
  ansi_strip [97; 27; 91; 51; 49; 109; 98; 155; 50; 67; 1; 120; 2; 27; 99; 100; 27; 91; 53]
  = [97; 98; 32; 32; 100]
  /\ ansi_zero_width [97; 1; 120; 2; 1; 121; 2] = [[120]; [121]].
Proof. split; vm_compute; reflexivity. Qed.
