(* C10, round 7: the ORDERED, WHOLE-TEXT characterisation of zero-width escapes
   (so far: oracle only; the theorem C10_copy_body only said "pieces, any order").
   For a window without get_line_prefix (any wrapping, horizontal / vertical scroll,
   alignment): the sequence of `zero_width_escapes[y][x] += text` stores that
   _copy_body performs is, text for text and in order, a subsequence of the texts of
   the fragments marked [ZeroWidthEscape] in traversal (screen) order - whole texts
   (single characters of them once horizontal scroll has exploded the line); and
   every entry of the map is the concatenation, in that order, of the texts stored
   at its position.  The renderer sends exactly `assoc (row y) x` of that map
   (Model/C10_Screen.v row_loop), raw, when it repaints the cell. *)
From Coq Require Import ZArith List Bool Lia.
From PTK Require Import Lib.Sx Lib.Py Gen.C10_DisplayMappings Model.C10_Screen Model.C10_Producers
     Model.C10_Wire Model.C10_Print Model.C10_Procs
     Proofs.C10_TableFacts Proofs.C10_CopyFacts Proofs.C10_RenderFacts Proofs.C10_ProducerFacts Proofs.C10_ProcFacts.
Import ListNotations.
Open Scope Z_scope.

(* ------------------------------------------------------------ order preserving sub-list *)
Inductive subseq {A} : list A -> list A -> Prop :=
| sub_nil : forall l, subseq [] l
| sub_skip : forall a x l, subseq a l -> subseq a (x :: l)
| sub_take : forall a x l, subseq a l -> subseq (x :: a) (x :: l).

Lemma subseq_refl {A} (l : list A) : subseq l l.
Proof. induction l; [apply sub_nil | apply sub_take; assumption]. Qed.
Lemma subseq_app {A} (a b c d : list A) : subseq a b -> subseq c d -> subseq (a ++ c) (b ++ d).
Proof.
  intros H1 H2. induction H1 as [l|a x l H IH|a x l H IH].
  - cbn [app]. induction l as [|y l IHl]; [exact H2 | apply sub_skip; exact IHl].
  - cbn [app]. apply sub_skip. exact IH.
  - cbn [app]. apply sub_take. exact IH.
Qed.

(* ------------------------------------------------------------ store events *)
Record zev := mkev { ey : Z; ex : Z; et : list Z }.
Definition apply_evs (evs : list zev) (z : zwemap) : zwemap :=
  fold_left (fun z e => zwe_append z (ey e) (ex e) (et e)) evs z.
Lemma apply_evs_app a b z : apply_evs (a ++ b) z = apply_evs b (apply_evs a z).
Proof. unfold apply_evs. apply fold_left_app. Qed.

Definition is_marked (f : frag) : bool := contains ZWE_MARK (fst f).
Definition marked_texts (fs : list frag) : list (list Z) := map snd (filter is_marked fs).
Lemma marked_texts_app a b : marked_texts (a ++ b) = marked_texts a ++ marked_texts b.
Proof. unfold marked_texts. rewrite filter_app, map_app. reflexivity. Qed.

(* what happened to the map between two states: the stores, in order *)
Definition stores (z z' : zwemap) (texts : list (list Z)) : Prop :=
  exists evs, z' = apply_evs evs z /\ subseq (map et evs) texts.

Lemma stores_none z texts : stores z z texts.
Proof. exists []. split; [reflexivity | constructor]. Qed.
Lemma stores_trans z1 z2 z3 t1 t2 : stores z1 z2 t1 -> stores z2 z3 t2 -> stores z1 z3 (t1 ++ t2).
Proof.
  intros (e1 & E1 & S1) (e2 & E2 & S2). exists (e1 ++ e2). split.
  - rewrite apply_evs_app, <- E1. exact E2.
  - rewrite map_app. apply subseq_app; assumption.
Qed.

Section Order.
  Variable wc : Z -> Z.
  Variable g : cfg.
  Let idw : cstate -> cstate := fun s => s.

  Lemma char_step_zwe style st c : czwe (char_step wc g idw style st c) = czwe st.
  Proof.
    unfold char_step, idw. destruct (cstop st); [reflexivity|].
    destruct (g_wrap g && (cx st + cw (char_init wc [c] style) >? g_width g)).
    - cbn [cy cx cwrap cdata czwe cstop]. destruct (cy st + 1 >=? g_height g); reflexivity.
    - destruct (cstop st); reflexivity.
  Qed.

  Lemma chars_zwe style : forall cs st, czwe (fold_left (char_step wc g idw style) cs st) = czwe st.
  Proof. induction cs as [|c cs IH]; intro st; cbn [fold_left]; [reflexivity|]. rewrite IH. apply char_step_zwe. Qed.

  Lemma frag_step_stores st f : stores (czwe st) (czwe (frag_step wc g idw st f)) (marked_texts [f]).
  Proof.
    unfold frag_step. destruct (cstop st); [apply stores_none|].
    unfold marked_texts, is_marked. cbn [filter]. destruct (contains ZWE_MARK (fst f)).
    - cbn [czwe map]. exists [mkev (cy st + g_ypos g) (cx st + g_xpos g) (snd f)].
      split; [reflexivity | cbn [map et]; apply subseq_refl].
    - rewrite chars_zwe. apply stores_none.
  Qed.

  Lemma copy_frags_stores : forall fs st, stores (czwe st) (czwe (copy_frags wc g idw fs st)) (marked_texts fs).
  Proof.
    unfold copy_frags. induction fs as [|f fs IH]; intro st; cbn [fold_left]; [apply stores_none|].
    change (f :: fs) with ([f] ++ fs). rewrite marked_texts_app.
    eapply stores_trans; [apply frag_step_stores | apply IH].
  Qed.

  (* what copy_line makes of a line before copying it *)
  Definition prep (fs : list frag) : list frag :=
    if g_hscroll g =? 0 then fs else snd (hdrop wc (g_hscroll g) (explode fs)).

  Lemma copy_line_stores fs lineno y d z :
    stores z (czwe (copy_line_input wc g None fs lineno y d z)) (marked_texts (prep fs)).
  Proof.
    unfold copy_line_input, prep. cbv zeta. cbn [cx cy cwrap cdata czwe].
    destruct (g_hscroll g =? 0); cbn [fst snd];
      match goal with |- stores _ (czwe (copy_frags _ _ _ ?F ?S)) _ => exact (copy_frags_stores F S) end.
  Qed.

  Lemma copy_lines_stores : forall lines lineno y d z,
    stores z (snd (copy_lines wc g None lines lineno y d z)) (flat_map (fun l => marked_texts (prep l)) lines).
  Proof.
    induction lines as [|l r IH]; intros lineno y d z; cbn [copy_lines flat_map]; [apply stores_none|].
    destruct (y <? g_height g).
    - eapply stores_trans; [apply copy_line_stores | apply IH].
    - cbn [snd]. exists []. split; [reflexivity | constructor].
  Qed.

  Theorem copy_body_v_stores lines vs vs2 s :
    stores (szwe s) (szwe (copy_body_v wc g None lines vs vs2 s))
           (flat_map (fun l => marked_texts (prep l)) (skipn (Z.to_nat vs) lines)).
  Proof. unfold copy_body_v. cbn [szwe]. apply copy_lines_stores. Qed.

  Theorem copy_body_stores lines s :
    stores (szwe s) (szwe (copy_body wc g None lines s)) (flat_map (fun l => marked_texts (prep l)) lines).
  Proof. unfold copy_body. cbn [szwe]. apply copy_lines_stores. Qed.
End Order.

(* ------------------------------------------------------------ the entries of the map *)
Definition entry (z : zwemap) (y x : Z) : list Z :=
  match assoc (get_zrow z y) x with Some t => t | None => [] end.

Lemma assoc_upd_same {V} (t : list (Z * V)) k v : assoc (upd t k v) k = Some v.
Proof.
  induction t as [|[k' v'] r IH]; cbn [upd assoc]; [rewrite Z.eqb_refl; reflexivity|].
  destruct (k' =? k) eqn:E; cbn [assoc]; [rewrite Z.eqb_refl; reflexivity | rewrite E; exact IH].
Qed.
Lemma assoc_upd_other {V} (t : list (Z * V)) k k' v : k <> k' -> assoc (upd t k v) k' = assoc t k'.
Proof.
  intro N. induction t as [|[k0 v0] r IH]; cbn [upd assoc].
  - destruct (k =? k') eqn:E; [apply Z.eqb_eq in E; contradiction | reflexivity].
  - destruct (k0 =? k) eqn:E; cbn [assoc].
    + apply Z.eqb_eq in E. subst k0. destruct (k =? k') eqn:E2; [apply Z.eqb_eq in E2; contradiction | reflexivity].
    + destruct (k0 =? k'); [reflexivity | exact IH].
Qed.

Definition at_pos (y x : Z) (e : zev) : bool := (ey e =? y) && (ex e =? x).

Lemma entry_append z y x t y' x' :
  entry (zwe_append z y x t) y' x' = entry z y' x' ++ (if (y =? y') && (x =? x') then t else []).
Proof.
  unfold entry, zwe_append, get_zrow.
  destruct (y =? y') eqn:Ey.
  - apply Z.eqb_eq in Ey. subst y'. rewrite assoc_upd_same.
    destruct (x =? x') eqn:Ex; cbn [andb].
    + apply Z.eqb_eq in Ex. subst x'. rewrite assoc_upd_same. reflexivity.
    + rewrite assoc_upd_other by (intro H; subst; rewrite Z.eqb_refl in Ex; discriminate).
      rewrite app_nil_r. reflexivity.
  - cbn [andb]. rewrite assoc_upd_other by (intro H; subst; rewrite Z.eqb_refl in Ey; discriminate).
    rewrite app_nil_r. reflexivity.
Qed.

Lemma entry_apply_evs : forall evs z y x,
  entry (apply_evs evs z) y x = entry z y x ++ concat (map et (filter (at_pos y x) evs)).
Proof.
  induction evs as [|e evs IH]; intros z y x; [cbn; rewrite app_nil_r; reflexivity|].
  change (apply_evs (e :: evs) z) with (apply_evs evs (zwe_append z (ey e) (ex e) (et e))).
  rewrite IH, entry_append. cbn [filter]. unfold at_pos at 2.
  destruct ((ey e =? y) && (ex e =? x)); cbn [map concat]; rewrite <- app_assoc; [reflexivity|].
  reflexivity.
Qed.

Lemma subseq_filter {A} (p : A -> bool) (f : A -> list Z) : forall (l : list A) (texts : list (list Z)),
  subseq (map f l) texts -> subseq (map f (filter p l)) texts.
Proof.
  induction l as [|a l IH]; intros texts H; [constructor|].
  cbn [filter]. cbn [map] in H.
  remember (f a :: map f l) as L eqn:EL. revert EL. induction H as [t|b x t H IHs|b x t H IHs]; intro EL; [discriminate| |].
  - apply sub_skip. apply IHs. exact EL.
  - inversion EL; subst. destruct (p a); cbn [map]; [apply sub_take; apply IH; exact H | apply sub_skip; apply IH; exact H].
Qed.

(* The user-level statement: a fresh screen, a window without line prefix, any scroll offsets. *)
Theorem zwe_entries_ordered wc g lines vs vs2 :
  exists evs : list zev,
    subseq (map et evs) (flat_map (fun l => marked_texts (prep wc g l)) (skipn (Z.to_nat vs) lines)) /\
    forall y x, exists here : list (list Z),
      entry (szwe (copy_body_v wc g None lines vs vs2 blank_screen)) y x = concat here /\
      subseq here (map et evs) /\
      subseq here (flat_map (fun l => marked_texts (prep wc g l)) (skipn (Z.to_nat vs) lines)).
Proof.
  destruct (copy_body_v_stores wc g lines vs vs2 blank_screen) as (evs & E & S).
  exists evs. split; [exact S|]. intros y x. exists (map et (filter (at_pos y x) evs)).
  rewrite E, entry_apply_evs. split; [reflexivity|]. split.
  - clear. induction evs as [|e evs IH]; [constructor|]. cbn [filter map].
    destruct (at_pos y x e); cbn [map]; [apply sub_take | apply sub_skip]; exact IH.
  - apply subseq_filter. exact S.
Qed.

(* without horizontal scroll the texts are the WHOLE texts of the marked fragments *)
Lemma prep_noscroll wc g fs : g_hscroll g = 0 -> prep wc g fs = fs.
Proof. intro H. unfold prep. rewrite H. reflexivity. Qed.

(* all of them are stored, in order, when nothing stops the traversal: one line that fits *)
Example zwe_order_example :
  let wc := fun _ : Z => 1 in
  let g := mkcfg 10 1 0 0 false 0 0 in
  szwe (copy_body wc g None [[(ZWE_MARK, [1]); ([], [97]); (ZWE_MARK, [2]); (ZWE_MARK, [3])]] blank_screen)
  = [(0, [(0, [1]); (1, [2; 3])])].
Proof. vm_compute. reflexivity. Qed.

(* ------------------------------------------------------------ with get_line_prefix *)

(* T is L, in order, with blocks B (P B) woven in: the marked texts of the line prefixes that
   copy_line copies at the start of a line and at every wrap *)
Inductive weave (P : list (list Z) -> Prop) : list (list Z) -> list (list Z) -> Prop :=
| weave_nil : weave P [] []
| weave_take : forall x L T, weave P L T -> weave P (x :: L) (x :: T)
| weave_block : forall B L T, P B -> weave P L T -> weave P L (B ++ T).

Lemma weave_refl P L : weave P L L.
Proof. induction L; [apply weave_nil | apply weave_take; assumption]. Qed.
Lemma weave_app P L1 T1 L2 T2 : weave P L1 T1 -> weave P L2 T2 -> weave P (L1 ++ L2) (T1 ++ T2).
Proof.
  intros H1 H2. induction H1 as [|x L T H IH|B L T HB H IH]; cbn [app].
  - exact H2.
  - apply weave_take. exact IH.
  - rewrite <- app_assoc. apply weave_block; assumption.
Qed.

Section OrderPfx.
  Variable wc : Z -> Z.
  Variable g : cfg.
  Variable P : list (list Z) -> Prop.

  Definition wstores (L : list (list Z)) (z z' : zwemap) : Prop := exists T, weave P L T /\ stores z z' T.

  Lemma wstores_none L z : wstores L z z.
  Proof. exists L. split; [apply weave_refl | apply stores_none]. Qed.
  Lemma wstores_trans L1 L2 z1 z2 z3 : wstores L1 z1 z2 -> wstores L2 z2 z3 -> wstores (L1 ++ L2) z1 z3.
  Proof.
    intros (T1 & W1 & S1) (T2 & W2 & S2). exists (T1 ++ T2). split; [apply weave_app; assumption | eapply stores_trans; eassumption].
  Qed.

  Definition wrap_spec (on_wrap : cstate -> cstate) : Prop := forall st, wstores [] (czwe st) (czwe (on_wrap st)).

  Section Inner.
    Variable on_wrap : cstate -> cstate.
    Hypothesis Hw : wrap_spec on_wrap.

    Lemma char_step_w style st c : wstores [] (czwe st) (czwe (char_step wc g on_wrap style st c)).
    Proof.
      unfold char_step. destruct (cstop st); [apply wstores_none|].
      destruct (g_wrap g && (cx st + cw (char_init wc [c] style) >? g_width g)).
      - pose proof (Hw (mkcs 0 (cy st + 1) (cwrap st + 1) (cdata st) (czwe st) false)) as H. cbn [czwe] in H.
        set (st' := on_wrap (mkcs 0 (cy st + 1) (cwrap st + 1) (cdata st) (czwe st) false)) in *.
        destruct (cy st' >=? g_height g); cbn [cstop czwe]; [exact H|].
        destruct (cstop st'); [exact H | cbn [czwe]; exact H].
      - destruct (cstop st); [apply wstores_none | cbn [czwe]; apply wstores_none].
    Qed.

    Lemma chars_w style : forall cs st, wstores [] (czwe st) (czwe (fold_left (char_step wc g on_wrap style) cs st)).
    Proof.
      induction cs as [|c cs IH]; intro st; cbn [fold_left]; [apply wstores_none|].
      change (@nil (list Z)) with (@nil (list Z) ++ []). eapply wstores_trans; [apply char_step_w | apply IH].
    Qed.

    Lemma frag_step_w st f : wstores (marked_texts [f]) (czwe st) (czwe (frag_step wc g on_wrap st f)).
    Proof.
      unfold frag_step. destruct (cstop st); [apply wstores_none|].
      unfold marked_texts, is_marked. cbn [filter]. destruct (contains ZWE_MARK (fst f)).
      - cbn [czwe map]. exists [snd f]. split; [apply weave_refl|].
        exists [mkev (cy st + g_ypos g) (cx st + g_xpos g) (snd f)]. split; [reflexivity | cbn [map et]; apply subseq_refl].
      - cbn [map]. apply chars_w.
    Qed.

    Lemma copy_frags_w : forall fs st, wstores (marked_texts fs) (czwe st) (czwe (copy_frags wc g on_wrap fs st)).
    Proof.
      unfold copy_frags. induction fs as [|f fs IH]; intro st; cbn [fold_left]; [apply wstores_none|].
      change (f :: fs) with ([f] ++ fs). rewrite marked_texts_app.
      eapply wstores_trans; [apply frag_step_w | apply IH].
    Qed.
  End Inner.

  Lemma id_wrap_spec : wrap_spec (fun s => s).
  Proof. intro st. apply wstores_none. Qed.

  Lemma prefix_call_spec (p : Z -> list frag) : (forall w, P (marked_texts (p w))) -> wrap_spec (prefix_call wc g p).
  Proof.
    intros Hp st. unfold prefix_call, copy_line0. cbn [czwe].
    pose proof (copy_frags_stores wc g (p (cwrap st))
                  (mkcs (align_x wc g (p (cwrap st)) (cx st)) (cy st) 0 (cdata st) (czwe st) false)) as H.
    cbn [czwe] in H. exists (marked_texts (p (cwrap st)) ++ []). split; [apply weave_block; [apply Hp | apply weave_nil]|].
    rewrite app_nil_r. exact H.
  Qed.

  Definition pfx_blocks (pfx : option (Z -> Z -> list frag)) : Prop :=
    match pfx with Some p => forall l w, P (marked_texts (p l w)) | None => True end.

  Lemma copy_line_w pfx fs lineno y d z : pfx_blocks pfx ->
    wstores (marked_texts (prep wc g fs)) z (czwe (copy_line_input wc g pfx fs lineno y d z)).
  Proof.
    intro Hp. unfold copy_line_input, prep. cbv zeta.
    set (on_wrap := match pfx with Some p => prefix_call wc g (p lineno) | None => fun s => s end).
    assert (Hw : wrap_spec on_wrap).
    { unfold on_wrap. destruct pfx as [p|]; [apply prefix_call_spec; intro w; apply Hp | apply id_wrap_spec]. }
    pose proof (Hw (mkcs 0 y 0 d z false)) as H1. cbn [czwe] in H1.
    set (st1 := on_wrap (mkcs 0 y 0 d z false)) in *.
    change (marked_texts (if g_hscroll g =? 0 then fs else snd (hdrop wc (g_hscroll g) (explode fs))))
      with ([] ++ marked_texts (if g_hscroll g =? 0 then fs else snd (hdrop wc (g_hscroll g) (explode fs)))).
    eapply wstores_trans; [exact H1|].
    destruct (g_hscroll g =? 0); cbn [fst snd];
      match goal with |- wstores _ _ (czwe (copy_frags _ _ _ ?F ?S)) => exact (copy_frags_w on_wrap Hw F S) end.
  Qed.

  Lemma copy_lines_w pfx : pfx_blocks pfx -> forall lines lineno y d z,
    wstores (flat_map (fun l => marked_texts (prep wc g l)) lines) z (snd (copy_lines wc g pfx lines lineno y d z)).
  Proof.
    intro Hp. induction lines as [|l r IH]; intros lineno y d z; cbn [copy_lines flat_map]; [apply wstores_none|].
    destruct (y <? g_height g).
    - eapply wstores_trans; [apply copy_line_w; exact Hp | apply IH].
    - cbn [snd]. exists (marked_texts (prep wc g l) ++ flat_map (fun l0 => marked_texts (prep wc g l0)) r).
      split; [apply weave_refl | exists []; split; [reflexivity | apply sub_nil]].
  Qed.
End OrderPfx.

(* The user-level statement with get_line_prefix: the stores are, in order, a sub-list of the
   marked texts of the lines in traversal order with the marked texts of line prefixes woven in
   (whole prefix blocks, at line starts and wraps). *)
Theorem zwe_entries_ordered_pfx wc g pfx lines vs vs2 :
  let P := fun B => match pfx with Some p => exists l w, B = marked_texts (p l w) | None => False end in
  exists (evs : list zev) (T : list (list Z)),
    weave P (flat_map (fun l => marked_texts (prep wc g l)) (skipn (Z.to_nat vs) lines)) T /\
    subseq (map et evs) T /\
    forall y x, exists here : list (list Z),
      entry (szwe (copy_body_v wc g pfx lines vs vs2 blank_screen)) y x = concat here /\
      subseq here (map et evs).
Proof.
  intro P.
  assert (Hp : pfx_blocks P pfx) by (destruct pfx as [p|]; [intros l w; exists l, w; reflexivity | exact I]).
  destruct (copy_lines_w wc g P pfx Hp (skipn (Z.to_nat vs) lines) vs (- vs2) (sdata blank_screen) (szwe blank_screen))
    as (T & W & evs & E & S).
  exists evs, T. split; [exact W|]. split; [exact S|].
  intros y x. exists (map et (filter (at_pos y x) evs)).
  unfold copy_body_v. cbn [szwe]. cbn [szwe] in E. rewrite E, entry_apply_evs. split; [reflexivity|].
  clear. induction evs as [|e evs IH]; [apply sub_nil|]. cbn [filter map].
  destruct (at_pos y x e); cbn [map]; [apply sub_take | apply sub_skip]; exact IH.
Qed.

(* ------------------------------------------------------------ down to the raw tokens of the stream *)

Lemma upd_keys_in {V} (t : list (Z * V)) k v k' : In k' (map fst (upd t k v)) -> k' = k \/ In k' (map fst t).
Proof.
  induction t as [|[k0 v0] r IH]; cbn [upd map fst In]; [intros [H|[]]; left; symmetry; exact H|].
  destruct (k0 =? k) eqn:E; cbn [map fst In].
  - intros [H|H]; [left; symmetry; exact H | right; right; exact H].
  - intros [H|H]; [right; left; exact H|]. destruct (IH H) as [H'|H']; [left; exact H' | right; right; exact H'].
Qed.

Lemma upd_nodup {V} (t : list (Z * V)) k v : NoDup (map fst t) -> NoDup (map fst (upd t k v)).
Proof.
  induction t as [|[k0 v0] r IH]; cbn [upd map fst]; intro H; [constructor; [intros []|constructor]|].
  inversion H as [|? ? Hn Hr]; subst. destruct (k0 =? k) eqn:E; cbn [map fst].
  - apply Z.eqb_eq in E. subst k0. constructor; assumption.
  - constructor; [|apply IH; exact Hr]. intro Hin. destruct (upd_keys_in r k v k0 Hin) as [H'|H'].
    + subst k0. rewrite Z.eqb_refl in E. discriminate.
    + exact (Hn H').
Qed.

Lemma assoc_in_nodup {V} (t : list (Z * V)) k v : NoDup (map fst t) -> In (k, v) t -> assoc t k = Some v.
Proof.
  induction t as [|[k0 v0] r IH]; intros Hn Hin; [destruct Hin|].
  cbn [map fst] in Hn. inversion Hn as [|? ? Hnot Hr]; subst. cbn [assoc]. destruct Hin as [Hin|Hin].
  - inversion Hin; subst. rewrite Z.eqb_refl. reflexivity.
  - destruct (k0 =? k) eqn:E; [|apply IH; assumption].
    apply Z.eqb_eq in E. subst k0. exfalso. apply Hnot. apply in_map_iff. exists (k, v). split; [reflexivity | exact Hin].
Qed.

Definition zwe_wf (z : zwemap) : Prop :=
  NoDup (map fst z) /\ Forall (fun yr : Z * list (Z * list Z) => NoDup (map fst (snd yr))) z.

Lemma upd_Forall {V} (Q : Z * V -> Prop) (t : list (Z * V)) k v : Forall Q t -> Q (k, v) -> Forall Q (upd t k v).
Proof.
  intros Ht Hq. induction t as [|[k0 v0] r IH]; cbn [upd]; [constructor; [exact Hq | constructor]|].
  inversion Ht as [|? ? H0 Hr]; subst. destruct (k0 =? k); constructor; try assumption. apply IH. exact Hr.
Qed.

Lemma get_zrow_nodup z y : zwe_wf z -> NoDup (map fst (get_zrow z y)).
Proof.
  intros [_ Hf]. unfold get_zrow. destruct (assoc z y) as [r|] eqn:E; [|constructor].
  clear -Hf E. induction z as [|[k0 r0] z IH]; [discriminate|]. cbn [assoc] in E.
  inversion Hf as [|? ? H0 Hr]; subst. destruct (k0 =? y); [inversion E; subst; exact H0 | apply IH; assumption].
Qed.

Lemma zwe_append_wf z y x t : zwe_wf z -> zwe_wf (zwe_append z y x t).
Proof.
  intro H. pose proof (get_zrow_nodup z y H) as Hr. destruct H as [Hn Hf]. unfold zwe_append. split.
  - apply upd_nodup. exact Hn.
  - apply upd_Forall; [exact Hf|]. cbn [snd]. apply upd_nodup. exact Hr.
Qed.

Lemma apply_evs_wf : forall evs z, zwe_wf z -> zwe_wf (apply_evs evs z).
Proof.
  induction evs as [|e evs IH]; intros z H; [exact H|].
  change (apply_evs (e :: evs) z) with (apply_evs evs (zwe_append z (ey e) (ex e) (et e))).
  apply IH. apply zwe_append_wf. exact H.
Qed.

Lemma zwe_texts_entry s t : zwe_wf (szwe s) -> In t (zwe_texts s) -> exists y x, entry (szwe s) y x = t.
Proof.
  intros [Hn Hf] Hin. unfold zwe_texts in Hin. apply in_flat_map in Hin. destruct Hin as ([y r] & Hr & Ht).
  cbn [snd] in Ht. apply in_map_iff in Ht. destruct Ht as ([x t'] & E & Hx). cbn [snd] in E. subst t'.
  exists y, x. unfold entry, get_zrow. rewrite (assoc_in_nodup _ _ _ Hn Hr).
  rewrite Forall_forall in Hf. specialize (Hf _ Hr). cbn [snd] in Hf. rewrite (assoc_in_nodup _ _ _ Hf Hx). reflexivity.
Qed.

(* Every token that reaches the terminal raw on behalf of displayed content (origin FromZWE) is
   the concatenation, in the order they were copied, of WHOLE texts of fragments marked
   [ZeroWidthEscape] (of the visible lines / line prefixes; single characters of them under
   horizontal scroll) - the stores of one screen position; across positions the stores follow the
   traversal order [T]. *)
Theorem raw_tokens_ordered wc sty g M pfx lines vs vs2 app width ri x y last vis :
  wc_ascii wc -> pfx_marked M pfx -> (forall l, In l lines -> frags_marked M l) ->
  let P := fun B => match pfx with Some p => exists l w, B = marked_texts (p l w) | None => False end in
  exists (evs : list zev) (T : list (list Z)),
    weave P (flat_map (fun l => marked_texts (prep wc g l)) (skipn (Z.to_nat vs) lines)) T /\
    subseq (map et evs) T /\
    forall t, In t (rendered_tokens_v wc sty g pfx lines vs vs2 app width ri x y last vis) ->
      torigin t = FromZWE ->
      tkind t = KRaw /\ exists here, ttext t = concat here /\ subseq here (map et evs).
Proof.
  intros Hwc HpM HlM P.
  assert (Hp : pfx_blocks P pfx) by (destruct pfx as [p|]; [intros l w; exists l, w; reflexivity | exact I]).
  destruct (copy_lines_w wc g P pfx Hp (skipn (Z.to_nat vs) lines) vs (- vs2) (sdata blank_screen) (szwe blank_screen))
    as (T & W & evs & E & S).
  exists evs, T. split; [exact W|]. split; [exact S|].
  set (scr := rendered_screen_v wc g pfx lines vs vs2 app).
  assert (Ez : szwe scr = apply_evs evs []).
  { unfold scr, rendered_screen_v. destruct app; cbn [append_style szwe]; unfold copy_body_v; cbn [szwe]; exact E. }
  assert (Hwf : zwe_wf (szwe scr)) by (rewrite Ez; apply apply_evs_wf; split; constructor).
  intros t Ht Ho.
  (* tok_ok for every token, as in vscroll_stream, but with M := all texts (no marking hypothesis needed) *)
  assert (HT : Forall (tok_ok sty (zwe_texts scr)) (rendered_tokens_v wc sty g pfx lines vs vs2 app width ri x y last vis)).
  { unfold rendered_tokens_v. apply Forall_rev. apply output_screen_diff_ok; [|apply incl_refl | constructor].
    exact (proj1 (rendered_screen_v_ok wc g M pfx lines vs vs2 app Hwc HpM HlM)). }
  rewrite Forall_forall in HT. specialize (HT t Ht). unfold tok_ok in HT. rewrite Ho in HT. destruct HT as [Hk Hin].
  split; [exact Hk|].
  destruct (zwe_texts_entry scr (ttext t) Hwf Hin) as (y0 & x0 & Een).
  exists (map et (filter (at_pos y0 x0) evs)). rewrite <- Een, Ez, entry_apply_evs. split; [reflexivity|].
  clear. induction evs as [|e evs IH]; [apply sub_nil|]. cbn [filter map].
  destruct (at_pos y0 x0 e); cbn [map]; [apply sub_take | apply sub_skip]; exact IH.
Qed.
