(* Statements added after the independent audit of C01 (audit/C01.md):
   delete for every count, the "views" clause, totality of indent/unindent,
   margins without line endings, overwrite without cursor move, the case
   commands with a repeat count, and the readline commands reduced to the
   buffer operations. *)
From Coq Require Import ZArith List Bool Lia.
From PTK Require Import Lib.Sx Lib.Py Model.Document Model.BufferEdit Model.C02_DocQueries
  Model.C01_CaseWord Proofs.BufferEditFacts Proofs.BufferEditLines Proofs.BufferEditIndent
  Proofs.C02_Base Proofs.C02_Coords Proofs.C01_CaseWordFacts Proofs.C01_LastLine.
Import ListNotations.
Open Scope Z_scope.

(* ---------------------------------------------------------------------- *)
(* delete, every count: min(max(0,n), available) characters after the cursor *)
Lemma delete_spec_any b n :
  Inv b ->
  let k := Z.min (Z.max 0 n) (len (btext b) - bcur b) in
  delete b n =
  Ok (mkbuf (firstn (Z.to_nat (bcur b)) (btext b) ++ skipn (Z.to_nat (bcur b + k)) (btext b))
            (bcur b))
     (firstn (Z.to_nat k) (skipn (Z.to_nat (bcur b)) (btext b))).
Proof.
  intros H k. rewrite delete_max.
  exact (delete_spec b (Z.max 0 n) H ltac:(lia)).
Qed.

(* overwrite mode, with or without moving the cursor *)
Lemma insert_overwrite_spec_mv b data mv :
  Inv b ->
  exists k,
    0 <= k <= len data /\ bcur b + k <= len (btext b) /\
    mem_Z NL (firstn (Z.to_nat k) (skipn (Z.to_nat (bcur b)) (btext b))) = false /\
    insert_text b data true mv =
    Ok (mkbuf (firstn (Z.to_nat (bcur b)) (btext b) ++ data
               ++ skipn (Z.to_nat (bcur b + k)) (btext b))
              (if mv then bcur b + len data else bcur b)) [].
Proof.
  intros [H0 H1]. unfold insert_text.
  pose proof (len_nonneg data) as Hd.
  set (t := btext b) in *. set (c := bcur b) in *.
  (* the overwritten slice, in range *)
  assert (Hov : slice2 t c (c + len data) =
                firstn (Z.to_nat (len data)) (skipn (Z.to_nat c) t)).
  { unfold slice2, slice, adj_index.
    destruct (c <? 0) eqn:E1; [lia|]. destruct (c + len data <? 0) eqn:E2; [lia|].
    rewrite (Z.min_l c) by lia.
    destruct (c <? Z.min (c + len data) (len t)) eqn:E3.
    - destruct (Z.min_spec (c + len data) (len t)) as [[Hlt ->]|[Hge ->]].
      + f_equal. lia.
      + rewrite firstn_all2. 2:{ rewrite skipn_length. unfold len in *. lia. }
        rewrite firstn_all2; [reflexivity|]. rewrite skipn_length. unfold len in *. lia.
    - assert (Hz : len data = 0 \/ c = len t) by lia. destruct Hz as [Hz|Hz].
      + rewrite Hz. reflexivity.
      + rewrite Hz. unfold len. rewrite !Nat2Z.id, skipn_all. now rewrite firstn_nil. }
  rewrite Hov. set (ov := firstn _ (skipn _ t)).
  assert (Hlov : len ov <= len data /\ c + len ov <= len t).
  { unfold ov. rewrite len_firstn, len_skipn. lia. }
  destruct (mem_Z NL ov) eqn:Em.
  - destruct (find_char_from_spec NL ov 0 Em) as [Hr Hn]. fold (find_char NL ov) in *.
    set (k := find_char NL ov) in *. rewrite Z.sub_0_r in Hn.
    exists k. assert (Hk : 0 <= k <= len ov) by lia.
    rewrite (slice_to_in_range ov k) by lia. rewrite len_firstn.
    rewrite (Z.min_l (Z.of_nat (Z.to_nat k))) by lia. rewrite Z2Nat.id by lia.
    split; [lia|]. split; [lia|]. split.
    + unfold ov in Hn. rewrite firstn_firstn in Hn.
      replace (Init.Nat.min (Z.to_nat k) (Z.to_nat (len data))) with (Z.to_nat k) in Hn by lia.
      exact Hn.
    + rewrite slice_to_in_range, slice_from_in_range by lia.
      unfold set_document.
      match goal with |- context [len ?x <? _] => set (t' := x) end.
      assert (len t' = len t - k + len data).
      { unfold t'. rewrite !len_app, len_firstn, len_skipn. lia. }
      destruct mv; match goal with |- context [if ?x then Err _ _ else _] => destruct x eqn:E end; try lia; f_equal; f_equal; lia.
  - pose proof (len_nonneg ov) as Hov0. exists (len ov). split; [lia|]. split; [lia|]. split.
    + assert (Hx : firstn (Z.to_nat (len ov)) (skipn (Z.to_nat c) t) = ov)
        by (unfold ov; apply firstn_len_firstn).
      rewrite Hx. exact Em.
    + rewrite slice_to_in_range, slice_from_in_range by lia.
      unfold set_document.
      match goal with |- context [len ?x <? _] => set (t' := x) end.
      assert (len t' = len t - len ov + len data).
      { unfold t'. rewrite !len_app, len_firstn, len_skipn. lia. }
      destruct mv; match goal with |- context [if ?x then Err _ _ else _] => destruct x eqn:E end; try lia; f_equal; f_equal; lia.
Qed.

(* ---------------------------------------------------------------------- *)
(* "the text seen through every view of the buffer is the same": the views
   the model has - before/after the cursor, the lines - reassemble to the
   text; with step_inv this holds after every operation and every sequence. *)
Lemma inv_valid b : Inv b -> valid (bdoc b).
Proof. intros [H0 H1]. unfold valid, bdoc; cbn [dtext dcur]. lia. Qed.

Lemma views_agree b :
  Inv b ->
  text_before_cursor (bdoc b) ++ text_after_cursor (bdoc b) = btext b /\
  join [NL] (lines (bdoc b)) = btext b /\
  len (text_before_cursor (bdoc b)) = bcur b.
Proof.
  intros H. pose proof (inv_valid b H) as Hv. split; [|split].
  - exact (C02c_before_after (bdoc b) Hv).
  - exact (join_lines (bdoc b)).
  - exact (len_tb (bdoc b) Hv).
Qed.

Lemma views_after_step b o :
  Inv b -> let b' := res_buf (step b o) in
  text_before_cursor (bdoc b') ++ text_after_cursor (bdoc b') = btext b' /\
  join [NL] (lines (bdoc b')) = btext b' /\
  len (text_before_cursor (bdoc b')) = bcur b'.
Proof. intros H b'. apply views_agree, step_inv, H. Qed.

Lemma views_after_history ops b :
  Inv b -> let b' := steps b ops in
  text_before_cursor (bdoc b') ++ text_after_cursor (bdoc b') = btext b' /\
  join [NL] (lines (bdoc b')) = btext b'.
Proof. intros H b'. destruct (views_agree b' (steps_inv ops b H)) as (A & B & _). now split. Qed.

(* ---------------------------------------------------------------------- *)
(* indent / unindent never fail *)
Lemma indent_ok b a e c : exists b' r, indent b a e c = Ok b' r.
Proof.
  unfold indent, set_document.
  match goal with |- context [len ?t <? translate_row_col_to_index ?d ?r ?cc] =>
    pose proof (C02c_row_col_to_index_bounds d r cc) as Hb; cbn [dtext] in Hb;
    destruct (len t <? translate_row_col_to_index d r cc) eqn:E end; [lia|].
  cbn [bind]. eauto.
Qed.

Lemma unindent_ok b a e c : exists b' r, unindent b a e c = Ok b' r.
Proof.
  unfold unindent, set_document.
  match goal with |- context [len ?t <? translate_row_col_to_index ?d ?r ?cc] =>
    pose proof (C02c_row_col_to_index_bounds d r cc) as Hb; cbn [dtext] in Hb;
    destruct (len t <? translate_row_col_to_index d r cc) eqn:E end; [lia|].
  cbn [bind]. eauto.
Qed.

Lemma indent_total b a e c :
  btext (res_buf (indent b a e c)) = transform_lines (fun l => str_mul INDENT c ++ l) (btext b) a e.
Proof. destruct (indent_ok b a e c) as (b' & r & E). rewrite E. cbn [res_buf]. eapply indent_text, E. Qed.

Lemma unindent_total b a e c :
  btext (res_buf (unindent b a e c)) =
  transform_lines (unindent_line (str_mul INDENT c)) (btext b) a e.
Proof. destruct (unindent_ok b a e c) as (b' & r & E). rewrite E. cbn [res_buf]. eapply unindent_text, E. Qed.

(* ---------------------------------------------------------------------- *)
(* the copied margin holds no line ending: it is a prefix of the current
   line *)
Lemma newline_spec' b cm :
  Inv b ->
  exists m,
    newline b cm =
    Ok (mkbuf (firstn (Z.to_nat (bcur b)) (btext b) ++ NL :: m ++ skipn (Z.to_nat (bcur b)) (btext b))
              (bcur b + 1 + len m)) [] /\
    forallb is_space m = true /\ mem_Z NL m = false /\ (cm = false -> m = []).
Proof.
  intros H. destruct (newline_spec b cm H) as (m & E & Hs & Hc).
  exists m. split; [exact E|]. split; [exact Hs|]. split; [|exact Hc].
  destruct cm.
  - (* m is the margin: read it back from the equation *)
    unfold newline in E. rewrite (insert_text_spec b _ true H) in E.
    injection E as E _. apply app_inv_head in E. injection E as E.
    pose proof (f_equal (firstn (length (leading_whitespace_in_current_line (bdoc b)))) E) as E'.
    assert (Hlen : length (leading_whitespace_in_current_line (bdoc b)) = length m).
    { apply (f_equal (@length Z)) in E. rewrite !app_length in E. lia. }
    rewrite firstn_app, Nat.sub_diag, firstn_all, firstn_O, app_nil_r in E'.
    rewrite Hlen, firstn_app, Nat.sub_diag, firstn_all, firstn_O, app_nil_r in E'.
    rewrite <- E'. now apply margin_no_nl.
  - rewrite (Hc eq_refl). reflexivity.
Qed.

(* ---------------------------------------------------------------------- *)
(* readline commands that forward the numeric argument: what they are in
   terms of the buffer operations (drop_ret forgets the returned text: the
   handlers return None) *)
Lemma delete_char_is_delete b arg : delete_char b arg = drop_ret (delete b arg).
Proof. reflexivity. Qed.

Lemma delete_char_negative b arg : Inv b -> arg <= 0 -> delete_char b arg = Ok b [].
Proof. intros H Ha. unfold delete_char. now rewrite (delete_negative b arg H Ha). Qed.

Lemma backward_delete_char_nonneg b arg :
  0 <= arg -> backward_delete_char b arg = drop_ret (delete_before_cursor b arg).
Proof. intros H. unfold backward_delete_char. destruct (arg <? 0) eqn:E; [lia|reflexivity]. Qed.

Lemma backward_delete_char_neg b arg :
  arg < 0 -> backward_delete_char b arg = drop_ret (delete b (- arg)).
Proof. intros H. unfold backward_delete_char. destruct (arg <? 0) eqn:E; [reflexivity|lia]. Qed.

Lemma self_insert_is_insert b data arg :
  Inv b ->
  self_insert b data arg =
  Ok (mkbuf (firstn (Z.to_nat (bcur b)) (btext b) ++ str_mul data arg ++ skipn (Z.to_nat (bcur b)) (btext b))
            (bcur b + len (str_mul data arg))) [].
Proof. intros H. unfold self_insert. exact (insert_text_spec b (str_mul data arg) true H). Qed.

(* transpose-chars at the end of the text or of a line swaps the two
   characters before the cursor; elsewhere it swaps the characters around
   the cursor and steps over them; at position 0 nothing happens *)
Lemma transpose_at_start b : bcur b = 0 -> transpose_chars b = Ok b [].
Proof. intros H. unfold transpose_chars. now rewrite H. Qed.

Lemma transpose_at_end b :
  bcur b <> 0 -> bcur b = len (btext b) -> transpose_chars b = swap_characters_before_cursor b.
Proof.
  intros H0 H1. unfold transpose_chars. destruct (bcur b =? 0) eqn:E; [lia|].
  rewrite H1, Z.eqb_refl. reflexivity.
Qed.

(* ---------------------------------------------------------------------- *)
(* the case commands with a repeat count: the text before the cursor and a
   suffix of the text after it are kept, the span in between is replaced by
   the concatenation of the F-images of consecutive pieces of it, and the
   cursor ends behind the replacement *)
Lemma firstn_add_app {T} (l : list T) a n :
  firstn (a + n) l = firstn a l ++ firstn n (skipn a l).
Proof.
  revert l; induction a as [|a IH]; intros l; [reflexivity|].
  destruct l as [|x l]; cbn [Nat.add firstn skipn app]; [now rewrite firstn_nil|].
  now rewrite IH.
Qed.

Lemma iter_case_spec F : forall k b,
  Inv b ->
  exists n pieces b',
    iter_res (case_word1 F) k b = Ok b' [] /\
    0 <= n <= len (btext b) - bcur b /\
    concat pieces = firstn (Z.to_nat n) (skipn (Z.to_nat (bcur b)) (btext b)) /\
    btext b' = firstn (Z.to_nat (bcur b)) (btext b) ++ concat (map F pieces)
               ++ skipn (Z.to_nat (bcur b + n)) (btext b) /\
    bcur b' = bcur b + len (concat (map F pieces)).
Proof.
  induction k as [|k IH]; intros b H.
  - exists 0, [], b. cbn [iter_res concat map Z.to_nat firstn app].
    destruct H as [H0 H1]. repeat split; try lia.
    + rewrite Z.add_0_r. now rewrite firstn_skipn.
    + change (len []) with 0. lia.
  - cbn [iter_res]. destruct (case_word1_spec F b H) as (n1 & Hn1 & E1). cbn zeta in E1.
    rewrite E1. cbn [bind].
    set (before := firstn (Z.to_nat (bcur b)) (btext b)) in *.
    set (after := skipn (Z.to_nat (bcur b)) (btext b)) in *.
    set (w1 := firstn (Z.to_nat n1) after) in *.
    set (b1 := mkbuf (before ++ F w1 ++ skipn (Z.to_nat n1) after) (bcur b + len (F w1))).
    destruct H as [H0 H1].
    assert (Hlb : len before = bcur b) by (unfold before; rewrite len_firstn; lia).
    assert (Hla : len after = len (btext b) - bcur b) by (unfold after; rewrite len_skipn; lia).
    pose proof (len_nonneg (F w1)) as HF.
    assert (HI1 : Inv b1).
    { unfold Inv, b1; cbn [btext bcur]. rewrite !len_app, len_skipn. lia. }
    destruct (IH b1 HI1) as (n2 & ps & b' & E2 & Hn2 & Hc & Ht & Hcur).
    unfold b1 in Hn2, Hc, Ht, Hcur; cbn [btext bcur] in Hn2, Hc, Ht, Hcur.
    rewrite !len_app, len_skipn in Hn2.
    (* positions inside b1's text, behind before ++ F w1 *)
    assert (Hpre : Z.to_nat (bcur b + len (F w1)) = length (before ++ F w1)).
    { rewrite app_length. unfold len in *. lia. }
    rewrite Hpre in Hc, Ht.
    rewrite (app_assoc before (F w1) (skipn (Z.to_nat n1) after)) in Hc, Ht.
    rewrite skipn_app, skipn_all, Nat.sub_diag in Hc. cbn [skipn app] in Hc.
    rewrite firstn_app, firstn_all, Nat.sub_diag in Ht. cbn [firstn] in Ht. rewrite app_nil_r in Ht.
    assert (Hpre2 : Z.to_nat (bcur b + len (F w1) + n2) = (length (before ++ F w1) + Z.to_nat n2)%nat).
    { rewrite app_length. unfold len in *. lia. }
    rewrite Hpre2 in Ht. rewrite <- skipn_add in Ht.
    rewrite skipn_app, skipn_all, Nat.sub_diag in Ht. cbn [skipn app] in Ht.
    exists (n1 + n2), (w1 :: ps), b'. split; [exact E2|].
    split; [lia|]. split; [|split].
    + cbn [concat]. rewrite Hc.
      replace (Z.to_nat (n1 + n2)) with (Z.to_nat n1 + Z.to_nat n2)%nat by lia.
      unfold w1. symmetry. apply firstn_add_app.
    + rewrite Ht. cbn [map concat]. rewrite <- !app_assoc. f_equal. f_equal. f_equal.
      unfold after. rewrite !skipn_add. f_equal. lia.
    + rewrite Hcur. cbn [map concat]. rewrite len_app. lia.
Qed.

Lemma case_word_spec F b arg :
  Inv b ->
  exists n pieces b',
    case_word F b arg = Ok b' [] /\
    0 <= n <= len (btext b) - bcur b /\
    concat pieces = firstn (Z.to_nat n) (skipn (Z.to_nat (bcur b)) (btext b)) /\
    btext b' = firstn (Z.to_nat (bcur b)) (btext b) ++ concat (map F pieces)
               ++ skipn (Z.to_nat (bcur b + n)) (btext b) /\
    bcur b' = bcur b + len (concat (map F pieces)).
Proof.
  intros H. destruct (iter_case_spec F (Z.to_nat arg) b H) as (n & ps & b' & E & R).
  exists n, ps, b'. unfold case_word. rewrite E. split; [reflexivity|exact R].
Qed.
