(* C02 (Document coordinates): lemmas about Model/Document.v.
   split/join, the line start table, index <-> (row, col), cursor row/col,
   the current line and the within-line motions. *)
From Coq Require Import ZArith List Bool Lia.
From PTK Require Import Lib.Sx Lib.Py Gen.Whitespace Model.Document Proofs.BufferEditFacts Proofs.C02_Base.
Import ListNotations.
Open Scope Z_scope.

(* [valid d] (0 <= dcur d <= len (dtext d)) is defined in Proofs/C02_Base.v *)

(* ---------------------------------------------------------------------- *)
(* Generic list helpers *)

Lemma c02_firstn_app_le {T} (a b : list T) n :
  (n <= length a)%nat -> firstn n (a ++ b) = firstn n a.
Proof.
  intros H. rewrite firstn_app. replace (n - length a)%nat with 0%nat by lia.
  cbn [firstn]. apply app_nil_r.
Qed.

Lemma c02_skipn_app_le {T} (a b : list T) n :
  (n <= length a)%nat -> skipn n (a ++ b) = skipn n a ++ b.
Proof.
  intros H. rewrite skipn_app. replace (n - length a)%nat with 0%nat by lia.
  reflexivity.
Qed.

Lemma c02_skipn_app_plus {T} (a b : list T) n :
  skipn (length a + n) (a ++ b) = skipn n b.
Proof. induction a as [|x a IH]; [reflexivity|]. exact IH. Qed.

Lemma c02_skipn_app_len {T} (a b : list T) n :
  n = length a -> skipn n (a ++ b) = b.
Proof.
  intros ->. rewrite skipn_app, skipn_all, Nat.sub_diag. reflexivity.
Qed.

Lemma c02_nth_error_app_mid {T} (a : list T) x b n :
  n = length a -> nth_error (a ++ x :: b) n = Some x.
Proof.
  intros ->. rewrite nth_error_app2 by lia. rewrite Nat.sub_diag. reflexivity.
Qed.

Lemma c02_nth_succ_Z {T} k x (s : list T) d :
  0 <= k -> nth (Z.to_nat (k + 1)) (x :: s) d = nth (Z.to_nat k) s d.
Proof.
  intros H. replace (Z.to_nat (k + 1)) with (S (Z.to_nat k)) by lia. reflexivity.
Qed.

Lemma c02_index_nth {T} (s : list T) k d :
  0 <= k < len s -> index s k = Some (nth (Z.to_nat k) s d).
Proof.
  intros H. unfold index. cbv zeta. destruct (k <? 0) eqn:E; [lia|]. rewrite E. cbn [orb].
  destruct (len s <=? k) eqn:E2; [lia|].
  apply nth_error_nth'. unfold len in H. lia.
Qed.

(* ---------------------------------------------------------------------- *)
(* mem_Z / count_char / before_first / after_last helpers *)

Lemma c02_mem_Z_app c a b : mem_Z c (a ++ b) = mem_Z c a || mem_Z c b.
Proof.
  induction a as [|x a IH]; cbn [app mem_Z]; [reflexivity|].
  rewrite IH. now rewrite orb_assoc.
Qed.

Lemma c02_mem_Z_rev c s : mem_Z c (rev s) = mem_Z c s.
Proof.
  induction s as [|x s IH]; [reflexivity|]. cbn [rev].
  rewrite c02_mem_Z_app, IH. cbn [mem_Z]. rewrite orb_false_r. apply orb_comm.
Qed.

Lemma c02_mem_Z_firstn_false c s n : mem_Z c s = false -> mem_Z c (firstn n s) = false.
Proof.
  intros H. destruct (mem_Z c (firstn n s)) eqn:E; [|reflexivity].
  apply mem_Z_false_firstn in E. congruence.
Qed.

Lemma c02_mem_Z_skipn_false c s : forall n, mem_Z c s = false -> mem_Z c (skipn n s) = false.
Proof.
  induction s as [|x s IH]; intros [|n] H; cbn [skipn]; try exact H.
  apply IH. cbn [mem_Z] in H. apply orb_false_iff in H. apply H.
Qed.

Lemma c02_count_char_app c a b : count_char c (a ++ b) = count_char c a + count_char c b.
Proof.
  induction a as [|x a IH]; cbn [app count_char]; [reflexivity|]. rewrite IH. lia.
Qed.

Lemma c02_count_char_none c s : mem_Z c s = false -> count_char c s = 0.
Proof.
  induction s as [|x s IH]; cbn [mem_Z count_char]; [reflexivity|].
  destruct (x =? c) eqn:E; cbn [orb]; [discriminate|]. intros H. rewrite (IH H). reflexivity.
Qed.

Lemma c02_count_char_nonneg c s : 0 <= count_char c s.
Proof.
  induction s as [|x s IH]; cbn [count_char]; [lia|]. destruct (x =? c) eqn:E; lia.
Qed.

Lemma c02_before_first_none c a : mem_Z c a = false -> before_first c a = a.
Proof.
  induction a as [|x a IH]; cbn [mem_Z before_first]; [reflexivity|].
  destruct (x =? c) eqn:E; cbn [orb]; [discriminate|]. intros H. now rewrite (IH H).
Qed.

Lemma c02_before_first_app c a b : mem_Z c a = false -> before_first c (a ++ c :: b) = a.
Proof.
  induction a as [|x a IH]; cbn [mem_Z before_first app].
  - intros _. now rewrite Z.eqb_refl.
  - destruct (x =? c) eqn:E; cbn [orb]; [discriminate|]. intros H. now rewrite (IH H).
Qed.

Lemma c02_before_first_app_sep c a post :
  mem_Z c a = false -> (post = [] \/ exists q, post = c :: q) ->
  before_first c (a ++ post) = a.
Proof.
  intros H [->|(q & ->)].
  - rewrite app_nil_r. now apply c02_before_first_none.
  - now apply c02_before_first_app.
Qed.

Lemma c02_after_last_app c pre w :
  mem_Z c w = false -> (pre = [] \/ exists p', pre = p' ++ [c]) ->
  after_last c (pre ++ w) = w.
Proof.
  intros H Hp. unfold after_last. rewrite rev_app_distr.
  assert (Hr : mem_Z c (rev w) = false) by (now rewrite c02_mem_Z_rev).
  destruct Hp as [->|(p' & ->)].
  - cbn [rev]. rewrite app_nil_r, c02_before_first_none by exact Hr. apply rev_involutive.
  - rewrite rev_app_distr. cbn [rev app].
    rewrite c02_before_first_app by exact Hr. apply rev_involutive.
Qed.

(* partition: s = head ++ (sep ++ tail) *)
Lemma c02_before_after_first c s :
  s = before_first c s ++ match after_first c s with Some r => c :: r | None => [] end.
Proof.
  induction s as [|x s IH]; cbn [before_first after_first]; [reflexivity|].
  destruct (x =? c) eqn:E.
  - apply Z.eqb_eq in E. subst x. reflexivity.
  - cbn [app]. now rewrite <- IH.
Qed.

Lemma c02_len_lstrip_by p s : 0 <= len (lstrip_by p s) <= len s.
Proof.
  induction s as [|x s IH]; cbn [lstrip_by].
  - change (len (@nil Z)) with 0. lia.
  - destruct (p x) eqn:E; rewrite ?len_cons; pose proof (len_nonneg s); lia.
Qed.

(* ---------------------------------------------------------------------- *)
(* split / join *)

Lemma split_on_aux_spec c s : forall cur,
  split_on_aux c s cur =
  match split_on c s with h :: tl => (rev cur ++ h) :: tl | [] => [] end.
Proof.
  unfold split_on. induction s as [|x r IH]; intros cur; cbn [split_on_aux].
  - cbn [rev]. now rewrite app_nil_r.
  - destruct (x =? c) eqn:E.
    + cbn [rev]. now rewrite app_nil_r.
    + rewrite (IH (x :: cur)), (IH [x]).
      destruct (split_on_aux c r []) as [|h tl]; [reflexivity|].
      cbn [rev app]. now rewrite <- app_assoc.
Qed.

Lemma split_on_aux_nonempty c s : forall cur, split_on_aux c s cur <> [].
Proof.
  induction s as [|x r IH]; intros cur; cbn [split_on_aux]; [discriminate|].
  destruct (x =? c); [discriminate|apply IH].
Qed.

Lemma split_on_nonempty c s : split_on c s <> [].
Proof. apply split_on_aux_nonempty. Qed.

Lemma split_on_cons c x r :
  split_on c (x :: r) =
  if x =? c then [] :: split_on c r
  else match split_on c r with h :: tl => (x :: h) :: tl | [] => [[x]] end.
Proof.
  unfold split_on at 1. cbn [split_on_aux]. destruct (x =? c); [reflexivity|].
  rewrite split_on_aux_spec.
  destruct (split_on c r) as [|h tl] eqn:E; [|reflexivity].
  exfalso. exact (split_on_nonempty _ _ E).
Qed.

Lemma join_cons2 c a b r : join [c] (a :: b :: r) = a ++ c :: join [c] (b :: r).
Proof. reflexivity. Qed.

Lemma join_cons_ne c a r : r <> [] -> join [c] (a :: r) = a ++ c :: join [c] r.
Proof. destruct r as [|b r]; [congruence|]. intros _. apply join_cons2. Qed.

Lemma len_join_cons_ne c a r :
  r <> [] -> len (join [c] (a :: r)) = len a + 1 + len (join [c] r).
Proof. intros H. rewrite join_cons_ne by exact H. rewrite len_app, len_cons. lia. Qed.

Lemma C02c_join_split t : join [NL] (split_on NL t) = t.
Proof.
  induction t as [|x r IH]; [reflexivity|].
  rewrite split_on_cons.
  destruct (split_on NL r) as [|h tl] eqn:E; [exfalso; exact (split_on_nonempty _ _ E)|].
  destruct (x =? NL) eqn:Ex.
  - rewrite join_cons2, IH. apply Z.eqb_eq in Ex. subst x. reflexivity.
  - destruct tl as [|h2 tl].
    + cbn [join] in *. now rewrite IH.
    + rewrite join_cons2 in *. rewrite <- IH. reflexivity.
Qed.

Lemma join_lines d : join [NL] (lines d) = dtext d.
Proof. apply C02c_join_split. Qed.

Lemma C02c_lines_no_nl t l : In l (split_on NL t) -> mem_Z NL l = false.
Proof.
  revert l. induction t as [|x r IH]; intros l Hl.
  - destruct Hl as [<-|[]]. reflexivity.
  - rewrite split_on_cons in Hl. destruct (x =? NL) eqn:Ex.
    + destruct Hl as [<-|Hl]; [reflexivity|now apply IH].
    + destruct (split_on NL r) as [|h tl] eqn:E.
      * destruct Hl as [<-|[]]. cbn [mem_Z]. rewrite Ex. reflexivity.
      * destruct Hl as [<-|Hl].
        -- cbn [mem_Z]. rewrite Ex. cbn [orb]. apply IH. now left.
        -- apply IH. now right.
Qed.

Lemma split_on_none c l : mem_Z c l = false -> split_on c l = [l].
Proof.
  induction l as [|a l IH]; cbn [mem_Z]; intros H; [reflexivity|].
  rewrite split_on_cons. destruct (a =? c) eqn:E; [discriminate|].
  cbn [orb] in H. rewrite (IH H). reflexivity.
Qed.

Lemma split_on_app_sep c l rest :
  mem_Z c l = false -> split_on c (l ++ c :: rest) = l :: split_on c rest.
Proof.
  induction l as [|a l IH]; cbn [mem_Z app]; intros H.
  - rewrite split_on_cons, Z.eqb_refl. reflexivity.
  - rewrite split_on_cons. destruct (a =? c) eqn:E; [discriminate|].
    cbn [orb] in H. rewrite (IH H). reflexivity.
Qed.

Lemma C02c_split_join ls :
  ls <> [] -> (forall l, In l ls -> mem_Z NL l = false) ->
  split_on NL (join [NL] ls) = ls.
Proof.
  induction ls as [|l r IH]; intros Hne Hl; [congruence|].
  destruct r as [|l2 r].
  - cbn [join]. apply split_on_none. apply Hl. now left.
  - rewrite join_cons2. rewrite split_on_app_sep by (apply Hl; now left).
    f_equal. apply IH; [discriminate|]. intros l' Hl'. apply Hl. now right.
Qed.

Lemma len_split_on c t : len (split_on c t) = 1 + count_char c t.
Proof.
  induction t as [|a t IH]; [reflexivity|].
  rewrite split_on_cons. cbn [count_char]. destruct (a =? c).
  - rewrite len_cons, IH. lia.
  - destruct (split_on c t) as [|h tl] eqn:E; [exfalso; exact (split_on_nonempty _ _ E)|].
    rewrite len_cons in *. lia.
Qed.

Lemma C02c_line_count d : line_count d = 1 + count_char NL (dtext d).
Proof. unfold line_count, lines. apply len_split_on. Qed.

Lemma C02c_before_after_firstn_skipn d :
  valid d ->
  text_before_cursor d = firstn (Z.to_nat (dcur d)) (dtext d) /\
  text_after_cursor d = skipn (Z.to_nat (dcur d)) (dtext d) /\
  len (text_before_cursor d) = dcur d.
Proof.
  intros [H0 H1]. unfold text_before_cursor, text_after_cursor.
  rewrite slice_to_in_range, slice_from_in_range by lia.
  split; [reflexivity|]. split; [reflexivity|]. rewrite len_firstn. lia.
Qed.

Lemma C02c_before_after d :
  valid d -> text_before_cursor d ++ text_after_cursor d = dtext d.
Proof.
  intros H. destruct (C02c_before_after_firstn_skipn d H) as (-> & -> & _).
  apply firstn_skipn.
Qed.

(* ---------------------------------------------------------------------- *)
(* The line start table *)

Fixpoint starts (ls : list str) (pos : Z) : list Z :=
  match ls with
  | [] => []
  | l :: r => pos :: starts r (pos + len l + 1)
  end.

Lemma removelast_cumul ls : forall pos, removelast (pos :: cumul ls pos) = starts ls pos.
Proof.
  induction ls as [|l r IH]; intros pos; [reflexivity|].
  cbn [cumul starts]. rewrite <- IH. reflexivity.
Qed.

Lemma length_cumul ls : forall pos, length (cumul ls pos) = length ls.
Proof.
  induction ls as [|l r IH]; intros pos; [reflexivity|].
  cbn [cumul length]. now rewrite IH.
Qed.

Lemma C02c_line_start_indexes d : line_start_indexes d = starts (lines d) 0.
Proof.
  unfold line_start_indexes. cbv zeta.
  destruct (1 <? len (0 :: cumul (lines d) 0)) eqn:E.
  - apply removelast_cumul.
  - exfalso. rewrite len_cons in E. unfold len in E. rewrite length_cumul in E.
    destruct (lines d) as [|h tl] eqn:E2; [exact (split_on_nonempty _ _ E2)|].
    cbn [length] in E. apply Z.ltb_ge in E. lia.
Qed.

Lemma C02c_starts_length ls pos : length (starts ls pos) = length ls.
Proof.
  revert pos. induction ls as [|l r IH]; intros pos; [reflexivity|].
  cbn [starts length]. now rewrite IH.
Qed.

Lemma len_starts ls pos : len (starts ls pos) = len ls.
Proof. unfold len. now rewrite C02c_starts_length. Qed.

(* every entry lies between pos and (end of text - length of its line) *)
Lemma starts_nth_bound ls : forall pos n,
  (n < length ls)%nat ->
  pos <= nth n (starts ls pos) 0 /\
  nth n (starts ls pos) 0 + len (nth n ls []) <= pos + len (join [NL] ls).
Proof.
  induction ls as [|l r IH]; intros pos n Hn; cbn [length] in Hn; [lia|].
  pose proof (len_nonneg l) as Hl.
  destruct n as [|n]; cbn [starts nth].
  - split; [lia|]. destruct r as [|l2 r].
    + cbn [join]. lia.
    + rewrite len_join_cons_ne by discriminate.
      pose proof (len_nonneg (join [NL] (l2 :: r))). lia.
  - assert (Hr : r <> []) by (intros ->; cbn [length] in Hn; lia).
    rewrite len_join_cons_ne by exact Hr.
    destruct (IH (pos + len l + 1) n ltac:(lia)) as [I1 I2]. lia.
Qed.

Lemma C02c_starts_sorted : forall ls pos (a b : nat),
  (a < b < length ls)%nat -> nth a (starts ls pos) 0 < nth b (starts ls pos) 0.
Proof.
  induction ls as [|l r IH]; intros pos a b [Hab Hb]; cbn [length] in Hb; [lia|].
  destruct b as [|b]; [lia|].
  destruct a as [|a]; cbn [starts nth].
  - destruct (starts_nth_bound r (pos + len l + 1) b ltac:(lia)) as [I1 _].
    pose proof (len_nonneg l). lia.
  - apply IH. lia.
Qed.

(* ---------------------------------------------------------------------- *)
(* locate: the (row, col) of an index, by walking the lines *)

Fixpoint locate (ls : list str) (i : Z) : Z * Z :=
  match ls with
  | [] => (0, i)
  | l :: r =>
      if i <=? len l then (0, i)
      else (fst (locate r (i - len l - 1)) + 1, snd (locate r (i - len l - 1)))
  end.

Lemma locate_arith ls : ls <> [] -> forall i pos,
  0 <= i <= len (join [NL] ls) ->
  0 <= fst (locate ls i) < len ls /\
  0 <= snd (locate ls i) <= len (nth (Z.to_nat (fst (locate ls i))) ls []) /\
  snd (locate ls i) <= i /\
  nth (Z.to_nat (fst (locate ls i))) (starts ls pos) 0 = pos + i - snd (locate ls i) /\
  bisect_right (starts ls pos) (pos + i) = fst (locate ls i) + 1.
Proof.
  induction ls as [|l r IH]; intros Hne i pos Hi; [congruence|].
  cbn [locate]. pose proof (len_nonneg r) as Hr. pose proof (len_nonneg l) as Hl.
  destruct (i <=? len l) eqn:E.
  - cbn [fst snd]. change (Z.to_nat 0) with 0%nat. cbn [nth starts bisect_right].
    rewrite len_cons.
    destruct (pos + i <? pos) eqn:E2; [lia|].
    assert (Hb : bisect_right (starts r (pos + len l + 1)) (pos + i) = 0).
    { destruct r as [|l2 r']; cbn [starts bisect_right]; [reflexivity|].
      destruct (pos + i <? pos + len l + 1) eqn:E3; [reflexivity|lia]. }
    rewrite Hb. repeat split; lia.
  - assert (Hr' : r <> []) by (intros ->; cbn [join] in Hi; lia).
    rewrite len_join_cons_ne in Hi by exact Hr'.
    destruct (IH Hr' (i - len l - 1) (pos + len l + 1) ltac:(lia)) as (A1 & A2 & A3 & A4 & A5).
    cbn [fst snd].
    set (row := fst (locate r (i - len l - 1))) in *.
    set (col := snd (locate r (i - len l - 1))) in *.
    cbn [starts bisect_right]. rewrite !c02_nth_succ_Z by lia.
    replace (pos + len l + 1 + (i - len l - 1)) with (pos + i) in A5 by lia.
    rewrite len_cons.
    destruct (pos + i <? pos) eqn:E2; [lia|]. rewrite A5.
    repeat split; lia.
Qed.

Lemma locate_struct ls :
  ls <> [] -> (forall l, In l ls -> mem_Z NL l = false) ->
  forall i, 0 <= i <= len (join [NL] ls) ->
  exists pre post,
    join [NL] ls = pre ++ nth (Z.to_nat (fst (locate ls i))) ls [] ++ post /\
    len pre = i - snd (locate ls i) /\
    (pre = [] \/ exists p', pre = p' ++ [NL]) /\
    (post = [] \/ exists q, post = NL :: q) /\
    count_char NL pre = fst (locate ls i).
Proof.
  induction ls as [|l r IH]; intros Hne Hnl i Hi; [congruence|].
  cbn [locate]. destruct (i <=? len l) eqn:E.
  - cbn [fst snd]. change (Z.to_nat 0) with 0%nat. cbn [nth].
    exists []. destruct r as [|l2 r'].
    + exists []. cbn [join app]. rewrite app_nil_r.
      split; [reflexivity|]. split; [change (len (@nil Z)) with 0; lia|].
      split; [now left|]. split; [now left|reflexivity].
    + exists (NL :: join [NL] (l2 :: r')). rewrite join_cons2.
      split; [reflexivity|]. split; [change (len (@nil Z)) with 0; lia|].
      split; [now left|]. split; [right; eexists; reflexivity|reflexivity].
  - assert (Hr' : r <> []) by (intros ->; cbn [join] in Hi; lia).
    pose proof (len_nonneg l) as Hl.
    rewrite len_join_cons_ne in Hi by exact Hr'.
    assert (Hnl' : forall l', In l' r -> mem_Z NL l' = false)
      by (intros l' Hl'; apply Hnl; now right).
    destruct (IH Hr' Hnl' (i - len l - 1) ltac:(lia)) as (pre & post & B1 & B2 & B3 & B4 & B5).
    destruct (locate_arith r Hr' (i - len l - 1) 0 ltac:(lia)) as (A1 & _).
    cbn [fst snd].
    set (row := fst (locate r (i - len l - 1))) in *.
    set (col := snd (locate r (i - len l - 1))) in *.
    rewrite c02_nth_succ_Z by lia.
    exists (l ++ NL :: pre), post.
    split.
    { rewrite join_cons_ne by exact Hr'. rewrite B1, <- app_assoc. reflexivity. }
    split.
    { rewrite len_app, len_cons. lia. }
    split.
    { right. destruct B3 as [->|(p' & ->)].
      - exists l. reflexivity.
      - exists (l ++ NL :: p'). rewrite <- app_assoc. reflexivity. }
    split; [exact B4|].
    rewrite c02_count_char_app. cbn [count_char]. rewrite Z.eqb_refl.
    rewrite c02_count_char_none by (apply Hnl; now left). lia.
Qed.

(* locate inverts the line start table *)
Lemma locate_starts ls : forall pos (n : nat) col,
  (n < length ls)%nat -> 0 <= col <= len (nth n ls []) ->
  locate ls (nth n (starts ls pos) 0 - pos + col) = (Z.of_nat n, col).
Proof.
  induction ls as [|l r IH]; intros pos n col Hn Hc; cbn [length] in Hn; [lia|].
  destruct n as [|n]; cbn [starts nth locate] in *.
  - replace (pos - pos + col) with col by lia.
    destruct (col <=? len l) eqn:E; [reflexivity|lia].
  - assert (Hn' : (n < length r)%nat) by lia.
    destruct (starts_nth_bound r (pos + len l + 1) n Hn') as [I1 _].
    set (x := nth n (starts r (pos + len l + 1)) 0) in *.
    destruct (x - pos + col <=? len l) eqn:E; [lia|].
    replace (x - pos + col - len l - 1) with (x - (pos + len l + 1) + col) by lia.
    unfold x. rewrite IH by (try lia; exact Hc). cbn [fst snd]. f_equal. lia.
Qed.

(* ---------------------------------------------------------------------- *)
(* find_line_start_index / translate_index_to_position through locate *)

Lemma find_line_start_index_locate d i :
  0 <= i <= len (dtext d) ->
  find_line_start_index d i =
  (fst (locate (lines d) i), i - snd (locate (lines d) i)).
Proof.
  intros Hi. unfold find_line_start_index. cbv zeta. rewrite C02c_line_start_indexes.
  assert (Hne : lines d <> []) by apply split_on_nonempty.
  assert (Hj : join [NL] (lines d) = dtext d) by apply C02c_join_split.
  assert (Hi' : 0 <= i <= len (join [NL] (lines d))) by (rewrite Hj; exact Hi).
  destruct (locate_arith (lines d) Hne i 0 Hi') as (A1 & A2 & A3 & A4 & A5).
  rewrite Z.add_0_l in A4, A5. rewrite A5.
  replace (fst (locate (lines d) i) + 1 - 1) with (fst (locate (lines d) i)) by lia.
  rewrite (c02_index_nth _ _ 0) by (rewrite len_starts; exact A1).
  rewrite A4. reflexivity.
Qed.

Lemma translate_index_to_position_locate d i :
  0 <= i <= len (dtext d) ->
  translate_index_to_position d i =
  (fst (locate (lines d) i), snd (locate (lines d) i)).
Proof.
  intros Hi. unfold translate_index_to_position.
  rewrite find_line_start_index_locate by exact Hi. f_equal. lia.
Qed.

Lemma doc_struct d i :
  0 <= i <= len (dtext d) ->
  exists pre post,
    dtext d = pre ++ nth (Z.to_nat (fst (locate (lines d) i))) (lines d) [] ++ post /\
    len pre = i - snd (locate (lines d) i) /\
    (pre = [] \/ exists p', pre = p' ++ [NL]) /\
    (post = [] \/ exists q, post = NL :: q) /\
    count_char NL pre = fst (locate (lines d) i) /\
    mem_Z NL (nth (Z.to_nat (fst (locate (lines d) i))) (lines d) []) = false /\
    0 <= fst (locate (lines d) i) < line_count d /\
    0 <= snd (locate (lines d) i)
      <= len (nth (Z.to_nat (fst (locate (lines d) i))) (lines d) []) /\
    snd (locate (lines d) i) <= i.
Proof.
  intros Hi.
  assert (Hne : lines d <> []) by apply split_on_nonempty.
  assert (Hj : join [NL] (lines d) = dtext d) by apply C02c_join_split.
  assert (Hnl : forall l, In l (lines d) -> mem_Z NL l = false)
    by (intros l; apply C02c_lines_no_nl).
  assert (Hi' : 0 <= i <= len (join [NL] (lines d))) by (rewrite Hj; exact Hi).
  destruct (locate_struct _ Hne Hnl i Hi') as (pre & post & B1 & B2 & B3 & B4 & B5).
  destruct (locate_arith _ Hne i 0 Hi') as (A1 & A2 & A3 & _).
  exists pre, post. rewrite Hj in B1.
  split; [exact B1|]. split; [exact B2|]. split; [exact B3|]. split; [exact B4|].
  split; [exact B5|]. split.
  { apply Hnl, nth_In. unfold len in A1. lia. }
  split; [exact A1|]. split; [exact A2|exact A3].
Qed.

Lemma C02c_index_to_position_spec d i row col :
  0 <= i <= len (dtext d) ->
  translate_index_to_position d i = (row, col) ->
  row = count_char NL (firstn (Z.to_nat i) (dtext d)) /\
  0 <= col <= i /\
  mem_Z NL (firstn (Z.to_nat col) (skipn (Z.to_nat (i - col)) (dtext d))) = false /\
  (i - col = 0 \/ nth_error (dtext d) (Z.to_nat (i - col - 1)) = Some NL) /\
  0 <= row < line_count d /\
  col <= len (nth (Z.to_nat row) (lines d) []) /\
  firstn (Z.to_nat col) (nth (Z.to_nat row) (lines d) []) =
  firstn (Z.to_nat col) (skipn (Z.to_nat (i - col)) (dtext d)).
Proof.
  intros Hi Ht. rewrite translate_index_to_position_locate in Ht by exact Hi.
  injection Ht as Hrow Hcol.
  destruct (doc_struct d i Hi) as (pre & post & S1 & S2 & S3 & S4 & S5 & S6 & S7 & S8 & S9).
  rewrite Hrow, Hcol in *. clear Hrow Hcol.
  set (line := nth (Z.to_nat row) (lines d) []) in *.
  assert (Hn : Z.to_nat (i - col) = length pre) by (unfold len in S2; lia).
  assert (Hi2 : Z.to_nat i = (length pre + Z.to_nat col)%nat) by (unfold len in S2; lia).
  assert (Hcl : (Z.to_nat col <= length line)%nat) by (unfold len in S8; lia).
  assert (Hsk : firstn (Z.to_nat col) (skipn (Z.to_nat (i - col)) (dtext d)) =
                firstn (Z.to_nat col) line).
  { rewrite S1, (c02_skipn_app_len pre _ _ Hn). apply c02_firstn_app_le. exact Hcl. }
  split.
  { rewrite S1, Hi2, firstn_app_2, c02_count_char_app, S5.
    rewrite c02_firstn_app_le by exact Hcl.
    rewrite c02_count_char_none by (apply c02_mem_Z_firstn_false; exact S6). lia. }
  split; [lia|]. split.
  { rewrite Hsk. apply c02_mem_Z_firstn_false. exact S6. }
  split.
  { destruct S3 as [->|(p' & ->)].
    - left. change (len (@nil Z)) with 0 in S2. lia.
    - right. rewrite S1, <- app_assoc. apply c02_nth_error_app_mid.
      rewrite len_app, len_cons in S2. change (len (@nil Z)) with 0 in S2. unfold len in S2. lia. }
  split; [exact S7|]. split; [lia|]. symmetry. exact Hsk.
Qed.

(* ---------------------------------------------------------------------- *)
(* (row, col) -> index and the round trips *)

Lemma c02_clamp a b : 0 <= b -> 0 <= Z.max 0 (Z.min a b) <= b.
Proof. lia. Qed.

Lemma C02c_row_col_to_index_bounds d row col :
  0 <= translate_row_col_to_index d row col <= len (dtext d).
Proof.
  unfold translate_row_col_to_index. cbv zeta.
  match goal with |- context [let '(_, _) := ?m in _] => destruct m as [r0 line] end.
  apply c02_clamp, len_nonneg.
Qed.

Lemma c02_index_none {T} (s : list T) k : len s <= k -> index s k = None.
Proof.
  intros H. pose proof (len_nonneg s) as Hs. unfold index. cbv zeta.
  destruct (k <? 0) eqn:E; [lia|]. rewrite E. cbn [orb].
  destruct (len s <=? k) eqn:E2; [reflexivity|lia].
Qed.

Lemma c02_last_nth {T} (l : list T) d : last l d = nth (length l - 1) l d.
Proof.
  induction l as [|x l IH]; [reflexivity|].
  destruct l as [|y l]; [reflexivity|].
  change (last (x :: y :: l) d) with (last (y :: l) d). rewrite IH.
  cbn [length]. replace (S (S (length l)) - 1)%nat with (S (length l)) by lia.
  replace (S (length l) - 1)%nat with (length l) by lia. reflexivity.
Qed.

Lemma line_count_pos d : 1 <= line_count d.
Proof. rewrite C02c_line_count. pose proof (c02_count_char_nonneg NL (dtext d)). lia. Qed.

(* a row inside the document: only the column is clamped *)
Lemma C02c_row_col_to_index_row_valid d row col :
  0 <= row < line_count d ->
  translate_row_col_to_index d row col =
  nth (Z.to_nat row) (starts (lines d) 0) 0 +
  Z.max 0 (Z.min col (len (nth (Z.to_nat row) (lines d) []))).
Proof.
  intros Hr. unfold line_count in Hr.
  unfold translate_row_col_to_index. cbv zeta. rewrite C02c_line_start_indexes.
  rewrite (c02_index_nth (starts (lines d) 0) row 0) by (rewrite len_starts; exact Hr).
  rewrite (c02_index_nth (lines d) row []) by exact Hr.
  cbv beta iota.
  assert (Hn : (Z.to_nat row < length (lines d))%nat) by (unfold len in Hr; lia).
  destruct (starts_nth_bound (lines d) 0 (Z.to_nat row) Hn) as [I1 I2].
  rewrite join_lines in I2.
  set (s := nth (Z.to_nat row) (starts (lines d) 0) 0) in *.
  set (line := nth (Z.to_nat row) (lines d) []) in *.
  pose proof (len_nonneg line). lia.
Qed.

Lemma C02c_row_col_to_index_valid d row col :
  0 <= row < line_count d ->
  0 <= col <= len (nth (Z.to_nat row) (lines d) []) ->
  translate_row_col_to_index d row col = nth (Z.to_nat row) (starts (lines d) 0) 0 + col.
Proof.
  intros Hr Hc. rewrite C02c_row_col_to_index_row_valid by exact Hr. lia.
Qed.

(* rows beyond the last line read the last line; the column is clamped to the line *)
Lemma C02c_row_col_to_index_clamp d row col :
  0 <= row ->
  translate_row_col_to_index d row col =
  translate_row_col_to_index d (Z.min row (line_count d - 1))
    (Z.max 0 (Z.min col (len (nth (Z.to_nat (Z.min row (line_count d - 1))) (lines d) [])))).
Proof.
  intros H0. pose proof (line_count_pos d) as Hp.
  destruct (row <? line_count d) eqn:E.
  - replace (Z.min row (line_count d - 1)) with row by lia.
    rewrite !C02c_row_col_to_index_row_valid by lia.
    pose proof (len_nonneg (nth (Z.to_nat row) (lines d) [])). lia.
  - replace (Z.min row (line_count d - 1)) with (line_count d - 1) by lia.
    rewrite (C02c_row_col_to_index_row_valid d (line_count d - 1)) by lia.
    unfold translate_row_col_to_index at 1. cbv zeta. rewrite C02c_line_start_indexes.
    rewrite (c02_index_none (starts (lines d) 0) row)
      by (rewrite len_starts; unfold line_count in E; lia).
    destruct (row <? 0) eqn:E0; [lia|]. cbv beta iota.
    rewrite !c02_last_nth, C02c_starts_length.
    assert (Hk : (length (lines d) - 1)%nat = Z.to_nat (line_count d - 1))
      by (unfold line_count, len; lia).
    rewrite Hk.
    assert (Hn : (Z.to_nat (line_count d - 1) < length (lines d))%nat)
      by (unfold line_count, len in *; lia).
    destruct (starts_nth_bound (lines d) 0 (Z.to_nat (line_count d - 1)) Hn) as [I1 I2].
    rewrite join_lines in I2.
    set (s := nth (Z.to_nat (line_count d - 1)) (starts (lines d) 0) 0) in *.
    set (line := nth (Z.to_nat (line_count d - 1)) (lines d) []) in *.
    pose proof (len_nonneg line). lia.
Qed.

Lemma C02c_index_roundtrip d i :
  0 <= i <= len (dtext d) ->
  translate_row_col_to_index d (fst (translate_index_to_position d i))
                               (snd (translate_index_to_position d i)) = i.
Proof.
  intros Hi. rewrite translate_index_to_position_locate by exact Hi. cbn [fst snd].
  assert (Hne : lines d <> []) by apply split_on_nonempty.
  assert (Hj : join [NL] (lines d) = dtext d) by apply C02c_join_split.
  assert (Hi' : 0 <= i <= len (join [NL] (lines d))) by (rewrite Hj; exact Hi).
  destruct (locate_arith (lines d) Hne i 0 Hi') as (A1 & A2 & A3 & A4 & A5).
  rewrite C02c_row_col_to_index_valid by (unfold line_count; assumption).
  rewrite A4. lia.
Qed.

Lemma C02c_pos_roundtrip d row col :
  0 <= row < line_count d ->
  0 <= col <= len (nth (Z.to_nat row) (lines d) []) ->
  translate_index_to_position d (translate_row_col_to_index d row col) = (row, col).
Proof.
  intros Hr Hc. rewrite C02c_row_col_to_index_valid by assumption.
  unfold line_count in Hr.
  assert (Hn : (Z.to_nat row < length (lines d))%nat) by (unfold len in Hr; lia).
  destruct (starts_nth_bound (lines d) 0 (Z.to_nat row) Hn) as [I1 I2].
  rewrite join_lines in I2.
  pose proof (locate_starts (lines d) 0 (Z.to_nat row) col Hn Hc) as HL.
  rewrite Z.sub_0_r in HL.
  rewrite translate_index_to_position_locate by lia.
  rewrite HL. cbn [fst snd]. f_equal. lia.
Qed.

(* ---------------------------------------------------------------------- *)
(* Cursor row / col and the current line *)

Lemma cursor_struct d :
  valid d ->
  exists pre post line col,
    dtext d = pre ++ line ++ post /\
    dcur d = len pre + col /\ 0 <= col <= len line /\
    (pre = [] \/ exists p', pre = p' ++ [NL]) /\
    (post = [] \/ exists q, post = NL :: q) /\
    mem_Z NL line = false /\
    line = nth (Z.to_nat (cursor_position_row d)) (lines d) [] /\
    cursor_position_row d = count_char NL pre /\
    cursor_position_col d = col /\
    text_before_cursor d = pre ++ firstn (Z.to_nat col) line /\
    text_after_cursor d = skipn (Z.to_nat col) line ++ post /\
    current_line_before_cursor d = firstn (Z.to_nat col) line /\
    current_line_after_cursor d = skipn (Z.to_nat col) line.
Proof.
  intros Hv. pose proof Hv as Hv'. unfold valid in Hv'.
  destruct (doc_struct d (dcur d) Hv') as (pre & post & S1 & S2 & S3 & S4 & S5 & S6 & S7 & S8 & S9).
  pose proof (find_line_start_index_locate d (dcur d) Hv') as Hf.
  set (row := fst (locate (lines d) (dcur d))) in *.
  set (col := snd (locate (lines d) (dcur d))) in *.
  assert (Hrow : cursor_position_row d = row)
    by (unfold cursor_position_row; rewrite Hf; reflexivity).
  assert (Hcol : cursor_position_col d = col)
    by (unfold cursor_position_col; rewrite Hf; cbn [snd]; lia).
  rewrite <- Hrow in S1, S6, S8.
  set (line := nth (Z.to_nat (cursor_position_row d)) (lines d) []) in *.
  destruct (C02c_before_after_firstn_skipn d Hv) as (Tb & Ta & _).
  assert (Hn : Z.to_nat (dcur d) = (length pre + Z.to_nat col)%nat)
    by (unfold len in S2; lia).
  assert (Hcl : (Z.to_nat col <= length line)%nat) by (unfold len in S8; lia).
  assert (Tb' : text_before_cursor d = pre ++ firstn (Z.to_nat col) line).
  { rewrite Tb, Hn, S1, firstn_app_2. f_equal. apply c02_firstn_app_le. exact Hcl. }
  assert (Ta' : text_after_cursor d = skipn (Z.to_nat col) line ++ post).
  { rewrite Ta, Hn, S1, c02_skipn_app_plus. apply c02_skipn_app_le. exact Hcl. }
  exists pre, post, line, col.
  split; [exact S1|]. split; [lia|]. split; [exact S8|]. split; [exact S3|].
  split; [exact S4|]. split; [exact S6|]. split; [reflexivity|].
  split; [rewrite Hrow; symmetry; exact S5|]. split; [exact Hcol|].
  split; [exact Tb'|]. split; [exact Ta'|]. split.
  - unfold current_line_before_cursor. rewrite Tb'. apply c02_after_last_app.
    + apply c02_mem_Z_firstn_false. exact S6.
    + exact S3.
  - unfold current_line_after_cursor. rewrite Ta'. apply c02_before_first_app_sep.
    + apply c02_mem_Z_skipn_false. exact S6.
    + exact S4.
Qed.

Lemma C02c_cursor_row_col d :
  valid d ->
  cursor_position_row d = count_char NL (text_before_cursor d) /\
  cursor_position_col d = len (current_line_before_cursor d).
Proof.
  intros Hv.
  destruct (cursor_struct d Hv) as
    (pre & post & line & col & S1 & S2 & S3 & S4 & S5 & S6 & S7 & S8 & S9 & Tb & Ta & Cb & Ca).
  split.
  - rewrite Tb, c02_count_char_app, S8.
    rewrite (c02_count_char_none NL (firstn (Z.to_nat col) line)) by (apply c02_mem_Z_firstn_false; exact S6). lia.
  - rewrite Cb, S9, len_firstn. lia.
Qed.

Lemma C02c_current_line_nth d :
  valid d -> current_line d = nth (Z.to_nat (cursor_position_row d)) (lines d) [].
Proof.
  intros Hv.
  destruct (cursor_struct d Hv) as
    (pre & post & line & col & S1 & S2 & S3 & S4 & S5 & S6 & S7 & S8 & S9 & Tb & Ta & Cb & Ca).
  unfold current_line. rewrite Cb, Ca, firstn_skipn. exact S7.
Qed.

Lemma C02c_line_parts d :
  valid d ->
  mem_Z NL (current_line_before_cursor d) = false /\
  mem_Z NL (current_line_after_cursor d) = false /\
  (exists p, text_before_cursor d = p ++ current_line_before_cursor d /\
             (p = [] \/ exists p', p = p' ++ [NL])) /\
  (exists q, text_after_cursor d = current_line_after_cursor d ++ q /\
             (q = [] \/ exists q', q = NL :: q')).
Proof.
  intros Hv.
  destruct (cursor_struct d Hv) as
    (pre & post & line & col & S1 & S2 & S3 & S4 & S5 & S6 & S7 & S8 & S9 & Tb & Ta & Cb & Ca).
  rewrite Cb, Ca, Tb, Ta.
  split; [apply c02_mem_Z_firstn_false; exact S6|].
  split; [apply c02_mem_Z_skipn_false; exact S6|].
  split; [exists pre; split; [reflexivity|exact S4]|].
  exists post; split; [reflexivity|exact S5].
Qed.

Lemma C02c_col_le_cursor d : valid d -> 0 <= cursor_position_col d <= dcur d.
Proof.
  intros Hv.
  destruct (cursor_struct d Hv) as
    (pre & post & line & col & S1 & S2 & S3 & S4 & S5 & S6 & S7 & S8 & S9 & Tb & Ta & Cb & Ca).
  rewrite S9. pose proof (len_nonneg pre). lia.
Qed.

Lemma C02c_eol_le d :
  valid d -> 0 <= len (current_line_after_cursor d) <= len (dtext d) - dcur d.
Proof.
  intros Hv.
  destruct (cursor_struct d Hv) as
    (pre & post & line & col & S1 & S2 & S3 & S4 & S5 & S6 & S7 & S8 & S9 & Tb & Ta & Cb & Ca).
  rewrite Ca, S1, !len_app, len_skipn. pose proof (len_nonneg post). lia.
Qed.

Lemma C02c_current_line_len d :
  valid d ->
  len (current_line d) = len (current_line_before_cursor d) + len (current_line_after_cursor d).
Proof. intros _. unfold current_line. apply len_app. Qed.

(* the numbers every motion below needs *)
Lemma cursor_nums d :
  valid d ->
  cursor_position_col d = len (current_line_before_cursor d) /\
  0 <= len (current_line_before_cursor d) <= dcur d /\
  0 <= len (current_line_after_cursor d) <= len (dtext d) - dcur d.
Proof.
  intros Hv. destruct (C02c_cursor_row_col d Hv) as [_ Hc].
  pose proof (C02c_col_le_cursor d Hv) as H1. pose proof (C02c_eol_le d Hv) as H2.
  rewrite Hc in H1. auto.
Qed.

(* ---------------------------------------------------------------------- *)
(* The within-line motions *)

Lemma C02c_get_cursor_left_position_same_line d count :
  valid d ->
  - len (current_line_before_cursor d) <= get_cursor_left_position d count
    <= len (current_line_after_cursor d).
Proof.
  intros Hv. destruct (cursor_nums d Hv) as (Hc & Hb & Ha).
  unfold get_cursor_left_position. rewrite Hc.
  destruct (count <? 0) eqn:E; lia.
Qed.

Lemma C02c_get_cursor_left_position_in_bounds d count :
  valid d -> 0 <= dcur d + get_cursor_left_position d count <= len (dtext d).
Proof.
  intros Hv. destruct (cursor_nums d Hv) as (Hc & Hb & Ha).
  pose proof (C02c_get_cursor_left_position_same_line d count Hv). lia.
Qed.

Lemma C02c_get_cursor_right_position_same_line d count :
  valid d ->
  - len (current_line_before_cursor d) <= get_cursor_right_position d count
    <= len (current_line_after_cursor d).
Proof.
  intros Hv. destruct (cursor_nums d Hv) as (Hc & Hb & Ha).
  unfold get_cursor_right_position. rewrite Hc.
  destruct (count <? 0) eqn:E; lia.
Qed.

Lemma C02c_get_cursor_right_position_in_bounds d count :
  valid d -> 0 <= dcur d + get_cursor_right_position d count <= len (dtext d).
Proof.
  intros Hv. destruct (cursor_nums d Hv) as (Hc & Hb & Ha).
  pose proof (C02c_get_cursor_right_position_same_line d count Hv). lia.
Qed.

Lemma C02c_get_start_of_line_position_same_line d aw :
  valid d ->
  - len (current_line_before_cursor d) <= get_start_of_line_position d aw
    <= len (current_line_after_cursor d).
Proof.
  intros Hv. destruct (cursor_nums d Hv) as (Hc & Hb & Ha).
  unfold get_start_of_line_position. destruct aw.
  - cbv zeta. rewrite Hc.
    pose proof (c02_len_lstrip_by is_space (current_line d)) as Hs.
    rewrite (C02c_current_line_len d Hv) in *. lia.
  - lia.
Qed.

Lemma C02c_get_start_of_line_position_in_bounds d aw :
  valid d -> 0 <= dcur d + get_start_of_line_position d aw <= len (dtext d).
Proof.
  intros Hv. destruct (cursor_nums d Hv) as (Hc & Hb & Ha).
  pose proof (C02c_get_start_of_line_position_same_line d aw Hv). lia.
Qed.

Lemma C02c_get_end_of_line_position_same_line d :
  valid d ->
  - len (current_line_before_cursor d) <= get_end_of_line_position d
    <= len (current_line_after_cursor d).
Proof.
  intros Hv. destruct (cursor_nums d Hv) as (Hc & Hb & Ha).
  unfold get_end_of_line_position. lia.
Qed.

Lemma C02c_get_end_of_line_position_in_bounds d :
  valid d -> 0 <= dcur d + get_end_of_line_position d <= len (dtext d).
Proof.
  intros Hv. destruct (cursor_nums d Hv) as (Hc & Hb & Ha).
  pose proof (C02c_get_end_of_line_position_same_line d Hv). lia.
Qed.

Lemma C02c_start_of_line_lands d :
  valid d -> get_start_of_line_position d false = - len (current_line_before_cursor d).
Proof. intros _. reflexivity. Qed.

Lemma C02c_end_of_line_lands d :
  valid d ->
  dcur d + get_end_of_line_position d = len (dtext d) \/
  nth_error (dtext d) (Z.to_nat (dcur d + get_end_of_line_position d)) = Some NL.
Proof.
  intros Hv.
  destruct (cursor_struct d Hv) as
    (pre & post & line & col & S1 & S2 & S3 & S4 & S5 & S6 & S7 & S8 & S9 & Tb & Ta & Cb & Ca).
  unfold get_end_of_line_position. rewrite Ca, len_skipn.
  assert (He : dcur d + Z.max 0 (len line - Z.of_nat (Z.to_nat col)) = len pre + len line) by lia.
  rewrite He. destruct S5 as [->|(q & ->)].
  - left. rewrite S1, !len_app. change (len (@nil Z)) with 0. lia.
  - right. rewrite S1, app_assoc. apply c02_nth_error_app_mid.
    rewrite app_length. unfold len. lia.
Qed.

Lemma C02c_left_lands d count :
  valid d -> 0 <= count ->
  get_cursor_left_position d count = - Z.min (len (current_line_before_cursor d)) count.
Proof.
  intros Hv Hc0. destruct (cursor_nums d Hv) as (Hc & _).
  unfold get_cursor_left_position. rewrite Hc.
  destruct (count <? 0) eqn:E; [lia|reflexivity].
Qed.

Lemma C02c_right_lands d count :
  valid d -> 0 <= count ->
  get_cursor_right_position d count = Z.min count (len (current_line_after_cursor d)).
Proof.
  intros Hv Hc0. unfold get_cursor_right_position.
  destruct (count <? 0) eqn:E; [lia|reflexivity].
Qed.

(* Short names, matching the *_lands lemmas *)
Lemma C02c_left_in_bounds d count :
  valid d -> 0 <= dcur d + get_cursor_left_position d count <= len (dtext d).
Proof. exact (C02c_get_cursor_left_position_in_bounds d count). Qed.
Lemma C02c_left_same_line d count :
  valid d ->
  - len (current_line_before_cursor d) <= get_cursor_left_position d count
    <= len (current_line_after_cursor d).
Proof. exact (C02c_get_cursor_left_position_same_line d count). Qed.
Lemma C02c_right_in_bounds d count :
  valid d -> 0 <= dcur d + get_cursor_right_position d count <= len (dtext d).
Proof. exact (C02c_get_cursor_right_position_in_bounds d count). Qed.
Lemma C02c_right_same_line d count :
  valid d ->
  - len (current_line_before_cursor d) <= get_cursor_right_position d count
    <= len (current_line_after_cursor d).
Proof. exact (C02c_get_cursor_right_position_same_line d count). Qed.
Lemma C02c_start_of_line_in_bounds d aw :
  valid d -> 0 <= dcur d + get_start_of_line_position d aw <= len (dtext d).
Proof. exact (C02c_get_start_of_line_position_in_bounds d aw). Qed.
Lemma C02c_start_of_line_same_line d aw :
  valid d ->
  - len (current_line_before_cursor d) <= get_start_of_line_position d aw
    <= len (current_line_after_cursor d).
Proof. exact (C02c_get_start_of_line_position_same_line d aw). Qed.
Lemma C02c_end_of_line_in_bounds d :
  valid d -> 0 <= dcur d + get_end_of_line_position d <= len (dtext d).
Proof. exact (C02c_get_end_of_line_position_in_bounds d). Qed.
Lemma C02c_end_of_line_same_line d :
  valid d ->
  - len (current_line_before_cursor d) <= get_end_of_line_position d
    <= len (current_line_after_cursor d).
Proof. exact (C02c_get_end_of_line_position_same_line d). Qed.
