(* C03 - the shift loop without "break" (as /repo has it) and the loop with a
   break give the same parser, for every schedule (retry passes included).

   Why: a pass of the shift loop runs on a suffix s of w, where w is what was
   pending (a prefix of a longer match) plus, unless flushing, the new character.
   A second key press inside one pass needs a first match K = s[:i] of length
   i >= 2 with a non-empty remainder, hence K lies inside the old pending
   string q.  At offset 0 it cannot ([lp_slices_no_match]); at an offset >= 1
   it has to start with ESC (every table key of length >= 2 and both report
   patterns do), and a string that can still grow contains an inner ESC only in
   the X10 mouse form ESC [ M ESC b ([inner_match]).  There the remainder is the
   single new character, which is "\n" (anything else completes the mouse
   report), and "\n" is a key that is not a prefix of anything longer - the
   retry pass of the loop with a break emits exactly the same key press. *)
From Coq Require Import ZArith List Bool Lia.
From PTK Require Import Lib.Sx Lib.Py Lib.C03_Str Gen.C03_AnsiSequences Model.C03_Vt100Parser
  Model.C03_Break Proofs.C03_Table Proofs.C03_Process Proofs.C03_Feed Proofs.C03_Lossless Proofs.C03_Main Proofs.C03_Shift.
Import ListNotations.
Open Scope Z_scope.

(* ---------------------------------------------------------------------- *)
(* table facts, recomputed when the table changes *)

Definition table_long_esc_b : bool :=
  forallb (fun kv => match fst kv with a :: _ :: _ => a =? 27 | _ => true end) ansi_table.
Lemma table_long_esc : table_long_esc_b = true.
Proof. vm_compute. reflexivity. Qed.

(* no slice of length >= 2 that starts after the first and ends before the last
   character of a key has a match *)
Definition table_no_inner_b : bool :=
  forallb (fun kv =>
    forallb (fun o =>
      forallb (fun l => opt_none (get_match (firstn l (skipn o (fst kv)))))
              (seq 2 (length (fst kv) - 2 - o)))
      (seq 1 (length (fst kv)))) ansi_table.
Lemma table_no_inner : table_no_inner_b = true.
Proof. vm_compute. reflexivity. Qed.

Lemma nl_is_key : exists ks, get_match [10] = Some ks.
Proof. vm_compute. eexists. reflexivity. Qed.
Lemma nl_not_longer : is_prefix_longer [10] = false.
Proof. vm_compute. reflexivity. Qed.

Definition okc (x : Z) : bool := is_ds x || (x =? 60) || (x =? 91).
Lemma okc_esc : okc 27 = false.
Proof. vm_compute. reflexivity. Qed.

(* ---------------------------------------------------------------------- *)
(* list helpers *)

Lemma skipn_cons_In {T} n (l : list T) x u : skipn n l = x :: u -> In x l.
Proof.
  intros E. rewrite <- (firstn_skipn n l), E. apply in_or_app. right. now left.
Qed.

Lemma skipn_plus {T} a b (l : list T) : skipn a (skipn b l) = skipn (a + b) l.
Proof.
  revert l. induction b as [|b IH]; intros l.
  - now rewrite Nat.add_0_r.
  - destruct l as [|x l]; [now rewrite !skipn_nil|].
    rewrite Nat.add_succ_r. cbn [skipn]. apply IH.
Qed.

Lemma skipn_S_tl {T} o (w : list T) x tl : skipn o w = x :: tl -> skipn (S o) w = tl.
Proof.
  intros E. change (S o) with (1 + o)%nat. rewrite <- skipn_plus, E. reflexivity.
Qed.

Lemma sub_app {T} o l (q t : list T) :
  (o + l <= length q)%nat -> firstn l (skipn o (q ++ t)) = firstn l (skipn o q).
Proof.
  intros H. rewrite skipn_app. replace (o - length q)%nat with 0%nat by lia. cbn [skipn].
  rewrite firstn_app, skipn_length. replace (l - (length q - o))%nat with 0%nat by lia.
  cbn [firstn]. now rewrite app_nil_r.
Qed.

Lemma firstn_head {T} l (s : list T) x t : firstn l s = x :: t -> exists u, s = x :: u.
Proof.
  destruct l as [|l]; [discriminate|]. destruct s as [|y s]; [discriminate|].
  cbn [firstn]. intros E. injection E as -> _. now eexists.
Qed.

Lemma forallb_In_false {T} (P : T -> bool) l x : forallb P l = true -> In x l -> P x = false -> False.
Proof.
  intros H HIn Hx. rewrite (proj1 (forallb_forall _ _) H _ HIn) in Hx. discriminate.
Qed.

(* ---------------------------------------------------------------------- *)
(* a matching string of length >= 2 starts with ESC *)

Lemma gm_long_head K ks : get_match K = Some ks -> (2 <= length K)%nat -> exists t, K = 27 :: t.
Proof.
  unfold get_match. intros H L.
  destruct (cpr_re K) eqn:C.
  { unfold cpr_re in C. destruct (strip_csi K) as [r|] eqn:E; [|discriminate].
    apply strip_csi_some in E. subst. now eexists. }
  destruct (mouse_re K) eqn:M.
  { unfold mouse_re in M. destruct (strip_csi K) as [r|] eqn:E; [|discriminate].
    apply strip_csi_some in E. subst. now eexists. }
  apply lookup_In in H.
  pose proof (proj1 (forallb_forall _ _) table_long_esc _ H) as T. cbn [fst] in T.
  destruct K as [|a [|b K]]; cbn [length] in L; try lia.
  apply Z.eqb_eq in T. subst. now eexists.
Qed.

(* ---------------------------------------------------------------------- *)
(* a string that can still grow has an inner match only in the form ESC [ M ESC b *)

Lemma inner_match q o l ks :
  is_prefix_longer q = true -> (1 <= o)%nat -> (2 <= l)%nat -> (o + l <= length q)%nat ->
  get_match (firstn l (skipn o q)) = Some ks ->
  exists b, q = [27; 91; 77; 27; b] /\ o = 3%nat /\ l = 2%nat /\ b <> 10.
Proof.
  intros H Ho Hl Hlen Hm.
  assert (HK : (2 <= length (firstn l (skipn o q)))%nat).
  { rewrite firstn_length, skipn_length. lia. }
  destruct (gm_long_head _ _ Hm HK) as [t Ht].
  destruct (firstn_head _ _ _ _ Ht) as [u Hu].
  (* the character at offset o is ESC *)
  assert (Hall : forall r, q = 27 :: 91 :: r -> forallb okc (91 :: r) = true -> False).
  { intros r -> Hr. destruct o as [|o]; [lia|]. cbn [skipn] in Hu.
    apply skipn_cons_In in Hu. exact (forallb_In_false _ _ _ Hr Hu okc_esc). }
  unfold is_prefix_longer in H.
  destruct (cpr_prefix_re q) eqn:C.
  { exfalso. unfold cpr_prefix_re in C. destruct (strip_csi q) as [r|] eqn:E; [|discriminate].
    apply strip_csi_some in E. apply (Hall r E). cbn [forallb]. apply andb_true_iff. split; [reflexivity|].
    apply forallb_forall. intros x Hx. unfold okc.
    now rewrite (proj1 (forallb_forall _ _) C _ Hx). }
  destruct (mouse_prefix_re q) eqn:M.
  { unfold mouse_prefix_re in M. destruct (strip_csi q) as [r|] eqn:E; [|discriminate].
    apply strip_csi_some in E. apply orb_true_iff in M. destruct M as [M|M].
    - exfalso. apply (Hall r E). cbn [forallb]. apply andb_true_iff. split; [reflexivity|].
      unfold strip_lt in M. destruct r as [|c r']; [reflexivity|].
      destruct (c =? 60) eqn:Ec.
      + cbn [forallb]. apply andb_true_iff. split; [unfold okc; rewrite Ec; now rewrite orb_true_r|].
        apply forallb_forall. intros x Hx. unfold okc. now rewrite (proj1 (forallb_forall _ _) M _ Hx).
      + apply forallb_forall. intros x Hx. unfold okc. now rewrite (proj1 (forallb_forall _ _) M _ Hx).
    - destruct r as [|m t']; [discriminate|].
      apply andb_true_iff in M. destruct M as [M M3]. apply andb_true_iff in M. destruct M as [M1 M2].
      apply Z.eqb_eq in M1. apply Nat.leb_le in M2. subst m. subst q.
      cbn [length] in Hlen.
      destruct o as [|[|[|[|o]]]]; try lia; cbn [skipn] in Hu.
      + injection Hu as Hu _. discriminate.
      + injection Hu as Hu _. discriminate.
      + destruct t' as [|a [|b [|c t']]]; cbn [length] in *; try lia.
        injection Hu as -> _. exists b. repeat split; try lia.
        cbn [forallb] in M3. apply andb_true_iff in M3. destruct M3 as [_ M3].
        apply andb_true_iff in M3. destruct M3 as [M3 _]. unfold not_nl in M3.
        apply negb_true_iff in M3. now apply Z.eqb_neq in M3. }
  cbn [orb] in H. exfalso.
  unfold table_longer in H. apply existsb_exists in H. destruct H as [[k v] [HIn H]]. cbn [fst] in H.
  apply andb_true_iff in H. destruct H as [H1 H2]. apply negb_true_iff in H2. apply str_eqb_neq in H2.
  apply startswith_iff in H1. destruct H1 as [tt ->].
  assert (Htt : (1 <= length tt)%nat).
  { destruct tt; [rewrite app_nil_r in H2; congruence|cbn [length]; lia]. }
  pose proof (proj1 (forallb_forall _ _) table_no_inner _ HIn) as T. cbn [fst] in T.
  assert (Ho' : In o (seq 1 (length (q ++ tt)))).
  { apply in_seq. rewrite app_length. lia. }
  pose proof (proj1 (forallb_forall _ _) T _ Ho') as T1. cbv beta in T1.
  assert (Hl' : In l (seq 2 (length (q ++ tt) - 2 - o))).
  { apply in_seq. rewrite app_length. lia. }
  pose proof (proj1 (forallb_forall _ _) T1 _ Hl') as T2. cbv beta in T2.
  rewrite sub_app in T2 by exact Hlen. rewrite Hm in T2. discriminate.
Qed.

Lemma mouse_completes b c : b <> 10 -> c <> 10 -> get_match [27; 91; 77; 27; b; c] <> None.
Proof.
  intros Hb Hc. unfold get_match.
  destruct (cpr_re [27; 91; 77; 27; b; c]); [discriminate|].
  assert (M : mouse_re [27; 91; 77; 27; b; c] = true).
  { unfold mouse_re. cbn [strip_csi]. rewrite !Z.eqb_refl. cbn [andb]. apply orb_true_iff. right.
    rewrite Z.eqb_refl. unfold not_nl. apply Z.eqb_neq in Hb, Hc. rewrite Hb, Hc. reflexivity. }
  rewrite M. discriminate.
Qed.

(* ---------------------------------------------------------------------- *)
(* what a pass of the shift loop runs on *)

(* [w] is the string the activation started with: flushing, the pending prefix;
   otherwise the pending prefix plus the new character *)
Definition Wd (fl : bool) (w : str) : Prop :=
  if fl then is_prefix_longer w = true
  else exists q c, w = q ++ [c] /\ (q = [] \/ is_prefix_longer q = true).

Lemma second_match fl w o i ks :
  Wd fl w -> get_match w = None ->
  (1 <= i <= length (skipn o w))%nat ->
  get_match (firstn i (skipn o w)) = Some ks ->
  (forall j, (1 <= j <= i - 1)%nat -> get_match (firstn j (skipn i (skipn o w))) = None)
  \/ (fl = false /\ i = 2%nat /\ skipn i (skipn o w) = [10] /\ length (skipn o w) = 3%nat).
Proof.
  intros HW Hw Hi Hm. rewrite skipn_length in Hi.
  destruct (Nat.eq_dec (o + i) (length w)) as [Hend|Hend].
  { left. intros j _. rewrite skipn_plus, skipn_all2 by lia. rewrite firstn_nil. apply get_match_nil. }
  destruct (Nat.eq_dec i 1) as [->|Hi1]; [left; intros j Hj; lia|].
  destruct fl; cbn [Wd] in HW.
  - exfalso. destruct o as [|o].
    + cbn [skipn] in Hm. rewrite (lp_slices_no_match w i HW) in Hm by lia. discriminate.
    + destruct (inner_match w (S o) i ks HW) as (b & -> & Eo & Ei & _); try lia; auto.
      cbn [length] in Hend. lia.
  - destruct HW as (q & c & -> & Hq). rewrite app_length in Hi, Hend. cbn [length] in Hi, Hend.
    rewrite sub_app in Hm by lia.
    destruct Hq as [->|Hq]; [cbn [length] in *; lia|].
    destruct o as [|o].
    + exfalso. cbn [skipn] in Hm. rewrite (lp_slices_no_match q i Hq) in Hm by lia. discriminate.
    + destruct (inner_match q (S o) i ks Hq) as (b & -> & Eo & Ei & Hb); try lia; auto.
      rewrite Eo, Ei. cbn [app skipn length].
      destruct (Z.eq_dec c 10) as [->|Hc]; [right; auto|].
      exfalso. cbn [app] in Hw. exact (mouse_completes b c Hb Hc Hw).
Qed.

(* ---------------------------------------------------------------------- *)
(* the two loops *)

Lemma match_loop_brk_none i st :
  (forall j, (1 <= j <= i)%nat -> get_match (firstn j (prefix st)) = None) ->
  match_loop_brk i st = (st, false).
Proof.
  induction i as [|i IH]; intros H; [reflexivity|].
  cbn [match_loop_brk]. rewrite (H (S i)) by lia. apply IH. intros j Hj. apply H. lia.
Qed.

Lemma match_loop_brk_longest n i st ks :
  (1 <= i <= n)%nat ->
  (forall j, (i < j <= n)%nat -> get_match (firstn j (prefix st)) = None) ->
  get_match (firstn i (prefix st)) = Some ks ->
  match_loop_brk n st =
  (set_prefix (skipn i (prefix st)) (call_handler ks (firstn i (prefix st)) st), true).
Proof.
  induction n as [|n IH]; intros Hi Hnone Hm; [lia|].
  destruct (Nat.eq_dec i (S n)) as [->|Hneq].
  - cbn [match_loop_brk]. now rewrite Hm.
  - cbn [match_loop_brk]. rewrite (Hnone (S n)) by lia. apply IH; try lia; auto. intros j Hj. apply Hnone. lia.
Qed.

Lemma longest_dec n (s : str) :
  (forall j, (1 <= j <= n)%nat -> get_match (firstn j s) = None) \/
  (exists i ks, (1 <= i <= n)%nat /\ get_match (firstn i s) = Some ks /\
                forall j, (i < j <= n)%nat -> get_match (firstn j s) = None).
Proof.
  induction n as [|n IH]; [left; intros j Hj; lia|].
  destruct (get_match (firstn (S n) s)) as [ks|] eqn:E.
  - right. exists (S n), ks. repeat split; try lia; auto.
  - destruct IH as [IH|(i & ks & Hi & Hm & Hl)].
    + left. intros j Hj. destruct (Nat.eq_dec j (S n)) as [->|N]; [exact E|apply IH; lia].
    + right. exists i, ks. repeat split; try lia; auto. intros j Hj.
      destruct (Nat.eq_dec j (S n)) as [->|N]; [exact E|apply Hl; lia].
Qed.

Lemma process_nil f fl st : prefix st = [] -> process f fl st = st.
Proof. intros E. destruct f; cbn [process]; now rewrite E. Qed.

Lemma call_handler_prefix ks d st : prefix (call_handler ks d st) = prefix st.
Proof. apply call_handler_frame. Qed.

(* ---------------------------------------------------------------------- *)
(* one activation of the coroutine *)

Lemma process_brk_eq f : forall fl st w o,
  Wd fl w -> prefix st = skipn o w -> (o = 0%nat \/ get_match w = None) ->
  (length (prefix st) <= f)%nat ->
  process_brk f fl st = process f fl st.
Proof.
  induction f as [|f IH]; intros fl st w o HW Hp Ho Hlen.
  - destruct (prefix st) eqn:E; [|cbn [length] in Hlen; lia].
    cbn [process process_brk]. now rewrite E.
  - cbn [process process_brk]. destruct (prefix st) as [|x tl] eqn:E; [reflexivity|].
    destruct (fl || negb (is_prefix_longer (x :: tl))); [|reflexivity].
    destruct (get_match (x :: tl)) as [ks0|] eqn:Hm0; [reflexivity|].
    assert (Hw : get_match w = None).
    { destruct Ho as [->|Ho]; [|exact Ho]. cbn [skipn] in Hp. now rewrite <- Hp. }
    destruct (longest_dec (length (prefix st)) (prefix st)) as [Hnone|(i & ks & Hi & Hmi & Hlong)].
    + (* no slice matches: both emit the first character *)
      unfold no_match_step, no_match_step_brk.
      rewrite (match_loop_none _ st false Hnone), (match_loop_brk_none _ st Hnone). rewrite E.
      apply (IH fl _ w (S o) HW).
      * cbn [set_prefix prefix]. symmetry. apply (skipn_S_tl o w x). now rewrite <- Hp.
      * now right.
      * cbn [set_prefix prefix]. cbn [length] in Hlen. lia.
    + set (st1 := set_prefix (skipn i (prefix st)) (call_handler ks (firstn i (prefix st)) st)).
      assert (P1 : prefix st1 = skipn i (prefix st)) by reflexivity.
      assert (B : no_match_step_brk st = st1).
      { unfold no_match_step_brk. now rewrite (match_loop_brk_longest _ i st ks Hi Hlong Hmi). }
      assert (A : no_match_step st = fst (match_loop (i - 1) st1 true)).
      { unfold no_match_step.
        rewrite (match_loop_longest (length (prefix st)) i st ks) by (try lia; auto).
        fold st1. pose proof (match_loop_found_true (i - 1) st1) as F.
        destruct (match_loop (i - 1) st1 true) as [s2 fnd]. cbn [snd] in F. subst fnd. reflexivity. }
      rewrite A, B.
      pose proof (second_match fl w o i ks HW Hw) as SM. rewrite <- Hp, <- E in SM.
      destruct (SM Hi Hmi) as [Hnone2|(Hfl & Hi2 & Hr & Hlen3)].
      * (* no second key press in this pass *)
        rewrite (match_loop_none (i - 1) st1 true) by (rewrite P1; exact Hnone2). cbn [fst].
        apply (IH fl st1 w (i + o)%nat HW).
        -- rewrite P1, E, Hp. apply skipn_plus.
        -- now right.
        -- rewrite P1, skipn_length. rewrite E in Hi |- *. lia.
      * (* ESC [ M ESC b "\n": the second key press is "\n" in both *)
        subst fl i. destruct nl_is_key as [ksn Hn].
        assert (M1 : match_loop (2 - 1) st1 true = (set_prefix [] (call_handler ksn [10] st1), true)).
        { change (2 - 1)%nat with 1%nat. cbn [match_loop]. rewrite P1, Hr. cbn [firstn skipn]. now rewrite Hn. }
        rewrite M1. cbn [fst]. rewrite process_nil by reflexivity.
        rewrite E in Hlen3. destruct f as [|f]; [lia|]. cbn [process_brk]. rewrite P1, Hr.
        rewrite nl_not_longer. cbn [orb negb]. now rewrite Hn.
Qed.

Lemma send_char_brk_eq c st :
  (prefix st = [] \/ is_prefix_longer (prefix st) = true) -> send_char_brk c st = send_char c st.
Proof.
  intros H. unfold send_char_brk, send_char.
  apply (process_brk_eq _ false _ (prefix st ++ [c]) 0%nat).
  - cbn [Wd]. now exists (prefix st), c.
  - reflexivity.
  - now left.
  - cbn [set_prefix prefix]. rewrite app_length. cbn [length]. lia.
Qed.

Lemma flush_brk_eq st :
  (prefix st = [] \/ is_prefix_longer (prefix st) = true) -> flush_brk st = flush st.
Proof.
  intros [E|H]; unfold flush_brk, flush.
  - rewrite E. cbn [length process process_brk]. now rewrite E.
  - apply (process_brk_eq _ true _ (prefix st) 0%nat); auto.
Qed.

Lemma break_equiv_activation st c :
  (prefix st = [] \/ is_prefix_longer (prefix st) = true) ->
  send_char_brk c st = send_char c st /\ flush_brk st = flush st.
Proof. intros H. split; [now apply send_char_brk_eq|now apply flush_brk_eq]. Qed.

(* ---------------------------------------------------------------------- *)
(* feed() and schedules *)

Lemma Reach_paste_step st st' :
  Reach st -> in_paste st = true -> prefix st' = prefix st -> Reach st'.
Proof.
  intros [H1 H2] Hin Hp. pose proof (H2 Hin) as E. split; rewrite Hp; [now left|auto].
Qed.

Lemma feed_fuel_brk_eq fuel : forall d st, Reach st -> feed_fuel_brk fuel d st = feed_fuel fuel d st.
Proof.
  induction fuel as [|f IH]; intros d st HR; [reflexivity|].
  cbn [feed_fuel feed_fuel_brk]. destruct (in_paste st) eqn:Hin.
  - destruct (cut end_mark (paste_buf st ++ d)) as [[content remaining]|]; [|reflexivity].
    apply IH. apply (Reach_paste_step st); auto.
  - clear Hin. revert st HR. induction d as [|c r IHd]; intros st HR; [reflexivity|].
    cbn [feed_chars feed_chars_brk]. destruct (in_paste st) eqn:Hin.
    + now apply IH.
    + rewrite send_char_brk_eq by apply HR. apply IHd.
      now apply (send_char_lossless c st HR Hin).
Qed.

Lemma feed_brk_eq d st : Reach st -> feed_brk d st = feed d st.
Proof. intros HR. unfold feed_brk, feed. now apply feed_fuel_brk_eq. Qed.

Lemma run_ops_brk_eq ops : forall st, Reach st -> Inv0 st -> run_ops_brk ops st = run_ops ops st.
Proof.
  unfold run_ops_brk, run_ops. induction ops as [|o ops IH]; intros st HR HI; [reflexivity|].
  cbn [fold_left]. destruct o as [d|]; cbn [apply_op apply_op_brk].
  - rewrite feed_brk_eq by exact HR. apply IH.
    + apply (run_ops_lossless [Feed d] st HR HI).
    + now apply Inv0_feed.
  - rewrite flush_brk_eq by apply HR. apply IH.
    + now apply flush_lossless.
    + now apply Inv0_flush.
Qed.

Lemma shift_break_equiv ops : run_ops_brk ops init = run_ops ops init.
Proof. apply run_ops_brk_eq; [apply Reach_init|apply Inv0_init]. Qed.

(* the hypothesis on the pending string is needed: with "ESC \t" pending (a key
   that is not a prefix of a longer one, so no schedule leaves it pending) and a
   new ESC, /repo's loop emits BackTab-Escape and then Escape in the same pass,
   the loop with a break keeps the ESC waiting *)
Lemma shift_break_needs_reach :
  send_char_brk 27 (set_prefix [27; 9] init) <> send_char 27 (set_prefix [27; 9] init).
Proof. intros H. vm_compute in H. discriminate. Qed.
