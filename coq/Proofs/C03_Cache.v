(* C03 - (a) the process-wide memo table answers what a recomputation answers,
   after any query history, and the coroutine with the table threaded through
   is the table-free model; (b) PosixStdinReader.read(): conservation and EOF. *)
From Coq Require Import ZArith List Bool Lia.
From PTK Require Import Lib.Sx Lib.Py Lib.C03_Str Gen.C03_AnsiSequences Model.C03_Vt100Parser
  Model.C03_Vt100Input Model.C03_Cache Proofs.C03_Input.
Import ListNotations.
Open Scope Z_scope.

(* ---------------------------------------------------------------------- *)
(* (a) *)

Definition Coherent (c : cache) : Prop :=
  forall p b, cache_get p c = Some b -> b = is_prefix_longer p.

Lemma coherent_nil : Coherent [].
Proof. intros p b H. discriminate H. Qed.

Lemma cache_query_correct p c :
  Coherent c ->
  fst (cache_query p c) = is_prefix_longer p /\ Coherent (snd (cache_query p c)).
Proof.
  intros HC. unfold cache_query. destruct (cache_get p c) as [b|] eqn:E; cbn [fst snd].
  - split; [now apply HC|exact HC].
  - split; [reflexivity|]. intros p' b' H. cbn [cache_get] in H.
    destruct (str_eqb p p') eqn:Ep.
    + apply str_eqb_eq in Ep. subst. now injection H as <-.
    + now apply HC.
Qed.

(* any history of queries, starting from the empty table of a fresh process *)
Definition query_all (ps : list str) (c : cache) : cache :=
  fold_left (fun c p => snd (cache_query p c)) ps c.

Lemma query_all_coherent ps : forall c, Coherent c -> Coherent (query_all ps c).
Proof.
  unfold query_all. induction ps as [|p ps IH]; intros c H; [exact H|].
  cbn [fold_left]. apply IH. now apply cache_query_correct.
Qed.

Lemma cached_is_recomputed history p :
  fst (cache_query p (query_all history [])) = is_prefix_longer p.
Proof. apply cache_query_correct. apply query_all_coherent. exact coherent_nil. Qed.

(* the coroutine with the table = the coroutine of the model, and coherence is kept *)
Lemma process_c_correct fuel : forall fl st c,
  Coherent c ->
  fst (process_c fuel fl st c) = process fuel fl st /\ Coherent (snd (process_c fuel fl st c)).
Proof.
  induction fuel as [|f IH]; intros fl st c HC.
  - unfold process_c, process. destruct (prefix st); split; auto.
  - cbn [process_c process]. destruct (prefix st) as [|x tl] eqn:E; [split; auto|].
    destruct (cache_query_correct (x :: tl) c HC) as [Q1 Q2]. rewrite Q1.
    destruct (fl || negb (is_prefix_longer (x :: tl))); [|split; auto].
    destruct (get_match (x :: tl)); [split; auto|]. now apply IH.
Qed.

Lemma send_char_c_correct ch st c :
  Coherent c -> fst (send_char_c ch st c) = send_char ch st /\ Coherent (snd (send_char_c ch st c)).
Proof. intros H. unfold send_char_c, send_char. now apply process_c_correct. Qed.
Lemma flush_c_correct st c :
  Coherent c -> fst (flush_c st c) = flush st /\ Coherent (snd (flush_c st c)).
Proof. intros H. unfold flush_c, flush. now apply process_c_correct. Qed.

(* coherence is a real obligation: with a wrong entry the coroutine differs
   (an ESC is delivered at once instead of waiting for what follows) *)
Lemma poisoned_cache_differs :
  fst (send_char_c 27 init [([27], false)]) <> send_char 27 init.
Proof. vm_compute. discriminate. Qed.

(* ---------------------------------------------------------------------- *)
(* (b) *)

Definition Stable (pend : list Z) : Prop := dec pend = mkd [] pend false.

Lemma reader_closed_absorbing s r st :
  rclosed st = true -> reader_read s r st = (st, [], []).
Proof. intros H. unfold reader_read. now rewrite H. Qed.

Lemma reader_read_spec s r st :
  Stable (rpend st) ->
  let x := reader_read s r st in
  snd (fst x) = dout (dec (rpend st ++ snd x)) /\
  rpend (fst (fst x)) = dpend (dec (rpend st ++ snd x)) /\
  Stable (rpend (fst (fst x))).
Proof.
  intros HS. cbv zeta. unfold reader_read.
  assert (N : dout (dec (rpend st ++ [])) = [] /\ dpend (dec (rpend st ++ [])) = rpend st).
  { rewrite app_nil_r, HS. split; reflexivity. }
  destruct N as [N1 N2].
  destruct (rclosed st); cbn [fst snd]; [rewrite N1, N2; auto|].
  destruct s; cbn [fst snd]; try (rewrite N1, N2; now auto);
    destruct r as [[|b0 b]|]; cbn [fst snd rpend]; try (rewrite N1, N2; now auto);
    repeat split; try reflexivity; unfold Stable; apply dec_pend.
Qed.

(* No byte is lost or duplicated: over any sequence of calls (not ready, data,
   end of file, errors, calls after closing), the text handed out is the decoding
   of exactly the bytes taken from the descriptor, in order, and what is left
   undecoded is the tail of that decoding. *)
Lemma reader_run_conservation calls : forall st,
  Stable (rpend st) ->
  let x := reader_run calls st in
  snd (fst x) = dout (dec (rpend st ++ snd x)) /\
  rpend (fst (fst x)) = dpend (dec (rpend st ++ snd x)) /\
  Stable (rpend (fst (fst x))).
Proof.
  induction calls as [|[s r] calls IH]; intros st HS; cbv zeta.
  - cbn [reader_run fst snd]. rewrite app_nil_r, HS. repeat split; auto.
  - cbn [reader_run]. pose proof (reader_read_spec s r st HS) as R. cbv zeta in R.
    destruct (reader_read s r st) as [[st1 t1] b1]. cbn [fst snd] in R. destruct R as (R1 & R2 & R3).
    pose proof (IH st1 R3) as I. cbv zeta in I.
    destruct (reader_run calls st1) as [[st2 t2] b2]. cbn [fst snd] in *. destruct I as (I1 & I2 & I3).
    rewrite app_assoc, dec_app. cbn [dcombine dout dpend]. rewrite <- R2, <- R1, <- I1, <- I2. auto.
Qed.

(* after end of file the reader is closed: every later call returns "" and takes nothing *)
Lemma reader_eof_closes s st :
  rclosed st = false -> s <> SelNotReady ->
  rclosed (fst (fst (reader_read s (RdData []) st))) = true /\
  snd (fst (reader_read s (RdData []) st)) = [] /\ snd (reader_read s (RdData []) st) = [].
Proof. intros H Hs. unfold reader_read. rewrite H. destruct s; [| congruence |]; repeat split. Qed.

Lemma reader_run_closed calls : forall st,
  rclosed st = true -> reader_run calls st = (st, [], []).
Proof.
  induction calls as [|[s r] calls IH]; intros st H; [reflexivity|].
  cbn [reader_run]. rewrite reader_closed_absorbing by exact H. now rewrite IH.
Qed.
