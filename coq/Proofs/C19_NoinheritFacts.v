(* C19 - _parse_style_str: the word "noinherit" may stand at ANY position of
   the rule string: the result is the remaining words applied, left to right,
   to DEFAULT_ATTRS (instead of the all-None _EMPTY_ATTRS). *)
From Coq Require Import ZArith List Bool Lia.
From PTK Require Import Lib.Py Lib.C19_Str Gen.Whitespace Gen.C19_Palette Model.C19_Style
     Proofs.C19_StrFacts.
Import ListNotations.
Open Scope Z_scope.

Lemma startswith_app : forall p r, startswith (p ++ r) p = true.
Proof. induction p as [|x p IH]; intros r; [destruct r; reflexivity|]. cbn. rewrite Z.eqb_refl, IH. reflexivity. Qed.

Lemma find_sub_from_found : forall sub a b i, 0 <= i -> 0 <= find_sub_from sub (a ++ sub ++ b) i.
Proof.
  intros sub a. induction a as [|x a IH]; intros b i Hi.
  - cbn [app]. destruct (sub ++ b) eqn:E; cbn [find_sub_from]; rewrite <- E, startswith_app; exact Hi.
  - cbn [app find_sub_from]. destruct (startswith (x :: a ++ sub ++ b) sub); [exact Hi|]. apply IH. lia.
Qed.

Lemma contains_app : forall sub a b, contains sub (a ++ sub ++ b) = true.
Proof. intros. unfold contains, find_sub. apply Z.leb_le. apply find_sub_from_found. lia. Qed.

Lemma join_mid : forall sep ws1 w ws2, exists a b, join sep (ws1 ++ w :: ws2) = a ++ w ++ b.
Proof.
  intros sep ws1. induction ws1 as [|x r IH]; intros w ws2.
  - exists []. cbn [app]. destruct ws2 as [|y ws2']; [exists []; cbn; rewrite app_nil_r; reflexivity|].
    eexists. cbn [join]. reflexivity.
  - destruct (IH w ws2) as (a & b & E). cbn [app].
    assert (J : join sep (x :: r ++ w :: ws2) = x ++ sep ++ join sep (r ++ w :: ws2)).
    { destruct (r ++ w :: ws2) eqn:E2; [destruct r; discriminate | reflexivity]. }
    rewrite J, E. exists (x ++ sep ++ a), b. rewrite <- !app_assoc. reflexivity.
Qed.

Lemma apply_parts_app : forall l1 l2 a,
  apply_parts (l1 ++ l2) a = match apply_parts l1 a with Some a' => apply_parts l2 a' | None => None end.
Proof.
  induction l1 as [|p r IH]; intros l2 a; [reflexivity|].
  cbn [app apply_parts]. destruct (apply_part p a); [apply IH | reflexivity].
Qed.

Lemma apply_noinherit : forall a, apply_part s_noinherit a = Some a.
Proof.
  intros a. assert (E : str_eqb s_noinherit s_noinherit = true) by (vm_compute; reflexivity).
  unfold apply_part. rewrite E. reflexivity.
Qed.

Lemma noinherit_word_ok : word_ok s_noinherit = true.
Proof. vm_compute. reflexivity. Qed.

Lemma parse_with_default : forall s ws, split_ws s = ws -> contains s_noinherit s = true ->
  parse_style_str s = apply_parts ws DEFAULT_ATTRS.
Proof. intros s ws Hs Hc. unfold parse_style_str. rewrite Hs, Hc. reflexivity. Qed.

Theorem noinherit_any_position : forall ws1 ws2,
  forallb word_ok ws1 = true -> forallb word_ok ws2 = true ->
  parse_style_str (join [32] (ws1 ++ s_noinherit :: ws2)) = apply_parts (ws1 ++ ws2) DEFAULT_ATTRS.
Proof.
  intros ws1 ws2 H1 H2.
  destruct (join_mid [32] ws1 s_noinherit ws2) as (a & b & E).
  rewrite (parse_with_default _ (ws1 ++ s_noinherit :: ws2)).
  - rewrite !apply_parts_app. destruct (apply_parts ws1 DEFAULT_ATTRS) as [a1|]; [|reflexivity].
    cbn [apply_parts]. rewrite apply_noinherit. reflexivity.
  - apply split_ws_join. rewrite forallb_app, H1. cbn [forallb]. rewrite noinherit_word_ok, H2. reflexivity.
  - exact (eq_trans (f_equal (contains s_noinherit) E) (contains_app s_noinherit a b)).
Qed.

(* hence the position of the word does not matter *)
Corollary noinherit_position_independent : forall ws1 ws2 ws1' ws2',
  forallb word_ok ws1 = true -> forallb word_ok ws2 = true ->
  forallb word_ok ws1' = true -> forallb word_ok ws2' = true ->
  ws1 ++ ws2 = ws1' ++ ws2' ->
  parse_style_str (join [32] (ws1 ++ s_noinherit :: ws2)) =
  parse_style_str (join [32] (ws1' ++ s_noinherit :: ws2')).
Proof.
  intros. rewrite !noinherit_any_position by assumption. congruence.
Qed.

(* non-vacuity / example: "bold noinherit" = "noinherit bold" = DEFAULT_ATTRS with bold *)
Example noinherit_example :
  parse_style_str (join [32] ([s_bold] ++ s_noinherit :: [])) = Some (set_bold (Some true) DEFAULT_ATTRS) /\
  parse_style_str (join [32] ([] ++ s_noinherit :: [s_bold])) = Some (set_bold (Some true) DEFAULT_ATTRS).
Proof. split; vm_compute; reflexivity. Qed.
