(* C05: statements that combine the dispatch table (L3) with the handler
   models (L4), and the lift of the step invariant to key sequences. *)
From Coq Require Import ZArith List Bool Lia.
From PTK Require Import Lib.Sx Lib.Py Lib.C05_Filter Gen.C05_Bindings Model.Document
  Model.C05_Dispatch Model.C05_Editor Proofs.C05_EditorFacts Proofs.C05_EscapeFacts.
Import ListNotations.
Open Scope Z_scope.

(* the handler model that stands for a row of the regenerated table *)
Definition model_of_table_handler (h : Z) : option handler :=
  if h =? h_back_to_navigation then Some HBackToNavigation
  else if h =? h_accept_search then Some HAcceptSearchVi
  else None.

Lemma escape_full : forall (v : Z -> bool) (flush : bool) (s : est) (arg : Z) (data : str),
  v a_vi_mode = true -> v a_emacs_mode = false -> v a_buffer_has_focus = true ->
  v a_in_quoted_insert = false ->
  exists idx th h s',
    match_step bindings v [K_Escape] flush = Call idx 1 /\
    handler_at idx = Some th /\ model_of_table_handler th = Some h /\
    call_handler h s arg data = EOk s' /\ nav_clean s'.
Proof.
  intros v flush s arg data H1 H2 H3 H4.
  pose proof (escape_dispatch v flush H1 H2 H3 H4) as E.
  destruct (match_step bindings v [K_Escape] flush) as [idx n| |] eqn:Ems; cbn [escape_ok] in E; try discriminate.
  apply andb_true_iff in E as [E Eh]. apply andb_true_iff in E as [En _]. apply Z.eqb_eq in En. subst n.
  destruct (handler_at idx) as [th|] eqn:Eha; [|discriminate].
  assert (Hm : exists h, model_of_table_handler th = Some h /\ (h = HBackToNavigation \/ h = HAcceptSearchVi)).
  { unfold model_of_table_handler. apply orb_true_iff in Eh as [Eh|Eh]; rewrite ?Eh.
    - eexists; split; [reflexivity|now left].
    - destruct (th =? h_back_to_navigation); eexists; (split; [reflexivity|tauto]). }
  destruct Hm as (h & Hm & Hh).
  destruct (escape_handlers_nav h s arg data Hh) as (s' & Hc & Hn).
  exists idx, th, h, s'. split; [reflexivity|]. split; [exact Eha|]. split; [exact Hm|]. split; [exact Hc|exact Hn].
Qed.

(* key sequences that dispatch modelled handlers: the session continues from
   the state an escaped exception left *)
Definition hstep (s : est) (k : handler * Z * str) : est :=
  let '(h, arg, data) := k in eres_st (call_handler h s arg data).
Definition hsteps (s : est) (ks : list (handler * Z * str)) : est := fold_left hstep ks s.

Lemma hsteps_inv ks : forall s, EInv s -> EInv (hsteps s ks).
Proof.
  induction ks as [|[[h a] d] ks IH]; intros s H; cbn [hsteps fold_left]; [exact H|].
  apply IH. cbn [hstep]. now apply call_handler_inv.
Qed.
