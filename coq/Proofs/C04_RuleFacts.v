(* C04 - the dispatch rule as a declarative specification, and the proof that
   the processor model refines it. *)
From Coq Require Import ZArith List Bool Lia Arith.PeanoNat.
From PTK Require Import Lib.Sx Model.C04_KeyProc Proofs.C04_KeyProcFacts.
Import ListNotations.
Open Scope Z_scope.

Definition all (m : ib) : bool := true.

Section Rule.
  Variable l : list binding.     (* KeyBindings.bindings, in registration order *)

  (* binding #i is an active exact match of ks *)
  Definition ExactP (e : env) (ks : list Z) (i : nat) (b : binding) : Prop :=
    nth_error l i = Some b /\ exact b ks = true /\ feval e (bfilter b) = true.
  (* some active binding is strictly longer than ks and starts with it *)
  Definition LongerP (e : env) (ks : list Z) : Prop :=
    exists i b, nth_error l i = Some b /\ longer b ks = true /\ feval e (bfilter b) = true.
  Definition EagerP (e : env) (ks : list Z) : Prop :=
    exists i b, ExactP e ks i b /\ feval e (beager b) = true.
  Definition NoExact (e : env) (ks : list Z) : Prop := forall i b, ~ ExactP e ks i b.

  (* fewest wildcards; among those the last registered *)
  Definition BestOf (P : nat -> binding -> Prop) (i : nat) (b : binding) : Prop :=
    P i b /\ forall j b', P j b' -> wild b < wild b' \/ (wild b = wild b' /\ (j <= i)%nat).

  (* the binding that fires on the whole pending sequence: when some active
     exact match is eager only eager ones compete *)
  Definition BestFire (e : env) (ks : list Z) : nat -> binding -> Prop :=
    BestOf (fun j b' => ExactP e ks j b' /\ (EagerP e ks -> feval e (beager b') = true)).

  (* One send to the generator, from the pass that examines the pending keys
     [b] (flush = the item was the timeout; d = app.is_done) to the next
     `yield` or to the exception.  [H m] is what the handler of m does. *)
  Inductive pass_spec : list Z -> bool -> env -> list item -> bool -> lres -> Prop :=
  | PS_empty flush e q d : pass_spec [] flush e q d (LDone [] e q d [])
  | PS_wait b e q d :                   (* a longer active binding is still possible: wait *)
      b <> [] -> ~ EagerP e b -> LongerP e b ->
      pass_spec b false e q d (LDone b e q d [])
  | PS_fire b flush e q d i m :         (* fire on the whole pending sequence *)
      b <> [] -> BestFire e b i m ->
      (feval e (beager m) = true \/ flush = true \/ ~ LongerP e b) ->
      hraised (run_actions (bacts m) e q d) = false ->
      pass_spec b flush e q d
        (LDone [] (he (run_actions (bacts m) e q d)) (hq (run_actions (bacts m) e q d))
               (hdone (run_actions (bacts m) e q d)) (EInvoke i b :: hevs (run_actions (bacts m) e q d)))
  | PS_fire_raise b flush e q d i m :
      b <> [] -> BestFire e b i m ->
      (feval e (beager m) = true \/ flush = true \/ ~ LongerP e b) ->
      hraised (run_actions (bacts m) e q d) = true ->
      pass_spec b flush e q d
        (LRaised (he (run_actions (bacts m) e q d)) (hdone (run_actions (bacts m) e q d))
                 (EInvoke i b :: hevs (run_actions (bacts m) e q d) ++ [ERaised [] (hq (run_actions (bacts m) e q d))]))
  | PS_retry b flush e q d n i m r :    (* nothing matches: longest dispatchable prefix first, the rest re-examined *)
      b <> [] -> NoExact e b -> (flush = true \/ ~ LongerP e b) ->
      (1 <= n <= length b)%nat -> BestOf (ExactP e (firstn n b)) i m ->
      (forall n', (n < n' <= length b)%nat -> NoExact e (firstn n' b)) ->
      hraised (run_actions (bacts m) e q d) = false ->
      hdone (run_actions (bacts m) e q d) = false ->
      pass_spec (skipn n b) false (he (run_actions (bacts m) e q d)) (hq (run_actions (bacts m) e q d)) false r ->
      pass_spec b flush e q d (lapp (EInvoke i (firstn n b) :: hevs (run_actions (bacts m) e q d)) r)
  | PS_retry_back b flush e q d n i m : (* ... but the handler finished the application: the rest goes back
                                           to the front of the input queue, in order *)
      b <> [] -> NoExact e b -> (flush = true \/ ~ LongerP e b) ->
      (1 <= n <= length b)%nat -> BestOf (ExactP e (firstn n b)) i m ->
      (forall n', (n < n' <= length b)%nat -> NoExact e (firstn n' b)) ->
      hraised (run_actions (bacts m) e q d) = false ->
      hdone (run_actions (bacts m) e q d) = true ->
      pass_spec b flush e q d
        (lapp (EInvoke i (firstn n b) :: hevs (run_actions (bacts m) e q d))
              (hand_back (skipn n b) (he (run_actions (bacts m) e q d)) (hq (run_actions (bacts m) e q d))))
  | PS_retry_raise b flush e q d n i m :
      b <> [] -> NoExact e b -> (flush = true \/ ~ LongerP e b) ->
      (1 <= n <= length b)%nat -> BestOf (ExactP e (firstn n b)) i m ->
      (forall n', (n < n' <= length b)%nat -> NoExact e (firstn n' b)) ->
      hraised (run_actions (bacts m) e q d) = true ->
      pass_spec b flush e q d
        (LRaised (he (run_actions (bacts m) e q d)) (hdone (run_actions (bacts m) e q d))
                 (EInvoke i (firstn n b) :: hevs (run_actions (bacts m) e q d)
                  ++ [ERaised (skipn n b) (hq (run_actions (bacts m) e q d))]))
  | PS_drop b flush e q r :             (* no prefix matches: exactly one key is dropped *)
      b <> [] -> (flush = true \/ ~ LongerP e b) ->
      (forall n', (1 <= n' <= length b)%nat -> NoExact e (firstn n' b)) ->
      pass_spec (tl b) false e q false r ->
      pass_spec b flush e q false (lcons (EDrop (hd 0 b)) r)
  | PS_drop_back b flush e q :          (* ... and, the application being finished, the rest goes back *)
      b <> [] -> (flush = true \/ ~ LongerP e b) ->
      (forall n', (1 <= n' <= length b)%nat -> NoExact e (firstn n' b)) ->
      pass_spec b flush e q true (lcons (EDrop (hd 0 b)) (hand_back (tl b) e q)).

  Notation bs := (index_from 0 l).
  Lemma filter_all (x : list ib) : filter all x = x.
  Proof. induction x as [|a x IH]; [reflexivity|]. cbn. rewrite IH. reflexivity. Qed.

  Lemma sel_all e ks i b : Sel l e ks all i b <-> ExactP e ks i b.
  Proof. unfold Sel, ExactP, all. tauto. Qed.

  Lemma sel_eager e ks i b : Sel l e ks (eager e) i b <-> ExactP e ks i b /\ feval e (beager b) = true.
  Proof. unfold Sel, ExactP, eager. cbn. tauto. Qed.

  Lemma is_prefix_iff e ks : is_prefix bs e ks = true <-> LongerP e ks.
  Proof.
    unfold is_prefix, get_starting_with, LongerP. rewrite existsb_exists. split.
    - intros [[i b] [H1 H2]]. apply filter_In in H1. destruct H1 as [H1 H3].
      apply index_from_in in H1. rewrite Nat.sub_0_r in H1. exists i, b. unfold active in H2. cbn in *. tauto.
    - intros [i [b [H1 [H2 H3]]]]. exists (i, b). split; [|exact H3].
      apply filter_In. split; [|exact H2]. apply index_from_in. rewrite Nat.sub_0_r. split; [lia|exact H1].
  Qed.

  Lemma matches_pick e ks m :
    last_opt (get_matches bs e ks) = Some m -> BestOf (ExactP e ks) (fst m) (snd m).
  Proof.
    intros H. destruct m as [i b]. rewrite <- (filter_all (get_matches bs e ks)) in H.
    destruct (pick_best l e ks all i b H) as [H1 H2]. split.
    - apply sel_all. exact H1.
    - intros j b' HP. apply H2. apply sel_all. exact HP.
  Qed.

  Lemma matches_none e ks : last_opt (get_matches bs e ks) = None <-> NoExact e ks.
  Proof.
    rewrite <- (filter_all (get_matches bs e ks)). rewrite (pick_none l e ks all). unfold NoExact.
    split; intros H i b HP; apply (H i b); apply sel_all; exact HP.
  Qed.

  Lemma eager_none e ks : filter (eager e) (get_matches bs e ks) = [] <-> ~ EagerP e ks.
  Proof.
    rewrite <- last_opt_none. rewrite (pick_none l e ks (eager e)). unfold EagerP. split.
    - intros H [i [b HP]]. apply (H i b). apply sel_eager. exact HP.
    - intros H i b HS. apply H. exists i, b. apply sel_eager. exact HS.
  Qed.

  Lemma scan_some e b n i m :
    scan bs e b n = Some (i, m) ->
    (1 <= i <= n)%nat /\ BestOf (ExactP e (firstn i b)) (fst m) (snd m) /\
    forall n', (i < n' <= n)%nat -> NoExact e (firstn n' b).
  Proof.
    induction n as [|n IH]; cbn [scan]; [discriminate|].
    destruct (last_opt (get_matches bs e (firstn (S n) b))) as [m'|] eqn:EL.
    - intros [= <- <-]. split; [lia|]. split; [exact (matches_pick _ _ _ EL)|]. intros n' Hn. lia.
    - intros H. destruct (IH H) as [H1 [H2 H3]]. split; [lia|]. split; [exact H2|].
      intros n' Hn. destruct (Nat.eq_dec n' (S n)) as [->|Q]; [apply matches_none; exact EL|]. apply H3. lia.
  Qed.

  Lemma scan_none e b n :
    scan bs e b n = None -> forall n', (1 <= n' <= n)%nat -> NoExact e (firstn n' b).
  Proof.
    induction n as [|n IH]; cbn [scan]; [intros _ n' Hn; lia|].
    destruct (last_opt (get_matches bs e (firstn (S n) b))) as [m'|] eqn:EL; [discriminate|].
    intros H n' Hn. destruct (Nat.eq_dec n' (S n)) as [->|Q]; [apply matches_none; exact EL|]. apply IH; [exact H|lia].
  Qed.

  (* The processor refines the rule. *)
  Theorem loop_refines_rule : forall fuel b flush e q d,
    (length b < fuel)%nat -> pass_spec b flush e q d (loop fuel bs b flush e q d).
  Proof.
    induction fuel as [|fuel IH]; intros b flush e q d HL; [lia|]. cbn [loop].
    destruct b as [|k b0]; [constructor|].
    set (bb := k :: b0) in *.
    assert (NE : bb <> []) by discriminate.
    pose (NM := match scan bs e bb (length bb) with
                | Some (i, m) =>
                    let r := run_actions (bacts (snd m)) e q d in
                    if hraised r then LRaised (he r) (hdone r)
                                        (EInvoke (fst m) (firstn i bb) :: hevs r ++ [ERaised (skipn i bb) (hq r)])
                    else lapp (EInvoke (fst m) (firstn i bb) :: hevs r)
                              (if hdone r then hand_back (skipn i bb) (he r) (hq r)
                               else loop fuel bs (skipn i bb) false (he r) (hq r) false)
                | None => lcons (EDrop (hd 0 bb)) (if d then hand_back (tl bb) e q else loop fuel bs (tl bb) false e q false)
                end).
    assert (NOMATCH : last_opt (get_matches bs e bb) = None -> (flush = true \/ ~ LongerP e bb) ->
              pass_spec bb flush e q d NM).
    { intros EL WHY. pose proof (proj1 (matches_none e bb) EL) as NX. unfold NM.
      destruct (scan bs e bb (length bb)) as [[i m]|] eqn:ES.
      - destruct (scan_some _ _ _ _ _ ES) as [H1 [H2 H3]]. cbv zeta.
        destruct (hraised (run_actions (bacts (snd m)) e q d)) eqn:RA.
        + eapply PS_retry_raise; eauto.
        + destruct (hdone (run_actions (bacts (snd m)) e q d)) eqn:RD.
          * eapply PS_retry_back; eauto.
          * eapply PS_retry; eauto. apply IH. rewrite skipn_length. cbn [length] in *. lia.
      - destruct d.
        + apply PS_drop_back; auto. exact (scan_none _ _ _ ES).
        + apply PS_drop; auto; [exact (scan_none _ _ _ ES)|]. apply IH. unfold bb in *. cbn [length tl] in *. lia. }
    assert (FIRE : forall m, BestFire e bb (fst m) (snd m) ->
              (feval e (beager (snd m)) = true \/ flush = true \/ ~ LongerP e bb) ->
              pass_spec bb flush e q d
                (let r := run_actions (bacts (snd m)) e q d in
                 if hraised r then LRaised (he r) (hdone r) (EInvoke (fst m) bb :: hevs r ++ [ERaised [] (hq r)])
                 else LDone [] (he r) (hq r) (hdone r) (EInvoke (fst m) bb :: hevs r))).
    { intros m BF WHY. cbv zeta. destruct (hraised (run_actions (bacts (snd m)) e q d)) eqn:RA.
      - eapply PS_fire_raise; eauto.
      - eapply PS_fire; eauto. }
    destruct (filter (eager e) (get_matches bs e bb)) as [|e1 es] eqn:EF.
    - (* no eager match *)
      pose proof (proj1 (eager_none e bb) EF) as NEg.
      assert (GO : (flush = true \/ ~ LongerP e bb) ->
                pass_spec bb flush e q d
                  (match last_opt (get_matches bs e bb) with
                   | Some m =>
                       let r := run_actions (bacts (snd m)) e q d in
                       if hraised r then LRaised (he r) (hdone r) (EInvoke (fst m) bb :: hevs r ++ [ERaised [] (hq r)])
                       else LDone [] (he r) (hq r) (hdone r) (EInvoke (fst m) bb :: hevs r)
                   | None => NM
                   end)).
      { intros WHY. destruct (last_opt (get_matches bs e bb)) as [m|] eqn:EL.
        - pose proof (matches_pick _ _ _ EL) as [B1 B2]. apply FIRE; [|tauto].
          split; [split; [exact B1|tauto]|]. intros j b' [HP _]. exact (B2 j b' HP).
        - apply NOMATCH; [reflexivity|exact WHY]. }
      destruct flush.
      + apply GO. left; reflexivity.
      + destruct (is_prefix bs e bb) eqn:EP.
        * apply PS_wait; auto. apply is_prefix_iff. exact EP.
        * apply GO. right. intros H; apply is_prefix_iff in H; congruence.
    - (* some active exact match is eager: it fires at once *)
      rewrite <- EF.
      assert (HE : EagerP e bb).
      { destruct e1 as [i1 b1].
        assert (HI : In (i1, b1) (filter (eager e) (get_matches bs e bb))) by (rewrite EF; left; reflexivity).
        apply (sel_in_matches l e bb (eager e)) in HI. apply sel_eager in HI. exists i1, b1. exact HI. }
      destruct (last_opt (filter (eager e) (get_matches bs e bb))) as [m|] eqn:EL.
      + destruct m as [i m]. destruct (pick_best l e bb (eager e) i m EL) as [B1 B2].
        apply sel_eager in B1. destruct B1 as [B1 B1e].
        apply (FIRE (i, m)); [|left; exact B1e].
        split; [split; [exact B1|intros _; exact B1e]|]. intros j b' [HP HQ]. apply B2. apply sel_eager. split; [exact HP|exact (HQ HE)].
      + apply last_opt_none in EL. congruence.
  Qed.
End Rule.

Lemma specificity l e ks i b :
  last_opt (get_matches (index_from 0 l) e ks) = Some (i, b) -> BestOf (ExactP l e ks) i b.
Proof. intros H. exact (matches_pick l e ks (i, b) H). Qed.

Lemma send_refines_rule l b e q d it :
  pass_spec l (push b it) (is_flush it) e q d (send (index_from 0 l) b e q d it).
Proof. unfold send. apply loop_refines_rule. lia. Qed.

(* the rule determines the outcome: two runs allowed by the specification are equal *)
Lemma BestOf_unique l (P : nat -> binding -> Prop) i m i' m' :
  (forall j b, P j b -> nth_error l j = Some b) -> BestOf P i m -> BestOf P i' m' -> i = i' /\ m = m'.
Proof.
  intros HP [A1 A2] [B1 B2]. destruct (A2 _ _ B1) as [X|[X1 X2]]; destruct (B2 _ _ A1) as [Y|[Y1 Y2]]; try lia.
  assert (i = i') by lia. subst i'. split; [reflexivity|].
  pose proof (HP _ _ A1). pose proof (HP _ _ B1). congruence.
Qed.

Lemma firstn_all_len {T} (b : list T) : firstn (length b) b = b.
Proof. apply firstn_all. Qed.

Ltac destr_or := repeat match goal with H : _ \/ _ |- _ => destruct H end.
Ltac use_nl n X := match goal with NL : _ |- _ => exact (NL n ltac:(lia) _ _ X) end.
Ltac contra :=
  exfalso; destr_or;
  first
  [ discriminate
  | tauto
  | match goal with
    | NEg : ~ EagerP _ ?e ?b, BF : BestFire _ ?e ?b ?i ?m |- _ =>
        apply NEg; exists i, m; split; [apply BF|assumption]
    end
  | match goal with
    | NX : NoExact _ ?e ?b, BF : BestFire _ ?e ?b _ _ |- _ =>
        let X := fresh in destruct BF as [[X _] _]; exact (NX _ _ X)
    end
  | match goal with
    | BF : BestFire ?l ?e ?b ?i ?m |- _ =>
        let X := fresh in let X' := fresh in let R := fresh in
        destruct BF as [[X _] _];
        assert (R : (1 <= length b <= length b)%nat) by (destruct b; [congruence|cbn [length]; lia]);
        assert (X' : ExactP l e (firstn (length b) b) i m) by (rewrite firstn_all; exact X);
        use_nl (length b) X'
    end
  | match goal with
    | BO : BestOf (ExactP _ ?e (firstn ?n ?b)) _ _ |- _ =>
        let X := fresh in destruct BO as [X _]; use_nl n X
    end ].

Ltac same_n :=
  match goal with
  | BO1 : BestOf (ExactP _ ?e (firstn ?n ?b)) _ _, BO2 : BestOf (ExactP _ ?e (firstn ?n0 ?b)) _ _ |- _ =>
      assert (n = n0) by
        (let L := fresh in let E := fresh in let X := fresh in
         destruct (Nat.lt_trichotomy n n0) as [L|[E|L]];
         [exfalso; destruct BO2 as [X _]; use_nl n0 X
         |exact E
         |exfalso; destruct BO1 as [X _]; use_nl n X]);
      subst n0
  end.

Theorem pass_spec_deterministic l : forall b flush e q d r1,
  pass_spec l b flush e q d r1 -> forall r2, pass_spec l b flush e q d r2 -> r1 = r2.
Proof.
  assert (EX : forall e ks j b, ExactP l e ks j b -> nth_error l j = Some b) by (intros e ks j b H; apply H).
  assert (EXF : forall e ks j b, (ExactP l e ks j b /\ (EagerP l e ks -> feval e (beager b) = true)) -> nth_error l j = Some b)
    by (intros e ks j b [H _]; apply H).
  induction 1; intros r2 HH2; inversion HH2; subst; try reflexivity; try solve [contra]; try same_n;
    try match goal with
    | B1 : BestFire _ ?e ?b _ _, B2 : BestFire _ ?e ?b _ _ |- _ =>
        destruct (BestOf_unique l _ _ _ _ _ (EXF e b) B1 B2); subst
    | B1 : BestOf (ExactP _ ?e ?ks) _ _, B2 : BestOf (ExactP _ ?e ?ks) _ _ |- _ =>
        destruct (BestOf_unique l _ _ _ _ _ (EX e ks) B1 B2); subst
    end;
    try reflexivity; try congruence; try (f_equal; auto).
Qed.
