(* "Accepting succeeds only if the validator passes": a cached VALID verdict
   (validation_state) is the validator's verdict on the current document -
   text AND cursor - in every reachable state, for every validator.  (Since
   826cb7e a cursor movement forgets a VALID verdict; before that the statement
   failed for validators that look at the cursor: finding C14-F4, fixed.)
   A cached INVALID verdict stays across cursor movements (the error is
   displayed until the text changes), so the INVALID half needs a validator
   that does not look at the cursor. *)
From Coq Require Import ZArith List Bool Lia.
From PTK Require Import Lib.Sx Lib.Py Model.Document Model.BufferEdit Model.C14_HistoryNav
  Proofs.C14_Facts Proofs.C14_Accept Proofs.C14_Threaded.
Import ListNotations.
Open Scope Z_scope.

(* the validator's verdict on the current document: None = passes *)
Definition verdict (c : cfg) (s : hs) : option Z :=
  match val c with Some V => V (text s) (cur s) | None => None end.

Definition cursor_free (c : cfg) : Prop :=
  match val c with Some V => forall t a b, V t a = V t b | None => True end.

Definition VV (c : cfg) (s : hs) : Prop := vst s = V_VALID -> verdict c s = None.
Definition VI (c : cfg) (s : hs) : Prop := vst s = V_INVALID -> verdict c s <> None.

(* an operation either leaves the state UNKNOWN, or keeps state and text - and
   the cursor too when the state is VALID *)
Definition vk (s s' : hs) : Prop :=
  vst s' = V_UNKNOWN \/
  (vst s' = vst s /\ text s' = text s /\ (vst s = V_VALID -> cur s' = cur s)).

Lemma vk_refl s : vk s s.
Proof. right; auto. Qed.

Lemma vk_trans a b c : vk a b -> vk b c -> vk a c.
Proof.
  intros H1 [H2|(V2 & T2 & C2)]; [left; exact H2|].
  destruct H1 as [H1|(V1 & T1 & C1)]; [left; congruence|].
  right. repeat split; try congruence. intros Ha. rewrite C2, C1; auto. congruence.
Qed.

Lemma vk_vv c s s' : vk s s' -> VV c s -> VV c s'.
Proof.
  intros [H|(V & T & C)] A E; [rewrite H in E; discriminate|].
  rewrite V in E. unfold verdict. rewrite T, (C E). apply A, E.
Qed.

Lemma verdict_text c s s' : cursor_free c -> text s' = text s -> verdict c s' = verdict c s.
Proof.
  unfold cursor_free, verdict. destruct (val c) as [V|]; [|reflexivity].
  intros F ->. apply F.
Qed.

Lemma vk_vi c s s' : cursor_free c -> vk s s' -> VI c s -> VI c s'.
Proof.
  intros F [H|(V & T & _)] A E; [rewrite H in E; discriminate|].
  rewrite V in E. rewrite (verdict_text c s s' F T). apply A, E.
Qed.

(* ---- primitives ---- *)
Lemma vk_same s s' : vst s' = vst s -> wl s' = wl s -> wi s' = wi s -> cur s' = cur s -> vk s s'.
Proof. intros A B C D. right. repeat split; auto. apply text_eq; assumption. Qed.

(* _cursor_position_changed on a state whose cursor differs from [c0] *)
Lemma cursor_changed_moved x s :
  vst x = vst s -> text x = text s -> vk s (cursor_changed x).
Proof.
  intros V T. unfold cursor_changed. cbv zeta. unfold set_pref at 1 2 3; proj. rewrite V.
  destruct (vst s =? V_VALID) eqn:E; [left; reflexivity|].
  right. repeat split; auto. intros Hv. rewrite Hv in E. discriminate.
Qed.

Lemma set_cursor_vk s v : vk s (set_cursor s v).
Proof.
  unfold set_cursor. destruct (_ =? cur s) eqn:E.
  - right. repeat split; auto. intros _. proj. apply Z.eqb_eq, E.
  - apply cursor_changed_moved; reflexivity.
Qed.

Lemma text_changed_vk c s : vk s (text_changed c s).
Proof. left. unfold text_changed. destruct (val c); [destruct (vwt c)|]; reflexivity. Qed.

Lemma set_wi_vk c s v : vk s (set_wi c s v).
Proof.
  unfold set_wi. destruct (wi s =? v); [apply vk_refl|].
  left. unfold text_changed. destruct (val c); [destruct (vwt c)|]; reflexivity.
Qed.

Lemma set_history_search_vk s : vk s (set_history_search s).
Proof.
  apply vk_same; unfold set_history_search; destruct (ehs s); try destruct (hst s); reflexivity.
Qed.

Lemma nav_loop_vk c idxs : forall s n f, vk s (fst (nav_loop c idxs s n f)).
Proof.
  induction idxs as [|i r IH]; intros s n f; cbn [nav_loop fst]; [apply vk_refl|].
  destruct (history_matches s i).
  - destruct (n - 1 =? 0); cbn [fst]; [apply set_wi_vk|].
    eapply vk_trans; [apply set_wi_vk | apply IH].
  - destruct (n =? 0); cbn [fst]; [apply vk_refl | apply IH].
Qed.

Lemma history_forward_pos_vk c s n : vk s (history_forward_pos c s n).
Proof.
  unfold history_forward_pos.
  pose proof (nav_loop_vk c (range_up (wi (set_history_search s) + 1) (len (wl (set_history_search s))))
                (set_history_search s) n false) as H.
  destruct (nav_loop _ _ _ _ _) as [s1 found]; cbn [fst] in H.
  eapply vk_trans; [apply set_history_search_vk|].
  eapply vk_trans; [apply H|].
  destruct found; [|apply vk_refl].
  eapply vk_trans; apply set_cursor_vk.
Qed.

Lemma history_backward_pos_vk c s n : vk s (history_backward_pos c s n).
Proof.
  unfold history_backward_pos.
  pose proof (nav_loop_vk c (range_down (wi (set_history_search s) - 1)) (set_history_search s) n false) as H.
  destruct (nav_loop _ _ _ _ _) as [s1 found]; cbn [fst] in H.
  eapply vk_trans; [apply set_history_search_vk|].
  eapply vk_trans; [apply H|].
  destruct found; [apply set_cursor_vk | apply vk_refl].
Qed.

Lemma history_forward_vk c s n : vk s (history_forward c s n).
Proof.
  unfold history_forward. destruct (n =? 0); [apply vk_refl|].
  destruct (n <? 0); [apply history_backward_pos_vk | apply history_forward_pos_vk].
Qed.

Lemma history_backward_vk c s n : vk s (history_backward c s n).
Proof.
  unfold history_backward. destruct (n =? 0); [apply vk_refl|].
  destruct (n <? 0); [apply history_forward_pos_vk | apply history_backward_pos_vk].
Qed.

Lemma go_to_history_vk c s i : vk s (go_to_history c s i).
Proof.
  unfold go_to_history. destruct (_ && _); [|apply vk_refl].
  eapply vk_trans; [apply set_wi_vk | apply set_cursor_vk].
Qed.

Lemma jump_vk c s i p : vk s (jump c s i p).
Proof.
  unfold jump. destruct (_ && _); [|apply vk_refl].
  eapply vk_trans; [apply set_wi_vk | apply set_cursor_vk].
Qed.

Lemma set_pref_vk s v : vk s (set_pref s v).
Proof. apply vk_same; reflexivity. Qed.

Lemma auto_up_vk c s n g : vk s (auto_up c s n g).
Proof.
  unfold auto_up, cursor_up. destruct (0 <? _).
  - eapply vk_trans; [apply set_cursor_vk | apply set_pref_vk].
  - destruct (sel s); [apply vk_refl|]. destruct g; [|apply history_backward_vk].
    eapply vk_trans; [apply history_backward_vk | apply set_cursor_vk].
Qed.

Lemma auto_down_vk c s n g : vk s (auto_down c s n g).
Proof.
  unfold auto_down, cursor_down. destruct (_ <? _).
  - eapply vk_trans; [apply set_cursor_vk | apply set_pref_vk].
  - destruct (sel s); [apply vk_refl|]. destruct g; [|apply history_forward_vk].
    eapply vk_trans; [apply history_forward_vk | apply set_cursor_vk].
Qed.

(* edits *)
Lemma nth_error_update_nth_same {T} (l : list T) : forall n f,
  nth_error (update_nth l n f) n = option_map f (nth_error l n).
Proof. induction l as [|x l IH]; intros [|n] f; cbn; auto. Qed.

Lemma cursor_changed_unknown x : vst x = V_UNKNOWN -> vst (cursor_changed x) = V_UNKNOWN.
Proof.
  intros H. unfold cursor_changed. cbv zeta. unfold set_pref at 1; proj. rewrite H.
  change (V_UNKNOWN =? V_VALID) with false. exact H.
Qed.

Lemma write_back_vk c s b : Inv s -> vk s (write_back c s b).
Proof.
  intros HI. unfold write_back.
  set (s1 := set_cur_raw (set_wl s (py_update (wl s) (wi s) (fun _ => btext b))) (bcur b)).
  destruct (negb (str_eqb (btext b) (text s))) eqn:E.
  - (* the text changed: UNKNOWN, whatever the cursor does *)
    left.
    assert (U : vst (set_hst (text_changed c s1) None) = V_UNKNOWN)
      by (unfold text_changed; destruct (val c); try destruct (vwt c); reflexivity).
    destruct (negb (bcur b =? cur s)); [apply cursor_changed_unknown|]; exact U.
  - apply negb_false_iff, str_eqb_eq in E.
    assert (T : text s1 = text s).
    { unfold s1, text at 1; proj. rewrite py_update_in_range by exact HI.
      assert (L : len (update_nth (wl s) (Z.to_nat (wi s)) (fun _ => btext b)) = len (wl s))
        by (unfold len; rewrite update_nth_length; reflexivity).
      unfold index. rewrite L. unfold Inv in HI.
      destruct (wi s <? 0) eqn:E2; [lia|]. destruct (len (wl s) <=? wi s) eqn:E3; [lia|]. cbn [orb].
      rewrite nth_error_update_nth_same.
      unfold text, index. rewrite E2, E3. cbn [orb].
      destruct (nth_error (wl s) (Z.to_nat (wi s))) eqn:En; cbn [option_map].
      - unfold text, index in E. rewrite E2, E3 in E. cbn [orb] in E. rewrite En in E. congruence.
      - exfalso. apply nth_error_None in En. unfold len in E3. lia. }
    destruct (negb (bcur b =? cur s)) eqn:Ec.
    + apply cursor_changed_moved; [reflexivity | exact T].
    + right. repeat split; auto. intros _. unfold s1; proj.
      apply negb_false_iff, Z.eqb_eq in Ec. exact Ec.
Qed.

Lemma of_res_vk c s r : Inv s -> vk s (snd (fst (of_res c s r))).
Proof.
  intros HI. destruct r; cbn [of_res ok fst snd]; [apply write_back_vk, HI | apply vk_refl].
Qed.

Lemma consume_vk s : Inv s -> vk s (consume s).
Proof.
  intros HI. destruct (consume_displayed s HI) as (T & C & _). right. repeat split; auto.
  unfold consume. destruct (thr (th s)); [|reflexivity].
  destruct (task s); [|reflexivity]. destruct (tfin s); reflexivity.
Qed.

Lemma pop_step_vk s : Inv s -> vk s (pop_step s).
Proof. intros HI. destruct (pop_step_displayed s HI) as (T & C & _ & V & _). right; auto. Qed.

Lemma pop_n_vk n : forall s, Inv s -> vk s (pop_n n s).
Proof.
  induction n; intros s HI; cbn [pop_n]; [apply vk_refl|].
  eapply vk_trans; [apply pop_step_vk, HI | apply IHn, pop_step_inv, HI].
Qed.

Lemma append_to_history_vk s : vk s (append_to_history s).
Proof.
  destruct (append_to_history_fields s) as (A & B & C & _). apply vk_same; auto.
  unfold append_to_history, do_append. destruct (text s); [reflexivity|].
  destruct (ls (hist_for_get s)); [|destruct (str_eqb _ _)]; try (destruct (thr (th s))); reflexivity.
Qed.

Lemma reset_vk s0 s t cp app : vk s0 (reset s t cp app).
Proof. left. reflexivity. Qed.

Lemma load_start_vk s : vk s (load_start s).
Proof.
  apply vk_same; unfold load_start; destruct (task s); try reflexivity;
    destruct (thr (th s)); try destruct (tstarted (th s)); reflexivity.
Qed.

Lemma thread_step_vk s : vk s (thread_step s).
Proof.
  apply vk_same; unfold thread_step; destruct (_ && _); try reflexivity; destruct (tsrc (th s)); reflexivity.
Qed.

(* validation establishes the verdict *)
Lemma validate_vv c s sc : VV c s -> VV c (fst (validate c s sc)).
Proof.
  intros HV. unfold validate. destruct (negb (vst s =? V_UNKNOWN)); cbn [fst]; [exact HV|].
  unfold VV, verdict in *.
  destruct (val c) as [V|].
  - destruct (V (text s) (cur s)) as [p|] eqn:Ev; cbn [fst].
    + intros E. destruct sc; unfold set_vst in E; proj; discriminate.
    + intros _. change (text (set_vst s V_VALID)) with (text s). unfold set_vst; proj. exact Ev.
  - intros _. reflexivity.
Qed.

Lemma validate_vi c s sc : cursor_free c -> VI c s -> VI c (fst (validate c s sc)).
Proof.
  intros F HV. unfold validate. destruct (negb (vst s =? V_UNKNOWN)); cbn [fst]; [exact HV|].
  unfold VI, verdict, cursor_free in *.
  destruct (val c) as [V|].
  - destruct (V (text s) (cur s)) as [p|] eqn:Ev; cbn [fst].
    + intros _. assert (Tx : forall x, text (set_vst x V_INVALID) = text x) by reflexivity.
      destruct sc.
      * rewrite Tx, set_cursor_text. rewrite (F _ _ (cur s)), Ev. discriminate.
      * rewrite Tx. unfold set_vst; proj. rewrite Ev. discriminate.
    + intros E. unfold set_vst in E; proj; discriminate.
  - intros E. unfold set_vst in E; proj; discriminate.
Qed.

(* ---- any predicate kept by [vk] steps and by validation holds in every
   reachable state ---- *)
Section Lift.
  Variable c : cfg.
  Variable P : hs -> Prop.
  Hypothesis P_vk : forall s s', vk s s' -> P s -> P s'.
  Hypothesis P_val : forall s sc, P s -> P (fst (validate c s sc)).
  Hypothesis P_pend : forall s b, P (set_pend s b) <-> P s.

  Lemma flush_P s : P s -> P (flush c s).
  Proof.
    intros H. unfold flush. destruct (pend s); [|exact H].
    apply P_pend, P_val, P_pend, H.
  Qed.

  Lemma core_P s o : Inv s -> P s -> P (snd (fst (step_core c s o))).
  Proof.
    intros HI HV.
    assert (K : forall s', vk s s' -> P s') by (intros s' H; eapply P_vk; eauto).
    destruct o; cbn [step_core ok fst snd].
    - apply K, history_backward_vk.
    - apply K, history_forward_vk.
    - apply K, go_to_history_vk.
    - apply K, auto_up_vk.
    - apply K, auto_down_vk.
    - apply K. unfold end_of_history. eapply vk_trans; [apply history_forward_vk | apply go_to_history_vk].
    - apply K, of_res_vk, HI.
    - apply K, of_res_vk, HI.
    - apply K, of_res_vk, HI.
    - apply K, of_res_vk, HI.
    - apply K, set_cursor_vk.
    - apply K, set_cursor_vk.
    - apply K, set_cursor_vk.
    - apply P_val, HV.
    - unfold validate_and_handle.
      pose proof (P_val s true HV) as H1.
      destruct (validate c s true) as [s1 okv]; cbn [fst] in H1.
      destruct okv; cbn [fst snd]; [|exact H1].
      destruct (keep c).
      + eapply P_vk; [apply append_to_history_vk | exact H1].
      + eapply P_vk; [apply (reset_vk s1) | exact H1].
    - apply K, reset_vk.
    - apply K, load_start_vk.
    - apply K, pop_step_vk, HI.
    - apply K, pop_n_vk, HI.
    - apply K, vk_same; reflexivity.
    - apply K, append_to_history_vk.
    - apply K, reset_vk.
    - apply K, jump_vk.
    - apply K, vk_same; reflexivity.
    - apply K, thread_step_vk.
  Qed.

  Lemma step_P s o : Inv s -> P s -> P (step_state c s o).
  Proof.
    intros HI HV. rewrite step_state_full. apply flush_P.
    eapply P_vk; [apply consume_vk, core_inv, HI | apply core_P; assumption].
  Qed.

  Lemma steps_P ops : forall s, Inv s -> P s -> P (steps c s ops).
  Proof.
    induction ops as [|o r IH]; intros s HI HV; cbn [steps fold_left]; [exact HV|].
    apply IH; [apply step_inv, HI | apply step_P; assumption].
  Qed.
End Lift.

Lemma init_k_inv storage e k : Inv (init_k storage e k).
Proof. unfold Inv, init_k; proj. unfold len; cbn [length]. lia. Qed.

(* every validator: a cached VALID verdict is right *)
Lemma verdict_valid c ops storage e k : VV c (steps c (init_k storage e k) ops).
Proof.
  apply (steps_P c (VV c)).
  - intros s s'. apply vk_vv.
  - intros s sc. apply validate_vv.
  - intros s b. unfold VV, verdict. reflexivity.
  - apply init_k_inv.
  - unfold VV, init_k; proj. intros E; discriminate.
Qed.

(* validators that ignore the cursor: a cached INVALID verdict is right too *)
Lemma verdict_cached c ops storage e k :
  cursor_free c ->
  VV c (steps c (init_k storage e k) ops) /\ VI c (steps c (init_k storage e k) ops).
Proof.
  intros F. split; [apply verdict_valid|].
  apply (steps_P c (VI c)).
  - intros s s'. apply vk_vi, F.
  - intros s sc. apply validate_vi, F.
  - intros s b. unfold VI, verdict. reflexivity.
  - apply init_k_inv.
  - unfold VI, init_k; proj. intros E; discriminate.
Qed.

(* accepting succeeds only if the validator passes on the current document *)
Lemma accept_only_if c s :
  VV c s -> snd (validate_and_handle c s) <> None -> verdict c s = None.
Proof.
  intros A. unfold validate_and_handle, validate.
  destruct (vst s =? V_UNKNOWN) eqn:E0; cbn [negb].
  - unfold verdict. destruct (val c) as [V|]; [|reflexivity].
    destruct (V (text s) (cur s)); cbn [snd]; [intros H; contradiction H; reflexivity | reflexivity].
  - destruct (vst s =? V_VALID) eqn:E1; cbn [snd].
    + intros _. apply A. apply Z.eqb_eq, E1.
    + intros H; contradiction H; reflexivity.
Qed.

Lemma accept_only_if_reachable c ops storage e k :
  let s := steps c (init_k storage e k) ops in
  snd (validate_and_handle c s) <> None -> verdict c s = None.
Proof. intros s. apply accept_only_if, verdict_valid. Qed.

(* Before 826cb7e the cursor setter kept a VALID verdict (finding C14-F4): type
   'a' (the validate-while-typing run finds it valid), move the cursor to 0
   where the validator rejects, Enter: accepted. *)
Definition cursor_cfg : cfg := mkcfg true true (Some (run_validator [(VCursorAt 0, PAbs 0)])).
Definition cursor_witness : hs := steps cursor_cfg (init [] false) [OInsert [97]].

Lemma accept_only_if_cursor_pinned_refuted :
  exists c s, (exists ops, s = steps c (init [] false) ops) /\
    let s' := set_cursor_pinned s 0 in
    verdict c s' <> None /\ snd (validate_and_handle c s') = Some (text s') /\ text s' <> [].
Proof.
  exists cursor_cfg, cursor_witness.
  split; [exists [OInsert [97]]; reflexivity|].
  cbv zeta. split; [vm_compute; discriminate|].
  split; [vm_compute; reflexivity | vm_compute; discriminate].
Qed.
