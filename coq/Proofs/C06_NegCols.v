(* C06 - negative column indices (a float with left < 0).  Until fix aa7dc6e
   get_max_column_index was max(numbers, default=0) over ALL counting cells: when
   every counting cell of a row sat at an index <= -2 it was negative, the "trim"
   then did move_cursor(x = that + 1 < 0) (cursor_backward stops at column 0 on the
   terminal, _cursor_pos does not) and _cursor_pos was off by one from then on:
   incremental and from-scratch rendering left the cursor in different columns
   (finding C06-F3, reproduced on the real code before the fix: renders of
   {-3:'a', -2:'b'} with cursor columns 1, 2, 1 at width 3).  The function as it
   is now ignores negative indices, is never negative (gmax_nonneg) and the
   theorems of Props/C06.v put no condition on column indices. *)
From Coq Require Import ZArith List Bool Lia.
From PTK Require Import Lib.Sx Lib.Py Model.C06_Terminal Model.C06_Renderer
  Proofs.C06_TermFacts Proofs.C06_RowFacts Proofs.C06_DiffFacts Proofs.C06_SyncFacts.
Import ListNotations.
Open Scope Z_scope.

Definition tb_id : tabs := mkt (fun s => s) (fun a => a) (fun a => negb (a =? 0)).
Definition neg_row : row := [(-3, mkc [97] 2 1); (-2, mkc [98] 2 1)].

(* the pinned function sends the trim to a negative column ... *)
Lemma gmax_pinned_negative : exists tb r W, 1 <= W /\ Z.min (W - 1) (gmax_pinned tb r) + 1 < 0.
Proof. exists tb_id, neg_row, 3. split; [lia|]. vm_compute. reflexivity. Qed.

(* ... the current one never does, whatever the row *)
Lemma gmax_never_negative : forall tb r W, 1 <= W -> 0 <= Z.min (W - 1) (gmax tb r) + 1.
Proof. intros tb r W HW. pose proof (gmax_nonneg tb r). lia. Qed.

(* a well-formed screen may have cells at negative column indices *)
Lemma wf_example_negative :
  wf_screen 3 wof_ex 2 (mks 1 true 1 0 [(0, neg_row)] []).
Proof.
  unfold wf_screen, neg_row; cbn [sh scx scy].
  split; [|split; [lia|split; [|lia]]].
  - unfold wscreen, wrow, wrowf. wscreen_rows tt; wrow_cases 3.
  - intros y Hy. cbn [sget srows]. destruct (0 =? y) eqn:E; [apply Z.eqb_eq in E; lia|reflexivity].
Qed.
