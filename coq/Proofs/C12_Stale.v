(* C12 - the _all_children cache and split.align / split.padding assigned
   after construction. *)
From Coq Require Import ZArith List Bool Lia.
From PTK Require Import Lib.Sx Model.C12_Divide Model.C12_Layout Proofs.C12_Safety Proofs.C12_Cache.
Import ListNotations.
Open Scope Z_scope.

Lemma cache2_get_spec : forall align pad c ids,
  fst (cache2_get align pad c ids) =
  match c with
  | Some (k, v) => if zlist_eqb k ids then v else (align, pad)
  | None => (align, pad)
  end.
Proof.
  intros align pad c ids. unfold cache2_get. destruct c as [[k v]|]; [|reflexivity].
  destruct (zlist_eqb k ids); reflexivity.
Qed.

(* the two cache models hold the same thing as long as align and padding
   are not assigned *)
Definition cache_rel (align : Z) (pad : dim) (c2 : cache2) (c : cache) : Prop :=
  match c2, c with
  | None, None => True
  | Some (k2, v2), Some (k, v) => k2 = k /\ v2 = (align, pad) /\ v = entries align k
  | _, _ => False
  end.

Lemma render_steps2_rel : forall fuel orient done align pad pool avail start idss c2 c,
  cache_rel align pad c2 c ->
  render_steps2 fuel orient done pool avail start c2 (map (fun ids => (align, pad, ids)) idss) =
  render_steps fuel orient done align pad pool avail start c (map (fun ids => ([], ids)) idss).
Proof.
  intros fuel orient done align pad pool avail start idss.
  induction idss as [|ids r IH]; intros c2 c Hrel; [reflexivity|].
  cbn [map render_steps2 render_steps]. unfold apply_changes. cbn [fold_left].
  unfold cache2_get, cache_get.
  destruct c2 as [[k2 [a2 p2]]|]; destruct c as [[k v]|]; cbn [cache_rel] in Hrel; try contradiction.
  - destruct Hrel as (-> & Hv2 & ->). injection Hv2 as -> ->.
    destruct (zlist_eqb k ids) eqn:E.
    + apply zlist_eqb_eq in E. subst k. f_equal. apply IH. cbn [cache_rel]. auto.
    + f_equal. apply IH. cbn [cache_rel]. auto.
  - f_equal. apply IH. cbn [cache_rel]. auto.
Qed.

Theorem render_steps2_fixed : forall fuel orient done align pad pool avail start idss,
  render_steps2 fuel orient done pool avail start None (map (fun ids => (align, pad, ids)) idss) =
  render_steps fuel orient done align pad pool avail start None (map (fun ids => ([], ids)) idss).
Proof. intros. apply render_steps2_rel. exact I. Qed.

(* HSplit([A, B]) with A, B of exact height 1 in 5 rows: padding 0, render,
   then `split.padding = 1`, render again: the second render still has no
   padding row *)
Theorem render_steps2_stale :
  ~ (forall fuel orient done pool avail start steps,
       render_steps2 fuel orient done pool avail start None steps =
       render_fresh2 fuel orient done pool avail start steps).
Proof.
  intro H.
  specialize (H 100%nat 0 false [mkdim 1 1 1 1; mkdim 1 1 1 1] 5 0
                [(3, mkdim 0 0 0 1, [0; 1]); (3, mkdim 1 1 1 1, [0; 1])]).
  vm_compute in H. discriminate H.
Qed.
