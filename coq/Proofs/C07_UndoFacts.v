(* C07 - facts about the buffer-level undo model (Model/C07_Undo.v). *)
From Coq Require Import ZArith List Bool Lia.
From PTK Require Import Lib.Sx Lib.Py Lib.C07_Lemmas Model.C07_Undo.
Import ListNotations.
Open Scope Z_scope.

(* ------------------------------------------------------------------ *)
(* save_to_undo_stack *)

Lemma save_text s b : utext (save_to_undo_stack s b) = utext s.
Proof. reflexivity. Qed.
Lemma save_cur s b : ucur (save_to_undo_stack s b) = ucur s.
Proof. reflexivity. Qed.
Lemma save_bad s b : ubad (save_to_undo_stack s b) = ubad s.
Proof. reflexivity. Qed.
Lemma save_rstack s b : rstack (save_to_undo_stack s b) = if b then [] else rstack s.
Proof. reflexivity. Qed.

(* the new stack: the current state on top of either the old stack or the old
   stack without its top (whose text then was the current text) *)
Lemma save_ustack s b :
  ustack (save_to_undo_stack s b) = here s :: ustack s \/
  exists c r, ustack s = (utext s, c) :: r /\ ustack (save_to_undo_stack s b) = here s :: r.
Proof.
  unfold save_to_undo_stack, here. cbn [ustack].
  destruct (ustack s) as [|[t c] r] eqn:E; [left; reflexivity|].
  destruct (str_eqb t (utext s)) eqn:Et.
  - apply c07_str_eqb_eq in Et. subst t. right. exists c, r. split; reflexivity.
  - left. reflexivity.
Qed.

Lemma save_ustack_top s b : exists r, ustack (save_to_undo_stack s b) = here s :: r.
Proof.
  destruct (save_ustack s b) as [H|(c & r & _ & H)]; rewrite H; eauto.
Qed.

Lemma save_subseq s b past :
  subseq (ustack s) past -> subseq (ustack (save_to_undo_stack s b)) (here s :: past).
Proof.
  intros H. destruct (save_ustack s b) as [E|(c & r & E1 & E2)].
  - rewrite E. apply subseq_take. exact H.
  - rewrite E2. apply subseq_take. rewrite E1 in H. eapply subseq_tail. exact H.
Qed.

(* ------------------------------------------------------------------ *)
(* set_document *)

Lemma set_document_ok s t pos :
  0 <= pos <= len t ->
  set_document s t pos = mkust t pos (ustack s) (rstack s) (ubad s).
Proof.
  intros H. unfold set_document.
  destruct (len t <? pos) eqn:E; [apply Z.ltb_lt in E; lia|].
  rewrite Z.max_r by lia. reflexivity.
Qed.

Lemma set_document_ustack s t pos : ustack (set_document s t pos) = ustack s.
Proof. unfold set_document. destruct (len t <? pos); reflexivity. Qed.
Lemma set_document_rstack s t pos : rstack (set_document s t pos) = rstack s.
Proof. unfold set_document. destruct (len t <? pos); reflexivity. Qed.

(* ------------------------------------------------------------------ *)
(* undo *)

(* Either every entry had the current text (all popped, nothing else
   happens), or the stack is  pre ++ (t,pos) :: r  with pre of the current
   text and t different: the loop stops there. *)
Lemma undo_loop_spec s stack :
  (Forall (fun e => fst e = utext s) stack /\
   undo_loop s stack = mkust (utext s) (ucur s) [] (rstack s) (ubad s))
  \/
  (exists pre t pos r,
     stack = pre ++ (t, pos) :: r /\ Forall (fun e => fst e = utext s) pre /\ t <> utext s /\
     undo_loop s stack =
     set_document (mkust (utext s) (ucur s) r (here s :: rstack s) (ubad s)) t pos).
Proof.
  induction stack as [|[t pos] r IH]; cbn [undo_loop].
  - left. split; [constructor|reflexivity].
  - destruct (str_eqb t (utext s)) eqn:Et.
    + apply c07_str_eqb_eq in Et.
      destruct IH as [[Hall Heq]|(pre & t' & pos' & r' & Hst & Hpre & Hne & Heq)].
      * left. split; [constructor; [exact Et|exact Hall]|exact Heq].
      * right. exists ((t, pos) :: pre), t', pos', r'. repeat split.
        -- cbn [app]. now rewrite Hst.
        -- constructor; [exact Et|exact Hpre].
        -- exact Hne.
        -- exact Heq.
    + apply c07_str_eqb_neq in Et.
      right. exists [], t, pos, r. repeat split; [constructor|exact Et].
Qed.

Definition undo_noop (s : ust) : Prop :=
  Forall (fun e => fst e = utext s) (ustack s) /\
  undo s = mkust (utext s) (ucur s) [] (rstack s) (ubad s).

Definition undo_effective (s : ust) (pre : list snap) (t : str) (pos : Z) (r : list snap) : Prop :=
  ustack s = pre ++ (t, pos) :: r /\ Forall (fun e => fst e = utext s) pre /\ t <> utext s /\
  undo s = set_document (mkust (utext s) (ucur s) r (here s :: rstack s) (ubad s)) t pos.

Lemma undo_spec s : undo_noop s \/ exists pre t pos r, undo_effective s pre t pos r.
Proof. unfold undo_noop, undo_effective, undo. apply undo_loop_spec. Qed.

(* ------------------------------------------------------------------ *)
(* well-formedness is preserved; the Document assertion never fires *)

Lemma wf_save s b : wf s -> wf (save_to_undo_stack s b).
Proof.
  intros (Hh & Hu & Hr & Hb). unfold wf. repeat split.
  - apply Hh.
  - apply Hh.
  - destruct (save_ustack s b) as [E|(c & r & E1 & E2)].
    + rewrite E. constructor; assumption.
    + rewrite E2. constructor; [assumption|]. rewrite E1 in Hu. now inversion Hu.
  - rewrite save_rstack. destruct b; [constructor|assumption].
  - exact Hb.
Qed.

Lemma Forall_app_r {A} (P : A -> Prop) (a b : list A) : Forall P (a ++ b) -> Forall P b.
Proof. intros H. apply Forall_app in H. tauto. Qed.

Lemma undo_effective_result s pre t pos r :
  wf s -> undo_effective s pre t pos r ->
  undo s = mkust t pos r (here s :: rstack s) false /\ snap_ok (t, pos) /\ Forall snap_ok r.
Proof.
  intros (Hh & Hu & Hr & Hb) (Hst & Hpre & Hne & Heq).
  rewrite Hst in Hu. apply Forall_app_r in Hu. inversion Hu as [|? ? Hok Hrest]; subst.
  split; [|split; assumption].
  rewrite Heq. rewrite set_document_ok by exact Hok. cbn [ustack rstack ubad]. now rewrite Hb.
Qed.

Lemma wf_undo s : wf s -> wf (undo s).
Proof.
  intros Hwf. destruct (undo_spec s) as [[Hall Heq]|(pre & t & pos & r & Heff)].
  - rewrite Heq. destruct Hwf as (Hh & Hu & Hr & Hb). repeat split; try assumption; try apply Hh. constructor.
  - destruct (undo_effective_result s pre t pos r Hwf Heff) as (Heq & Hok & Hrest).
    rewrite Heq. destruct Hwf as (Hh & Hu & Hr & Hb).
    unfold wf, here; cbn [utext ucur ustack rstack ubad]. repeat split; try apply Hok; try assumption.
    constructor; assumption.
Qed.

Lemma redo_spec s :
  (rstack s = [] /\ redo s = s) \/
  (exists t pos r, rstack s = (t, pos) :: r /\
     redo s = set_document (mkust (utext s) (ucur s) (ustack (save_to_undo_stack s false)) r (ubad s)) t pos).
Proof.
  unfold redo. destruct (rstack s) as [|[t pos] r] eqn:E.
  - left. split; reflexivity.
  - right. exists t, pos, r. split; [reflexivity|].
    rewrite save_rstack, E. reflexivity.
Qed.

Lemma wf_redo s : wf s -> wf (redo s).
Proof.
  intros Hwf. destruct (redo_spec s) as [[_ Heq]|(t & pos & r & Hr & Heq)].
  - now rewrite Heq.
  - pose proof (wf_save s false Hwf) as (Hh' & Hu' & _ & _).
    destruct Hwf as (Hh & Hu & Hrs & Hb). rewrite Hr in Hrs. inversion Hrs as [|? ? Hok Hrest]; subst.
    rewrite Heq, set_document_ok by exact Hok.
    unfold wf, here; cbn [utext ucur ustack rstack ubad]. repeat split; try apply Hok; assumption.
Qed.

Lemma wf_step s o : wf s -> op_ok o -> wf (ustep s o).
Proof.
  intros Hwf Hop. destruct o as [sv t c| | |t c]; cbn [ustep].
  - assert (Hw : wf (if sv then save_to_undo_stack s true else s)) by (destruct sv; [apply wf_save|]; exact Hwf).
    destruct Hw as (Hh & Hu & Hr & Hb). unfold wf, set_state, here; cbn [utext ucur ustack rstack ubad].
    repeat split; try assumption; apply Hop.
  - now apply wf_undo.
  - now apply wf_redo.
  - destruct Hwf as (_ & _ & _ & Hb). unfold wf, here; cbn [utext ucur ustack rstack ubad].
    repeat split; try apply Hop; try constructor; exact Hb.
Qed.

Lemma wf_run ops : forall s, wf s -> Forall op_ok ops -> wf (urun s ops).
Proof.
  induction ops as [|o ops IH]; intros s Hwf Hops; [exact Hwf|].
  inversion Hops; subst. cbn [urun fold_left]. apply IH; [apply wf_step|]; assumption.
Qed.

Lemma wf_fresh t c : 0 <= c <= len t -> wf (fresh t c).
Proof. intros H. unfold wf, fresh, here; cbn. repeat split; try apply H; constructor. Qed.

Lemma no_assert t c ops :
  0 <= c <= len t -> Forall op_ok ops -> ubad (urun (fresh t c) ops) = false.
Proof. intros H Hops. apply (wf_run ops (fresh t c) (wf_fresh t c H) Hops). Qed.

(* ------------------------------------------------------------------ *)
(* Both stacks are subsequences of the history of boundary states *)

Definition hist_inv (g : ust * list snap) : Prop :=
  subseq (ustack (fst g)) (snd g) /\ subseq (rstack (fst g)) (snd g).

Lemma hist_inv_step g o : hist_inv g -> hist_inv (gstep g o).
Proof.
  destruct g as [s past]. unfold hist_inv, gstep; cbn [fst snd]. intros [Hu Hr].
  destruct o as [sv t c| | |t c]; cbn [ustep]; [| | |split; constructor].
  - unfold set_state; cbn [ustack rstack]. destruct sv.
    + split; [apply save_subseq; exact Hu|]. rewrite save_rstack. constructor.
    + split; apply subseq_skip; assumption.
  - destruct (undo_spec s) as [[_ Heq]|(pre & t & pos & r & (Hst & _ & _ & Heq))]; rewrite Heq.
    + cbn [ustack rstack]. split; [constructor|apply subseq_skip; exact Hr].
    + rewrite set_document_ustack, set_document_rstack. cbn [ustack rstack]. split.
      * apply subseq_skip. rewrite Hst in Hu. apply subseq_drop_prefix in Hu. eapply subseq_tail. exact Hu.
      * apply subseq_take. exact Hr.
  - destruct (redo_spec s) as [[_ Heq]|(t & pos & r & Hrs & Heq)]; rewrite Heq.
    + split; apply subseq_skip; assumption.
    + rewrite set_document_ustack, set_document_rstack. cbn [ustack rstack]. split.
      * apply save_subseq. exact Hu.
      * apply subseq_skip. rewrite Hrs in Hr. eapply subseq_tail. exact Hr.
Qed.

Lemma hist_inv_run ops : forall g, hist_inv g -> hist_inv (fold_left gstep ops g).
Proof.
  induction ops as [|o ops IH]; intros g H; [exact H|].
  cbn [fold_left]. apply IH. apply hist_inv_step. exact H.
Qed.

Lemma grun_fst ops : forall g, fst (fold_left gstep ops g) = urun (fst g) ops.
Proof.
  induction ops as [|o ops IH]; intros g; [reflexivity|].
  cbn [fold_left urun]. rewrite IH. reflexivity.
Qed.

Theorem stack_is_history t c ops :
  let g := grun (fresh t c) ops in
  subseq (ustack (fst g)) (snd g) /\ subseq (rstack (fst g)) (snd g).
Proof.
  cbn zeta. unfold grun. apply (hist_inv_run ops (fresh t c, [])).
  unfold hist_inv; cbn. split; constructor.
Qed.

Theorem stack_entries_in_history t c ops e :
  let g := grun (fresh t c) ops in
  In e (ustack (fst g)) \/ In e (rstack (fst g)) -> In e (snd g).
Proof.
  cbn zeta. intros H. destruct (stack_is_history t c ops) as [Hu Hr].
  destruct H as [H|H]; [eapply subseq_In; [exact Hu|exact H]|eapply subseq_In; [exact Hr|exact H]].
Qed.

(* ------------------------------------------------------------------ *)
(* One undo: a no-op, or it lands exactly on a past boundary state and what
   is left on the stack is older than that boundary. *)

Lemma undo_lands_gen s past :
  wf s -> subseq (ustack s) past ->
  (utext (undo s) = utext s /\ ucur (undo s) = ucur s /\ ustack (undo s) = [] /\
   rstack (undo s) = rstack s /\ forall e, In e (ustack s) -> fst e = utext s)
  \/
  (exists newer older,
     past = newer ++ here (undo s) :: older /\
     utext (undo s) <> utext s /\
     subseq (ustack (undo s)) older /\
     rstack (undo s) = here s :: rstack s).
Proof.
  intros Hwf Hsub. destruct (undo_spec s) as [[Hall Heq]|(pre & t & pos & r & Heff)].
  - left. rewrite Heq. cbn [utext ucur ustack rstack]. repeat split.
    intros e He. rewrite Forall_forall in Hall. auto.
  - right. destruct (undo_effective_result s pre t pos r Hwf Heff) as (Heq & _ & _).
    destruct Heff as (Hst & _ & Hne & _).
    rewrite Hst in Hsub. apply subseq_drop_prefix in Hsub.
    destruct (subseq_split _ _ _ Hsub) as (p1 & p2 & Hp & Hrest).
    exists p1, p2. rewrite Heq. unfold here; cbn [utext ucur ustack rstack]. repeat split; assumption.
Qed.

Theorem undo_lands_in_history t c ops :
  0 <= c <= len t -> Forall op_ok ops ->
  let g := grun (fresh t c) ops in
  let s := fst g in
  let past := snd g in
  (utext (undo s) = utext s /\ ucur (undo s) = ucur s /\ ustack (undo s) = [] /\
   rstack (undo s) = rstack s /\ forall e, In e (ustack s) -> fst e = utext s)
  \/
  (exists newer older,
     past = newer ++ here (undo s) :: older /\
     utext (undo s) <> utext s /\
     subseq (ustack (undo s)) older /\
     rstack (undo s) = here s :: rstack s).
Proof.
  intros Hc Hops. cbn zeta. apply undo_lands_gen.
  - unfold grun. rewrite grun_fst. apply wf_run; [apply wf_fresh; exact Hc|exact Hops].
  - apply stack_is_history.
Qed.

(* ------------------------------------------------------------------ *)
(* A run of undos: its landings, in the order they happen, are a subsequence
   of the undo stack (top first), hence of the history (newest first). *)

Lemma undo_landings_subseq k : forall s, wf s -> subseq (undo_landings s k) (ustack s).
Proof.
  induction k as [|k IH]; intros s Hwf; [constructor|].
  cbn [undo_landings].
  pose proof (IH (undo s) (wf_undo s Hwf)) as Hrec.
  destruct (undo_spec s) as [[Hall Heq]|(pre & t & pos & r & Heff)].
  - (* nothing to land on: the stack is emptied *)
    assert (Hempty : ustack (undo s) = []) by (rewrite Heq; reflexivity).
    rewrite Hempty in Hrec. apply subseq_nil_r in Hrec.
    assert (Ht : utext (undo s) = utext s) by (rewrite Heq; reflexivity).
    rewrite Ht, c07_str_eqb_refl, Hrec. constructor.
  - destruct (undo_effective_result s pre t pos r Hwf Heff) as (Heq & _ & _).
    destruct Heff as (Hst & _ & Hne & _).
    assert (Ht : utext (undo s) = t) by (rewrite Heq; reflexivity).
    assert (Hu : ustack (undo s) = r) by (rewrite Heq; reflexivity).
    assert (Hh : here (undo s) = (t, pos)) by (rewrite Heq; reflexivity).
    rewrite Ht. apply c07_str_eqb_neq in Hne. rewrite Hne.
    rewrite Hh, Hst. apply subseq_cons_in_app. rewrite <- Hu. exact Hrec.
Qed.

Theorem undo_run_reverse_chronological t c ops k :
  0 <= c <= len t -> Forall op_ok ops ->
  let g := grun (fresh t c) ops in
  subseq (undo_landings (fst g) k) (snd g).
Proof.
  intros Hc Hops. cbn zeta.
  destruct (stack_is_history t c ops) as [Hu _].
  eapply subseq_trans; [|exact Hu].
  apply undo_landings_subseq.
  unfold grun. rewrite grun_fst. apply wf_run; [apply wf_fresh; exact Hc|exact Hops].
Qed.

(* consecutive landings have different texts: an undo never "lands" on the
   text it started from *)
Lemma undo_landing_changes_text s :
  wf s -> here (undo s) <> here s -> utext (undo s) <> utext s.
Proof.
  intros Hwf Hd. destruct (undo_spec s) as [[_ Heq]|(pre & t & pos & r & Heff)].
  - exfalso. apply Hd. rewrite Heq. reflexivity.
  - destruct (undo_effective_result s pre t pos r Hwf Heff) as (Heq & _ & _).
    destruct Heff as (_ & _ & Hne & _). rewrite Heq. exact Hne.
Qed.

(* ------------------------------------------------------------------ *)
(* Redo immediately after an effective undo *)

Theorem redo_inverts_undo s :
  wf s -> utext (undo s) <> utext s ->
  let s2 := redo (undo s) in
  utext s2 = utext s /\ ucur s2 = ucur s /\ rstack s2 = rstack s /\ ubad s2 = false /\
  exists r, ustack s2 = here (undo s) :: r.
Proof.
  intros Hwf Hne. cbn zeta.
  destruct (undo_spec s) as [[_ Heq]|(pre & t & pos & r & Heff)].
  - exfalso. apply Hne. rewrite Heq. reflexivity.
  - destruct (undo_effective_result s pre t pos r Hwf Heff) as (Heq & _ & _).
    destruct (redo_spec (undo s)) as [[Hr _]|(t2 & pos2 & r2 & Hr & Heq2)].
    + rewrite Heq in Hr. discriminate.
    + rewrite Heq2. rewrite Heq in Hr. cbn [rstack] in Hr. injection Hr as <- <- <-.
      destruct Hwf as (Hh & _ & _ & Hb). rewrite set_document_ok by exact Hh.
      cbn [utext ucur ustack rstack ubad]. repeat split.
      * rewrite Heq. reflexivity.
      * apply save_ustack_top.
Qed.

(* k effective undos followed by k redos restore text, cursor and redo stack *)
Definition same_view (a b : ust) : Prop :=
  utext a = utext b /\ ucur a = ucur b /\ rstack a = rstack b /\ ubad a = ubad b.

Lemma redo_view a b : same_view a b -> same_view (redo a) (redo b).
Proof.
  intros (Ht & Hc & Hr & Hb).
  destruct (redo_spec a) as [[Ha Hea]|(t & pos & r & Ha & Hea)];
  destruct (redo_spec b) as [[Hb' Heb]|(t' & pos' & r' & Hb' & Heb)].
  - rewrite Hea, Heb. repeat split; assumption.
  - rewrite Hr, Hb' in Ha. discriminate.
  - rewrite Hr, Hb' in Ha. discriminate.
  - rewrite Hr, Hb' in Ha. injection Ha as E1 E2 E3. subst t' pos' r'.
    rewrite Hea, Heb. unfold set_document. rewrite Ht, Hc, Hb.
    destruct (len t <? pos); repeat split; reflexivity.
Qed.

Lemma iter_redo_view k : forall a b, same_view a b -> same_view (iter_op Redo k a) (iter_op Redo k b).
Proof.
  induction k as [|k IH]; intros a b H; [exact H|].
  cbn [iter_op ustep]. apply IH. apply redo_view. exact H.
Qed.

Fixpoint all_effective (s : ust) (k : nat) : Prop :=
  match k with
  | O => True
  | S k' => utext (undo s) <> utext s /\ all_effective (undo s) k'
  end.

Lemma iter_op_snoc o k : forall s, iter_op o (S k) s = ustep (iter_op o k s) o.
Proof.
  induction k as [|k IH]; intros s; [reflexivity|].
  change (iter_op o (S (S k)) s) with (iter_op o (S k) (ustep s o)).
  rewrite IH. reflexivity.
Qed.

Theorem redo_inverts_undo_n k : forall s,
  wf s -> all_effective s k ->
  same_view (iter_op Redo k (iter_op Undo k s)) s.
Proof.
  induction k as [|k IH]; intros s Hwf Heff.
  - repeat split.
  - destruct Heff as [Hne Hrest].
    change (iter_op Undo (S k) s) with (iter_op Undo k (undo s)).
    rewrite iter_op_snoc.
    pose proof (IH (undo s) (wf_undo s Hwf) Hrest) as Hv.
    apply redo_view in Hv.
    destruct (redo_inverts_undo s Hwf Hne) as (H1 & H2 & H3 & H4 & _).
    destruct Hv as (V1 & V2 & V3 & V4). cbn [ustep].
    repeat split; try congruence.
    destruct Hwf as (_ & _ & _ & Hb). congruence.
Qed.

(* ------------------------------------------------------------------ *)
(* A saved command empties the redo stack *)

Theorem edit_clears_redo s t c : rstack (ustep s (Cmd true t c)) = [].
Proof. reflexivity. Qed.

(* ------------------------------------------------------------------ *)
(* Repeated undo reaches the initial text *)

Definition bottom_text (s : ust) : str := last (map fst (ustack s)) (utext s).

(* the side condition: a command that was NOT snapshotted changes the text
   only while the undo stack is non-empty *)
Definition op_safe (s : ust) (o : uop) : Prop :=
  match o with
  | Cmd false t _ => t = utext s \/ ustack s <> []
  | _ => True
  end.

Fixpoint ops_safe (s : ust) (ops : list uop) : Prop :=
  match ops with
  | [] => True
  | o :: r => op_safe s o /\ ops_safe (ustep s o) r
  end.

Lemma bottom_save s b : bottom_text (save_to_undo_stack s b) = bottom_text s.
Proof.
  unfold bottom_text. rewrite save_text.
  destruct (save_ustack s b) as [E|(c & r & E1 & E2)].
  - rewrite E. unfold here. cbn [map fst].
    destruct (ustack s) as [|e r]; [reflexivity|].
    rewrite last_cons_nonempty by discriminate. reflexivity.
  - rewrite E2, E1. reflexivity.
Qed.

Lemma save_nonempty s b : ustack (save_to_undo_stack s b) <> [].
Proof. destruct (save_ustack_top s b) as [r E]. rewrite E. discriminate. Qed.

Lemma bottom_set_state_nonempty s t c :
  ustack s <> [] -> bottom_text (set_state s t c) = bottom_text s.
Proof.
  intros H. unfold bottom_text, set_state; cbn [ustack utext].
  apply last_nonempty. destruct (ustack s); [congruence|discriminate].
Qed.

Lemma Forall_map_fst (l : list snap) (d : str) :
  Forall (fun e => fst e = d) l -> Forall (fun x => x = d) (map fst l).
Proof. induction 1; constructor; assumption. Qed.

Lemma bottom_undo s : wf s -> bottom_text (undo s) = bottom_text s.
Proof.
  intros Hwf. destruct (undo_spec s) as [[Hall Heq]|(pre & t & pos & r & Heff)].
  - rewrite Heq. unfold bottom_text; cbn [ustack utext map last].
    symmetry. apply last_all_same. apply Forall_map_fst. exact Hall.
  - destruct (undo_effective_result s pre t pos r Hwf Heff) as (Heq & _ & _).
    destruct Heff as (Hst & _ & _ & _).
    rewrite Heq. unfold bottom_text; cbn [ustack utext]. rewrite Hst, map_app. cbn [map fst].
    rewrite last_app_cons. destruct r as [|e r]; [reflexivity|].
    cbn [map]. rewrite (last_cons_nonempty t) by discriminate. apply last_nonempty. discriminate.
Qed.

Lemma bottom_redo s : wf s -> bottom_text (redo s) = bottom_text s.
Proof.
  intros Hwf. destruct (redo_spec s) as [[_ Heq]|(t & pos & r & Hr & Heq)]; [now rewrite Heq|].
  destruct Hwf as (_ & _ & Hrs & _). rewrite Hr in Hrs. inversion Hrs as [|? ? Hok _]; subst.
  rewrite Heq, set_document_ok by exact Hok.
  rewrite <- (bottom_save s false). unfold bottom_text. cbn [ustack utext]. rewrite save_text.
  apply last_nonempty. pose proof (save_nonempty s false) as Hn.
  destruct (ustack (save_to_undo_stack s false)); [congruence|discriminate].
Qed.

Lemma bottom_step s o : wf s -> op_safe s o ->
  bottom_text (ustep s o) = match o with Reset t _ => t | _ => bottom_text s end.
Proof.
  intros Hwf Hsafe. destruct o as [sv t c| | |t c]; cbn [ustep].
  - destruct sv.
    + rewrite bottom_set_state_nonempty by apply save_nonempty. apply bottom_save.
    + cbn [op_safe] in Hsafe. destruct Hsafe as [->|Hne].
      * unfold bottom_text, set_state; reflexivity.
      * apply bottom_set_state_nonempty. exact Hne.
  - apply bottom_undo. exact Hwf.
  - apply bottom_redo. exact Hwf.
  - reflexivity.
Qed.

(* the bottom of the stack is the text of the last reset *)
Lemma bottom_run ops : forall s,
  wf s -> Forall op_ok ops -> ops_safe s ops ->
  bottom_text (urun s ops) = session_start (bottom_text s) ops.
Proof.
  induction ops as [|o ops IH]; intros s Hwf Hok Hsafe; [reflexivity|].
  inversion Hok; subst. destruct Hsafe as [Hs Hrest].
  cbn [urun fold_left]. change (fold_left ustep ops (ustep s o)) with (urun (ustep s o) ops).
  unfold session_start. cbn [fold_left]. fold (session_start (match o with Reset t' _ => t' | _ => bottom_text s end) ops).
  rewrite IH; [|apply wf_step; assumption|assumption|assumption].
  rewrite bottom_step by assumption. reflexivity.
Qed.

Lemma undo_shrinks s : ustack s <> [] -> (length (ustack (undo s)) < length (ustack s))%nat.
Proof.
  intros Hne. destruct (undo_spec s) as [[_ Heq]|(pre & t & pos & r & (Hst & _ & _ & Heq))]; rewrite Heq.
  - cbn [ustack length]. destruct (ustack s); [congruence|cbn; lia].
  - rewrite set_document_ustack. cbn [ustack]. rewrite Hst, app_length. cbn [length]. lia.
Qed.

Lemma undo_empty s : ustack s = [] -> undo s = mkust (utext s) (ucur s) [] (rstack s) (ubad s).
Proof. intros H. unfold undo. rewrite H. reflexivity. Qed.

Lemma undo_all_reaches_bottom k : forall s,
  wf s -> (length (ustack s) <= k)%nat -> utext (iter_op Undo k s) = bottom_text s.
Proof.
  induction k as [|k IH]; intros s Hwf Hlen.
  - cbn [iter_op]. unfold bottom_text. destruct (ustack s); [reflexivity|cbn in Hlen; lia].
  - cbn [iter_op ustep]. rewrite IH.
    + apply bottom_undo. exact Hwf.
    + apply wf_undo. exact Hwf.
    + destruct (ustack s) as [|e r] eqn:E.
      * rewrite undo_empty by exact E. cbn [ustack length]. lia.
      * assert (Hne : ustack s <> []) by (rewrite E; discriminate).
        pose proof (undo_shrinks s Hne). rewrite E in H. cbn [length] in *. lia.
Qed.

Theorem reaches_start t c ops k :
  0 <= c <= len t -> Forall op_ok ops -> ops_safe (fresh t c) ops ->
  let s := urun (fresh t c) ops in
  (length (ustack s) <= k)%nat ->
  utext (iter_op Undo k s) = session_start t ops.
Proof.
  intros Hc Hok Hsafe. cbn zeta. intros Hk.
  rewrite undo_all_reaches_bottom; [|apply wf_run; [apply wf_fresh|]; assumption|exact Hk].
  rewrite bottom_run; [reflexivity|apply wf_fresh; exact Hc|exact Hok|exact Hsafe].
Qed.

(* without a reset in between it is the text the buffer was created with *)
Lemma session_start_no_reset t ops :
  Forall (fun o => match o with Reset _ _ => False | _ => True end) ops -> session_start t ops = t.
Proof.
  unfold session_start. revert t. induction ops as [|o ops IH]; intros t H; [reflexivity|].
  inversion H as [|? ? Ho Hrest]; subst. cbn [fold_left]. destruct o; try contradiction; apply IH; exact Hrest.
Qed.

(* Buffer.reset starts a new session: empty stacks, empty ghost history,
   whatever happened before *)
Theorem reset_restarts g t c :
  gstep g (Reset t c) = (mkust t c [] [] (ubad (fst g)), []).
Proof. reflexivity. Qed.

Lemma session_start_app t a b : session_start t (a ++ b) = session_start (session_start t a) b.
Proof. unfold session_start. apply fold_left_app. Qed.

(* ... so everything proved "from a fresh buffer" holds from the last reset on:
   the run after a reset is a run from a fresh buffer holding the new document *)
Theorem run_after_reset s t c ops :
  ubad s = false ->
  urun s (Reset t c :: ops) = urun (fresh t c) ops /\
  fold_left gstep (Reset t c :: ops) (s, []) = grun (fresh t c) ops.
Proof.
  intros Hb. unfold grun, fresh, urun. cbn [fold_left].
  unfold gstep at 2. cbn [fst snd ustep]. rewrite Hb. split; reflexivity.
Qed.

(* the side condition cannot be dropped: an unsnapshotted edit on an empty
   undo stack makes the initial text unreachable *)
Theorem reaches_start_needs_condition :
  exists t c ops k,
    0 <= c <= len t /\ Forall op_ok ops /\
    (length (ustack (urun (fresh t c) ops)) <= k)%nat /\
    utext (iter_op Undo k (urun (fresh t c) ops)) <> t.
Proof.
  exists [97], 1, [Cmd false [97; 98] 2], 3%nat.
  split; [vm_compute; split; discriminate|].
  split; [constructor; [vm_compute; split; discriminate|constructor]|].
  split; [vm_compute; lia|].
  vm_compute. discriminate.
Qed.
