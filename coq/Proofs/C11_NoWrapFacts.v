(* C11 - liveness without line wrapping (width-1 characters): after
   _scroll_without_linewrapping + _copy_body the cursor is registered at
   (row - vertical_scroll, prefix + col - horizontal_scroll), inside the window. *)
From Coq Require Import ZArith List Bool Lia.
From PTK Require Import Lib.Sx Lib.Py Model.C11_Scroll Model.C11_CopyBody
     Proofs.C11_ScrollFacts Proofs.C11_CopyFacts Proofs.C11_WrapFacts.
Import ListNotations.
Open Scope Z_scope.

Section NoWrap.
  Variables (sw dw : Z -> Z) (disp : Z -> str).
  Variables (haspfx : bool) (pfx : Z -> Z -> str).
  Variables (width height xpos ypos : Z).
  Hypothesis Hsw : forall c, sw c = 1.
  Hypothesis Hdw : forall c, dw c = 1.

  Local Notation put' := (put sw dw disp width xpos ypos).
  Local Notation copy_plain' := (copy_plain sw dw disp false width height xpos ypos).
  Local Notation copy_input' := (copy_input sw dw disp false haspfx pfx width height xpos ypos).
  Local Notation copy_line' := (copy_line sw dw disp false haspfx pfx width height xpos ypos).
  Local Notation copy_lines' := (copy_lines sw dw disp false haspfx pfx width height xpos ypos).

  Lemma put_cr2_other' : forall isin l kc c s key,
    isin = false \/ key <> (l, kc) ->
    alist_get (cr2 (put' isin l kc c s)) key = alist_get (cr2 s) key.
  Proof.
    intros isin l kc c s key H. rewrite (put_narrow sw dw disp width xpos ypos Hdw).
    destruct (_ && _); cbn [cr2]; [|reflexivity].
    destruct isin; [|reflexivity]. destruct H as [H | H]; [discriminate|].
    cbn [alist_get]. destruct (pos_eqb (l, kc) key) eqn:E; [|reflexivity].
    apply pos_eqb_eq in E. congruence.
  Qed.

  Lemma ci_cy : forall cs l col sk wc s, cy (copy_input' cs l col sk wc s) = cy s.
  Proof.
    induction cs as [|c r IH]; intros; cbn [copy_input andb]; [reflexivity|].
    rewrite IH. apply (put_cy sw dw disp width xpos ypos Hdw).
  Qed.

  Lemma ci_keys : forall cs l col sk wc s key,
    fst key <> l \/ snd key < col + sk ->
    alist_get (cr2 (copy_input' cs l col sk wc s)) key = alist_get (cr2 s) key.
  Proof.
    induction cs as [|c r IH]; intros l col sk wc s key Hk; cbn [copy_input andb]; [reflexivity|].
    rewrite IH by (destruct Hk; [now left | right; lia]).
    apply put_cr2_other'. right. intros ->. cbn [fst snd] in Hk. lia.
  Qed.

  Lemma ci_reg : forall cs l col sk wc s i c,
    nth_error cs i = Some c -> 0 <= cx s -> cx s + Z.of_nat i < width -> 0 <= cy s ->
    alist_get (cr2 (copy_input' cs l col sk wc s)) (l, col + sk + Z.of_nat i)
    = Some (cy s + ypos, cx s + Z.of_nat i + xpos).
  Proof.
    induction cs as [|c0 r IH]; intros l col sk wc s i c Hn Hx Hi Hy; [destruct i; discriminate|].
    cbn [copy_input andb]. destruct i as [|i'].
    - cbn [Z.of_nat] in *. rewrite !Z.add_0_r in *.
      rewrite ci_keys by (right; cbn [snd]; lia).
      rewrite (put_narrow sw dw disp width xpos ypos Hdw).
      destruct ((0 <=? cx s) && (0 <=? cy s) && (cx s <? width)) eqn:E; [|lia].
      cbn [cr2 alist_get]. now rewrite pos_eqb_refl.
    - cbn [nth_error] in Hn.
      replace (col + sk + Z.of_nat (S i')) with (col + 1 + sk + Z.of_nat i') by lia.
      rewrite (IH l (col + 1) sk wc _ i' c Hn);
        rewrite ?(put_cx sw dw disp width xpos ypos Hdw), ?(put_cy sw dw disp width xpos ypos Hdw); try lia.
      do 2 f_equal; lia.
  Qed.

  Lemma skip_loop_narrow : forall line h sk, 0 <= h <= len line ->
    skip_loop sw line h sk = (skipn (Z.to_nat h) line, 0, sk + h).
  Proof.
    induction line as [|c r IH]; intros h sk Hh.
    - change (len (@nil Z)) with 0 in Hh. assert (h = 0) by lia. subst. cbn. now rewrite Z.add_0_r.
    - cbn [skip_loop]. rewrite len_cons in Hh. destruct (0 <? h) eqn:E.
      + rewrite Hsw. rewrite IH by lia.
        replace (Z.to_nat h) with (S (Z.to_nat (h - 1))) by lia. cbn [skipn]. f_equal. lia.
      + assert (h = 0) by lia. subst. cbn [Z.to_nat skipn]. now rewrite Z.add_0_r.
  Qed.

  Definition pw_of (l : Z) : Z := if haspfx then len (pfx l 0) else 0.
  Definition line_start_nw (l : Z) (s : cst) : cst :=
    if haspfx then copy_plain' (pfx l 0) l s else s.

  Lemma line_start_nw_state : forall l s, cx s = 0 ->
    cx (line_start_nw l s) = pw_of l /\ cy (line_start_nw l s) = cy s /\
    cr2 (line_start_nw l s) = cr2 s.
  Proof.
    intros l s Hx. unfold line_start_nw, pw_of. destruct haspfx; [|repeat split; lia].
    destruct (copy_plain_cy sw dw disp false width height xpos ypos Hdw (pfx l 0) l s) as (A & B & _); [now left|].
    destruct (copy_plain_adv sw dw disp false width height xpos ypos Hdw (pfx l 0) l s) as (_ & _ & C).
    rewrite A, B, C. repeat split; lia.
  Qed.

  Lemma cl_cy : forall h line l s, cy (copy_line' h line l s) = cy s.
  Proof.
    intros h line l s. unfold copy_line. fold (line_start_nw l s).
    assert (B : cy (line_start_nw l s) = cy s).
    { unfold line_start_nw. destruct haspfx; [|reflexivity].
      apply (copy_plain_cy sw dw disp false width height xpos ypos Hdw). now left. }
    destruct (h =? 0); [now rewrite ci_cy|].
    destruct (skip_loop sw line h 0) as [[line' h'] sk]. rewrite ci_cy. cbn [cy]. exact B.
  Qed.

  Lemma cl_keys : forall h line l s key, fst key <> l ->
    alist_get (cr2 (copy_line' h line l s)) key = alist_get (cr2 s) key.
  Proof.
    intros h line l s key Hk. unfold copy_line. fold (line_start_nw l s).
    assert (C : cr2 (line_start_nw l s) = cr2 s).
    { unfold line_start_nw. destruct haspfx; [|reflexivity].
      apply (copy_plain_adv sw dw disp false width height xpos ypos Hdw). }
    destruct (h =? 0); [rewrite ci_keys by (now left); now rewrite C|].
    destruct (skip_loop sw line h 0) as [[line' h'] sk]. rewrite ci_keys by (now left). cbn [cr2]. now rewrite C.
  Qed.

  Lemma cl_reg : forall h line l s i c,
    cx s = 0 -> 0 <= cy s -> nth_error line i = Some c ->
    0 <= h <= Z.of_nat i -> 0 <= pw_of l -> pw_of l + Z.of_nat i - h < width ->
    alist_get (cr2 (copy_line' h line l s)) (l, Z.of_nat i)
    = Some (cy s + ypos, pw_of l + Z.of_nat i - h + xpos).
  Proof.
    intros h line l s i c Hx Hy Hn Hh Hpw Hfit. unfold copy_line. fold (line_start_nw l s).
    destruct (line_start_nw_state l s Hx) as (A & B & C).
    destruct (h =? 0) eqn:E0.
    - assert (h = 0) by lia. subst h.
      pose proof (ci_reg line l 0 0 0 (line_start_nw l s) i c Hn) as H.
      rewrite A, B in H. rewrite !Z.add_0_l in H. rewrite H by lia. do 2 f_equal; lia.
    - assert (Hlen : Z.of_nat i < len line).
      { unfold len. pose proof (proj1 (nth_error_Some line i) ltac:(congruence)). lia. }
      rewrite skip_loop_narrow by lia.
      assert (Hn' : nth_error (skipn (Z.to_nat h) line) (i - Z.to_nat h) = Some c).
      { rewrite nth_error_skipn. replace (Z.to_nat h + (i - Z.to_nat h))%nat with i by lia. exact Hn. }
      pose proof (ci_reg (skipn (Z.to_nat h) line) l 0 (0 + h) 0
                    (mkcst (cx (line_start_nw l s) - 0) (cy (line_start_nw l s))
                           (cscr (line_start_nw l s)) (cr2 (line_start_nw l s)) (cvl (line_start_nw l s)))
                    (i - Z.to_nat h)%nat c Hn') as H.
      cbn [cx cy] in H.
      replace (0 + (0 + h) + Z.of_nat (i - Z.to_nat h)) with (Z.of_nat i) in H by lia.
      cbv beta iota. rewrite H; rewrite ?A, ?B; try lia. do 2 f_equal; lia.
  Qed.

  Lemma cls_keys : forall h rest lineno s key, fst key < lineno ->
    alist_get (cr2 (copy_lines' h rest lineno s)) key = alist_get (cr2 s) key.
  Proof.
    induction rest as [|ln r IH]; intros lineno s key Hk; cbn [copy_lines]; [reflexivity|].
    destruct (cy s <? height); [|reflexivity].
    rewrite IH by lia. cbn [cr2]. rewrite cl_keys by lia. reflexivity.
  Qed.

  Lemma cls_reg : forall h rest lineno s j line i c,
    0 <= cy s -> nth_error rest j = Some line -> nth_error line i = Some c ->
    cy s + Z.of_nat j < height ->
    0 <= h <= Z.of_nat i -> 0 <= pw_of (lineno + Z.of_nat j) ->
    pw_of (lineno + Z.of_nat j) + Z.of_nat i - h < width ->
    alist_get (cr2 (copy_lines' h rest lineno s)) (lineno + Z.of_nat j, Z.of_nat i)
    = Some (cy s + Z.of_nat j + ypos, pw_of (lineno + Z.of_nat j) + Z.of_nat i - h + xpos).
  Proof.
    induction rest as [|ln0 r IH]; intros lineno s j line i c Hy Hj Hi Hrow Hh Hpw Hfit;
      [destruct j; discriminate|].
    cbn [copy_lines]. destruct (cy s <? height) eqn:Ey; [|lia].
    destruct j as [|j'].
    - cbn [nth_error] in Hj. inversion Hj; subst ln0. cbn [Z.of_nat] in *. rewrite !Z.add_0_r in *.
      rewrite cls_keys by (cbn [fst]; lia). cbn [cr2].
      rewrite (cl_reg h line lineno _ i c); cbn [cx cy]; try assumption; try reflexivity.
    - cbn [nth_error] in Hj.
      replace (lineno + Z.of_nat (S j')) with (lineno + 1 + Z.of_nat j') in * by lia.
      rewrite (IH (lineno + 1) _ j' line i c); cbn [cy]; rewrite ?cl_cy; cbn [cy]; try assumption; try lia.
      do 2 f_equal. lia.
  Qed.
End NoWrap.

Section NoWrapTop.
  Variables (sw dw : Z -> Z) (disp : Z -> str).
  Variables (haspfx : bool) (pfx : Z -> Z -> str).
  Variables (width height xpos ypos top bottom left right : Z).
  Variables (lines : list str) (cyr cxc : Z) (st : sstate) (allow : bool).
  Hypothesis Hsw : forall c, sw c = 1.
  Hypothesis Hdw : forall c, dw c = 1.
  Hypothesis Hh : 1 <= height.
  Hypothesis Hoff : 0 <= top /\ 0 <= bottom /\ 0 <= left /\ 0 <= right.
  Hypothesis Hcy : 0 <= cyr < len lines.

  Definition line_nw (l : Z) : str := nth (Z.to_nat l) lines [].
  Definition pw_c : Z := if haspfx then strw sw (pfx cyr 0) else 0.
  Hypothesis Hcx : 0 <= cxc < len (line_nw cyr).
  Hypothesis Hw : 1 <= width - pw_c.

  Definition st_nw : sstate :=
    scroll_nowrap allow sw (line_nw cyr) pw_c width height top bottom left right cyr cxc (len lines) st.
  Definition out_nw : cst :=
    copy_body sw dw disp false haspfx pfx width height xpos ypos lines st_nw.

  Theorem nowrap_narrow_registered :
    let y := cyr - vs st_nw in
    let x := pw_c + cxc - hs st_nw in
    0 <= vs st_nw /\ 0 <= y < height /\ pw_c <= x < width /\ vs2 st_nw = 0 /\
    alist_get (cr2 out_nw) (cyr, cxc) = Some (y + ypos, x + xpos).
  Proof.
    cbv zeta. destruct Hoff as (Ht & Hb & Hl & Hr).
    assert (Hpw : pw_c = pw_of haspfx pfx cyr).
    { unfold pw_c, pw_of. destruct haspfx; [now apply strw_narrow | reflexivity]. }
    assert (Hpw0 : 0 <= pw_c) by (rewrite Hpw; unfold pw_of; destruct haspfx; [apply len_nonneg | lia]).
    unfold st_nw, scroll_nowrap. cbn [vs vs2 hs].
    rewrite !strw_narrow by exact Hsw. rewrite len_slice_to by lia.
    destruct (do_scroll_visible allow (vs st) top bottom cyr height (len lines) Hh Hcy Ht Hb) as (V0 & V1).
    destruct (do_scroll_visible allow (hs st) left right cxc (width - pw_c)
                (Z.max (len (line_nw cyr)) (hs st + width)) Hw ltac:(lia) Hl Hr) as (H0 & H1).
    set (v := do_scroll allow (vs st) top bottom cyr height (len lines)) in *.
    set (h := do_scroll allow (hs st) left right cxc (width - pw_c) (Z.max (len (line_nw cyr)) (hs st + width))) in *.
    split; [lia|]. split; [lia|]. split; [lia|]. split; [reflexivity|].
    unfold out_nw, copy_body, st_nw, scroll_nowrap. cbn [vs vs2 hs].
    rewrite !strw_narrow by exact Hsw. rewrite len_slice_to by lia. fold v h.
    assert (Eline : nth_error lines (Z.to_nat cyr) = Some (line_nw cyr)).
    { unfold line_nw. apply nth_error_nth'. unfold len in Hcy. lia. }
    destruct (nth_error (line_nw cyr) (Z.to_nat cxc)) as [c|] eqn:Ec.
    2:{ apply nth_error_None in Ec. unfold len in Hcx. lia. }
    pose proof (cls_reg sw dw disp haspfx pfx width height xpos ypos Hsw Hdw h
                  (skipn (Z.to_nat v) lines) v (mkcst 0 (- 0) [] [] [])
                  (Z.to_nat (cyr - v)) (line_nw cyr) (Z.to_nat cxc) c) as HR.
    cbn [cy] in HR. rewrite !Z2Nat.id in HR by lia.
    replace (v + (cyr - v)) with cyr in HR by lia. rewrite <- Hpw in HR.
    rewrite HR; try lia.
    - do 2 f_equal; lia.
    - rewrite nth_error_skipn. replace (Z.to_nat v + Z.to_nat (cyr - v))%nat with (Z.to_nat cyr) by lia. exact Eline.
    - exact Ec.
  Qed.
End NoWrapTop.
