(* C11 - (a) the patched get_height_for_line (Model/C11_Patched.v, the repair
   proposed in fixes/C11-display-width-height-estimate.patch) IS the
   display-width-aware layout height [prows] / the packed cursor row + 1;
   (b) a visibility theorem generic in the estimate: the cursor can only be
   hidden if some line is UNDER-estimated or, for an over-tall cursor line, the
   slice estimate is off; (c) hence with the patched estimate the wrapped cursor
   is visible for every displayed width >= 1 - no exactness hypothesis. *)
From Coq Require Import ZArith List Bool Lia.
From PTK Require Import Lib.Sx Lib.Py Model.C11_Scroll Model.C11_CopyBody Model.C11_Patched
     Proofs.C11_ScrollFacts Proofs.C11_CopyFacts Proofs.C11_WideFacts Proofs.C11_SeqFacts Proofs.C11_Main
     Proofs.C11_PackFacts.
Import ListNotations.
Open Scope Z_scope.

Lemma sumH_le : forall (R Hf : Z -> Z) a n,
  (forall k, (k < n)%nat -> R (Z.of_nat k) <= Hf (Z.of_nat k)) -> sumH R a n <= sumH Hf a n.
Proof.
  intros R Hf a. induction n as [|k IH]; intros H; cbn [sumH]; [lia|].
  specialize (IH ltac:(intros j Hj; apply H; lia)). specialize (H k ltac:(lia)).
  destruct (a <=? Z.of_nat k); lia.
Qed.

Section Patched.
  Variables (dw : Z -> Z) (haspfx : bool) (pfx : Z -> Z -> str) (width : Z).
  Hypothesis Hdw : forall c, 1 <= dw c.
  Hypothesis Hfit : forall l k c, pfxw dw haspfx pfx l k + dw c <= width.

  Local Notation pfxw' := (pfxw dw haspfx pfx).
  Local Notation pack' := (pack dw haspfx pfx width).
  Local Notation pack_end' := (pack_end dw haspfx pfx width).

  Lemma patched_loop_pack : forall cs l h x,
    hfl_patched_loop dw (pfxw' l) width cs h x = pack_end' l cs (h - 1) x + 1.
  Proof.
    induction cs as [|c r IH]; intros l h x; cbn [hfl_patched_loop pack_end]; [lia|].
    destruct (width <? x + dw c) eqn:E.
    - cbv zeta. replace (h + 1 - 1) with h by lia. replace (h - 1 + 1) with h by lia.
      pose proof (Hfit l h c). destruct (width <? pfxw' l h + dw c) eqn:E2; [lia|].
      rewrite IH. now replace (h + 1 - 1) with h by lia.
    - apply IH.
  Qed.

  Lemma width_pos : 1 <= width.
  Proof. pose proof (Hfit 0 0 0). pose proof (pfxw_nonneg dw haspfx pfx Hdw 0 0). pose proof (Hdw 0). lia. Qed.

  (* the patched estimate of a whole line = rows of the display-width-aware layout *)
  Lemma patched_is_prows : forall line l,
    height_for_line_patched dw haspfx pfx line l width None = prows dw haspfx pfx width l line.
  Proof.
    intros line l. unfold height_for_line_patched, prows. pose proof width_pos.
    destruct (width =? 0) eqn:E; [lia|]. cbv zeta.
    change (fun k => if haspfx then strw dw (pfx l k) else 0) with (pfxw' l).
    change (if haspfx then strw dw (pfx l 0) else 0) with (pfxw' l 0).
    rewrite patched_loop_pack. reflexivity.
  Qed.

  Lemma pack_end_firstn : forall cs l wc x i k x',
    nth_error (pack' l cs wc x) i = Some (k, x') -> pack_end' l (firstn (S i) cs) wc x = k.
  Proof.
    induction cs as [|c r IH]; intros l wc x i k x' H; [destruct i; discriminate|].
    cbn [pack firstn pack_end] in *. destruct (width <? x + dw c).
    - destruct i as [|i']; cbn [nth_error] in H.
      + inversion H; subst. cbn [firstn pack_end]. reflexivity.
      + eapply IH; eauto.
    - destruct i as [|i']; cbn [nth_error] in H.
      + inversion H; subst. cbn [firstn pack_end]. reflexivity.
      + eapply IH; eauto.
  Qed.

  (* the patched estimate of the slice up to and including the cursor cell =
     the cursor's packed row + 1 *)
  Lemma patched_slice : forall line l cxc kc xc, 0 <= cxc < len line ->
    nth_error (pack_line dw haspfx pfx width l line) (Z.to_nat cxc) = Some (kc, xc) ->
    height_for_line_patched dw haspfx pfx line l width (Some (cxc + 1)) = kc + 1.
  Proof.
    intros line l cxc kc xc Hc Hp. unfold height_for_line_patched. pose proof width_pos.
    destruct (width =? 0) eqn:E; [lia|]. cbv zeta.
    change (fun k => if haspfx then strw dw (pfx l k) else 0) with (pfxw' l).
    change (if haspfx then strw dw (pfx l 0) else 0) with (pfxw' l 0).
    rewrite patched_loop_pack. change (1 - 1) with 0. rewrite slice_to_in_range by lia.
    replace (Z.to_nat (cxc + 1)) with (S (Z.to_nat cxc)) by lia.
    unfold pack_line in Hp. rewrite (pack_end_firstn _ _ _ _ _ _ _ Hp). reflexivity.
  Qed.
End Patched.

(* ---------------------------------------------------------------------- *)
(* Visibility for ANY estimate (Hf = get_line_height, tbh = the slice
   estimate) that never under-estimates a line and, when it declares the cursor
   line over-tall, gets the cursor slice right. *)
Section WrapGen.
  Variables (sw dw : Z -> Z) (disp : Z -> str).
  Variables (haspfx : bool) (pfx : Z -> Z -> str).
  Variables (width height xpos ypos top bottom : Z).
  Variables (lines : list str) (cyr cxc : Z) (st : sstate) (allow : bool).
  Variables (Hf tbh : Z -> Z).

  Hypothesis Hdw : forall c, 1 <= dw c.
  Hypothesis Hfit : forall l k c, pfxw dw haspfx pfx l k + dw c <= width.
  Hypothesis Hh : 1 <= height.
  Hypothesis Htop : 0 <= top.
  Hypothesis Hbottom : 0 <= bottom.
  Hypothesis Hvs : 0 <= vs st.
  Hypothesis Hcy : 0 <= cyr < len lines.
  Hypothesis Hcx : 0 <= cxc < len (xline_of lines cyr).
  Variables (kc xc : Z).
  Hypothesis Hpk : nth_error (pack_line dw haspfx pfx width cyr (xline_of lines cyr)) (Z.to_nat cxc) = Some (kc, xc).

  Hypothesis Hf_pos : forall l, 0 <= Hf l.
  (* no line is UNDER-estimated *)
  Hypothesis Hover : forall l, 0 <= l < len lines -> prows dw haspfx pfx width l (xline_of lines l) <= Hf l.
  (* if the estimate says the cursor line is taller than the window, the slice estimate is right *)
  Hypothesis Hslice : height - top < Hf cyr -> tbh (cxc + 1) = kc + 1.

  Definition gst' : sstate := scroll_wrap allow Hf tbh width height top bottom cyr cxc (len lines) st.
  Definition gout : cst := copy_body sw dw disp true haspfx pfx width height xpos ypos lines gst'.
  Definition Rp (l : Z) : Z := prows dw haspfx pfx width l (xline_of lines l).

  Theorem wrap_visible_gen :
    let y := sumH Rp (vs gst') (Z.to_nat cyr) - vs2 gst' + kc in
    0 <= y < height /\ 0 <= xc < width /\
    alist_get (cr2 gout) (cyr, cxc) = Some (y + ypos, xc + xpos) /\
    exists c, nth_error (xline_of lines cyr) (Z.to_nat cxc) = Some c /\
              cstr (scr_get (cscr gout) (y + ypos) (xc + xpos)) = disp c.
  Proof.
    cbv zeta.
    pose proof (pack_wc_ge dw haspfx pfx width _ _ _ _ _ _ _ Hpk) as Hkc0.
    pose proof (pack_le_end dw haspfx pfx width _ _ _ _ _ _ _ Hpk) as Hkc1.
    assert (HRp : forall l, 0 <= Rp l) by (intros l; unfold Rp; pose proof (prows_pos dw haspfx pfx width l (xline_of lines l)); lia).
    assert (Hrow : kc < Rp cyr) by (unfold Rp, prows; lia).
    pose proof (Hover cyr Hcy) as Hov. fold (Rp cyr) in Hov.
    pose proof (xline_nth lines cyr Hcy) as Eline.
    assert (Hwidth : 1 <= width) by (apply (width_pos dw haspfx pfx width Hdw Hfit)).
    destruct (nth_error (xline_of lines cyr) (Z.to_nat cxc)) as [c|] eqn:Ec.
    2:{ apply nth_error_None in Ec. unfold len in Hcx. lia. }
    assert (Hkey : forall v y0,
      0 <= v <= cyr -> vs gst' = v -> vs2 gst' = - y0 -> hs gst' = 0 ->
      0 <= y0 + sumH Rp v (Z.to_nat cyr) + kc < height ->
      alist_get (cr2 gout) (cyr, cxc) = Some (y0 + sumH Rp v (Z.to_nat cyr) + kc + ypos, xc + xpos)).
    { intros v y0 Hv E1 E2 E3 Hr. unfold gout, copy_body. rewrite E1, E2, E3, Z.opp_involutive.
      pose proof (pcls_reg sw dw disp haspfx pfx width height xpos ypos Hdw Hfit Rp HRp
                    (skipn (Z.to_nat v) lines) v (mkcst 0 y0 [] [] [])
                    (Z.to_nat (cyr - v)) (xline_of lines cyr) (Z.to_nat cxc) c kc xc) as HR.
      cbn [cy] in HR. rewrite !Z2Nat.id in HR by lia.
      replace (v + (cyr - v)) with cyr in HR by lia.
      apply HR; try assumption; try lia.
      - intros m ln Hm. rewrite nth_error_skipn in Hm.
        assert (Hr' : 0 <= v + Z.of_nat m < len lines).
        { unfold len. pose proof (proj1 (nth_error_Some lines (Z.to_nat v + m)%nat) ltac:(congruence)). lia. }
        unfold Rp. f_equal.
        pose proof (xline_nth lines _ Hr') as E. replace (Z.to_nat (v + Z.of_nat m)) with (Z.to_nat v + m)%nat in E by lia.
        congruence.
      - rewrite nth_error_skipn. replace (Z.to_nat v + Z.to_nat (cyr - v))%nat with (Z.to_nat cyr) by lia. exact Eline. }
    assert (Hx : 0 <= xc < width).
    { unfold pack_line in Hpk. clear - Hpk Hdw Hfit.
      assert (G : forall cs l wc x i k x', 0 <= x -> nth_error (pack dw haspfx pfx width l cs wc x) i = Some (k, x') ->
                  0 <= x' < width).
      { induction cs as [|c r IH]; intros l wc x i k x' Hx0 H; [destruct i; discriminate|].
        cbn [pack] in H. pose proof (Hdw c). pose proof (pfxw_nonneg dw haspfx pfx Hdw l (wc + 1)). pose proof (Hfit l (wc + 1) c).
        destruct (width <? x + dw c) eqn:E.
        - destruct i as [|i']; cbn [nth_error] in H; [inversion H; subst; lia | eapply IH; [|exact H]; lia].
        - destruct i as [|i']; cbn [nth_error] in H; [inversion H; subst; lia | eapply IH; [|exact H]; lia]. }
      eapply G; [|exact Hpk]. apply pfxw_nonneg. exact Hdw. }
    assert (Hreg : let y := sumH Rp (vs gst') (Z.to_nat cyr) - vs2 gst' + kc in
                   0 <= y < height /\ alist_get (cr2 gout) (cyr, cxc) = Some (y + ypos, xc + xpos)).
    { cbv zeta. destruct (height - top <? Hf cyr) eqn:Ecase.
      - destruct (scroll_wrap_tall Hf tbh width height top bottom cyr cxc (len lines) Hwidth
                    true allow st Hh ltac:(lia)) as (E1 & E3 & E20 & Eup & Elow).
        fold (scroll_wrap allow Hf tbh width height top bottom cyr cxc (len lines) st) in E1, E3, E20, Eup, Elow.
        fold gst' in E1, E3, E20, Eup, Elow. cbv zeta in Eup, Elow.
        pose proof (Hslice ltac:(lia)) as Hsl.
        assert (Hr1 : vs2 gst' <= kc) by (apply Eup; lia).
        assert (Hr2 : kc - vs2 gst' < height) by (apply Elow; lia).
        rewrite E1. rewrite (sumH_empty Rp cyr (Z.to_nat cyr)) by lia.
        split; [lia|].
        rewrite (Hkey cyr (- vs2 gst')); try lia.
        + rewrite (sumH_empty Rp cyr (Z.to_nat cyr)) by lia. do 2 f_equal. lia.
        + rewrite (sumH_empty Rp cyr (Z.to_nat cyr)) by lia. lia.
      - destruct (scroll_wrap_fits Hf tbh width height top bottom cyr cxc (len lines)
                    Hf_pos Hwidth Hcy Htop Hbottom true allow st ltac:(lia)) as (E2 & E3 & E0 & E1 & Efit).
        fold (scroll_wrap allow Hf tbh width height top bottom cyr cxc (len lines) st) in E2, E3, E0, E1, Efit.
        fold gst' in E2, E3, E0, E1, Efit. specialize (E0 Hvs).
        replace (Z.to_nat (cyr + 1)) with (S (Z.to_nat cyr)) in Efit by lia.
        rewrite sumH_succ in Efit by lia. rewrite Z2Nat.id in Efit by lia.
        pose proof (sumH_nonneg Rp (vs gst') (Z.to_nat cyr) HRp) as Hnn.
        assert (Hle : sumH Rp (vs gst') (Z.to_nat cyr) <= sumH Hf (vs gst') (Z.to_nat cyr)).
        { apply sumH_le. intros k Hk. apply Hover. lia. }
        rewrite E2. split; [lia|].
        rewrite (Hkey (vs gst') 0); try lia.
        do 2 f_equal. lia. }
    cbv zeta in Hreg. destruct Hreg as (Hy & Hget).
    split; [exact Hy|]. split; [exact Hx|]. split; [exact Hget|].
    assert (Hv' : 0 <= vs gst') by (unfold gst', scroll_wrap; apply scroll_wrap_vs_ge0; assumption).
    assert (Hpf : forall l, true = false \/ haspfx = false \/ strw dw (pfx l 0) <= width).
    { intros l. destruct haspfx eqn:Eh; [|now right; left]. right. right.
      pose proof (Hfit l 0 0) as F. unfold pfxw in F. try rewrite Eh in F. pose proof (Hdw 0). lia. }
    pose proof (registered_is_right_wide sw dw disp true haspfx pfx width height xpos ypos lines gst' Hdw Hpf Hv') as HR.
    cbv zeta in HR. fold gout in HR. destruct (HR (cyr, cxc) _ Hget) as (_ & c' & Hc' & Hcell).
    exists c'. split; [|exact Hcell].
    pose proof (char_at_nth _ _ _ _ Hc') as Hn. fold (xline_of lines cyr) in Hn. congruence.
  Qed.
End WrapGen.

(* (c) With the PATCHED estimate (fixes/C11-display-width-height-estimate.patch)
   the wrapped cursor is visible for every displayed width >= 1 (wide, caret/hex
   control forms; any prefixes leaving room for the widest character; any
   previous scroll state with vertical_scroll >= 0) - unconditionally: the patch
   is a proved repair of C11-F13 / C11-F14 at the level of the model. *)
Theorem wrap_visible_patched :
  forall sw dw disp haspfx pfx width height xpos ypos top bottom lines cyr cxc st allow,
  (forall c, 1 <= dw c) -> (forall l k c, pfxw dw haspfx pfx l k + dw c <= width) ->
  1 <= height -> 0 <= top -> 0 <= bottom -> 0 <= vs st ->
  0 <= cyr < len lines -> 0 <= cxc < len (xline_of lines cyr) ->
  forall kc xc,
  nth_error (pack_line dw haspfx pfx width cyr (xline_of lines cyr)) (Z.to_nat cxc) = Some (kc, xc) ->
  let Hfp l := height_for_line_patched dw haspfx pfx (xline_of lines l) l width None in
  let tbhp s := height_for_line_patched dw haspfx pfx (xline_of lines cyr) cyr width (Some s) in
  let s' := scroll_wrap allow Hfp tbhp width height top bottom cyr cxc (len lines) st in
  let o := copy_body sw dw disp true haspfx pfx width height xpos ypos lines s' in
  let y := sumH Hfp (vs s') (Z.to_nat cyr) - vs2 s' + kc in
  0 <= y < height /\ 0 <= xc < width /\
  alist_get (cr2 o) (cyr, cxc) = Some (y + ypos, xc + xpos) /\
  exists c, nth_error (xline_of lines cyr) (Z.to_nat cxc) = Some c /\
            cstr (scr_get (cscr o) (y + ypos) (xc + xpos)) = disp c.
Proof.
  intros sw dw disp haspfx pfx width height xpos ypos top bottom lines cyr cxc st allow
         Hdw Hfit Hh Ht Hb Hvs Hcy Hcx kc xc Hpk Hfp tbhp s' o y.
  assert (E : forall l, Hfp l = Rp dw haspfx pfx width lines l).
  { intros l. unfold Hfp, Rp. now apply patched_is_prows. }
  pose proof (wrap_visible_gen sw dw disp haspfx pfx width height xpos ypos top bottom lines cyr cxc st allow
                Hfp tbhp Hdw Hfit Hh Ht Hb Hvs Hcy Hcx kc xc Hpk) as H.
  assert (Hpos : forall l, 0 <= Hfp l).
  { intros l. rewrite E. unfold Rp. pose proof (prows_pos dw haspfx pfx width l (xline_of lines l)). lia. }
  specialize (H Hpos ltac:(intros l _; rewrite E; unfold Rp; lia)
                ltac:(intros _; unfold tbhp; eapply patched_slice; eauto)).
  cbv zeta in H. unfold y.
  replace (sumH Hfp (vs s') (Z.to_nat cyr)) with (sumH (Rp dw haspfx pfx width lines) (vs s') (Z.to_nat cyr)).
  - exact H.
  - generalize (vs s'). generalize (Z.to_nat cyr). induction n as [|k IH]; intros a; cbn [sumH]; [reflexivity|].
    now rewrite IH, E.
Qed.

(* (d) The code AS IT IS: the cursor can only be hidden when some line is
   UNDER-estimated by get_height_for_line, or the cursor line is (estimated)
   over-tall and the slice estimate is off.  Over-estimating lines is harmless. *)
Theorem wrap_visible_if_not_under :
  forall sw dw disp haspfx pfx width height xpos ypos top bottom lines cyr cxc st allow,
  (forall c, 0 <= sw c) -> (forall c, 1 <= dw c) -> (forall l k c, pfxw dw haspfx pfx l k + dw c <= width) ->
  1 <= height -> 0 <= top -> 0 <= bottom -> 0 <= vs st ->
  0 <= cyr < len lines -> 0 <= cxc < len (xline_of lines cyr) ->
  forall kc xc,
  nth_error (pack_line dw haspfx pfx width cyr (xline_of lines cyr)) (Z.to_nat cxc) = Some (kc, xc) ->
  let Hfn l := height_for_line sw haspfx pfx (xline_of lines l) l width None in
  let tbhn s := height_for_line sw haspfx pfx (xline_of lines cyr) cyr width (Some s) in
  (forall l, 0 <= l < len lines -> prows dw haspfx pfx width l (xline_of lines l) <= Hfn l) ->
  (height - top < Hfn cyr -> tbhn (cxc + 1) = kc + 1) ->
  let s' := scroll_wrap allow Hfn tbhn width height top bottom cyr cxc (len lines) st in
  let o := copy_body sw dw disp true haspfx pfx width height xpos ypos lines s' in
  let y := sumH (Rp dw haspfx pfx width lines) (vs s') (Z.to_nat cyr) - vs2 s' + kc in
  0 <= y < height /\ 0 <= xc < width /\
  alist_get (cr2 o) (cyr, cxc) = Some (y + ypos, xc + xpos) /\
  exists c, nth_error (xline_of lines cyr) (Z.to_nat cxc) = Some c /\
            cstr (scr_get (cscr o) (y + ypos) (xc + xpos)) = disp c.
Proof.
  intros sw dw disp haspfx pfx width height xpos ypos top bottom lines cyr cxc st allow
         Hsw Hdw Hfit Hh Ht Hb Hvs Hcy Hcx kc xc Hpk Hfn tbhn Hover Hslice s' o y.
  exact (wrap_visible_gen sw dw disp haspfx pfx width height xpos ypos top bottom lines cyr cxc st allow
           Hfn tbhn Hdw Hfit Hh Ht Hb Hvs Hcy Hcx kc xc Hpk
           (fun l => height_for_line_nonneg sw haspfx pfx _ l width None Hsw) Hover Hslice).
Qed.

(* the F14 witness with the patched estimate: 3 rows, and the cursor is visible *)
Example patched_on_f14_witness :
  let lines := [[97; 98; 32]; [99; 100; 32]; [30028; 30028; 30028; 30028; 122; 32]] in
  let Hfp l := height_for_line_patched ex_sw false (fun _ _ => []) (xline_of lines l) l 5 None in
  let tbhp s := height_for_line_patched ex_sw false (fun _ _ => []) (xline_of lines 2) 2 5 (Some s) in
  let s' := scroll_wrap false Hfp tbhp 5 2 0 0 2 5 3 (mkss 0 0 0) in
  let o := copy_body ex_sw ex_sw (fun c => [c]) true false (fun _ _ => []) 5 2 0 0 lines s' in
  Hfp 2 = 3 /\ vs2 s' = 1 /\ alist_get (cr2 o) (2, 5) = Some (1, 0).
Proof. vm_compute. repeat split; reflexivity. Qed.
