(* C17 - facts about the key processor part of the model (loop / send /
   process_q): fuel, conservation of key presses, phase monotonicity. *)
From Coq Require Import ZArith List Bool Lia.
From PTK Require Import Lib.Py Model.C03_Vt100Parser Model.C17_Typeahead.
Import ListNotations.

Section P.
Variables E bid res : Type.
Variable lookup : E -> list kp -> option bid.
Variable lookup_scan : E -> list kp -> option bid.
Variable waits : E -> list kp -> bool.
Variable eff : bid -> list kp -> E -> E * option res.
Variable is_cprh : bid -> bool.

Notation core := (core E bid res).
Notation call := (call eff is_cprh).
Notation scan := (@scan E bid res lookup_scan).
Notation loop := (loop lookup lookup_scan waits eff is_cprh).
Notation send := (send lookup lookup_scan waits eff is_cprh).
Notation process_q := (process_q lookup lookup_scan waits eff is_cprh).

Definition acc (c : core) : list kp := logged c ++ kbuf c.

Lemma logged_cons (e : ev bid) (c : core) :
  logged (add_ev e c) = logged c ++ ev_keys e.
Proof.
  unfold logged, add_ev; cbn [rlog rev].
  rewrite map_app, concat_app; cbn [map concat]. now rewrite app_nil_r.
Qed.

Lemma logged_call b ks (c : core) : logged (call b ks c) = logged c ++ ks.
Proof.
  unfold logged, call; cbn [rlog rev].
  rewrite map_app, concat_app; cbn [map concat ev_keys]. now rewrite app_nil_r.
Qed.

Lemma logged_set_kbuf b (c : core) : logged (set_kbuf b c) = logged c.
Proof. reflexivity. Qed.

Lemma scan_bounds n (c : core) b i : scan n c = Some (b, i) -> (1 <= i <= n)%nat.
Proof.
  induction n as [|n IH]; cbn [C17_Typeahead.scan]; [discriminate|].
  destruct (lookup_scan (est c) (firstn (S n) (kbuf c))).
  - intros H; inversion H; subst; lia.
  - intros H; apply IH in H; lia.
Qed.

Lemma scan_found n (c : core) b i :
  scan n c = Some (b, i) -> lookup_scan (est c) (firstn i (kbuf c)) = Some b.
Proof.
  induction n as [|n IH]; cbn [C17_Typeahead.scan]; [discriminate|].
  destruct (lookup_scan (est c) (firstn (S n) (kbuf c))) eqn:L.
  - intros H; inversion H; subst; exact L.
  - exact IH.
Qed.

(* ---------------------------------------------------------------------- *)
(* conservation through one activation of the coroutine *)

Lemma loop_acc fuel : forall fl (c : core), acc (loop fuel fl c) = acc c.
Proof.
  induction fuel as [|f IH]; intros fl c; cbn [C17_Typeahead.loop].
  - destruct (kbuf c); reflexivity.
  - destruct (kbuf c) as [|k0 tl0] eqn:KB; [reflexivity|].
    destruct (cph c) eqn:PH.
    + (* CRun *)
      destruct (negb fl && waits (est c) (k0 :: tl0)); [reflexivity|].
      destruct (lookup (est c) (k0 :: tl0)) as [b|].
      * unfold acc; cbn [kbuf set_kbuf]. rewrite logged_set_kbuf, logged_call, KB, app_nil_r. reflexivity.
      * destruct (scan (length (k0 :: tl0)) c) as [[b i]|].
        -- rewrite IH. unfold acc. rewrite logged_set_kbuf, logged_call. cbn [kbuf set_kbuf].
           rewrite KB, <- app_assoc, firstn_skipn. reflexivity.
        -- rewrite IH. unfold acc. rewrite logged_set_kbuf, logged_cons. cbn [kbuf set_kbuf ev_keys].
           rewrite KB, <- app_assoc. reflexivity.
    + (* CDone *)
      destruct (negb fl && waits (est c) (k0 :: tl0)); [reflexivity|].
      destruct (lookup (est c) (k0 :: tl0)) as [b|].
      * unfold acc; cbn [kbuf set_kbuf]. rewrite logged_set_kbuf, logged_call, KB, app_nil_r. reflexivity.
      * destruct (scan (length (k0 :: tl0)) c) as [[b i]|].
        -- rewrite IH. unfold acc. rewrite logged_set_kbuf, logged_call. cbn [kbuf set_kbuf].
           rewrite KB, <- app_assoc, firstn_skipn. reflexivity.
        -- rewrite IH. unfold acc. rewrite logged_set_kbuf, logged_cons. cbn [kbuf set_kbuf ev_keys].
           rewrite KB, <- app_assoc. reflexivity.
    + reflexivity.
Qed.

Lemma send_acc_key k (c : core) : acc (send (IKey k) c) = acc c ++ [k].
Proof.
  unfold C17_Typeahead.send. rewrite loop_acc. unfold acc.
  destruct (is_cpr k && negb (cpr_alone lookup waits is_cprh c k)); cbn [kbuf set_kbuf set_bad];
    rewrite app_assoc; reflexivity.
Qed.

Lemma send_acc_flush (c : core) : acc (send IFlush c) = acc c.
Proof. unfold C17_Typeahead.send. apply loop_acc. Qed.

(* ---------------------------------------------------------------------- *)
(* the result, once set, stays set (or the second exit() breaks) *)

Definition not_run (c : core) : Prop := cph c <> CRun res.

Lemma call_not_run b ks (c : core) : not_run c -> not_run (call b ks c).
Proof.
  unfold not_run, C17_Typeahead.call; cbn [cph]. intros H.
  destruct (snd (eff b ks (est c))); [|exact H].
  destruct (cph c); congruence.
Qed.

Lemma loop_not_run fuel : forall fl (c : core), not_run c -> not_run (loop fuel fl c).
Proof.
  induction fuel as [|f IH]; intros fl c H; cbn [C17_Typeahead.loop].
  - destruct (kbuf c); exact H.
  - destruct (kbuf c) as [|k0 tl0] eqn:KB; [exact H|].
    destruct (cph c) eqn:PH; [exfalso; apply H; exact PH| |exact H].
    destruct (negb fl && waits (est c) (k0 :: tl0)); [exact H|].
    destruct (lookup (est c) (k0 :: tl0)) as [b|].
    + apply call_not_run with (b := b) (ks := k0 :: tl0) in H. exact H.
    + destruct (scan (length (k0 :: tl0)) c) as [[b i]|].
      * apply IH. apply call_not_run with (b := b) (ks := firstn i (k0 :: tl0)) in H. exact H.
      * apply IH. exact H.
Qed.

Lemma send_not_run it (c : core) : not_run c -> not_run (send it c).
Proof.
  intros H. destruct it as [k|]; unfold C17_Typeahead.send.
  - apply loop_not_run. destruct (is_cpr k && negb (cpr_alone lookup waits is_cprh c k)); exact H.
  - apply loop_not_run. exact H.
Qed.

(* ---------------------------------------------------------------------- *)
(* fuel *)

Lemma call_oof b ks (c : core) : oof (call b ks c) = oof c.
Proof. reflexivity. Qed.

Lemma loop_oof fuel : forall fl (c : core),
  (length (kbuf c) < fuel)%nat -> oof (loop fuel fl c) = oof c.
Proof.
  induction fuel as [|f IH]; intros fl c H; [lia|]. cbn [C17_Typeahead.loop].
  destruct (kbuf c) as [|k0 tl0] eqn:KB; [reflexivity|].
  assert (G : forall b i, scan (length (k0 :: tl0)) c = Some (b, i) ->
          oof (loop f false (set_kbuf (skipn i (k0 :: tl0)) (call b (firstn i (k0 :: tl0)) c))) = oof c).
  { intros b i S. apply scan_bounds in S. rewrite IH; [reflexivity|].
    cbn [kbuf set_kbuf]. rewrite skipn_length. cbn [length] in *. lia. }
  assert (D : oof (loop f false (set_kbuf tl0 (add_ev (@EDrop bid (late c) k0) c))) = oof c).
  { rewrite IH; [reflexivity|]. cbn [kbuf set_kbuf]. cbn [length] in H. lia. }
  destruct (cph c).
  - destruct (negb fl && waits (est c) (k0 :: tl0)); [reflexivity|].
    destruct (lookup (est c) (k0 :: tl0)); [reflexivity|].
    destruct (scan (length (k0 :: tl0)) c) as [[b i]|] eqn:S; [exact (G b i eq_refl)|exact D].
  - destruct (negb fl && waits (est c) (k0 :: tl0)); [reflexivity|].
    destruct (lookup (est c) (k0 :: tl0)); [reflexivity|].
    destruct (scan (length (k0 :: tl0)) c) as [[b i]|] eqn:S; [exact (G b i eq_refl)|exact D].
  - reflexivity.
Qed.

Lemma send_oof it (c : core) : oof (send it c) = oof c.
Proof.
  destruct it as [k|]; unfold C17_Typeahead.send.
  - rewrite loop_oof.
    + destruct (is_cpr k && negb (cpr_alone lookup waits is_cprh c k)); reflexivity.
    + destruct (is_cpr k && negb (cpr_alone lookup waits is_cprh c k)); cbn [kbuf set_kbuf set_bad];
        rewrite app_length; cbn [length]; lia.
  - apply loop_oof. lia.
Qed.

(* ---------------------------------------------------------------------- *)
(* process_keys *)

Lemma nc_app a b : nc (a ++ b) = nc a ++ nc b.
Proof. unfold nc. apply filter_app. Qed.

Lemma nc_cpr k : is_cpr k = true -> nc [k] = [].
Proof. unfold nc; cbn [filter]. intros ->. reflexivity. Qed.

Lemma process_q_oof q : forall c : core, oof (fst (process_q q c)) = oof c.
Proof.
  induction q as [|it q IH]; intros c; cbn [C17_Typeahead.process_q]; [reflexivity|].
  destruct (cph c); [| |reflexivity].
  - rewrite IH. apply send_oof.
  - destruct (item_is_cpr it).
    + rewrite IH. apply send_oof.
    + cbn [fst]. apply IH.
Qed.

(* once the result is set only reports leave the queue *)
Lemma process_q_done q : forall c : core, not_run c ->
  nc (acc (fst (process_q q c))) = nc (acc c) /\
  nc (ikeys (snd (process_q q c))) = nc (ikeys q) /\ not_run (fst (process_q q c)).
Proof.
  induction q as [|it q IH]; intros c H; cbn [C17_Typeahead.process_q]; [auto|].
  destruct (cph c) eqn:PH; [exfalso; apply H; exact PH| |auto].
  destruct it as [k|]; cbn [item_is_cpr].
  - destruct (is_cpr k) eqn:CK.
    + destruct (IH (send (IKey k) c) (send_not_run (IKey k) c H)) as (A & B & C).
      rewrite A, B, send_acc_key, nc_app, (nc_cpr k CK), app_nil_r.
      cbn [ikeys]. change (k :: ikeys q) with ([k] ++ ikeys q). rewrite nc_app, (nc_cpr k CK). auto.
    + destruct (IH c H) as (A & B & C). cbn [fst snd ikeys].
      change (k :: ikeys (snd (process_q q c))) with ([k] ++ ikeys (snd (process_q q c))).
      change (k :: ikeys q) with ([k] ++ ikeys q).
      rewrite !nc_app, B. auto.
  - destruct (IH c H) as (A & B & C). cbn [fst snd ikeys]. auto.
Qed.

Lemma process_q_acc q : forall c : core,
  nc (acc (fst (process_q q c))) ++ nc (ikeys (snd (process_q q c))) = nc (acc c) ++ nc (ikeys q).
Proof.
  induction q as [|it q IH]; intros c; cbn [C17_Typeahead.process_q]; [reflexivity|].
  destruct (cph c) eqn:PH.
  - rewrite IH. destruct it as [k|]; cbn [ikeys].
    + rewrite send_acc_key, nc_app, <- app_assoc.
      change (k :: ikeys q) with ([k] ++ ikeys q). rewrite (nc_app [k]). reflexivity.
    + rewrite send_acc_flush. reflexivity.
  - assert (H : not_run c) by (unfold not_run; congruence).
    pose proof (process_q_done (it :: q) c H) as (A & B & _).
    cbn [C17_Typeahead.process_q] in A, B. rewrite PH in A, B. rewrite A, B. reflexivity.
  - reflexivity.
Qed.

End P.
Arguments acc {E bid res} c.
Arguments not_run {E bid res} c.
