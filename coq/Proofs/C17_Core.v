(* C17 - facts about the key processor part of the model (loop / send /
   deliver / process_q): fuel, conservation of key presses, phase
   monotonicity, reports never enter the key buffer. *)
From Coq Require Import ZArith List Bool Lia.
From PTK Require Import Lib.Py Model.C03_Vt100Parser Model.C17_Typeahead.
Import ListNotations.

Section P.
Variables E bid res : Type.
Variable lookup : E -> list kp -> option bid.
Variable lookup_scan : E -> list kp -> option bid.
Variable waits : E -> list kp -> bool.
Variable eff : bid -> list kp -> E -> E * option res.
Variable is_cprh : bid -> bool.
Variable cpr_lookup : E -> option bid.
Variable feeds : bid -> list kp -> E -> list kp.

Notation core := (core E bid res).
Notation call := (call eff is_cprh feeds).
Notation scan := (@scan E bid res lookup_scan).
Notation loop := (loop lookup lookup_scan waits eff is_cprh feeds).
Notation send := (send lookup lookup_scan waits eff is_cprh feeds).
Notation handle_cpr := (handle_cpr eff is_cprh cpr_lookup feeds).
Notation deliver := (deliver lookup lookup_scan waits eff is_cprh cpr_lookup feeds).
Notation drain := (drain lookup lookup_scan waits eff is_cprh cpr_lookup feeds).
Notation deliver_d := (deliver_d lookup lookup_scan waits eff is_cprh cpr_lookup feeds).
Notation process_q := (process_q lookup lookup_scan waits eff is_cprh cpr_lookup feeds).

(* every key press that left the queue and was not pushed back: logged, or still in the key buffer *)
Definition acc (c : core) : list kp := logged c ++ kbuf c ++ pb c.

Lemma logged_cons (e : ev bid) (c : core) :
  logged (add_ev e c) = logged c ++ ev_keys e.
Proof.
  unfold logged, add_ev; cbn [rlog rev].
  rewrite map_app, concat_app; cbn [map concat]. now rewrite app_nil_r.
Qed.

Lemma logged_call b ks (c : core) : logged (call b ks c) = logged c ++ ks.
Proof.
  unfold logged, call; cbn [rlog rev].
  rewrite map_app, concat_app; cbn [map concat ev_keys]. now rewrite app_nil_r.
Qed.

Lemma scan_bounds n (c : core) b i : scan n c = Some (b, i) -> (1 <= i <= n)%nat.
Proof.
  induction n as [|n IH]; cbn [C17_Typeahead.scan]; [discriminate|].
  destruct (lookup_scan (est c) (firstn (S n) (kbuf c))).
  - intros H; inversion H; subst; lia.
  - intros H; apply IH in H; lia.
Qed.

Lemma scan_found n (c : core) b i :
  scan n c = Some (b, i) -> lookup_scan (est c) (firstn i (kbuf c)) = Some b.
Proof.
  induction n as [|n IH]; cbn [C17_Typeahead.scan]; [discriminate|].
  destruct (lookup_scan (est c) (firstn (S n) (kbuf c))) eqn:L.
  - intros H; inversion H; subst; exact L.
  - exact IH.
Qed.

(* ---------------------------------------------------------------------- *)
(* the result, once set, stays set (or a second exit() breaks) *)

Definition not_run (c : core) : Prop := cph c <> CRun res.

Lemma call_not_run b ks (c : core) : not_run c -> not_run (call b ks c).
Proof.
  unfold not_run, C17_Typeahead.call; cbn [cph]. intros H.
  destruct (snd (eff b ks (est c))); [|exact H].
  destruct (cph c); congruence.
Qed.

Lemma retry_not_run (k : core -> core) (c1 : core) :
  (forall c, not_run c -> not_run (k c)) -> not_run c1 -> not_run (retry k c1).
Proof. intros H N. unfold retry. destruct (late c1); [exact N|apply H; exact N]. Qed.

Lemma loop_not_run fuel : forall fl (c : core), not_run c -> not_run (loop fuel fl c).
Proof.
  induction fuel as [|f IH]; intros fl c H; cbn [C17_Typeahead.loop].
  - destruct (kbuf c); exact H.
  - destruct (kbuf c) as [|k0 tl0] eqn:KB; [exact H|].
    destruct (cph c) eqn:PH; [exfalso; apply H; exact PH| |exact H].
    destruct (negb fl && waits (est c) (k0 :: tl0)); [exact H|].
    destruct (lookup (est c) (k0 :: tl0)) as [b|].
    + apply call_not_run with (b := b) (ks := k0 :: tl0) in H. exact H.
    + destruct (scan (length (k0 :: tl0)) c) as [[b i]|].
      * apply retry_not_run; [intros; apply IH; assumption|].
        apply call_not_run with (b := b) (ks := firstn i (k0 :: tl0)) in H. exact H.
      * apply retry_not_run; [intros; apply IH; assumption|exact H].
Qed.

Lemma send_not_run it (c : core) : not_run c -> not_run (send it c).
Proof. intros H. destruct it as [k|]; unfold C17_Typeahead.send; apply loop_not_run; exact H. Qed.

Lemma handle_cpr_not_run k (c : core) : not_run c -> not_run (handle_cpr k c).
Proof.
  intros H. unfold C17_Typeahead.handle_cpr. destruct (cpr_lookup (est c)); [apply call_not_run|]; exact H.
Qed.

Lemma deliver_not_run it (c : core) : not_run c -> not_run (deliver it c).
Proof.
  intros H. destruct it as [k|]; cbn [C17_Typeahead.deliver]; [|apply send_not_run; exact H].
  destruct (is_cpr k); [apply handle_cpr_not_run|apply send_not_run]; exact H.
Qed.

(* with the result still unset nothing is left to go back to the queue *)
Lemma drain_pb_run l : forall c : core, pb c = [] -> cph (drain l c) = CRun res -> pb (drain l c) = [].
Proof.
  induction l as [|k l IH]; intros c P H; cbn [C17_Typeahead.drain] in *; [exact P|].
  destruct (cph (deliver (IKey k) c)) eqn:PC.
  - destruct (pb (deliver (IKey k) c)) eqn:PB; [apply IH; assumption|reflexivity].
  - cbn [cph set_pb] in H. congruence.
  - cbn [cph set_pb] in H. congruence.
Qed.

Lemma deliver_d_pb_run it (c : core) : cph (deliver_d it c) = CRun res -> pb (deliver_d it c) = [].
Proof.
  unfold C17_Typeahead.deliver_d. destruct (cph (deliver it c)) eqn:PC; [|congruence|congruence].
  apply drain_pb_run. reflexivity.
Qed.

Lemma drain_not_run_back l : forall c : core, cph (drain l c) = CRun res -> l = [] \/ cph (deliver (IKey (hd (KChar 0, []) l)) c) = CRun res.
Proof.
  destruct l as [|k l]; intros c H; [left; reflexivity|right]. cbn [C17_Typeahead.drain hd] in *.
  destruct (cph (deliver (IKey k) c)) eqn:PC; [reflexivity| |]; cbn [cph set_pb] in H; congruence.
Qed.

(* ---------------------------------------------------------------------- *)
(* fuel *)

Lemma loop_oof fuel : forall fl (c : core),
  (length (kbuf c) < fuel)%nat -> oof (loop fuel fl c) = oof c.
Proof.
  induction fuel as [|f IH]; intros fl c H; [lia|]. cbn [C17_Typeahead.loop].
  destruct (kbuf c) as [|k0 tl0] eqn:KB; [reflexivity|].
  assert (R : forall c1, oof c1 = oof c -> (length (kbuf c1) < f)%nat -> oof (retry (loop f false) c1) = oof c).
  { intros c1 O1 L1. unfold retry. destruct (late c1); [exact O1|]. rewrite IH; assumption. }
  assert (G : forall b i, scan (length (k0 :: tl0)) c = Some (b, i) ->
          oof (retry (loop f false) (set_kbuf (skipn i (k0 :: tl0)) (call b (firstn i (k0 :: tl0)) c))) = oof c).
  { intros b i S. apply scan_bounds in S. apply R; [reflexivity|].
    cbn [kbuf set_kbuf]. rewrite skipn_length. cbn [length] in *. lia. }
  assert (D : oof (retry (loop f false) (set_kbuf tl0 (add_ev (@EDrop bid (late c) k0) c))) = oof c).
  { apply R; [reflexivity|]. cbn [kbuf set_kbuf]. cbn [length] in H. lia. }
  destruct (cph c).
  - destruct (negb fl && waits (est c) (k0 :: tl0)); [reflexivity|].
    destruct (lookup (est c) (k0 :: tl0)); [reflexivity|].
    destruct (scan (length (k0 :: tl0)) c) as [[b i]|] eqn:S; [exact (G b i eq_refl)|exact D].
  - destruct (negb fl && waits (est c) (k0 :: tl0)); [reflexivity|].
    destruct (lookup (est c) (k0 :: tl0)); [reflexivity|].
    destruct (scan (length (k0 :: tl0)) c) as [[b i]|] eqn:S; [exact (G b i eq_refl)|exact D].
  - reflexivity.
Qed.

Lemma send_oof it (c : core) : oof (send it c) = oof c.
Proof.
  destruct it as [k|]; unfold C17_Typeahead.send.
  - rewrite loop_oof; [reflexivity|]. cbn [kbuf set_kbuf]. rewrite app_length; cbn [length]; lia.
  - apply loop_oof. lia.
Qed.

Lemma deliver_oof it (c : core) : oof (deliver it c) = oof c.
Proof.
  destruct it as [k|]; cbn [C17_Typeahead.deliver]; [|apply send_oof].
  destruct (is_cpr k); [|apply send_oof].
  unfold C17_Typeahead.handle_cpr. destruct (cpr_lookup (est c)); reflexivity.
Qed.

Lemma drain_oof l : forall c : core, oof (drain l c) = oof c.
Proof.
  induction l as [|k l IH]; intros c; cbn [C17_Typeahead.drain]; [reflexivity|].
  destruct (cph (deliver (IKey k) c)); [|cbn [oof set_pb]; apply deliver_oof|cbn [oof set_pb]; apply deliver_oof].
  destruct (pb (deliver (IKey k) c)); [rewrite IH; apply deliver_oof|cbn [oof set_deep clear_pb]; apply deliver_oof].
Qed.

Lemma deliver_d_oof it (c : core) : oof (deliver_d it c) = oof c.
Proof.
  unfold C17_Typeahead.deliver_d. destruct (cph (deliver it c)); [|apply deliver_oof|apply deliver_oof].
  rewrite drain_oof. cbn [oof clear_pb]. apply deliver_oof.
Qed.

Lemma deliver_d_not_run it (c : core) : not_run c -> not_run (deliver_d it c).
Proof.
  intros H. pose proof (deliver_not_run it c H) as N. unfold C17_Typeahead.deliver_d, not_run in *.
  destruct (cph (deliver it c)) eqn:PC; [congruence|rewrite PC; congruence|rewrite PC; congruence].
Qed.

Lemma pop_eq it (c : core) :
  est (pop it c) = est c /\ kbuf (pop it c) = kbuf c /\ cph (pop it c) = cph c /\ pb (pop it c) = pb c /\
  rlog (pop it c) = rlog c /\ oof (pop it c) = oof c.
Proof. destruct it; cbn; auto 7. Qed.

(* ---------------------------------------------------------------------- *)
(* process_keys *)

Lemma process_q_oof q : forall c : core, oof (fst (process_q q c)) = oof c.
Proof.
  induction q as [|it q IH]; intros c; cbn [C17_Typeahead.process_q]; [reflexivity|].
  destruct (cph c); [| |reflexivity].
  - cbn [fst]. rewrite IH. cbn [oof clear_pb]. rewrite deliver_d_oof. apply pop_eq.
  - destruct (item_is_cpr it).
    + cbn [fst]. rewrite IH. cbn [oof clear_pb]. rewrite deliver_oof. apply pop_eq.
    + cbn [fst]. apply IH.
Qed.

Lemma process_q_pb q : forall c : core, pb c = [] -> pb (fst (process_q q c)) = [].
Proof.
  induction q as [|it q IH]; intros c P; cbn [C17_Typeahead.process_q]; [exact P|].
  destruct (cph c) eqn:PH; [| |exact P].
  - cbn [fst]. apply IH. reflexivity.
  - destruct (item_is_cpr it) eqn:CI; cbn [fst]; apply IH; [reflexivity|exact P].
Qed.

Lemma process_q_not_run q : forall c : core, not_run c -> not_run (fst (process_q q c)).
Proof.
  induction q as [|it q IH]; intros c H; cbn [C17_Typeahead.process_q]; [exact H|].
  destruct (cph c) eqn:PH; [exfalso; apply H; exact PH| |exact H].
  destruct (item_is_cpr it); cbn [fst]; apply IH; [|exact H].
  unfold not_run; cbn [cph clear_pb]. apply deliver_not_run. unfold not_run. rewrite (proj1 (proj2 (proj2 (pop_eq it c)))). congruence.
Qed.

Lemma process_q_run_back q : forall c : core, cph (fst (process_q q c)) = CRun res -> cph c = CRun res.
Proof.
  intros c H. destruct (cph c) eqn:PH; [reflexivity| |];
    exfalso; refine (process_q_not_run q c _ H); unfold not_run; congruence.
Qed.

Lemma ikeys_app a b : ikeys (a ++ b) = ikeys a ++ ikeys b.
Proof. induction a as [|[k|] a IH]; cbn [ikeys app]; rewrite ?IH; reflexivity. Qed.
Lemma ikeys_map ks : ikeys (map IKey ks) = ks.
Proof. induction ks as [|k ks IH]; cbn [ikeys map]; rewrite ?IH; reflexivity. Qed.

Lemma nc_app a b : nc (a ++ b) = nc a ++ nc b.
Proof. unfold nc. apply filter_app. Qed.
Lemma nc_cpr k : is_cpr k = true -> nc [k] = [].
Proof. unfold nc; cbn [filter]. intros ->. reflexivity. Qed.
Lemma nc_single k : is_cpr k = false -> nc [k] = [k].
Proof. unfold nc; cbn [filter]. intros ->. reflexivity. Qed.

(* ---------------------------------------------------------------------- *)
(* Conservation of key presses through the processor, for binding sets whose
   handlers feed nothing (with feeding handlers the fed key presses are extra). *)
Section NoFeeds.
Hypothesis Hnf : forall b ks e, feeds b ks e = [].

Lemma pb_call b ks (c : core) : pb (call b ks c) = pb c.
Proof. unfold C17_Typeahead.call; cbn [pb]. rewrite Hnf. reflexivity. Qed.

(* ---------------------------------------------------------------------- *)
(* conservation through one activation of the coroutine *)

Lemma acc_push_back (c : core) : acc (push_back c) = acc c.
Proof. unfold acc, push_back, logged; cbn [rlog kbuf pb app]. reflexivity. Qed.

Lemma retry_acc (k : core -> core) (c1 : core) :
  (forall c, acc (k c) = acc c) -> acc (retry k c1) = acc c1.
Proof. intros H. unfold retry. destruct (late c1); [apply acc_push_back|apply H]. Qed.

Lemma loop_acc fuel : forall fl (c : core), acc (loop fuel fl c) = acc c.
Proof.
  induction fuel as [|f IH]; intros fl c; cbn [C17_Typeahead.loop].
  - destruct (kbuf c); reflexivity.
  - destruct (kbuf c) as [|k0 tl0] eqn:KB; [reflexivity|].
    assert (X : forall b, acc (set_kbuf [] (call b (k0 :: tl0) c)) = acc c).
    { intros b. unfold acc; cbn [kbuf set_kbuf pb C17_Typeahead.call]; rewrite ?Hnf; cbn [app].
      change (logged (set_kbuf [] (call b (k0 :: tl0) c))) with (logged (call b (k0 :: tl0) c)).
      rewrite logged_call, KB, <- app_assoc. reflexivity. }
    assert (Y : forall b i, acc (retry (loop f false) (set_kbuf (skipn i (k0 :: tl0)) (call b (firstn i (k0 :: tl0)) c))) = acc c).
    { intros b i. rewrite retry_acc; [|intros; apply IH]. unfold acc; cbn [kbuf set_kbuf pb C17_Typeahead.call]; rewrite ?Hnf; cbn [app].
      change (logged (set_kbuf (skipn i (k0 :: tl0)) (call b (firstn i (k0 :: tl0)) c))) with (logged (call b (firstn i (k0 :: tl0)) c)).
      rewrite logged_call, KB, <- app_assoc, (app_assoc (firstn i (k0 :: tl0))), firstn_skipn. reflexivity. }
    assert (Z : acc (retry (loop f false) (set_kbuf tl0 (add_ev (@EDrop bid (late c) k0) c))) = acc c).
    { rewrite retry_acc; [|intros; apply IH]. unfold acc; cbn [kbuf set_kbuf pb add_ev].
      change (logged (set_kbuf tl0 (add_ev (@EDrop bid (late c) k0) c))) with (logged (add_ev (@EDrop bid (late c) k0) c)).
      rewrite logged_cons, KB, <- app_assoc. reflexivity. }
    destruct (cph c) eqn:PH; [| |reflexivity].
    + destruct (negb fl && waits (est c) (k0 :: tl0)); [reflexivity|].
      destruct (lookup (est c) (k0 :: tl0)) as [b|]; [apply X|].
      destruct (scan (length (k0 :: tl0)) c) as [[b i]|]; [apply Y|apply Z].
    + destruct (negb fl && waits (est c) (k0 :: tl0)); [reflexivity|].
      destruct (lookup (est c) (k0 :: tl0)) as [b|]; [apply X|].
      destruct (scan (length (k0 :: tl0)) c) as [[b i]|]; [apply Y|apply Z].
Qed.

Lemma send_acc_key k (c : core) : pb c = [] -> acc (send (IKey k) c) = acc c ++ [k].
Proof.
  intros P. unfold C17_Typeahead.send. rewrite loop_acc. unfold acc; cbn [kbuf set_kbuf pb].
  change (logged (set_kbuf (kbuf c ++ [k]) c)) with (logged c). rewrite P, !app_nil_r, app_assoc. reflexivity.
Qed.

Lemma send_acc_flush (c : core) : acc (send IFlush c) = acc c.
Proof. unfold C17_Typeahead.send. apply loop_acc. Qed.



Lemma handle_cpr_acc k (c : core) : is_cpr k = true -> nc (acc (handle_cpr k c)) = nc (acc c).
Proof.
  intros CK. unfold C17_Typeahead.handle_cpr. destruct (cpr_lookup (est c)) as [b|]; [|reflexivity].
  unfold acc. rewrite pb_call. cbn [kbuf C17_Typeahead.call]. rewrite logged_call, !nc_app, (nc_cpr k CK), app_nil_r. reflexivity.
Qed.

Lemma deliver_acc it (c : core) : pb c = [] ->
  nc (acc (deliver it c)) = nc (acc c) ++ nc (ikeys [it]).
Proof.
  intros P. destruct it as [k|]; cbn [C17_Typeahead.deliver ikeys].
  - destruct (is_cpr k) eqn:CK.
    + rewrite (handle_cpr_acc k c CK), (nc_cpr k CK), app_nil_r. reflexivity.
    + rewrite (send_acc_key k c P), nc_app. reflexivity.
  - rewrite send_acc_flush. cbn. now rewrite app_nil_r.
Qed.

Lemma loop_pb_run fuel : forall fl (c : core), cph (loop fuel fl c) = CRun res -> pb (loop fuel fl c) = pb c.
Proof.
  induction fuel as [|f IH]; intros fl c H; cbn [C17_Typeahead.loop] in *.
  - destruct (kbuf c); reflexivity.
  - destruct (kbuf c) as [|k0 tl0] eqn:KB; [reflexivity|].
    assert (R : forall c1, pb c1 = pb c -> cph (retry (loop f false) c1) = CRun res -> pb (retry (loop f false) c1) = pb c).
    { intros c1 P1 H1. unfold retry in *. destruct (late c1) eqn:L.
      - unfold late in L. cbn [push_back cph] in H1. rewrite H1 in L. discriminate.
      - rewrite IH; assumption. }
    destruct (cph c) eqn:PH; [| |reflexivity].
    + destruct (negb fl && waits (est c) (k0 :: tl0)); [reflexivity|].
      destruct (lookup (est c) (k0 :: tl0)) as [b|]; [cbn [pb set_kbuf]; apply pb_call|].
      destruct (scan (length (k0 :: tl0)) c) as [[b i]|]; apply R; auto; cbn [pb set_kbuf]; apply pb_call.
    + destruct (negb fl && waits (est c) (k0 :: tl0)); [reflexivity|].
      destruct (lookup (est c) (k0 :: tl0)) as [b|]; [cbn [pb set_kbuf]; apply pb_call|].
      destruct (scan (length (k0 :: tl0)) c) as [[b i]|]; apply R; auto; cbn [pb set_kbuf]; apply pb_call.
Qed.

Lemma deliver_pb_run it (c : core) : cph (deliver it c) = CRun res -> pb (deliver it c) = pb c.
Proof.
  destruct it as [k|]; cbn [C17_Typeahead.deliver].
  - destruct (is_cpr k).
    + intros _. unfold C17_Typeahead.handle_cpr. destruct (cpr_lookup (est c)); [apply pb_call|reflexivity].
    + unfold C17_Typeahead.send. intros H. rewrite loop_pb_run; [reflexivity|exact H].
  - unfold C17_Typeahead.send. intros H. rewrite loop_pb_run; [reflexivity|exact H].
Qed.

(* nothing is fed, so delivering with draining is delivering *)
Lemma deliver_d_nf it (c : core) : pb c = [] -> acc (deliver_d it c) = acc (deliver it c) /\ cph (deliver_d it c) = cph (deliver it c).
Proof.
  intros P. unfold C17_Typeahead.deliver_d. destruct (cph (deliver it c)) eqn:PC; [|auto|auto].
  rewrite (deliver_pb_run it c PC), P. cbn [C17_Typeahead.drain]. split; [|exact PC].
  unfold acc; cbn [kbuf pb clear_pb]. rewrite (deliver_pb_run it c PC), P. reflexivity.
Qed.

(* once the result is set only reports leave the queue *)
Lemma process_q_done q : forall c : core, not_run c -> pb c = [] ->
  nc (acc (fst (process_q q c))) = nc (acc c) /\
  nc (ikeys (snd (process_q q c))) = nc (ikeys q).
Proof.
  induction q as [|it q IH]; intros c H P; cbn [C17_Typeahead.process_q]; [auto|].
  destruct (cph c) eqn:PH; [exfalso; apply H; exact PH| |auto].
  destruct it as [k|]; cbn [item_is_cpr].
  - destruct (is_cpr k) eqn:CK.
    + cbn [C17_Typeahead.deliver C17_Typeahead.pop fst snd]. rewrite CK.
      assert (PB : pb (handle_cpr k (add_pop k c)) = []).
      { unfold C17_Typeahead.handle_cpr. cbn [est add_pop]. destruct (cpr_lookup (est c)); [rewrite pb_call|]; exact P. }
      rewrite PB. cbn [map app].
      destruct (IH (clear_pb (handle_cpr k (add_pop k c)))) as (A & B).
      { unfold not_run; cbn [cph clear_pb]. apply handle_cpr_not_run. exact H. }
      { reflexivity. }
      rewrite A, B. split.
      * transitivity (nc (acc (handle_cpr k (add_pop k c)))).
        { unfold acc; cbn [kbuf pb clear_pb]. rewrite PB. reflexivity. }
        rewrite (handle_cpr_acc k _ CK). reflexivity.
      * cbn [ikeys]. change (k :: ikeys q) with ([k] ++ ikeys q). rewrite nc_app, (nc_cpr k CK). reflexivity.
    + destruct (IH c H P) as (A & B). cbn [fst snd ikeys].
      change (k :: ikeys (snd (process_q q c))) with ([k] ++ ikeys (snd (process_q q c))).
      change (k :: ikeys q) with ([k] ++ ikeys q).
      rewrite !nc_app, B. auto.
  - destruct (IH c H P) as (A & B). cbn [fst snd ikeys]. auto.
Qed.

Lemma process_q_acc q : forall c : core, pb c = [] ->
  nc (acc (fst (process_q q c))) ++ nc (ikeys (snd (process_q q c))) = nc (acc c) ++ nc (ikeys q).
Proof.
  induction q as [|it q IH]; intros c P; cbn [C17_Typeahead.process_q]; [reflexivity|].
  destruct (cph c) eqn:PH.
  - cbn [fst snd]. set (c0 := pop it c).
    assert (P0 : pb c0 = []) by (unfold c0; rewrite (proj1 (proj2 (proj2 (proj2 (pop_eq it c))))); exact P).
    assert (A0 : acc c0 = acc c) by (unfold c0; destruct it; reflexivity).
    set (c' := deliver_d it c0).
    rewrite ikeys_app, ikeys_map, nc_app.
    destruct (deliver_d_nf it c0 P0) as (DN1 & DN2). fold c' in DN1, DN2.
    assert (DA : nc (acc c') = nc (acc c) ++ nc (ikeys [it])) by (rewrite DN1, <- A0; apply deliver_acc; exact P0).
    assert (SPLIT : nc (acc c') = nc (acc (clear_pb c')) ++ nc (pb c')).
    { unfold acc; cbn [kbuf pb clear_pb]. change (logged (clear_pb c')) with (logged c').
      rewrite !nc_app. change (nc []) with (@nil kp). rewrite app_nil_r, <- app_assoc. reflexivity. }
    destruct (cph c') eqn:PC.
    + assert (PB : pb c' = []) by (apply deliver_d_pb_run; exact PC).
      pose proof (IH (clear_pb c') eq_refl) as IH'.
      rewrite PB in *. change (nc []) with (@nil kp) in *. rewrite app_nil_r in SPLIT. cbn [app].
      rewrite IH', <- SPLIT, DA.
      change (it :: q) with ([it] ++ q). rewrite ikeys_app, nc_app, <- app_assoc. reflexivity.
    + assert (NR : not_run (clear_pb c')) by (unfold not_run; cbn [cph clear_pb]; congruence).
      destruct (process_q_done q (clear_pb c') NR eq_refl) as (A & B). rewrite A, B.
      rewrite app_assoc, <- SPLIT, DA.
      change (it :: q) with ([it] ++ q). rewrite ikeys_app, nc_app, <- app_assoc. reflexivity.
    + assert (NR : not_run (clear_pb c')) by (unfold not_run; cbn [cph clear_pb]; congruence).
      destruct (process_q_done q (clear_pb c') NR eq_refl) as (A & B). rewrite A, B.
      rewrite app_assoc, <- SPLIT, DA.
      change (it :: q) with ([it] ++ q). rewrite ikeys_app, nc_app, <- app_assoc. reflexivity.
  - assert (H : not_run c) by (unfold not_run; congruence).
    pose proof (process_q_done (it :: q) c H P) as (A & B).
    cbn [C17_Typeahead.process_q] in A, B. rewrite PH in A, B. rewrite A, B. reflexivity.
  - reflexivity.
Qed.

End NoFeeds.

End P.
Arguments acc {E bid res} c.
Arguments not_run {E bid res} c.
