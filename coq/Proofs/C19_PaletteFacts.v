(* C19 - facts about the palette searches: a general argmin lemma for the scan
   loop as coded, the 256-colour and 16-colour theorems for ALL r g b, and
   the finite facts over the regenerated tables (re-proved on every run). *)
From Coq Require Import ZArith List Bool Lia String.
From PTK Require Import Lib.Py Lib.C19_Str Gen.C19_Palette Model.C19_Palette.
Import ListNotations.
Open Scope Z_scope.

(* ---------------------------------------------------------------------- *)
(* The scan loop computes the first minimum among the eligible items that
   beat the initial distance. *)
Section ScanSpec.
  Context {T R : Type} (elig : T -> bool) (cost : T -> Z) (key : T -> R).

  Lemma scan_spec : forall l m d,
    (scan elig cost key l m d = (m, d) /\
     forall y, In y l -> elig y = true -> d <= cost y)
    \/
    (exists l1 x l2,
        l = l1 ++ x :: l2 /\ elig x = true /\
        scan elig cost key l m d = (key x, cost x) /\ cost x < d /\
        (forall y, In y l1 -> elig y = true -> cost x < cost y) /\
        (forall y, In y l2 -> elig y = true -> cost x <= cost y)).
  Proof.
    induction l as [|a l IH]; intros m d.
    - left. split; [reflexivity|]. intros y [].
    - cbn [scan]. destruct (elig a) eqn:Ea.
      + destruct (cost a <? d) eqn:Ca.
        * apply Z.ltb_lt in Ca.
          destruct (IH (key a) (cost a)) as [[Hres Hall] | (l1 & x & l2 & Hl & Hex & Hres & Hlt & H1 & H2)].
          -- right. exists [], a, l. repeat split; auto.
             intros y [].
          -- right. exists (a :: l1), x, l2. subst l. repeat split; auto; try lia.
             intros y [Hy | Hy] Hey; [subst y; lia | auto].
        * apply Z.ltb_ge in Ca.
          destruct (IH m d) as [[Hres Hall] | (l1 & x & l2 & Hl & Hex & Hres & Hlt & H1 & H2)].
          -- left. split; auto. intros y [Hy | Hy] Hey; [subst y; lia | auto].
          -- right. exists (a :: l1), x, l2. subst l. repeat split; auto.
             intros y [Hy | Hy] Hey; [subst y; lia | auto].
      + destruct (IH m d) as [[Hres Hall] | (l1 & x & l2 & Hl & Hex & Hres & Hlt & H1 & H2)].
        * left. split; auto. intros y [Hy | Hy] Hey; [subst y; congruence | auto].
        * right. exists (a :: l1), x, l2. subst l. repeat split; auto.
          intros y [Hy | Hy] Hey; [subst y; congruence | auto].
  Qed.
End ScanSpec.

(* ---------------------------------------------------------------------- *)
(* enumerate *)

Lemma In_enumerate {T} : forall (l : list T) k i c,
  In (i, c) (enumerate_from k l) ->
  k <= i /\ nth_error l (Z.to_nat (i - k)) = Some c.
Proof.
  induction l as [|x r IH]; intros k i c H; [destruct H|].
  cbn [enumerate_from] in H. destruct H as [H | H].
  - inversion H; subst. split; [lia|]. rewrite Z.sub_diag. reflexivity.
  - apply IH in H. destruct H as [Hk Hn]. split; [lia|].
    replace (Z.to_nat (i - k)) with (S (Z.to_nat (i - (k + 1)))) by lia.
    exact Hn.
Qed.

Lemma enumerate_In {T} : forall (l : list T) k n c,
  nth_error l n = Some c -> In (k + Z.of_nat n, c) (enumerate_from k l).
Proof.
  induction l as [|x r IH]; intros k n c H; [destruct n; discriminate|].
  destruct n as [|n]; cbn [nth_error] in H.
  - inversion H; subst. left. f_equal. cbn. lia.
  - right. replace (k + Z.of_nat (S n)) with ((k + 1) + Z.of_nat n) by lia. auto.
Qed.

Lemma enumerate_split {T} : forall (l : list T) k l1 i c l2,
  enumerate_from k l = l1 ++ (i, c) :: l2 ->
  (forall y, In y l1 -> fst y < i) /\ (forall y, In y l2 -> i < fst y).
Proof.
  induction l as [|x r IH]; intros k l1 i c l2 H.
  - destruct l1; discriminate.
  - cbn [enumerate_from] in H. destruct l1 as [|y l1]; cbn [app] in H.
    + inversion H; subst. split; [intros y []|].
      intros [j cj] Hy. apply In_enumerate in Hy. cbn. lia.
    + inversion H as [[Hy Hrest]]. subst y.
      destruct (IH _ _ _ _ _ Hrest) as [H1 H2]. split; auto.
      intros y [Hy | Hy]; [|auto]. subst y. cbn.
      assert (Hin : In (i, c) (enumerate_from (k + 1) r)).
      { rewrite Hrest. apply in_or_app. right. left. reflexivity. }
      apply In_enumerate in Hin. lia.
Qed.

(* ---------------------------------------------------------------------- *)
(* 256 colours *)

Lemma dist_nonneg : forall r g b c, 0 <= dist r g b c.
Proof.
  intros r g b [[r2 g2] b2]. unfold dist.
  pose proof (Z.square_nonneg (r - r2)). pose proof (Z.square_nonneg (g - g2)).
  pose proof (Z.square_nonneg (b - b2)). lia.
Qed.

Lemma dist_zero : forall r g b r2 g2 b2,
  dist r g b (r2, g2, b2) = 0 -> r = r2 /\ g = g2 /\ b = b2.
Proof.
  intros r g b r2 g2 b2. unfold dist. intros H.
  pose proof (Z.square_nonneg (r - r2)) as H1.
  pose proof (Z.square_nonneg (g - g2)) as H2.
  pose proof (Z.square_nonneg (b - b2)) as H3.
  assert (E1 : (r - r2) * (r - r2) = 0) by lia.
  assert (E2 : (g - g2) * (g - g2) = 0) by lia.
  assert (E3 : (b - b2) * (b - b2) = 0) by lia.
  apply Z.mul_eq_0 in E1, E2, E3. lia.
Qed.

Lemma dist_self : forall r g b, dist r g b (r, g, b) = 0.
Proof. intros. unfold dist. rewrite !Z.sub_diag. reflexivity. Qed.

Definition in_byte (x : Z) : Prop := 0 <= x <= 255.

Lemma dist_bounded : forall r g b r2 g2 b2,
  in_byte r -> in_byte g -> in_byte b -> in_byte r2 -> in_byte g2 -> in_byte b2 ->
  dist r g b (r2, g2, b2) < INF.
Proof.
  unfold in_byte, dist, INF. intros.
  assert ((r - r2) * (r - r2) <= 255 * 255) by nia.
  assert ((g - g2) * (g - g2) <= 255 * 255) by nia.
  assert ((b - b2) * (b - b2) <= 255 * 255) by nia.
  lia.
Qed.

(* For any table: if some entry with index >= 16 is closer than "infinity",
   the result is the first index >= 16 whose entry minimises the distance. *)
Lemma color256_in_spec : forall table r g b,
  (exists j c, 16 <= j /\ nth_error table (Z.to_nat j) = Some c /\ dist r g b c < INF) ->
  exists c,
    16 <= color256_in table r g b /\
    nth_error table (Z.to_nat (color256_in table r g b)) = Some c /\
    (forall j cj, 16 <= j -> nth_error table (Z.to_nat j) = Some cj ->
                  dist r g b c <= dist r g b cj) /\
    (forall j cj, 16 <= j < color256_in table r g b ->
                  nth_error table (Z.to_nat j) = Some cj ->
                  dist r g b c < dist r g b cj).
Proof.
  intros table r g b (j0 & c0 & Hj0 & Hn0 & Hd0).
  unfold color256_in.
  set (elig := fun ic : Z * rgb => 16 <=? fst ic).
  set (cost := fun ic : Z * rgb => dist r g b (snd ic)).
  set (key := fun ic : Z * rgb => fst ic).
  destruct (scan_spec elig cost key (enumerate_from 0 table) 0 INF)
    as [[Hres Hall] | (l1 & [i c] & l2 & Hl & Hex & Hres & Hlt & H1 & H2)].
  - exfalso.
    assert (Hin : In (0 + Z.of_nat (Z.to_nat j0), c0) (enumerate_from 0 table))
      by (apply enumerate_In; exact Hn0).
    specialize (Hall _ Hin). unfold elig, cost in Hall. cbn [fst snd] in Hall.
    assert (E : (16 <=? 0 + Z.of_nat (Z.to_nat j0)) = true) by (apply Z.leb_le; lia).
    specialize (Hall E). lia.
  - rewrite Hres. unfold key, elig, cost in *. cbn [fst snd] in *.
    apply Z.leb_le in Hex.
    assert (Hin : In (i, c) (enumerate_from 0 table)).
    { rewrite Hl. apply in_or_app. right. left. reflexivity. }
    apply In_enumerate in Hin. destruct Hin as [_ Hnth]. rewrite Z.sub_0_r in Hnth.
    destruct (enumerate_split _ _ _ _ _ _ Hl) as [Hlo Hhi].
    exists c. split; [exact Hex|]. split; [exact Hnth|]. split.
    + intros j cj Hj Hn.
      assert (Hin : In (0 + Z.of_nat (Z.to_nat j), cj) (enumerate_from 0 table))
        by (apply enumerate_In; exact Hn).
      replace (0 + Z.of_nat (Z.to_nat j)) with j in Hin by lia.
      rewrite Hl in Hin. apply in_app_or in Hin.
      assert (Ej : (16 <=? j) = true) by (apply Z.leb_le; lia).
      destruct Hin as [Hin | [Hin | Hin]].
      * specialize (H1 _ Hin Ej). cbn [snd] in H1. lia.
      * inversion Hin; subst. lia.
      * specialize (H2 _ Hin Ej). cbn [snd] in H2. lia.
    + intros j cj Hj Hn.
      assert (Hin : In (0 + Z.of_nat (Z.to_nat j), cj) (enumerate_from 0 table))
        by (apply enumerate_In; exact Hn).
      replace (0 + Z.of_nat (Z.to_nat j)) with j in Hin by lia.
      rewrite Hl in Hin. apply in_app_or in Hin.
      assert (Ej : (16 <=? j) = true) by (apply Z.leb_le; lia).
      destruct Hin as [Hin | [Hin | Hin]].
      * specialize (H1 _ Hin Ej). cbn [snd] in H1. exact H1.
      * inversion Hin; subst. lia.
      * specialize (Hhi _ Hin). cbn [fst] in Hhi. lia.
Qed.

(* table facts (regenerated data) *)
Definition byte_b (x : Z) : bool := (0 <=? x) && (x <=? 255).
Definition rgb_in_range (c : rgb) : bool :=
  let '(r, g, b) := c in byte_b r && byte_b g && byte_b b.

Lemma colors_256_in_range : forallb rgb_in_range colors_256 = true.
Proof. vm_compute. reflexivity. Qed.

Lemma colors_256_has_16 : exists c, nth_error colors_256 16 = Some c.
Proof. vm_compute. eexists. reflexivity. Qed.

Lemma rgb_in_range_spec : forall r g b, rgb_in_range (r, g, b) = true ->
  in_byte r /\ in_byte g /\ in_byte b.
Proof.
  unfold rgb_in_range, byte_b, in_byte. intros r g b H.
  repeat (apply andb_prop in H; destruct H as [H ?]).
  repeat match goal with H : (_ <=? _) = true |- _ => apply Z.leb_le in H end. lia.
Qed.

Theorem color256_nearest : forall r g b,
  in_byte r -> in_byte g -> in_byte b ->
  exists c,
    16 <= color256 r g b < len colors_256 /\
    nth_error colors_256 (Z.to_nat (color256 r g b)) = Some c /\
    (forall j cj, 16 <= j -> nth_error colors_256 (Z.to_nat j) = Some cj ->
                  dist r g b c <= dist r g b cj) /\
    (forall j cj, 16 <= j < color256 r g b ->
                  nth_error colors_256 (Z.to_nat j) = Some cj ->
                  dist r g b c < dist r g b cj).
Proof.
  intros r g b Hr Hg Hb. unfold color256.
  destruct colors_256_has_16 as [c16 H16].
  assert (Hin : In c16 colors_256) by (eapply nth_error_In; exact H16).
  pose proof (proj1 (forallb_forall _ _) colors_256_in_range _ Hin) as Hrange.
  destruct c16 as [[r2 g2] b2]. apply rgb_in_range_spec in Hrange.
  destruct Hrange as (R1 & R2 & R3).
  destruct (color256_in_spec colors_256 r g b) as (c & H1 & H2 & H3 & H4).
  { exists 16, (r2, g2, b2). split; [lia|]. split; [exact H16|].
    apply dist_bounded; assumption. }
  exists c. split; [|split; [exact H2|split; assumption]].
  split; [exact H1|].
  assert (Hlt : (Z.to_nat (color256_in colors_256 r g b) < List.length colors_256)%nat).
  { apply nth_error_Some. intro HN. apply (eq_trans (eq_sym H2)) in HN. discriminate. }
  unfold len. lia.
Qed.

(* A colour present in the table at an index >= 16 maps to the first index
   >= 16 that holds it (any r g b, any table). *)
Theorem color256_in_fixpoint : forall table i r g b,
  16 <= i -> nth_error table (Z.to_nat i) = Some (r, g, b) ->
  let k := color256_in table r g b in
  16 <= k <= i /\ nth_error table (Z.to_nat k) = Some (r, g, b) /\
  (forall j, 16 <= j < k -> nth_error table (Z.to_nat j) <> Some (r, g, b)).
Proof.
  intros table i r g b Hi Hn k.
  destruct (color256_in_spec table r g b) as (c & H1 & H2 & H3 & H4).
  { exists i, (r, g, b). split; [exact Hi|]. split; [exact Hn|].
    rewrite dist_self. unfold INF. lia. }
  fold k in H1, H2, H4.
  pose proof (H3 _ _ Hi Hn) as Hle. rewrite dist_self in Hle.
  pose proof (dist_nonneg r g b c) as Hge.
  assert (Hz : dist r g b c = 0) by lia.
  destruct c as [[r2 g2] b2]. apply dist_zero in Hz. destruct Hz as (-> & -> & ->).
  split; [|split; [exact H2|]].
  - split; [exact H1|].
    destruct (Z_le_gt_dec k i) as [Hki | Hki]; [exact Hki|].
    exfalso. assert (Hlt : 16 <= i < k) by lia.
    specialize (H4 _ _ Hlt Hn). rewrite !dist_self in H4. lia.
  - intros j Hj Hnj. specialize (H4 _ _ Hj Hnj). rewrite !dist_self in H4. lia.
Qed.

(* The same, checked by evaluation on the regenerated table (finite). *)
Definition rgb_eqb (a b : rgb) : bool :=
  let '(r, g, b1) := a in let '(r2, g2, b2) := b in (r =? r2) && (g =? g2) && (b1 =? b2).
Fixpoint first_index_ge16 (c : rgb) (l : list (Z * rgb)) : Z :=
  match l with
  | [] => -1
  | (i, c') :: r => if (16 <=? i) && rgb_eqb c c' then i else first_index_ge16 c r
  end.
Lemma color256_fixpoint_table :
  forallb (fun ic : Z * rgb =>
             let '(r, g, b) := snd ic in
             if 16 <=? fst ic
             then color256 r g b =? first_index_ge16 (snd ic) (enumerate_from 0 colors_256)
             else true)
          (enumerate_from 0 colors_256) = true.
Proof. vm_compute. reflexivity. Qed.

(* ---------------------------------------------------------------------- *)
(* 16 colours *)

Definition candidate (r g b : Z) (exclude : list str) (name : str) : bool :=
  negb (str_eqb name s_ansidefault) && negb (mem_str name (exclude_list r g b exclude)).

Lemma closest_ansi_in_spec : forall table r g b exclude,
  (exists n c, In (n, c) table /\ candidate r g b exclude n = true /\ dist r g b c < INF) ->
  exists l1 c l2,
    table = l1 ++ (closest_ansi_in table r g b exclude, c) :: l2 /\
    candidate r g b exclude (closest_ansi_in table r g b exclude) = true /\
    (forall n' c', In (n', c') l1 -> candidate r g b exclude n' = true ->
                   dist r g b c < dist r g b c') /\
    (forall n' c', In (n', c') l2 -> candidate r g b exclude n' = true ->
                   dist r g b c <= dist r g b c').
Proof.
  intros table r g b exclude (n0 & c0 & Hin0 & Hc0 & Hd0).
  unfold closest_ansi_in.
  set (elig := fun nc : str * rgb =>
                 negb (str_eqb (fst nc) s_ansidefault) &&
                 negb (mem_str (fst nc) (exclude_list r g b exclude))).
  set (cost := fun nc : str * rgb => dist r g b (snd nc)).
  set (key := fun nc : str * rgb => fst nc).
  destruct (scan_spec elig cost key table s_ansidefault INF)
    as [[Hres Hall] | (l1 & [n c] & l2 & Hl & Hex & Hres & Hlt & H1 & H2)].
  - exfalso. specialize (Hall _ Hin0 Hc0). unfold cost in Hall. cbn [snd] in Hall. lia.
  - rewrite Hres. unfold key, cost in *. cbn [fst snd] in *.
    exists l1, c, l2. split; [exact Hl|]. split; [exact Hex|]. split.
    + intros n' c' Hin Hc. exact (H1 _ Hin Hc).
    + intros n' c' Hin Hc. exact (H2 _ Hin Hc).
Qed.

Lemma ansi_rgb_in_range : forallb (fun nc : str * rgb => rgb_in_range (snd nc)) ansi_colors_to_rgb = true.
Proof. vm_compute. reflexivity. Qed.

Theorem closest_ansi_nearest : forall r g b exclude,
  in_byte r -> in_byte g -> in_byte b ->
  (exists n c, In (n, c) ansi_colors_to_rgb /\ candidate r g b exclude n = true) ->
  exists l1 c l2,
    ansi_colors_to_rgb = l1 ++ (closest_ansi r g b exclude, c) :: l2 /\
    candidate r g b exclude (closest_ansi r g b exclude) = true /\
    (forall n' c', In (n', c') l1 -> candidate r g b exclude n' = true ->
                   dist r g b c < dist r g b c') /\
    (forall n' c', In (n', c') l2 -> candidate r g b exclude n' = true ->
                   dist r g b c <= dist r g b c').
Proof.
  intros r g b exclude Hr Hg Hb (n & c & Hin & Hc).
  apply closest_ansi_in_spec. exists n, c. split; [exact Hin|]. split; [exact Hc|].
  pose proof (proj1 (forallb_forall _ _) ansi_rgb_in_range _ Hin) as Hrange.
  cbn [snd] in Hrange. destruct c as [[r2 g2] b2].
  apply rgb_in_range_spec in Hrange. destruct Hrange as (R1 & R2 & R3).
  apply dist_bounded; assumption.
Qed.

(* With at most one excluded name (all the encoder ever passes) there is
   always a candidate, so the result is a real palette name. *)
Definition s_ansired : str := Eval vm_compute in zs "ansired".
Definition s_ansigreen : str := Eval vm_compute in zs "ansigreen".

Lemma str_eqb_eq : forall a b, str_eqb a b = true <-> a = b.
Proof.
  induction a as [|x a IH]; destruct b as [|y b]; cbn [str_eqb]; split; intros H;
    try reflexivity; try discriminate.
  - apply andb_prop in H. destruct H as [H1 H2]. apply Z.eqb_eq in H1. apply IH in H2. congruence.
  - inversion H; subst. rewrite Z.eqb_refl. cbn. apply IH. reflexivity.
Qed.

Lemma red_green_in_table :
  (exists c, In (s_ansired, c) ansi_colors_to_rgb) /\
  (exists c, In (s_ansigreen, c) ansi_colors_to_rgb).
Proof. split; eexists; vm_compute; tauto. Qed.

Lemma candidate_exists_small_exclude : forall r g b exclude,
  (List.length exclude <= 1)%nat ->
  exists n c, In (n, c) ansi_colors_to_rgb /\ candidate r g b exclude n = true.
Proof.
  intros r g b exclude Hlen.
  destruct red_green_in_table as [[cr Hr] [cg Hg]].
  assert (Hst_r : mem_str s_ansired stale_excludes = false) by (vm_compute; reflexivity).
  assert (Hst_g : mem_str s_ansigreen stale_excludes = false) by (vm_compute; reflexivity).
  assert (Hd_r : str_eqb s_ansired s_ansidefault = false) by (vm_compute; reflexivity).
  assert (Hd_g : str_eqb s_ansigreen s_ansidefault = false) by (vm_compute; reflexivity).
  assert (Hmem : forall x l, mem_str x (exclude_list r g b l) = mem_str x l || (if 30 <? saturation r g b then mem_str x stale_excludes else false)).
  { intros x l. unfold exclude_list, mem_str. destruct (30 <? saturation r g b).
    - apply existsb_app.
    - rewrite orb_false_r. reflexivity. }
  destruct exclude as [|e [|e2 rest]]; [| |cbn in Hlen; lia].
  - exists s_ansired, cr. split; [exact Hr|]. unfold candidate.
    rewrite Hd_r, Hmem, Hst_r. cbn. destruct (30 <? saturation r g b); reflexivity.
  - destruct (str_eqb s_ansired e) eqn:E.
    + apply str_eqb_eq in E. subst e.
      exists s_ansigreen, cg. split; [exact Hg|]. unfold candidate.
      rewrite Hd_g, Hmem, Hst_g.
      assert (X : mem_str s_ansigreen [s_ansired] = false) by (vm_compute; reflexivity).
      rewrite X. destruct (30 <? saturation r g b); reflexivity.
    + exists s_ansired, cr. split; [exact Hr|]. unfold candidate.
      rewrite Hd_r, Hmem, Hst_r. cbn [mem_str existsb]. rewrite E. cbn.
      destruct (30 <? saturation r g b); reflexivity.
Qed.

(* finite facts over the regenerated tables *)
Lemma closest_ansi_fixpoint_table :
  forallb (fun nc : str * rgb =>
             let '(r, g, b) := snd nc in
             str_eqb (fst nc) s_ansidefault || str_eqb (closest_ansi r g b []) (fst nc))
          ansi_colors_to_rgb = true.
Proof. vm_compute. reflexivity. Qed.

(* every palette name has a foreground and a background code, and ansi.py's
   inverse tables give the name back *)
Lemma code_tables_inverse :
  forallb (fun nc : str * rgb =>
             match assoc (fst nc) fg_ansi_colors, assoc (fst nc) bg_ansi_colors with
             | Some f, Some b =>
                 match assocZ f ansi_fg_inv, assocZ b ansi_bg_inv with
                 | Some nf, Some nb => str_eqb nf (fst nc) && str_eqb nb (fst nc)
                 | _, _ => false
                 end
             | _, _ => false
             end) ansi_colors_to_rgb = true.
Proof. vm_compute. reflexivity. Qed.

(* the name tables agree: ANSI_COLOR_NAMES = keys of the three dicts *)
Lemma name_tables_agree :
  forallb (fun n => match assoc n fg_ansi_colors, assoc n bg_ansi_colors, assoc n ansi_colors_to_rgb with
                    | Some _, Some _, Some _ => true | _, _, _ => false end) ansi_color_names = true
  /\ List.length ansi_color_names = List.length ansi_colors_to_rgb
  /\ List.length fg_ansi_colors = List.length ansi_color_names
  /\ List.length bg_ansi_colors = List.length ansi_color_names.
Proof. vm_compute. repeat split; reflexivity. Qed.

(* ansi.py's _256_colors is "#rrggbb" of the encoder's table, index by index *)
Lemma ansi_256_hex_is_table :
  forallb (fun ic : Z * rgb =>
             let '(r, g, b) := snd ic in
             match assocZ (fst ic) ansi_256_hex with
             | Some h => str_eqb h (35 :: hex02 r ++ hex02 g ++ hex02 b)
             | None => false
             end) (enumerate_from 0 colors_256) = true
  /\ List.length ansi_256_hex = List.length colors_256.
Proof. vm_compute. split; reflexivity. Qed.

Theorem closest_ansi_fixpoint : forall name r g b,
  In (name, (r, g, b)) ansi_colors_to_rgb -> name <> s_ansidefault ->
  closest_ansi r g b [] = name.
Proof.
  intros name r g b Hin Hne.
  pose proof (proj1 (forallb_forall _ _) closest_ansi_fixpoint_table _ Hin) as H.
  cbn [fst snd] in H.
  apply orb_prop in H. destruct H as [H | H]; apply str_eqb_eq in H.
  - contradiction.
  - exact H.
Qed.
