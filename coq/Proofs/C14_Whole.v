(* The whole stored history over a whole session, either kind of History
   object: it is the initial stored history followed by the log of the texts
   that accept / append_to_history / reset(append_to_history=True) added - and
   nothing else ever changes it. *)
From Coq Require Import ZArith List Bool Lia.
From PTK Require Import Lib.Sx Lib.Py Model.Document Model.BufferEdit Model.C14_HistoryNav
  Proofs.C14_Facts Proofs.C14_Nav Proofs.C14_Accept Proofs.C14_Mixed Proofs.C14_Threaded Proofs.C14_AnyKind.
Import ListNotations.
Open Scope Z_scope.

(* what Buffer.append_to_history adds to the backend: the displayed text, unless
   it is empty or equals the newest string History.get_strings() shows *)
Definition app_list (s : hs) : list str :=
  match text s with
  | [] => []
  | t => match ls (hist_for_get s) with
         | [] => [t]
         | x :: _ => if str_eqb x t then [] else [t]
         end
  end.

Lemma hist_for_get_sto s : sto (hist_for_get s) = sto (store s).
Proof. unfold hist_for_get. destruct (thr (th s)); [reflexivity | apply ensure_loaded_sto]. Qed.

Lemma do_append_store s h t : store (do_append s h t) = append_string h t.
Proof. unfold do_append. destruct (thr (th s)); reflexivity. Qed.

Lemma append_sto s : sto (store (append_to_history s)) = sto (store s) ++ app_list s.
Proof.
  unfold append_to_history, app_list. destruct (text s) as [|ch t]; [rewrite app_nil_r; reflexivity|].
  destruct (ls (hist_for_get s)) as [|x r].
  - rewrite do_append_store, sto_append, hist_for_get_sto. reflexivity.
  - destruct (str_eqb x (ch :: t)).
    + proj. rewrite hist_for_get_sto, app_nil_r. reflexivity.
    + rewrite do_append_store, sto_append, hist_for_get_sto. reflexivity.
Qed.

Lemma app_list_shape s : app_list s = [] \/ (app_list s = [text s] /\ text s <> []).
Proof.
  unfold app_list. destruct (text s) as [|ch t]; [left; reflexivity|].
  destruct (ls (hist_for_get s)) as [|x r]; [right; split; [reflexivity | discriminate]|].
  destruct (str_eqb x (ch :: t)); [left; reflexivity | right; split; [reflexivity | discriminate]].
Qed.

(* InMemoryHistory/FileHistory: compared with the newest STORED entry *)
Lemma app_list_base s :
  thr (th s) = false -> Coh (store s) ->
  app_list s = if stored_skip (sto (store s)) (text s) then [] else [text s].
Proof.
  intros Ht Hc. destruct (append_spec s Ht Hc) as (A & _). cbv zeta in A. rewrite append_sto in A.
  destruct (stored_skip (sto (store s)) (text s)).
  - rewrite <- (app_nil_r (sto (store s))) in A at 2. apply app_inv_head in A. exact A.
  - apply app_inv_head in A. exact A.
Qed.

(* what one operation adds to the stored history *)
Definition added (c : cfg) (s : hs) (o : op) : list str :=
  match o with
  | OAccept => if snd (validate c s true) then app_list (fst (validate c s true)) else []
  | OAppend => app_list s
  | OReset _ _ true => app_list s
  | _ => []
  end.

Lemma core_sto c s o : sto (store (snd (fst (step_core c s o)))) = sto (store s) ++ added c s o.
Proof.
  destruct o; cbn [added]; try rewrite app_nil_r;
    try (match goal with |- context [step_core c s ?o] =>
           destruct (nav_core_frame c s o I) as (_ & E & _); rewrite E; reflexivity end);
    cbn [step_core ok fst snd].
  - destruct (insert_text _ _ _ _); cbn [of_res ok fst snd]; [rewrite write_back_store|]; reflexivity.
  - destruct (delete_before_cursor _ _); cbn [of_res ok fst snd]; [rewrite write_back_store|]; reflexivity.
  - destruct (delete _ _); cbn [of_res ok fst snd]; [rewrite write_back_store|]; reflexivity.
  - cbn [of_res ok fst snd]. rewrite write_back_store; reflexivity.
  - unfold validate_and_handle.
    destruct (validate_frame c s true) as (_ & E & _).
    destruct (validate c s true) as [s1 okv]; cbn [fst snd] in *.
    destruct okv; cbn [fst snd]; [|rewrite E, app_nil_r; reflexivity].
    destruct (keep c); [|unfold reset; proj]; rewrite append_sto, E; reflexivity.
  - unfold reset; proj. destruct app; [apply append_sto | rewrite app_nil_r; reflexivity].
  - unfold load_start. destruct (task s); [reflexivity|].
    destruct (thr (th s)); [destruct (tstarted (th s))|]; reflexivity.
  - apply (pop_n_sto 1).
  - apply pop_n_sto.
  - reflexivity.
  - apply append_sto.
  - reflexivity.
  - unfold thread_step. destruct (thr (th s) && tstarted (th s)); [|reflexivity].
    destruct (tsrc (th s)); reflexivity.
Qed.

Lemma step_sto c s o : sto (store (step_state c s o)) = sto (store s) ++ added c s o.
Proof.
  rewrite step_state_post.
  destruct (post_spec c (snd (fst (step_core c s o)))) as (E & _). rewrite E. apply core_sto.
Qed.

(* the log of a session *)
Fixpoint log (c : cfg) (s : hs) (ops : list op) : list str :=
  match ops with
  | [] => []
  | o :: r => added c s o ++ log c (step_state c s o) r
  end.

Theorem steps_sto c ops : forall s, sto (store (steps c s ops)) = sto (store s) ++ log c s ops.
Proof.
  induction ops as [|o r IH]; intros s; cbn [steps fold_left log]; [rewrite app_nil_r; reflexivity|].
  fold (steps c (step_state c s o) r). rewrite IH, step_sto, app_assoc. reflexivity.
Qed.

(* only accept / append_to_history / reset(append) add anything, at most one
   line, and accept adds only the text it returns *)
Lemma added_shape c s o :
  added c s o = [] \/
  (added c s o = [text s] /\ text s <> [] /\
   match o with
   | OAccept => snd (validate_and_handle c s) = Some (text s)
   | OAppend | OReset _ _ true => True
   | _ => False
   end).
Proof.
  destruct o; cbn [added]; auto.
  - pose proof (validate_frame c s true) as F. pose proof (validate_wi c s true) as W.
    unfold validate_and_handle.
    destruct (validate c s true) as [s1 okv]; cbn [fst snd] in *.
    destruct okv; [|left; reflexivity].
    assert (T : text s1 = text s) by (apply text_eq; [apply F | exact W]).
    destruct (app_list_shape s1) as [A|(A & B)]; [left; exact A|].
    right. rewrite T in A, B. split; [exact A|]. split; [exact B|].
    cbv zeta. cbn [snd]. rewrite ?T. reflexivity.
  - destruct app; [|left; reflexivity].
    destruct (app_list_shape s) as [A|(A & B)]; [left; exact A | right; auto].
  - destruct (app_list_shape s) as [A|(A & B)]; [left; exact A | right; auto].
Qed.

(* browsing sequences add nothing: the log is empty *)
Lemma browse_log_nil c ops : forall s, Forall browse_opT ops -> log c s ops = [].
Proof.
  induction ops as [|o r IH]; intros s H; cbn [log]; [reflexivity|].
  inversion H; subst. rewrite IH by assumption. rewrite app_nil_r.
  destruct H2 as [[Ho|[Ho|[Ho|Ho]]]|Ho]; try (subst o; reflexivity);
    destruct o; cbn in Ho; try contradiction; reflexivity.
Qed.
