(* C11 - the cursor row/column that render computes from (text, cursor) address a
   line of the document: derived from the Document theorems of C02
   (Proofs/C02_Coords.v, C02_Lines.v), so that C11_render_* need no hypothesis
   about the document beyond 0 <= cursor <= len text. *)
From Coq Require Import ZArith List Bool Lia.
From PTK Require Import Lib.Sx Lib.Py Model.Document Model.C11_Scroll Model.C11_CopyBody
     Proofs.C02_Base Proofs.C02_Coords Proofs.C02_Lines
     Proofs.C11_VarPrefixFacts Proofs.C11_RenderFacts.
Import ListNotations.
Open Scope Z_scope.

Lemma doc_cursor_addresses_line : forall text cursor, 0 <= cursor <= len text ->
  exists line,
    0 <= r_row text cursor /\
    nth_error (r_src text) (Z.to_nat (r_row text cursor)) = Some line /\
    0 <= r_col text cursor <= len line.
Proof.
  intros text cursor Hc. set (d := mkdoc text cursor).
  assert (Hv : valid d) by (unfold valid, d; cbn [dtext dcur]; exact Hc).
  destruct (C02c_cursor_row_col d Hv) as [Er Ec].
  pose proof (cursor_row_bounds d Hv) as Hb.
  pose proof (C02c_current_line_nth d Hv) as Hl.
  assert (Er' : cursor_position_row d = r_row text cursor) by (rewrite Er; reflexivity).
  assert (Ec' : r_col text cursor = len (current_line_before_cursor d)) by reflexivity.
  rewrite Er' in Hb, Hl. unfold line_count, lines in Hb. cbn [dtext d] in Hb.
  exists (current_line d). split; [lia|]. split.
  - rewrite Hl. unfold lines, r_src. cbn [dtext d]. apply nth_error_nth'. unfold len in Hb. lia.
  - rewrite Ec'. unfold current_line. rewrite len_app.
    pose proof (len_nonneg (current_line_before_cursor d)). pose proof (len_nonneg (current_line_after_cursor d)). lia.
Qed.

Lemma render_wrap_cursor_doc : forall g W Hh xpos ypos text cursor st,
  (forall c, tab_sw g c = 1 /\ tab_dw g c = 1) -> 0 <= g_tabstop g ->
  0 <= g_top g /\ 0 <= g_bottom g /\ 0 <= g_left g /\ 0 <= g_right g ->
  1 <= Hh -> 0 <= vs st -> 0 <= cursor <= len text ->
  g_wrap g = true ->
  (forall l k, epw (g_haspfx g) (cfg_pfx g) l k + 1 <= r_bwid g W text) ->
  exists line r ucol Y X,
    nth_error (r_src text) (Z.to_nat (r_row text cursor)) = Some line /\
    render g W Hh xpos ypos text cursor st = Some r /\ r_status r = 0 /\
    r_ui r = (r_row text cursor, ucol) /\
    pl_d2s (process_line (g_bflag g) (g_before g) (g_tabstop g) TABCH1 TABCH2 (r_row text cursor) line) ucol
      = r_col text cursor /\
    r_cursor r = (Y, X) /\
    ypos <= Y < ypos + Hh /\
    xpos + r_mw r <= X < xpos + r_mw r + r_bw r /\ r_bw r = r_bwid g W text.
Proof.
  intros g W Hh xpos ypos text cursor st Hn Ht Ho HW Hvs Hc Hw Hfit.
  destruct (doc_cursor_addresses_line text cursor Hc) as (line & Hdoc).
  destruct (render_wrap_cursor g W Hh xpos ypos text cursor st Hn Ht Ho HW Hvs line Hdoc Hw Hfit)
    as (r & ucol & Y & X & H).
  exists line, r, ucol, Y, X. split; [apply Hdoc | exact H].
Qed.

Lemma render_nowrap_cursor_doc : forall g W Hh xpos ypos text cursor st,
  (forall c, tab_sw g c = 1 /\ tab_dw g c = 1) -> 0 <= g_tabstop g ->
  0 <= g_top g /\ 0 <= g_bottom g /\ 0 <= g_left g /\ 0 <= g_right g ->
  1 <= Hh -> 0 <= cursor <= len text ->
  g_wrap g = false ->
  1 <= r_bwid g W text - (if g_haspfx g then strw (tab_sw g) (cfg_pfx g (r_row text cursor) 0) else 0) ->
  exists line r ucol Y X,
    nth_error (r_src text) (Z.to_nat (r_row text cursor)) = Some line /\
    render g W Hh xpos ypos text cursor st = Some r /\ r_status r = 0 /\
    r_ui r = (r_row text cursor, ucol) /\
    pl_d2s (process_line (g_bflag g) (g_before g) (g_tabstop g) TABCH1 TABCH2 (r_row text cursor) line) ucol
      = r_col text cursor /\
    r_cursor r = (Y, X) /\
    ypos <= Y < ypos + Hh /\
    xpos + r_mw r <= X < xpos + r_mw r + r_bw r /\ r_bw r = r_bwid g W text.
Proof.
  intros g W Hh xpos ypos text cursor st Hn Ht Ho HW Hc Hw Hfit.
  destruct (doc_cursor_addresses_line text cursor Hc) as (line & Hdoc).
  destruct (render_nowrap_cursor g W Hh xpos ypos text cursor st Hn Ht Ho HW line Hdoc Hw Hfit)
    as (r & ucol & Y & X & H).
  exists line, r, ucol, Y, X. split; [apply Hdoc | exact H].
Qed.
