(* C11 - the cursor row/column that render computes from (text, cursor) address a
   line of the document, and the character there is the document character
   under the cursor: derived from the Document theorems of C02
   (Proofs/C02_Coords.v, C02_Lines.v), so that C11_render_* need no hypothesis
   about the document beyond 0 <= cursor <= len text and speak about the
   DOCUMENT character under the cursor. *)
From Coq Require Import ZArith List Bool Lia.
From PTK Require Import Lib.Sx Lib.Py Model.Document Model.C11_Scroll Model.C11_CopyBody
     Proofs.C02_Base Proofs.C02_Coords Proofs.C02_Lines
     Proofs.C11_CopyFacts Proofs.C11_VarPrefixFacts Proofs.C11_RenderFacts.
Import ListNotations.
Open Scope Z_scope.

Lemma doc_cursor_addresses_line : forall text cursor, 0 <= cursor <= len text ->
  exists line,
    (0 <= r_row text cursor /\
     nth_error (r_src text) (Z.to_nat (r_row text cursor)) = Some line /\
     0 <= r_col text cursor <= len line) /\
    (* the character of that line at the cursor column is the document character under the cursor *)
    (forall ch, nth_error text (Z.to_nat cursor) = Some ch -> ch <> NL ->
       nth_error line (Z.to_nat (r_col text cursor)) = Some ch) /\
    (nth_error text (Z.to_nat cursor) = None \/ nth_error text (Z.to_nat cursor) = Some NL ->
       r_col text cursor = len line).
Proof.
  intros text cursor Hc. set (d := mkdoc text cursor).
  assert (Hv : valid d) by (unfold valid, d; cbn [dtext dcur]; exact Hc).
  destruct (C02c_cursor_row_col d Hv) as [Er Ec].
  pose proof (cursor_row_bounds d Hv) as Hb.
  pose proof (C02c_current_line_nth d Hv) as Hl.
  assert (Er' : cursor_position_row d = r_row text cursor) by (rewrite Er; reflexivity).
  assert (Ec' : r_col text cursor = len (current_line_before_cursor d)) by reflexivity.
  rewrite Er' in Hb, Hl. unfold line_count, lines in Hb. cbn [dtext d] in Hb.
  pose proof (len_nonneg (current_line_before_cursor d)) as Hb0.
  pose proof (len_nonneg (current_line_after_cursor d)) as Ha0.
  (* the part of the current line after the cursor starts with text[cursor] unless that is a line end *)
  assert (Hafter : current_line_after_cursor d = before_first NL (skipn (Z.to_nat cursor) text)).
  { unfold current_line_after_cursor, text_after_cursor. cbn [dtext dcur d].
    now rewrite slice_from_in_range by lia. }
  assert (Hnth0 : nth_error (skipn (Z.to_nat cursor) text) 0 = nth_error text (Z.to_nat cursor)).
  { rewrite nth_error_skipn. f_equal. lia. }
  assert (Hat : nth_error (current_line d) (Z.to_nat (r_col text cursor))
                = nth_error (current_line_after_cursor d) 0).
  { unfold current_line. rewrite Ec'. rewrite nth_error_app2 by (unfold len; lia).
    f_equal. unfold len. lia. }
  exists (current_line d). split; [split; [lia|split]|split].
  - rewrite Hl. unfold lines, r_src. cbn [dtext d]. apply nth_error_nth'. unfold len in Hb. lia.
  - rewrite Ec'. unfold current_line. rewrite len_app. lia.
  - intros ch Hch Hne. rewrite Hat, Hafter. rewrite <- Hnth0 in Hch.
    destruct (skipn (Z.to_nat cursor) text) as [|x rest]; [discriminate|].
    cbn [nth_error] in Hch. inversion Hch; subst x. cbn [before_first].
    destruct (ch =? NL) eqn:E; [lia | reflexivity].
  - intros Hend. rewrite Ec'. unfold current_line. rewrite len_app.
    assert (current_line_after_cursor d = []); [|rewrite H; rewrite len_nil; lia].
    rewrite Hafter. rewrite <- Hnth0 in Hend.
    destruct (skipn (Z.to_nat cursor) text) as [|x rest]; [reflexivity|].
    cbn [nth_error] in Hend. destruct Hend as [Hn | Hn]; [discriminate|]. inversion Hn; subst x.
    cbn [before_first]. now rewrite Z.eqb_refl.
Qed.

(* what the window must show at the cursor: the document character under the
   cursor (the first tab cell under TabsProcessor), or the blank after the line end *)
Definition shown_char (g : cfg) (text : str) (cursor : Z) : Z :=
  match nth_error text (Z.to_nat cursor) with
  | Some ch => if ch =? NL then SP else shown (g_tabstop g) TABCH1 ch
  | None => SP
  end.

Lemma processed_char_is_doc_char : forall g text cursor line ucol c,
  0 <= g_tabstop g -> 0 <= r_col text cursor <= len line ->
  (forall ch, nth_error text (Z.to_nat cursor) = Some ch -> ch <> NL ->
     nth_error line (Z.to_nat (r_col text cursor)) = Some ch) ->
  (nth_error text (Z.to_nat cursor) = None \/ nth_error text (Z.to_nat cursor) = Some NL ->
     r_col text cursor = len line) ->
  pl_s2d (process_line (g_bflag g) (g_before g) (g_tabstop g) TABCH1 TABCH2 (r_row text cursor) line)
         (r_col text cursor) = Some ucol ->
  nth_error (pl_text (process_line (g_bflag g) (g_before g) (g_tabstop g) TABCH1 TABCH2 (r_row text cursor) line) ++ [SP])
            (Z.to_nat ucol) = Some c ->
  c = shown_char g text cursor.
Proof.
  intros g text cursor line ucol c Ht Hcol Hin Hend Hu Hc.
  destruct (process_line_char _ _ _ TABCH1 TABCH2 _ _ _ _ Ht (proj1 Hcol) Hu) as [Hch Hlast].
  pose proof (s2d_bound _ _ _ _ _ _ _ _ _ Ht Hcol Hu) as Hub.
  unfold shown_char.
  destruct (nth_error text (Z.to_nat cursor)) as [ch|] eqn:Et.
  - destruct (ch =? NL) eqn:En.
    + assert (ch = NL) by lia. subst ch.
      specialize (Hlast (Hend (or_intror eq_refl))).
      rewrite nth_error_app2 in Hc by (unfold len in Hlast; lia).
      replace (Z.to_nat ucol - length (pl_text (process_line (g_bflag g) (g_before g) (g_tabstop g) TABCH1 TABCH2 (r_row text cursor) line)))%nat
        with O in Hc by (unfold len in Hlast; lia).
      cbn in Hc. now inversion Hc.
    + specialize (Hch ch (Hin ch eq_refl ltac:(lia))).
      rewrite nth_error_app1 in Hc by (apply nth_error_Some; congruence).
      rewrite Hch in Hc. now inversion Hc.
  - specialize (Hlast (Hend (or_introl eq_refl))).
    rewrite nth_error_app2 in Hc by (unfold len in Hlast; lia).
    replace (Z.to_nat ucol - length (pl_text (process_line (g_bflag g) (g_before g) (g_tabstop g) TABCH1 TABCH2 (r_row text cursor) line)))%nat
      with O in Hc by (unfold len in Hlast; lia).
    cbn in Hc. now inversion Hc.
Qed.

(* the conclusion shared by both modes *)
Definition render_conclusion (g : cfg) (W Hh xpos ypos : Z) (text : str) (cursor : Z) (st : sstate) : Prop :=
  exists line r ucol Y X rowg,
    nth_error (r_src text) (Z.to_nat (r_row text cursor)) = Some line /\
    render g W Hh xpos ypos text cursor st = Some r /\ r_status r = 0 /\
    r_ui r = (r_row text cursor, ucol) /\
    pl_s2d (process_line (g_bflag g) (g_before g) (g_tabstop g) TABCH1 TABCH2 (r_row text cursor) line)
           (r_col text cursor) = Some ucol /\
    pl_d2s (process_line (g_bflag g) (g_before g) (g_tabstop g) TABCH1 TABCH2 (r_row text cursor) line) ucol
      = r_col text cursor /\
    r_cursor r = (Y, X) /\
    ypos <= Y < ypos + Hh /\
    xpos + r_mw r <= X < xpos + r_mw r + r_bw r /\ r_bw r = r_bwid g W text /\
    (* the cursor is registered in rowcol_to_yx, inside the body: the verdict of the _refuted theorems *)
    render_cursor_ok g W Hh xpos ypos text cursor st = true /\
    (* the body cell at the screen cursor shows the DOCUMENT character under the cursor *)
    nth_error (r_grid r) (Z.to_nat (Y - ypos)) = Some rowg /\
    nth_error rowg (Z.to_nat (X - xpos - r_mw r)) = Some (tab_disp g (shown_char g text cursor)).

Lemma render_wrap_cursor_doc : forall g W Hh xpos ypos text cursor st,
  (forall c, tab_sw g c = 1 /\ tab_dw g c = 1) -> 0 <= g_tabstop g ->
  0 <= g_top g /\ 0 <= g_bottom g /\ 0 <= g_left g /\ 0 <= g_right g ->
  1 <= Hh -> 0 <= vs st -> 0 <= cursor <= len text ->
  g_wrap g = true ->
  (forall l k, epw (g_haspfx g) (cfg_pfx g) l k + 1 <= r_bwid g W text) ->
  render_conclusion g W Hh xpos ypos text cursor st.
Proof.
  intros g W Hh xpos ypos text cursor st Hn Ht Ho HW Hvs Hc Hw Hfit.
  destruct (doc_cursor_addresses_line text cursor Hc) as (line & Hdoc & Hin & Hend).
  destruct (render_wrap_cursor g W Hh xpos ypos text cursor st Hn Ht Ho HW Hvs line Hdoc Hw Hfit)
    as (r & ucol & Y & X & Hr & Hs & Hui & Hu & Hd & Hcur & HY & HX & Hbw & Hok & c & rowg & Hcc & G1 & G2).
  exists line, r, ucol, Y, X, rowg.
  rewrite (processed_char_is_doc_char g text cursor line ucol c Ht (proj2 (proj2 Hdoc)) Hin Hend Hu Hcc) in G2.
  repeat split; try assumption; try apply Hdoc; try lia.
  unfold render_cursor_ok, render_cursor_ok_gen. unfold render in Hr. rewrite Hr. exact Hok.
Qed.

Lemma render_nowrap_cursor_doc : forall g W Hh xpos ypos text cursor st,
  (forall c, tab_sw g c = 1 /\ tab_dw g c = 1) -> 0 <= g_tabstop g ->
  0 <= g_top g /\ 0 <= g_bottom g /\ 0 <= g_left g /\ 0 <= g_right g ->
  1 <= Hh -> 0 <= cursor <= len text ->
  g_wrap g = false ->
  1 <= r_bwid g W text - (if g_haspfx g then strw (tab_sw g) (cfg_pfx g (r_row text cursor) 0) else 0) ->
  render_conclusion g W Hh xpos ypos text cursor st.
Proof.
  intros g W Hh xpos ypos text cursor st Hn Ht Ho HW Hc Hw Hfit.
  destruct (doc_cursor_addresses_line text cursor Hc) as (line & Hdoc & Hin & Hend).
  destruct (render_nowrap_cursor g W Hh xpos ypos text cursor st Hn Ht Ho HW line Hdoc Hw Hfit)
    as (r & ucol & Y & X & Hr & Hs & Hui & Hu & Hd & Hcur & HY & HX & Hbw & Hok & c & rowg & Hcc & G1 & G2).
  exists line, r, ucol, Y, X, rowg.
  rewrite (processed_char_is_doc_char g text cursor line ucol c Ht (proj2 (proj2 Hdoc)) Hin Hend Hu Hcc) in G2.
  repeat split; try assumption; try apply Hdoc; try lia.
  unfold render_cursor_ok, render_cursor_ok_gen. unfold render in Hr. rewrite Hr. exact Hok.
Qed.
