(* Lemmas about Model/C14_HistoryNav.v (history browsing and accept). *)
From Coq Require Import ZArith List Bool Lia.
From PTK Require Import Lib.Sx Lib.Py Model.Document Model.BufferEdit Model.C14_HistoryNav.
Import ListNotations.
Open Scope Z_scope.

Ltac proj :=
  cbn [wl wi cur hst pref vst pend store task tfin ehs sel th
       thr nprep tstarted tsrc tprep set_th
       set_wl set_wi_raw set_cur_raw set_hst set_pref set_vst set_pend set_store set_task set_ehs set_sel
       ls sto loaded fst snd] in *.

(* The working index addresses an entry. *)
Definition Inv (s : hs) : Prop := 0 <= wi s < len (wl s).

(* ---------------------------------------------------------------------- *)
(* Frame: what navigation leaves alone. *)
Definition frame (s s' : hs) : Prop :=
  wl s' = wl s /\ store s' = store s /\ task s' = task s /\ tfin s' = tfin s /\ ehs s' = ehs s /\ th s' = th s.

Lemma frame_refl s : frame s s.
Proof. unfold frame; repeat split. Qed.

Lemma frame_trans a b c : frame a b -> frame b c -> frame a c.
Proof. unfold frame; intros (?&?&?&?&?&?) (?&?&?&?&?&?); repeat split; congruence. Qed.

Lemma set_cursor_frame s v : frame s (set_cursor s v).
Proof.
  unfold set_cursor, cursor_changed.
  destruct (_ =? cur s); [|cbv zeta; destruct (_ =? V_VALID)]; unfold frame; proj; repeat split; auto.
Qed.

Lemma set_cursor_wi s v : wi (set_cursor s v) = wi s.
Proof. unfold set_cursor, cursor_changed. destruct (_ =? cur s); [|cbv zeta; destruct (_ =? V_VALID)]; reflexivity. Qed.

Lemma set_cursor_hst s v : hst (set_cursor s v) = hst s.
Proof. unfold set_cursor, cursor_changed. destruct (_ =? cur s); [|cbv zeta; destruct (_ =? V_VALID)]; reflexivity. Qed.

(* the setter keeps the validation state, or forgets a VALID one when the cursor really moves *)
Lemma set_cursor_vst s v :
  vst (set_cursor s v) = vst s \/
  (vst s = V_VALID /\ vst (set_cursor s v) = V_UNKNOWN /\ cur (set_cursor s v) <> cur s).
Proof.
  unfold set_cursor, cursor_changed. destruct (_ =? cur s) eqn:E; [left; reflexivity|].
  cbv zeta. unfold set_pref at 1 2; proj.
  destruct (vst s =? V_VALID) eqn:Ev; [|left; reflexivity].
  right. apply Z.eqb_eq in Ev. apply Z.eqb_neq in E. repeat split; auto.
Qed.

Lemma set_cursor_not_valid s v : vst s <> V_VALID -> vst (set_cursor s v) = vst s.
Proof. intros H. destruct (set_cursor_vst s v) as [E|(E & _)]; [exact E | contradiction]. Qed.

Lemma set_cursor_pend s v : pend (set_cursor s v) = pend s.
Proof. unfold set_cursor, cursor_changed. destruct (_ =? cur s); [|cbv zeta; destruct (_ =? V_VALID)]; reflexivity. Qed.

Lemma text_eq s s' : wl s' = wl s -> wi s' = wi s -> text s' = text s.
Proof. unfold text; intros -> ->; reflexivity. Qed.

Lemma set_cursor_text s v : text (set_cursor s v) = text s.
Proof. apply text_eq; [apply set_cursor_frame | apply set_cursor_wi]. Qed.

(* within range the setter stores exactly the value *)
Lemma set_cursor_cur s v : 0 <= v <= len (text s) -> cur (set_cursor s v) = v.
Proof.
  intros H. unfold set_cursor, cursor_changed.
  destruct (len (text s) <? v) eqn:E1; [lia|].
  destruct (v <? 0) eqn:E2; [lia|].
  rewrite Z.max_r by lia.
  destruct (v =? cur s); [|cbv zeta; destruct (_ =? V_VALID)]; reflexivity.
Qed.

Lemma text_changed_frame c s : frame s (text_changed c s).
Proof.
  unfold text_changed. destruct (val c); [destruct (vwt c)|]; unfold frame; proj; repeat split; auto.
Qed.

Lemma text_changed_wi c s : wi (text_changed c s) = wi s.
Proof. unfold text_changed. destruct (val c); [destruct (vwt c)|]; reflexivity. Qed.

Lemma text_changed_hst c s : hst (text_changed c s) = hst s.
Proof. unfold text_changed. destruct (val c); [destruct (vwt c)|]; reflexivity. Qed.

Lemma text_changed_cur c s : cur (text_changed c s) = cur s.
Proof. unfold text_changed. destruct (val c); [destruct (vwt c)|]; reflexivity. Qed.

Lemma set_wi_frame c s v : frame s (set_wi c s v).
Proof.
  unfold set_wi. destruct (wi s =? v); [apply frame_refl|].
  eapply frame_trans; [|apply text_changed_frame].
  eapply frame_trans; [|apply set_cursor_frame].
  unfold frame; proj; repeat split; auto.
Qed.

Lemma set_wi_wi c s v : wi (set_wi c s v) = v.
Proof.
  unfold set_wi. destruct (wi s =? v) eqn:E; [lia|].
  rewrite text_changed_wi, set_cursor_wi. reflexivity.
Qed.

Lemma set_wi_hst c s v : hst (set_wi c s v) = hst s.
Proof.
  unfold set_wi. destruct (wi s =? v); [reflexivity|].
  rewrite text_changed_hst, set_cursor_hst. reflexivity.
Qed.

Lemma set_history_search_frame s : frame s (set_history_search s).
Proof.
  unfold set_history_search. destruct (ehs s); [destruct (hst s)|]; unfold frame; proj; repeat split; auto.
Qed.

Lemma set_history_search_wi s : wi (set_history_search s) = wi s.
Proof. unfold set_history_search. destruct (ehs s); [destruct (hst s)|]; reflexivity. Qed.

Lemma set_history_search_text s : text (set_history_search s) = text s.
Proof. apply text_eq; [apply set_history_search_frame | apply set_history_search_wi]. Qed.

Lemma history_matches_eq s s' i :
  wl s' = wl s -> hst s' = hst s -> history_matches s' i = history_matches s i.
Proof. unfold history_matches; intros -> ->; reflexivity. Qed.

Lemma nav_loop_frame c idxs : forall s n f, frame s (fst (nav_loop c idxs s n f)).
Proof.
  induction idxs as [|i r IH]; intros s n f; cbn [nav_loop fst]; [apply frame_refl|].
  destruct (history_matches s i).
  - destruct (n - 1 =? 0); cbn [fst].
    + apply set_wi_frame.
    + eapply frame_trans; [apply set_wi_frame | apply IH].
  - destruct (n =? 0); cbn [fst]; [apply frame_refl | apply IH].
Qed.

Lemma history_forward_pos_frame c s n : frame s (history_forward_pos c s n).
Proof.
  unfold history_forward_pos.
  pose proof (nav_loop_frame c (range_up (wi (set_history_search s) + 1) (len (wl (set_history_search s))))
                (set_history_search s) n false) as H.
  destruct (nav_loop _ _ _ _ _) as [s1 found]; cbn [fst] in H.
  eapply frame_trans; [apply set_history_search_frame|].
  eapply frame_trans; [apply H|].
  destruct found; [|apply frame_refl].
  eapply frame_trans; apply set_cursor_frame.
Qed.

Lemma history_backward_pos_frame c s n : frame s (history_backward_pos c s n).
Proof.
  unfold history_backward_pos.
  pose proof (nav_loop_frame c (range_down (wi (set_history_search s) - 1)) (set_history_search s) n false) as H.
  destruct (nav_loop _ _ _ _ _) as [s1 found]; cbn [fst] in H.
  eapply frame_trans; [apply set_history_search_frame|].
  eapply frame_trans; [apply H|].
  destruct found; [apply set_cursor_frame | apply frame_refl].
Qed.

Lemma history_forward_frame c s n : frame s (history_forward c s n).
Proof.
  unfold history_forward. destruct (n =? 0); [apply frame_refl|].
  destruct (n <? 0); [apply history_backward_pos_frame | apply history_forward_pos_frame].
Qed.

Lemma history_backward_frame c s n : frame s (history_backward c s n).
Proof.
  unfold history_backward. destruct (n =? 0); [apply frame_refl|].
  destruct (n <? 0); [apply history_forward_pos_frame | apply history_backward_pos_frame].
Qed.

Lemma go_to_history_frame c s i : frame s (go_to_history c s i).
Proof.
  unfold go_to_history. destruct ((0 <=? i) && (i <? len (wl s))); [|apply frame_refl].
  eapply frame_trans; [apply set_wi_frame | apply set_cursor_frame].
Qed.

Lemma jump_frame c s i p : frame s (jump c s i p).
Proof.
  unfold jump. destruct (_ && _); [|apply frame_refl].
  eapply frame_trans; [apply set_wi_frame | apply set_cursor_frame].
Qed.

Lemma end_of_history_frame c s : frame s (end_of_history c s).
Proof.
  unfold end_of_history.
  eapply frame_trans; [apply history_forward_frame | apply go_to_history_frame].
Qed.

Lemma set_pref_frame s v : frame s (set_pref s v).
Proof. unfold frame; proj; repeat split; auto. Qed.

Lemma cursor_up_frame s n : frame s (cursor_up s n).
Proof.
  unfold cursor_up. eapply frame_trans; [apply set_cursor_frame | apply set_pref_frame].
Qed.

Lemma cursor_down_frame s n : frame s (cursor_down s n).
Proof.
  unfold cursor_down. eapply frame_trans; [apply set_cursor_frame | apply set_pref_frame].
Qed.

Lemma go_start_of_line_frame s : frame s (go_start_of_line s).
Proof. apply set_cursor_frame. Qed.

Lemma auto_up_frame c s n g : frame s (auto_up c s n g).
Proof.
  unfold auto_up. destruct (0 <? _); [apply cursor_up_frame|].
  destruct (sel s); [apply frame_refl|].
  - destruct g.
    + eapply frame_trans; [apply history_backward_frame | apply go_start_of_line_frame].
    + apply history_backward_frame.
Qed.

Lemma auto_down_frame c s n g : frame s (auto_down c s n g).
Proof.
  unfold auto_down. destruct (_ <? _); [apply cursor_down_frame|].
  destruct (sel s); [apply frame_refl|].
  - destruct g.
    + eapply frame_trans; [apply history_forward_frame | apply go_start_of_line_frame].
    + apply history_forward_frame.
Qed.

Lemma set_vst_frame s v : frame s (set_vst s v).
Proof. unfold frame; proj; repeat split; auto. Qed.

Lemma set_pend_frame s v : frame s (set_pend s v).
Proof. unfold frame; proj; repeat split; auto. Qed.

Lemma validate_frame c s sc : frame s (fst (validate c s sc)).
Proof.
  unfold validate. destruct (negb _); cbn [fst]; [apply frame_refl|].
  destruct (val c) as [V|]; [|apply set_vst_frame].
  destruct (V _ _); cbn [fst]; [|apply set_vst_frame].
  destruct sc; [|apply set_vst_frame].
  eapply frame_trans; [apply set_cursor_frame | apply set_vst_frame].
Qed.

Lemma validate_wi c s sc : wi (fst (validate c s sc)) = wi s.
Proof.
  unfold validate. destruct (negb _); cbn [fst]; [reflexivity|].
  destruct (val c) as [V|]; [|reflexivity].
  destruct (V _ _); cbn [fst]; [|reflexivity].
  destruct sc; [|reflexivity]. unfold set_vst; proj. apply set_cursor_wi.
Qed.

Lemma validate_false_cur c s : cur (fst (validate c s false)) = cur s.
Proof.
  unfold validate. destruct (negb _); cbn [fst]; [reflexivity|].
  destruct (val c) as [V|]; [|reflexivity].
  destruct (V _ _); reflexivity.
Qed.

Lemma validate_false_hst c s : hst (fst (validate c s false)) = hst s.
Proof.
  unfold validate. destruct (negb _); cbn [fst]; [reflexivity|].
  destruct (val c) as [V|]; [|reflexivity].
  destruct (V _ _); reflexivity.
Qed.

Lemma flush_frame c s : frame s (flush c s).
Proof.
  unfold flush. destruct (pend s); [|apply frame_refl].
  eapply frame_trans; [apply (set_pend_frame s false)|].
  eapply frame_trans; [apply validate_frame | apply set_pend_frame].
Qed.

Lemma flush_wi c s : wi (flush c s) = wi s.
Proof.
  unfold flush. destruct (pend s); [|reflexivity].
  unfold set_pend at 1; proj. rewrite validate_wi. reflexivity.
Qed.

Lemma flush_cur c s : cur (flush c s) = cur s.
Proof.
  unfold flush. destruct (pend s); [|reflexivity].
  unfold set_pend at 1; proj. rewrite validate_false_cur. reflexivity.
Qed.

Lemma flush_hst c s : hst (flush c s) = hst s.
Proof.
  unfold flush. destruct (pend s); [|reflexivity].
  unfold set_pend at 1; proj. rewrite validate_false_hst. reflexivity.
Qed.

Lemma flush_text c s : text (flush c s) = text s.
Proof. apply text_eq; [apply flush_frame | apply flush_wi]. Qed.

Lemma flush_th c s : th (flush c s) = th s.
Proof. destruct (flush_frame c s) as (_ & _ & _ & _ & _ & H). exact H. Qed.

(* ThreadedHistory's consumer does nothing for the other histories *)
Lemma consume_base s : thr (th s) = false -> consume s = s.
Proof. intros H. unfold consume. rewrite H. reflexivity. Qed.

Lemma consume_th s : th (consume s) = th s.
Proof.
  unfold consume. destruct (thr (th s)); [|reflexivity].
  destruct (task s); [|reflexivity]. destruct (tfin s); reflexivity.
Qed.

(* ---------------------------------------------------------------------- *)
(* Classification of operations *)
Definition is_nav (o : op) : Prop :=
  match o with
  | OBack _ | OFwd _ | OGoto _ | OAutoUp _ _ | OAutoDown _ _ | OEnd
  | OSetCursor _ | OLeft _ | ORight _ | OValidate _ | OJump _ _ | OSelect _ => True
  | _ => False
  end.
Definition is_edit (o : op) : Prop :=
  match o with
  | OInsert _ | ODelBefore _ | ODel _ | OSetText _ => True
  | _ => False
  end.
Definition is_pop (o : op) : Prop :=
  match o with OPop | OPopAll => True | _ => False end.

(* navigation: working lines, history object, loader untouched *)
Lemma nav_core_frame c s o : is_nav o -> frame s (snd (fst (step_core c s o))).
Proof.
  destruct o; cbn [is_nav]; intros H; try contradiction; cbn [step_core ok fst snd].
  - apply history_backward_frame.
  - apply history_forward_frame.
  - apply go_to_history_frame.
  - apply auto_up_frame.
  - apply auto_down_frame.
  - apply end_of_history_frame.
  - apply set_cursor_frame.
  - apply set_cursor_frame.
  - apply set_cursor_frame.
  - apply validate_frame.
  - apply jump_frame.
  - unfold frame; proj; repeat split; auto.
Qed.

Lemma step_state_full c s o :
  step_state c s o = flush c (consume (snd (fst (step_core c s o)))).
Proof.
  unfold step_state, step. destruct (step_core c s o) as [[st s'] r]. reflexivity.
Qed.

(* _cursor_position_changed touches preferred_column and validation_state only *)
Ltac cc := unfold cursor_changed; cbv zeta; destruct (_ =? V_VALID); reflexivity.
Lemma cc_wl x : wl (cursor_changed x) = wl x. Proof. cc. Qed.
Lemma cc_wi x : wi (cursor_changed x) = wi x. Proof. cc. Qed.
Lemma cc_cur x : cur (cursor_changed x) = cur x. Proof. cc. Qed.
Lemma cc_hst x : hst (cursor_changed x) = hst x. Proof. cc. Qed.
Lemma cc_store x : store (cursor_changed x) = store x. Proof. cc. Qed.
Lemma cc_task x : task (cursor_changed x) = task x. Proof. cc. Qed.
Lemma cc_tfin x : tfin (cursor_changed x) = tfin x. Proof. cc. Qed.
Lemma cc_th x : th (cursor_changed x) = th x. Proof. cc. Qed.

(* every operation keeps the kind of the History object *)
Lemma write_back_th c s b : th (write_back c s b) = th s.
Proof.
  unfold write_back. destruct (negb (bcur b =? cur s)); [rewrite cc_th|];
    unfold text_changed;
    destruct (negb (str_eqb _ _)); destruct (val c); try destruct (vwt c); reflexivity.
Qed.

Lemma append_to_history_thr s : thr (th (append_to_history s)) = thr (th s).
Proof.
  unfold append_to_history, do_append. destruct (text s); [reflexivity|].
  destruct (ls (hist_for_get s)); [|destruct (str_eqb _ _)]; try reflexivity;
    destruct (thr (th s)) eqn:E; proj; auto.
Qed.

Lemma pop_step_th s : th (pop_step s) = th s.
Proof.
  unfold pop_step. destruct (thr (th s)); [reflexivity|].
  destruct (task s); [|reflexivity]. destruct (tfin s); [reflexivity|].
  destruct (nth_error _ _); reflexivity.
Qed.

Lemma pop_n_th n : forall s, th (pop_n n s) = th s.
Proof. induction n; intros s; cbn [pop_n]; [reflexivity|]. rewrite IHn. apply pop_step_th. Qed.

Lemma nav_core_th c s o : is_nav o -> th (snd (fst (step_core c s o))) = th s.
Proof. intros H. destruct (nav_core_frame c s o H) as (_ & _ & _ & _ & _ & K). exact K. Qed.

Lemma core_thr c s o : thr (th (snd (fst (step_core c s o)))) = thr (th s).
Proof.
  destruct o; try (rewrite nav_core_th by exact I; reflexivity);
    cbn [step_core ok fst snd].
  - destruct (insert_text _ _ _ _); cbn [of_res ok fst snd]; [rewrite write_back_th|]; reflexivity.
  - destruct (delete_before_cursor _ _); cbn [of_res ok fst snd]; [rewrite write_back_th|]; reflexivity.
  - destruct (delete _ _); cbn [of_res ok fst snd]; [rewrite write_back_th|]; reflexivity.
  - cbn [of_res ok fst snd]. rewrite write_back_th; reflexivity.
  - unfold validate_and_handle.
    destruct (validate_frame c s true) as (_ & _ & _ & _ & _ & F).
    destruct (validate c s true) as [s1 okv]; cbn [fst] in F.
    destruct okv; cbn [fst snd]; [|rewrite F; reflexivity].
    destruct (keep c); [|unfold reset; proj]; rewrite append_to_history_thr, F; reflexivity.
  - unfold reset; proj. destruct app; [apply append_to_history_thr | reflexivity].
  - unfold load_start. destruct (task s); [reflexivity|].
    destruct (thr (th s)) eqn:E; [|proj; exact E]. destruct (tstarted (th s)); reflexivity.
  - rewrite pop_step_th; reflexivity.
  - unfold pop_all. rewrite pop_n_th; reflexivity.
  - reflexivity.
  - apply append_to_history_thr.
  - reflexivity.
  - unfold thread_step. destruct (thr (th s)) eqn:E; cbn [andb]; [|exact E].
    destruct (tstarted (th s)); [|exact E]. destruct (tsrc (th s)); [exact E | reflexivity].
Qed.

Lemma step_thr c s o : thr (th (step_state c s o)) = thr (th s).
Proof. rewrite step_state_full, flush_th, consume_th. apply core_thr. Qed.

Lemma steps_thr c ops : forall s, thr (th (steps c s ops)) = thr (th s).
Proof.
  induction ops as [|o r IH]; intros s; cbn [steps fold_left]; [reflexivity|].
  apply eq_trans with (thr (th (step_state c s o))); [apply IH | apply step_thr].
Qed.

(* for InMemoryHistory / FileHistory a step is the operation + the flush *)
Lemma step_state_eq c s o :
  thr (th s) = false -> step_state c s o = flush c (snd (fst (step_core c s o))).
Proof.
  intros H. rewrite step_state_full, consume_base; [reflexivity|]. rewrite core_thr. exact H.
Qed.

Lemma nav_step_frame c s o : thr (th s) = false -> is_nav o -> frame s (step_state c s o).
Proof.
  intros Ht H. rewrite step_state_eq by exact Ht.
  eapply frame_trans; [apply nav_core_frame; exact H | apply flush_frame].
Qed.

Lemma nav_steps_frame c ops : forall s,
  thr (th s) = false -> Forall is_nav ops -> frame s (steps c s ops).
Proof.
  induction ops as [|o r IH]; intros s Ht H; cbn [steps fold_left]; [apply frame_refl|].
  inversion H; subst.
  eapply frame_trans; [apply nav_step_frame; eassumption | apply IH; [rewrite step_thr|]; assumption].
Qed.

(* ---------------------------------------------------------------------- *)
(* Edits: only the current entry changes *)
Lemma update_nth_length {T} (l : list T) n f : length (update_nth l n f) = length l.
Proof. revert n; induction l; intros [|n]; cbn; auto. Qed.

Lemma update_nth_other {T} (l : list T) n f j :
  j <> n -> nth_error (update_nth l n f) j = nth_error l j.
Proof.
  revert n j; induction l as [|x l IH]; intros [|n] [|j] H; cbn; auto; try congruence;
    try (apply IH; congruence).
Qed.

Lemma py_update_in_range {T} (l : list T) i f :
  0 <= i < len l -> py_update l i f = update_nth l (Z.to_nat i) f.
Proof.
  intros H. unfold py_update.
  destruct (i <? 0) eqn:E; [lia|].
  destruct (i <? 0) eqn:E1; [lia|]. destruct (len l <=? i) eqn:E2; [lia|]. reflexivity.
Qed.

Lemma write_back_spec c s b :
  Inv s ->
  let s' := write_back c s b in
  store s' = store s /\ task s' = task s /\ tfin s' = tfin s /\ wi s' = wi s /\
  length (wl s') = length (wl s) /\
  (forall j, j <> Z.to_nat (wi s) -> nth_error (wl s') j = nth_error (wl s) j).
Proof.
  intros HI. unfold write_back.
  assert (E : py_update (wl s) (wi s) (fun _ => btext b) = update_nth (wl s) (Z.to_nat (wi s)) (fun _ => btext b))
    by (apply py_update_in_range; exact HI).
  rewrite E.
  destruct (negb (bcur b =? cur s)); [rewrite cc_store, cc_task, cc_tfin, cc_wi, cc_wl|];
    destruct (negb (str_eqb _ _));
    unfold text_changed; destruct (val c); try destruct (vwt c); proj;
    repeat split; auto using update_nth_length; intros; apply update_nth_other; assumption.
Qed.

Definition only_current_changed (s s' : hs) : Prop :=
  store s' = store s /\ task s' = task s /\ tfin s' = tfin s /\ wi s' = wi s /\
  length (wl s') = length (wl s) /\
  (forall j, j <> Z.to_nat (wi s) -> nth_error (wl s') j = nth_error (wl s) j).

Lemma only_current_refl s : only_current_changed s s.
Proof. unfold only_current_changed; repeat split; auto. Qed.

Lemma of_res_spec c s r : Inv s -> only_current_changed s (snd (fst (of_res c s r))).
Proof.
  intros HI. destruct r; cbn [of_res ok fst snd]; [apply write_back_spec; exact HI | apply only_current_refl].
Qed.

Lemma frame_only_current s s1 s2 :
  only_current_changed s s1 -> frame s1 s2 -> wi s2 = wi s1 -> only_current_changed s s2.
Proof.
  unfold only_current_changed, frame. intros (A&B&C&D&E&F) (G&H&I&J&K&K') L.
  repeat split; try congruence. intros j Hj. rewrite G. apply F; exact Hj.
Qed.

Lemma edit_step_spec c s o :
  thr (th s) = false -> Inv s -> is_edit o -> only_current_changed s (step_state c s o).
Proof.
  intros Ht HI H. rewrite step_state_eq by exact Ht.
  eapply frame_only_current; [| apply flush_frame | apply flush_wi].
  destruct o; cbn [is_edit] in H; try contradiction; cbn [step_core]; apply of_res_spec; exact HI.
Qed.

(* ---------------------------------------------------------------------- *)
(* Inv is preserved by everything *)

Lemma frame_inv s s' : frame s s' -> wi s' = wi s -> Inv s -> Inv s'.
Proof. unfold frame, Inv. intros (A&_) B. rewrite A, B. auto. Qed.

Lemma set_wi_inv c s v : 0 <= v < len (wl s) -> Inv (set_wi c s v).
Proof.
  intros H. unfold Inv. rewrite set_wi_wi. destruct (set_wi_frame c s v) as (A&_). rewrite A. exact H.
Qed.

Lemma nav_loop_inv c idxs : forall s n f,
  (forall i, In i idxs -> 0 <= i < len (wl s)) -> Inv s -> Inv (fst (nav_loop c idxs s n f)).
Proof.
  induction idxs as [|i r IH]; intros s n f Hin HI; cbn [nav_loop fst]; [exact HI|].
  assert (Hi : 0 <= i < len (wl s)) by (apply Hin; left; reflexivity).
  destruct (history_matches s i).
  - destruct (n - 1 =? 0); cbn [fst]; [apply set_wi_inv; exact Hi|].
    apply IH; [|apply set_wi_inv; exact Hi].
    intros j Hj. destruct (set_wi_frame c s i) as (A&_). rewrite A. apply Hin; right; exact Hj.
  - destruct (n =? 0); cbn [fst]; [exact HI|].
    apply IH; [|exact HI]. intros j Hj; apply Hin; right; exact Hj.
Qed.

Lemma in_range_down a i : In i (range_down a) -> 0 <= i <= a.
Proof.
  unfold range_down. rewrite in_map_iff. intros (k & <- & Hk). apply in_seq in Hk. lia.
Qed.

Lemma in_range_up a b i : In i (range_up a b) -> a <= i < b.
Proof.
  unfold range_up. rewrite in_map_iff. intros (k & <- & Hk). apply in_seq in Hk. lia.
Qed.

Lemma set_history_search_inv s : Inv s -> Inv (set_history_search s).
Proof. apply frame_inv; [apply set_history_search_frame | apply set_history_search_wi]. Qed.

Lemma set_cursor_inv s v : Inv s -> Inv (set_cursor s v).
Proof. apply frame_inv; [apply set_cursor_frame | apply set_cursor_wi]. Qed.

Lemma history_backward_pos_inv c s n : Inv s -> Inv (history_backward_pos c s n).
Proof.
  intros HI. unfold history_backward_pos.
  pose proof (nav_loop_inv c (range_down (wi (set_history_search s) - 1)) (set_history_search s) n false) as H.
  destruct (nav_loop _ _ _ _ _) as [s1 found]; cbn [fst] in H.
  assert (HI' : Inv (set_history_search s)) by (apply set_history_search_inv; exact HI).
  assert (H1 : Inv s1).
  { apply H; [|exact HI']. intros i Hi. apply in_range_down in Hi. unfold Inv in HI'. lia. }
  destruct found; [apply set_cursor_inv|]; exact H1.
Qed.

Lemma history_forward_pos_inv c s n : Inv s -> Inv (history_forward_pos c s n).
Proof.
  intros HI. unfold history_forward_pos.
  pose proof (nav_loop_inv c (range_up (wi (set_history_search s) + 1) (len (wl (set_history_search s))))
                (set_history_search s) n false) as H.
  destruct (nav_loop _ _ _ _ _) as [s1 found]; cbn [fst] in H.
  assert (HI' : Inv (set_history_search s)) by (apply set_history_search_inv; exact HI).
  assert (H1 : Inv s1).
  { apply H; [|exact HI']. intros i Hi. apply in_range_up in Hi. unfold Inv in HI'. lia. }
  destruct found; [do 2 apply set_cursor_inv|]; exact H1.
Qed.

Lemma history_backward_inv c s n : Inv s -> Inv (history_backward c s n).
Proof.
  intros HI. unfold history_backward. destruct (n =? 0); [exact HI|].
  destruct (n <? 0); [apply history_forward_pos_inv | apply history_backward_pos_inv]; exact HI.
Qed.

Lemma history_forward_inv c s n : Inv s -> Inv (history_forward c s n).
Proof.
  intros HI. unfold history_forward. destruct (n =? 0); [exact HI|].
  destruct (n <? 0); [apply history_backward_pos_inv | apply history_forward_pos_inv]; exact HI.
Qed.

Lemma go_to_history_inv c s i : Inv s -> Inv (go_to_history c s i).
Proof.
  intros HI. unfold go_to_history. destruct ((0 <=? i) && (i <? len (wl s))) eqn:E; [|exact HI].
  apply andb_true_iff in E as [E1 E2]. apply set_cursor_inv, set_wi_inv. lia.
Qed.

Lemma set_pref_inv s v : Inv s -> Inv (set_pref s v).
Proof. unfold Inv; proj; auto. Qed.

Lemma auto_up_inv c s n g : Inv s -> Inv (auto_up c s n g).
Proof.
  intros HI. unfold auto_up, cursor_up. destruct (0 <? _).
  - apply set_pref_inv, set_cursor_inv, HI.
  - destruct (sel s); [exact HI|]. destruct g; [apply set_cursor_inv|]; apply history_backward_inv, HI.
Qed.

Lemma auto_down_inv c s n g : Inv s -> Inv (auto_down c s n g).
Proof.
  intros HI. unfold auto_down, cursor_down. destruct (_ <? _).
  - apply set_pref_inv, set_cursor_inv, HI.
  - destruct (sel s); [exact HI|]. destruct g; [apply set_cursor_inv|]; apply history_forward_inv, HI.
Qed.

Lemma validate_inv c s sc : Inv s -> Inv (fst (validate c s sc)).
Proof. apply frame_inv; [apply validate_frame | apply validate_wi]. Qed.

Lemma flush_inv c s : Inv s -> Inv (flush c s).
Proof. apply frame_inv; [apply flush_frame | apply flush_wi]. Qed.

Lemma append_to_history_lines s : wl (append_to_history s) = wl s /\ wi (append_to_history s) = wi s.
Proof.
  unfold append_to_history, do_append. destruct (text s); [auto|].
  destruct (ls (hist_for_get s)); [|destruct (str_eqb _ _)]; try (destruct (thr (th s))); auto.
Qed.

Lemma append_to_history_inv s : Inv s -> Inv (append_to_history s).
Proof. unfold Inv. destruct (append_to_history_lines s) as [-> ->]. auto. Qed.

Lemma reset_inv s t cp app : Inv (reset s t cp app).
Proof. unfold Inv, reset; proj. unfold len; cbn. lia. Qed.

Lemma pop_step_inv s : Inv s -> Inv (pop_step s).
Proof.
  intros HI. unfold pop_step. destruct (thr (th s)); [exact HI|].
  destruct (task s) as [i|]; [|exact HI].
  destruct (tfin s); [exact HI|].
  destruct (nth_error _ _); unfold Inv in *; proj; [rewrite len_cons; lia | exact HI].
Qed.

Lemma consume_inv s : Inv s -> Inv (consume s).
Proof.
  intros HI. unfold consume. destruct (thr (th s)); [|exact HI].
  destruct (task s); [|exact HI]. destruct (tfin s); [exact HI|].
  unfold Inv in *; proj. rewrite len_app, len_rev.
  pose proof (len_nonneg (skipn (Z.to_nat (nprep (th s) - tprep (th s) + z)) (ls (store s)))). lia.
Qed.

Lemma load_start_inv s : Inv s -> Inv (load_start s).
Proof.
  intros HI. unfold load_start. destruct (task s); [exact HI|].
  destruct (thr (th s)); [destruct (tstarted (th s))|]; unfold Inv in *; proj; exact HI.
Qed.

Lemma thread_step_inv s : Inv s -> Inv (thread_step s).
Proof.
  intros HI. unfold thread_step. destruct (thr (th s) && tstarted (th s)); [|exact HI].
  destruct (tsrc (th s)); unfold Inv in *; proj; exact HI.
Qed.

Lemma pop_n_inv n : forall s, Inv s -> Inv (pop_n n s).
Proof. induction n; intros s HI; cbn [pop_n]; [exact HI | apply IHn, pop_step_inv, HI]. Qed.

Lemma write_back_inv c s b : Inv s -> Inv (write_back c s b).
Proof.
  intros HI. destruct (write_back_spec c s b HI) as (_&_&_&A&B&_).
  unfold Inv, len in *. rewrite A, B. exact HI.
Qed.

Lemma core_inv c s o : Inv s -> Inv (snd (fst (step_core c s o))).
Proof.
  intros HI. destruct o; cbn [step_core ok fst snd] in *.
  - apply history_backward_inv, HI.
  - apply history_forward_inv, HI.
  - apply go_to_history_inv, HI.
  - apply auto_up_inv, HI.
  - apply auto_down_inv, HI.
  - unfold end_of_history.
    assert (H1 : Inv (history_forward c s (10 ^ 100))) by (apply history_forward_inv, HI).
    apply go_to_history_inv, H1.
  - destruct (insert_text _ _ _ _); cbn [of_res ok fst snd]; [apply write_back_inv|]; exact HI.
  - destruct (delete_before_cursor _ _); cbn [of_res ok fst snd]; [apply write_back_inv|]; exact HI.
  - destruct (delete _ _); cbn [of_res ok fst snd]; [apply write_back_inv|]; exact HI.
  - apply write_back_inv, HI.
  - apply set_cursor_inv, HI.
  - apply set_cursor_inv, HI.
  - apply set_cursor_inv, HI.
  - apply validate_inv, HI.
  - unfold validate_and_handle.
    pose proof (validate_inv c s true HI) as H1.
    destruct (validate c s true) as [s1 okv]; cbn [fst] in H1.
    destruct okv; cbn [fst snd]; [|exact H1].
    destruct (keep c); [apply append_to_history_inv, H1 | apply reset_inv].
  - apply reset_inv.
  - apply load_start_inv, HI.
  - apply pop_step_inv, HI.
  - apply pop_n_inv, HI.
  - unfold Inv in *; proj; exact HI.
  - apply append_to_history_inv, HI.
  - apply reset_inv.
  - unfold jump. destruct ((0 <=? i) && (i <? len (wl s))) eqn:E; [|exact HI].
    apply andb_true_iff in E as [E1 E2]. apply set_cursor_inv, set_wi_inv. lia.
  - unfold Inv in *; proj; exact HI.
  - apply thread_step_inv, HI.
Qed.

Lemma step_inv c s o : Inv s -> Inv (step_state c s o).
Proof. intros HI. rewrite step_state_full. apply flush_inv, consume_inv, core_inv; assumption. Qed.

Lemma steps_inv c ops : forall s, Inv s -> Inv (steps c s ops).
Proof.
  induction ops as [|o r IH]; intros s HI; cbn [steps fold_left]; [exact HI|].
  apply IH, step_inv, HI.
Qed.

Lemma init_inv storage e : Inv (init storage e).
Proof. unfold Inv, init; proj. unfold len; cbn; lia. Qed.
