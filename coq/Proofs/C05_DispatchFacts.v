(* C05: soundness of one evaluation of KeyProcessor._process for ANY table,
   ANY valuation of the filter atoms and ANY non-empty key buffer: whatever is
   called is a row of the table whose filter holds and whose keys are exactly
   the consumed prefix of the buffer (wildcards aside); a key is dropped only
   when no active row matches any prefix. *)
From Coq Require Import ZArith List Bool Lia.
From PTK Require Import Lib.Sx Lib.Py Lib.C05_Filter Gen.C05_Bindings Model.C05_Dispatch.
Import ListNotations.
Open Scope Z_scope.

Lemma exact_from_in tbl ks : forall n c i b,
  0 <= n -> In (c, (i, b)) (exact_from tbl n ks) ->
  n <= i /\ nth_error tbl (Z.to_nat (i - n)) = Some b /\
  len ks = len (bkeys b) /\ keys_match (bkeys b) ks = true.
Proof.
  induction tbl as [|b0 r IH]; intros n c i b Hn Hin; cbn [exact_from] in Hin; [destruct Hin|].
  destruct ((len ks =? len (bkeys b0)) && keys_match (bkeys b0) ks) eqn:E.
  - destruct Hin as [Heq|Hin].
    + injection Heq as _ <- <-. apply andb_true_iff in E as [E1 E2]. apply Z.eqb_eq in E1.
      rewrite Z.sub_diag. repeat split; [lia|exact E1|exact E2].
    + destruct (IH (n + 1) c i b ltac:(lia) Hin) as (A & B & C & D).
      split; [lia|]. split; [|tauto].
      replace (Z.to_nat (i - n)) with (S (Z.to_nat (i - (n + 1)))) by lia. exact B.
  - destruct (IH (n + 1) c i b ltac:(lia) Hin) as (A & B & C & D).
    split; [lia|]. split; [|tauto].
    replace (Z.to_nat (i - n)) with (S (Z.to_nat (i - (n + 1)))) by lia. exact B.
Qed.

Lemma ins_desc_in x y l : In x (ins_desc y l) -> x = y \/ In x l.
Proof.
  induction l as [|z r IH]; cbn [ins_desc]; [intros [<-|[]]; now left|].
  destruct (fst z <=? fst y); cbn [In]; [intros [<-|H]; tauto|].
  intros [<-|H]; [right; now left|]. destruct (IH H); [now left|right; now right].
Qed.

Lemma sort_desc_in x l : In x (sort_desc l) -> In x l.
Proof.
  unfold sort_desc. induction l as [|y r IH]; cbn [fold_right]; [tauto|].
  intros H. apply ins_desc_in in H as [->|H]; [now left|right; now apply IH].
Qed.

Lemma get_matches_in tbl v ks i b :
  In (i, b) (get_matches tbl v ks) ->
  0 <= i /\ nth_error tbl (Z.to_nat i) = Some b /\ len ks = len (bkeys b) /\
  keys_match (bkeys b) ks = true /\ feval v (bfilter b) = true.
Proof.
  unfold get_matches, bindings_for_keys. intros H. apply filter_In in H as [H Hf]. cbn [snd] in Hf.
  apply in_map_iff in H as ([c ib] & Hs & Hin). cbn [snd] in Hs. subst ib.
  apply sort_desc_in in Hin. destruct (exact_from_in tbl ks 0 c i b ltac:(lia) Hin) as (A & B & C & D).
  rewrite Z.sub_0_r in B. repeat split; assumption.
Qed.

Lemma last_idx_in (l : list (Z * binding)) k : last_idx l = Some k -> exists b, In (k, b) l.
Proof.
  unfold last_idx. destruct (rev l) as [|[i b] r] eqn:E; [discriminate|].
  intros H; injection H as <-. exists b. apply in_rev. rewrite E. now left.
Qed.

Lemma last_idx_none (l : list (Z * binding)) : last_idx l = None -> l = [].
Proof.
  unfold last_idx. destruct (rev l) as [|[i b] r] eqn:E; [|discriminate].
  intros _. rewrite <- (rev_involutive l), E. reflexivity.
Qed.

Definition called_ok (tbl : list binding) (v : Z -> bool) (ks : list Z) (idx n : Z) : Prop :=
  exists b, 0 <= idx /\ nth_error tbl (Z.to_nat idx) = Some b /\
            1 <= n <= len ks /\ len (bkeys b) = n /\
            keys_match (bkeys b) (firstn (Z.to_nat n) ks) = true /\ feval v (bfilter b) = true.

Lemma longest_prefix_sound tbl v ks : forall (i : nat) idx n,
  (i <= length ks)%nat -> longest_prefix tbl v ks i = Call idx n -> called_ok tbl v ks idx n.
Proof.
  induction i as [|i IH]; intros idx n Hi H; cbn [longest_prefix] in H; [discriminate|].
  destruct (last_idx (get_matches tbl v (firstn (S i) ks))) as [k|] eqn:E.
  - injection H as Hk Hn. subst k. apply last_idx_in in E as [b Hb].
    destruct (get_matches_in _ _ _ _ _ Hb) as (A & B & C & D & F).
    assert (Hl : len (firstn (S i) ks) = Z.of_nat (S i)) by (rewrite len_firstn; unfold len; lia).
    exists b. replace (Z.to_nat n) with (S i) by lia. unfold len in *. repeat split; try assumption; lia.
  - apply IH; [lia|exact H].
Qed.

Lemma longest_prefix_drop tbl v ks : forall (i : nat),
  longest_prefix tbl v ks i = DropOne ->
  forall j, (1 <= j <= i)%nat -> get_matches tbl v (firstn j ks) = [].
Proof.
  induction i as [|i IH]; intros H j Hj; [lia|]. cbn [longest_prefix] in H.
  destruct (last_idx (get_matches tbl v (firstn (S i) ks))) eqn:E; [discriminate|].
  destruct (Nat.eq_dec j (S i)) as [->|]; [now apply last_idx_none|]. apply IH; [exact H|lia].
Qed.

Lemma longest_prefix_not_wait tbl v ks : forall i, longest_prefix tbl v ks i <> Wait.
Proof.
  induction i as [|i IH]; cbn [longest_prefix]; [discriminate|].
  destruct (last_idx _); [discriminate|exact IH].
Qed.

(* whatever is called is an active row matching exactly the consumed keys *)
Lemma match_step_sound tbl v ks flush idx n :
  ks <> [] -> match_step tbl v ks flush = Call idx n -> called_ok tbl v ks idx n.
Proof.
  intros Hne. unfold match_step.
  set (m0 := get_matches tbl v ks).
  set (eager := filter (fun ib => feval v (beager (snd ib))) m0).
  assert (Hm : forall k b, In (k, b) m0 -> called_ok tbl v ks k (len ks)).
  { intros k b Hb. destruct (get_matches_in _ _ _ _ _ Hb) as (A & B & C & D & F).
    exists b. unfold len. rewrite Nat2Z.id, firstn_all.
    assert (0 < length ks)%nat by (destruct ks; [congruence|cbn; lia]).
    unfold len in C. repeat split; try assumption; lia. }
  destruct eager as [|e er] eqn:Ee.
  - destruct (negb _); [|discriminate].
    destruct (last_idx m0) as [k|] eqn:E.
    + intros H; injection H as <- <-. apply last_idx_in in E as [b Hb]. now apply (Hm k b).
    + now apply longest_prefix_sound.
  - cbn [negb]. destruct (last_idx (e :: er)) as [k|] eqn:E.
    + intros H; injection H as <- <-. apply last_idx_in in E as [b Hb].
      apply (Hm k b). rewrite <- Ee in Hb. unfold eager in Hb. apply filter_In in Hb. tauto.
    + now apply longest_prefix_sound.
Qed.

(* a key is discarded only when no active row matches any prefix of the buffer *)
Lemma match_step_drop tbl v ks flush :
  match_step tbl v ks flush = DropOne ->
  forall j, (1 <= j <= length ks)%nat -> get_matches tbl v (firstn j ks) = [].
Proof.
  unfold match_step.
  destruct (filter _ (get_matches tbl v ks)) as [|e er].
  - destruct (negb _); [|discriminate]. destruct (last_idx _); [discriminate|]. apply longest_prefix_drop.
  - cbn [negb]. destruct (last_idx (e :: er)); [discriminate|]. apply longest_prefix_drop.
Qed.

(* the processor waits only while an active longer binding can still match
   and no eager exact match exists, and never after the timeout flush *)
Lemma match_step_wait tbl v ks flush :
  match_step tbl v ks flush = Wait ->
  flush = false /\ is_prefix_of_longer tbl v ks = true /\
  filter (fun ib => feval v (beager (snd ib))) (get_matches tbl v ks) = [].
Proof.
  unfold match_step.
  destruct (filter _ (get_matches tbl v ks)) as [|e er].
  - destruct flush; cbn [negb].
    + destruct (last_idx _); [discriminate|]. intros H. now apply longest_prefix_not_wait in H.
    + destruct (is_prefix_of_longer tbl v ks); cbn [negb]; [tauto|].
      destruct (last_idx _); [discriminate|]. intros H. now apply longest_prefix_not_wait in H.
  - cbn [negb]. destruct (last_idx (e :: er)); [discriminate|]. intros H. now apply longest_prefix_not_wait in H.
Qed.
