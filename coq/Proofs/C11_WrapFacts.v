(* C11 - get_height_for_line is exact for width-1 characters, and the
   composition scroll_when_linewrapping + copy_body registers the cursor at its
   arithmetic position inside the window. *)
From Coq Require Import ZArith List Bool Lia.
From PTK Require Import Lib.Sx Lib.Py Model.C11_Scroll Model.C11_CopyBody
     Proofs.C11_ScrollFacts Proofs.C11_CopyFacts Proofs.C11_LiveFacts.
Import ListNotations.
Open Scope Z_scope.

Lemma strw_narrow : forall sw s, (forall c, sw c = 1) -> strw sw s = len s.
Proof.
  intros sw s H. induction s as [|c r IH]; [reflexivity|].
  cbn [strw]. rewrite H, IH, len_cons. reflexivity.
Qed.

Lemma ceil_rows : forall w n, 1 <= w -> 0 <= n ->
  Z.max 1 (if n mod w =? 0 then n / w else n / w + 1) = rowsZ w n.
Proof.
  intros w n Hw Hn. unfold rowsZ.
  pose proof (Z.div_mod n w ltac:(lia)) as E.
  pose proof (Z.mod_pos_bound n w ltac:(lia)) as B.
  pose proof (Z.div_pos n w ltac:(lia) ltac:(lia)) as Q.
  destruct (n <=? 0) eqn:E0.
  - assert (n = 0) by lia. subst n. rewrite Z.mod_0_l, Z.div_0_l by lia. reflexivity.
  - destruct (n mod w =? 0) eqn:Er.
    + assert (Hq : 1 <= n / w) by nia.
      destruct (divmod_lin w (n / w - 1) (w - 1) Hw ltac:(lia)) as [Hd _].
      replace ((n / w - 1) * w + (w - 1)) with (n - 1) in Hd by lia. lia.
    + destruct (divmod_lin w (n / w) (n mod w - 1) Hw ltac:(lia)) as [Hd _].
      replace (n / w * w + (n mod w - 1)) with (n - 1) in Hd by lia. lia.
Qed.

Lemma hfl_loop_narrow : forall pfxw width p, 1 <= width - p -> 0 <= p -> (forall k, pfxw k = p) ->
  forall fuel n h, 0 <= n -> (Z.to_nat n < fuel)%nat ->
  hfl_loop fuel pfxw width h (n + p) = h + (if n <=? 0 then 0 else (n - 1) / (width - p)).
Proof.
  intros pfxw width p Hw Hp0 Hpf. induction fuel as [|f IH]; intros n h Hn Hfuel; [lia|].
  cbn [hfl_loop]. destruct (width <? n + p) eqn:E.
  - rewrite Hpf. destruct (width <=? p) eqn:E2; [lia|].
    replace (n + p - width + p) with ((n - (width - p)) + p) by lia.
    rewrite IH by lia.
    destruct (n - (width - p) <=? 0) eqn:E3; [lia|]. destruct (n <=? 0) eqn:E4; [lia|].
    replace (n - 1) with ((n - (width - p) - 1) + 1 * (width - p)) by lia.
    rewrite Z.div_add by lia. lia.
  - destruct (n <=? 0) eqn:E4; [lia|]. rewrite Z.div_small by lia. lia.
Qed.

Lemma height_for_line_narrow : forall sw haspfx pfx line l width p stop,
  (forall c, sw c = 1) ->
  (haspfx = true -> forall l k, len (pfx l k) = p) -> (haspfx = false -> p = 0) ->
  0 <= p -> 1 <= width - p ->
  height_for_line sw haspfx pfx line l width stop =
  rowsZ (width - p) (len (match stop with None => line | Some s => slice_to line s end)).
Proof.
  intros sw haspfx pfx line l width p stop Hsw Hp Hnp Hp0 Hw. unfold height_for_line.
  destruct (width =? 0) eqn:E0; [lia|].
  set (line' := match stop with None => line | Some s => slice_to line s end).
  rewrite !strw_narrow by exact Hsw. pose proof (len_nonneg line') as Hl.
  destruct haspfx.
  - rewrite Hp by reflexivity.
    rewrite (hfl_loop_narrow _ width p Hw Hp0) by
      (try (intros k; rewrite strw_narrow by exact Hsw; now apply Hp); lia).
    unfold rowsZ. destruct (len line' <=? 0); lia.
  - rewrite Hnp by reflexivity. rewrite Z.sub_0_r. apply ceil_rows; lia.
Qed.

Lemma len_slice_to : forall (s : str) n, 0 <= n <= len s -> len (slice_to s n) = n.
Proof.
  intros s n H. rewrite slice_to_in_range by lia. rewrite len_firstn. lia.
Qed.

Lemma rowsZ_succ_div : forall w n, 1 <= w -> 0 <= n -> rowsZ w (n + 1) = n / w + 1.
Proof.
  intros w n Hw Hn. unfold rowsZ. destruct (n + 1 <=? 0) eqn:E; [lia|]. now replace (n + 1 - 1) with n by lia.
Qed.

Section WrapNarrow.
  Variables (sw dw : Z -> Z) (disp : Z -> str).
  Variables (haspfx : bool) (pfx : Z -> Z -> str).
  Variables (width height xpos ypos p top bottom : Z).
  Variables (lines : list str) (cyr cxc : Z) (st : sstate) (fixed allow : bool).

  Hypothesis Hsw : forall c, sw c = 1.
  Hypothesis Hdw : forall c, dw c = 1.
  Hypothesis Hp : haspfx = true -> forall l k, len (pfx l k) = p.
  Hypothesis Hnp : haspfx = false -> p = 0.
  Hypothesis Hp0 : 0 <= p.
  Hypothesis Hw : 1 <= width - p.
  Hypothesis Hh : 1 <= height.
  Hypothesis Htop : 0 <= top.
  Hypothesis Hbottom : 0 <= bottom.
  Hypothesis Hvs : 0 <= vs st.
  Hypothesis Hlines : forall ln, In ln lines -> 1 <= len ln.
  Hypothesis Hcy : 0 <= cyr < len lines.

  Definition line_of (l : Z) : str := nth (Z.to_nat l) lines [].
  Definition Hf (l : Z) : Z := height_for_line sw haspfx pfx (line_of l) l width None.
  Definition tbh (s : Z) : Z := height_for_line sw haspfx pfx (line_of cyr) cyr width (Some s).
  Definition st' : sstate :=
    scroll_wrap_gen fixed allow Hf tbh width height top bottom cyr cxc (len lines) st.
  Definition out : cst := copy_body sw dw disp true haspfx pfx width height xpos ypos lines st'.

  Hypothesis Hcx : 0 <= cxc < len (line_of cyr).

  Local Notation w' := (width - p).

  Lemma Hf_rows : forall l, Hf l = rowsZ w' (len (line_of l)).
  Proof. intros l. unfold Hf. now rewrite (height_for_line_narrow sw haspfx pfx _ l width p None). Qed.

  Lemma Hf_pos : forall l, 0 <= Hf l.
  Proof. intros l. rewrite Hf_rows. pose proof (rowsZ_pos w' (len (line_of l)) Hw). lia. Qed.

  Lemma line_of_nth : forall l, 0 <= l < len lines ->
    nth_error lines (Z.to_nat l) = Some (line_of l) /\ 1 <= len (line_of l).
  Proof.
    intros l Hl. unfold line_of. unfold len in Hl.
    assert (E : nth_error lines (Z.to_nat l) = Some (nth (Z.to_nat l) lines [])) by (apply nth_error_nth'; lia).
    split; [exact E|]. apply Hlines. eapply nth_error_In; eauto.
  Qed.

  Lemma Hf_inrange : forall l, 0 <= l < len lines -> Hf l = (len (line_of l) - 1) / w' + 1.
  Proof.
    intros l Hl. rewrite Hf_rows. destruct (line_of_nth l Hl) as [_ H1]. unfold rowsZ.
    destruct (len (line_of l) <=? 0) eqn:E; [lia | reflexivity].
  Qed.

  Lemma tbh_rows : forall s, 0 <= s <= len (line_of cyr) -> tbh s = rowsZ w' s.
  Proof.
    intros s Hs. unfold tbh. rewrite (height_for_line_narrow sw haspfx pfx _ cyr width p (Some s)) by assumption.
    now rewrite len_slice_to.
  Qed.

  Lemma cursor_row_lt : cxc / w' < Hf cyr.
  Proof.
    rewrite Hf_inrange by exact Hcy.
    pose proof (Z.div_le_mono cxc (len (line_of cyr) - 1) w' ltac:(lia) ltac:(lia)). lia.
  Qed.

  (* the lines copy() walks over, as copy_lines_reg wants them *)
  Lemma rest_rows : forall v, 0 <= v -> forall k ln,
    nth_error (skipn (Z.to_nat v) lines) k = Some ln ->
    1 <= len ln /\ Hf (v + Z.of_nat k) = (len ln - 1) / w' + 1.
  Proof.
    intros v Hv k ln Hn. rewrite nth_error_skipn in Hn.
    assert (Hr : 0 <= v + Z.of_nat k < len lines).
    { unfold len. pose proof (proj1 (nth_error_Some lines (Z.to_nat v + k)%nat) ltac:(congruence)). lia. }
    destruct (line_of_nth _ Hr) as [E1 E2].
    replace (Z.to_nat (v + Z.of_nat k)) with (Z.to_nat v + k)%nat in E1 by lia.
    rewrite E1 in Hn. inversion Hn; subst ln. split; [exact E2 | now apply Hf_inrange].
  Qed.

  (* F1 excluded: the repaired slice, or the line fits, or the cursor is not at
     the start of a wrapped row, or that row is above the window height *)
  Hypothesis Hnot_f1 :
    fixed = true \/ Hf cyr <= height - top \/ cxc mod w' <> 0 \/ cxc / w' < height.

  Theorem wrap_narrow_registered :
    let y := sumH Hf (vs st') (Z.to_nat cyr) - vs2 st' + cxc / w' in
    0 <= y < height /\
    alist_get (cr2 out) (cyr, cxc) = Some (y + ypos, p + cxc mod w' + xpos).
  Proof.
    cbv zeta.
    assert (Hdivpos : 0 <= cxc / w') by (apply Z.div_pos; lia).
    pose proof cursor_row_lt as Hrow.
    destruct (line_of_nth cyr Hcy) as [Eline Hlen].
    assert (Hkey : forall v y0,
      0 <= v <= cyr -> vs st' = v -> vs2 st' = - y0 -> hs st' = 0 ->
      0 <= y0 + sumH Hf v (Z.to_nat cyr) + cxc / w' < height ->
      alist_get (cr2 out) (cyr, cxc) = Some (y0 + sumH Hf v (Z.to_nat cyr) + cxc / w' + ypos, p + cxc mod w' + xpos)).
    { intros v y0 Hv E1 E2 E3 Hr. unfold out, copy_body. rewrite E1, E2, E3, Z.opp_involutive.
      pose proof (copy_lines_reg sw dw disp haspfx pfx width height xpos ypos p Hdw Hp Hnp Hp0 Hw
                    Hf Hf_pos (skipn (Z.to_nat v) lines) v (mkcst 0 y0 [] [] [])
                    (Z.to_nat (cyr - v)) (line_of cyr) (Z.to_nat cxc)) as HR.
      cbn [cy] in HR. rewrite !Z2Nat.id in HR by lia.
      replace (v + (cyr - v)) with cyr in HR by lia.
      destruct (nth_error (line_of cyr) (Z.to_nat cxc)) as [c|] eqn:Ec.
      2:{ apply nth_error_None in Ec. unfold len in Hcx. lia. }
      apply (HR c); try assumption; try lia.
      - now apply rest_rows.
      - rewrite nth_error_skipn. replace (Z.to_nat v + Z.to_nat (cyr - v))%nat with (Z.to_nat cyr) by lia. exact Eline.
      - reflexivity. }
    destruct (height - top <? Hf cyr) eqn:Ecase.
    - (* the cursor line is taller than the window: intra-line scroll *)
      destruct (scroll_wrap_tall Hf tbh width height top bottom cyr cxc (len lines) ltac:(lia)
                  fixed allow st Hh ltac:(lia)) as (E1 & E3 & E20 & Eup & Elow).
      fold st' in E1, E3, E20, Eup, Elow.
      assert (Hr1 : vs2 st' <= cxc / w').
      { apply Eup; [lia|]. destruct fixed.
        - rewrite tbh_rows by lia. rewrite rowsZ_succ_div by lia. lia.
        - rewrite tbh_rows by lia. unfold rowsZ. destruct (cxc <=? 0) eqn:E; [lia|].
          pose proof (Z.div_le_mono (cxc - 1) cxc w' ltac:(lia) ltac:(lia)). lia. }
      assert (Hr2 : cxc / w' - vs2 st' < height).
      { destruct Hnot_f1 as [Hfx | [Hfit | [Hmod | Hsmall]]]; [| lia | | lia].
        - apply Elow. rewrite Hfx. rewrite tbh_rows by lia. rewrite rowsZ_succ_div by lia. lia.
        - apply Elow. destruct fixed.
          + rewrite tbh_rows by lia. rewrite rowsZ_succ_div by lia. lia.
          + rewrite tbh_rows by lia. unfold rowsZ. destruct (cxc <=? 0) eqn:E.
            * rewrite Z.mod_small in Hmod by lia. lia.
            * pose proof (Z.div_mod cxc w' ltac:(lia)) as Em.
              pose proof (Z.mod_pos_bound cxc w' ltac:(lia)) as Bm.
              destruct (divmod_lin w' (cxc / w') (cxc mod w' - 1) Hw ltac:(lia)) as [Hd _].
              replace (cxc / w' * w' + (cxc mod w' - 1)) with (cxc - 1) in Hd by lia. lia. }
      rewrite E1. rewrite (sumH_empty Hf cyr (Z.to_nat cyr)) by lia.
      split; [lia|].
      rewrite (Hkey cyr (- vs2 st')); try lia.
      + rewrite (sumH_empty Hf cyr (Z.to_nat cyr)) by lia. do 2 f_equal. lia.
      + rewrite (sumH_empty Hf cyr (Z.to_nat cyr)) by lia. lia.
    - (* the cursor line fits: whole lines from the scroll position *)
      destruct (scroll_wrap_fits Hf tbh width height top bottom cyr cxc (len lines)
                  Hf_pos ltac:(lia) Hcy Htop Hbottom fixed allow st ltac:(lia)) as (E2 & E3 & E0 & E1 & Efit).
      fold st' in E2, E3, E0, E1, Efit. specialize (E0 Hvs).
      replace (Z.to_nat (cyr + 1)) with (S (Z.to_nat cyr)) in Efit by lia.
      rewrite sumH_succ in Efit by lia. rewrite Z2Nat.id in Efit by lia.
      pose proof (sumH_nonneg Hf (vs st') (Z.to_nat cyr) Hf_pos) as Hnn.
      rewrite E2. split; [lia|].
      rewrite (Hkey (vs st') 0); try lia.
      do 2 f_equal. lia.
  Qed.
End WrapNarrow.
