(* C09 - yank / yank-pop cycle, Vi simple deletes and character pastes, and the
   refutations that document the findings. *)
From Coq Require Import ZArith List Bool Lia PeanoNat Permutation.
From PTK Require Import Lib.Sx Lib.Py Model.Document Model.BufferEdit Proofs.BufferEditFacts
  Model.C09_Kill Proofs.C09_Ring Proofs.C09_KillFacts.
Import ListNotations.
Open Scope Z_scope.

Definition all_chars (r : list clip) : Prop := Forall (fun d => ctype d = CHARACTERS) r.

Lemma ring_get_in r : r <> [] -> In (ring_get r) r.
Proof. destruct r; [congruence|]. intros _. now left. Qed.

Lemma all_chars_get r : all_chars r -> ctype (ring_get r) = CHARACTERS.
Proof.
  destruct r as [|d r]; [reflexivity|]. intros H. now inversion H.
Qed.

Lemma all_chars_perm r r' : Permutation r' r -> all_chars r -> all_chars r'.
Proof.
  unfold all_chars. rewrite !Forall_forall. intros Hp H x Hx. apply H.
  eapply Permutation_in; eassumption.
Qed.

(* one yank-pop after a yank (document_before_paste = (t, c)) *)
Lemma yank_pop_step s t c :
  0 <= c <= len t -> sdbp s = Some (t, c) ->
  ctype (ring_get (ring_rotate (sring s))) = CHARACTERS ->
  exists s', yank_pop s = (0, s') /\
    sdbp s' = Some (t, c) /\
    sring s' = ring_rotate (sring s) /\
    btext (sb s') = firstn (Z.to_nat c) t ++ ctext (ring_get (ring_rotate (sring s))) ++ skipn (Z.to_nat c) t.
Proof.
  intros Hc Hd Hty. unfold yank_pop. rewrite Hd.
  unfold buf_paste, cur_doc, set_doc, bdoc.
  cbn [with_ring upd with_buf sb sring btext bcur].
  replace (Z.max 0 c) with c by lia.
  rewrite doc_paste_chars_emacs by (try exact Hty; lia).
  rewrite str_mul_1, Z.mul_1_r.
  eexists. split; [reflexivity|].
  cbn [with_dbp set_doc upd with_buf sb sring sdbp btext bcur].
  repeat split.
Qed.

Fixpoint pops (k : nat) (s : st) : st :=
  match k with O => s | S k' => snd (yank_pop (pops k' s)) end.

(* yank; yank-pop^k: the text shows ring[k mod n] at the yank position, the
   ring is the original one rotated k times (so nothing is lost) *)
Lemma yank_pops_cycle s k d0 :
  Inv (sb s) -> sring s <> [] -> all_chars (sring s) ->
  let sk := pops k (snd (yank s 1)) in
  btext (sb sk) = firstn (Z.to_nat (bcur (sb s))) (btext (sb s))
                  ++ ctext (nth (k mod length (sring s)) (sring s) d0)
                  ++ skipn (Z.to_nat (bcur (sb s))) (btext (sb s))
  /\ sring sk = rotate_n k (sring s)
  /\ Permutation (sring sk) (sring s)
  /\ sdbp sk = Some (btext (sb s), bcur (sb s)).
Proof.
  intros Hi Hne Hall.
  assert (Hgen : forall k, let sk := pops k (snd (yank s 1)) in
            btext (sb sk) = firstn (Z.to_nat (bcur (sb s))) (btext (sb s))
                            ++ ctext (ring_get (rotate_n k (sring s)))
                            ++ skipn (Z.to_nat (bcur (sb s))) (btext (sb s))
            /\ sring sk = rotate_n k (sring s)
            /\ sdbp sk = Some (btext (sb s), bcur (sb s))).
  { induction k0 as [|k0 IH].
    - destruct (yank_1 s Hi (all_chars_get _ Hall)) as [s' [Hy [Ht [_ [Hr Hd]]]]].
      cbn [pops]. rewrite Hy. cbn [snd rotate_n]. rewrite Hr. repeat split; assumption.
    - cbn [pops]. destruct IH as [_ [Hr Hd]].
      set (sk := pops k0 (snd (yank s 1))) in *.
      destruct Hi as [H0 H1].
      destruct (yank_pop_step sk _ _ (conj H0 H1) Hd) as [s' [Hy [Hd' [Hr' Ht']]]].
      { rewrite Hr. change (ring_rotate (rotate_n k0 (sring s))) with (rotate_n (S k0) (sring s)).
        apply all_chars_get. eapply all_chars_perm; [apply rotate_n_perm|exact Hall]. }
      rewrite Hy. cbn [snd]. rewrite Hr in Hr', Ht'.
      change (ring_rotate (rotate_n k0 (sring s))) with (rotate_n (S k0) (sring s)) in *.
      repeat split; assumption. }
  cbn zeta. destruct (Hgen k) as [Ht [Hr Hd]].
  rewrite (rotate_n_head k (sring s) d0 Hne) in Ht.
  repeat split; try assumption.
  rewrite Hr. apply rotate_n_perm.
Qed.

(* yank-pop does nothing unless the last change was a paste *)
Lemma yank_pop_without_yank s : sdbp s = None -> yank_pop s = ok s.
Proof. intros H. unfold yank_pop. now rewrite H. Qed.

(* any Buffer setter call that changes text or cursor forgets the paste snapshot *)
Lemma upd_forgets s b' :
  (btext b' <> btext (sb s) \/ bcur b' <> bcur (sb s)) -> sdbp (upd s b') = None.
Proof.
  intros H. unfold upd. cbn [with_buf sdbp].
  destruct (str_eqb (btext b') (btext (sb s))) eqn:Et; cbn [negb orb]; [|reflexivity].
  destruct (bcur b' =? bcur (sb s)) eqn:Ec; cbn [negb]; [|reflexivity].
  exfalso. destruct H as [H|H]; [|lia]. apply H.
  clear -Et. revert Et. generalize (btext (sb s)). induction (btext b') as [|x a IH]; intros [|y b] E;
    cbn [str_eqb] in E; try discriminate; [reflexivity|].
  apply andb_prop in E. destruct E as [E1 E2]. f_equal; [lia|now apply IH].
Qed.

(* ---------------------------------------------------------------------- *)
(* Vi: x, X, D *)
Lemma vi_x_exact s arg :
  Inv (sb s) -> vi_x s arg = ok s \/ killed true s (vi_x s arg) (fun x => x).
Proof.
  intros Hi. unfold vi_x. destruct (_ =? 0); [now left|right]. now apply kill_with_fwd.
Qed.

Lemma vi_X_exact s arg :
  Inv (sb s) -> 0 <= arg -> vi_X s arg = ok s \/ killed false s (vi_X s arg) (fun x => x).
Proof.
  intros Hi Ha. unfold vi_X. destruct (_ =? 0); [now left|right].
  apply kill_with_bwd; [exact Hi|].
  pose proof (len_nonneg (current_line_before_cursor (bdoc (sb s)))). lia.
Qed.

Lemma vi_D_exact s : Inv (sb s) -> killed true s (vi_D s) (fun x => x).
Proof. intros Hi. unfold vi_D. now apply kill_with_fwd. Qed.

Lemma vi_yy_pure s arg :
  exists s', vi_yy s arg = (0, s') /\ sb s' = sb s /\
    ring_get (sring s') =
      mkclip (join [NL] (slice_to (slice_from (lines (cur_doc s)) (cursor_position_row (cur_doc s))) arg)) LINES.
Proof. eexists. split; [reflexivity|]. split; reflexivity. Qed.

(* ---------------------------------------------------------------------- *)
(* Pasting CHARACTERS data [n] times in any mode inserts exactly n copies at
   the position the mode defines and changes nothing else. *)
Lemma slice_to_over {T} (s : list T) n : len s <= n -> slice_to s n = s.
Proof.
  intros H. unfold slice_to, slice, adj_index. pose proof (len_nonneg s).
  destruct (n <? 0) eqn:E; [lia|]. rewrite Z.min_r by lia.
  destruct (0 <? len s) eqn:E2.
  - rewrite Z.sub_0_r. cbn [skipn]. unfold len. rewrite Nat2Z.id. apply firstn_all.
  - assert (Hz : len s = 0) by lia. unfold len in Hz. destruct s; [reflexivity|cbn in Hz; lia].
Qed.

Lemma slice_from_over {T} (s : list T) n : len s <= n -> slice_from s n = [].
Proof.
  intros H. unfold slice_from, slice, adj_index. pose proof (len_nonneg s).
  destruct (n <? 0) eqn:E; [lia|]. rewrite Z.min_r by lia.
  destruct (len s <? len s) eqn:E2; [lia|reflexivity].
Qed.

Definition paste_at (mode c n : Z) : Z := if mode =? VI_AFTER then Z.min (c + 1) n else c.

Lemma doc_paste_chars_n t c data mode n :
  0 <= c <= len t -> ctype data = CHARACTERS ->
  mode = EMACS \/ mode = VI_BEFORE \/ mode = VI_AFTER ->
  exists c',
    doc_paste (mkdoc t c) data mode n =
    Some (firstn (Z.to_nat (paste_at mode c (len t))) t
          ++ repeat_str (ctext data) (Z.to_nat n)
          ++ skipn (Z.to_nat (paste_at mode c (len t))) t, c').
Proof.
  intros Hc Hty Hm. unfold doc_paste.
  destruct (Z.ltb_spec n 1) as [Hlt|Hge].
  { (* count < 1: the document is returned unchanged, which is zero copies *)
    exists c. cbn [dtext dcur]. unfold mk_document. destruct (len t <? c) eqn:E; [lia|].
    replace (Z.to_nat n) with O by lia. cbn [repeat_str app].
    now rewrite firstn_skipn. }
  rewrite Hty.
  change (CHARACTERS =? CHARACTERS) with true. cbn [dtext dcur].
  unfold text_before_cursor, text_after_cursor; cbn [dtext dcur]. unfold paste_at, str_mul.
  pose proof (len_nonneg (ctext data)) as Hd.
  assert (Hm' : len (ctext data) * n <= len (repeat_str (ctext data) (Z.to_nat n))).
  { rewrite len_repeat_str.
    destruct (Z.le_gt_cases 0 n); [rewrite Z2Nat.id by lia; lia|].
    replace (Z.to_nat n) with O by lia. nia. }
  assert (Hlen : forall a, 0 <= a <= len t ->
            len (firstn (Z.to_nat a) t ++ repeat_str (ctext data) (Z.to_nat n) ++ skipn (Z.to_nat a) t)
            = len t + len (repeat_str (ctext data) (Z.to_nat n))).
  { intros a Ha. rewrite !len_app. pose proof (firstn_skipn_len t (Z.to_nat a)). lia. }
  destruct Hm as [->|[->| ->]].
  - change (EMACS =? VI_BEFORE) with false. change (EMACS =? VI_AFTER) with false.
    cbv iota. rewrite slice_to_in_range, slice_from_in_range by lia.
    unfold mk_document. rewrite Hlen by lia.
    destruct (_ <? _) eqn:E; [lia|]. eexists; reflexivity.
  - change (VI_BEFORE =? VI_BEFORE) with true. change (VI_BEFORE =? VI_AFTER) with false.
    cbv iota. rewrite slice_to_in_range, slice_from_in_range by lia.
    unfold mk_document. rewrite Hlen by lia.
    destruct (_ <? _) eqn:E; [lia|]. eexists; reflexivity.
  - change (VI_AFTER =? VI_BEFORE) with false. change (VI_AFTER =? VI_AFTER) with true.
    cbv iota. destruct (Z.eq_dec c (len t)) as [Heq|Hne].
    + rewrite slice_to_over, slice_from_over by lia.
      rewrite Z.min_r by lia.
      replace (firstn (Z.to_nat (len t)) t) with t by (unfold len; now rewrite Nat2Z.id, firstn_all).
      replace (skipn (Z.to_nat (len t)) t) with (@nil Z) by (unfold len; now rewrite Nat2Z.id, skipn_all).
      cbv iota. unfold mk_document. rewrite !len_app, len_nil.
      destruct (_ <? _) eqn:E; [lia|]. eexists; reflexivity.
    + rewrite Z.min_l by lia.
      rewrite slice_to_in_range, slice_from_in_range by lia.
      cbv iota. unfold mk_document. rewrite Hlen by lia.
      destruct (_ <? _) eqn:E; [lia|]. eexists; reflexivity.
Qed.

(* x (or D) followed by P puts the text back *)
Lemma kill_then_vi_P_restores s o :
  killed true s o (fun x => x) ->
  exists s2, buf_paste (snd o) (ring_get (sring (snd o))) VI_BEFORE 1 = (0, s2)
             /\ btext (sb s2) = btext (sb s).
Proof.
  intros [pre [removed [post [Ht [_ [Ht1 [Hc1 [_ Hr]]]]]]]].
  assert (Hh : ring_get (sring (snd o)) = mkclip removed CHARACTERS) by (rewrite Hr; apply ring_get_set).
  pose proof (len_nonneg pre) as Hp. pose proof (len_nonneg post) as Hq.
  assert (Hc : 0 <= bcur (sb (snd o)) <= len (btext (sb (snd o)))) by (rewrite Ht1, Hc1, len_app; lia).
  unfold buf_paste, cur_doc, bdoc.
  destruct (doc_paste_chars_n (btext (sb (snd o))) (bcur (sb (snd o))) (ring_get (sring (snd o))) VI_BEFORE 1 Hc)
    as [c' Hd]; [rewrite Hh; reflexivity|right; now left|].
  rewrite Hd. eexists. split; [reflexivity|].
  cbn [with_dbp set_doc upd with_buf sb btext].
  unfold paste_at. change (VI_BEFORE =? VI_AFTER) with false.
  rewrite Hh, Ht1, Hc1. cbn [ctext]. rewrite firstn_app_len, skipn_app_len.
  change (Z.to_nat 1) with 1%nat. cbn [repeat_str]. rewrite app_nil_r. now rewrite Ht.
Qed.

(* ---------------------------------------------------------------------- *)
(* Refutations (findings) *)

Definition str_of (l : list Z) : str := l.

(* C09-F1: kill-word after a kill-word that found nothing (count too large)
   still believes it is a repeat and prepends the unrelated ring head: the yank
   that follows does not give the text back.  "foo bar", ring ["old"]:
   Esc 5 M-d, M-d, C-y -> "oldfoo bar". *)
Lemma kill_word_repeat_after_noop_refuted :
  exists s, Inv (sb s) /\ kill_word s 5 false = ok s /\
    exists s2 s3, kill_word s 1 true = (0, s2) /\ yank s2 1 = (0, s3) /\
      btext (sb s3) <> btext (sb s).
Proof.
  exists (mkst (mkbuf [102; 111; 111; 32; 98; 97; 114] 0) None [mkclip [111; 108; 100] 0] None 0 [] false).
  split; [unfold Inv; cbn; lia|]. split; [vm_compute; reflexivity|].
  eexists _, _. split; [vm_compute; reflexivity|]. split; [vm_compute; reflexivity|].
  cbn. discriminate.
Qed.

(* ---------------------------------------------------------------------- *)
(* dd (after fix deb887f): exactly the addressed lines go, and they are what
   the register gets *)
Definition dd_spec (s : st) (arg : Z) : str :=
  let d := cur_doc s in
  let row := cursor_position_row d in
  join [NL] (slice_to (lines d) row ++ slice_from (lines d) (row + arg)).

Lemma join_app sep (a b : list str) :
  join sep (a ++ b) =
  match a, b with
  | [], _ => join sep b
  | _, [] => join sep a
  | _, _ => join sep a ++ sep ++ join sep b
  end.
Proof.
  induction a as [|x a IH]; [reflexivity|].
  destruct a as [|y a].
  - cbn [app join]. destruct b; [reflexivity|reflexivity].
  - change ((x :: y :: a) ++ b) with (x :: ((y :: a) ++ b)).
    change (join sep (x :: (y :: a) ++ b)) with (x ++ sep ++ join sep ((y :: a) ++ b)).
    rewrite IH. destruct b as [|z b].
    + reflexivity.
    + change (join sep (x :: y :: a)) with (x ++ sep ++ join sep (y :: a)).
      now rewrite <- !app_assoc.
Qed.

Lemma len_lstrip_le p (x : str) : len (lstrip_by p x) <= len x.
Proof.
  induction x as [|c x IH]; cbn [lstrip_by]; [lia|].
  destruct (p c); [rewrite len_cons; lia|lia].
Qed.

Lemma vi_dd_exact s arg :
  exists s', vi_dd s arg = (0, s') /\
    btext (sb s') = dd_spec s arg /\
    ring_get (sring s') =
      mkclip (join [NL] (slice2 (lines (cur_doc s)) (cursor_position_row (cur_doc s))
                                (cursor_position_row (cur_doc s) + arg))) LINES.
Proof.
  unfold vi_dd, dd_spec. cbv zeta beta.
  set (ls := lines (cur_doc s)). set (row := cursor_position_row (cur_doc s)).
  set (A := slice_to ls row). set (B := slice_from ls (row + arg)).
  set (before := if (match A with [] => false | _ :: _ => true end)
                    && (match B with [] => false | _ :: _ => true end)
                 then join [NL] A ++ [NL] else join [NL] A).
  set (after := join [NL] B).
  assert (Hdoc : mk_document (before ++ after)
                   (len before + len after - len (lstrip_by (Z.eqb SP) after))
                 = Some (before ++ after, len before + len after - len (lstrip_by (Z.eqb SP) after))).
  { unfold mk_document. rewrite len_app. pose proof (len_lstrip_le (Z.eqb SP) after).
    pose proof (len_nonneg (lstrip_by (Z.eqb SP) after)).
    destruct (_ <? _) eqn:E; [lia|reflexivity]. }
  rewrite Hdoc. eexists. split; [reflexivity|].
  cbn [with_ring set_doc upd with_buf sb sring btext]. split; [|apply ring_get_set].
  unfold before, after. rewrite join_app.
  destruct A as [|a0 A]; destruct B as [|b0 B]; cbn [andb]; try reflexivity.
  - now rewrite app_nil_r.
  - now rewrite <- app_assoc.
Qed.

(* ---------------------------------------------------------------------- *)
(* visual block (after e0cf816): d / y / "rd / "ry (through TextObject.cut)
   store the same block as x (through Buffer.cut_selection) whenever the two
   corners differ *)
Lemma cut_loop_nc t rs : forall lt nc nc' rem parts,
  fst (fst (fst (cut_loop t rs lt nc rem parts))) = fst (fst (fst (cut_loop t rs lt nc' rem parts))) /\
  snd (fst (cut_loop t rs lt nc rem parts)) = snd (fst (cut_loop t rs lt nc' rem parts)) /\
  snd (cut_loop t rs lt nc rem parts) = snd (cut_loop t rs lt nc' rem parts).
Proof.
  induction rs as [|[f to] rs IH]; intros lt nc nc' rem parts; cbn [cut_loop].
  - repeat split.
  - apply IH.
Qed.

Lemma selection_ranges_ext t c1 o1 c2 o2 ty vi :
  Z.min c1 o1 = Z.min c2 o2 -> Z.max c1 o1 = Z.max c2 o2 ->
  selection_ranges (mkdoc t c1) (o1, ty) vi = selection_ranges (mkdoc t c2) (o2, ty) vi.
Proof.
  intros Hmin Hmax. unfold selection_ranges. cbn [dcur]. rewrite Hmin, Hmax. reflexivity.
Qed.

Lemma cut_data_ext t c1 o1 c2 o2 ty vi :
  Z.min c1 o1 = Z.min c2 o2 -> Z.max c1 o1 = Z.max c2 o2 ->
  snd (doc_cut_selection (mkdoc t c1) (o1, ty) vi) = snd (doc_cut_selection (mkdoc t c2) (o2, ty) vi).
Proof.
  intros Hmin Hmax. unfold doc_cut_selection.
  rewrite (selection_ranges_ext t c1 o1 c2 o2 ty vi Hmin Hmax). cbn [dtext dcur snd].
  destruct (cut_loop_nc t (selection_ranges (mkdoc t c2) (o2, ty) vi) 0 c1 c2 [] []) as [_ [_ Hp]].
  destruct (cut_loop t _ 0 c1 [] []) as [[[l1 n1] r1] p1].
  destruct (cut_loop t _ 0 c2 [] []) as [[[l2 n2] r2] p2].
  cbn [snd] in Hp |- *. now subst.
Qed.

Lemma visual_block_operator_stores_block t cur orig nd data :
  tobj_cut (mkdoc t cur) (orig - cur) 0 TBLOCK = Some (nd, data) ->
  data = snd (doc_cut_selection (mkdoc t cur) (orig, BLOCK) true).
Proof.
  unfold tobj_cut, operator_range. cbn [dcur dtext].
  change (TBLOCK =? EXCLUSIVE) with false. change (TBLOCK =? INCLUSIVE) with false.
  change (TBLOCK =? LINEWISE) with false. change (TBLOCK =? TBLOCK) with true.
  cbn [andb orb negb].
  change (tobj_selection_type TBLOCK) with BLOCK.
  destruct (orig - cur <? 0) eqn:Es.
  - destruct (len t <? 0 + cur) eqn:El; [discriminate|].
    intros H. injection H as H. apply (f_equal snd) in H. cbn [snd] in H. rewrite <- H.
    apply cut_data_ext; lia.
  - destruct (len t <? orig - cur + cur) eqn:El; [discriminate|].
    intros H. injection H as H. apply (f_equal snd) in H. cbn [snd] in H. rewrite <- H.
    apply cut_data_ext; lia.
Qed.

(* a one-cell block (C-v then y / d without moving): the operators store the
   cell, like x (fixed by commit 0578190; before it they were a no-op) *)
Lemma visual_block_single_cell_example :
  let s := mkst (mkbuf [97; 98; 99] 0) None [] None 0 [] true in
  ctext (ring_get (sring (snd (vi_visual s (0, BLOCK) 1 0)))) = [97] /\
  ctext (snd (doc_cut_selection (cur_doc s) (0, BLOCK) true)) = [97].
Proof. cbv zeta. split; vm_compute; reflexivity. Qed.
