(* C02 - the bracket scanners are complete (converse of scan_right_spec /
   scan_left_spec in Proofs/C02_Brackets.v): if position k of the scanned span
   holds the closer and the prefix before it is balanced relative to the
   current depth, the scanner returns exactly that position.  With the specs
   this characterises the answer: Some v iff v is THE first position where the
   depth returns to 0, None iff there is none in the span. *)
From Coq Require Import ZArith List Bool Lia.
From PTK Require Import Lib.Sx Lib.Py Model.Document Model.C02_DocQueries Proofs.C02_Base Proofs.C02_Brackets.
Import ListNotations.
Open Scope Z_scope.

Lemma scan_right_complete l r s : forall i stack (k : nat),
  l <> r -> 1 <= stack -> nth_error s k = Some r ->
  stack + net l r (firstn k s) = 1 ->
  (forall j : nat, (j <= k)%nat -> 1 <= stack + net l r (firstn j s)) ->
  scan_right l r s i stack = Some (i + Z.of_nat k).
Proof.
  induction s as [|c s IH]; intros i stack k Hlr Hst Hn Hnet Hpre; [destruct k; discriminate|].
  cbn [scan_right]. cbv zeta. destruct k as [|k].
  - cbn [nth_error] in Hn. injection Hn as ->. cbn [firstn net] in Hnet.
    destruct (r =? l) eqn:E; [apply Z.eqb_eq in E; congruence|]. rewrite Z.eqb_refl.
    replace (stack - 1 =? 0) with true by (symmetry; apply Z.eqb_eq; lia). f_equal. cbn. lia.
  - cbn [nth_error] in Hn. cbn [firstn net] in Hnet.
    pose proof (Hpre 1%nat ltac:(lia)) as H1. cbn [firstn net] in H1.
    set (dl := if c =? l then 1 else if c =? r then -1 else 0) in *.
    assert (Hs' : (if c =? l then stack + 1 else if c =? r then stack - 1 else stack) = stack + dl).
    { unfold dl. destruct (c =? l); [reflexivity|]. destruct (c =? r); lia. }
    rewrite Hs'. replace (net l r []) with 0 in H1 by reflexivity.
    destruct (stack + dl =? 0) eqn:E0; [apply Z.eqb_eq in E0; lia|].
    rewrite (IH (i + 1) (stack + dl) k Hlr ltac:(lia) Hn ltac:(lia)).
    + f_equal. lia.
    + intros j Hj. specialize (Hpre (S j) ltac:(lia)). cbn [firstn net] in Hpre. fold dl in Hpre. lia.
Qed.

Lemma scan_left_complete l r s : forall k0 stack (k : nat),
  l <> r -> 1 <= stack -> nth_error s k = Some l ->
  stack + net r l (firstn k s) = 1 ->
  (forall j : nat, (j <= k)%nat -> 1 <= stack + net r l (firstn j s)) ->
  scan_left l r s k0 stack = Some (- (k0 + Z.of_nat k)).
Proof.
  induction s as [|c s IH]; intros k0 stack k Hlr Hst Hn Hnet Hpre; [destruct k; discriminate|].
  cbn [scan_left]. cbv zeta. destruct k as [|k].
  - cbn [nth_error] in Hn. injection Hn as ->. cbn [firstn net] in Hnet.
    destruct (l =? r) eqn:E; [apply Z.eqb_eq in E; congruence|]. rewrite Z.eqb_refl.
    replace (stack - 1 =? 0) with true by (symmetry; apply Z.eqb_eq; lia). f_equal. cbn. lia.
  - cbn [nth_error] in Hn. cbn [firstn net] in Hnet.
    pose proof (Hpre 1%nat ltac:(lia)) as H1. cbn [firstn net] in H1.
    set (dl := if c =? r then 1 else if c =? l then -1 else 0) in *.
    assert (Hs' : (if c =? r then stack + 1 else if c =? l then stack - 1 else stack) = stack + dl).
    { unfold dl. destruct (c =? r); [reflexivity|]. destruct (c =? l); lia. }
    rewrite Hs'. replace (net r l []) with 0 in H1 by reflexivity.
    destruct (stack + dl =? 0) eqn:E0; [apply Z.eqb_eq in E0; lia|].
    rewrite (IH (k0 + 1) (stack + dl) k Hlr ltac:(lia) Hn ltac:(lia)).
    + f_equal. lia.
    + intros j Hj. specialize (Hpre (S j) ltac:(lia)). cbn [firstn net] in Hpre. fold dl in Hpre. lia.
Qed.

(* the scanners, exactly *)
Theorem scan_right_exact l r s v : l <> r ->
  (scan_right l r s 1 1 = Some v <->
   exists k : nat, v = 1 + Z.of_nat k /\ nth_error s k = Some r /\
     net l r (firstn k s) = 0 /\ (forall j : nat, (j <= k)%nat -> 0 <= net l r (firstn j s))).
Proof.
  intros Hlr. split.
  - intros H. destruct (scan_right_spec l r s 1 1 v ltac:(lia) H) as (k & Hv & _ & Hn & _ & Hnet & Hpre).
    exists k. split; [exact Hv|]. split; [exact Hn|]. split; [lia|]. intros j Hj. specialize (Hpre j Hj). lia.
  - intros (k & -> & Hn & Hnet & Hpre). apply scan_right_complete; try assumption; try lia.
    intros j Hj. specialize (Hpre j Hj). lia.
Qed.

Theorem scan_left_exact l r s v : l <> r ->
  (scan_left l r s 1 1 = Some v <->
   exists k : nat, v = - (1 + Z.of_nat k) /\ nth_error s k = Some l /\
     net r l (firstn k s) = 0 /\ (forall j : nat, (j <= k)%nat -> 0 <= net r l (firstn j s))).
Proof.
  intros Hlr. split.
  - intros H. destruct (scan_left_spec l r s 1 1 v ltac:(lia) H) as (k & Hv & _ & Hn & _ & Hnet & Hpre).
    exists k. split; [exact Hv|]. split; [exact Hn|]. split; [lia|]. intros j Hj. specialize (Hpre j Hj). lia.
  - intros (k & -> & Hn & Hnet & Hpre). apply scan_left_complete; try assumption; try lia.
    intros j Hj. specialize (Hpre j Hj). lia.
Qed.

(* ---------------------------------------------------------------------- *)
(* Round 7: the same on the Document, in text coordinates *)

Lemma nth_error_firstn_lt {T} (l : list T) : forall n k, (k < n)%nat -> nth_error (firstn n l) k = nth_error l k.
Proof.
  induction l as [|x l IH]; intros [|n] [|k] H; cbn [firstn nth_error]; try reflexivity; try lia.
  apply IH. lia.
Qed.

Theorem enclosing_right_complete d l r ep v :
  valid d -> l <> r -> opt_is (current_char d) r = false -> 0 < v ->
  dcur d + v < (match ep with None => len (dtext d) | Some e => Z.min (len (dtext d)) e end) ->
  nth_error (dtext d) (Z.to_nat (dcur d + v)) = Some r ->
  balanced_span l r (firstn (Z.to_nat (v - 1)) (skipn (Z.to_nat (dcur d + 1)) (dtext d))) ->
  find_enclosing_bracket_right d l r ep = Some v.
Proof.
  intros [Hc0 Hc1] Hlr Ec Hv He Hn [Hnet Hpre]. unfold find_enclosing_bracket_right. cbv zeta. rewrite Ec.
  set (e := match ep with None => len (dtext d) | Some e => Z.min (len (dtext d)) e end) in *.
  assert (Hel : e <= len (dtext d)) by (unfold e; destruct ep; lia).
  destruct (e <? 0) eqn:Ee; [lia|].
  rewrite (slice2_in_range (dtext d) (dcur d + 1) e) by lia.
  set (X := skipn (Z.to_nat (dcur d + 1)) (dtext d)) in *.
  set (k := Z.to_nat (v - 1)) in *.
  assert (Hk : (k < Z.to_nat (e - (dcur d + 1)))%nat) by lia.
  replace v with (1 + Z.of_nat k) by lia.
  apply scan_right_complete; [exact Hlr|lia| | |].
  - rewrite nth_error_firstn_lt by exact Hk. unfold X. rewrite nth_error_skipn_eq.
    replace (Z.to_nat (dcur d + 1) + k)%nat with (Z.to_nat (dcur d + v)) by lia. exact Hn.
  - rewrite firstn_firstn_le by lia. lia.
  - intros j Hj. rewrite firstn_firstn_le by lia. specialize (Hpre j).
    rewrite firstn_firstn_le in Hpre by exact Hj. lia.
Qed.

Theorem enclosing_left_complete d l r sp v :
  valid d -> l <> r -> opt_is (current_char d) l = false -> v < 0 ->
  (match sp with None => 0 | Some s => Z.max 0 s end) <= dcur d + v ->
  nth_error (dtext d) (Z.to_nat (dcur d + v)) = Some l ->
  balanced_span r l (firstn (Z.to_nat (- v - 1)) (rev (firstn (Z.to_nat (dcur d)) (dtext d)))) ->
  find_enclosing_bracket_left d l r sp = Some v.
Proof.
  intros [Hc0 Hc1] Hlr Ec Hv Hs Hn [Hnet Hpre]. unfold find_enclosing_bracket_left. cbv zeta. rewrite Ec.
  set (s0 := match sp with None => 0 | Some s => Z.max 0 s end) in *.
  assert (Hs0 : 0 <= s0) by (unfold s0; destruct sp; lia).
  set (k := Z.to_nat (- v - 1)) in *.
  replace v with (- (1 + Z.of_nat k)) by lia.
  assert (Hfk : forall j : nat, (j <= k)%nat ->
            firstn j (rev (slice2 (dtext d) s0 (dcur d))) =
            firstn j (rev (firstn (Z.to_nat (dcur d)) (dtext d)))).
  { intros j Hj. apply slice2_rev_prefix; lia. }
  apply scan_left_complete; [exact Hlr|lia| | |].
  - set (X := slice2 (dtext d) s0 (dcur d)).
    assert (HX : X = firstn (Z.to_nat (dcur d - s0)) (skipn (Z.to_nat s0) (dtext d)))
      by (apply slice2_in_range; lia).
    assert (HL : length X = Z.to_nat (dcur d - s0)).
    { rewrite HX, firstn_length, skipn_length. unfold len in Hc1. lia. }
    assert (Hx : nth_error X (Z.to_nat (dcur d + v - s0)) = Some l).
    { rewrite HX, nth_error_firstn_lt by lia. rewrite nth_error_skipn_eq.
      replace (Z.to_nat s0 + Z.to_nat (dcur d + v - s0))%nat with (Z.to_nat (dcur d + v)) by lia. exact Hn. }
    rewrite <- (rev_involutive X) in Hx. apply nth_error_rev_some in Hx as [_ Hx].
    rewrite length_rev_eq, HL in Hx.
    replace (Z.to_nat (dcur d - s0) - 1 - Z.to_nat (dcur d + v - s0))%nat with k in Hx by lia. exact Hx.
  - rewrite Hfk by lia. lia.
  - intros j Hj. rewrite Hfk by exact Hj. specialize (Hpre j).
    rewrite firstn_firstn_le in Hpre by exact Hj. lia.
Qed.
