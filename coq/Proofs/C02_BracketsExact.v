(* C02 - the bracket scanners are complete (converse of scan_right_spec /
   scan_left_spec in Proofs/C02_Brackets.v): if position k of the scanned span
   holds the closer and the prefix before it is balanced relative to the
   current depth, the scanner returns exactly that position.  With the specs
   this characterises the answer: Some v iff v is THE first position where the
   depth returns to 0, None iff there is none in the span. *)
From Coq Require Import ZArith List Bool Lia.
From PTK Require Import Lib.Sx Lib.Py Model.Document Model.C02_DocQueries Proofs.C02_Brackets.
Import ListNotations.
Open Scope Z_scope.

Lemma scan_right_complete l r s : forall i stack (k : nat),
  l <> r -> 1 <= stack -> nth_error s k = Some r ->
  stack + net l r (firstn k s) = 1 ->
  (forall j : nat, (j <= k)%nat -> 1 <= stack + net l r (firstn j s)) ->
  scan_right l r s i stack = Some (i + Z.of_nat k).
Proof.
  induction s as [|c s IH]; intros i stack k Hlr Hst Hn Hnet Hpre; [destruct k; discriminate|].
  cbn [scan_right]. cbv zeta. destruct k as [|k].
  - cbn [nth_error] in Hn. injection Hn as ->. cbn [firstn net] in Hnet.
    destruct (r =? l) eqn:E; [apply Z.eqb_eq in E; congruence|]. rewrite Z.eqb_refl.
    replace (stack - 1 =? 0) with true by (symmetry; apply Z.eqb_eq; lia). f_equal. cbn. lia.
  - cbn [nth_error] in Hn. cbn [firstn net] in Hnet.
    pose proof (Hpre 1%nat ltac:(lia)) as H1. cbn [firstn net] in H1.
    set (dl := if c =? l then 1 else if c =? r then -1 else 0) in *.
    assert (Hs' : (if c =? l then stack + 1 else if c =? r then stack - 1 else stack) = stack + dl).
    { unfold dl. destruct (c =? l); [reflexivity|]. destruct (c =? r); lia. }
    rewrite Hs'. replace (net l r []) with 0 in H1 by reflexivity.
    destruct (stack + dl =? 0) eqn:E0; [apply Z.eqb_eq in E0; lia|].
    rewrite (IH (i + 1) (stack + dl) k Hlr ltac:(lia) Hn ltac:(lia)).
    + f_equal. lia.
    + intros j Hj. specialize (Hpre (S j) ltac:(lia)). cbn [firstn net] in Hpre. fold dl in Hpre. lia.
Qed.

Lemma scan_left_complete l r s : forall k0 stack (k : nat),
  l <> r -> 1 <= stack -> nth_error s k = Some l ->
  stack + net r l (firstn k s) = 1 ->
  (forall j : nat, (j <= k)%nat -> 1 <= stack + net r l (firstn j s)) ->
  scan_left l r s k0 stack = Some (- (k0 + Z.of_nat k)).
Proof.
  induction s as [|c s IH]; intros k0 stack k Hlr Hst Hn Hnet Hpre; [destruct k; discriminate|].
  cbn [scan_left]. cbv zeta. destruct k as [|k].
  - cbn [nth_error] in Hn. injection Hn as ->. cbn [firstn net] in Hnet.
    destruct (l =? r) eqn:E; [apply Z.eqb_eq in E; congruence|]. rewrite Z.eqb_refl.
    replace (stack - 1 =? 0) with true by (symmetry; apply Z.eqb_eq; lia). f_equal. cbn. lia.
  - cbn [nth_error] in Hn. cbn [firstn net] in Hnet.
    pose proof (Hpre 1%nat ltac:(lia)) as H1. cbn [firstn net] in H1.
    set (dl := if c =? r then 1 else if c =? l then -1 else 0) in *.
    assert (Hs' : (if c =? r then stack + 1 else if c =? l then stack - 1 else stack) = stack + dl).
    { unfold dl. destruct (c =? r); [reflexivity|]. destruct (c =? l); lia. }
    rewrite Hs'. replace (net r l []) with 0 in H1 by reflexivity.
    destruct (stack + dl =? 0) eqn:E0; [apply Z.eqb_eq in E0; lia|].
    rewrite (IH (k0 + 1) (stack + dl) k Hlr ltac:(lia) Hn ltac:(lia)).
    + f_equal. lia.
    + intros j Hj. specialize (Hpre (S j) ltac:(lia)). cbn [firstn net] in Hpre. fold dl in Hpre. lia.
Qed.

(* the scanners, exactly *)
Theorem scan_right_exact l r s v : l <> r ->
  (scan_right l r s 1 1 = Some v <->
   exists k : nat, v = 1 + Z.of_nat k /\ nth_error s k = Some r /\
     net l r (firstn k s) = 0 /\ (forall j : nat, (j <= k)%nat -> 0 <= net l r (firstn j s))).
Proof.
  intros Hlr. split.
  - intros H. destruct (scan_right_spec l r s 1 1 v ltac:(lia) H) as (k & Hv & _ & Hn & _ & Hnet & Hpre).
    exists k. split; [exact Hv|]. split; [exact Hn|]. split; [lia|]. intros j Hj. specialize (Hpre j Hj). lia.
  - intros (k & -> & Hn & Hnet & Hpre). apply scan_right_complete; try assumption; try lia.
    intros j Hj. specialize (Hpre j Hj). lia.
Qed.

Theorem scan_left_exact l r s v : l <> r ->
  (scan_left l r s 1 1 = Some v <->
   exists k : nat, v = - (1 + Z.of_nat k) /\ nth_error s k = Some l /\
     net r l (firstn k s) = 0 /\ (forall j : nat, (j <= k)%nat -> 0 <= net r l (firstn j s))).
Proof.
  intros Hlr. split.
  - intros H. destruct (scan_left_spec l r s 1 1 v ltac:(lia) H) as (k & Hv & _ & Hn & _ & Hnet & Hpre).
    exists k. split; [exact Hv|]. split; [exact Hn|]. split; [lia|]. intros j Hj. specialize (Hpre j Hj). lia.
  - intros (k & -> & Hn & Hnet & Hpre). apply scan_left_complete; try assumption; try lia.
    intros j Hj. specialize (Hpre j Hj). lia.
Qed.
