(* C07 - editing sessions with kills, yanks and Vi operators computed by C09's
   model (Model/C07_Edit2.v). *)
From Coq Require Import ZArith List Bool Lia.
From PTK Require Import Lib.Sx Lib.Py Lib.C07_Lemmas Model.Document Model.BufferEdit Proofs.BufferEditFacts.
From PTK Require Model.C09_Kill.
From PTK Require Import Model.C07_Undo Model.C07_Keys Model.C07_Table Model.C07_Edit Model.C07_Edit2
  Gen.C07_Bindings Proofs.C07_UndoFacts Proofs.C07_KeysFacts Proofs.C07_KeyHistFacts Proofs.C07_TableFacts
  Proofs.C07_EditFacts.
Import ListNotations.
Open Scope Z_scope.

Theorem e2run_is_krun tbl cs : forall e, ek (e2run tbl e cs) = krun tbl (ek e) (e2compile tbl e cs).
Proof.
  induction cs as [|c cs IH]; intros e; [reflexivity|].
  cbn [e2run fold_left e2compile krun]. change (fold_left (estep2 tbl) cs ?x) with (e2run tbl x cs).
  rewrite IH. reflexivity.
Qed.

Lemma unchanged_ok u : wf u -> kev_ok (Key 0 0 (utext u) (ucur u)).
Proof. intros (Hh & _). split; [exact Hh|lia]. Qed.

Lemma to_kev2_ok tbl e c : wf (kbuf (ek e)) -> kev_ok (to_kev2 tbl e c).
Proof.
  intros Hwf. pose proof (unchanged_ok _ Hwf) as Hu. cbn [kev_ok] in Hu.
  assert (G : forall h o, kev_ok (match o with
               | Some s' => if valid_buf (C09_Kill.sb s') then Key h 0 (btext (C09_Kill.sb s')) (bcur (C09_Kill.sb s'))
                            else Key h 0 (utext (kbuf (ek e))) (ucur (kbuf (ek e)))
               | None => Key h 0 (utext (kbuf (ek e))) (ucur (kbuf (ek e))) end)).
  { intros h [s'|]; [|exact Hu]. destruct (valid_buf (C09_Kill.sb s')) eqn:V; [|exact Hu].
    unfold valid_buf in V. apply andb_true_iff in V. destruct V as [V1 V2].
    apply Z.leb_le in V1. apply Z.leb_le in V2. cbn [kev_ok]. lia. }
  destruct c as [c0|h k arg|h]; cbn [to_kev2]; [apply to_kev_ok; exact Hwf|apply G|apply G].
Qed.

Lemma e2compile_ok tbl cs : forall e, wf (kbuf (ek e)) -> Forall kev_ok (e2compile tbl e cs).
Proof.
  induction cs as [|c cs IH]; intros e Hwf; [constructor|].
  cbn [e2compile]. constructor; [apply to_kev2_ok; exact Hwf|].
  apply IH. cbn [estep2 ek]. apply wf_kstep; [exact Hwf|apply to_kev2_ok; exact Hwf].
Qed.

Definition ecmd2_valid (tbl : list row) (c : ecmd2) : Prop :=
  match c with
  | E2Old c0 => ecmd_valid tbl c0
  | E2Kill h _ _ | E2Esc h => r_act (lookup tbl h) = 0 /\ r_cls (lookup tbl h) <> 0
  end.

Lemma to_kev2_key tbl e c h :
  (match c with E2Kill h' _ _ | E2Esc h' => h' = h | _ => False end) ->
  exists t cur, to_kev2 tbl e c = Key h 0 t cur.
Proof.
  destruct c as [c0|h' k arg|h']; cbn [to_kev2]; intros H; try contradiction; subst h';
    destruct (handler2 e _) as [s'|]; try destruct (valid_buf (C09_Kill.sb s')); eauto.
Qed.

Lemma e2compile_modelled cs : forall e,
  Forall (ecmd2_valid c07_rows) cs -> Forall (modelled c07_rows) (e2compile c07_rows e cs).
Proof.
  induction cs as [|c cs IH]; intros e H; [constructor|].
  inversion H as [|? ? Hc Hr]; subst. cbn [e2compile]. constructor; [|apply IH; exact Hr].
  destruct c as [c0|h k arg|h].
  - cbn [to_kev2]. cbn [ecmd2_valid] in Hc.
    assert (Hc' : Forall (ecmd_valid c07_rows) [c0]) by (constructor; [exact Hc|constructor]).
    pose proof (ecompile_modelled [c0] (ek e) Hc') as M.
    cbn [ecompile] in M. inversion M; assumption.
  - destruct (to_kev2_key c07_rows e (E2Kill h k arg) h eq_refl) as (t & cur & ->). exact Hc.
  - destruct (to_kev2_key c07_rows e (E2Esc h) h eq_refl) as (t & cur & ->). exact Hc.
Qed.

Lemma e2compile_no_reset tbl cs : forall e,
  Forall (fun ev => match ev with KReset _ _ => False | _ => True end) (e2compile tbl e cs).
Proof.
  induction cs as [|c cs IH]; intros e; [constructor|].
  cbn [e2compile]. constructor; [|apply IH].
  destruct c as [c0|h k arg|h]; cbn [to_kev2].
  - destruct c0; exact I.
  - destruct (handler2 e _) as [s'|]; try destruct (valid_buf (C09_Kill.sb s')); exact I.
  - destruct (handler2 e _) as [s'|]; try destruct (valid_buf (C09_Kill.sb s')); exact I.
Qed.

(* Repeated undo after ANY editing session that also kills, yanks and applies
   Vi operators (texts computed by C01's and C09's models) ends on the start
   text. *)
Theorem edit2_reaches_start t0 c0 cs k :
  0 <= c0 <= len t0 -> Forall (ecmd2_valid c07_rows) cs ->
  let s := kbuf (ek (e2run c07_rows (e2fresh t0 c0) cs)) in
  (length (ustack s) <= k)%nat -> utext (iter_op Undo k s) = t0.
Proof.
  intros Hc Hv. cbn zeta. rewrite e2run_is_krun. cbn [e2fresh ek]. intros Hk.
  rewrite (live_reaches_start t0 c0 (e2compile c07_rows (e2fresh t0 c0) cs) k Hc); try assumption.
  - apply ksession_start_no_reset, e2compile_no_reset.
  - apply e2compile_ok. apply wf_fresh. exact Hc.
  - apply e2compile_modelled. exact Hv.
Qed.

Definition e2history (t0 : str) (c0 : Z) (cs : list ecmd2) : list snap :=
  snd (kgrun c07_rows (kfresh t0 c0) (e2compile c07_rows (e2fresh t0 c0) cs)).

(* C07_edit_undo_lands_on_computed_text extended to kills, yanks and Vi
   operators: undo lands on a text the edit models computed earlier in the
   session, the rest of the stack being older. *)
Theorem edit2_undo_lands_on_computed_text t0 c0 cs :
  0 <= c0 <= len t0 ->
  let s := kbuf (ek (e2run c07_rows (e2fresh t0 c0) cs)) in
  let past := e2history t0 c0 cs in
  subseq (ustack s) past /\
  ((utext (undo s) = utext s /\ ucur (undo s) = ucur s /\ ustack (undo s) = [])
   \/
   (exists newer older,
      past = newer ++ here (undo s) :: older /\ utext (undo s) <> utext s /\
      subseq (ustack (undo s)) older /\ rstack (undo s) = here s :: rstack s)).
Proof.
  intros Hc. cbn zeta. unfold e2history. rewrite e2run_is_krun.
  set (evs := e2compile c07_rows (e2fresh t0 c0) cs).
  assert (Hok : Forall kev_ok evs) by (apply e2compile_ok; cbn [e2fresh ek]; apply wf_fresh; exact Hc).
  cbn [e2fresh ek].
  pose proof (key_stack_is_history c07_rows t0 c0 evs live_no_redo_handler Hc Hok) as [Hs _].
  pose proof (key_undo_lands_in_history c07_rows t0 c0 evs live_no_redo_handler Hc Hok) as HL.
  cbn zeta in Hs, HL. unfold kgrun in Hs, HL. rewrite kgrun_fst in Hs, HL. cbn [fst] in Hs, HL.
  split; [exact Hs|].
  destruct HL as [(A & B & C & _)|HL]; [left; repeat split; assumption|right; exact HL].
Qed.
