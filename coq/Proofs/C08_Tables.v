(* C08 - finite facts over the tables regenerated from the repo on every run
   (Gen/C08_Tables.v): register names, the case-operator callbacks on ASCII,
   and the sets of operator / text-object key sequences the model and the
   harness were written for. *)
From Coq Require Import ZArith List Bool Lia.
From PTK Require Import Lib.Sx Lib.Py Gen.C08_Tables Model.Document Model.BufferEdit
  Model.C08_ViOps.
Import ListNotations.
Open Scope Z_scope.

Fixpoint zrange (a : Z) (n : nat) : list Z :=
  match n with O => [] | S k => a :: zrange (a + 1) k end.

Fixpoint list_Z_eqb (a b : list Z) : bool :=
  match a, b with
  | [], [] => true
  | x :: a', y :: b' => (x =? y) && list_Z_eqb a' b'
  | _, _ => false
  end.
Fixpoint list_list_Z_eqb (a b : list (list Z)) : bool :=
  match a, b with
  | [], [] => true
  | x :: a', y :: b' => list_Z_eqb x y && list_list_Z_eqb a' b'
  | _, _ => false
  end.

(* is_regname is membership in the real vi_register_names, for every Z *)
Lemma regname_table_sound : forallb is_regname vi_register_names_table = true.
Proof. vm_compute. reflexivity. Qed.

Lemma regname_table_complete c : is_regname c = true -> mem_Z c vi_register_names_table = true.
Proof.
  unfold is_regname. intros H.
  assert (Hc : (97 <= c <= 122) \/ (48 <= c <= 57)) by lia.
  assert (Hin : In c (zrange 97 26 ++ zrange 48 10)).
  { apply in_or_app. destruct Hc as [Hc|Hc]; [left|right].
    - replace c with (97 + (c - 97)) by lia.
      assert (Hk : 0 <= c - 97 < 26) by lia. revert Hk. generalize (c - 97). intros k Hk.
      assert (k = 0 \/ k = 1 \/ k = 2 \/ k = 3 \/ k = 4 \/ k = 5 \/ k = 6 \/ k = 7 \/ k = 8 \/ k = 9 \/
              k = 10 \/ k = 11 \/ k = 12 \/ k = 13 \/ k = 14 \/ k = 15 \/ k = 16 \/ k = 17 \/ k = 18 \/
              k = 19 \/ k = 20 \/ k = 21 \/ k = 22 \/ k = 23 \/ k = 24 \/ k = 25) as Hd by lia.
      repeat (destruct Hd as [->|Hd]; [vm_compute; tauto|]). subst k. vm_compute. tauto.
    - replace c with (48 + (c - 48)) by lia.
      assert (Hk : 0 <= c - 48 < 10) by lia. revert Hk. generalize (c - 48). intros k Hk.
      assert (k = 0 \/ k = 1 \/ k = 2 \/ k = 3 \/ k = 4 \/ k = 5 \/ k = 6 \/ k = 7 \/ k = 8 \/ k = 9)
        as Hd by lia.
      repeat (destruct Hd as [->|Hd]; [vm_compute; tauto|]). subst k. vm_compute. tauto. }
  assert (Hall : forallb (fun x => mem_Z x vi_register_names_table) (zrange 97 26 ++ zrange 48 10) = true)
    by (vm_compute; reflexivity).
  rewrite forallb_forall in Hall. apply Hall. exact Hin.
Qed.

(* the ASCII maps of the model are the real callbacks on ASCII *)
Lemma transform_tables_agree :
  list_Z_eqb (apply_T 1 (zrange 0 128)) c08_rot13_tab = true /\
  list_Z_eqb (apply_T 2 (zrange 0 128)) c08_lower_tab = true /\
  list_Z_eqb (apply_T 3 (zrange 0 128)) c08_upper_tab = true /\
  list_Z_eqb (apply_T 4 (zrange 0 128)) c08_swapcase_tab = true.
Proof. vm_compute. repeat split. Qed.

(* the operators and text objects that exist in the registry (Any = -2,
   left = -10, right = -11) are the ones the model / harness cover *)
Definition expected_operator_keys : list (list Z) :=
  [[34; -2; 99]; [34; -2; 100]; [34; -2; 121]; [60]; [62]; [99]; [100]; [103; 63]; [103; 85];
   [103; 113]; [103; 117]; [103; 126]; [121]; [126]].

Definition expected_text_object_keys : list (list Z) :=
  [[-11]; [-10]; [32]; [36]; [37]; [44]; [48]; [59]; [66]; [69]; [70; -2]; [71]; [72]; [76]; [77];
   [78]; [84; -2]; [87]; [94]; [97; 34]; [97; 39]; [97; 40]; [97; 41]; [97; 60]; [97; 62]; [97; 66];
   [97; 87]; [97; 91]; [97; 93]; [97; 96]; [97; 98]; [97; 112]; [97; 119]; [97; 123]; [97; 125];
   [98]; [101]; [102; -2]; [103; 69]; [103; 95]; [103; 101]; [103; 103]; [103; 109]; [104];
   [105; 34]; [105; 39]; [105; 40]; [105; 41]; [105; 60]; [105; 62]; [105; 66]; [105; 87];
   [105; 91]; [105; 93]; [105; 96]; [105; 98]; [105; 119]; [105; 123]; [105; 125]; [106]; [107];
   [108]; [110]; [116; -2]; [119]; [123]; [124]; [125]].

Lemma binding_tables_agree :
  list_list_Z_eqb operator_keys expected_operator_keys = true /\
  list_list_Z_eqb text_object_keys expected_text_object_keys = true.
Proof. vm_compute. split; reflexivity. Qed.
