(* C02 - the line cache (Model/C02_Cache.v) is transparent: whatever sequence
   of document creations, queries and evictions happened before, a query
   through the cache returns what the cache-free function returns. *)
From Coq Require Import ZArith List Bool Lia.
From PTK Require Import Lib.Sx Lib.Py Model.Document Model.C02_Cache.
Import ListNotations.
Open Scope Z_scope.

Lemma str_eqb_eq a : forall b, str_eqb a b = true <-> a = b.
Proof.
  induction a as [|x a IH]; intros [|y b]; cbn [str_eqb]; split; intros H;
    try reflexivity; try discriminate.
  - apply andb_prop in H as [H1 H2]. apply Z.eqb_eq in H1. apply IH in H2. congruence.
  - injection H as -> ->. rewrite Z.eqb_refl. cbn [andb]. now apply IH.
Qed.

Lemma str_eqb_refl a : str_eqb a a = true.
Proof. now apply str_eqb_eq. Qed.

Lemma str_eqb_neq a b : a <> b -> str_eqb a b = false.
Proof.
  intros H. destruct (str_eqb a b) eqn:E; [|reflexivity]. apply str_eqb_eq in E. contradiction.
Qed.

(* table laws *)
Lemma clookup_cstore_same c t e : clookup (cstore c t e) t = Some e.
Proof.
  induction c as [|[k e0] r IH]; cbn [cstore clookup].
  - now rewrite str_eqb_refl.
  - destruct (str_eqb k t) eqn:E; cbn [clookup]; rewrite E; [reflexivity|exact IH].
Qed.

Lemma clookup_cstore_other c t e t' : t' <> t -> clookup (cstore c t e) t' = clookup c t'.
Proof.
  intros Hne. induction c as [|[k e0] r IH]; cbn [cstore clookup].
  - rewrite str_eqb_neq by congruence. reflexivity.
  - destruct (str_eqb k t) eqn:E; cbn [clookup].
    + apply str_eqb_eq in E. subst k. rewrite str_eqb_neq by congruence. reflexivity.
    + destruct (str_eqb k t'); [reflexivity|exact IH].
Qed.

Lemma clookup_cdrop_same c t : clookup (cdrop c t) t = None.
Proof.
  induction c as [|[k e0] r IH]; cbn [cdrop clookup]; [reflexivity|].
  destruct (str_eqb k t) eqn:E; [exact IH|]. cbn [clookup]. now rewrite E.
Qed.

Lemma clookup_cdrop_other c t t' : t' <> t -> clookup (cdrop c t) t' = clookup c t'.
Proof.
  intros Hne. induction c as [|[k e0] r IH]; cbn [cdrop clookup]; [reflexivity|].
  destruct (str_eqb k t) eqn:E.
  - apply str_eqb_eq in E. subst k. rewrite str_eqb_neq by congruence. exact IH.
  - cbn [clookup]. destruct (str_eqb k t'); [reflexivity|exact IH].
Qed.

(* the invariant: whatever is stored for a text is what the text determines *)
Definition entry_ok (t : str) (e : centry) : Prop :=
  (forall l, ce_lines e = Some l -> l = lines (mkdoc t 0)) /\
  (forall ix, ce_indexes e = Some ix -> ix = line_start_indexes (mkdoc t 0)).

Definition cache_ok (c : cache) : Prop := forall t e, clookup c t = Some e -> entry_ok t e.

Lemma entry_ok_empty t : entry_ok t empty_entry.
Proof. split; intros x H; discriminate. Qed.

Lemma cache_ok_nil : cache_ok [].
Proof. intros t e H. discriminate. Qed.

Lemma cache_ok_store c t e : cache_ok c -> entry_ok t e -> cache_ok (cstore c t e).
Proof.
  intros Hc He t' e' H. destruct (list_eq_dec Z.eq_dec t' t) as [->|Hne].
  - rewrite clookup_cstore_same in H. injection H as <-. exact He.
  - rewrite clookup_cstore_other in H by exact Hne. now apply Hc.
Qed.

Lemma cache_ok_drop c t : cache_ok c -> cache_ok (cdrop c t).
Proof.
  intros Hc t' e' H. destruct (list_eq_dec Z.eq_dec t' t) as [->|Hne].
  - rewrite clookup_cdrop_same in H. discriminate.
  - rewrite clookup_cdrop_other in H by exact Hne. now apply Hc.
Qed.

Lemma cache_ok_new c t : cache_ok c -> cache_ok (cnew c t).
Proof.
  intros Hc. unfold cnew. destruct (clookup c t); [exact Hc|].
  apply cache_ok_store; [exact Hc|apply entry_ok_empty].
Qed.

Lemma centry_of_ok c t : cache_ok c -> entry_ok t (centry_of c t).
Proof.
  intros Hc. unfold centry_of. destruct (clookup c t) eqn:E; [now apply Hc|apply entry_ok_empty].
Qed.

(* lines / the start table do not depend on the cursor *)
Lemma lines_cursor_irrelevant t a b : lines (mkdoc t a) = lines (mkdoc t b).
Proof. reflexivity. Qed.
Lemma line_start_indexes_cursor_irrelevant t a b :
  line_start_indexes (mkdoc t a) = line_start_indexes (mkdoc t b).
Proof. reflexivity. Qed.

Theorem cached_lines_correct c t :
  cache_ok c -> fst (cached_lines c t) = lines (mkdoc t 0) /\ cache_ok (snd (cached_lines c t)).
Proof.
  intros Hc. unfold cached_lines. cbv zeta.
  destruct (centry_of_ok c t Hc) as [Hl Hi].
  destruct (ce_lines (centry_of c t)) as [l|] eqn:E; cbn [fst snd].
  - split; [now apply Hl|exact Hc].
  - split; [reflexivity|]. apply cache_ok_store; [exact Hc|].
    split; cbn [ce_lines ce_indexes].
    + intros l H. injection H as <-. reflexivity.
    + exact Hi.
Qed.

Theorem cached_indexes_correct c t :
  cache_ok c ->
  fst (cached_indexes c t) = line_start_indexes (mkdoc t 0) /\ cache_ok (snd (cached_indexes c t)).
Proof.
  intros Hc. unfold cached_indexes. cbv zeta.
  destruct (centry_of_ok c t Hc) as [Hl Hi].
  destruct (ce_indexes (centry_of c t)) as [ix|] eqn:E; cbn [fst snd].
  - split; [now apply Hi|exact Hc].
  - destruct (cached_lines_correct c t Hc) as [Hv Hc1].
    destruct (cached_lines c t) as [ls c1] eqn:E1. cbn [fst snd] in Hv, Hc1. subst ls.
    cbn [fst snd].
    assert (Hix : (if 1 <? len (0 :: cumul (lines (mkdoc t 0)) 0)
                   then removelast (0 :: cumul (lines (mkdoc t 0)) 0)
                   else 0 :: cumul (lines (mkdoc t 0)) 0) = line_start_indexes (mkdoc t 0))
      by reflexivity.
    split; [exact Hix|].
    apply cache_ok_store; [exact Hc1|].
    destruct (centry_of_ok c1 t Hc1) as [Hl1 _].
    split; cbn [ce_lines ce_indexes]; [exact Hl1|].
    intros ix H. injection H as <-. exact Hix.
Qed.

Theorem cstep_correct c o : cache_ok c -> fst (cstep c o) = cspec o /\ cache_ok (snd (cstep c o)).
Proof.
  intros Hc. destruct o as [t|t|t|t]; cbn [cstep cspec].
  - split; [reflexivity|now apply cache_ok_new].
  - destruct (cached_lines_correct (cnew c t) t (cache_ok_new c t Hc)) as [Hv Hc1].
    destruct (cached_lines (cnew c t) t) as [l c']. cbn [fst snd] in *. split; [now rewrite Hv|exact Hc1].
  - destruct (cached_indexes_correct (cnew c t) t (cache_ok_new c t Hc)) as [Hv Hc1].
    destruct (cached_indexes (cnew c t) t) as [l c']. cbn [fst snd] in *. split; [now rewrite Hv|exact Hc1].
  - split; [reflexivity|now apply cache_ok_drop].
Qed.

Theorem crun_correct ops : forall c,
  cache_ok c -> fst (crun c ops) = map cspec ops /\ cache_ok (snd (crun c ops)).
Proof.
  induction ops as [|o r IH]; intros c Hc; cbn [crun map].
  - split; [reflexivity|exact Hc].
  - destruct (cstep_correct c o Hc) as [Hv Hc1]. destruct (cstep c o) as [v c1]. cbn [fst snd] in *.
    destruct (IH c1 Hc1) as [Hvs Hc2]. destruct (crun c1 r) as [vs c2]. cbn [fst snd] in *.
    split; [now rewrite Hv, Hvs|exact Hc2].
Qed.

(* from the empty table: every query of every operation sequence answers as
   the cache-free function does *)
Corollary cache_transparent ops : fst (crun [] ops) = map cspec ops.
Proof. exact (proj1 (crun_correct ops [] cache_ok_nil)). Qed.

(* ... and memoisation really happens: after a query the entry holds the value *)
Lemma lines_are_cached c t :
  cache_ok c -> ce_lines (centry_of (snd (cached_lines (cnew c t) t)) t) = Some (lines (mkdoc t 0)).
Proof.
  intros Hc. pose proof (cache_ok_new c t Hc) as Hn. unfold cached_lines. cbv zeta.
  destruct (centry_of_ok (cnew c t) t Hn) as [Hl _].
  destruct (ce_lines (centry_of (cnew c t) t)) as [l|] eqn:E; cbn [snd].
  - rewrite E. f_equal. now apply Hl.
  - unfold centry_of at 1. rewrite clookup_cstore_same. reflexivity.
Qed.

(* ====================================================================== *)
(* Round 6: the cache carried between documents (slots): documents produced by
   paste_clipboard_data / insert_after / insert_before / copies, queries that
   pre-seed the cache, drops.  Every value returned is the cache-free one, the
   live documents are the same, and the invariant is preserved. *)

Lemma cache_ok_release s c t : cache_ok c -> cache_ok (release s c t).
Proof. intros Hc. unfold release. destruct (text_live s t); [exact Hc|now apply cache_ok_drop]. Qed.

Lemma cache_ok_touch c t fp : cache_ok c -> cache_ok (touch c t fp).
Proof.
  intros Hc. unfold touch. destruct (fp =? 2); [apply (cached_indexes_correct c t Hc)|].
  destruct (fp =? 1); [apply (cached_lines_correct c t Hc)|exact Hc].
Qed.

Lemma cache_ok_place s c dst d : cache_ok c -> cache_ok (snd (place s c dst d)) /\ fst (place s c dst d) = sput s dst d.
Proof.
  intros Hc. unfold place. cbv zeta. destruct (sget s dst); cbn [fst snd]; (split; [|reflexivity]).
  - apply cache_ok_release. now apply cache_ok_new.
  - now apply cache_ok_new.
Qed.

Lemma produce_correct s c dst d :
  cache_ok c ->
  fst (produce s c dst d) = (if ctor_ok d then SVDoc d else SVErr) /\
  fst (snd (produce s c dst d)) = (if ctor_ok d then sput s dst d else s) /\
  cache_ok (snd (snd (produce s c dst d))).
Proof.
  intros Hc. unfold produce. destruct (ctor_ok d); cbn [fst snd].
  - destruct (cache_ok_place s c dst d Hc) as [H1 H2]. split; [reflexivity|]. split; [exact H2|exact H1].
  - split; [reflexivity|]. split; [reflexivity|exact Hc].
Qed.

Ltac tri H := split; [reflexivity|split; [reflexivity|exact H]].

Theorem sstep_correct s c o :
  cache_ok c ->
  fst (sstep (s, c) o) = fst (sfree s o) /\
  fst (snd (sstep (s, c) o)) = snd (sfree s o) /\
  cache_ok (snd (snd (sstep (s, c) o))).
Proof.
  intros Hc.
  assert (P : forall c' dst d, cache_ok c' ->
            fst (produce s c' dst d) = fst (if ctor_ok d then (SVDoc d, sput s dst d) else (SVErr, s)) /\
            fst (snd (produce s c' dst d)) = snd (if ctor_ok d then (SVDoc d, sput s dst d) else (SVErr, s)) /\
            cache_ok (snd (snd (produce s c' dst d)))).
  { intros c' dst d Hc'. destruct (produce_correct s c' dst d Hc') as (H1 & H2 & H3).
    rewrite H1, H2. destruct (ctor_ok d); cbn [fst snd]; tri H3. }
  destruct o as [i t cur|i|i|i|i fp|src dst data ty mode count|src dst t|src dst t|src dst|src dst o ty];
    cbn [sstep sfree].
  - apply P, Hc.
  - destruct (sget s i) as [d|]; [|tri Hc].
    destruct (cached_lines_correct c (dtext d) Hc) as [Hv Hc1].
    destruct (cached_lines c (dtext d)) as [l c']. cbn [fst snd] in *. subst l. tri Hc1.
  - destruct (sget s i) as [d|]; [|tri Hc].
    destruct (cached_indexes_correct c (dtext d) Hc) as [Hv Hc1].
    destruct (cached_indexes c (dtext d)) as [l c']. cbn [fst snd] in *. subst l. tri Hc1.
  - destruct (sget s i) as [d|]; cbn [fst snd]; [|tri Hc].
    split; [reflexivity|split; [reflexivity|now apply cache_ok_release]].
  - destruct (sget s i) as [d|]; cbn [fst snd]; [|tri Hc].
    split; [reflexivity|split; [reflexivity|now apply cache_ok_touch]].
  - destruct (sget s src) as [d|]; [|tri Hc]. apply P. now apply cache_ok_touch.
  - destruct (sget s src) as [d|]; [|tri Hc]. apply P, Hc.
  - destruct (sget s src) as [d|]; [|tri Hc]. apply P, Hc.
  - destruct (sget s src) as [d|]; [|tri Hc]. apply P, Hc.
  - destruct (sget s src) as [d|]; [|tri Hc]. apply P. now apply cache_ok_touch.
Qed.

Theorem srun_correct ops : forall s c,
  cache_ok c ->
  fst (srun (s, c) ops) = fst (sfree_run s ops) /\
  fst (snd (srun (s, c) ops)) = snd (sfree_run s ops) /\
  cache_ok (snd (snd (srun (s, c) ops))).
Proof.
  induction ops as [|o r IH]; intros s c Hc; cbn [srun sfree_run].
  - tri Hc.
  - destruct (sstep_correct s c o Hc) as (Hv & Hs & Hc1).
    destruct (sstep (s, c) o) as [v [s1 c1]]. destruct (sfree s o) as [v' s1']. cbn [fst snd] in *. subst v' s1'.
    destruct (IH s1 c1 Hc1) as (Hvs & Hss & Hc2).
    destruct (srun (s1, c1) r) as [vs [s2 c2]]. destruct (sfree_run s1 r) as [vs' s2']. cbn [fst snd] in *.
    subst. tri Hc2.
Qed.

(* from no documents and an empty table *)
Corollary slots_cache_transparent ops :
  fst (srun ([], []) ops) = fst (sfree_run [] ops) /\
  fst (snd (srun ([], []) ops)) = snd (sfree_run [] ops).
Proof. destruct (srun_correct ops [] [] cache_ok_nil) as (H1 & H2 & _). split; assumption. Qed.

(* whatever the table holds for a text after any such history is what the text
   determines (in particular for a document produced by a paste and for every
   equal-text document created while it is alive) *)
Corollary slots_cache_entries ops t e :
  clookup (snd (snd (srun ([], []) ops))) t = Some e ->
  (forall l, ce_lines e = Some l -> l = lines (mkdoc t 0)) /\
  (forall ix, ce_indexes e = Some ix -> ix = line_start_indexes (mkdoc t 0)).
Proof.
  intros H. destruct (srun_correct ops [] [] cache_ok_nil) as (_ & _ & Hc). exact (Hc t e H).
Qed.
