(* C03 - call depth of the recursive formulation of feed() that /repo had before
   6a14a13.  [feed_fuel n] is that feed() with at most n nested self.feed(...)
   calls ([oof] = the call stack ran out).  Every paste inside one read cost two
   nested calls, so a fixed stack bound was exceeded by a long enough read
   (finding C03-F2, fixed), while the loop that /repo has now ([feed] = enough
   fuel) never is. *)
From Coq Require Import ZArith List Bool Lia.
From PTK Require Import Lib.Sx Lib.Py Gen.C03_AnsiSequences Model.C03_Vt100Parser.
Import ListNotations.
Open Scope Z_scope.

Definition empty_pastes (n : nat) : str := repeat_str (start_mark ++ end_mark) n.

(* 600 empty pastes in one read needed more than 1000 nested calls (CPython's
   default recursion limit): only 500 paste events were delivered before the
   stack was exhausted ... *)
Lemma depth_1000_exceeded :
  let st := feed_fuel 1000 (empty_pastes 600) init in
  oof st = true /\ length (rout st) = 500%nat.
Proof. vm_compute. split; reflexivity. Qed.

(* ... while with enough fuel (the loop) all 600 arrive. *)
Lemma loop_delivers_all :
  let st := feed (empty_pastes 600) init in
  oof st = false /\ length (rout st) = 600%nat /\ in_paste st = false /\ prefix st = [].
Proof. vm_compute. repeat split; reflexivity. Qed.
