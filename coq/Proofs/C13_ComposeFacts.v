(* FileHistory under ThreadedHistory: the transition system of
   Model/C13_Threaded.v run over a real file (bytes) instead of an abstract
   list of stored strings is the same system, so what a threaded load() yields
   is what an inline load of the file yields. *)
From Coq Require Import ZArith List Bool Lia.
From PTK Require Import Lib.Sx Lib.Py Model.C13_Utf8 Model.C13_HistFile Model.C13_Threaded
  Proofs.C13_Utf8Facts Proofs.C13_HistFileFacts Proofs.C13_ThreadedFacts.
Import ListNotations.
Open Scope Z_scope.

Lemma file_of_single r : file_of [r] = store_bytes (fst r) (snd r).
Proof. unfold file_of. cbn [flat_map]. apply app_nil_r. Qed.

Section OverFile.
  (* the timestamp store_string writes for each string: anything without "\n" *)
  Variable ts_of : str -> bytes.
  Hypothesis ts_ok : forall s, nolf (ts_of s).

  (* concrete step: the loader's snapshot is FileHistory.load_history_strings()
     on the bytes, store_string appends FileHistory.store_string's bytes *)
  Definition cstep (sf : tstate * bytes) (l : label) : tstate * bytes :=
    let '(st, f) := sf in
    match l with
    | LStep =>
        match t_ph st with
        | P2 => (mkt (t_store st) (t_ls st) (t_loaded st) (t_np st) (P3 (load_bytes f))
                     (t_cons st) (t_fly st) (t_store st), f)
        | _ => (tstep st LStep, f)
        end
    | ASto s => (tstep st (ASto s), f ++ store_bytes (ts_of s) s)
    | Append s => (tstep st (Append s), f ++ store_bytes (ts_of s) s)
    | _ => (tstep st l, f)
    end.
  Definition crun (sf : tstate * bytes) (sched : list label) : tstate * bytes :=
    fold_left cstep sched sf.

  Definition label_valid (l : label) : Prop :=
    match l with
    | AIns s | ASto s | Append s => forallb is_scalar s = true
    | _ => True
    end.

  (* the file holds exactly the stored strings *)
  Definition R (sf : tstate * bytes) : Prop :=
    exists rs, Forall valid_rec rs /\ snd sf = file_of rs /\ map snd rs = t_store (fst sf).

  Lemma R_store st f s :
    R (st, f) -> forallb is_scalar s = true ->
    forall st', t_store st' = t_store st ++ [s] -> R (st', f ++ store_bytes (ts_of s) s).
  Proof.
    intros (rs & Hv & Hf & Hs) Hsc st' E. exists (rs ++ [(ts_of s, s)]). cbn [fst snd] in *. split; [|split].
    - apply Forall_app. split; [exact Hv|]. constructor; [|constructor]. split; [apply ts_ok|exact Hsc].
    - rewrite file_of_app, file_of_single, Hf. reflexivity.
    - rewrite map_app, Hs, E. reflexivity.
  Qed.

  Lemma cstep_sim st f l :
    R (st, f) -> label_valid l ->
    fst (cstep (st, f) l) = tstep st l /\ R (cstep (st, f) l).
  Proof.
    intros HR Hl. pose proof HR as (rs & Hv & Hf & Hs). cbn [fst snd] in Hf, Hs.
    destruct l as [| |i|s|s|s]; cbn [cstep].
    - destruct (t_ph st) eqn:E; cbn [fst]; unfold tstep; rewrite E.
      + split; [reflexivity|]. exists rs. auto.
      + (* the snapshot: inline load of the file = the stored strings, newest first *)
        rewrite Hf, roundtrip by exact Hv. rewrite Hs. split; [reflexivity|]. exists rs. auto.
      + split; [reflexivity|]. exists rs. cbn [fst snd]. destruct pending; auto.
      + split; [reflexivity|]. exists rs. auto.
    - split; [reflexivity|]. exists rs. cbn [fst snd]. unfold tstep. destruct (t_ph st); auto.
    - split; [reflexivity|]. exists rs. auto.
    - split; [reflexivity|]. exists rs. auto.
    - split; [reflexivity|]. apply (R_store st f s HR Hl). reflexivity.
    - split; [reflexivity|]. apply (R_store st f s HR Hl). reflexivity.
  Qed.

  Lemma crun_sim sched : forall st f,
    R (st, f) -> Forall label_valid sched ->
    fst (crun (st, f) sched) = trun st sched /\ R (crun (st, f) sched).
  Proof.
    induction sched as [|l r IH]; intros st f HR Hv; [split; [reflexivity|exact HR]|].
    inversion Hv as [|? ? Hl Hr]; subst. unfold crun, trun. cbn [fold_left].
    destruct (cstep_sim st f l HR Hl) as [E HR'].
    destruct (cstep (st, f) l) as [st' f'] eqn:Ec. cbn [fst] in E. subst st'.
    apply (IH _ _ HR' Hr).
  Qed.

  (* Every schedule (of those the repair covers), on a history file holding the
     records rs0: the system over the file behaves as the abstract one, the file
     stays the concatenation of the records of the stored strings, and a
     finished threaded load() has yielded what FileHistory's own loader returns
     for a file with the records present when that load() started. *)
  Theorem threaded_over_file rs0 sched :
    Forall valid_rec rs0 -> Forall label_valid sched ->
    ok_sched (tinit (map snd rs0)) sched = true ->
    let sf := crun (tinit (map snd rs0), file_of rs0) sched in
    (exists rs, Forall valid_rec rs /\ snd sf = file_of rs /\ map snd rs = t_store (fst sf) /\
                load_bytes (snd sf) = rev (t_store (fst sf))) /\
    (t_loaded (fst sf) = true -> t_fly (fst sf) = [] -> t_ls (fst sf) = load_bytes (snd sf)) /\
    forall c, In c (t_cons (fst sf)) -> c_fin c = true ->
      forall rs, Forall valid_rec rs -> map snd rs = c_start c -> c_out c = load_bytes (file_of rs).
  Proof.
    intros Hv0 Hlv Hok sf.
    assert (HR0 : R (tinit (map snd rs0), file_of rs0)) by (exists rs0; auto).
    destruct (crun_sim sched _ _ HR0 Hlv) as [E (rs & Hv & Hf & Hs)]. fold sf in E, Hf, Hs.
    assert (Hload : load_bytes (snd sf) = rev (t_store (fst sf))) by (rewrite Hf, roundtrip, Hs by exact Hv; reflexivity).
    split; [exists rs; auto|]. split.
    - intros Hl Hfly.
      destruct (t_cons (fst sf)) as [|c0 cs] eqn:Ec.
      + (* no consumer: use the invariant directly *)
        destruct (sched_inv sched _ (init_inv (map snd rs0)) Hok) as [[_ Hp] _].
        rewrite <- E in Hp. rewrite Hload. destruct (t_ph (fst sf)).
        * destruct Hp as (_ & H). congruence.
        * destruct Hp as (_ & _ & H). congruence.
        * destruct Hp as (A & T & _ & _ & _ & H). congruence.
        * destruct Hp as (A & H1 & H2 & _). rewrite H2, H1, Hfly, app_nil_r.
          rewrite (rev_app_distr (t_base (fst sf))). reflexivity.
      + assert (Hin : In c0 (t_cons (trun (tinit (map snd rs0)) sched))) by (rewrite <- E, Ec; now left).
        destruct (threaded_exactly_once _ _ c0 Hok Hin) as (_ & _ & H). rewrite <- E in H.
        rewrite (H Hl), Hfly, app_nil_r. now rewrite Hload.
    - intros c Hin Hfin rs' Hv' Hs'. rewrite E in Hin.
      destruct (threaded_exactly_once _ _ c Hok Hin) as (H & _).
      rewrite (H Hfin), <- Hs'. symmetry. now apply roundtrip.
  Qed.

  (* ---- a TORN file under a threaded load ---------------------------------- *)
  (* nothing is stored before the loader has read the file (the crash-recovery
     case: the new process loads first) *)
  Definition no_early_store (st : tstate) (l : label) : bool :=
    match l with
    | ASto _ | Append _ => match t_ph st with P0 | P2 => false | _ => true end
    | _ => true
    end.
  Fixpoint nes_sched (st : tstate) (sched : list label) : bool :=
    match sched with
    | [] => true
    | l :: r => no_early_store st l && nes_sched (tstep st l) r
    end.

  Definition R2 (p : bytes) (sf : tstate * bytes) : Prop :=
    match t_ph (fst sf) with
    | P0 | P2 => snd sf = p /\ t_store (fst sf) = rev (load_bytes p)
    | _ => exists rs, Forall valid_rec rs /\ snd sf = p ++ file_of rs /\
                      t_store (fst sf) = rev (load_bytes p) ++ map snd rs
    end.

  Lemma cstep_sim2 p st f l :
    R2 p (st, f) -> label_valid l -> no_early_store st l = true ->
    fst (cstep (st, f) l) = tstep st l /\ R2 p (cstep (st, f) l).
  Proof.
    unfold R2. cbn [fst snd]. intros HR Hl Hn.
    assert (Hst : forall st' f' s, t_ph st' = t_ph st -> t_store st' = t_store st ++ [s] ->
                  forallb is_scalar s = true -> f' = f ++ store_bytes (ts_of s) s ->
                  match t_ph st with P0 | P2 => False | _ => True end ->
                  match t_ph st' with
                  | P0 | P2 => f' = p /\ t_store st' = rev (load_bytes p)
                  | _ => exists rs, Forall valid_rec rs /\ f' = p ++ file_of rs /\
                                    t_store st' = rev (load_bytes p) ++ map snd rs
                  end).
    { intros st' f' s Ep Es Hs Ef Hph. rewrite Ep. destruct (t_ph st); try contradiction;
        (destruct HR as (rs & Hv & Hf & Hs'); exists (rs ++ [(ts_of s, s)]); split; [|split];
         [apply Forall_app; split; [exact Hv|]; constructor; [|constructor]; split; [apply ts_ok|exact Hs]
         |rewrite Ef, Hf, file_of_app, file_of_single, <- app_assoc; reflexivity
         |rewrite Es, Hs', map_app, <- app_assoc; reflexivity]). }
    destruct l as [| |i|s|s|s]; cbn [cstep fst snd].
    - (* loader *)
      destruct (t_ph st) eqn:E; cbn [fst snd]; unfold tstep; rewrite E.
      + split; [reflexivity|]. cbn. rewrite E. exact HR.
      + destruct HR as (Hf & Hs). rewrite Hf, Hs, rev_involutive. split; [reflexivity|].
        cbn. exists []. cbn. rewrite !app_nil_r. auto.
      + split; [reflexivity|]. destruct pending; cbn; exact HR.
      + split; [reflexivity|]. cbn. rewrite E. exact HR.
    - split; [reflexivity|]. unfold tstep. destruct (t_ph st) eqn:E; cbn; exact HR.
    - split; [reflexivity|]. cbn. exact HR.
    - split; [reflexivity|]. cbn. exact HR.
    - split; [reflexivity|]. cbn [no_early_store] in Hn.
      apply (Hst (tstep st (ASto s)) _ s); auto; try reflexivity. destruct (t_ph st); try discriminate; auto.
    - split; [reflexivity|]. cbn [no_early_store] in Hn.
      apply (Hst (tstep st (Append s)) _ s); auto; try reflexivity. destruct (t_ph st); try discriminate; auto.
  Qed.

  Lemma crun_sim2 p sched : forall st f,
    R2 p (st, f) -> Forall label_valid sched -> nes_sched st sched = true ->
    fst (crun (st, f) sched) = trun st sched /\ R2 p (crun (st, f) sched).
  Proof.
    induction sched as [|l r IH]; intros st f HR Hv Hn; [split; [reflexivity|exact HR]|].
    inversion Hv as [|? ? Hl Hr]; subst. cbn [nes_sched] in Hn. apply andb_true_iff in Hn as [Hn1 Hn2].
    unfold crun, trun. cbn [fold_left].
    destruct (cstep_sim2 p st f l HR Hl Hn1) as [E HR'].
    destruct (cstep (st, f) l) as [st' f'] eqn:Ec. cbn [fst] in E. subst st'.
    apply (IH _ _ HR' Hr Hn2).
  Qed.

  (* the storage only grows, and every load() starts on an extension of it *)
  Lemma store_grows X sched : forall st,
    pre X (t_store st) -> Forall (fun c => pre X (c_start c)) (t_cons st) ->
    pre X (t_store (trun st sched)) /\ Forall (fun c => pre X (c_start c)) (t_cons (trun st sched)).
  Proof.
    assert (Hext : forall a b, pre X a -> pre X (a ++ b)).
    { intros a b [t ->]. exists (t ++ b). now rewrite app_assoc. }
    induction sched as [|l r IH]; intros st Hs Hc; [split; assumption|].
    unfold trun. cbn [fold_left]. apply IH.
    - destruct l; cbn [tstep]; unfold asto, ains; cbn [t_store]; auto.
      + destruct (t_ph st) as [| |[|x q]|]; cbn; auto.
      + destruct (t_ph st); cbn; auto.
    - destruct l; cbn [tstep]; unfold asto, ains; cbn [t_cons]; auto.
      + destruct (t_ph st) as [| |[|x q]|]; cbn [t_cons]; auto;
          apply Forall_map; (eapply Forall_impl; [|exact Hc]); intros c Hp; unfold set_ev; destruct (c_fin c); exact Hp.
      + destruct (t_ph st); cbn [t_cons]; apply Forall_app; (split; [exact Hc|]);
          (constructor; [|constructor]); unfold new_cons; cbn [c_start]; now apply Hext.
      + apply Forall_upd_nth; [|exact Hc]. intros c Hp. unfold read. destruct (c_fin c); exact Hp.
  Qed.

  (* ONE statement for "crash, restart, load in a background thread, keep
     appending": the file is cut at ANY byte (p), the threaded system runs over
     those bytes under any covered schedule in which nothing is stored before
     the loader has read the file.  Then the run is the abstract run over
     S0 = the k completed entries + at most one damaged string, and every
     finished load() yields: whatever was appended before it started (newest
     first), then at most one damaged string, then the k completed entries
     intact and in order. *)
  Theorem torn_threaded rs0 p sfx sched :
    Forall valid_rec rs0 -> p ++ sfx = file_of rs0 -> Forall label_valid sched ->
    let S0 := rev (load_bytes p) in
    ok_sched (tinit S0) sched = true -> nes_sched (tinit S0) sched = true ->
    exists k d, complete_in rs0 p k /\ (length d <= 1)%nat /\
      (p = file_of (firstn k rs0) -> d = []) /\
      fst (crun (tinit S0, p) sched) = trun (tinit S0) sched /\
      forall c, In c (t_cons (trun (tinit S0) sched)) -> c_fin c = true ->
        exists tail, c_start c = S0 ++ tail /\ c_out c = rev tail ++ d ++ rev (firstn k (map snd rs0)).
  Proof.
    intros Hv E Hlv S0 Hok Hnes.
    destruct (torn rs0 p sfx Hv E) as (k & d & Hc & Hd & Hl & Hz).
    exists k, d. split; [exact Hc|]. split; [exact Hd|]. split; [exact Hz|].
    assert (HR0 : R2 p (tinit S0, p)) by (unfold R2; cbn; auto).
    destruct (crun_sim2 p sched _ _ HR0 Hlv Hnes) as [Esim _]. split; [exact Esim|].
    intros c Hin Hfin.
    destruct (threaded_exactly_once S0 sched c Hok Hin) as (Hout & _).
    destruct (store_grows S0 sched (tinit S0)) as [_ Hpre]; [apply pre_refl|constructor|].
    rewrite Forall_forall in Hpre. destruct (Hpre c Hin) as [tail Ht].
    exists tail. split; [exact Ht|]. rewrite (Hout Hfin), Ht, rev_app_distr. unfold S0.
    rewrite rev_involutive, Hl. reflexivity.
  Qed.
End OverFile.
