(* C10: invariants of Window._copy_body (and Screen.append_style_to_content):
   every cell it stores has control-free text, and zero_width_escapes receives
   nothing but the text of fragments marked "[ZeroWidthEscape]". *)
From Coq Require Import ZArith List Bool Lia.
From PTK Require Import Lib.Sx Lib.Py Gen.C10_DisplayMappings Model.C10_Screen Proofs.C10_TableFacts.
Import ListNotations.
Open Scope Z_scope.

Definition cell_ok (c : cell) : Prop := control_free (cch c) = true /\ 0 <= cw c.
Definition row_ok (r : rowmap) : Prop := Forall (fun xc => cell_ok (snd xc)) r.
Definition data_ok (d : databuf) : Prop := Forall (fun yr => row_ok (snd yr)) d.

(* p is a contiguous piece of one of the texts in M (fragments are cut at line
   ends by split_lines and into characters by explode_text_fragments) *)
Definition piece_of (M : list (list Z)) (p : list Z) : Prop :=
  exists m a b, In m M /\ m = a ++ p ++ b.
(* t is a concatenation of pieces of texts taken from M *)
Definition concat_of (M : list (list Z)) (t : list Z) : Prop :=
  exists l, Forall (piece_of M) l /\ t = concat l.
Definition zrow_ok (M : list (list Z)) (r : list (Z * list Z)) : Prop :=
  Forall (fun xt => concat_of M (snd xt)) r.
Definition zwe_ok (M : list (list Z)) (z : zwemap) : Prop :=
  Forall (fun yr => zrow_ok M (snd yr)) z.

Definition screen_ok (M : list (list Z)) (s : screen) : Prop := data_ok (sdata s) /\ zwe_ok M (szwe s).

(* a fragment's text is in M whenever its style carries the mark *)
Definition frag_marked (M : list (list Z)) (f : frag) : Prop :=
  contains ZWE_MARK (fst f) = true -> piece_of M (snd f).
Definition frags_marked M (fs : list frag) : Prop := forall f, In f fs -> frag_marked M f.

(* ------------------------------------------------------------ generic *)

Lemma upd_Forall {V} (P : Z * V -> Prop) t k v : Forall P t -> P (k, v) -> Forall P (upd t k v).
Proof.
  intros Ht Hv. induction t as [|[k' v'] r IH]; cbn [upd].
  - constructor; [exact Hv | constructor].
  - inversion Ht as [|? ? H1 H2]; subst. destruct (k' =? k).
    + constructor; assumption.
    + constructor; [assumption | apply IH; assumption].
Qed.

Lemma assoc_Forall {V} (P : Z * V -> Prop) t k v : Forall P t -> assoc t k = Some v -> P (k, v).
Proof. intros Ht H. apply assoc_In in H. rewrite Forall_forall in Ht. exact (Ht _ H). Qed.

Lemma fold_left_inv {A B} (P : A -> Prop) (f : A -> B -> A) (l : list B) :
  (forall a b, In b l -> P a -> P (f a b)) -> forall a, P a -> P (fold_left f l a).
Proof.
  induction l as [|b r IH]; intros H a Ha; [exact Ha|].
  cbn [fold_left]. apply IH.
  - intros a' b' Hb. apply H. right. exact Hb.
  - apply H; [left; reflexivity | exact Ha].
Qed.

(* ------------------------------------------------------------ cells and rows *)

Lemma cell_ok_single wc c st : cell_ok (char_init wc [c] st).
Proof. split; [apply char_init_single_clean | apply char_init_cw_nonneg]. Qed.

Lemma cell_ok_clean wc s st : control_free s = true -> cell_ok (char_init wc s st).
Proof. intro H. split; [apply char_init_clean_of_clean; exact H | apply char_init_cw_nonneg]. Qed.

Lemma default_cell_ok wc : cell_ok (default_cell wc).
Proof. apply cell_ok_single. Qed.

Lemma empty_cell_ok wc : cell_ok (empty_cell wc).
Proof. apply cell_ok_clean. reflexivity. Qed.

Lemma get_row_ok d y : data_ok d -> row_ok (get_row d y).
Proof.
  intro H. unfold get_row. destruct (assoc d y) as [r|] eqn:E.
  - exact (assoc_Forall _ d y r H E).
  - constructor.
Qed.

Lemma get_cell_ok wc r x : row_ok r -> cell_ok (get_cell wc r x).
Proof.
  intro H. unfold get_cell. destruct (assoc r x) as [c|] eqn:E.
  - exact (assoc_Forall _ r x c H E).
  - apply default_cell_ok.
Qed.

Lemma set_cell_ok d y x c : data_ok d -> cell_ok c -> data_ok (set_cell d y x c).
Proof.
  intros Hd Hc. unfold set_cell. apply upd_Forall; [exact Hd|].
  cbn [snd]. apply upd_Forall; [apply get_row_ok; exact Hd | exact Hc].
Qed.

Lemma blank_screen_ok M : screen_ok M blank_screen.
Proof. split; constructor. Qed.

(* ------------------------------------------------------------ zero-width escapes *)

Lemma concat_of_nil M : concat_of M [].
Proof. exists []. split; [constructor | reflexivity]. Qed.

Lemma concat_of_app M a t : concat_of M a -> piece_of M t -> concat_of M (a ++ t).
Proof.
  intros (l & Hl & E) Ht. exists (l ++ [t]). split.
  - apply Forall_app. split; [exact Hl | constructor; [exact Ht | constructor]].
  - rewrite concat_app, E. cbn [concat]. rewrite app_nil_r. reflexivity.
Qed.

Lemma get_zrow_ok M z y : zwe_ok M z -> zrow_ok M (get_zrow z y).
Proof.
  intro H. unfold get_zrow. destruct (assoc z y) as [r|] eqn:E.
  - exact (assoc_Forall _ z y r H E).
  - constructor.
Qed.

Lemma zwe_append_ok M z y x t : zwe_ok M z -> piece_of M t -> zwe_ok M (zwe_append z y x t).
Proof.
  intros Hz Ht. unfold zwe_append. apply upd_Forall; [exact Hz|].
  cbn [snd]. pose proof (get_zrow_ok M z y Hz) as Hr.
  apply upd_Forall; [exact Hr|]. cbn [snd].
  apply concat_of_app; [|exact Ht].
  destruct (assoc (get_zrow z y) x) as [o|] eqn:E.
  - exact (assoc_Forall _ _ x o Hr E).
  - apply concat_of_nil.
Qed.

(* ------------------------------------------------------------ copy_line *)

Section CopyInv.
  Variable wc : Z -> Z.
  Variable g : cfg.
  Variable M : list (list Z).
  Hypothesis Hwc : wc_ascii wc.

  Definition cs_ok (st : cstate) : Prop := data_ok (cdata st) /\ zwe_ok M (czwe st).
  Definition wrap_ok (f : cstate -> cstate) : Prop := forall st, cs_ok st -> cs_ok (f st).

  Lemma put_empty_ok n : forall d y x i, data_ok d -> data_ok (put_empty wc d y x n i).
  Proof.
    induction n as [|k IH]; intros d y x i H; cbn [put_empty]; [exact H|].
    apply IH. apply set_cell_ok; [exact H | apply empty_cell_ok].
  Qed.

  Lemma merge_pw_ok d y x c pw : is_control c = false -> data_ok d -> data_ok (merge_pw wc g d y x c pw).
  Proof.
    intros Hc H. unfold merge_pw. destruct (x - pw >=? 0); [|exact H].
    set (d0 := match assoc _ _ with Some _ => d | None => _ end).
    assert (H0 : data_ok d0).
    { subst d0. destruct (assoc _ _); [exact H | apply set_cell_ok; [exact H | apply default_cell_ok]]. }
    destruct (cw _ =? pw); [|exact H0].
    apply set_cell_ok; [exact H0|]. apply cell_ok_clean.
    rewrite control_free_app.
    pose proof (get_cell_ok wc _ (x + g_xpos g - pw) (get_row_ok d (y + g_ypos g) H)) as [Hp _].
    rewrite Hp. cbn. rewrite Hc. reflexivity.
  Qed.

  Lemma char_step_ok on_wrap style : wrap_ok on_wrap ->
    forall st c, cs_ok st -> cs_ok (char_step wc g on_wrap style st c).
  Proof.
    intros Hw st c Hst. unfold char_step.
    destruct (cstop st); [exact Hst|].
    set (ch := char_init wc [c] style).
    set (st1 := if g_wrap g && (cx st + cw ch >? g_width g) then _ else st).
    assert (H1 : cs_ok st1).
    { subst st1. destruct (g_wrap g && (cx st + cw ch >? g_width g)); [|exact Hst].
      assert (H0 : cs_ok (on_wrap (mkcs 0 (cy st + 1) (cwrap st + 1) (cdata st) (czwe st) false))).
      { apply Hw. exact Hst. }
      destruct (cy _ >=? g_height g); [exact H0 | exact H0]. }
    clearbody st1. destruct (cstop st1); [exact H1|].
    destruct H1 as [Hd Hz]. split; cbn [cdata czwe]; [|exact Hz].
    destruct ((cx st1 >=? 0) && (cy st1 >=? 0) && (cx st1 <? g_width g)); [|exact Hd].
    assert (Hd1 : data_ok (set_cell (cdata st1) (cy st1 + g_ypos g) (cx st1 + g_xpos g) ch)).
    { apply set_cell_ok; [exact Hd | apply cell_ok_single]. }
    destruct (cw ch >? 1).
    - apply put_empty_ok. exact Hd1.
    - destruct (cw ch =? 0) eqn:E0; [|exact Hd1].
      apply Z.eqb_eq in E0.
      pose proof (zero_width_not_control wc c style Hwc E0) as Hc.
      apply merge_pw_ok; [exact Hc|]. apply merge_pw_ok; [exact Hc | exact Hd1].
  Qed.

  Lemma frag_step_ok on_wrap : wrap_ok on_wrap ->
    forall st f, frag_marked M f -> cs_ok st -> cs_ok (frag_step wc g on_wrap st f).
  Proof.
    intros Hw st f Hf Hst. unfold frag_step.
    destruct (cstop st); [exact Hst|].
    destruct (contains ZWE_MARK (fst f)) eqn:E.
    - destruct Hst as [Hd Hz]. split; cbn [cdata czwe]; [exact Hd|].
      apply zwe_append_ok; [exact Hz | exact (Hf E)].
    - apply fold_left_inv; [|exact Hst].
      intros a b _ Ha. apply char_step_ok; assumption.
  Qed.

  Lemma copy_frags_ok on_wrap fs : wrap_ok on_wrap -> frags_marked M fs ->
    forall st, cs_ok st -> cs_ok (copy_frags wc g on_wrap fs st).
  Proof.
    intros Hw Hfs st Hst. unfold copy_frags. apply fold_left_inv; [|exact Hst].
    intros a f Hin Ha. apply frag_step_ok; [exact Hw | exact (Hfs f Hin) | exact Ha].
  Qed.

  Lemma id_wrap_ok : wrap_ok (fun s => s).
  Proof. intros st H. exact H. Qed.

  Lemma piece_whole m : In m M -> piece_of M m.
  Proof. intro H. exists m, [], []. split; [exact H | rewrite app_nil_r; reflexivity]. Qed.

  Lemma piece_char p c : piece_of M p -> In c p -> piece_of M [c].
  Proof.
    intros (m & a & b & Hm & E) Hc. apply in_split in Hc. destruct Hc as (l1 & l2 & Ep).
    exists m, (a ++ l1), (l2 ++ b). split; [exact Hm|]. subst p. rewrite E.
    repeat rewrite <- app_assoc. reflexivity.
  Qed.

  Lemma explode_marked fs : frags_marked M fs -> frags_marked M (explode fs).
  Proof.
    intros H f Hf Hm. unfold explode in Hf. apply in_flat_map in Hf. destruct Hf as (f0 & Hf0 & Hf).
    apply in_map_iff in Hf. destruct Hf as (c & E & Hc). subst f. cbn [fst snd] in *.
    exact (piece_char (snd f0) c (H f0 Hf0 Hm) Hc).
  Qed.

  Lemma hdrop_incl : forall l h, incl (snd (hdrop wc h l)) l.
  Proof.
    induction l as [|f r IH]; intro h; cbn [hdrop]; [apply incl_refl|].
    destruct (h >? 0); [apply incl_tl, IH | apply incl_refl].
  Qed.

  Lemma copy_line0_ok fs x y d z : frags_marked M fs -> data_ok d -> zwe_ok M z ->
    cs_ok (copy_line0 wc g fs x y d z).
  Proof.
    intros Hfs Hd Hz. unfold copy_line0. apply copy_frags_ok; [apply id_wrap_ok | exact Hfs|].
    split; assumption.
  Qed.

  Lemma prefix_call_ok p : (forall w, frags_marked M (p w)) -> wrap_ok (prefix_call wc g p).
  Proof.
    intros Hp st [Hd Hz]. unfold prefix_call.
    pose proof (copy_line0_ok (p (cwrap st)) (cx st) (cy st) _ _ (Hp _) Hd Hz) as [H1 H2].
    split; cbn [cdata czwe]; assumption.
  Qed.

  Definition pfx_marked (pfx : option (Z -> Z -> list frag)) : Prop :=
    match pfx with Some p => forall l w, frags_marked M (p l w) | None => True end.

  Lemma copy_line_input_ok pfx fs lineno y d z : pfx_marked pfx -> frags_marked M fs ->
    data_ok d -> zwe_ok M z -> cs_ok (copy_line_input wc g pfx fs lineno y d z).
  Proof.
    intros Hp Hfs Hd Hz. unfold copy_line_input.
    assert (Hw : wrap_ok (match pfx with Some p => prefix_call wc g (p lineno) | None => fun s => s end)).
    { destruct pfx as [p|]; [apply prefix_call_ok; intro w; apply Hp | apply id_wrap_ok]. }
    set (st1 := match pfx with Some p => _ | None => _ end (mkcs 0 y 0 d z false)).
    assert (H1 : cs_ok st1) by (apply Hw; split; assumption).
    apply copy_frags_ok; [exact Hw | | exact H1].
    destruct (g_hscroll g =? 0); [exact Hfs|].
    intros f Hf. apply (explode_marked fs Hfs). exact (hdrop_incl _ _ f Hf).
  Qed.

  Lemma copy_lines_ok pfx lines : pfx_marked pfx -> (forall l, In l lines -> frags_marked M l) ->
    forall lineno y d z, data_ok d -> zwe_ok M z ->
    data_ok (fst (copy_lines wc g pfx lines lineno y d z)) /\ zwe_ok M (snd (copy_lines wc g pfx lines lineno y d z)).
  Proof.
    intros Hp. induction lines as [|l r IH]; intros Hl lineno y d z Hd Hz; cbn [copy_lines].
    - split; assumption.
    - destruct (y <? g_height g); [|split; assumption].
      pose proof (copy_line_input_ok pfx l lineno y d z Hp (Hl l (or_introl eq_refl)) Hd Hz) as [H1 H2].
      apply IH; [intros l' Hin; apply Hl; right; exact Hin | exact H1 | exact H2].
  Qed.

  Theorem copy_body_ok pfx lines s : pfx_marked pfx -> (forall l, In l lines -> frags_marked M l) ->
    screen_ok M s -> screen_ok M (copy_body wc g pfx lines s).
  Proof.
    intros Hp Hl [Hd Hz]. unfold copy_body, screen_ok. cbn [sdata szwe].
    apply copy_lines_ok; assumption.
  Qed.
End CopyInv.

Lemma copy_body_screen_ok : forall wc g M pfx lines s,
  wc_ascii wc -> pfx_marked M pfx -> (forall l, In l lines -> frags_marked M l) ->
  screen_ok M s -> screen_ok M (copy_body wc g pfx lines s).
Proof. intros wc g M pfx lines s Hw. exact (copy_body_ok wc g M Hw pfx lines s). Qed.

(* ------------------------------------------------------------ append_style_to_content *)

Lemma append_style_ok wc M sty s : screen_ok M s -> screen_ok M (append_style wc sty s).
Proof.
  intros [Hd Hz]. split; cbn [append_style sdata szwe]; [|exact Hz].
  unfold data_ok in *. apply Forall_map. eapply Forall_impl; [|exact Hd].
  intros [y r] Hr. cbn [snd fst] in *. unfold row_ok in *. apply Forall_map.
  eapply Forall_impl; [|exact Hr]. intros [x c] [Hc _]. cbn [snd fst] in *.
  apply cell_ok_clean. exact Hc.
Qed.

(* restyling does not change what a cell shows *)
Lemma append_style_same_text wc sty (c : cell) st0 s0 :
  c = char_init wc s0 st0 -> cch (char_init wc (cch c) (cst c ++ 32 :: sty)) = cch c.
Proof. intro E. subst c. apply char_init_rewrap. Qed.

(* the hypotheses are satisfiable, and the merge path is reachable *)
Example copy_body_example :
  let wc := fun c => if c =? 769 then 0 else 1 in
  let g := mkcfg 10 1 0 0 false 0 0 in
  let s := copy_body wc g None [[([], [101; 769; 27; 155]); (ZWE_MARK, [27; 93])]] blank_screen in
  map (fun x => cch (get_cell wc (get_row (sdata s) 0) x)) [0; 1; 3] = [[101; 769]; [94; 91]; [60; 57; 98; 62]]
  /\ szwe s = [(0, [(7, [27; 93])])].
Proof. vm_compute. split; reflexivity. Qed.
