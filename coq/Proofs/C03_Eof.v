(* C03 - what PosixStdinReader does with an incomplete UTF-8 sequence that is
   pending when the descriptor reaches end of file: read() never calls the
   decoder with final=True, so the undecoded tail (at most three bytes that could
   still have been completed, or CPython's truncated surrogate) stays in the
   decoder for ever; every byte before it is accounted for by the text handed out. *)
From Coq Require Import ZArith List Bool Lia.
From PTK Require Import Model.C03_Vt100Input Model.C03_Utf8Spec Model.C03_Cache
  Proofs.C03_Input Proofs.C03_Utf8 Proofs.C03_Cache.
Import ListNotations.
Open Scope Z_scope.

Lemma utf8dec_pend bs t p : Utf8Dec bs t p -> p = [] \/ Incomplete p.
Proof. induction 1; auto. Qed.

Lemma incomplete_short p : Incomplete p -> (1 <= length p <= 3)%nat.
Proof.
  intros [cp ext S Hne Hext E|b2 -> _]; [|cbn [length]; lia].
  assert (L : (length (encode1 cp) <= 4)%nat).
  { unfold encode1. repeat match goal with |- context [if ?c then _ else _] => destruct c end; cbn [length]; lia. }
  rewrite <- E, app_length in L. destruct p; [congruence|]. destruct ext; [congruence|]. cbn [length] in *. lia.
Qed.

(* any sequence of read() calls: the text handed out, re-encoded (escapes back
   to their bytes), followed by the undecoded tail, is exactly what was taken
   from the descriptor; the tail is empty or an incomplete sequence of 1-3 bytes;
   once the reader is closed (end of file, select error) no later call delivers it *)
Lemma reader_tail_undelivered calls later :
  let x := reader_run calls rinit in
  forallb is_byte (snd x) = true ->
  encode_se (snd (fst x)) ++ rpend (fst (fst x)) = snd x /\
  (rpend (fst (fst x)) = [] \/ (Incomplete (rpend (fst (fst x))) /\ (1 <= length (rpend (fst (fst x))) <= 3)%nat)) /\
  (rclosed (fst (fst x)) = true -> reader_run later (fst (fst x)) = (fst (fst x), [], [])).
Proof.
  cbv zeta. intros HB.
  destruct (reader_run_conservation calls rinit) as (A & B & _); [reflexivity|].
  cbn [rpend rinit app] in A, B.
  pose proof (dec_complete _ HB) as D. rewrite <- A, <- B in D.
  split; [now apply (utf8dec_lossless _ _ _ D)|]. split.
  - destruct (utf8dec_pend _ _ _ D) as [E|I]; [now left|right]. split; [exact I|now apply incomplete_short].
  - apply reader_run_closed.
Qed.

(* witness: "a" and the first byte of "e-acute" arrive, then end of file *)
Lemma reader_eof_witness :
  reader_run [(SelReady, RdData [97; 195]); (SelReady, RdData []); (SelReady, RdData [169])] rinit
  = (mkr true [195], [97], [97; 195]).
Proof. vm_compute. reflexivity. Qed.
