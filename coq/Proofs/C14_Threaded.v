(* The History object being a ThreadedHistory (as patched in /repo): strings
   arrive from the loader thread while the session runs, get_strings() is "what
   is loaded so far", append_string counts its insertions in front. *)
From Coq Require Import ZArith List Bool Lia.
From PTK Require Import Lib.Sx Lib.Py Model.Document Model.BufferEdit Model.C14_HistoryNav
  Proofs.C14_Facts Proofs.C14_Accept.
Import ListNotations.
Open Scope Z_scope.

(* Coherence of a ThreadedHistory with its backend: once the thread runs, the
   loaded strings followed by what the thread still has to read are the stored
   history (newest first); before that the loaded strings are what this
   session appended. *)
Definition CohT (s : hs) : Prop :=
  thr (th s) = true /\
  (if tstarted (th s)
   then ls (store s) ++ tsrc (th s) = rev (sto (store s)) /\
        (loaded (store s) = true -> tsrc (th s) = [])
   else tsrc (th s) = [] /\ loaded (store s) = false /\
        exists pre, sto (store s) = pre ++ rev (ls (store s))).

Lemma cohT_same s s' : store s' = store s -> th s' = th s -> CohT s -> CohT s'.
Proof. unfold CohT. intros -> ->. auto. Qed.

Lemma cohT_init storage e : CohT (init_k storage e true).
Proof.
  unfold CohT, init_k; proj. split; [reflexivity|]. repeat split.
  exists storage. rewrite app_nil_r. reflexivity.
Qed.

Lemma cohT_append s : CohT s -> CohT (append_to_history s).
Proof.
  intros (Ht & H). unfold append_to_history, hist_for_get, do_append. rewrite Ht.
  destruct (text s) as [|ch t] eqn:Et; [split; assumption|].
  assert (A : CohT (set_th (set_store s (append_string (store s) (ch :: t)))
                      (mkth true (nprep (th s) + 1) (tstarted (th s)) (tsrc (th s)) (tprep (th s))))).
  { unfold CohT; proj. split; [reflexivity|].
    destruct (tstarted (th s)).
    - destruct H as (E & L). unfold append_string; proj. split; [|exact L].
      rewrite rev_app_distr. cbn [rev app]. rewrite <- E. reflexivity.
    - destruct H as (T & L & pre & E). unfold append_string; proj. repeat split; auto.
      exists pre. cbn [rev]. rewrite E, app_assoc. reflexivity. }
  destruct (ls (store s)) as [|x r] eqn:El; [exact A|].
  destruct (str_eqb x (ch :: t)); [|exact A].
  rewrite <- El in H. apply (cohT_same s); [reflexivity | reflexivity | split; assumption].
Qed.

Lemma cohT_load_start s : CohT s -> CohT (load_start s).
Proof.
  intros (Ht & H). unfold load_start. destruct (task s); [split; assumption|]. rewrite Ht.
  destruct (tstarted (th s)) eqn:Es.
  - unfold CohT; proj. split; [reflexivity|]. exact H.
  - destruct H as (T & L & _). unfold CohT; proj. split; [reflexivity|].
    split; [reflexivity|]. rewrite L. discriminate.
Qed.

Lemma cohT_thread_step s : CohT s -> CohT (thread_step s).
Proof.
  intros (Ht & H). unfold thread_step. rewrite Ht. cbn [andb].
  destruct (tstarted (th s)) eqn:Es; [|split; [exact Ht | rewrite Es; exact H]].
  destruct H as (E & L). destruct (tsrc (th s)) as [|x r] eqn:Et.
  - unfold CohT; proj. rewrite Ht, Es, Et. repeat split; auto.
  - unfold CohT; proj. split; [reflexivity|]. split.
    + rewrite <- app_assoc. exact E.
    + intros Hl. specialize (L Hl). discriminate.
Qed.

Lemma consume_store s : store (consume s) = store s.
Proof.
  unfold consume. destruct (thr (th s)); [|reflexivity].
  destruct (task s); [|reflexivity]. destruct (tfin s); reflexivity.
Qed.

Lemma write_back_store' c s b : store (write_back c s b) = store s.
Proof. apply write_back_store. Qed.

Lemma nav_core_cohT c s o : is_nav o -> CohT s -> CohT (snd (fst (step_core c s o))).
Proof.
  intros Ho H. destruct (nav_core_frame c s o Ho) as (_ & A & _ & _ & _ & B).
  apply (cohT_same s); assumption.
Qed.

Lemma core_cohT c s o : CohT s -> CohT (snd (fst (step_core c s o))).
Proof.
  intros H.
  destruct o; try (apply nav_core_cohT; [exact I | exact H]);
    cbn [step_core ok fst snd].
  - destruct (insert_text _ _ _ _); cbn [of_res ok fst snd]; [|exact H].
    apply (cohT_same s); [apply write_back_store | apply write_back_th | exact H].
  - destruct (delete_before_cursor _ _); cbn [of_res ok fst snd]; [|exact H].
    apply (cohT_same s); [apply write_back_store | apply write_back_th | exact H].
  - destruct (delete _ _); cbn [of_res ok fst snd]; [|exact H].
    apply (cohT_same s); [apply write_back_store | apply write_back_th | exact H].
  - cbn [of_res ok fst snd]. apply (cohT_same s); [apply write_back_store | apply write_back_th | exact H].
  - unfold validate_and_handle.
    destruct (validate_frame c s true) as (_ & A & _ & _ & _ & B).
    destruct (validate c s true) as [s1 okv]; cbn [fst] in A, B.
    assert (H1 : CohT s1) by (apply (cohT_same s); assumption).
    destruct okv; cbn [fst snd]; [|exact H1].
    destruct (keep c); [apply cohT_append, H1|].
    apply (cohT_same (append_to_history s1)); [reflexivity | reflexivity | apply cohT_append, H1].
  - destruct app.
    + apply (cohT_same (append_to_history s)); [reflexivity | reflexivity | apply cohT_append, H].
    + apply (cohT_same s); [reflexivity | reflexivity | exact H].
  - apply cohT_load_start, H.
  - apply (cohT_same s); [| rewrite pop_step_th; reflexivity | exact H].
    unfold pop_step. rewrite (proj1 H). reflexivity.
  - apply (cohT_same s); [| unfold pop_all; rewrite pop_n_th; reflexivity | exact H].
    unfold pop_all.
    assert (E : forall n x, thr (th x) = true -> pop_n n x = x).
    { induction n; intros x Hx; cbn [pop_n]; [reflexivity|].
      unfold pop_step at 1. rewrite Hx. apply IHn, Hx. }
    rewrite E by exact (proj1 H). reflexivity.
  - apply (cohT_same s); [reflexivity | reflexivity | exact H].
  - apply cohT_append, H.
  - destruct H as (Ht & _). unfold reopen, reset, CohT; proj. rewrite Ht. split; [reflexivity|].
    repeat split. exists (sto (store s)). rewrite app_nil_r. reflexivity.
  - apply cohT_thread_step, H.
Qed.

Lemma step_cohT c s o : CohT s -> CohT (step_state c s o).
Proof.
  intros H. rewrite step_state_full.
  apply (cohT_same (snd (fst (step_core c s o)))); [| | apply core_cohT, H].
  - destruct (flush_frame c (consume (snd (fst (step_core c s o))))) as (_ & A & _). rewrite A. apply consume_store.
  - rewrite flush_th. apply consume_th.
Qed.

Lemma steps_cohT c ops : forall s, CohT s -> CohT (steps c s ops).
Proof.
  induction ops as [|o r IH]; intros s H; cbn [steps fold_left]; [exact H | apply IH, step_cohT, H].
Qed.

(* append_to_history over a ThreadedHistory: compared with the newest LOADED string *)
Lemma thr_append_store s :
  thr (th s) = true -> text s <> [] ->
  let t := text s in let h := store s in
  store (append_to_history s) = if skip_append h t then h else append_string h t.
Proof.
  intros Ht Hn t h. unfold append_to_history, hist_for_get, do_append, skip_append. rewrite Ht.
  fold t. destruct t eqn:Et; [contradiction|]. fold h.
  destruct (ls h); [reflexivity|]. destruct (str_eqb _ _); reflexivity.
Qed.

(* as soon as anything is loaded (the thread delivers the newest entry first,
   an append puts the newest in front) that is the newest STORED entry *)
Lemma thr_newest s x r :
  CohT s -> tstarted (th s) = true -> ls (store s) = x :: r ->
  exists pre, sto (store s) = pre ++ [x].
Proof.
  intros (_ & H) Hs El. rewrite Hs in H. destruct H as (E & _). rewrite El in E.
  exists (rev (r ++ tsrc (th s))).
  rewrite <- (rev_involutive (sto (store s))), <- E. cbn [app rev]. reflexivity.
Qed.

Lemma thr_append_once s :
  CohT s -> tstarted (th s) = true -> ls (store s) <> [] ->
  let S := sto (store s) in
  sto (store (append_to_history s)) = if stored_skip S (text s) then S else S ++ [text s].
Proof.
  intros Hc Hs Hl S. destruct (text s) as [|ch t] eqn:Et.
  - rewrite append_to_history_empty by exact Et. reflexivity.
  - pose proof (thr_append_store s (proj1 Hc)) as A. rewrite Et in A. cbv zeta in A.
    rewrite A by discriminate. unfold skip_append, stored_skip.
    destruct (ls (store s)) as [|x r] eqn:El; [contradiction|].
    destruct (thr_newest s x r Hc Hs El) as (pre & Ep).
    assert (R : rev S = x :: rev pre) by (unfold S; rewrite Ep, rev_app_distr; reflexivity).
    rewrite R. destruct (str_eqb x (ch :: t)); reflexivity.
Qed.

(* nothing loaded yet (the thread has not delivered its first item): the
   newest stored entry is not seen - finding C14-F3 *)
Lemma thr_nothing_loaded_refuted :
  exists s, CohT s /\ Inv s /\ ls (store s) = [] /\ sto (store s) = [text s] /\ text s <> [] /\
    sto (store (append_to_history s)) = [text s; text s].
Proof.
  exists (mk [[120]] 0 1 None None V_UNKNOWN false (mkst [] [[120]] false) (Some 0) false false false
            (mkth true 0 true [[120]] 0)).
  repeat split; try (vm_compute; congruence); try reflexivity.
Qed.

(* entries arriving from the thread never change what is displayed *)
Lemma consume_displayed s :
  Inv s -> text (consume s) = text s /\ cur (consume s) = cur s /\ hst (consume s) = hst s /\
           exists new, wl (consume s) = new ++ wl s /\ wi (consume s) = wi s + len new.
Proof.
  intros HI. unfold consume. destruct (thr (th s)); [|repeat split; auto; exists []; split; [reflexivity | cbn; lia]].
  destruct (task s); [|repeat split; auto; exists []; split; [reflexivity | cbn; lia]].
  destruct (tfin s); [repeat split; auto; exists []; split; [reflexivity | cbn; lia]|].
  set (items := skipn _ _). proj. repeat split; auto.
  - unfold text; proj. rewrite <- (len_rev items). generalize (rev items). intros l. induction l as [|x l IHl].
    + cbn [app]. rewrite len_nil. replace (wi s + 0) with (wi s) by lia. reflexivity.
    + cbn [app]. rewrite len_cons. replace (wi s + (1 + len l)) with ((wi s + len l) + 1) by lia.
      rewrite index_cons_shift; [exact IHl|].
      rewrite len_app. unfold Inv in HI. pose proof (len_nonneg l). lia.
  - exists (rev items). rewrite len_rev. auto.
Qed.
