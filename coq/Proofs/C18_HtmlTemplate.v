(* C18 - whole templates: every construct of the HTML template grammar (a text
   segment, a start tag with attributes, an end tag), with any number of
   holes filled by escaped values, drives the XML machine exactly as the same
   construct with the values as DATA would; a template is a sequence of such
   constructs, so the whole document denotes the same tree with the values as
   data.  Literal text of the template is given by the characters it stands
   for (written with entities, as html_escape writes them). *)
From Coq Require Import ZArith List Bool Lia.
From PTK Require Import Lib.Sx Lib.Py Gen.Whitespace Model.C18_Fragments Model.C18_Ansi Model.C18_Html
  Proofs.C18_HtmlFacts.
Import ListNotations.
Open Scope Z_scope.

(* ---------------------------------------------------------------------- *)
(* the template grammar *)

Inductive piece := Lit (data : str) | Hole.

Inductive titem :=
| TText (ps : list piece)
| TOpen (name : str) (ats : list (str * Z * list piece))   (* attribute name, quote, value *)
| TClose (name : str).

(* the characters a piece list stands for, taking hole values from [vals];
   returns the unused values *)
Fixpoint pieces_data (ps : list piece) (vals : list str) : str * list str :=
  match ps with
  | [] => ([], vals)
  | Lit d :: r => let q := pieces_data r vals in (d ++ fst q, snd q)
  | Hole :: r =>
      match vals with
      | v :: vs => let q := pieces_data r vs in (v ++ fst q, snd q)
      | [] => pieces_data r []
      end
  end.

Definition esc := html_escape cfg_now.
Definition datc := dat cfg_now.

Definition render_pieces (ps : list piece) (vals : list str) : str * list str :=
  let q := pieces_data ps vals in (esc (fst q), snd q).

Fixpoint render_attrs (ats : list (str * Z * list piece)) (vals : list str) : str * list str :=
  match ats with
  | [] => ([], vals)
  | (an, q, ps) :: r =>
      let a := render_pieces ps vals in
      let b := render_attrs r (snd a) in
      ([32] ++ an ++ [61; q] ++ fst a ++ [q] ++ fst b, snd b)
  end.

Fixpoint attrs_data (ats : list (str * Z * list piece)) (vals : list str) : attrs * list str :=
  match ats with
  | [] => ([], vals)
  | (an, q, ps) :: r =>
      let a := pieces_data ps vals in
      let b := attrs_data r (snd a) in
      ((an, map datc (fst a)) :: fst b, snd b)
  end.

Definition render_item (it : titem) (vals : list str) : str * list str :=
  match it with
  | TText ps => render_pieces ps vals
  | TOpen nm ats => let a := render_attrs ats vals in ([LT] ++ nm ++ fst a ++ [GT], snd a)
  | TClose nm => ([LT; 47] ++ nm ++ [GT], vals)
  end.

Fixpoint render (tpl : list titem) (vals : list str) : str :=
  match tpl with
  | [] => []
  | it :: r => let a := render_item it vals in fst a ++ render r (snd a)
  end.

(* ---------------------------------------------------------------------- *)
(* what the constructs MEAN, on the state of the tree walk, by data only *)

Definition add_text (h : hst) (d : str) : hst :=
  match h_mode h with
  | HText acc _ _ => set_hmode h (HText (acc ++ d) false 0)
  | _ => h
  end.

Definition flushed (h : hst) : hst :=
  match h_mode h with
  | HText acc _ _ =>
      mkhst (HText [] false 0) (h_stack h) (h_names h) (h_fgs h) (h_bgs h) (flush_text h acc) (h_verr h) (h_rootdone h)
  | _ => h
  end.

Definition denote_item (it : titem) (vals : list str) (h : hst) : res hst * list str :=
  match it with
  | TText ps => let q := pieces_data ps vals in (Ok (add_text h (map datc (fst q))), snd q)
  | TOpen nm ats => let a := attrs_data ats vals in (Ok (open_element cfg_now (flushed h) nm (fst a)), snd a)
  | TClose nm => (close_element (flushed h) nm, vals)
  end.

(* two machine states that differ only in the bookkeeping of "]]>" detection *)
Definition same_tree (a b : hst) : Prop :=
  h_stack a = h_stack b /\ h_names a = h_names b /\ h_fgs a = h_fgs b /\ h_bgs a = h_bgs b /\
  h_out a = h_out b /\ h_verr a = h_verr b /\ h_rootdone a = h_rootdone b /\
  match h_mode a, h_mode b with
  | HText x false _, HText y false _ => x = y
  | _, _ => False
  end.

(* ---------------------------------------------------------------------- *)
(* text segments *)

Definition no_cr (d : str) : Prop := ~ In 13 d.

Theorem text_segment ps vals h acc rb :
  h_mode h = HText acc false rb -> h_stack h <> [] ->
  no_cr (fst (pieces_data ps vals)) ->
  exists rb', hrun cfg_now h (fst (render_pieces ps vals))
              = Ok (set_hmode h (HText (acc ++ map datc (fst (pieces_data ps vals))) false rb')).
Proof.
  intros Hm Hs Hn. unfold render_pieces. cbn [fst]. exact (html_text_inert_now _ h acc rb Hm Hs Hn).
Qed.

(* ---------------------------------------------------------------------- *)
(* names *)

Definition valid_name (n : str) : Prop :=
  exists c r, n = c :: r /\ name_start c = true /\ forallb name_char r = true.

Lemma name_char_range c : name_char c = true -> 45 <= c <= 122.
Proof.
  unfold name_char, name_start. intros H.
  repeat match type of H with context [?a <=? ?b] => destruct (Z.leb_spec a b) end;
  repeat match type of H with context [?a =? ?b] => destruct (Z.eqb_spec a b) end;
  cbn in H; try discriminate; lia.
Qed.

Lemma range_xml c : 32 <= c <= 122 -> xml_char c = true.
Proof.
  intros H. unfold xml_char.
  assert ((32 <=? c) = true) as -> by (apply Z.leb_le; lia).
  assert ((c <=? 55295) = true) as -> by (apply Z.leb_le; lia).
  cbn [andb]. now rewrite !orb_true_r.
Qed.

Lemma name_char_xml c : name_char c = true -> xml_char c = true.
Proof. intros H. apply range_xml. pose proof (name_char_range c H). lia. Qed.

Lemma name_start_char c : name_start c = true -> name_char c = true.
Proof. intros H. unfold name_char. now rewrite H. Qed.

Lemma run_open_name k : forall r h nm,
  h_mode h = HOpenName nm -> forallb name_char r = true ->
  hrun k h r = Ok (set_hmode h (HOpenName (nm ++ r))).
Proof.
  induction r as [|c r IH]; intros h nm Hm Hr.
  - cbn. rewrite app_nil_r. destruct h; cbn in Hm; subst; reflexivity.
  - cbn [forallb] in Hr. apply andb_true_iff in Hr. destruct Hr as [Hc Hr].
    cbn [hrun]. unfold hstep. rewrite (name_char_xml c Hc), Hm. cbn [negb]. rewrite Hc.
    rewrite (IH (set_hmode h (HOpenName (nm ++ [c]))) (nm ++ [c]) eq_refl Hr).
    rewrite set_hmode_twice. now rewrite <- app_assoc.
Qed.

Lemma run_attr_name k : forall r h nm ats an,
  h_mode h = HAttrName nm ats an -> forallb name_char r = true ->
  hrun k h r = Ok (set_hmode h (HAttrName nm ats (an ++ r))).
Proof.
  induction r as [|c r IH]; intros h nm ats an Hm Hr.
  - cbn. rewrite app_nil_r. destruct h; cbn in Hm; subst; reflexivity.
  - cbn [forallb] in Hr. apply andb_true_iff in Hr. destruct Hr as [Hc Hr].
    cbn [hrun]. unfold hstep. rewrite (name_char_xml c Hc), Hm. cbn [negb]. rewrite Hc.
    rewrite (IH (set_hmode h (HAttrName nm ats (an ++ [c]))) nm ats (an ++ [c]) eq_refl Hr).
    rewrite set_hmode_twice. now rewrite <- app_assoc.
Qed.

Lemma run_close_name k : forall r h nm,
  h_mode h = HCloseName nm -> forallb name_char r = true ->
  hrun k h r = Ok (set_hmode h (HCloseName (nm ++ r))).
Proof.
  induction r as [|c r IH]; intros h nm Hm Hr.
  - cbn. rewrite app_nil_r. destruct h; cbn in Hm; subst; reflexivity.
  - cbn [forallb] in Hr. apply andb_true_iff in Hr. destruct Hr as [Hc Hr].
    cbn [hrun]. unfold hstep. rewrite (name_char_xml c Hc), Hm. cbn [negb]. rewrite Hc.
    rewrite (IH (set_hmode h (HCloseName (nm ++ [c]))) (nm ++ [c]) eq_refl Hr).
    rewrite set_hmode_twice. now rewrite <- app_assoc.
Qed.

(* ---------------------------------------------------------------------- *)
(* tags *)

Definition inside (h : hst) : Prop :=
  (exists acc rb, h_mode h = HText acc false rb) /\ h_stack h <> [] /\ h_rootdone h = false.

(* "<name" *)
Lemma tag_start k h nm :
  inside h -> valid_name nm ->
  hrun k h ([LT] ++ nm) = Ok (set_hmode (flushed h) (HOpenName nm)).
Proof.
  intros ((acc & rb & Hm) & Hs & Hr) (c & r & -> & Hc & Hrest).
  destruct h as [m stk nms fgs bgs out verr rd]. cbn [h_mode h_stack h_rootdone] in *. subst m rd.
  destruct stk as [|fr stk]; [congruence|].
  cbn [app hrun]. unfold hstep at 1. change (negb (xml_char LT)) with false. cbn [h_mode h_stack].
  change (LT =? LT) with true. cbn iota.
  unfold hstep at 1. rewrite (name_char_xml c (name_start_char c Hc)). cbn [negb h_mode h_rootdone]. rewrite Hc.
  match goal with |- hrun k ?hh r = _ => rewrite (run_open_name k r hh [c] eq_refl Hrest) end. reflexivity.
Qed.

Definition tagstate (h : hst) (nm : str) (ats0 : attrs) : Prop :=
  (h_mode h = HOpenName nm /\ ats0 = []) \/ (exists sp, h_mode h = HInTag nm ats0 sp).

Lemma tag_space k h nm ats0 :
  tagstate h nm ats0 -> hstep k h 32 = Ok (set_hmode h (HInTag nm ats0 true)).
Proof.
  intros [[Hm ->]|[sp Hm]]; unfold hstep; change (negb (xml_char 32)) with false; rewrite Hm; reflexivity.
Qed.

Lemma tag_end k h nm ats0 :
  tagstate h nm ats0 -> hstep k h GT = Ok (open_element k h nm ats0).
Proof.
  intros [[Hm ->]|[sp Hm]]; unfold hstep; change (negb (xml_char GT)) with false; rewrite Hm; reflexivity.
Qed.

Definition attr_data_ok (d : str) : Prop := forall c, In c d -> c <> 13 /\ c <> 10 /\ c <> 9.

(* one attribute:  ' ' name '=' quote escaped-value quote *)
Lemma one_attribute h nm ats0 an q v :
  tagstate h nm ats0 -> valid_name an -> has_attr an ats0 = false -> str_eqb an n_xmlns = false ->
  (q = DQ \/ q = SQ) -> attr_data_ok v ->
  hrun cfg_now h ([32] ++ an ++ [61; q] ++ esc v ++ [q])
  = Ok (set_hmode h (HInTag nm (ats0 ++ [(an, map datc v)]) false)).
Proof.
  intros Ht (c & r & -> & Hc & Hrest) Hdup Hns Hq Hv. unfold esc, datc.
  cbn [app hrun]. rewrite (tag_space cfg_now h nm ats0 Ht).
  (* first character of the attribute name *)
  unfold hstep at 1. rewrite (name_char_xml c (name_start_char c Hc)). cbn [negb h_mode set_hmode].
  assert (Hsp : is_xspace c = false).
  { pose proof (name_char_range c (name_start_char c Hc)). unfold is_xspace.
    repeat match goal with |- context [?a =? ?b] => destruct (Z.eqb_spec a b) end; try lia; reflexivity. }
  assert (Hgt : (c =? GT) = false /\ (c =? 47) = false).
  { unfold name_start in Hc. split; apply Z.eqb_neq; intros ->; cbn in Hc; discriminate. }
  destruct Hgt as [Hgt Hsl]. rewrite Hsp, Hgt, Hsl, Hc. rewrite set_hmode_twice.
  rewrite hrun_app.
  match goal with |- match hrun _ ?hh r with _ => _ end = _ => rewrite (run_attr_name cfg_now r hh nm ats0 [c] eq_refl Hrest) end.
  rewrite set_hmode_twice.
  (* '=' and the quote *)
  cbn [app hrun]. unfold hstep at 1. change (negb (xml_char 61)) with false. cbn [h_mode set_hmode].
  change (name_char 61) with false. change (61 =? 61) with true. cbn iota. rewrite set_hmode_twice.
  assert (Hstepq : hstep cfg_now (set_hmode h (HAfterEq nm ats0 (c :: r))) q
                   = Ok (set_hmode h (HAttrVal nm ats0 (c :: r) q [] false))).
  { destruct Hq as [-> | ->]; reflexivity. }
  cbn [app] in *. rewrite Hstepq.
  rewrite hrun_app.
  match goal with |- match hrun _ ?hh _ with _ => _ end = _ => rewrite (html_attr_inert_now nm ats0 (c :: r) q v hh [] eq_refl Hq Hv) end.
  rewrite set_hmode_twice.
  cbn [app hrun]. unfold hstep.
  assert (Hxq : xml_char q = true) by (destruct Hq as [-> | ->]; reflexivity).
  rewrite Hxq. cbn [negb h_mode set_hmode]. rewrite Z.eqb_refl, Hdup, Hns. rewrite set_hmode_twice. reflexivity.
Qed.

(* requirements on an attribute list, given the attributes already seen *)
Fixpoint ats_ok (ats0 : attrs) (ats : list (str * Z * list piece)) (vals : list str) : Prop :=
  match ats with
  | [] => True
  | (an, q, ps) :: r =>
      let a := pieces_data ps vals in
      valid_name an /\ has_attr an ats0 = false /\ str_eqb an n_xmlns = false /\ (q = DQ \/ q = SQ) /\
      attr_data_ok (fst a) /\ ats_ok (ats0 ++ [(an, map datc (fst a))]) r (snd a)
  end.

Lemma tagstate_intag h nm ats sp : tagstate (set_hmode h (HInTag nm ats sp)) nm ats.
Proof. right. now exists sp. Qed.

Lemma all_attributes nm : forall ats vals h ats0,
  tagstate h nm ats0 -> ats_ok ats0 ats vals ->
  exists h', hrun cfg_now h (fst (render_attrs ats vals)) = Ok h' /\
             tagstate h' nm (ats0 ++ fst (attrs_data ats vals)) /\
             h' = set_hmode h (h_mode h').
Proof.
  induction ats as [|[[an q] ps] r IH]; intros vals h ats0 Ht Hok.
  - exists h. cbn. rewrite app_nil_r. split; [reflexivity|]. split; [assumption|]. destruct h; reflexivity.
  - cbn [ats_ok] in Hok. cbn zeta in Hok. destruct Hok as (Hn & Hd & Hx & Hq & Hv & Hrest).
    cbn [render_attrs attrs_data]. cbn zeta. unfold render_pieces. cbn [fst snd].
    set (a := pieces_data ps vals) in *.
    replace ([32] ++ an ++ [61; q] ++ esc (fst a) ++ [q] ++ fst (render_attrs r (snd a)))
      with (([32] ++ an ++ [61; q] ++ esc (fst a) ++ [q]) ++ fst (render_attrs r (snd a)))
      by (now rewrite <- !app_assoc).
    rewrite hrun_app, (one_attribute h nm ats0 an q (fst a) Ht Hn Hd Hx Hq Hv).
    destruct (IH (snd a) (set_hmode h (HInTag nm (ats0 ++ [(an, map datc (fst a))]) false))
                 (ats0 ++ [(an, map datc (fst a))]) (tagstate_intag _ _ _ _) Hrest) as (h' & Hrun & Ht' & He).
    exists h'. split; [exact Hrun|]. split.
    + now rewrite <- app_assoc in Ht'.
    + rewrite He at 1. now rewrite set_hmode_twice.
Qed.

Lemma open_element_mode_irrelevant k h m nm ats :
  open_element k (set_hmode h m) nm ats = open_element k h nm ats.
Proof. reflexivity. Qed.

(* a complete start tag *)
Theorem start_tag h nm ats vals :
  inside h -> valid_name nm -> ats_ok [] ats vals ->
  hrun cfg_now h (fst (render_item (TOpen nm ats) vals))
  = fst (denote_item (TOpen nm ats) vals h).
Proof.
  intros Hin Hn Hok. cbn [render_item denote_item fst]. cbn zeta. cbn [fst].
  replace ([LT] ++ nm ++ fst (render_attrs ats vals) ++ [GT])
    with (([LT] ++ nm) ++ fst (render_attrs ats vals) ++ [GT]) by (now rewrite <- !app_assoc).
  rewrite hrun_app, (tag_start cfg_now h nm Hin Hn). rewrite hrun_app.
  destruct (all_attributes nm ats vals (set_hmode (flushed h) (HOpenName nm)) []
              (or_introl (conj eq_refl eq_refl)) Hok) as (h' & Hrun & Ht' & He).
  rewrite Hrun. cbn [hrun]. cbn [app] in Ht'. rewrite (tag_end cfg_now h' nm _ Ht').
  rewrite He, set_hmode_twice, open_element_mode_irrelevant. reflexivity.
Qed.

(* an end tag *)
Theorem end_tag h nm :
  inside h -> valid_name nm ->
  hrun cfg_now h (fst (render_item (TClose nm) [])) = fst (denote_item (TClose nm) [] h).
Proof.
  intros ((acc & rb & Hm) & Hs & Hr) (c & r & -> & Hc & Hrest).
  destruct h as [m stk nms fgs bgs out verr rd]. cbn [h_mode h_stack h_rootdone] in *. subst m rd.
  destruct stk as [|fr stk]; [congruence|].
  cbn [render_item denote_item fst app hrun].
  unfold hstep at 1. change (negb (xml_char LT)) with false. cbn [h_mode h_stack].
  change (LT =? LT) with true. cbn iota.
  unfold hstep at 1. change (negb (xml_char 47)) with false. cbn [h_mode h_rootdone].
  change (name_start 47) with false. change (47 =? 47) with true. cbn iota.
  unfold hstep at 1. rewrite (name_char_xml c (name_start_char c Hc)). cbn [negb h_mode set_hmode]. rewrite Hc.
  rewrite hrun_app.
  match goal with |- match hrun _ ?hh r with _ => _ end = _ => rewrite (run_close_name cfg_now r hh [c] eq_refl Hrest) end.
  cbn [app hrun].
  unfold hstep. change (negb (xml_char GT)) with false. cbn [h_mode set_hmode].
  change (name_char GT) with false. change (is_xspace GT) with false. change (GT =? GT) with true. cbn iota.
  unfold close_element, flushed. cbn [h_stack h_mode set_hmode h_names h_fgs h_bgs h_out h_verr h_rootdone].
  destruct (str_eqb (fr_name fr) (c :: r)); reflexivity.
Qed.

(* ---------------------------------------------------------------------- *)
(* whole templates *)

Fixpoint denote (tpl : list titem) (vals : list str) (h : hst) : res hst :=
  match tpl with
  | [] => Ok h
  | it :: r =>
      let a := denote_item it vals h in
      match fst a with
      | Ok h' => denote r (snd a) h'
      | Err e => Err e
      end
  end.

Definition item_ok (it : titem) (vals : list str) : Prop :=
  match it with
  | TText ps => no_cr (fst (pieces_data ps vals))
  | TOpen nm ats => valid_name nm /\ ats_ok [] ats vals
  | TClose nm => valid_name nm
  end.

(* the template stays inside the document element and uses well-formed names,
   distinct attributes and values without \r (\t \n \r in attribute values) *)
Fixpoint tpl_ok (tpl : list titem) (vals : list str) (h : hst) : Prop :=
  match tpl with
  | [] => True
  | it :: r =>
      inside h /\ item_ok it vals /\
      match fst (denote_item it vals h) with
      | Ok h' => tpl_ok r (snd (denote_item it vals h)) h'
      | Err _ => True
      end
  end.

Lemma same_tree_inside a b : same_tree a b -> inside b -> inside a.
Proof.
  intros (Hs & _ & _ & _ & _ & _ & Hr & Hm) ((acc & rb & Hb) & Hsb & Hrb).
  split; [|split; congruence].
  rewrite Hb in Hm. destruct (h_mode a) as [x cr r0| | | | | | | | | | | | |]; try contradiction.
  destruct cr; [contradiction|]. now exists x, r0.
Qed.

Lemma same_tree_flushed a b : same_tree a b -> flushed a = flushed b.
Proof.
  intros (Hs & Hn & Hf & Hb & Ho & Hv & Hr & Hm).
  destruct a as [ma sa na fa ba oa va ra], b as [mb sb nb fb bb ob vb rb]. cbn in *. subst.
  destruct ma as [x cr r0| | | | | | | | | | | | |]; try contradiction.
  destruct cr; [contradiction|].
  destruct mb as [y cr' r1| | | | | | | | | | | | |]; try contradiction.
  destruct cr'; [contradiction|]. subst. reflexivity.
Qed.

Lemma render_attrs_snd : forall ats vals, snd (render_attrs ats vals) = snd (attrs_data ats vals).
Proof.
  induction ats as [|[[an q] ps] r IH]; intros vals; [reflexivity|].
  cbn [render_attrs attrs_data]. cbn zeta. cbn [snd]. unfold render_pieces. cbn [snd]. apply IH.
Qed.

Lemma item_step it vals h1 h2 :
  same_tree h1 h2 -> inside h2 -> item_ok it vals ->
  match fst (denote_item it vals h2) with
  | Ok hd => exists h', hrun cfg_now h1 (fst (render_item it vals)) = Ok h' /\ same_tree h' hd
  | Err e => hrun cfg_now h1 (fst (render_item it vals)) = Err e
  end /\ snd (render_item it vals) = snd (denote_item it vals h2).
Proof.
  intros Hst Hin2 Hok. pose proof (same_tree_inside _ _ Hst Hin2) as Hin1.
  destruct it as [ps|nm ats|nm].
  - cbn [item_ok] in Hok. split; [|reflexivity]. cbn [denote_item render_item fst]. cbn zeta. cbn [fst].
    destruct Hin1 as ((acc & rb & Hm1) & Hs1 & Hr1).
    destruct (text_segment ps vals h1 acc rb Hm1 Hs1 Hok) as [rb' Hrun].
    exists (set_hmode h1 (HText (acc ++ map datc (fst (pieces_data ps vals))) false rb')).
    split; [exact Hrun|].
    destruct Hst as (Hs & Hn & Hf & Hb & Ho & Hv & Hr & Hm). rewrite Hm1 in Hm.
    destruct (h_mode h2) as [y cr r1| | | | | | | | | | | | |] eqn:E2; try contradiction.
    destruct cr; [contradiction|]. subst y.
    unfold add_text. rewrite E2. repeat split; first [assumption | reflexivity].
  - destruct Hok as [Hn Hats]. split.
    + rewrite (start_tag h1 nm ats vals Hin1 Hn Hats).
      cbn [denote_item fst]. cbn zeta. cbn [fst]. rewrite (same_tree_flushed _ _ Hst).
      eexists. split; [reflexivity|].
      unfold open_element. destruct (scan_fg_bg (fst (attrs_data ats vals)) [] []).
      repeat split.
    + cbn [render_item denote_item]. cbn zeta. cbn [snd]. apply render_attrs_snd.
  - cbn [item_ok] in Hok. split; [|reflexivity].
    assert (Hr : hrun cfg_now h1 (fst (render_item (TClose nm) vals)) = fst (denote_item (TClose nm) vals h2)).
    { change (fst (render_item (TClose nm) vals)) with (fst (render_item (TClose nm) [])).
      rewrite (end_tag h1 nm Hin1 Hok). cbn [denote_item fst]. now rewrite (same_tree_flushed _ _ Hst). }
    rewrite Hr. cbn [denote_item fst].
    destruct (close_element (flushed h2) nm) as [hd|e] eqn:E; [|reflexivity].
    exists hd. split; [reflexivity|].
    unfold close_element in E. destruct (h_stack (flushed h2)) as [|fr rest]; [discriminate|].
    destruct (str_eqb (fr_name fr) nm); [|discriminate]. injection E as <-. repeat split.
Qed.

(* The whole template: substituting escaped values and parsing gives the tree
   walk the template denotes with the values as data. *)
Theorem whole_template : forall tpl vals h1 h2,
  same_tree h1 h2 -> tpl_ok tpl vals h2 ->
  match denote tpl vals h2 with
  | Ok hd => exists h', hrun cfg_now h1 (render tpl vals) = Ok h' /\ same_tree h' hd
  | Err e => hrun cfg_now h1 (render tpl vals) = Err e
  end.
Proof.
  induction tpl as [|it r IH]; intros vals h1 h2 Hst Hok.
  - cbn. exists h1. split; [reflexivity | assumption].
  - cbn [tpl_ok] in Hok. destruct Hok as (Hin & Hit & Hrest).
    destruct (item_step it vals h1 h2 Hst Hin Hit) as [Hstep Hvals].
    cbn [denote render]. cbn zeta. rewrite hrun_app.
    destruct (fst (denote_item it vals h2)) as [hd|e] eqn:E.
    + destruct Hstep as (h' & Hrun & Hst'). rewrite Hrun, Hvals. now apply IH.
    + now rewrite Hstep.
Qed.

Lemma same_tree_refl h acc rb : h_mode h = HText acc false rb -> same_tree h h.
Proof. intros Hm. unfold same_tree. rewrite Hm. repeat split. Qed.

Corollary whole_template_from h acc rb tpl vals :
  h_mode h = HText acc false rb -> tpl_ok tpl vals h ->
  match denote tpl vals h with
  | Ok hd => exists h', hrun cfg_now h (render tpl vals) = Ok h' /\ same_tree h' hd
  | Err e => hrun cfg_now h (render tpl vals) = Err e
  end.
Proof. intros Hm Hok. apply whole_template; [now apply (same_tree_refl h acc rb) | assumption]. Qed.

(* the hypotheses are satisfiable:  x HOLE </html-root>... here: a text segment with a hole, inside the root *)
Example whole_template_example :
  exists h, hrun cfg_now hst0 t_open_root = Ok h /\
    tpl_ok [TText [Lit [120; 32]; Hole]] [[60; 38]] h.
Proof.
  eexists. split; [vm_compute; reflexivity|].
  cbn [tpl_ok]. split; [|split; [|exact I]].
  - split; [eexists; eexists; reflexivity | split; [discriminate | reflexivity]].
  - intros Hc. cbn in Hc. repeat destruct Hc as [Hc|Hc]; try discriminate; contradiction.
Qed.

Example whole_template_example_run :
  html_template cfg_now [S_style_fg_dq; S_x_end_dq] [[114; 101; 100; 39; 34; 60]]
  = Ok [mkfrag ([102; 103; 58] ++ [114; 101; 100; 39; 34; 60]) [120] []].
Proof. vm_compute. reflexivity. Qed.
