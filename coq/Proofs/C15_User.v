(* C15 - the user actions preserve the invariant; exact effect of
   go_to_completion / complete_next / complete_previous / cancel_completion. *)
From Coq Require Import ZArith List Bool Lia.
From PTK Require Import Lib.Sx Lib.Py Model.C15_Async Proofs.C15_Base.
Import ListNotations.
Open Scope Z_scope.

Ltac simp :=
  cbn [cfg text cur cst vst vsrc sug next_id pending crun vrun srun ccos vcos scos
       set_doc_fields set_cst set_val set_sug set_next_id set_pending set_crun set_vrun
       set_srun set_ccos set_vcos set_scos add_pending cur_doc dtext dcur
       cs_id cs_orig cs_comps cs_idx cs_shift cs_with_idx cs_with_comps cc_doc cc_id cc_flag
       ctext cstart csrc fst snd] in *.

(* an edit: coroutines, flags and ids untouched; the menu either survives
   with text and cursor unchanged or is gone *)
Definition Edit (s s' : state) : Prop :=
  Frame s s' /\ Wf s' /\
  ((cst s' = cst s /\ text s' = text s /\ cur s' = cur s) \/ cst s' = None).

Lemma CsOk_none s : cst s = None -> CsOk s.
Proof. intros H cs Hc. congruence. Qed.

Lemma CsOk_transfer s s' :
  cst s' = cst s -> next_id s' = next_id s -> ccos s' = ccos s -> cfg s' = cfg s ->
  text s' = text s -> cur s' = cur s -> CsOk s -> CsOk s'.
Proof.
  intros A B C D E F H cs Hc. rewrite A in Hc. rewrite B, C, D, E, F. auto.
Qed.

Lemma Edit_refl s : Wf s -> Edit s s.
Proof. intros H. split; [apply Frame_refl|]. split; auto. Qed.

Lemma Edit_CsOk s s' : Edit s s' -> CsOk s -> CsOk s'.
Proof.
  intros (F & _ & [(A & B & C)|A]) H.
  - destruct F as (F1 & F2 & _ & _ & _ & F6 & _). eapply CsOk_transfer; eauto.
  - apply CsOk_none; auto.
Qed.

Lemma Edit_Inv s s' : Edit s s' -> Inv s -> Inv s'.
Proof.
  intros E (W & C & I & K). pose proof E as (F & W' & _).
  split; [exact W'|]. split; [eapply Frame_Cnt; eauto|]. split; [eapply Frame_Ids; eauto|].
  eapply Edit_CsOk; eauto.
Qed.

Lemma Edit_trans a b c : Edit a b -> Edit b c -> Edit a c.
Proof.
  intros (F1 & W1 & C1) (F2 & W2 & C2). split; [eapply Frame_trans; eauto|]. split; auto.
  destruct C2 as [(A & B & C)|A]; [|right; auto].
  destruct C1 as [(A' & B' & C')|A']; [left|right]; repeat split; congruence.
Qed.

(* _cursor_position_changed: the menu goes, a VALID verdict is forgotten *)
Lemma cursor_changed_Edit s : Wf s -> Edit s (cursor_changed s) /\
  text (cursor_changed s) = text s /\ cur (cursor_changed s) = cur s.
Proof.
  intros (Wc & Wv & Ws). unfold cursor_changed. destruct (vst s =? 1) eqn:E; unfold Edit, Frame, Wf; simp.
  - repeat split; auto; try lia. all: try (intros A; congruence).
  - repeat split; auto; lia.
Qed.

Lemma text_changed_Edit s : 0 <= cur s <= len (text s) ->
  Frame s (text_changed s) /\ Wf (text_changed s) /\ cst (text_changed s) = None /\
  text (text_changed s) = text s /\ cur (text_changed s) = cur s.
Proof.
  intros H. unfold text_changed. destruct (hval (cfg s) && vwt (cfg s)); simp; unfold Frame, Wf; simp;
    repeat split; auto; try lia; try (intros; congruence); try (intros; discriminate).
Qed.

(* set_document *)
Lemma cursor_changed_cst s : cst (cursor_changed s) = None.
Proof. unfold cursor_changed. destruct (vst s =? 1); reflexivity. Qed.

Lemma set_document_spec s d : wf_doc d -> Wf s ->
  Edit s (set_document s d) /\ text (set_document s d) = dtext d /\ cur (set_document s d) = dcur d.
Proof.
  intros [Hd0 Hd1] W. pose proof W as (Hc & Hv & Hs).
  unfold set_document. rewrite Z.max_r by lia.
  set (s1 := set_doc_fields s (dtext d) (dcur d)).
  assert (F0 : Frame s s1) by (unfold s1, Frame; simp; repeat split; reflexivity).
  assert (T1 : text s1 = dtext d /\ cur s1 = dcur d) by (unfold s1; simp; auto).
  (* what a following cursor_changed does to a well-formed state with no obligations left *)
  assert (CC : forall s2, Frame s s2 -> Wf s2 -> text s2 = dtext d -> cur s2 = dcur d ->
               Edit s (cursor_changed s2) /\ text (cursor_changed s2) = dtext d /\ cur (cursor_changed s2) = dcur d).
  { intros s2 F2 W2 A B. destruct (cursor_changed_Edit s2 W2) as ((F & W' & _) & Tt & Tc).
    split; [|split; congruence]. split; [eapply Frame_trans; eauto|]. split; [exact W'|].
    right. apply cursor_changed_cst. }
  destruct (str_eqb (dtext d) (text s)) eqn:E1; cbn [negb].
  - apply str_eqb_eq in E1.
    assert (W1 : Wf s1).
    { unfold s1, Wf; simp. split; [lia|]. rewrite E1. split; auto. }
    destruct (dcur d =? cur s) eqn:E2; cbn [negb].
    + apply Z.eqb_eq in E2. split; [|exact T1]. split; [exact F0|]. split; [exact W1|].
      left. unfold s1; simp. auto.
    + apply CC; auto; apply T1.
  - assert (H1 : 0 <= cur s1 <= len (text s1)) by (unfold s1; simp; lia).
    destruct (text_changed_Edit s1 H1) as (F & W' & Cn & Tt & Tc).
    destruct (dcur d =? cur s) eqn:E2; cbn [negb].
    + split; [|split]; [|rewrite Tt; apply T1|rewrite Tc; apply T1].
      split; [eapply Frame_trans; [exact F0|exact F]|]. split; [exact W'|right; exact Cn].
    + apply CC; [eapply Frame_trans; [exact F0|exact F]|exact W'|rewrite Tt; apply T1|rewrite Tc; apply T1].
Qed.

Lemma insert_text_spec s data s' e : Wf s -> insert_text s data = (s', e) ->
  e = 0 /\ Edit s s' /\ cur_doc s' = doc_insert (cur_doc s) data.
Proof.
  intros W H. pose proof W as (Hc & _). unfold insert_text in H.
  assert (Hw : wf_doc (cur_doc s)) by (unfold wf_doc; simp; lia).
  set (t := slice_to (text s) (cur s) ++ data ++ slice_from (text s) (cur s)) in *.
  assert (Hl : len t = len (text s) + len data).
  { unfold t. rewrite !len_app. pose proof (len_tbc _ Hw) as A. unfold tbc in A; simp. rewrite A.
    pose proof (tbc_tac _ Hw) as B. unfold tbc, tac in B; simp.
    assert (C : len (slice_to (text s) (cur s)) + len (slice_from (text s) (cur s)) = len (text s))
      by (rewrite <- len_app, B; reflexivity).
    lia. }
  pose proof (len_nonneg data) as Hd.
  destruct (len t <? cur s + len data) eqn:E; [lia|].
  assert (Hwd : wf_doc (mkdoc t (cur s + len data))) by (unfold wf_doc; simp; lia).
  destruct (set_document_spec s _ Hwd W) as (Ed & Tt & Tc).
  set (s1 := set_document s (mkdoc t (cur s + len data))) in *.
  inversion H; subst s' e; clear H. split; [reflexivity|].
  assert (G : forall s2, Edit s s2 -> forall tk, Edit s (add_pending s2 tk)).
  { intros s2 (F & W2 & C2) tk. unfold Edit, Frame, Wf in *; simp. repeat split; try apply F; try apply W2. exact C2. }
  assert (T : forall s2 tk, cur_doc (add_pending s2 tk) = cur_doc s2) by reflexivity.
  split.
  - destruct (cwt (cfg s)); destruct (hsug (cfg s)); auto.
  - assert (cur_doc s1 = doc_insert (cur_doc s) data).
    { unfold cur_doc. rewrite Tt, Tc. reflexivity. }
    destruct (cwt (cfg s)); destruct (hsug (cfg s)); rewrite ?T; auto.
Qed.

Lemma delete_before_spec s n s' e : Wf s -> delete_before s n = (s', e) ->
  Edit s s' /\ (0 <= n -> e = 0).
Proof.
  intros W H. pose proof W as (Hc & _). unfold delete_before in H.
  destruct (n <? 0) eqn:E0.
  { inversion H; subst. split; [apply Edit_refl; auto|lia]. }
  destruct (0 <? cur s) eqn:E1.
  2:{ inversion H; subst. split; [apply Edit_refl; auto|auto]. }
  set (start := Z.max 0 (cur s - n)) in *.
  assert (Hs : 0 <= start <= cur s) by (unfold start; lia).
  assert (Hdel : len (slice2 (text s) start (cur s)) = cur s - start).
  { rewrite slice2_in_range by lia. rewrite len_firstn, len_skipn. lia. }
  assert (Hnt : len (slice_to (text s) start ++ slice_from (text s) (cur s)) = start + (len (text s) - cur s)).
  { rewrite len_app, slice_to_in_range, slice_from_in_range by lia. rewrite len_firstn, len_skipn. lia. }
  rewrite Hdel, Hnt in H.
  destruct (start + (len (text s) - cur s) <? cur s - (cur s - start)) eqn:E2; [lia|].
  inversion H; subst s' e; clear H. split; [|auto].
  apply set_document_spec; auto. unfold wf_doc; simp. rewrite Hnt. lia.
Qed.

Lemma move_cursor_spec s p : Wf s -> Edit s (move_cursor s p).
Proof.
  intros W. pose proof W as (Hc & Hv & Hs). unfold move_cursor.
  set (v := if len (text s) <? p then len (text s) else p).
  set (v' := if v <? 0 then 0 else v).
  assert (Hv' : 0 <= v' <= len (text s)).
  { unfold v', v. destruct (len (text s) <? p) eqn:A.
    - destruct (len (text s) <? 0) eqn:B; lia.
    - destruct (p <? 0) eqn:B; lia. }
  rewrite Z.max_r by lia.
  destruct (v' =? cur s) eqn:E; [apply Edit_refl; auto|].
  set (s1 := set_doc_fields s (text s) v').
  assert (W1 : Wf s1) by (unfold s1, Wf; simp; split; [lia|split; auto]).
  destruct (cursor_changed_Edit s1 W1) as ((F & W' & _) & _).
  split; [eapply Frame_trans; [|exact F]; unfold s1, Frame; simp; repeat split; reflexivity|].
  split; [exact W'|]. right. apply cursor_changed_cst.
Qed.

(* --- edits that leave the cursor where it is; synchronous validate -------- *)
Lemma move_cursor_text s p : text (move_cursor s p) = text s.
Proof.
  unfold move_cursor.
  match goal with |- context [if ?c then s else _] => destruct c end; [reflexivity|].
  unfold cursor_changed; simp. destruct (vst s =? 1); reflexivity.
Qed.

Lemma move_cursor_to s p : 0 <= p <= len (text s) -> cur (move_cursor s p) = p.
Proof.
  intros Hp. unfold move_cursor.
  destruct (len (text s) <? p) eqn:A; [lia|]. destruct (p <? 0) eqn:B; [lia|].
  rewrite Z.max_r by lia. destruct (p =? cur s) eqn:E.
  - apply Z.eqb_eq in E. auto.
  - unfold cursor_changed; simp. destruct (vst s =? 1); reflexivity.
Qed.

Lemma set_text_spec s v : Wf s -> Edit s (set_text s v).
Proof.
  intros W. pose proof W as (Wc & _). unfold set_text.
  set (s1 := if len v <? cur s then move_cursor s (len v) else s).
  assert (E1 : Edit s s1 /\ cur s1 <= len v).
  { unfold s1. destruct (len v <? cur s) eqn:A.
    - split; [apply move_cursor_spec; auto|]. pose proof (len_nonneg v). rewrite move_cursor_to by lia. lia.
    - split; [apply Edit_refl; auto|lia]. }
  destruct E1 as (E1 & Hc1). destruct (str_eqb v (text s1)); [exact E1|].
  pose proof E1 as (F1 & W1 & _). pose proof W1 as (Wc1 & _).
  set (s2 := set_doc_fields s1 v (cur s1)).
  assert (H2 : 0 <= cur s2 <= len (text s2)) by (unfold s2; simp; lia).
  destruct (text_changed_Edit s2 H2) as (F & W' & Cn & _).
  split; [|split; [exact W'|right; exact Cn]].
  eapply Frame_trans; [exact F1|]. eapply Frame_trans; [|exact F].
  unfold s2, Frame; simp. repeat split; reflexivity.
Qed.

Lemma delete_fwd_spec s n : Wf s -> Edit s (delete_fwd s n).
Proof.
  intros W. unfold delete_fwd. destruct (cur s <? len (text s)); [apply set_text_spec; auto|apply Edit_refl; auto].
Qed.

Lemma swap_chars_spec s s' e : Wf s -> swap_chars s = (s', e) -> Edit s s'.
Proof.
  intros W H. unfold swap_chars in H. destruct (2 <=? cur s).
  - destruct (index (text s) (cur s - 2)); [|inversion H; subst; apply Edit_refl; auto].
    destruct (index (text s) (cur s - 1)); inversion H; subst; [apply set_text_spec; auto|apply Edit_refl; auto].
  - inversion H; subst. apply Edit_refl; auto.
Qed.

Lemma Edit_set_val s s1 v d : Edit s s1 -> dtext d = text s1 -> Edit s (set_val s1 v (Some d)).
Proof.
  intros (F & W & C) Hd. unfold Edit, Frame, Wf in *; simp.
  split; [exact F|]. split; [|exact C].
  destruct W as (W1 & _ & W3). split; [exact W1|]. split; [|exact W3].
  intros _. exists d. split; [reflexivity|exact Hd].
Qed.

Lemma validate_sync_spec s ok epos sc : Wf s -> Edit s (validate_sync s ok epos sc).
Proof.
  intros W. unfold validate_sync. destruct (vst s =? 0); [|apply Edit_refl; auto].
  destruct (hval (cfg s) && negb ok).
  - destruct sc.
    + apply Edit_set_val; [apply move_cursor_spec; auto|]. rewrite move_cursor_text. reflexivity.
    + apply Edit_set_val; [apply Edit_refl; auto|reflexivity].
  - apply Edit_set_val; [apply Edit_refl; auto|reflexivity].
Qed.

(* --- reset / validate_and_handle -------------------------------------------- *)
Lemma reset_buf_spec s t p s' e : Wf s -> reset_buf s t p = (s', e) -> Edit s s'.
Proof.
  intros W H. unfold reset_buf in H. destruct ((len t <? p) || (p <? 0)) eqn:E.
  - inversion H; subst. apply Edit_refl; auto.
  - apply orb_false_iff in E. destruct E as (E1 & E2). inversion H; subst s' e; clear H.
    unfold Edit, Frame, Wf; simp. split; [repeat split; reflexivity|]. split; [|right; reflexivity].
    split; [lia|]. split; [intros A; congruence|intros ? ? A; discriminate A].
Qed.

Lemma reset_buf_clears s t p s' : reset_buf s t p = (s', 0) ->
  text s' = t /\ cur s' = p /\ cst s' = None /\ vst s' = 0 /\ sug s' = None /\
  ccos s' = ccos s /\ vcos s' = vcos s /\ scos s' = scos s.
Proof.
  unfold reset_buf. destruct ((len t <? p) || (p <? 0)); intros H; inversion H; subst; simp. repeat split; reflexivity.
Qed.

Lemma validate_and_handle_spec s ok epos keep : Wf s -> Edit s (validate_and_handle s ok epos keep).
Proof.
  intros W. unfold validate_and_handle.
  pose proof (validate_sync_spec s ok epos true W) as E1. set (s1 := validate_sync s ok epos true) in *.
  destruct ((vst s1 =? 1) && negb keep); [|exact E1].
  destruct (reset_buf s1 [] 0) as [s2 e] eqn:Er. cbn [fst].
  eapply Edit_trans; [exact E1|]. eapply reset_buf_spec; [apply E1|exact Er].
Qed.

(* --- go_to_completion ---------------------------------------------------- *)
Lemma go_to_index_cases cs i cs1 : go_to_index cs i = Some cs1 ->
  (cs1 = cs /\ cs_comps cs = []) \/
  (cs_comps cs <> [] /\ cs1 = cs_with_idx cs i /\ idx_ok cs1).
Proof.
  unfold go_to_index. destruct (cs_comps cs) as [|c r] eqn:E.
  - intros H; inversion H; auto.
  - intros H. right. split; [discriminate|]. destruct i as [j|].
    + destruct ((0 <=? j) && (j <? len (c :: r))) eqn:E2; [|discriminate].
      inversion H; subst. split; [reflexivity|]. unfold idx_ok; simp. rewrite E.
      apply andb_true_iff in E2. lia.
    + inversion H; subst. split; [reflexivity|]. unfold idx_ok; simp. exact I.
Qed.

Lemma cs_static_with_idx nid cos cs i :
  cs_static nid cos cs -> ~ broken (cs_with_idx cs i) -> cs_static nid cos (cs_with_idx cs i).
Proof.
  intros (A & B & C & D) Hb. unfold cs_static; simp. split; [auto|]. split; [auto|]. split; [auto|].
  intros co Hin Hid. destruct (D co Hin Hid) as (D1 & D2 & _). auto.
Qed.

Lemma gtc_spec s i s' e : Wf s -> CsOk s -> go_to_completion s i = (s', e) ->
  Frame s s' /\ Wf s' /\ CsOk s' /\
  (forall cs cs1, cst s = Some cs -> go_to_index cs i = Some cs1 -> idx_ok cs1 ->
     e = 0 /\ cst s' = Some cs1 /\ ntp cs1 = Some (text s', cur s')).
Proof.
  intros W K H. unfold go_to_completion in H.
  destruct (cst s) as [cs|] eqn:Ec.
  2:{ inversion H; subst. split; [apply Frame_refl|]. split; [exact W|]. split; [exact K|].
      intros ? ? A. discriminate A. }
  destruct (K cs Ec) as (St & Dy).
  destruct (go_to_index cs i) as [cs1|] eqn:Eg.
  2:{ inversion H; subst. split; [apply Frame_refl|]. split; [exact W|]. split; [exact K|].
      intros ? ? A B. inversion A; subst. congruence. }
  pose proof St as (S1 & S2 & S3 & S4).
  assert (Hf : cs_id cs1 = cs_id cs /\ cs_orig cs1 = cs_orig cs /\ cs_comps cs1 = cs_comps cs /\ cs_shift cs1 = cs_shift cs).
  { destruct (go_to_index_cases _ _ _ Eg) as [(A & _)|(_ & A & _)]; subst; simp; auto. }
  destruct Hf as (F1 & F2 & F3 & F4).
  destruct (ntp cs1) as [[t p]|] eqn:En.
  - assert (Hb : 0 <= p <= len t) by (apply (ntp_bounds cs1); [rewrite F2; exact S2|exact En]).
    destruct (len t <? p) eqn:E; [lia|].
    inversion H; subst s' e; clear H.
    assert (W1 : Wf (set_cst s (Some cs1))) by (unfold Wf in *; simp; exact W).
    assert (Hwd : wf_doc (mkdoc t p)) by (unfold wf_doc; simp; lia).
    destruct (set_document_spec _ _ Hwd W1) as ((Fr & W2 & _) & Tt & Tc).
    set (s2 := set_document (set_cst s (Some cs1)) (mkdoc t p)) in *.
    assert (Fr' : Frame s (set_cst s2 (Some cs1))).
    { unfold Frame in *; simp. exact Fr. }
    split; [exact Fr'|]. split; [unfold Wf in *; simp; exact W2|]. split.
    + intros cs' Hc'. simp. inversion Hc'; subst cs'; clear Hc'.
      destruct Fr' as (G1 & G2 & _ & _ & _ & G6 & _). simp. rewrite G1, G2, G6, Tt, Tc. simp.
      assert (Hnb : ~ broken cs1) by (eapply ntp_some_not_broken; eauto).
      split.
      * destruct (go_to_index_cases _ _ _ Eg) as [(A & _)|(_ & A & _)]; subst cs1; auto.
        apply cs_static_with_idx; auto.
      * left. split; [|exact En].
        destruct (go_to_index_cases _ _ _ Eg) as [(A & B)|(_ & _ & A)]; auto.
        subst cs1. unfold idx_ok. destruct (cs_idx cs) as [j|] eqn:Ej; [|exact I].
        exfalso. apply Hnb. split; [auto|congruence].
    + intros cs0 cs1' A B C. inversion A; subst cs0. rewrite Eg in B. inversion B; subst cs1'.
      simp. rewrite Tt, Tc. simp. auto.
  - (* IndexError: only in the broken state, where nothing was assigned *)
    inversion H; subst s' e; clear H.
    assert (cs1 = cs).
    { destruct (go_to_index_cases _ _ _ Eg) as [(A & _)|(_ & _ & A)]; auto.
      destruct (ntp_idx_ok_some _ A) as [tp Htp]. congruence. }
    subst cs1.
    split; [unfold Frame; simp; repeat split; reflexivity|].
    split; [unfold Wf in *; simp; exact W|]. split.
    + intros cs' Hc'. simp. inversion Hc'; subst cs'. apply (K cs Ec).
    + intros cs0 cs1' A B C. inversion A; subst cs0. rewrite Eg in B. inversion B; subst cs1'.
      destruct (ntp_idx_ok_some _ C) as [tp Htp]. congruence.
Qed.

Lemma gtc_Inv s i s' e : Inv s -> go_to_completion s i = (s', e) -> Inv s'.
Proof.
  intros (W & C & I & K) H. destruct (gtc_spec _ _ _ _ W K H) as (F & W' & K' & _).
  split; [exact W'|]. split; [eapply Frame_Cnt; eauto|]. split; [eapply Frame_Ids; eauto|]. exact K'.
Qed.

Lemma complete_next_Inv s c w s' e : Inv s -> complete_next s c w = (s', e) -> Inv s'.
Proof.
  intros HI H. unfold complete_next in H. destruct (cst s) as [cs|]; [|inversion H; subst; auto].
  destruct (cs_idx cs) as [i|].
  - destruct (i =? len (cs_comps cs) - 1).
    + destruct w; [inversion H; subst; auto|eapply gtc_Inv; eauto].
    + eapply gtc_Inv; eauto.
  - eapply gtc_Inv; eauto.
Qed.

Lemma complete_prev_Inv s c w s' e : Inv s -> complete_prev s c w = (s', e) -> Inv s'.
Proof.
  intros HI H. unfold complete_prev in H. destruct (cst s) as [cs|]; [|inversion H; subst; auto].
  destruct (cs_idx cs) as [i|].
  - destruct (i =? 0).
    + destruct w; [inversion H; subst; auto|eapply gtc_Inv; eauto].
    + eapply gtc_Inv; eauto.
  - eapply gtc_Inv; eauto.
Qed.

Lemma set_cst_none_Inv s : Inv s -> Inv (set_cst s None).
Proof.
  intros (W & C & I & K). split; [exact W|]. split; [exact C|]. split; [exact I|].
  apply CsOk_none. reflexivity.
Qed.

Lemma cancel_Inv s s' e : Inv s -> cancel_completion s = (s', e) -> Inv s'.
Proof.
  intros HI H. unfold cancel_completion in H. destruct (cst s) as [cs|]; [|inversion H; subst; auto].
  destruct (go_to_completion s None) as [s1 e1] eqn:Eg.
  pose proof (gtc_Inv _ _ _ _ HI Eg) as H1.
  destruct (e1 =? 0); inversion H; subst; auto using set_cst_none_Inv.
Qed.

(* --- exact effect of cycling and cancelling ------------------------------- *)
Definition next_idx (n : Z) (i : option Z) : option Z :=
  match i with None => Some 0 | Some j => if j =? n - 1 then None else Some (j + 1) end.
Definition prev_idx (n : Z) (i : option Z) : option Z :=
  match i with None => Some (n - 1) | Some j => if j =? 0 then None else Some (j - 1) end.

(* a menu whose selection can be applied: the normal case, everything except
   the state produced by finding C15-F1 *)
Definition menu (s : state) (cs : cstate) : Prop :=
  cst s = Some cs /\ idx_ok cs /\ 1 <= len (cs_comps cs).

Lemma gtc_menu s cs i :
  Inv s -> menu s cs ->
  match i with None => True | Some j => 0 <= j < len (cs_comps cs) end ->
  exists s', go_to_completion s i = (s', 0) /\ Inv s' /\ menu s' (cs_with_idx cs i) /\
             ntp (cs_with_idx cs i) = Some (text s', cur s').
Proof.
  intros HI (Hc & Hok & Hn) Hi.
  destruct (go_to_completion s i) as [s' e] eqn:Eg.
  pose proof (gtc_Inv _ _ _ _ HI Eg) as HI'.
  destruct HI as (W & C & I & K).
  destruct (gtc_spec _ _ _ _ W K Eg) as (_ & _ & _ & G).
  assert (Hg : go_to_index cs i = Some (cs_with_idx cs i)).
  { unfold go_to_index. destruct (cs_comps cs) as [|c r] eqn:E; [change (len (@nil completion)) with 0 in Hn; lia|].
    destruct i as [j|]; [|reflexivity].
    replace ((0 <=? j) && (j <? len (c :: r))) with true; [reflexivity|].
    symmetry. apply andb_true_iff. split; lia. }
  assert (Hok' : idx_ok (cs_with_idx cs i)).
  { unfold idx_ok; simp. destruct i; auto. }
  destruct (G cs _ Hc Hg Hok') as (E0 & Hc' & Hn').
  subst e. exists s'. split; [reflexivity|]. split; [exact HI'|]. split; [|exact Hn'].
  split; [exact Hc'|]. split; [exact Hok'|]. simp. exact Hn.
Qed.

Lemma complete_next_menu s cs :
  Inv s -> menu s cs ->
  exists s', step s (CompleteNext 1 false) = (s', 0) /\ Inv s' /\
             menu s' (cs_with_idx cs (next_idx (len (cs_comps cs)) (cs_idx cs))) /\
             ntp (cs_with_idx cs (next_idx (len (cs_comps cs)) (cs_idx cs))) = Some (text s', cur s').
Proof.
  intros HI M. pose proof M as (Hc & Hok & Hn). cbn [step]. unfold complete_next. rewrite Hc.
  unfold next_idx. unfold idx_ok in Hok. destruct (cs_idx cs) as [i|].
  - destruct (i =? len (cs_comps cs) - 1) eqn:E.
    + apply gtc_menu; auto.
    + rewrite Z.min_r by lia. rewrite Z.max_r by lia. apply gtc_menu; auto. lia.
  - apply gtc_menu; auto. lia.
Qed.

Lemma complete_prev_menu s cs :
  Inv s -> menu s cs ->
  exists s', step s (CompletePrev 1 false) = (s', 0) /\ Inv s' /\
             menu s' (cs_with_idx cs (prev_idx (len (cs_comps cs)) (cs_idx cs))) /\
             ntp (cs_with_idx cs (prev_idx (len (cs_comps cs)) (cs_idx cs))) = Some (text s', cur s').
Proof.
  intros HI M. pose proof M as (Hc & Hok & Hn). cbn [step]. unfold complete_prev. rewrite Hc.
  unfold prev_idx. unfold idx_ok in Hok. destruct (cs_idx cs) as [i|].
  - destruct (i =? 0) eqn:E.
    + apply gtc_menu; auto.
    + rewrite Z.max_r by lia. rewrite Z.min_r by lia. apply gtc_menu; auto. lia.
  - apply gtc_menu; auto. lia.
Qed.

Lemma prev_next_idx n i :
  1 <= n -> match i with None => True | Some j => 0 <= j < n end ->
  prev_idx n (next_idx n i) = i /\ next_idx n (prev_idx n i) = i.
Proof.
  intros Hn Hi. unfold prev_idx, next_idx. destruct i as [j|].
  - split.
    + destruct (j =? n - 1) eqn:E; [f_equal; lia|].
      destruct (j + 1 =? 0) eqn:E2; [lia|]. f_equal; lia.
    + destruct (j =? 0) eqn:E.
      * destruct (0 =? n - 1) eqn:E2; f_equal; lia.
      * destruct (j - 1 =? n - 1) eqn:E2; [lia|]. f_equal; lia.
  - split.
    + rewrite Z.eqb_refl. reflexivity.
    + rewrite Z.eqb_refl. reflexivity.
Qed.

Lemma cs_with_idx_idem cs a b : cs_with_idx (cs_with_idx cs a) b = cs_with_idx cs b.
Proof. reflexivity. Qed.

Lemma apply_step s l s' e : step s l = (s', e) -> apply s l = s'.
Proof. intros H. unfold apply. rewrite H. reflexivity. Qed.

(* k+1 x complete_next from "nothing selected" selects index k (k < n) ... *)
Lemma next_visits s cs (k : nat) :
  Inv s -> menu s cs -> cs_idx cs = None -> Z.of_nat k < len (cs_comps cs) ->
  let s' := run s (repeat (CompleteNext 1 false) (S k)) in
  Inv s' /\ menu s' (cs_with_idx cs (Some (Z.of_nat k))) /\
  ntp (cs_with_idx cs (Some (Z.of_nat k))) = Some (text s', cur s').
Proof.
  intros HI M Hi. induction k as [|k IH]; intros Hk.
  - cbn [repeat run fold_left]. destruct (complete_next_menu s cs HI M) as (s' & Hs & HI' & M' & N').
    rewrite (apply_step _ _ _ _ Hs). rewrite Hi in *. cbn [next_idx] in *. auto.
  - assert (Hk' : Z.of_nat k < len (cs_comps cs)) by lia.
    specialize (IH Hk'). cbv zeta in IH. destruct IH as (HI1 & M1 & N1).
    replace (S (S k)) with (S k + 1)%nat by lia. rewrite repeat_app. unfold run in *. rewrite fold_left_app.
    set (s1 := fold_left apply (repeat (CompleteNext 1 false) (S k)) s) in *.
    cbn [repeat fold_left].
    destruct (complete_next_menu s1 _ HI1 M1) as (s' & Hs & HI' & M' & N').
    rewrite (apply_step _ _ _ _ Hs). simp. rewrite cs_with_idx_idem in *.
    unfold next_idx in M', N'.
    destruct (Z.of_nat k =? len (cs_comps cs) - 1) eqn:E; [lia|].
    replace (Z.of_nat k + 1) with (Z.of_nat (S k)) in * by lia.
    cbv zeta. auto.
Qed.

(* ... and one more wraps around to "nothing selected": the original text *)
Lemma next_wraps s cs :
  Inv s -> menu s cs -> cs_idx cs = None ->
  let s' := run s (repeat (CompleteNext 1 false) (S (Z.to_nat (len (cs_comps cs))))) in
  Inv s' /\ menu s' cs /\ text s' = dtext (cs_orig cs) /\ cur s' = dcur (cs_orig cs).
Proof.
  intros HI M Hi. pose proof M as (_ & _ & Hn).
  set (n := Z.to_nat (len (cs_comps cs))).
  assert (Hn' : (n = S (pred n))%nat) by (unfold n; lia).
  rewrite Hn'. replace (S (S (pred n))) with (S (pred n) + 1)%nat by lia.
  rewrite repeat_app. unfold run. rewrite fold_left_app.
  assert (Hk : Z.of_nat (pred n) < len (cs_comps cs)) by (unfold n; lia).
  destruct (next_visits s cs (pred n) HI M Hi Hk) as (HI1 & M1 & N1).
  unfold run in *. set (s1 := fold_left apply (repeat (CompleteNext 1 false) (S (pred n))) s) in *.
  cbn [repeat fold_left].
  destruct (complete_next_menu s1 _ HI1 M1) as (s' & Hs & HI' & M' & N').
  rewrite (apply_step _ _ _ _ Hs). simp. rewrite cs_with_idx_idem in *. unfold next_idx in M', N'.
  replace (Z.of_nat (pred n) =? len (cs_comps cs) - 1) with true in * by (symmetry; apply Z.eqb_eq; unfold n; lia).
  assert (Hcs : cs_with_idx cs None = cs) by (destruct cs; simp; subst; reflexivity).
  rewrite Hcs in *. cbv zeta. split; auto. split; auto.
  rewrite (ntp_none_idx cs Hi) in N'. inversion N'. auto.
Qed.

Lemma prev_visits s cs (k : nat) :
  Inv s -> menu s cs -> cs_idx cs = None -> Z.of_nat k < len (cs_comps cs) ->
  let s' := run s (repeat (CompletePrev 1 false) (S k)) in
  Inv s' /\ menu s' (cs_with_idx cs (Some (len (cs_comps cs) - 1 - Z.of_nat k))) /\
  ntp (cs_with_idx cs (Some (len (cs_comps cs) - 1 - Z.of_nat k))) = Some (text s', cur s').
Proof.
  intros HI M Hi. induction k as [|k IH]; intros Hk.
  - cbn [repeat run fold_left]. destruct (complete_prev_menu s cs HI M) as (s' & Hs & HI' & M' & N').
    rewrite (apply_step _ _ _ _ Hs). rewrite Hi in *. cbn [prev_idx] in *.
    replace (len (cs_comps cs) - 1 - Z.of_nat 0) with (len (cs_comps cs) - 1) by lia. auto.
  - assert (Hk' : Z.of_nat k < len (cs_comps cs)) by lia.
    specialize (IH Hk'). cbv zeta in IH. destruct IH as (HI1 & M1 & N1).
    replace (S (S k)) with (S k + 1)%nat by lia. rewrite repeat_app. unfold run in *. rewrite fold_left_app.
    set (s1 := fold_left apply (repeat (CompletePrev 1 false) (S k)) s) in *.
    cbn [repeat fold_left].
    destruct (complete_prev_menu s1 _ HI1 M1) as (s' & Hs & HI' & M' & N').
    rewrite (apply_step _ _ _ _ Hs). simp. rewrite cs_with_idx_idem in *.
    unfold prev_idx in M', N'.
    destruct (len (cs_comps cs) - 1 - Z.of_nat k =? 0) eqn:E; [lia|].
    replace (len (cs_comps cs) - 1 - Z.of_nat k - 1) with (len (cs_comps cs) - 1 - Z.of_nat (S k)) in * by lia.
    cbv zeta. auto.
Qed.

(* cancel: original text and cursor, menu closed *)
Lemma cancel_menu s cs :
  Inv s -> cst s = Some cs -> ~ broken cs ->
  exists s', step s Cancel = (s', 0) /\ Inv s' /\ cst s' = None /\
             text s' = dtext (cs_orig cs) /\ cur s' = dcur (cs_orig cs).
Proof.
  intros HI Hc Hnb. cbn [step]. unfold cancel_completion. rewrite Hc.
  destruct (go_to_completion s None) as [s1 e] eqn:Eg.
  pose proof (gtc_Inv _ _ _ _ HI Eg) as HI1.
  destruct HI as (W & C & I & K).
  destruct (gtc_spec _ _ _ _ W K Eg) as (_ & _ & _ & G).
  destruct (go_to_index cs None) as [cs1|] eqn:E1.
  2:{ unfold go_to_index in E1. destruct (cs_comps cs); discriminate. }
  assert (Hi1 : cs_idx cs1 = None /\ cs_orig cs1 = cs_orig cs).
  { destruct (go_to_index_cases _ _ _ E1) as [(A & B)|(_ & A & _)]; subst cs1; simp; auto.
    split; auto. destruct (cs_idx cs) eqn:Ei; auto. exfalso. apply Hnb. split; auto. congruence. }
  destruct Hi1 as (Hi1 & Ho1).
  assert (Hok : idx_ok cs1) by (unfold idx_ok; rewrite Hi1; exact Logic.I).
  destruct (G cs cs1 Hc E1 Hok) as (E0 & Hc1 & Hn1). subst e. cbn [Z.eqb].
  exists (set_cst s1 None). split; [reflexivity|]. split; [apply set_cst_none_Inv; auto|].
  simp. rewrite (ntp_none_idx cs1 Hi1), Ho1 in Hn1. inversion Hn1. auto.
Qed.
