(* C09 round 6 - Vi navigation mode: [count] [register] operator (d / y / c) + motion.
   TextObject.cut for an exclusive motion that stays on the cursor line removes / yields
   exactly the characters between the cursor and the target; the operator puts exactly
   that data into the named register (and nowhere else) or on the unnamed ring. *)
From Coq Require Import ZArith List Bool Lia PeanoNat.
From PTK Require Import Lib.Sx Lib.Py Model.Document Model.BufferEdit Proofs.BufferEditFacts
  Proofs.C02_Base Proofs.C02_Coords
  Model.C09_Kill Proofs.C09_Ring Proofs.C09_KillFacts Proofs.C09_YankFacts Proofs.C09_CutFacts
  Proofs.C09_StepFacts.
Import ListNotations.
Open Scope Z_scope.

Lemma nth_error_mem c l : forall n, nth_error l n = Some c -> mem_Z c l = true.
Proof.
  induction l as [|x l IH]; intros [|n] H; cbn [nth_error mem_Z] in *; try discriminate.
  - injection H as ->. now rewrite Z.eqb_refl.
  - rewrite (IH n H). apply orb_true_r.
Qed.

(* a position after the cursor on the cursor line is not in column 0 *)
Lemma col_after_cursor d k :
  valid d -> 0 < k <= len (current_line_after_cursor d) ->
  snd (translate_index_to_position d (k + dcur d)) <> 0.
Proof.
  intros Hv Hk Hz.
  destruct (translate_index_to_position d (k + dcur d)) as [row col] eqn:E. cbn [snd] in Hz. subst col.
  pose proof (len_cla_le d Hv) as Hl.
  assert (Hi : 0 <= k + dcur d <= len (dtext d)) by (destruct Hv; lia).
  destruct (C02c_index_to_position_spec d _ row 0 Hi E) as (_ & _ & _ & H4 & _).
  destruct H4 as [H4|H4]; [destruct Hv; lia|].
  destruct (cla_split d) as (q & Hq & _).
  pose proof (tb_ta d Hv) as Ht. rewrite Hq in Ht. pose proof (len_tb d Hv) as Hb.
  rewrite <- Ht in H4.
  replace (Z.to_nat (k + dcur d - 0 - 1)) with (length (text_before_cursor d) + Z.to_nat (k - 1))%nat in H4
    by (unfold len in Hb; destruct Hv; lia).
  rewrite nth_error_app2 in H4 by lia.
  replace (length (text_before_cursor d) + Z.to_nat (k - 1) - length (text_before_cursor d))%nat
    with (Z.to_nat (k - 1)) in H4 by lia.
  rewrite nth_error_app1 in H4 by (unfold len in Hk; lia).
  apply nth_error_mem in H4. rewrite cla_no_nl in H4. discriminate.
Qed.

Lemma col_at_cursor d : snd (translate_index_to_position d (dcur d)) = cursor_position_col d.
Proof.
  unfold translate_index_to_position, cursor_position_col.
  destruct (find_line_start_index d (dcur d)) as [row start]. reflexivity.
Qed.

(* TextObject(k).cut for an exclusive motion to a later position of the cursor line *)
Lemma tobj_cut_forward t cur k :
  0 <= cur <= len t -> 0 < k <= len (current_line_after_cursor (mkdoc t cur)) ->
  tobj_cut (mkdoc t cur) k 0 EXCLUSIVE =
  Some (Some (firstn (Z.to_nat cur) t ++ skipn (Z.to_nat (cur + k)) t, cur),
        mkclip (firstn (Z.to_nat k) (skipn (Z.to_nat cur) t)) CHARACTERS).
Proof.
  intros Hc Hk. set (d := mkdoc t cur) in *.
  assert (Hv : valid d) by exact Hc.
  pose proof (len_cla_le d Hv) as Hl. cbn [d dtext dcur] in Hl.
  pose proof (col_after_cursor d k Hv Hk) as Hcol.
  unfold tobj_cut, operator_range. cbn [d dcur dtext]. fold d.
  destruct (k <? 0) eqn:Es; [lia|].
  destruct (snd (translate_index_to_position d (k + cur)) =? 0) eqn:Ec;
    [apply Z.eqb_eq in Ec; cbn [d dcur] in Hcol; contradiction|].
  change (EXCLUSIVE =? EXCLUSIVE) with true. change (EXCLUSIVE =? INCLUSIVE) with false.
  change (EXCLUSIVE =? LINEWISE) with false. change (EXCLUSIVE =? TBLOCK) with false.
  rewrite andb_false_r. cbn [andb orb negb]. change (tobj_selection_type EXCLUSIVE) with CHARACTERS.
  destruct (k <=? 0) eqn:E0; [lia|].
  destruct (len t <? k + cur - 1) eqn:El; [lia|].
  rewrite (cut_chars t (k + cur - 1) (0 + cur) true) by lia.
  unfold sel_lo, sel_hi.
  replace (Z.min (k + cur - 1) (0 + cur)) with cur by lia.
  replace (Z.min (Z.max (k + cur - 1) (0 + cur) + 1) (len t)) with (cur + k) by lia.
  replace (cur + k - cur) with k by lia. reflexivity.
Qed.

(* ... and to an earlier position of the cursor line *)
Lemma tobj_cut_backward t cur k :
  0 <= cur <= len t -> 0 < k <= len (current_line_before_cursor (mkdoc t cur)) ->
  tobj_cut (mkdoc t cur) (- k) 0 EXCLUSIVE =
  Some (Some (firstn (Z.to_nat (cur - k)) t ++ skipn (Z.to_nat cur) t, cur - k),
        mkclip (firstn (Z.to_nat k) (skipn (Z.to_nat (cur - k)) t)) CHARACTERS).
Proof.
  intros Hc Hk. set (d := mkdoc t cur) in *.
  assert (Hv : valid d) by exact Hc.
  pose proof (len_clb_le d Hv) as Hl. cbn [d dtext dcur] in Hl.
  destruct (C02c_cursor_row_col d Hv) as [_ Hcol].
  unfold tobj_cut, operator_range. cbn [d dcur dtext]. fold d.
  destruct (- k <? 0) eqn:Es; [|lia].
  replace (0 + cur) with (dcur d) by (cbn [d dcur]; lia). rewrite col_at_cursor, Hcol.
  destruct (len (current_line_before_cursor d) =? 0) eqn:Ec; [lia|].
  change (EXCLUSIVE =? EXCLUSIVE) with true. change (EXCLUSIVE =? INCLUSIVE) with false.
  change (EXCLUSIVE =? LINEWISE) with false. change (EXCLUSIVE =? TBLOCK) with false.
  rewrite andb_false_r. cbn [andb orb negb]. change (tobj_selection_type EXCLUSIVE) with CHARACTERS.
  destruct (0 <=? - k) eqn:E0; [lia|]. cbn [d dcur].
  replace (0 + cur - 1) with (cur - 1) by lia.
  destruct (len t <? cur - 1) eqn:El; [lia|].
  rewrite (cut_chars t (cur - 1) (- k + cur) true) by lia.
  unfold sel_lo, sel_hi.
  replace (Z.min (cur - 1) (- k + cur)) with (cur - k) by lia.
  replace (Z.min (Z.max (cur - 1) (- k + cur) + 1) (len t)) with cur by lia.
  replace (cur - (cur - k)) with k by lia. reflexivity.
Qed.

(* ---------------------------------------------------------------------- *)
(* where the operator puts the data: the named register reg (when reg >= 0 is a
   valid name; an invalid name stores nothing) or the unnamed ring (reg < 0) *)
Definition op_stored (s s' : st) (reg : Z) (data : clip) : Prop :=
  if 0 <=? reg then
    sring s' = sring s /\
    (is_register_name reg = true ->
       reg_get (sregs s') reg = Some data /\
       forall r', r' <> reg -> reg_get (sregs s') r' = reg_get (sregs s) r') /\
    (is_register_name reg = false -> sregs s' = sregs s)
  else
    sring s' = ring_set (sring s) data /\ sregs s' = sregs s.

Lemma move_to_frame s v :
  btext (sb (move_to s v)) = btext (sb s) /\ sring (move_to s v) = sring s /\ sregs (move_to s v) = sregs s.
Proof. unfold move_to, upd, set_cursor. cbn [with_buf sb btext sring sregs]. repeat split. Qed.

(* The operator, given what TextObject.cut computed (ANY motion of the model,
   e / b / B included): non-empty data goes, unchanged (text and type), to the
   register the keys name; d / c install the cut document, y leaves the text. *)
Lemma vi_op_stores_cut s op reg m arg start oty t c data :
  op = 0 \/ op = 1 \/ op = 2 ->
  motion_obj (cur_doc s) m arg = Some (start, oty) ->
  (oty =? EXCLUSIVE) && (start =? 0) = false ->
  (op = 1 -> 0 <= reg -> is_register_name reg = true) ->
  tobj_cut (cur_doc s) start 0 oty = Some (Some (t, c), data) -> ctext data <> [] ->
  exists s', vi_op s op reg m arg = (0, s') /\
    op_stored s s' reg data /\
    btext (sb s') = (if op =? 1 then btext (sb s) else t).
Proof.
  intros Hop Hm Hne Hreg Hcut Hd. unfold vi_op. rewrite Hm, Hne, Hcut.
  assert (Hn : match ctext data with [] => false | _ => true end = true)
    by (destruct (ctext data); [congruence|reflexivity]).
  rewrite Hn.
  assert (Hskip : (op =? 1) && (0 <=? reg) && negb (is_register_name reg) = false).
  { destruct (op =? 1) eqn:E1; [|reflexivity]. destruct (0 <=? reg) eqn:E2; [|reflexivity].
    rewrite Hreg by lia. reflexivity. }
  rewrite Hskip.
  assert (Hst : forall s1, sring s1 = sring s -> sregs s1 = sregs s ->
            op_stored s (if 0 <=? reg
                         then if is_register_name reg then with_regs s1 (reg_set (sregs s1) reg data) else s1
                         else with_ring s1 (ring_set (sring s1) data)) reg data).
  { intros s1 R1 R2. unfold op_stored. destruct (0 <=? reg).
    - destruct (is_register_name reg) eqn:En.
      + cbn [with_regs sring sregs]. split; [exact R1|]. split; [|discriminate].
        intros _. rewrite R2. split; [apply reg_get_set|]. intros r' Hr'. now apply reg_get_set_other.
      + split; [exact R1|]. split; [discriminate|]. intros _. exact R2.
    - cbn [with_ring sring sregs]. rewrite R1. split; [reflexivity|exact R2]. }
  destruct (op =? 1) eqn:E1.
  - eexists. split; [reflexivity|]. split; [apply Hst; reflexivity|].
    destruct (0 <=? reg); [destruct (is_register_name reg)|]; reflexivity.
  - set (s1 := set_doc s t c).
    assert (R1 : sring s1 = sring s) by reflexivity. assert (R2 : sregs s1 = sregs s) by reflexivity.
    assert (T1 : forall x, btext (sb (if 0 <=? reg
                         then if is_register_name reg then with_regs s1 x else s1
                         else with_ring s1 (ring_set (sring s1) data))) = t).
    { intros x. destruct (0 <=? reg); [destruct (is_register_name reg)|]; reflexivity. }
    destruct (op =? 2) eqn:E2.
    + unfold vi_escape, ok. change (0 =? 0) with true. cbv iota.
      eexists. split; [reflexivity|].
      match goal with |- op_stored s (move_to ?x ?v) _ _ /\ _ =>
        destruct (move_to_frame x v) as (M1 & M2 & M3); pose proof (Hst s1 R1 R2) as Hs end.
      split.
      * unfold op_stored in *. destruct (0 <=? reg).
        -- rewrite M2, M3. exact Hs.
        -- rewrite M2, M3. exact Hs.
      * rewrite M1. apply T1.
    + eexists. split; [reflexivity|]. split; [apply Hst; assumption|apply T1].
Qed.

(* ---------------------------------------------------------------------- *)
(* the motions that stay on the cursor line: l h $ 0 ^ *)
Lemma motion_inline d m arg :
  valid d -> 0 <= m <= 4 -> 0 <= arg ->
  exists k, motion_obj d m arg = Some (k, EXCLUSIVE) /\
    - len (current_line_before_cursor d) <= k <= len (current_line_after_cursor d).
Proof.
  intros Hv Hm Ha.
  destruct (C02c_cursor_row_col d Hv) as [_ Hcol].
  pose proof (len_nonneg (current_line_before_cursor d)) as Hb.
  pose proof (len_nonneg (current_line_after_cursor d)) as Hc.
  unfold motion_obj.
  destruct (m =? 0) eqn:E0.
  { eexists. split; [reflexivity|]. unfold get_cursor_right_position. destruct (arg <? 0) eqn:E; lia. }
  destruct (m =? 1) eqn:E1.
  { eexists. split; [reflexivity|]. unfold get_cursor_left_position. destruct (arg <? 0) eqn:E; lia. }
  destruct (m =? 2) eqn:E2.
  { eexists. split; [reflexivity|]. unfold get_end_of_line_position. lia. }
  destruct (m =? 3) eqn:E3.
  { eexists. split; [reflexivity|]. unfold get_start_of_line_position. lia. }
  destruct (m =? 4) eqn:E4; [|lia].
  eexists. split; [reflexivity|]. unfold get_start_of_line_position. rewrite Hcol, len_current_line.
  pose proof (c02_len_lstrip_by is_space (current_line d)) as Hs. rewrite len_current_line in Hs. lia.
Qed.

Lemma firstn_nonempty {T} (l : list T) k : 0 < k -> k <= len l -> firstn (Z.to_nat k) l <> [].
Proof.
  intros H0 H1 E. apply (f_equal (@length T)) in E. rewrite firstn_length in E. cbn [length] in E.
  unfold len in H1. lia.
Qed.

(* [count] [register] d / y / c + l / h / $ / 0 / ^ : the register the keys name (or the
   unnamed ring) receives EXACTLY the characters between the cursor and the target
   of the motion (x .. y), type CHARACTERS; d and c remove exactly those characters;
   y leaves the text alone; a motion that does not move cancels the operator. *)
Lemma vi_op_inline s op reg m arg :
  Inv (sb s) -> op = 0 \/ op = 1 \/ op = 2 -> 0 <= m <= 4 -> 0 <= arg ->
  (op = 1 -> 0 <= reg -> is_register_name reg = true) ->
  exists k, motion_obj (cur_doc s) m arg = Some (k, EXCLUSIVE) /\
    - len (current_line_before_cursor (cur_doc s)) <= k <= len (current_line_after_cursor (cur_doc s)) /\
    (k = 0 -> vi_op s op reg m arg = ok s) /\
    (k <> 0 ->
     let x := bcur (sb s) + Z.min k 0 in
     let y := bcur (sb s) + Z.max k 0 in
     let span := firstn (Z.to_nat (y - x)) (skipn (Z.to_nat x) (btext (sb s))) in
     exists s', vi_op s op reg m arg = (0, s') /\
       op_stored s s' reg (mkclip span CHARACTERS) /\
       btext (sb s') = (if op =? 1 then btext (sb s)
                        else firstn (Z.to_nat x) (btext (sb s)) ++ skipn (Z.to_nat y) (btext (sb s)))).
Proof.
  intros Hi Hop Hm Ha Hreg.
  assert (Hv : valid (cur_doc s)) by exact Hi.
  destruct (motion_inline (cur_doc s) m arg Hv Hm Ha) as (k & Hk & Hr).
  exists k. split; [exact Hk|]. split; [exact Hr|]. split.
  - intros ->. unfold vi_op. rewrite Hk. reflexivity.
  - intros Hk0. cbv zeta.
    pose proof (len_cla_le _ Hv) as La. pose proof (len_clb_le _ Hv) as Lb.
    cbn [cur_doc bdoc dtext dcur] in La, Lb.
    assert (Hne : (EXCLUSIVE =? EXCLUSIVE) && (k =? 0) = false).
    { destruct (k =? 0) eqn:E; [lia|reflexivity]. }
    destruct (Z_lt_le_dec 0 k) as [Hpos|Hneg].
    + pose proof (tobj_cut_forward (btext (sb s)) (bcur (sb s)) k Hi (conj Hpos (proj2 Hr))) as Hcut.
      destruct (vi_op_stores_cut s op reg m arg k EXCLUSIVE _ _ _ Hop Hk Hne Hreg Hcut) as (s' & H1 & H2 & H3).
      { cbn [ctext]. apply firstn_nonempty; [exact Hpos|]. rewrite len_skipn. lia. }
      exists s'. split; [exact H1|].
      replace (bcur (sb s) + Z.min k 0) with (bcur (sb s)) by lia.
      replace (bcur (sb s) + Z.max k 0) with (bcur (sb s) + k) by lia.
      replace (bcur (sb s) + k - bcur (sb s)) with k by lia.
      split; [exact H2|exact H3].
    + assert (Hk' : 0 < - k <= len (current_line_before_cursor (cur_doc s))) by lia.
      pose proof (tobj_cut_backward (btext (sb s)) (bcur (sb s)) (- k) Hi Hk') as Hcut.
      rewrite Z.opp_involutive in Hcut.
      destruct (vi_op_stores_cut s op reg m arg k EXCLUSIVE _ _ _ Hop Hk Hne Hreg Hcut) as (s' & H1 & H2 & H3).
      { cbn [ctext]. apply firstn_nonempty; [lia|]. rewrite len_skipn. lia. }
      exists s'. split; [exact H1|].
      replace (bcur (sb s) + Z.min k 0) with (bcur (sb s) - - k) by lia.
      replace (bcur (sb s) + Z.max k 0) with (bcur (sb s)) by lia.
      replace (bcur (sb s) - (bcur (sb s) - - k)) with (- k) by lia.
      split; [exact H2|exact H3].
Qed.

(* hypotheses satisfiable, with a register and a count: "ab cd", cursor 1, 2 reg-a d l *)
Lemma vi_op_example :
  let s := mkst (mkbuf [97; 98; 32; 99; 100] 1) None [] None 0 [] true in
  btext (sb (snd (vi_op s 0 97 0 2))) = [97; 99; 100] /\
  reg_get (sregs (snd (vi_op s 0 97 0 2))) 97 = Some (mkclip [98; 32] CHARACTERS) /\
  sring (snd (vi_op s 0 97 0 2)) = [].
Proof. cbv zeta. repeat split; vm_compute; reflexivity. Qed.

(* ---------------------------------------------------------------------- *)
(* the same through [step]: typed with or without a count, followed by the cursor
   fix-up (which touches neither text nor ring nor registers) *)
Lemma fix_frame_any s :
  btext (sb (fix_vi_cursor s)) = btext (sb s) /\ sring (fix_vi_cursor s) = sring s /\
  sregs (fix_vi_cursor s) = sregs s.
Proof.
  unfold fix_vi_cursor. destruct (_ && _); [|repeat split].
  destruct (move_to_frame s (bcur (sb s) - 1)) as (A & B & C). repeat split; assumption.
Qed.

Lemma op_stored_frame s s' s2 reg data :
  sring s2 = sring s' -> sregs s2 = sregs s' -> op_stored s s' reg data -> op_stored s s2 reg data.
Proof. unfold op_stored. intros -> ->. trivial. Qed.

Lemma step_vi_op s op reg m marg (argp : option Z) :
  svi s = true -> ssel s = None ->
  (match argp with Some _ => fix_vi_cursor s = s | None => True end) ->
  step s (ViOp op reg m marg) argp =
  (let arg := match argp with Some a => if 1000000 <=? a then 1 else a | None => 1 end in
   let '(code, s') := vi_op s op reg m (op_count arg marg) in
   if code =? 0 then (0, with_prev (fix_vi_cursor s') 60)
   else if code =? E_UNMODELLED then (code, s) else (code, with_prev s' 0)).
Proof.
  intros Hvi Hsel Hfix. unfold step, has_sel. rewrite Hvi, Hsel.
  cbn [negb Bool.eqb is_vi_cmd andb insert_only]. cbv zeta. cbn [exec binding_id cmd_id].
  destruct argp as [a|]; [rewrite Hfix|]; reflexivity.
Qed.

Lemma op_count_nonneg arg marg : 0 <= arg -> 0 <= marg -> 0 <= op_count arg marg.
Proof.
  intros Ha Hm. unfold op_count, clamp6.
  destruct (marg =? 0); [rewrite Z.mul_1_r; destruct (1000000 <=? arg); lia|].
  destruct (1000000 <=? marg); [rewrite Z.mul_1_r; destruct (1000000 <=? arg); lia|].
  destruct (1000000 <=? arg * marg); [lia|]. apply Z.mul_nonneg_nonneg; assumption.
Qed.

(* [count] [register] operator [count] motion through [step], ANY modelled motion
   (l h $ 0 ^ e b B w W), counts on either side of the operator: the text object sees
   the product of the two counts (op_count), and the non-empty data TextObject.cut
   computes for it goes, unchanged, into the register named BEFORE the operator (or
   on the unnamed ring), and nowhere else *)
Lemma step_vi_op_counted s op reg m marg (argp : option Z) start oty t c data :
  svi s = true -> ssel s = None ->
  (match argp with Some _ => fix_vi_cursor s = s | None => True end) ->
  op = 0 \/ op = 1 \/ op = 2 ->
  (op = 1 -> 0 <= reg -> is_register_name reg = true) ->
  let arg := match argp with Some a => if 1000000 <=? a then 1 else a | None => 1 end in
  let n := op_count arg marg in
  motion_obj (cur_doc s) m n = Some (start, oty) ->
  (oty =? EXCLUSIVE) && (start =? 0) = false ->
  tobj_cut (cur_doc s) start 0 oty = Some (Some (t, c), data) -> ctext data <> [] ->
  exists s1, step s (ViOp op reg m marg) argp = (0, s1) /\
    op_stored s s1 reg data /\
    btext (sb s1) = (if op =? 1 then btext (sb s) else t).
Proof.
  intros Hvi Hsel Hfix Hop Hreg arg n Hm Hne Hcut Hd.
  destruct (vi_op_stores_cut s op reg m n start oty t c data Hop Hm Hne Hreg Hcut Hd) as (s' & E & St & Tx).
  rewrite (step_vi_op s op reg m marg argp Hvi Hsel Hfix). cbv zeta. fold arg. fold n. rewrite E.
  change (0 =? 0) with true. cbv iota.
  eexists. split; [reflexivity|]. cbn [with_prev sb].
  destruct (fix_frame_any s') as (A & B & C). split.
  - apply (op_stored_frame s s'); [exact B|exact C|exact St].
  - rewrite A. exact Tx.
Qed.

Lemma step_vi_op_inline s op reg m marg (argp : option Z) :
  svi s = true -> ssel s = None -> Inv (sb s) ->
  (match argp with Some a => fix_vi_cursor s = s /\ 0 <= a | None => True end) -> 0 <= marg ->
  op = 0 \/ op = 1 \/ op = 2 -> 0 <= m <= 4 ->
  (op = 1 -> 0 <= reg -> is_register_name reg = true) ->
  let arg := op_count (match argp with Some a => if 1000000 <=? a then 1 else a | None => 1 end) marg in
  exists k, motion_obj (cur_doc s) m arg = Some (k, EXCLUSIVE) /\
    - len (current_line_before_cursor (cur_doc s)) <= k <= len (current_line_after_cursor (cur_doc s)) /\
    (k = 0 -> exists s1, step s (ViOp op reg m marg) argp = (0, s1) /\
              btext (sb s1) = btext (sb s) /\ sring s1 = sring s /\ sregs s1 = sregs s) /\
    (k <> 0 ->
     let x := bcur (sb s) + Z.min k 0 in
     let y := bcur (sb s) + Z.max k 0 in
     let span := firstn (Z.to_nat (y - x)) (skipn (Z.to_nat x) (btext (sb s))) in
     exists s1, step s (ViOp op reg m marg) argp = (0, s1) /\
       op_stored s s1 reg (mkclip span CHARACTERS) /\
       btext (sb s1) = (if op =? 1 then btext (sb s)
                        else firstn (Z.to_nat x) (btext (sb s)) ++ skipn (Z.to_nat y) (btext (sb s)))).
Proof.
  intros Hvi Hsel Hi Harg Hmarg Hop Hm Hreg arg.
  assert (Ha : 0 <= arg).
  { unfold arg. apply op_count_nonneg; [|exact Hmarg].
    destruct argp as [a|]; [|lia]. destruct (1000000 <=? a); lia. }
  assert (Hfix : match argp with Some _ => fix_vi_cursor s = s | None => True end)
    by (destruct argp; [apply Harg|exact I]).
  destruct (vi_op_inline s op reg m arg Hi Hop Hm Ha Hreg) as (k & Hk & Hr & H0 & H1).
  exists k. split; [exact Hk|]. split; [exact Hr|]. split.
  - intros Hk0. rewrite (step_vi_op s op reg m marg argp Hvi Hsel Hfix). cbv zeta. fold arg.
    rewrite (H0 Hk0). cbn [ok]. change (0 =? 0) with true. cbv iota.
    eexists. split; [reflexivity|]. cbn [with_prev sb sring sregs].
    destruct (fix_frame_any s) as (A & B & C). repeat split; assumption.
  - intros Hk0. cbv zeta. destruct (H1 Hk0) as (s' & E & St & Tx).
    rewrite (step_vi_op s op reg m marg argp Hvi Hsel Hfix). cbv zeta. fold arg. rewrite E.
    change (0 =? 0) with true. cbv iota.
    eexists. split; [reflexivity|]. cbn [with_prev sb].
    destruct (fix_frame_any s') as (A & B & C). split.
    + apply (op_stored_frame s s'); [exact B|exact C|exact St].
    + rewrite A. exact Tx.
Qed.
