(* Facts about the UTF-8 encoder/decoder model. *)
From Coq Require Import ZArith List Bool Lia ZifyBool.
From PTK Require Import Model.C13_Utf8.
Import ListNotations.
Open Scope Z_scope.

Ltac Zify.zify_post_hook ::= Z.to_euclidean_division_equations.

Lemma is_scalar_spec c :
  is_scalar c = true <-> 0 <= c < 1114112 /\ ~ (55296 <= c < 57344).
Proof. unfold is_scalar. lia. Qed.

(* every byte of an encoding is a byte; a byte below 0x80 occurs only as the
   one-byte encoding of itself: lead and continuation bytes are all >= 0x80 *)
Lemma enc_cp_bytes c b :
  is_scalar c = true -> In b (utf8_enc_cp c) ->
  0 <= b < 256 /\ (b < 128 -> c = b /\ utf8_enc_cp c = [b]).
Proof.
  intros Hs Hin. apply is_scalar_spec in Hs. unfold utf8_enc_cp in *.
  destruct (c <? 128) eqn:E1.
  - destruct Hin as [<-|[]]. split; [lia|]. intros _. split; reflexivity.
  - destruct (c <? 2048) eqn:E2.
    + destruct Hin as [<-|[<-|[]]]; split; lia.
    + destruct (c <? 65536) eqn:E3.
      * destruct Hin as [<-|[<-|[<-|[]]]]; split; lia.
      * destruct Hin as [<-|[<-|[<-|[<-|[]]]]]; split; lia.
Qed.

Lemma enc_cp_nonempty c : utf8_enc_cp c <> [].
Proof.
  unfold utf8_enc_cp.
  destruct (c <? 128); [discriminate|].
  destruct (c <? 2048); [discriminate|].
  destruct (c <? 65536); discriminate.
Qed.

Lemma enc_cp_head c :
  is_scalar c = true ->
  exists b r, utf8_enc_cp c = b :: r /\ (b < 128 -> c = b).
Proof.
  intros Hs. destruct (utf8_enc_cp c) as [|b r] eqn:E.
  - now apply enc_cp_nonempty in E.
  - exists b, r. split; [reflexivity|]. intros Hb.
    assert (Hin : In b (utf8_enc_cp c)) by (rewrite E; now left).
    destruct (enc_cp_bytes c b Hs Hin) as [_ H]. now apply H.
Qed.

(* decoding undoes encoding, one code point at a time, whatever follows *)
Lemma dec_enc_cp c rest :
  is_scalar c = true -> utf8_dec (utf8_enc_cp c ++ rest) = c :: utf8_dec rest.
Proof.
  intros Hs. apply is_scalar_spec in Hs. unfold utf8_enc_cp.
  destruct (c <? 128) eqn:E1.
  - cbn [app utf8_dec]. now rewrite E1.
  - destruct (c <? 2048) eqn:E2.
    + remember (192 + c / 64) as b0 eqn:Hb0. remember (128 + c mod 64) as b1 eqn:Hb1.
      cbn [app utf8_dec].
      destruct (b0 <? 128) eqn:T1; [lia|].
      destruct (b0 <? 194) eqn:T2; [lia|].
      destruct (b0 <? 224) eqn:T3; [|lia].
      unfold is_cont.
      destruct ((128 <=? b1) && (b1 <? 192)) eqn:T4; [|lia].
      f_equal. lia.
    + destruct (c <? 65536) eqn:E3.
      * remember (224 + c / 4096) as b0 eqn:Hb0.
        remember (128 + (c / 64) mod 64) as b1 eqn:Hb1.
        remember (128 + c mod 64) as b2 eqn:Hb2.
        cbn [app utf8_dec].
        destruct (b0 <? 128) eqn:T1; [lia|].
        destruct (b0 <? 194) eqn:T2; [lia|].
        destruct (b0 <? 224) eqn:T3; [lia|].
        destruct (b0 <? 240) eqn:T4; [|lia].
        assert (H2 : ok2_3 b0 b1 = true).
        { unfold ok2_3, is_cont. destruct (b1 <? 160) eqn:T5; lia. }
        rewrite H2. unfold is_cont.
        destruct ((128 <=? b2) && (b2 <? 192)) eqn:T6; [|lia].
        f_equal. lia.
      * remember (240 + c / 262144) as b0 eqn:Hb0.
        remember (128 + (c / 4096) mod 64) as b1 eqn:Hb1.
        remember (128 + (c / 64) mod 64) as b2 eqn:Hb2.
        remember (128 + c mod 64) as b3 eqn:Hb3.
        cbn [app utf8_dec].
        destruct (b0 <? 128) eqn:T1; [lia|].
        destruct (b0 <? 194) eqn:T2; [lia|].
        destruct (b0 <? 224) eqn:T3; [lia|].
        destruct (b0 <? 240) eqn:T4; [lia|].
        destruct (b0 <? 245) eqn:T5; [|lia].
        assert (H2 : ok2_4 b0 b1 = true).
        { unfold ok2_4, is_cont. destruct (b1 <? 144) eqn:T6; lia. }
        rewrite H2. unfold is_cont.
        destruct ((128 <=? b2) && (b2 <? 192)) eqn:T7; [|lia].
        destruct ((128 <=? b3) && (b3 <? 192)) eqn:T8; [|lia].
        f_equal. lia.
Qed.

Lemma dec_enc s rest :
  forallb is_scalar s = true -> utf8_dec (utf8_enc_raw s ++ rest) = s ++ utf8_dec rest.
Proof.
  induction s as [|c s IH]; intros H; [reflexivity|].
  cbn [forallb] in H. apply andb_true_iff in H as [Hc Hs].
  unfold utf8_enc_raw in *. cbn [flat_map]. rewrite <- app_assoc.
  rewrite dec_enc_cp by assumption. cbn [app]. now rewrite IH.
Qed.

Lemma dec_enc_nil s :
  forallb is_scalar s = true -> utf8_dec (utf8_enc_raw s) = s.
Proof.
  intros H. rewrite <- (app_nil_r (utf8_enc_raw s)). rewrite dec_enc by assumption.
  cbn [utf8_dec]. apply app_nil_r.
Qed.

(* a string without "\n" encodes to bytes without 0x0A *)
Lemma enc_no_lf s :
  forallb is_scalar s = true -> ~ In 10 s -> ~ In 10 (utf8_enc_raw s).
Proof.
  induction s as [|c s IH]; intros H Hn Hin; [exact Hin|].
  cbn [forallb] in H. apply andb_true_iff in H as [Hc Hs].
  unfold utf8_enc_raw in *. cbn [flat_map] in Hin. apply in_app_or in Hin as [Hin|Hin].
  - destruct (enc_cp_bytes c 10 Hc Hin) as [_ H]. destruct H as [H _]; [lia|].
    apply Hn. left. exact H.
  - apply IH; try assumption. intros H'. apply Hn. now right.
Qed.

Lemma dec_head_ascii b r : 0 <= b < 128 -> utf8_dec (b :: r) = b :: utf8_dec r.
Proof. intros H. cbn [utf8_dec]. destruct (b <? 128) eqn:E; [reflexivity|lia]. Qed.

(* the first decoded character is '+' exactly when the first byte is 0x2B *)
Lemma dec_head_not_plus b r :
  b <> 43 -> match utf8_dec (b :: r) with x :: _ => x <> 43 | [] => False end.
Proof.
  intros Hb. cbn [utf8_dec]. unfold REPL.
  destruct (b <? 128) eqn:E128; [exact Hb|].
  destruct (b <? 194) eqn:E194; [lia|].
  destruct (b <? 224) eqn:E224.
  { destruct r as [|b1 r1]; [lia|].
    unfold is_cont. destruct ((128 <=? b1) && (b1 <? 192)) eqn:E; lia. }
  destruct (b <? 240) eqn:E240.
  { destruct r as [|b1 r1]; [lia|].
    destruct (ok2_3 b b1) eqn:E; [|lia].
    destruct r1 as [|b2 r2]; [lia|].
    unfold ok2_3, is_cont in *.
    destruct ((128 <=? b2) && (b2 <? 192)) eqn:E2; [|lia].
    destruct (b1 <? 160) eqn:E3; lia. }
  destruct (b <? 245) eqn:E245; [|lia].
  destruct r as [|b1 r1]; [lia|].
  destruct (ok2_4 b b1) eqn:E; [|lia].
  destruct r1 as [|b2 r2]; [lia|].
  unfold ok2_4, is_cont in *.
  destruct ((128 <=? b2) && (b2 <? 192)) eqn:E2; [|lia].
  destruct r2 as [|b3 r3]; [lia|].
  destruct ((128 <=? b3) && (b3 <? 192)) eqn:E3; [|lia].
  destruct (b1 <? 144) eqn:E4; lia.
Qed.

(* ---- torn multi-byte tails ------------------------------------------------- *)
Lemma is_cont_ascii b : b < 128 -> is_cont b = false.
Proof. unfold is_cont. lia. Qed.

Lemma ok2_3_ascii b0 b : b < 128 -> ok2_3 b0 b = false.
Proof. intros H. unfold ok2_3. now rewrite is_cont_ascii. Qed.

Lemma ok2_4_ascii b0 b : b < 128 -> ok2_4 b0 b = false.
Proof. intros H. unfold ok2_4. now rewrite is_cont_ascii. Qed.

(* shape of the encodings *)
Lemma enc_shape c :
  is_scalar c = true ->
  (c < 128 /\ utf8_enc_cp c = [c]) \/
  (exists b0 b1, utf8_enc_cp c = [b0; b1] /\ 194 <= b0 < 224 /\ is_cont b1 = true) \/
  (exists b0 b1 b2, utf8_enc_cp c = [b0; b1; b2] /\ 224 <= b0 < 240 /\ ok2_3 b0 b1 = true /\ is_cont b2 = true) \/
  (exists b0 b1 b2 b3, utf8_enc_cp c = [b0; b1; b2; b3] /\ 240 <= b0 < 245 /\ ok2_4 b0 b1 = true /\
                       is_cont b2 = true /\ is_cont b3 = true).
Proof.
  intros Hs. apply is_scalar_spec in Hs. unfold utf8_enc_cp.
  destruct (c <? 128) eqn:E1; [left; split; [lia|reflexivity]|right].
  destruct (c <? 2048) eqn:E2.
  { left. eexists _, _. split; [reflexivity|]. unfold is_cont. split; lia. }
  right. destruct (c <? 65536) eqn:E3.
  { left. eexists _, _, _. split; [reflexivity|]. unfold ok2_3, is_cont.
    split; [lia|]. split; [|lia].
    destruct (128 + (c / 64) mod 64 <? 160) eqn:T; lia. }
  right. eexists _, _, _, _. split; [reflexivity|]. unfold ok2_4, is_cont.
  split; [lia|]. split; [|split; lia].
  destruct (128 + (c / 4096) mod 64 <? 144) eqn:T; lia.
Qed.

Ltac lead_tests b0 :=
  repeat match goal with
         | |- context [b0 <? ?k] => let T := fresh "T" in destruct (b0 <? k) eqn:T; try lia
         end.

(* A multi-byte sequence cut after 1..3 bytes and followed by an ASCII byte b
   (in a history file: the "\n" of the next write) decodes to ONE U+FFFD, and
   decoding resumes AT b: the byte is not swallowed.  At the end of the data
   the cut sequence alone gives one U+FFFD. *)
Theorem torn_tail_dec c q q' b rest :
  is_scalar c = true -> utf8_enc_cp c = q ++ q' -> q <> [] -> q' <> [] -> b < 128 ->
  utf8_dec (q ++ b :: rest) = REPL :: utf8_dec (b :: rest) /\ utf8_dec q = [REPL].
Proof.
  intros Hs E Hq Hq' Hb.
  pose proof (is_cont_ascii b Hb) as Hc.
  destruct (enc_shape c Hs) as [[_ H]|[(b0 & b1 & H & R0 & C1)|[(b0 & b1 & b2 & H & R0 & O1 & C2)|(b0 & b1 & b2 & b3 & H & R0 & O1 & C2 & C3)]]];
    rewrite H in E.
  - destruct q as [|x [|y q]]; [congruence| |discriminate E]. cbn [app] in E. injection E as _ E. now destruct Hq'.
  - destruct q as [|x [|y [|z q]]]; [congruence| | |discriminate E]; cbn [app] in E.
    + injection E as E0 _; subst x. cbn [app utf8_dec]. lead_tests b0. rewrite Hc. auto.
    + injection E as _ _ E. now destruct Hq'.
  - destruct q as [|x [|y [|z [|w q]]]]; [congruence| | | |discriminate E]; cbn [app] in E.
    + injection E as E0 _; subst x. cbn [app utf8_dec]. lead_tests b0. rewrite (ok2_3_ascii b0 b Hb). auto.
    + injection E as E0 E1 _; subst x y. cbn [app utf8_dec]. lead_tests b0. rewrite O1, Hc. auto.
    + injection E as _ _ _ E. now destruct Hq'.
  - destruct q as [|x [|y [|z [|w [|v q]]]]]; [congruence| | | | |discriminate E]; cbn [app] in E.
    + injection E as E0 _; subst x. cbn [app utf8_dec]. lead_tests b0. rewrite (ok2_4_ascii b0 b Hb). auto.
    + injection E as E0 E1 _; subst x y. cbn [app utf8_dec]. lead_tests b0. rewrite O1, Hc. auto.
    + injection E as E0 E1 E2 _; subst x y z. cbn [app utf8_dec]. lead_tests b0. rewrite O1, C2, Hc. auto.
    + injection E as _ _ _ _ E. now destruct Hq'.
Qed.

(* ... after any encodable text, as it happens in a history line *)
Corollary torn_line_dec s c q q' rest :
  forallb is_scalar s = true -> is_scalar c = true ->
  utf8_enc_cp c = q ++ q' -> q <> [] -> q' <> [] ->
  utf8_dec (utf8_enc_raw s ++ q ++ 10 :: rest) = s ++ REPL :: 10 :: utf8_dec rest /\
  utf8_dec (utf8_enc_raw s ++ q) = s ++ [REPL].
Proof.
  intros Hs Hc E Hq Hq'.
  destruct (torn_tail_dec c q q' 10 rest Hc E Hq Hq') as [H1 H2]; [lia|].
  rewrite !dec_enc by assumption. rewrite H1, H2.
  rewrite dec_head_ascii by lia. auto.
Qed.

(* The decoder is a total function by construction; it never produces more
   characters than it reads bytes and never produces nothing from something. *)
Lemma dec_length_aux n : forall bs, (length bs <= n)%nat ->
  (length (utf8_dec bs) <= length bs)%nat /\ (bs <> [] -> utf8_dec bs <> []).
Proof.
  induction n as [|n IH]; intros bs Hn.
  - destruct bs; [split; [cbn; lia|congruence]|cbn in Hn; lia].
  - destruct bs as [|b0 r]; [split; [cbn; lia|congruence]|].
    cbn [length] in Hn.
    assert (IHr : forall x, (length x <= length r)%nat -> (length (utf8_dec x) <= length x)%nat).
    { intros x Hx. apply IH. lia. }
    split; [|cbn [utf8_dec];
             repeat match goal with
                    | |- context [if ?t then _ else _] => destruct t
                    | |- context [match ?l with [] => _ | _ :: _ => _ end] => destruct l
                    end; discriminate].
    cbn [utf8_dec].
    destruct (b0 <? 128); [cbn [length]; specialize (IHr r); lia|].
    destruct (b0 <? 194); [cbn [length]; specialize (IHr r); lia|].
    destruct (b0 <? 224).
    { destruct r as [|b1 r1]; [cbn; lia|]. destruct (is_cont b1); cbn [length] in *.
      - specialize (IHr r1). cbn [length] in IHr. lia.
      - specialize (IHr (b1 :: r1)). cbn [length] in IHr. lia. }
    destruct (b0 <? 240).
    { destruct r as [|b1 r1]; [cbn; lia|]. destruct (ok2_3 b0 b1); cbn [length] in *.
      - destruct r1 as [|b2 r2]; [cbn; lia|]. destruct (is_cont b2); cbn [length] in *.
        + specialize (IHr r2). cbn [length] in IHr. lia.
        + specialize (IHr (b2 :: r2)). cbn [length] in IHr. lia.
      - specialize (IHr (b1 :: r1)). cbn [length] in IHr. lia. }
    destruct (b0 <? 245).
    { destruct r as [|b1 r1]; [cbn; lia|]. destruct (ok2_4 b0 b1); cbn [length] in *.
      - destruct r1 as [|b2 r2]; [cbn; lia|]. destruct (is_cont b2); cbn [length] in *.
        + destruct r2 as [|b3 r3]; [cbn; lia|]. destruct (is_cont b3); cbn [length] in *.
          * specialize (IHr r3). cbn [length] in IHr. lia.
          * specialize (IHr (b3 :: r3)). cbn [length] in IHr. lia.
        + specialize (IHr (b2 :: r2)). cbn [length] in IHr. lia.
      - specialize (IHr (b1 :: r1)). cbn [length] in IHr. lia. }
    cbn [length]. specialize (IHr r). lia.
Qed.

Theorem dec_total bs :
  (length (utf8_dec bs) <= length bs)%nat /\ (bs <> [] -> utf8_dec bs <> []).
Proof. apply (dec_length_aux (length bs)). lia. Qed.
