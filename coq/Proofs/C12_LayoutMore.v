(* C12 - nested splits, continued: the entry of _all_children that holds the
   idx-th child; every child's divided size is within the min..max it
   reported; drawing never raises. *)
From Coq Require Import ZArith List Bool Lia.
From PTK Require Import Lib.Sx Model.C12_Divide Model.C12_Layout
     Proofs.C12_Safety Proofs.C12_Gen Proofs.C12_Termination Proofs.C12_Fixed Proofs.C12_Cache
     Proofs.C12_Layout Proofs.C12_LayoutDraw.
Import ListNotations.
Open Scope Z_scope.

(* ------------------------------------------------------------------ *)
(* shape of _all_children *)

Section Shape.
  Context {T : Type}.
  Variables (pad d0 : T).

  Definition inter (cs : list T) : list T := flat_map (fun c => [c; pad]) cs.

  Lemma inter_length : forall cs, length (inter cs) = (2 * length cs)%nat.
  Proof. induction cs as [|c r IH]; cbn [inter flat_map app length] in *; [reflexivity|]. unfold inter in IH. rewrite IH. lia. Qed.

  Lemma inter_nth_even : forall cs idx, (idx < length cs)%nat -> nth (2 * idx) (inter cs) d0 = nth idx cs d0.
  Proof.
    induction cs as [|c r IH]; intros idx H; cbn [length] in H; [lia|].
    destruct idx as [|idx]; [reflexivity|].
    replace (2 * S idx)%nat with (S (S (2 * idx))) by lia. cbn [inter flat_map app nth].
    apply IH. lia.
  Qed.

  Lemma inter_nth_odd : forall cs idx, (idx < length cs)%nat -> nth (S (2 * idx)) (inter cs) d0 = pad.
  Proof.
    induction cs as [|c r IH]; intros idx H; cbn [length] in H; [lia|].
    destruct idx as [|idx]; [reflexivity|].
    replace (S (2 * S idx))%nat with (S (S (S (2 * idx)))) by lia. cbn [inter flat_map app nth].
    apply IH. lia.
  Qed.

  Lemma removelast_length : forall (l : list T), length (removelast l) = (length l - 1)%nat.
  Proof.
    induction l as [|a r IH]; [reflexivity|]. destruct r as [|b r']; [reflexivity|].
    change (removelast (a :: b :: r')) with (a :: removelast (b :: r')). cbn [length] in *. rewrite IH. lia.
  Qed.

  Lemma removelast_nth : forall (l : list T) k, (S k < length l)%nat -> nth k (removelast l) d0 = nth k l d0.
  Proof.
    induction l as [|a r IH]; intros k H; cbn [length] in H; [lia|].
    destruct r as [|b r']; [cbn [length] in H; lia|].
    change (removelast (a :: b :: r')) with (a :: removelast (b :: r')).
    destruct k as [|k]; [reflexivity|]. cbn [nth]. apply IH. cbn [length] in *. lia.
  Qed.
End Shape.

Lemma lead_cases : forall al, lead al = 0%nat \/ lead al = 1%nat.
Proof. intro al. unfold lead. destruct ((al =? 1) || (al =? 2)); auto. Qed.

Lemma all_children_shape : forall al pad cs,
  all_children al pad cs =
  removelast (repeat flex (lead al) ++ inter pad cs) ++ (if trail al then [flex] else []).
Proof.
  intros al pad cs. unfold all_children, lead, trail, inter.
  destruct ((al =? 1) || (al =? 2)); destruct ((al =? 1) || (al =? 0)); reflexivity.
Qed.

(* number of entries: children, the padding between them, the alignment windows *)
Lemma all_children_length : forall al pad cs, cs <> [] ->
  length (all_children al pad cs) = (lead al + 2 * length cs - 1 + (if trail al then 1 else 0))%nat.
Proof.
  intros al pad cs Hne. rewrite all_children_shape, app_length, removelast_length, app_length, repeat_length, inter_length.
  destruct (trail al); cbn [length]; lia.
Qed.

(* the idx-th child is entry kid_entry of _all_children ... *)
Lemma all_children_kid : forall al pad cs idx d0, (idx < length cs)%nat ->
  nth (kid_entry al idx) (all_children al pad cs) d0 = nth idx cs d0.
Proof.
  intros al pad cs idx d0 H. rewrite all_children_shape. unfold kid_entry.
  assert (Hl : (lead al + 2 * idx < length (removelast (repeat flex (lead al) ++ inter pad cs)))%nat).
  { rewrite removelast_length, app_length, repeat_length, inter_length. lia. }
  rewrite app_nth1 by exact Hl.
  rewrite removelast_nth by (rewrite app_length, repeat_length, inter_length; lia).
  rewrite app_nth2 by (rewrite repeat_length; lia). rewrite repeat_length.
  replace (lead al + 2 * idx - lead al)%nat with (2 * idx)%nat by lia.
  apply inter_nth_even. exact H.
Qed.

(* ... followed (unless it is the last child) by a padding window *)
Lemma all_children_pad : forall al pad cs idx d0, (S idx < length cs)%nat ->
  nth (S (kid_entry al idx)) (all_children al pad cs) d0 = pad.
Proof.
  intros al pad cs idx d0 H. rewrite all_children_shape. unfold kid_entry.
  assert (Hl : (S (lead al + 2 * idx) < length (removelast (repeat flex (lead al) ++ inter pad cs)))%nat).
  { rewrite removelast_length, app_length, repeat_length, inter_length. lia. }
  rewrite app_nth1 by exact Hl.
  rewrite removelast_nth by (rewrite app_length, repeat_length, inter_length; lia).
  rewrite app_nth2 by (rewrite repeat_length; lia). rewrite repeat_length.
  replace (S (lead al + 2 * idx) - lead al)%nat with (S (2 * idx)) by lia.
  apply inter_nth_odd. lia.
Qed.

(* ------------------------------------------------------------------ *)
(* each child is handed exactly its divided size, and that size is within
   the min..max the child reported *)

Theorem kid_size_bounds : forall fuel done al pad ds avail sizes idx,
  valid pad -> Forall valid ds -> (idx < length ds)%nat ->
  divide fuel done (all_children al pad ds) avail = Sizes sizes ->
  dmin (nth idx ds flex) <= nth (kid_entry al idx) sizes 0 <= dmax (nth idx ds flex) /\
  length sizes = length (all_children al pad ds) /\ (kid_entry al idx < length sizes)%nat.
Proof.
  intros fuel done al pad ds avail sizes idx Hp Hv Hi Hd.
  pose proof (all_children_valid al pad ds Hp Hv) as Hav.
  destruct (divide_safe _ _ _ _ _ Hav Hd) as (Hlen & _ & _ & Hmin & Hmax & _).
  assert (Hne : ds <> []) by (destruct ds; [cbn in Hi; lia|discriminate]).
  pose proof (all_children_length al pad ds Hne) as HL.
  pose proof (le_all_nth _ _ (kid_entry al idx) Hmin) as H1.
  pose proof (le_all_nth _ _ (kid_entry al idx) Hmax) as H2.
  unfold mins in H1. unfold maxs in H2.
  assert (Hk : (kid_entry al idx < length (all_children al pad ds))%nat)
    by (rewrite HL; unfold kid_entry; destruct (trail al); lia).
  rewrite (nth_indep (map dmin (all_children al pad ds)) 0 (dmin flex)) in H1 by (rewrite map_length; exact Hk).
  rewrite (nth_indep (map dmax (all_children al pad ds)) 0 (dmax flex)) in H2 by (rewrite map_length; exact Hk).
  rewrite map_nth in H1, H2. rewrite all_children_kid in H1, H2 by exact Hi.
  repeat split; lia.
Qed.

(* ------------------------------------------------------------------ *)
(* drawing a nested layout terminates: some fuel suffices and every larger
   fuel draws the same regions (never an exception) *)

Definition draws (wrf : nat -> tree -> Z -> Z -> Z -> Z -> list rect + Z) (k : tree) : Prop :=
  forall x y w h, exists f0 rs, forall fuel, (f0 <= fuel)%nat -> wrf fuel k x y w h = inl rs.

Lemma write_kids_stable : forall wrf o al x y w h sizes ks idx,
  Forall (draws wrf) ks ->
  exists f0 rs, forall fuel, (f0 <= fuel)%nat -> write_kids (wrf fuel) o al x y w h sizes ks idx = inl rs.
Proof.
  intros wrf o al x y w h sizes ks. induction ks as [|k r IH]; intros idx Hk.
  - exists O, []. reflexivity.
  - inversion Hk as [|k' r' Hk1 Hk2]; subst k' r'.
    destruct (IH (S idx) Hk2) as (f2 & rr & Hr).
    set (rc := entry_rect o 0 x y w h sizes (kid_entry al idx)).
    destruct (Hk1 (rx rc) (ry rc) (rw rc) (rh rc)) as (f1 & rk_ & H1).
    destruct (Nat.ltb (kid_entry al idx) (length sizes)) eqn:El.
    + eexists (Nat.max f1 f2), _. intros fuel Hf. cbn [write_kids]. rewrite El. fold rc.
      rewrite (H1 fuel) by lia. rewrite (Hr fuel) by lia. reflexivity.
    + exists O, []. intros fuel _. cbn [write_kids]. rewrite El. reflexivity.
Qed.

Lemma place_stable : forall wrf o al x y w h sizes kids,
  Forall (draws wrf) kids ->
  exists f0 rs, forall fuel, (f0 <= fuel)%nat -> place (wrf fuel) o al x y w h sizes kids = inl rs.
Proof.
  intros wrf o al x y w h sizes kids Hk.
  destruct (write_kids_stable wrf o al x y w h sizes kids O Hk) as (f0 & mid & Hm).
  eexists f0, _. intros fuel Hf. unfold place. rewrite (Hm fuel Hf). reflexivity.
Qed.

Theorem write_total : forall done t, wf t -> draws (fun fuel => write fuel done) t.
Proof.
  intros done. induction t as [id wd hd|o al pad kids IH|id wd len|ow oh t IH] using tree_ind'; intros Hwf x y w h;
    [| |exists O, [mkrect id x y w h]; reflexivity
     |cbn [wf] in Hwf; destruct (IH (proj2 (proj2 Hwf)) x y w h) as (f0 & rs & H); exists f0, rs; intros fuel Hf; cbn [write]; apply H, Hf].
  - exists O, [mkrect id x y w h]. reflexivity.
  - apply wf_node in Hwf. destruct Hwf as [Hp Hk].
    assert (Hkids : Forall (draws (fun fuel => write fuel done)) kids).
    { rewrite Forall_forall in *. intros k Hin. apply IH; auto. }
    assert (IHph : Forall (fun k => forall wd, exists f0, ph_stable k wd f0) kids).
    { rewrite Forall_forall in *. intros k Hin wd. apply ph_total; auto. }
    assert (Hall : Forall (fun r => exists d, r = RDim d /\ valid d) (map pw kids)).
    { apply Forall_forall. intros r Hin. apply in_map_iff in Hin. destruct Hin as (k & <- & Hin).
      rewrite Forall_forall in Hk. apply pw_valid; auto. }
    destruct (o =? 0) eqn:Eo.
    + (* HSplit *)
      destruct kids as [|k0 kr] eqn:Ek.
      * destruct (place_stable (fun fuel => write fuel done) o al x y w h [] [] Hkids) as (f0 & rs & H0).
        exists f0, rs. intros fuel Hf. cbn [write]. rewrite Eo. apply H0, Hf.
      * rewrite <- Ek in *.
        assert (Hex : Forall (fun k => exists f, ph_stable k w f) kids)
          by (eapply Forall_impl; [|exact IHph]; intros k Hk'; apply Hk').
        destruct (Forall_exists_fuel _ (fun k f => ph_stable k w f) kids
                    (fun k f f' => ph_stable_mono k w f f') Hex) as (f1 & Hf1).
        destruct (collect_rep_map_stable tree (fun fuel k => ph fuel k w) kids f1 Hf1) as (hds & Hv & Hc).
        pose proof (all_children_valid al pad hds Hp Hv) as Hav.
        set (fd := divide_fuel (all_children al pad hds) h).
        destruct (divide_total done (all_children al pad hds) h fd Hav (le_n _)) as [(Hts & _)|(l & Hl & _)].
        -- exists (Nat.max f1 fd), [mkrect (-4) x y w h]. intros fuel Hf. cbn [write]. rewrite Eo, Ek. rewrite <- Ek.
           rewrite (Hc fuel) by lia.
           rewrite (divide_mono fd fuel _ _ _ _ Hts) by (try discriminate; lia). reflexivity.
        -- destruct (place_stable (fun fuel => write fuel done) o al x y w h l kids Hkids) as (f2 & rs & H2).
           exists (Nat.max (Nat.max f1 fd) f2), rs. intros fuel Hf. cbn [write]. rewrite Eo, Ek. rewrite <- Ek.
           rewrite (Hc fuel) by lia.
           rewrite (divide_mono fd fuel _ _ _ _ Hl) by (try discriminate; lia). apply H2. lia.
    + (* VSplit *)
      destruct kids as [|k0 kr] eqn:Ek.
      * exists O, []. intros fuel _. cbn [write]. rewrite Eo. reflexivity.
      * rewrite <- Ek in *.
        destruct (collect_rep_dims _ Hall) as (wds & Hc & Hv & _).
        pose proof (all_children_valid al pad wds Hp Hv) as Hav.
        set (fd := divide_fuel (all_children al pad wds) w).
        destruct (divide_total false (all_children al pad wds) w fd Hav (le_n _)) as [(Hts & _)|(l & Hl & _)].
        -- exists fd, [mkrect (-4) x y w h]. intros fuel Hf. cbn [write]. rewrite Eo, Ek. rewrite <- Ek. rewrite Hc.
           rewrite (divide_mono fd fuel _ _ _ _ Hts) by (try discriminate; lia). reflexivity.
        -- assert (Hex : Forall (fun p => exists f, ph_stable (fst p) (nth (kid_entry al (snd p)) l 0) f)
                                (combine kids (seq O (length kids)))).
           { apply Forall_forall. intros [k j] Hin. cbn [fst snd]. apply in_combine_l in Hin.
             rewrite Forall_forall in IHph. apply IHph; assumption. }
           destruct (Forall_exists_fuel _ (fun p f => ph_stable (fst p) (nth (kid_entry al (snd p)) l 0) f) _
                       (fun p f f' => ph_stable_mono _ _ f f') Hex) as (f1 & Hf1).
           destruct (collect_rep_map_stable _ (fun fuel p => ph fuel (fst p) (nth (kid_entry al (snd p)) l 0)) _ f1 Hf1)
             as (hds & Hvh & Hch).
           destruct (place_stable (fun fuel => write fuel done) o al x y w h l kids Hkids) as (f2 & rs & H2).
           exists (Nat.max (Nat.max f1 fd) f2), rs. intros fuel Hf. cbn [write]. rewrite Eo, Ek. rewrite <- Ek. rewrite Hc.
           rewrite (divide_mono fd fuel _ _ _ _ Hl) by (try discriminate; lia).
           rewrite ph_kids_as_map, (Hch fuel) by lia. apply H2. lia.
Qed.
