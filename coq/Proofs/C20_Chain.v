(* C20 - the run-in-terminal chain of futures (in_terminal): for EVERY label
   list, sections start in submission order, one at a time. *)
From Coq Require Import ZArith List Bool Lia Arith.
From PTK Require Import Lib.Sx Model.C20_StdoutProxy.
Import ListNotations.
Open Scope nat_scope.

Definition pred_opt (k : nat) : option nat := match k with O => None | S p => Some p end.

Fixpoint wait_ok (k : nat) (w : list sec) : Prop :=
  match w with
  | [] => True
  | x :: r => s_own x = k /\ s_prev x = pred_opt k /\ wait_ok (S k) r
  end.

(* k = number of sections started so far = the id the next one to start has *)
Record CI (c : chain) : Prop := mkCI {
  ci_started : started c = seq 0 (length (started c));
  ci_done : forall d, In d (donef c) -> d < length (started c);
  ci_wait : wait_ok (length (started c)) (waitq c);
  ci_next : nextf c = length (started c) + length (waitq c);
  ci_last : lastf c = match nextf c with O => None | S n => Some n end;
  ci_active : match active c with
              | Some a => S a = length (started c) /\ ~ In a (donef c) /\
                          forall j, j < a -> In j (donef c)
              | None => forall j, j < length (started c) -> In j (donef c)
              end
}.

Lemma fdone_some : forall c p, fdone c (Some p) = true <-> In p (donef c).
Proof.
  intros c p. unfold fdone. rewrite existsb_exists. split.
  - intros [x [Hin He]]. apply Nat.eqb_eq in He. now subst.
  - intros H. exists p. split; [assumption|apply Nat.eqb_refl].
Qed.

Lemma wait_ok_app : forall w k x,
  wait_ok k w -> s_own x = k + length w -> s_prev x = pred_opt (k + length w) ->
  wait_ok k (w ++ [x]).
Proof.
  induction w as [|y w IH]; intros k x Hw Ho Hp; cbn [app wait_ok length] in *.
  - rewrite Nat.add_0_r in *. repeat split; assumption.
  - destruct Hw as [H1 [H2 H3]]. repeat split; try assumption.
    apply IH; [assumption| |].
    + rewrite Ho. lia.
    + rewrite Hp. f_equal. lia.
Qed.

Lemma wait_ok_nth : forall w k i x,
  wait_ok k w -> nth_error w i = Some x ->
  s_own x = k + i /\ s_prev x = pred_opt (k + i).
Proof.
  induction w as [|y w IH]; intros k i x Hw Hn.
  - destruct i; discriminate.
  - cbn [wait_ok] in Hw. destruct Hw as [H1 [H2 H3]]. destruct i as [|i]; cbn [nth_error] in Hn.
    + injection Hn as <-. rewrite Nat.add_0_r. split; assumption.
    + destruct (IH _ _ _ H3 Hn) as [A B]. split; [lia|]. rewrite B. f_equal. lia.
Qed.

(* a section starting as number k = length started, nobody active *)
Lemma start_ok : forall run x c o,
  started c = seq 0 (length (started c)) ->
  (forall d, In d (donef c) -> d < length (started c)) ->
  wait_ok (S (length (started c))) (waitq c) ->
  nextf c = S (length (started c)) + length (waitq c) ->
  lastf c = match nextf c with O => None | S n => Some n end ->
  active c = None ->
  (forall j, j < length (started c) -> In j (donef c)) ->
  s_own x = length (started c) ->
  CI (fst (start_sec run x c o)).
Proof.
  intros run x c o Hs Hd Hw Hn Hl Ha Hall Hx. unfold start_sec.
  destruct (s_pay x); cbn [fst]; constructor;
    cbn [started donef waitq nextf lastf active]; rewrite ?app_length; cbn [length];
    rewrite ?Nat.add_1_r, ?Hx.
  - rewrite seq_S, <- Hs. reflexivity.
  - intros d [E|Hin]; [lia|]. specialize (Hd d Hin). lia.
  - assumption.
  - lia.
  - assumption.
  - rewrite Ha. intros j Hj. destruct (Nat.eq_dec j (length (started c))) as [E|E].
    + left. now symmetry.
    + right. apply Hall. lia.
  - rewrite seq_S, <- Hs. reflexivity.
  - intros d Hin. specialize (Hd d Hin). lia.
  - assumption.
  - lia.
  - assumption.
  - split; [reflexivity|]. split.
    + intros Hin. specialize (Hd _ Hin). lia.
    + assumption.
Qed.

(* when the predecessor of the next id is done, nothing waits and nobody is active *)
Lemma idle_when_last_done : forall c,
  CI c -> fdone c (lastf c) = true ->
  waitq c = [] /\ nextf c = length (started c) /\ active c = None /\
  (forall j, j < length (started c) -> In j (donef c)).
Proof.
  intros c I F. destruct I as [Hs Hd Hw Hn Hl Ha]. rewrite Hl in F.
  destruct (nextf c) as [|n] eqn:En.
  - assert (length (started c) = 0 /\ length (waitq c) = 0) as [K W] by lia.
    split; [now apply length_zero_iff_nil|]. split; [lia|].
    destruct (active c) as [a|]; [destruct Ha; lia|]. split; [reflexivity|assumption].
  - apply fdone_some in F. specialize (Hd _ F).
    assert (length (waitq c) = 0 /\ length (started c) = S n) as [W K] by lia.
    split; [now apply length_zero_iff_nil|]. split; [lia|].
    destruct (active c) as [a|].
    + destruct Ha as [A1 [A2 A3]]. assert (a = n) by lia. subst. contradiction.
    + split; [reflexivity|assumption].
Qed.

Lemma submit_CI : forall run hold p c o, CI c -> CI (fst (submit run hold p c o)).
Proof.
  intros run hold p c o I. unfold submit. destruct (fdone c (lastf c) && negb hold) eqn:FH.
  - apply andb_true_iff in FH. destruct FH as [F _].
    destruct (idle_when_last_done c I F) as [W [N [A All]]].
    destruct I as [Hs Hd Hw Hn Hl Ha].
    apply start_ok; cbn [started donef waitq nextf lastf active s_own]; try assumption.
    + rewrite W. exact I.
    + rewrite W. cbn [length]. lia.
    + reflexivity.
  - destruct I as [Hs Hd Hw Hn Hl Ha]. cbn [fst].
    constructor; cbn [started donef waitq nextf lastf active]; try assumption.
    + apply wait_ok_app; cbn [s_own s_prev]; [assumption|lia|].
      rewrite Hl, Hn. reflexivity.
    + rewrite app_length. cbn [length]. lia.
    + reflexivity.
Qed.

Lemma remove_nth_0 : forall {T} (x : T) w, remove_nth 0 (x :: w) = w.
Proof. reflexivity. Qed.

(* only the head of the waiting list can be woken, and only when nobody is active *)
Lemma wake_head : forall c i x,
  CI c -> nth_error (waitq c) i = Some x -> fdone c (s_prev x) = true ->
  i = 0 /\ active c = None /\ s_own x = length (started c) /\
  (forall j, j < length (started c) -> In j (donef c)).
Proof.
  intros c i x I Hn F. destruct I as [Hs Hd Hw Hnx Hl Ha].
  destruct (wait_ok_nth _ _ _ _ Hw Hn) as [O P1].
  rewrite P1 in F. destruct (length (started c) + i) as [|p] eqn:E; cbn [pred_opt] in F.
  - assert (i = 0 /\ length (started c) = 0) as [E1 E2] by lia. subst i. split; [reflexivity|].
    destruct (active c) as [a|]; [destruct Ha; lia|].
    split; [reflexivity|]. split; [lia|assumption].
  - apply fdone_some in F. pose proof (Hd _ F) as Lt.
    assert (i = 0) by lia. subst i. split; [reflexivity|].
    destruct (active c) as [a|].
    + destruct Ha as [A1 [A2 A3]]. assert (a = p) by lia. subst. contradiction.
    + split; [reflexivity|]. split; [lia|assumption].
Qed.

Lemma wake_CI : forall run c i x o,
  CI c -> nth_error (waitq c) i = Some x -> fdone c (s_prev x) = true ->
  CI (fst (start_sec run x
        (mkch (nextf c) (lastf c) (donef c) (remove_nth i (waitq c)) (active c) (started c)) o)).
Proof.
  intros run c i x o I Hn F. destruct (wake_head c i x I Hn F) as [E [A [O All]]]. subst i.
  destruct I as [Hs Hd Hw Hnx Hl Ha].
  destruct (waitq c) as [|y w] eqn:Ew; [discriminate|]. cbn [nth_error] in Hn. inversion Hn; subst y.
  cbn [wait_ok] in Hw. destruct Hw as [_ [_ Hw]].
  apply start_ok; cbn [started donef waitq nextf lastf active remove_nth]; try assumption.
  cbn [length] in Hnx. lia.
Qed.

Lemma extend_CI : forall c own,
  CI c -> active c = Some own ->
  CI (mkch (nextf c) (lastf c) (own :: donef c) (waitq c) None (started c)).
Proof.
  intros c own I A. destruct I as [Hs Hd Hw Hn Hl Ha]. rewrite A in Ha. destruct Ha as [A1 [A2 A3]].
  constructor; cbn [started donef waitq nextf lastf active]; try assumption.
  - intros d [E|Hin]; [lia|now apply Hd].
  - intros j Hj. destruct (Nat.eq_dec j own) as [E|E]; [left; now symmetry|right; apply A3; lia].
Qed.

Lemma after_start_wait : forall run x k, cprwait (after_start run x k) = cprwait k.
Proof.
  intros run x k. unfold after_start, request. destruct (s_pay x); [|reflexivity].
  destruct (cpron k && run && (cprsup k || Nat.eqb (cprq k) 0)); reflexivity.
Qed.

Lemma start_sec_waitq : forall run x c o, waitq (fst (start_sec run x c o)) = waitq c.
Proof. intros. unfold start_sec. destruct (s_pay x); reflexivity. Qed.

Lemma start_sec_done : forall run x c o d, In d (donef c) -> In d (donef (fst (start_sec run x c o))).
Proof. intros run x c o d H. unfold start_sec. destruct (s_pay x); cbn [fst donef]; [right|]; exact H. Qed.

(* the head of waitq may leave: resume / wake of the head *)
Lemma pop_CI : forall run c x w o,
  CI c -> waitq c = x :: w -> fdone c (s_prev x) = true ->
  CI (fst (start_sec run x (mkch (nextf c) (lastf c) (donef c) w (active c) (started c)) o)).
Proof.
  intros run c x w o I W F.
  assert (Hn : nth_error (waitq c) 0 = Some x) by (rewrite W; reflexivity).
  pose proof (wake_CI run c 0 x o I Hn F) as H. rewrite W in H. exact H.
Qed.

Lemma submit_wait : forall run hold p c o,
  fdone c (lastf c) && negb hold = false ->
  fst (submit run hold p c o) =
    mkch (S (nextf c)) (Some (nextf c)) (donef c) (waitq c ++ [mksec (lastf c) (nextf c) p]) (active c) (started c)
  /\ snd (submit run hold p c o) = o.
Proof. intros run hold p c o H. unfold submit. rewrite H. split; reflexivity. Qed.

Lemma resume_facts : forall run rq c k o x w,
  CI c -> waitq c = x :: w -> fdone c (s_prev x) = true ->
  CI (fst (fst (resume run rq c k o))) /\ cprwait (snd (fst (resume run rq c k o))) = false.
Proof.
  intros run rq c k o x w I W F. unfold resume. rewrite W.
  pose proof (pop_CI run c x w o I W F) as H.
  destruct (start_sec run x _ o) as [c' o']. cbn [fst snd] in *. split; [exact H|].
  rewrite after_start_wait. reflexivity.
Qed.

Lemma submit_cpr_wait : forall s p c' o',
  CI (ch s) ->
  (cprwait (cp s) = true -> exists x w, waitq (ch s) = x :: w /\ fdone (ch s) (s_prev x) = true) ->
  submit (running (en s)) (cpr_pending (cp s)) p (ch s) (out s) = (c', o') ->
  forall rq, cprwait (submit_cpr rq p (ch s) (cp s)) = true ->
  exists x w, waitq c' = x :: w /\ fdone c' (s_prev x) = true.
Proof.
  intros s p c' o' I Wt E rq. unfold submit_cpr. destruct (fdone (ch s) (lastf (ch s))) eqn:F.
  - destruct (idle_when_last_done (ch s) I F) as [W _].
    destruct (cpr_pending (cp s)) eqn:P.
    + intros _. destruct (submit_wait (running (en s)) true p (ch s) (out s)) as [H1 _].
      { rewrite F. reflexivity. }
      rewrite E in H1. cbn [fst] in H1. subst c'. cbn [waitq]. rewrite W. cbn [app].
      eexists. exists []. split; [reflexivity|]. cbn [s_prev]. exact F.
    + rewrite after_start_wait. intros Hw. destruct (Wt Hw) as [x [w [W' _]]]. rewrite W in W'. discriminate.
  - intros Hw. destruct (Wt Hw) as [x [w [W Fx]]].
    destruct (submit_wait (running (en s)) (cpr_pending (cp s)) p (ch s) (out s)) as [H1 _].
    { rewrite F. reflexivity. }
    rewrite E in H1. cbn [fst] in H1. subst c'. cbn [waitq]. rewrite W. cbn [app].
    exists x. eexists. split; [reflexivity|]. exact Fx.
Qed.

(* state invariant: the chain invariant, and a section sitting in
   wait_for_cpr_responses() is the head of waitq with its predecessor done *)
Definition SI (s : st) : Prop :=
  CI (ch s) /\
  (cprwait (cp s) = true -> exists x w, waitq (ch s) = x :: w /\ fdone (ch s) (s_prev x) = true).

Lemma fdone_mono : forall c c' o, (forall d, In d (donef c) -> In d (donef c')) ->
  fdone c o = true -> fdone c' o = true.
Proof.
  intros c c' [p|] H F; [|reflexivity]. apply fdone_some. apply H. now apply fdone_some.
Qed.

Lemma SI_step : forall s l, SI s -> SI (step s l).
Proof.
  intros s l [I Wt]. destruct l; cbn [step]; try (split; assumption).
  - (* FDeliver *)
    destruct (fth (px s)) as [| | |acc dn [k|]| |]; try (split; assumption).
    destruct (Nat.eqb k (lid (en s)) && negb (lclosed (en s))); split; assumption.
  - destruct (negb (app (en s)) && negb (running (en s))); [|split; assumption].
    split; [assumption|]. cbn [cp ch]. unfold request.
    destruct (cpron (cp s) && true && (cprsup (cp s) || Nat.eqb (cprq (cp s)) 0)); assumption.
  - destruct (app (en s) && running (en s)); split; assumption.
  - destruct (app (en s) && negb (running (en s)) && fdone (ch s) (lastf (ch s)) && Nat.eqb (cprq (cp s)) 0); split; assumption.
  - destruct (negb (app (en s)) && negb (lclosed (en s))); split; assumption.
  - (* LoopStep *)
    unfold loop_step.
    destruct (lclosed (en s)); [split; assumption|]. destruct (loopq (en s)); [split; assumption|].
    destruct (get_app_or_none _ _ && (running (en s) || negb (fdone (ch s) (lastf (ch s))))); [|split; assumption].
    pose proof (submit_CI (running (en s)) (cpr_pending (cp s)) (PWrite t) (ch s) (out s) I) as H.
    destruct (submit (running (en s)) (cpr_pending (cp s)) (PWrite t) (ch s) (out s)) as [c' o'] eqn:E.
    split; [exact H|]. cbn [cp ch]. apply (submit_cpr_wait s (PWrite t) c' o' I Wt E).
  - destruct (app (en s) && running (en s) && _); split; assumption.
  - (* ExtBegin *)
    destruct (app (en s) && running (en s)); [|split; assumption].
    pose proof (submit_CI (running (en s)) (cpr_pending (cp s)) PExt (ch s) (out s) I) as H.
    destruct (submit (running (en s)) (cpr_pending (cp s)) PExt (ch s) (out s)) as [c' o'] eqn:E.
    split; [exact H|]. cbn [cp ch]. apply (submit_cpr_wait s PExt c' o' I Wt E).
  - (* ExtEnd *)
    destruct (active (ch s)) as [own|] eqn:A; [|split; assumption]. split; [now apply extend_CI|].
    cbn [cp ch waitq]. unfold request.
    destruct (cpron (cp s) && negb (isdone (en s)) && (cprsup (cp s) || Nat.eqb (cprq (cp s)) 0)); cbn [cprwait];
      intros Hw; destruct (Wt Hw) as [x [w [W F]]]; exists x, w; (split; [assumption|]);
      (eapply fdone_mono; [|exact F]); cbn [donef]; intros d Hd; right; exact Hd.
  - (* Wake *)
    destruct (nth_error (waitq (ch s)) i) as [x|] eqn:Hn; [|split; assumption].
    destruct (fdone (ch s) (s_prev x) && negb (cprwait (cp s))) eqn:FW; [|split; assumption].
    apply andb_true_iff in FW. destruct FW as [F NW]. apply negb_true_iff in NW.
    destruct (cpr_pending (cp s)).
    + split; [assumption|]. cbn [cp ch set_wait cprwait]. intros _.
      destruct (wake_head (ch s) i x I Hn F) as [E _]. subst i.
      destruct (waitq (ch s)) as [|y w]; [discriminate|]. cbn [nth_error] in Hn. injection Hn as ->.
      exists x, w. split; [reflexivity|assumption].
    + pose proof (wake_CI (running (en s)) (ch s) i x (out s) I Hn F) as H.
      destruct (start_sec _ _ _ _) as [c' o']. split; [exact H|].
      cbn [cp ch]. rewrite after_start_wait, NW. discriminate.
  - (* CprAnswer *)
    destruct (app (en s) && cpron (cp s) && negb (Nat.eqb (cprq (cp s)) 0) && _); [|split; assumption].
    destruct (cprwait (cp s) && _) eqn:G.
    + apply andb_true_iff in G. destruct G as [G _]. destruct (Wt G) as [x [w [W F]]].
      match goal with |- context [resume ?r ?q ?c ?k ?o] =>
        pose proof (resume_facts r q c k o x w I W F) as [H1 H2]; destruct (resume r q c k o) as [[c' k'] o'] end.
      cbn [fst snd] in *. split; [exact H1|]. cbn [cp]. rewrite H2. discriminate.
    + split; [assumption|]. exact Wt.
  - (* CprTimeout *)
    destruct (negb (Nat.eqb (cprq (cp s)) 0) && _); [|split; assumption].
    destruct (cprwait (cp s)) eqn:G.
    + destruct (Wt eq_refl) as [x [w [W F]]].
      match goal with |- context [resume ?r ?q ?c ?k ?o] =>
        pose proof (resume_facts r q c k o x w I W F) as [H1 H2]; destruct (resume r q c k o) as [[c' k'] o'] end.
      cbn [fst snd] in *. split; [exact H1|]. cbn [cp]. rewrite H2. discriminate.
    + split; [assumption|]. cbn [cp cprwait]. intros Hc. discriminate.
  - destruct (patched (en s)); split; assumption.
  - destruct (patched (en s)); split; assumption.
  - destruct (app (en s) && running (en s) && negb (isdone (en s))); split; assumption.
Qed.

Lemma SI_init : forall c r, SI (init2 c r).
Proof.
  intros c r. split.
  - constructor; cbn; try reflexivity; try tauto; intros; lia.
  - cbn. discriminate.
Qed.

Lemma CI_init : forall c, CI (ch (init c)).
Proof. intros c. apply (SI_init c false). Qed.

Lemma SI_run : forall ls s, SI s -> SI (run s ls).
Proof.
  induction ls as [|l ls IH]; intros s I; [assumption|].
  change (run s (l :: ls)) with (run (step s l) ls). apply IH. now apply SI_step.
Qed.

Lemma CI_run2 : forall ls c r, CI (ch (run (init2 c r) ls)).
Proof. intros. apply SI_run. apply SI_init. Qed.

(* sections start in submission order: the n-th section to start is the one
   submitted n-th (ids are handed out in submission order) *)
Lemma chain_fifo : forall c r ls,
  let s := run (init2 c r) ls in started (ch s) = seq 0 (length (started (ch s))).
Proof. intros c r ls. cbn zeta. apply ci_started. apply CI_run2. Qed.
