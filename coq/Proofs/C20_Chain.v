(* C20 - the run-in-terminal chain of futures (in_terminal): for EVERY label
   list, sections start in submission order, one at a time. *)
From Coq Require Import ZArith List Bool Lia Arith.
From PTK Require Import Lib.Sx Model.C20_StdoutProxy.
Import ListNotations.
Open Scope nat_scope.

Fixpoint wait_ok (k : nat) (w : list sec) : Prop :=
  match w with
  | [] => True
  | x :: r => s_own x = k /\ (exists p, s_prev x = Some p /\ S p = k) /\ wait_ok (S k) r
  end.

(* k = number of sections started so far = the id the next one to start has *)
Record CI (c : chain) : Prop := mkCI {
  ci_started : started c = seq 0 (length (started c));
  ci_done : forall d, In d (donef c) -> d < length (started c);
  ci_wait : wait_ok (length (started c)) (waitq c);
  ci_next : nextf c = length (started c) + length (waitq c);
  ci_last : lastf c = match nextf c with O => None | S n => Some n end;
  ci_active : match active c with
              | Some a => S a = length (started c) /\ ~ In a (donef c) /\
                          forall j, j < a -> In j (donef c)
              | None => forall j, j < length (started c) -> In j (donef c)
              end
}.

Lemma fdone_some : forall c p, fdone c (Some p) = true <-> In p (donef c).
Proof.
  intros c p. unfold fdone. rewrite existsb_exists. split.
  - intros [x [Hin He]]. apply Nat.eqb_eq in He. now subst.
  - intros H. exists p. split; [assumption|apply Nat.eqb_refl].
Qed.

Lemma wait_ok_app : forall w k x,
  wait_ok k w -> s_own x = k + length w ->
  (exists p, s_prev x = Some p /\ S p = k + length w) ->
  wait_ok k (w ++ [x]).
Proof.
  induction w as [|y w IH]; intros k x Hw Ho Hp; cbn [app wait_ok length] in *.
  - rewrite Nat.add_0_r in *. repeat split; assumption.
  - destruct Hw as [H1 [H2 H3]]. repeat split; try assumption.
    apply IH; [assumption| |].
    + rewrite Ho. lia.
    + destruct Hp as [p [Hp1 Hp2]]. exists p. split; [assumption|lia].
Qed.

Lemma wait_ok_nth : forall w k i x,
  wait_ok k w -> nth_error w i = Some x ->
  s_own x = k + i /\ exists p, s_prev x = Some p /\ S p = k + i.
Proof.
  induction w as [|y w IH]; intros k i x Hw Hn.
  - destruct i; discriminate.
  - cbn [wait_ok] in Hw. destruct Hw as [H1 [H2 H3]]. destruct i as [|i]; cbn [nth_error] in Hn.
    + injection Hn as <-. rewrite Nat.add_0_r. split; assumption.
    + destruct (IH _ _ _ H3 Hn) as [A [p [B C]]]. split; [lia|]. exists p. split; [assumption|lia].
Qed.

(* a section starting as number k = length started, nobody active *)
Lemma start_ok : forall run x c o,
  started c = seq 0 (length (started c)) ->
  (forall d, In d (donef c) -> d < length (started c)) ->
  wait_ok (S (length (started c))) (waitq c) ->
  nextf c = S (length (started c)) + length (waitq c) ->
  lastf c = match nextf c with O => None | S n => Some n end ->
  active c = None ->
  (forall j, j < length (started c) -> In j (donef c)) ->
  s_own x = length (started c) ->
  CI (fst (start_sec run x c o)).
Proof.
  intros run x c o Hs Hd Hw Hn Hl Ha Hall Hx. unfold start_sec.
  destruct (s_pay x); cbn [fst]; constructor;
    cbn [started donef waitq nextf lastf active]; rewrite ?app_length; cbn [length];
    rewrite ?Nat.add_1_r, ?Hx.
  - rewrite seq_S, <- Hs. reflexivity.
  - intros d [E|Hin]; [lia|]. specialize (Hd d Hin). lia.
  - assumption.
  - lia.
  - assumption.
  - rewrite Ha. intros j Hj. destruct (Nat.eq_dec j (length (started c))) as [E|E].
    + left. now symmetry.
    + right. apply Hall. lia.
  - rewrite seq_S, <- Hs. reflexivity.
  - intros d Hin. specialize (Hd d Hin). lia.
  - assumption.
  - lia.
  - assumption.
  - split; [reflexivity|]. split.
    + intros Hin. specialize (Hd _ Hin). lia.
    + assumption.
Qed.

(* when the predecessor of the next id is done, nothing waits and nobody is active *)
Lemma idle_when_last_done : forall c,
  CI c -> fdone c (lastf c) = true ->
  waitq c = [] /\ nextf c = length (started c) /\ active c = None /\
  (forall j, j < length (started c) -> In j (donef c)).
Proof.
  intros c I F. destruct I as [Hs Hd Hw Hn Hl Ha]. rewrite Hl in F.
  destruct (nextf c) as [|n] eqn:En.
  - assert (length (started c) = 0 /\ length (waitq c) = 0) as [K W] by lia.
    split; [now apply length_zero_iff_nil|]. split; [lia|].
    destruct (active c) as [a|]; [destruct Ha; lia|]. split; [reflexivity|assumption].
  - apply fdone_some in F. specialize (Hd _ F).
    assert (length (waitq c) = 0 /\ length (started c) = S n) as [W K] by lia.
    split; [now apply length_zero_iff_nil|]. split; [lia|].
    destruct (active c) as [a|].
    + destruct Ha as [A1 [A2 A3]]. assert (a = n) by lia. subst. contradiction.
    + split; [reflexivity|assumption].
Qed.

Lemma submit_CI : forall run p c o, CI c -> CI (fst (submit run p c o)).
Proof.
  intros run p c o I. unfold submit. destruct (fdone c (lastf c)) eqn:F.
  - destruct (idle_when_last_done c I F) as [W [N [A All]]].
    destruct I as [Hs Hd Hw Hn Hl Ha].
    apply start_ok; cbn [started donef waitq nextf lastf active s_own]; try assumption.
    + rewrite W. exact I.
    + rewrite W. cbn [length]. lia.
    + reflexivity.
  - destruct I as [Hs Hd Hw Hn Hl Ha]. cbn [fst].
    assert (exists n, nextf c = S n) as [n En].
    { destruct (nextf c) as [|n] eqn:En; [|now exists n]. rewrite Hl in F. discriminate. }
    constructor; cbn [started donef waitq nextf lastf active]; try assumption.
    + apply wait_ok_app; cbn [s_own s_prev]; [assumption|lia|].
      exists n. split; [now rewrite Hl, En|lia].
    + rewrite app_length. cbn [length]. lia.
    + reflexivity.
Qed.

Lemma remove_nth_0 : forall {T} (x : T) w, remove_nth 0 (x :: w) = w.
Proof. reflexivity. Qed.

(* only the head of the waiting list can be woken, and only when nobody is active *)
Lemma wake_head : forall c i x,
  CI c -> nth_error (waitq c) i = Some x -> fdone c (s_prev x) = true ->
  i = 0 /\ active c = None /\ s_own x = length (started c) /\
  (forall j, j < length (started c) -> In j (donef c)).
Proof.
  intros c i x I Hn F. destruct I as [Hs Hd Hw Hnx Hl Ha].
  destruct (wait_ok_nth _ _ _ _ Hw Hn) as [O [p [P1 P2]]].
  rewrite P1 in F. apply fdone_some in F. pose proof (Hd _ F) as Lt.
  assert (i = 0) by lia. subst i. split; [reflexivity|].
  destruct (active c) as [a|].
  - destruct Ha as [A1 [A2 A3]]. assert (a = p) by lia. subst. contradiction.
  - split; [reflexivity|]. split; [lia|assumption].
Qed.

Lemma wake_CI : forall run c i x o,
  CI c -> nth_error (waitq c) i = Some x -> fdone c (s_prev x) = true ->
  CI (fst (start_sec run x
        (mkch (nextf c) (lastf c) (donef c) (remove_nth i (waitq c)) (active c) (started c)) o)).
Proof.
  intros run c i x o I Hn F. destruct (wake_head c i x I Hn F) as [E [A [O All]]]. subst i.
  destruct I as [Hs Hd Hw Hnx Hl Ha].
  destruct (waitq c) as [|y w] eqn:Ew; [discriminate|]. cbn [nth_error] in Hn. inversion Hn; subst y.
  cbn [wait_ok] in Hw. destruct Hw as [_ [_ Hw]].
  apply start_ok; cbn [started donef waitq nextf lastf active remove_nth]; try assumption.
  cbn [length] in Hnx. lia.
Qed.

Lemma extend_CI : forall c own,
  CI c -> active c = Some own ->
  CI (mkch (nextf c) (lastf c) (own :: donef c) (waitq c) None (started c)).
Proof.
  intros c own I A. destruct I as [Hs Hd Hw Hn Hl Ha]. rewrite A in Ha. destruct Ha as [A1 [A2 A3]].
  constructor; cbn [started donef waitq nextf lastf active]; try assumption.
  - intros d [E|Hin]; [lia|now apply Hd].
  - intros j Hj. destruct (Nat.eq_dec j own) as [E|E]; [left; now symmetry|right; apply A3; lia].
Qed.

Lemma CI_step : forall s l, CI (ch s) -> CI (ch (step s l)).
Proof.
  intros s l I. destruct l; cbn [step ch]; try assumption.
  - destruct (fth (px s)) as [| | |acc dn [k|]| |]; try assumption.
    destruct (Nat.eqb k (lid (en s)) && negb (lclosed (en s))); assumption.
  - destruct (negb (app (en s)) && negb (running (en s))); assumption.
  - destruct (app (en s) && running (en s)); assumption.
  - destruct (app (en s) && negb (running (en s)) && fdone (ch s) (lastf (ch s))); assumption.
  - destruct (negb (app (en s)) && negb (lclosed (en s))); assumption.
  - destruct (lclosed (en s)); [assumption|]. destruct (loopq (en s)); [assumption|].
    destruct (app (en s) && (running (en s) || negb (fdone (ch s) (lastf (ch s))))); [|assumption].
    pose proof (submit_CI (running (en s)) (PWrite t) (ch s) (out s) I) as H.
    destruct (submit _ _ _ _). exact H.
  - destruct (app (en s) && running (en s) && _); assumption.
  - destruct (app (en s) && running (en s)); [|assumption].
    pose proof (submit_CI (running (en s)) PExt (ch s) (out s) I) as H.
    destruct (submit _ _ _ _). exact H.
  - destruct (active (ch s)) as [own|] eqn:A; [|assumption]. cbn [ch]. now apply extend_CI.
  - destruct (nth_error (waitq (ch s)) i) as [x|] eqn:Hn; [|assumption].
    destruct (fdone (ch s) (s_prev x)) eqn:F; [|assumption].
    pose proof (wake_CI (running (en s)) (ch s) i x (out s) I Hn F) as H.
    destruct (start_sec _ _ _ _). exact H.
Qed.

Lemma CI_init : forall c, CI (ch (init c)).
Proof.
  intros c. constructor; cbn; try reflexivity; try tauto; intros; lia.
Qed.

Lemma CI_run : forall ls s, CI (ch s) -> CI (ch (run s ls)).
Proof.
  induction ls as [|l ls IH]; intros s I; [assumption|].
  change (run s (l :: ls)) with (run (step s l) ls). apply IH. now apply CI_step.
Qed.

(* sections start in submission order: the n-th section to start is the one
   submitted n-th (ids are handed out in submission order) *)
Lemma chain_fifo : forall c ls,
  let s := run (init c) ls in started (ch s) = seq 0 (length (started (ch s))).
Proof. intros c ls. cbn zeta. apply ci_started. apply CI_run. apply CI_init. Qed.
