(* C09 - statements through [step] (what the next key really sees): the Vi cursor
   fix-up that runs after every handler, delete-then-paste, register yank-then-paste,
   is_repeat as computed by the key processor, runs of n consecutive word kills. *)
From Coq Require Import ZArith List Bool Lia PeanoNat.
From PTK Require Import Lib.Sx Lib.Py Model.Document Model.BufferEdit Proofs.BufferEditFacts
  Model.C09_Kill Proofs.C09_Ring Proofs.C09_KillFacts Proofs.C09_YankFacts Proofs.C09_CutFacts.
Import ListNotations.
Open Scope Z_scope.

Lemma str_eqb_refl (a : str) : str_eqb a a = true.
Proof. induction a as [|x a IH]; cbn [str_eqb]; [reflexivity|]. now rewrite Z.eqb_refl, IH. Qed.

(* ---------------------------------------------------------------------- *)
(* _fix_vi_cursor_position changes nothing but the cursor (and the paste
   snapshot), and moves the cursor by at most one to the left *)
Lemma fix_vi_cursor_frame s :
  Inv (sb s) ->
  btext (sb (fix_vi_cursor s)) = btext (sb s) /\ sring (fix_vi_cursor s) = sring s /\
  sregs (fix_vi_cursor s) = sregs s /\ svi (fix_vi_cursor s) = svi s /\
  ssel (fix_vi_cursor s) = ssel s /\ sprev (fix_vi_cursor s) = sprev s /\
  (bcur (sb (fix_vi_cursor s)) = bcur (sb s) \/
   (1 <= bcur (sb s) /\ bcur (sb (fix_vi_cursor s)) = bcur (sb s) - 1)).
Proof.
  intros [H0 H1]. unfold fix_vi_cursor.
  destruct (_ && _); [|repeat split; now left].
  unfold move_to, upd, set_cursor. cbn [with_buf sb sring sregs svi ssel sprev btext bcur].
  rewrite str_eqb_refl. cbn [negb].
  repeat split.
  destruct (len (btext (sb s)) <? bcur (sb s) - 1) eqn:E1; [lia|].
  destruct (bcur (sb s) - 1 <? 0) eqn:E2; [left|right]; lia.
Qed.

(* ---------------------------------------------------------------------- *)
(* how [step] runs a Vi navigation-mode command typed without a count *)
Lemma step_vi s c :
  svi s = true -> ssel s = None -> is_vi_cmd c = true ->
  (match c with ViVisual _ _ _ _ => False | _ => True end) ->
  step s c None =
  (let '(code, s') := exec s c 1 (sprev s =? binding_id false c) in
   if code =? 0 then (0, with_prev (fix_vi_cursor s') (binding_id false c))
   else if code =? E_UNMODELLED then (code, s) else (code, with_prev s' 0)).
Proof.
  intros Hvi Hsel Hc Hnv. unfold step, has_sel. rewrite Hvi, Hsel.
  destruct c; try discriminate; try contradiction; reflexivity.
Qed.

(* a forward kill done with kill_with (x, D, s, C): the state it leaves *)
Lemma kill_with_fwd_state s n :
  Inv (sb s) ->
  exists s', kill_with s (delete (sb s) n) (fun x => x) = (0, s') /\
    svi s' = svi s /\ (ssel s = None -> ssel s' = None) /\ sregs s' = sregs s /\
    killed true s (0, s') (fun x => x).
Proof.
  intros Hi. pose proof (kill_with_fwd s n (fun x => x) Hi) as K.
  destruct (delete_any (sb s) n Hi) as [k [Hk Hd]]. rewrite Hd in K |- *.
  cbn [kill_with ok] in K |- *. eexists. split; [reflexivity|].
  cbn [with_ring upd with_buf svi ssel sregs]. split; [reflexivity|]. split.
  - intros Hs. rewrite Hs. destruct (negb _); reflexivity.
  - split; [reflexivity|exact K].
Qed.

(* after a forward kill and the fix-up: P restores when the cursor was not moved,
   p restores when it was *)
Lemma paste_after_fix_restores s s' p :
  killed true s (0, s') (fun x => x) ->
  let s1 := with_prev (fix_vi_cursor s') p in
  (bcur (sb s1) = bcur (sb s) ->
   exists s2, buf_paste s1 (ring_get (sring s1)) VI_BEFORE 1 = (0, s2) /\ btext (sb s2) = btext (sb s)) /\
  (bcur (sb s1) <> bcur (sb s) ->
   exists s2, buf_paste s1 (ring_get (sring s1)) VI_AFTER 1 = (0, s2) /\ btext (sb s2) = btext (sb s)).
Proof.
  intros (pre & removed & post & Ht & _ & Ht1 & Hc1 & Hf & Hr) s1. cbn [fst snd] in *.
  pose proof (len_nonneg pre) as Hp. pose proof (len_nonneg post) as Hq.
  assert (Hi' : Inv (sb s')) by (unfold Inv; rewrite Ht1, Hc1, len_app; lia).
  destruct (fix_vi_cursor_frame s' Hi') as (Ft & Fr & _ & _ & _ & _ & Fc).
  assert (Hh : ring_get (sring s1) = mkclip removed CHARACTERS).
  { unfold s1. cbn [with_prev sring]. rewrite Fr, Hr. apply ring_get_set. }
  assert (Hts : btext (sb s1) = pre ++ post) by (unfold s1; cbn [with_prev sb]; now rewrite Ft).
  assert (Hcs : bcur (sb s1) = bcur (sb (fix_vi_cursor s'))) by reflexivity.
  assert (Hrange : 0 <= bcur (sb s1) <= len (btext (sb s1))).
  { rewrite Hts, len_app, Hcs. destruct Fc as [->|[? ->]]; lia. }
  split; intros Hcur.
  - unfold buf_paste, cur_doc, bdoc.
    destruct (doc_paste_chars_n (btext (sb s1)) (bcur (sb s1)) (ring_get (sring s1)) VI_BEFORE 1 Hrange)
      as [c' Hd]; [rewrite Hh; reflexivity|right; now left|].
    rewrite Hd. eexists. split; [reflexivity|].
    cbn [with_dbp set_doc upd with_buf sb btext]. unfold paste_at. change (VI_BEFORE =? VI_AFTER) with false.
    rewrite Hh, Hts, Hcur, <- Hf. cbn [ctext]. rewrite firstn_app_len, skipn_app_len.
    change (Z.to_nat 1) with 1%nat. cbn [repeat_str]. rewrite app_nil_r. now rewrite Ht.
  - assert (Hm : bcur (sb s1) = len pre - 1 /\ 1 <= len pre).
    { rewrite Hcs in *. destruct Fc as [E|[E1 E2]]; [rewrite E, Hc1, Hf in Hcur; congruence|]. lia. }
    destruct Hm as [Hm1 Hm2].
    unfold buf_paste, cur_doc, bdoc.
    destruct (doc_paste_chars_n (btext (sb s1)) (bcur (sb s1)) (ring_get (sring s1)) VI_AFTER 1 Hrange)
      as [c' Hd]; [rewrite Hh; reflexivity|right; now right|].
    rewrite Hd. eexists. split; [reflexivity|].
    cbn [with_dbp set_doc upd with_buf sb btext]. unfold paste_at. change (VI_AFTER =? VI_AFTER) with true.
    rewrite Hh, Hts, Hm1. cbn [ctext]. rewrite len_app.
    replace (Z.min (len pre - 1 + 1) (len pre + len post)) with (len pre) by lia.
    rewrite firstn_app_len, skipn_app_len.
    change (Z.to_nat 1) with 1%nat. cbn [repeat_str]. rewrite app_nil_r. now rewrite Ht.
Qed.

Lemma fix_text s : Inv (sb s) -> btext (sb (fix_vi_cursor s)) = btext (sb s).
Proof. intros Hi. now destruct (fix_vi_cursor_frame s Hi) as [H _]. Qed.

(* the text after [step]ping a paste command equals the text buf_paste produced *)
Lemma step_paste_text s1 (before : bool) s2 :
  svi s1 = true -> ssel s1 = None ->
  buf_paste s1 (ring_get (sring s1)) (if before then VI_BEFORE else VI_AFTER) 1 = (0, s2) ->
  Inv (sb s2) ->
  exists s3, step s1 (if before then ViBigP else ViP) None = (0, s3) /\ btext (sb s3) = btext (sb s2).
Proof.
  intros Hvi Hsel Hp Hi2.
  destruct before.
  - rewrite step_vi by (try assumption; try reflexivity; exact I).
    cbn [exec]. rewrite Hp. change (0 =? 0) with true. cbv iota.
    eexists. split; [reflexivity|]. cbn [with_prev sb]. now apply fix_text.
  - rewrite step_vi by (try assumption; try reflexivity; exact I).
    cbn [exec]. rewrite Hp. change (0 =? 0) with true. cbv iota.
    eexists. split; [reflexivity|]. cbn [with_prev sb]. now apply fix_text.
Qed.

Lemma mk_document_bound t c t' c' : mk_document t c = Some (t', c') -> c' <= len t'.
Proof.
  unfold mk_document. destruct (len t <? c) eqn:E; [discriminate|]. intros H; injection H as Ht Hc; subst; lia.
Qed.

Lemma doc_paste_bound d data m n t c : doc_paste d data m n = Some (t, c) -> c <= len t.
Proof.
  unfold doc_paste.
  destruct (n <? 1); [apply mk_document_bound|].
  destruct (ctype data =? CHARACTERS); [apply mk_document_bound|].
  destruct (ctype data =? LINES); [destruct (m =? VI_BEFORE); apply mk_document_bound|].
  apply mk_document_bound.
Qed.

Lemma buf_paste_inv s data m n s2 : buf_paste s data m n = (0, s2) -> Inv (sb s2).
Proof.
  unfold buf_paste. destruct (doc_paste _ _ _ _) as [[t c]|] eqn:E; [|discriminate].
  intros H. injection H as <-. apply doc_paste_bound in E.
  unfold Inv. cbn [with_dbp set_doc upd with_buf sb btext bcur]. pose proof (len_nonneg t). lia.
Qed.

(* D, x, s-core style forward kills followed, through [step], by P or p *)
Lemma vi_kill_then_paste_step s c n :
  svi s = true -> ssel s = None -> Inv (sb s) ->
  is_vi_cmd c = true -> (match c with ViVisual _ _ _ _ => False | _ => True end) ->
  (forall rep, exec s c 1 rep = kill_with s (delete (sb s) n) (fun x => x)) ->
  exists s1, step s c None = (0, s1) /\
    (bcur (sb s1) = bcur (sb s) ->
     exists s3, step s1 ViBigP None = (0, s3) /\ btext (sb s3) = btext (sb s)) /\
    (bcur (sb s1) <> bcur (sb s) ->
     exists s3, step s1 ViP None = (0, s3) /\ btext (sb s3) = btext (sb s)).
Proof.
  intros Hvi Hsel Hi Hc Hnv Hex.
  rewrite step_vi by assumption. rewrite Hex.
  destruct (kill_with_fwd_state s n Hi) as (s' & Hk & Hv' & Hs' & _ & K). rewrite Hk.
  change (0 =? 0) with true. cbv iota.
  set (s1 := with_prev (fix_vi_cursor s') (binding_id false c)).
  exists s1. split; [reflexivity|].
  assert (Hi' : Inv (sb s')).
  { destruct K as (pre & rem & post & _ & _ & Ht1 & Hc1 & _). cbn [snd] in *.
    unfold Inv. rewrite Ht1, Hc1, len_app. pose proof (len_nonneg pre). pose proof (len_nonneg post). lia. }
  destruct (fix_vi_cursor_frame s' Hi') as (_ & _ & _ & Fv & Fs & _ & _).
  assert (Hvi1 : svi s1 = true) by (unfold s1; cbn [with_prev svi]; now rewrite Fv, Hv').
  assert (Hsel1 : ssel s1 = None) by (unfold s1; cbn [with_prev ssel]; rewrite Fs; now apply Hs').
  destruct (paste_after_fix_restores s s' (binding_id false c) K) as [HP Hp]. fold s1 in HP, Hp.
  split; intros Hcur.
  - destruct (HP Hcur) as (s2 & Hb & Ht2).
    destruct (step_paste_text s1 true s2 Hvi1 Hsel1 Hb (buf_paste_inv _ _ _ _ _ Hb)) as (s3 & Hst & Ht3).
    exists s3. split; [exact Hst|congruence].
  - destruct (Hp Hcur) as (s2 & Hb & Ht2).
    destruct (step_paste_text s1 false s2 Hvi1 Hsel1 Hb (buf_paste_inv _ _ _ _ _ Hb)) as (s3 & Hst & Ht3).
    exists s3. split; [exact Hst|congruence].
Qed.

Lemma vi_D_then_paste_step s :
  svi s = true -> ssel s = None -> Inv (sb s) ->
  exists s1, step s ViD None = (0, s1) /\
    (bcur (sb s1) = bcur (sb s) ->
     exists s3, step s1 ViBigP None = (0, s3) /\ btext (sb s3) = btext (sb s)) /\
    (bcur (sb s1) <> bcur (sb s) ->
     exists s3, step s1 ViP None = (0, s3) /\ btext (sb s3) = btext (sb s)).
Proof.
  intros Hvi Hsel Hi.
  apply (vi_kill_then_paste_step s ViD (get_end_of_line_position (bdoc (sb s)))); try assumption; try reflexivity; exact I.
Qed.

Lemma vi_x_then_paste_step s :
  svi s = true -> ssel s = None -> Inv (sb s) ->
  0 < len (current_line_after_cursor (bdoc (sb s))) ->
  exists s1, step s ViX None = (0, s1) /\
    (bcur (sb s1) = bcur (sb s) ->
     exists s3, step s1 ViBigP None = (0, s3) /\ btext (sb s3) = btext (sb s)) /\
    (bcur (sb s1) <> bcur (sb s) ->
     exists s3, step s1 ViP None = (0, s3) /\ btext (sb s3) = btext (sb s)).
Proof.
  intros Hvi Hsel Hi Hl.
  apply (vi_kill_then_paste_step s ViX 1); try assumption; try reflexivity; try exact I.
  intros rep. cbn [exec]. unfold vi_x.
  replace (Z.min 1 (len (current_line_after_cursor (bdoc (sb s))))) with 1 by lia. reflexivity.
Qed.

(* the situation the audit pointed at is real: D then P does NOT restore in general *)
Lemma vi_D_then_P_refuted :
  exists s, svi s = true /\ ssel s = None /\ Inv (sb s) /\
    btext (sb (snd (step (snd (step s ViD None)) ViBigP None))) <> btext (sb s).
Proof.
  exists (mkst (mkbuf [97; 98; 99] 1) None [] None 0 [] true).
  split; [reflexivity|]. split; [reflexivity|]. split; [unfold Inv; cbn; lia|].
  vm_compute. discriminate.
Qed.

(* ---------------------------------------------------------------------- *)
(* reg-y in visual mode, then <count> reg-p / reg-P, both through [step] *)
Lemma copy_selection_svi s sel cut : svi (snd (fst (copy_selection s sel cut))) = svi s.
Proof.
  unfold copy_selection. destruct (doc_cut_selection _ _ _) as [[[t c]|] data]; [|reflexivity].
  destruct cut; reflexivity.
Qed.

Lemma vi_visual_svi s sel key r : svi (snd (vi_visual s sel key r)) = svi s.
Proof.
  unfold vi_visual. destruct (key =? 2).
  - pose proof (copy_selection_svi (with_sel s (Some sel)) sel true) as H.
    destruct (copy_selection _ sel true) as [[code s1] data]. cbn [fst snd] in H.
    destruct (code =? 0); cbn [snd ok with_ring svi]; exact H.
  - destruct (tobj_cut _ _ _ _) as [[nd data]|]; [|reflexivity].
    destruct ((key =? 0) || (key =? 3)).
    + destruct nd as [[t c]|]; [|reflexivity].
      destruct (match ctext data with [] => false | _ => true end);
        [destruct (key =? 3); [destruct (is_register_name r)|]|]; reflexivity.
    + destruct (key =? 1).
      * destruct nd; [|reflexivity]. destruct (match ctext data with [] => false | _ => true end); reflexivity.
      * destruct (is_register_name r); [|reflexivity]. destruct nd; [|reflexivity].
        destruct (match ctext data with [] => false | _ => true end); reflexivity.
Qed.

Lemma step_visual_register_yank s orig r :
  svi s = true -> ssel s = None -> Inv (sb s) -> 0 <= orig <= len (btext (sb s)) ->
  is_register_name r = true -> selected_chars s orig <> [] ->
  exists s1, step s (ViVisual orig CHARACTERS 4 r) None = (0, s1) /\
    btext (sb s1) = btext (sb s) /\ sring s1 = sring s /\ svi s1 = true /\ ssel s1 = None /\
    reg_get (sregs s1) r = Some (mkclip (selected_chars s orig) CHARACTERS) /\
    bcur (sb s) - 1 <= bcur (sb s1) <= bcur (sb s).
Proof.
  intros Hvi Hsel Hi Ho Hr Hne.
  destruct (visual_register_yank s orig r Hi Ho Hr Hne) as (s' & Hv & Hb & Hring & Hs' & Hg & _).
  unfold step, has_sel. rewrite Hvi, Hsel. cbn [negb Bool.eqb is_vi_cmd andb insert_only].
  destruct (orig <? 0) eqn:E1; [lia|]. destruct (len (btext (sb s)) <? orig) eqn:E2; [lia|].
  cbn [orb]. cbv zeta. cbn [exec]. rewrite Hv. change (0 =? 0) with true. cbv iota.
  assert (Hi' : Inv (sb s')) by (rewrite Hb; exact Hi).
  destruct (fix_vi_cursor_frame s' Hi') as (Ft & Fr & Fg & Fv & Fs & _ & Fc).
  eexists. split; [reflexivity|]. cbn [with_prev sb sring svi ssel sregs].
  rewrite Ft, Fr, Fg, Fv, Fs, Hb, Hring, Hs'.
  split; [reflexivity|]. split; [reflexivity|].
  split; [pose proof (vi_visual_svi s (orig, CHARACTERS) 4 r) as Hsv; rewrite Hv in Hsv; cbn [snd] in Hsv; congruence|].
  split; [reflexivity|]. split; [exact Hg|].
  rewrite Hb in Fc. destruct Fc as [->|[? ->]]; lia.
Qed.


Lemma step_register_paste s1 r (before : bool) n data :
  svi s1 = true -> ssel s1 = None -> Inv (sb s1) -> is_register_name r = true ->
  reg_get (sregs s1) r = Some data -> ctype data = CHARACTERS -> n < 1000000 ->
  let s0 := fix_vi_cursor s1 in
  let mode := if before then VI_BEFORE else VI_AFTER in
  let at_ := paste_at mode (bcur (sb s0)) (len (btext (sb s1))) in
  exists s2, step s1 (ViPasteReg r before) (Some n) = (0, s2) /\
    btext (sb s2) = firstn (Z.to_nat at_) (btext (sb s1))
                    ++ repeat_str (ctext data) (Z.to_nat n)
                    ++ skipn (Z.to_nat at_) (btext (sb s1)) /\
    sregs s2 = sregs s1 /\ sring s2 = sring s1 /\
    bcur (sb s1) - 1 <= bcur (sb s0) <= bcur (sb s1).
Proof.
  intros Hvi Hsel Hi Hr Hg Hty Hn s0 mode at_.
  destruct (fix_vi_cursor_frame s1 Hi) as (Ft & Fr & Fg & Fv & Fs & _ & Fc). fold s0 in Ft, Fr, Fg, Fv, Fs, Fc.
  assert (Hi0 : Inv (sb s0)) by (unfold Inv; rewrite Ft; destruct Hi; destruct Fc as [->|[? ->]]; lia).
  unfold step, has_sel. rewrite Hvi, Hsel. cbn [negb Bool.eqb is_vi_cmd andb insert_only]. cbv zeta.
  destruct (1000000 <=? n) eqn:En; [lia|].
  fold s0. cbn [exec]. unfold vi_paste_reg. rewrite Hr, Fg, Hg.
  unfold buf_paste, cur_doc, bdoc.
  destruct Hi0 as [A0 A1].
  destruct (doc_paste_chars_n (btext (sb s0)) (bcur (sb s0)) data mode n (conj A0 A1) Hty) as [c' Hd].
  { unfold mode. destruct before; [right; now left|right; now right]. }
  fold mode. rewrite Hd. change (0 =? 0) with true. cbv iota.
  eexists. split; [reflexivity|]. cbn [with_prev sb sring sregs].
  set (sp := with_dbp _ _).
  assert (Hip : Inv (sb sp)).
  { apply (buf_paste_inv s0 data mode n). unfold buf_paste, cur_doc, bdoc. rewrite Hd. reflexivity. }
  destruct (fix_vi_cursor_frame sp Hip) as (Pt & Pr & Pg & _).
  rewrite Pt, Pr, Pg. unfold sp. cbn [with_dbp set_doc upd with_buf sb sring sregs btext].
  rewrite Ft, Fr, Fg. repeat split; try reflexivity; destruct Fc as [->|[? ->]]; lia.
Qed.

(* ---------------------------------------------------------------------- *)
(* is_repeat as the key processor computes it, and runs of consecutive kills *)

(* after any successfully handled key command the "previous handler" is that
   command's binding *)
Lemma step_sets_prev s c a s1 :
  (match c with SetCursor _ | Cpr => False | _ => True end) ->
  step s c a = (0, s1) -> sprev s1 = binding_id (has_sel s) c.
Proof.
  intros Hc. unfold step.
  destruct c; try contradiction;
  repeat match goal with
  | |- (if ?b then (E_UNMODELLED, _) else _) = _ -> _ => destruct b; [discriminate|]
  end;
  cbv zeta;
  match goal with |- context [exec ?s0 ?c0 ?a0 ?r0] => destruct (exec s0 c0 a0 r0) as [code s'] end;
  destruct (code =? 0) eqn:E0;
  try (intros H; injection H as <-; reflexivity);
  destruct (code =? E_UNMODELLED) eqn:E7; intros H; injection H as Hc0 _; lia.
Qed.

Lemma fix_vi_cursor_emacs s : svi s = false -> fix_vi_cursor s = s.
Proof. intros H. unfold fix_vi_cursor. now rewrite H. Qed.

(* kill-word (M-d) typed without an argument: the repeat flag handed to the
   handler is "the previous handler was this same binding"; typed with an
   argument it is false, whatever came before *)
Lemma step_kill_word_rep s a :
  svi s = false -> ssel s = None ->
  step s KillWordMd a =
  (let arg := match a with Some x => if 1000000 <=? x then 1 else x | None => 1 end in
   let rep := match a with Some _ => false | None => sprev s =? 2 end in
   let '(code, s') := kill_word s arg rep in
   if code =? 0 then (0, with_prev (fix_vi_cursor s') 2)
   else if code =? E_UNMODELLED then (code, s) else (code, with_prev s' 0)).
Proof.
  intros Hvi Hsel. unfold step, has_sel. rewrite Hvi, Hsel.
  cbn [negb Bool.eqb is_vi_cmd andb insert_only]. cbv zeta.
  destruct a as [x|]; cbn [exec binding_id cmd_id].
  - rewrite (fix_vi_cursor_emacs s Hvi). change (ARG_ID =? 2) with false. reflexivity.
  - reflexivity.
Qed.

Lemma kill_with_fwd_state_f s n f :
  Inv (sb s) ->
  exists s', kill_with s (delete (sb s) n) f = (0, s') /\
    svi s' = svi s /\ (ssel s = None -> ssel s' = None) /\
    killed true s (0, s') f.
Proof.
  intros Hi. pose proof (kill_with_fwd s n f Hi) as K.
  destruct (delete_any (sb s) n Hi) as [k [Hk Hd]]. rewrite Hd in K |- *.
  cbn [kill_with ok] in K |- *. eexists. split; [reflexivity|].
  cbn [with_ring upd with_buf svi ssel]. split; [reflexivity|]. split; [|exact K].
  intros Hs. rewrite Hs. destruct (negb _); reflexivity.
Qed.

(* one M-d (no argument) through [step] *)
Lemma step_Md s :
  svi s = false -> ssel s = None -> Inv (sb s) ->
  exists s1, step s KillWordMd None = (0, s1) /\
    svi s1 = false /\ ssel s1 = None /\ sprev s1 = 2 /\
    ((btext (sb s1) = btext (sb s) /\ bcur (sb s1) = bcur (sb s) /\ sring s1 = sring s) \/
     killed true s (0, s1)
       (fun del => if sprev s =? 2 then ctext (ring_get (sring s)) ++ del else del)).
Proof.
  intros Hvi Hsel Hi. rewrite step_kill_word_rep by assumption. cbv zeta.
  unfold kill_word.
  destruct (find_next_word_ending (bdoc (sb s)) 1) as [pos|].
  2:{ cbn [ok]. change (0 =? 0) with true. cbv iota. rewrite (fix_vi_cursor_emacs s Hvi).
      eexists. split; [reflexivity|]. cbn [with_prev svi ssel sprev sb sring]. repeat split; auto. }
  destruct (pos =? 0).
  { cbn [ok]. change (0 =? 0) with true. cbv iota. rewrite (fix_vi_cursor_emacs s Hvi).
    eexists. split; [reflexivity|]. cbn [with_prev svi ssel sprev sb sring]. repeat split; auto. }
  destruct (kill_with_fwd_state_f s pos
              (fun del => if sprev s =? 2 then ctext (ring_get (sring s)) ++ del else del) Hi)
    as (s' & Hk & Hv' & Hs' & K).
  rewrite Hk. change (0 =? 0) with true. cbv iota.
  rewrite (fix_vi_cursor_emacs s') by congruence.
  eexists. split; [reflexivity|]. cbn [with_prev svi ssel sprev].
  split; [congruence|]. split; [now apply Hs'|]. split; [reflexivity|]. right.
  destruct K as (pre & rem & post & H1 & H2 & H3 & H4 & H5 & H6).
  exists pre, rem, post. cbn [fst snd with_prev sb sring] in *. repeat split; assumption.
Qed.

(* n further presses of M-d *)
Fixpoint md_run (n : nat) (s : st) : st :=
  match n with O => s | S k => snd (step (md_run k s) KillWordMd None) end.

(* The invariant of a run of consecutive M-d presses that started with a kill:
   the ring head is everything the run removed, in text order, and the text is
   the original one with exactly that span (which started at the cursor) gone. *)
Definition run_inv (s0 s : st) : Prop :=
  svi s = false /\ ssel s = None /\ sprev s = 2 /\
  exists pre R post,
    btext (sb s0) = pre ++ R ++ post /\ len pre = bcur (sb s0) /\
    btext (sb s) = pre ++ post /\ bcur (sb s) = len pre /\
    ring_get (sring s) = mkclip R CHARACTERS.

Lemma run_inv_step s0 s : run_inv s0 s -> run_inv s0 (snd (step s KillWordMd None)).
Proof.
  intros (Hvi & Hsel & Hprev & pre & R & post & Ht0 & Hl & Ht & Hc & Hh).
  assert (Hi : Inv (sb s)).
  { unfold Inv. rewrite Ht, Hc, len_app. pose proof (len_nonneg pre). pose proof (len_nonneg post). lia. }
  destruct (step_Md s Hvi Hsel Hi) as (s1 & Hst & Hv1 & Hs1 & Hp1 & Hcase). rewrite Hst. cbn [snd].
  split; [exact Hv1|]. split; [exact Hs1|]. split; [exact Hp1|].
  destruct Hcase as [(E1 & E2 & E3)|K].
  - exists pre, R, post. rewrite E1, E2, E3. repeat split; assumption.
  - rewrite Hprev in K. change (2 =? 2) with true in K. cbv iota in K. rewrite Hh in K. cbn [ctext] in K.
    destruct K as (pre' & r & post' & Kt & _ & Kt1 & Kc1 & Kf & Kr). cbn [fst snd] in *.
    assert (Hpre : pre' = pre /\ post = r ++ post').
    { rewrite Ht in Kt. rewrite Hc in Kf.
      assert (E1 : firstn (Z.to_nat (len pre)) (pre ++ post) = pre) by apply firstn_app_len.
      assert (E2 : firstn (Z.to_nat (len pre')) (pre' ++ r ++ post') = pre') by apply firstn_app_len.
      rewrite Kt in E1. rewrite <- Kf in E1. rewrite E2 in E1. split; [exact E1|].
      subst pre'. now apply app_inv_head in Kt. }
    destruct Hpre as [-> ->].
    exists pre, (R ++ r), post'. split; [rewrite Ht0; now rewrite <- !app_assoc|].
    split; [exact Hl|]. split; [exact Kt1|]. split; [exact Kc1|].
    rewrite Kr. apply ring_get_set.
Qed.

(* a first M-d that is not itself a repeat and that kills something, followed by
   any number n of further M-d presses: the invariant holds, and one yank gives
   back the text from before the whole run *)
Lemma md_run_accumulates n s s1 :
  svi s = false -> ssel s = None -> Inv (sb s) -> sprev s <> 2 ->
  step s KillWordMd None = (0, s1) -> sring s1 <> sring s ->
  run_inv s (md_run n s1) /\
  exists s3, yank (md_run n s1) 1 = (0, s3) /\ btext (sb s3) = btext (sb s).
Proof.
  intros Hvi Hsel Hi Hprev Hst Hring.
  assert (H1 : run_inv s s1).
  { destruct (step_Md s Hvi Hsel Hi) as (s1' & Hst' & Hv1 & Hs1 & Hp1 & Hcase).
    rewrite Hst in Hst'. injection Hst' as <-.
    split; [exact Hv1|]. split; [exact Hs1|]. split; [exact Hp1|].
    destruct Hcase as [(_ & _ & E3)|K]; [congruence|].
    destruct (sprev s =? 2) eqn:E; [lia|].
    destruct K as (pre & r & post & Kt & _ & Kt1 & Kc1 & Kf & Kr). cbn [fst snd] in *.
    exists pre, r, post. repeat split; try assumption. rewrite Kr. apply ring_get_set. }
  assert (Hn : run_inv s (md_run n s1)).
  { induction n as [|n IH]; [exact H1|]. cbn [md_run]. now apply run_inv_step. }
  split; [exact Hn|].
  destruct Hn as (_ & _ & _ & pre & R & post & Ht0 & Hl & Ht & Hc & Hh).
  assert (Hin : Inv (sb (md_run n s1))).
  { unfold Inv. rewrite Ht, Hc, len_app. pose proof (len_nonneg pre). pose proof (len_nonneg post). lia. }
  destruct (yank_1 (md_run n s1) Hin) as (s3 & Hy & Ht3 & _); [rewrite Hh; reflexivity|].
  exists s3. split; [exact Hy|].
  rewrite Ht3, Hh, Ht, Hc. cbn [ctext]. rewrite firstn_app_len, skipn_app_len. now rewrite Ht0.
Qed.
