(* C15 (round 6) - the completion-list analogue of C15_threaded_values.

   ThreadedCompleter / generator_to_async_generator hand the items of
   `completer.get_completions(document, ...)` - a FUNCTION [fcomp] of the
   document the call was made with - to the event loop one by one, where each
   arrives as a CYield label and the end of the generator as CEnd.  The
   generator position needs no new state component: while a completer
   coroutine is attached to its menu (proceed() is true), every item it
   delivered was appended to that menu and nothing else touches the list, so
   the position IS the length of the menu's list.  [dc_ok]: a CYield that is
   going to be appended carries the item at that position; a CEnd arrives
   when the position is the end of the list.  (For a coroutine whose menu is
   gone the item is thrown away by the code, so nothing is asked.)

   [DCL]: while the stream runs, the menu is a prefix of the completer's list
   for the document the menu is for; when the generator ends it is the whole
   list. *)
From Coq Require Import ZArith List Bool Lia.
From PTK Require Import Lib.Sx Lib.Py Model.C15_HistLines Model.C15_Async
  Proofs.C15_Base Proofs.C15_User Proofs.C15_Sched Proofs.C15_Theorems Proofs.C15_HistLines.
Import ListNotations.
Open Scope Z_scope.

Section DetComp.
Variable fcomp : doc -> list (str * Z).     (* Completer.get_completions as a function of the document *)

Definition dc_ok (s : state) (l : label) : Prop :=
  match l with
  | CYield k t st => forall co cs, get_nth (ccos s) k = Some co -> cst s = Some cs -> cs_id cs = cc_id co ->
      nth_error (fcomp (cc_doc co)) (length (cs_comps cs)) = Some (t, st)
  | CEnd k => forall co cs, get_nth (ccos s) k = Some co -> cst s = Some cs -> cs_id cs = cc_id co ->
      length (cs_comps cs) = length (fcomp (cc_doc co))
  | _ => True
  end.

Fixpoint dc_run (s : state) (ls : list label) : Prop :=
  match ls with
  | [] => True
  | l :: r => dc_ok s l /\ dc_run (apply s l) r
  end.

Definition DCL (s : state) : Prop :=
  forall co cs, In co (ccos s) -> cst s = Some cs -> cs_id cs = cc_id co ->
    pairs (cs_comps cs) = firstn (length (cs_comps cs)) (fcomp (cc_doc co)).

Lemma DCL_none s : cst s = None -> DCL s.
Proof. intros H co cs _ Hc. congruence. Qed.

Lemma DCL_nocoro s : ccos s = [] -> DCL s.
Proof. intros H co cs Hin. rewrite H in Hin. destruct Hin. Qed.

Lemma DCL_empty s cs : cst s = Some cs -> cs_comps cs = [] -> DCL s.
Proof. intros H He co cs' _ Hc _. rewrite H in Hc. inversion Hc; subst cs'. rewrite He. reflexivity. Qed.

Lemma DCL_keep s s' : ccos s' = ccos s ->
  (forall cs', cst s' = Some cs' -> exists cs, cst s = Some cs /\ cs_id cs' = cs_id cs /\ cs_comps cs' = cs_comps cs) ->
  DCL s -> DCL s'.
Proof.
  intros Hc Hk D co cs' Hin Hcs Hid. rewrite Hc in Hin.
  destruct (Hk cs' Hcs) as (cs & A & B & C). rewrite C. apply D; [exact Hin|exact A|congruence].
Qed.

Lemma DCL_same s s' : ccos s' = ccos s -> cst s' = cst s -> DCL s -> DCL s'.
Proof.
  intros A B. apply DCL_keep; [exact A|]. intros cs' H. exists cs'. rewrite <- B. auto.
Qed.

Lemma DCL_Edit s s' : Edit s s' -> DCL s -> DCL s'.
Proof.
  intros ((_ & _ & _ & _ & _ & F6 & _) & _ & [(A & _)|A]) D.
  - eapply DCL_same; eauto.
  - apply DCL_none; exact A.
Qed.

(* a state in which no completer is past its guard, or whose menu is empty *)
Definition quiet (s : state) : Prop :=
  crun s = false \/ (exists cs, cst s = Some cs /\ cs_comps cs = []).

Lemma DCL_quiet s : Inv s -> quiet s -> DCL s.
Proof.
  intros (_ & (Cc & _) & _ & _) [H|(cs & A & B)].
  - apply DCL_nocoro. rewrite H in Cc. destruct (ccos s); [reflexivity|discriminate].
  - eapply DCL_empty; eauto.
Qed.

Lemma gtc_keep s i s' e : go_to_completion s i = (s', e) ->
  forall cs', cst s' = Some cs' -> exists cs, cst s = Some cs /\ cs_id cs' = cs_id cs /\ cs_comps cs' = cs_comps cs.
Proof.
  unfold go_to_completion. intros H cs' Hc.
  destruct (cst s) as [cs|] eqn:Ec; [|inversion H; subst; congruence].
  exists cs. split; [reflexivity|].
  destruct (go_to_index cs i) as [cs1|] eqn:Eg.
  2:{ inversion H; subst. rewrite Ec in Hc. inversion Hc; subst; auto. }
  assert (Hf : cs_id cs1 = cs_id cs /\ cs_comps cs1 = cs_comps cs).
  { destruct (go_to_index_cases _ _ _ Eg) as [(A & _)|(_ & A & _)]; subst; simp; auto. }
  destruct (ntp cs1) as [[t p]|].
  - destruct (len t <? p); inversion H; subst; simp; inversion Hc; subst; exact Hf.
  - inversion H; subst; simp. inversion Hc; subst; exact Hf.
Qed.

Lemma gtc_DCL s i s' e : Inv s -> go_to_completion s i = (s', e) -> DCL s -> DCL s'.
Proof.
  intros (W & _ & _ & K) H. destruct (gtc_spec _ _ _ _ W K H) as ((_ & _ & _ & _ & _ & F6 & _) & _).
  apply DCL_keep; [exact F6|eapply gtc_keep; eauto].
Qed.

Lemma firstn_snoc {T} (x : T) : forall (L : list T) (n : nat),
  nth_error L n = Some x -> firstn (S n) L = firstn n L ++ [x].
Proof.
  induction L as [|y L IH]; intros n H; destruct n; cbn in H; try discriminate.
  - inversion H; subst. reflexivity.
  - cbn [firstn app]. f_equal. apply IH. exact H.
Qed.

Lemma body_quiet s f : cst s = None \/ True -> quiet (completer_body s f).
Proof.
  intros _. unfold completer_body, quiet. destruct (cst s).
  - left. reflexivity.
  - right. simp. eexists. split; reflexivity.
Qed.

Lemma cpost_quiet s k co s' e : cpost s k co = (s', e) -> quiet s'.
Proof.
  unfold cpost. intros H.
  set (s0 := set_ccos s (remove_nth (ccos s) k)) in *.
  destruct (attached s0 co).
  - left. destruct (cst s0) as [cs|]; [|inversion H; subst; reflexivity].
    match type of H with context [set_cst s0 (Some ?c)] => set (cs1 := c) in * end.
    set (s1 := set_cst s0 (Some cs1)) in *.
    destruct (cs_idx cs1); [inversion H; subst; reflexivity|].
    destruct (cs_comps cs1) as [|c0 r0]; [inversion H; subst; reflexivity|].
    destruct (cc_flag co =? 1).
    { destruct (go_to_completion s1 (Some 0)). inversion H; subst; reflexivity. }
    destruct (cc_flag co =? 2).
    { destruct (go_to_completion s1 (Some (len (c0 :: r0) - 1))). inversion H; subst; reflexivity. }
    destruct (cc_flag co =? 3); [|inversion H; subst; reflexivity].
    destruct (common_suffix (cc_doc co) (c0 :: r0)) as [|x cm].
    { destruct (len (c0 :: r0) =? 1); [|inversion H; subst; reflexivity].
      destruct (go_to_completion s1 (Some 0)). inversion H; subst; reflexivity. }
    destruct (insert_text s1 (x :: cm)) as [s2 e2].
    destruct (e2 =? 0); [|inversion H; subst; reflexivity].
    destruct (1 <? len (c0 :: r0)); inversion H; subst; reflexivity.
  - destruct (str_eqb (tbc (cur_doc s0)) (tbc (cc_doc co))); [left; inversion H; subst; reflexivity|].
    destruct (startswith (tbc (cur_doc s0)) (tbc (cc_doc co))); [|left; inversion H; subst; reflexivity].
    inversion H; subst. apply body_quiet. auto.
Qed.

Lemma start_task_DCL s t : Inv s -> DCL s -> DCL (start_task s t).
Proof.
  intros HI D. pose proof (start_task_Inv s t HI) as HI'.
  destruct t as [f| |]; cbn [start_task] in *.
  - destruct (crun s); [exact D|]. apply DCL_quiet; [exact HI'|]. apply body_quiet. auto.
  - destruct (vrun s); [exact D|]. unfold validator_body. simp.
    destruct (vst s =? 0); (eapply DCL_same; [| |exact D]; reflexivity).
  - destruct (srun s); [exact D|]. unfold suggester_body. simp.
    destruct (sug s); (eapply DCL_same; [| |exact D]; reflexivity).
Qed.

Lemma start_nth_DCL s i : Inv s -> DCL s -> DCL (start_nth s i).
Proof.
  intros HI D. unfold start_nth. destruct (get_nth (pending s) i); [|exact D].
  apply start_task_DCL; [apply set_pending_Inv; exact HI|].
  eapply DCL_same; [| |exact D]; reflexivity.
Qed.

Lemma tick_n_DCL n : forall s, Inv s -> DCL s -> DCL (tick_n n s).
Proof.
  induction n as [|n IH]; intros s HI D; cbn [tick_n]; [exact D|].
  apply IH; [apply start_nth_Inv; exact HI|apply start_nth_DCL; assumption].
Qed.

Lemma install_DCL s l s' e : Inv s -> install_menu s l = (s', e) -> DCL s'.
Proof.
  intros HI H. unfold install_menu in H.
  set (comps := map (fun x : str * Z => mkc (fst x) (snd x) (cur_doc s)) l) in *.
  assert (Hf : Forall (fun c => csrc c = cur_doc s) comps).
  { apply Forall_forall. intros c Hin. apply in_map_iff in Hin. destruct Hin as (x & Hx & _). subst c. reflexivity. }
  pose proof (set_completions_Inv s comps HI Hf) as HI1.
  eapply gtc_DCL; [exact HI1|exact H|].
  (* the new menu has a fresh identity: no coroutine is attached to it *)
  destruct HI as (_ & _ & I & _).
  intros co cs Hin Hc Hid. unfold set_completions in *. simp. inversion Hc; subst cs. simp.
  specialize (I co Hin). lia.
Qed.

Lemma DCL_step s l : Inv s -> DCL s -> dc_ok s l -> DCL (apply s l).
Proof.
  intros HI D Hd. pose proof (step_Inv s l HI) as HI'. unfold apply in *.
  destruct (step s l) as [s' e] eqn:E. cbn [fst] in *.
  pose proof HI as (W & _).
  destruct l; cbn [step] in E; cbn [dc_ok] in Hd.
  - destruct (insert_text_spec _ _ _ _ W E) as (_ & Ed & _). exact (DCL_Edit _ _ Ed D).
  - destruct (delete_before_spec _ _ _ _ W E) as (Ed & _). exact (DCL_Edit _ _ Ed D).
  - inversion E; subst. eapply DCL_Edit; [apply move_cursor_spec; auto|auto].
  - (* CompleteNext *)
    unfold complete_next in E. destruct (cst s) as [cs|] eqn:Ec; [|inversion E; subst; exact D].
    destruct (cs_idx cs) as [i|]; [|exact (gtc_DCL _ _ _ _ HI E D)].
    destruct (i =? len (cs_comps cs) - 1); [destruct nowrap; [inversion E; subst; exact D|]|]; exact (gtc_DCL _ _ _ _ HI E D).
  - unfold complete_prev in E. destruct (cst s) as [cs|] eqn:Ec; [|inversion E; subst; exact D].
    destruct (cs_idx cs) as [i|]; [|exact (gtc_DCL _ _ _ _ HI E D)].
    destruct (i =? 0); [destruct nowrap; [inversion E; subst; exact D|]|]; exact (gtc_DCL _ _ _ _ HI E D).
  - (* Cancel *)
    unfold cancel_completion in E. destruct (cst s) as [cs|] eqn:Ec; [|inversion E; subst; exact D].
    destruct (go_to_completion s None) as [s1 e1] eqn:Eg.
    destruct (e1 =? 0); inversion E; subst; [apply DCL_none; reflexivity|exact (gtc_DCL _ _ _ _ HI Eg D)].
  - inversion E; subst. eapply DCL_same; [| |exact D]; reflexivity.
  - inversion E; subst. apply start_nth_DCL; auto.
  - inversion E; subst. unfold tick. apply tick_n_DCL; auto.
  - (* CYield *)
    unfold cyield in E. destruct (0 <? st); [inversion E; subst; exact D|].
    destruct (get_nth (ccos s) k) as [co|] eqn:Eg; [|inversion E; subst; exact D].
    destruct (attached s co) eqn:Ea; [|apply DCL_quiet; [exact HI'|eapply cpost_quiet; eauto]].
    unfold attached in Ea. destruct (cst s) as [cs|] eqn:Ecs; [|discriminate]. apply Z.eqb_eq in Ea.
    destruct (maxn (cfg s) <=? len (cs_comps (cs_with_comps cs (cs_comps cs ++ [mkc t st (cc_doc co)])))).
    { apply DCL_quiet; [exact HI'|eapply cpost_quiet; eauto]. }
    inversion E; subst s' e; clear E.
    destruct (Inv_ccos_single _ _ _ HI Eg) as (Hcc & _ & _).
    intros co' cs' Hin Hc Hid. simp. inversion Hc; subst cs'; clear Hc. simp.
    rewrite Hcc in Hin. destruct Hin as [Hco|[]]. subst co'.
    specialize (Hd co cs eq_refl eq_refl Ea).
    assert (Dc : pairs (cs_comps cs) = firstn (length (cs_comps cs)) (fcomp (cc_doc co))).
    { apply D; [rewrite Hcc; left; reflexivity|exact Ecs|exact Ea]. }
    unfold pairs in *. rewrite map_app, app_length. cbn [map length ctext cstart].
    rewrite Nat.add_1_r. rewrite (firstn_snoc _ _ _ Hd). rewrite Dc. reflexivity.
  - unfold cend in E. destruct (get_nth (ccos s) k) as [co|] eqn:Eg; [|inversion E; subst; exact D].
    apply DCL_quiet; [exact HI'|eapply cpost_quiet; eauto].
  - (* VReturn *)
    unfold vreturn in E. destruct (get_nth (vcos s) k); [|inversion E; subst; exact D].
    destruct (doc_eqb (cur_doc s) d); [inversion E; subst; eapply DCL_same; [| |exact D]; reflexivity|].
    destruct (vst s =? 0); inversion E; subst; (eapply DCL_same; [| |exact D]; reflexivity).
  - unfold sreturn in E. destruct (get_nth (scos s) k); [|inversion E; subst; exact D].
    destruct (doc_eqb (cur_doc (set_scos s (remove_nth (scos s) k))) d); inversion E; subst.
    + eapply DCL_same; [| |exact D]; reflexivity.
    + unfold suggester_body. simp. destruct (sug s); (eapply DCL_same; [| |exact D]; reflexivity).
  - exact (install_DCL _ _ _ _ HI E).
  - inversion E; subst. eapply DCL_Edit; [apply delete_fwd_spec; auto|auto].
  - inversion E; subst. eapply DCL_Edit; [apply set_text_spec; auto|auto].
  - eapply DCL_Edit; [eapply swap_chars_spec; eauto|auto].
  - inversion E; subst. eapply DCL_Edit; [apply validate_sync_spec; auto|auto].
  - eapply DCL_Edit; [eapply reset_buf_spec; eauto|auto].
  - inversion E; subst. eapply DCL_Edit; [apply validate_and_handle_spec; auto|auto].
  - unfold hist_step in E. exact (install_DCL _ _ _ _ HI E).
Qed.

Lemma DCL_run ls : forall s, Inv s -> DCL s -> dc_run s ls -> DCL (run s ls).
Proof.
  induction ls as [|l r IH]; intros s HI D H; cbn [run fold_left]; auto.
  destruct H as (H1 & H2). apply IH; [apply step_Inv; exact HI|apply DCL_step; auto|exact H2].
Qed.

(* while the completer's stream is running, the menu it fills is a prefix of
   the completer's list for the document the menu is for *)
Theorem det_loading c t p ls : 0 <= p <= len t -> dc_run (init c t p) ls ->
  let s := run (init c t p) ls in
  forall co cs, In co (ccos s) -> cst s = Some cs -> cs_id cs = cc_id co ->
    cc_doc co = cs_orig cs /\
    pairs (cs_comps cs) = firstn (length (cs_comps cs)) (fcomp (cs_orig cs)).
Proof.
  intros Hp Hr s co cs Hin Hc Hid.
  pose proof (run_Inv ls _ (init_Inv c t p Hp)) as HI. fold s in HI.
  assert (D : DCL s) by (apply DCL_run; [apply init_Inv; exact Hp|apply DCL_nocoro; reflexivity|exact Hr]).
  destruct HI as (_ & _ & _ & K). destruct (K cs Hc) as ((_ & _ & _ & S4) & _).
  destruct (S4 co Hin Hid) as (A1 & _). split; [symmetry; exact A1|].
  rewrite A1. apply D; assumption.
Qed.

(* ... and when the generator ends it is the whole list *)
Theorem det_loaded c t p ls k : 0 <= p <= len t -> dc_run (init c t p) (ls ++ [CEnd k]) ->
  let s := run (init c t p) ls in
  forall co cs, get_nth (ccos s) k = Some co -> cst s = Some cs -> cs_id cs = cc_id co ->
    pairs (cs_comps cs) = fcomp (cs_orig cs).
Proof.
  intros Hp Hr s co cs Hg Hc Hid.
  assert (Hsplit : dc_run (init c t p) ls /\ dc_ok s (CEnd k)).
  { clear - Hr. unfold s. generalize (init c t p) Hr. clear.
    induction ls as [|l r IH]; intros s0 H; cbn [app dc_run run fold_left] in *.
    - destruct H as (A & _). auto.
    - destruct H as (A & B). destruct (IH _ B) as (P & Q). auto. }
  destruct Hsplit as (Hr1 & Hok). cbn [dc_ok] in Hok.
  pose proof (run_Inv ls _ (init_Inv c t p Hp)) as HI. fold s in HI.
  destruct (Inv_ccos_single _ _ _ HI Hg) as (Hcc & _ & _).
  assert (Hin : In co (ccos s)) by (rewrite Hcc; left; reflexivity).
  destruct (det_loading c t p ls Hp Hr1 co cs Hin Hc Hid) as (A1 & A2).
  rewrite A2. rewrite (Hok co cs Hg Hc Hid), A1. apply firstn_all.
Qed.

End DetComp.
