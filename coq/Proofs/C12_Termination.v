(* C12 - termination of the two grow-by-one loops driven by the real weight
   generator: exactly which inputs terminate (with an explicit fuel bound),
   and that all the others never return. *)
From Coq Require Import ZArith List Bool Lia.
From PTK Require Import Lib.Sx Model.C12_Divide Proofs.C12_Safety Proofs.C12_Gen.
Import ListNotations.
Open Scope Z_scope.

Lemma zsum_bound : forall l b, (forall k, (k < length l)%nat -> nth k l 0 <= b) ->
  zsum l <= Z.of_nat (length l) * b.
Proof.
  induction l as [|x r IH]; intros b H.
  - simpl. lia.
  - assert (Hx : x <= b) by (apply (H O); simpl; lia).
    assert (Hr : zsum r <= Z.of_nat (length r) * b) by (apply IH; intros k Hk; apply (H (S k)); simpl; lia).
    cbn [zsum length]. rewrite Nat2Z.inj_succ. lia.
Qed.

(* a_k <= b_k + X * c_k + 1 pointwise *)
Lemma zsum_affine_bound : forall (a b c : list Z) X,
  length b = length a -> length c = length a ->
  (forall k, (k < length a)%nat -> nth k a 0 <= nth k b 0 + X * nth k c 0 + 1) ->
  zsum a <= zsum b + X * zsum c + Z.of_nat (length a).
Proof.
  induction a as [|x r IH]; intros [|y br] [|z cr] X Hb Hc H; simpl in Hb, Hc; try discriminate.
  - simpl. lia.
  - pose proof (H O ltac:(simpl; lia)) as H0. simpl in H0.
    assert (Hr : zsum r <= zsum br + X * zsum cr + Z.of_nat (length r)).
    { apply IH; try congruence. intros k Hk. apply (H (S k)). simpl. lia. }
    cbn [zsum length]. rewrite Nat2Z.inj_succ. lia.
Qed.

Lemma zsum_nonneg : forall l, (forall k, 0 <= nth k l 0) -> 0 <= zsum l.
Proof.
  induction l as [|x r IH]; intro H; simpl; [lia|].
  pose proof (H O) as H0. simpl in H0.
  assert (0 <= zsum r) by (apply IH; intro k; apply (H (S k))). lia.
Qed.

Lemma grow_mono : forall {G} (nx : G -> option (nat * G)) f stop caps sizes i g r,
  grow nx f stop caps sizes i g = Some r ->
  forall f', (f <= f')%nat -> grow nx f' stop caps sizes i g = Some r.
Proof.
  intros G nx. induction f as [|f IH]; intros stop caps sizes i g r H f' Hf.
  - cbn [grow] in H. destruct (zsum sizes <? stop) eqn:E; [discriminate|].
    destruct f'; cbn [grow]; rewrite E; assumption.
  - destruct f' as [|f']; [lia|]. cbn [grow] in *.
    destruct (zsum sizes <? stop); [|assumption].
    destruct (nx g) as [[i1 g1]|]; [|discriminate].
    apply IH with (f' := f') in H; [assumption|lia].
Qed.

Lemma zsum_inc_nth_le : forall l k, zsum (inc_nth l k) <= zsum l + 1.
Proof.
  induction l as [|x r IH]; intro k; destruct k; simpl; try lia. specialize (IH k). lia.
Qed.

(* a lower bound for any generator: a loop that has to raise the total by d
   cannot finish in fewer than d iterations *)
Lemma grow_needs_fuel : forall {G} (nx : G -> option (nat * G)) fuel stop caps sizes i g r,
  grow nx fuel stop caps sizes i g = Some r -> stop - zsum sizes <= Z.of_nat fuel.
Proof.
  intros G nx. induction fuel as [|f IH]; intros stop caps sizes i g r H.
  - cbn [grow] in H. destruct (zsum sizes <? stop) eqn:E; [discriminate|]. apply Z.ltb_ge in E. simpl. lia.
  - cbn [grow] in H. destruct (zsum sizes <? stop) eqn:E; [|apply Z.ltb_ge in E; lia].
    destruct (nx g) as [[i1 g1]|]; [|discriminate].
    apply IH in H. rewrite Nat2Z.inj_succ.
    destruct (nth i sizes 0 <? nth i caps 0); [pose proof (zsum_inc_nth_le sizes i)|]; lia.
Qed.

(* ------------------------------------------------------------------ *)
(* One loop.  [tgt] is how far each child can get in this loop: its cap if
   the generator yields it, its starting size otherwise. *)

Definition ind (p q : nat) : Z := if Nat.eqb p q then 1 else 0.

Section Loop.
  Variables (caps start tgt : list Z) (stop D : Z) (gs : gen).
  Let items := g_items gs.
  Let m := length items.
  Let mw := g_maxw gs.
  Let i0 := g_i gs.

  Hypothesis Hgs : ginv gs.
  Hypothesis Hlen_c : length caps = length start.
  Hypothesis H1 : le_all start tgt.
  Hypothesis H3 : forall c, nth c start 0 < nth c tgt 0 -> exists p, (p < m)%nat /\ nth p items O = c.
  Hypothesis H5 : forall p, (p < m)%nat -> nth (nth p items O) tgt 0 = nth (nth p items O) caps 0.

  (* how far the sum of already_taken can get while the loop runs *)
  Definition Cmax : Z := zsum (g_taken gs) + (D + 1) * zsum (g_weights gs) + Z.of_nat m.

  (* safety part of the loop invariant: needs nothing about [stop] *)
  Record R0 (sizes : list Z) (cur : nat) (g : gen) : Prop := {
    r_inv : ginv g;
    r_items : g_items g = items;
    r_maxw : g_maxw g = mw;
    r_cur : exists q, g_pos g = S q /\ (q < m)%nat /\ cur = nth q items O;
    r_len : length sizes = length start;
    r_lo : le_all start sizes;
    r_hi : le_all sizes tgt
  }.

  Definition step_sizes (sizes : list Z) (cur : nat) : list Z :=
    if nth cur sizes 0 <? nth cur caps 0 then inc_nth sizes cur else sizes.

  Lemma R0_step : forall sizes cur g cur' g',
    R0 sizes cur g -> nextrel g cur' g' -> R0 (step_sizes sizes cur) cur' g'.
  Proof.
    intros sizes cur g cur' g' [I It Mw (q & Hq & Hqm & Hc) Hl Lo Hi]
           (I' & E1 & E2 & E3 & E4 & q' & Q1 & Q2 & Q3 & Q4).
    constructor.
    - exact I'.
    - congruence.
    - congruence.
    - exists q'. rewrite It in Q1, Q2. auto.
    - unfold step_sizes. destruct (_ <? _); [rewrite length_inc_nth|]; assumption.
    - unfold step_sizes. destruct (_ <? _); [|assumption].
      eapply le_all_trans; [eassumption|apply le_all_inc_nth].
    - unfold step_sizes. destruct (nth cur sizes 0 <? nth cur caps 0) eqn:E; [|assumption].
      apply Z.ltb_lt in E. apply le_all_inc_nth_cap; [assumption|].
      rewrite Hc. rewrite H5 by assumption. rewrite <- Hc. assumption.
  Qed.

  Lemma grow_R0 : forall fuel sizes cur g s' i' g',
    R0 sizes cur g -> grow next fuel stop caps sizes cur g = Some (s', i', g') -> R0 s' i' g'.
  Proof.
    induction fuel as [|f IH]; intros sizes cur g s' i' g' HR Hg.
    - cbn [grow] in Hg. destruct (zsum sizes <? stop); [discriminate|]. injection Hg as <- <- <-. assumption.
    - cbn [grow] in Hg. destruct (zsum sizes <? stop); [|injection Hg as <- <- <-; assumption].
      destruct (next_total g (r_inv _ _ _ HR)) as (it & g1 & Hn & Hrel).
      rewrite Hn in Hg. eapply IH; [|exact Hg].
      apply (R0_step sizes cur g it g1 HR Hrel).
  Qed.

  (* a loop whose stop lies beyond what the yielded children can absorb never returns *)
  Lemma grow_stuck : forall fuel cur,
    R0 start cur gs -> zsum tgt < stop -> grow next fuel stop caps start cur gs = None.
  Proof.
    intros fuel cur HR Hlt.
    destruct (grow next fuel stop caps start cur gs) as [[[s' i'] g']|] eqn:E; [|reflexivity].
    exfalso. pose proof (grow_R0 _ _ _ _ _ _ _ HR E) as HR'.
    assert (Hl : length start = length caps) by congruence.
    destruct (grow_spec next _ _ _ _ _ _ _ _ _ Hl E) as (_ & _ & _ & Hs).
    pose proof (le_all_sum _ _ (r_hi _ _ _ HR')). lia.
  Qed.

  (* progress part *)
  Hypothesis H4 : stop <= zsum tgt.
  Hypothesis HD0 : 0 <= D.
  Hypothesis HD : stop - zsum start <= D.

  Record R (sizes : list Z) (cur : nat) (g : gen) : Prop := {
    r_0 : R0 sizes cur g;
    r_J : forall p q, g_pos g = S q -> (p < m)%nat ->
          Z.min (nth (nth p items O) caps 0)
                (nth (nth p items O) start 0 + nth p (g_taken g) 0 - ind p q - nth p (g_taken gs) 0)
          <= nth (nth p items O) sizes 0;
    r_w : g_weights g = g_weights gs
  }.

  Lemma ind_bounds : forall p q, 0 <= ind p q <= 1.
  Proof. intros p q. unfold ind. destruct (Nat.eqb p q); lia. Qed.

  Lemma mw_pos : 0 < mw.
  Proof. apply (gi_maxw gs Hgs). Qed.

  Lemma i0_nonneg : 0 <= i0.
  Proof. apply (gi_i gs Hgs). Qed.

  (* While the loop is running some child the generator yields still has
     room, so it was yielded fewer than D times since the loop began; by the
     proportionality window of the generator every other item was then
     yielded at most (D+1) * its weight + 1 times. *)
  Lemma running_bound : forall sizes cur g,
    R sizes cur g -> zsum sizes < stop -> zsum (g_taken g) <= Cmax.
  Proof.
    intros sizes cur g [[I It Mw (q & Hq & Hqm & Hc) Hl Lo Hi] HJ Hgw] Hrun.
    destruct (le_all_sum_lt_ex _ _ Hi ltac:(lia)) as (c & Hcl & Hclt).
    pose proof (le_all_nth _ _ c Lo) as Hsc.
    destruct (H3 c ltac:(lia)) as (p & Hp & Hpc).
    specialize (HJ p q Hq Hp). rewrite <- (H5 p Hp) in HJ. rewrite Hpc in HJ.
    pose proof (ind_bounds p q) as Hind.
    pose proof (le_all_nth_diff _ _ c Lo) as Hdiff.
    assert (Htp : nth p (g_taken g) 0 - nth p (g_taken gs) 0 <= D) by lia.
    assert (Hpm : (p < length (g_items g))%nat) by (rewrite It; exact Hp).
    pose proof mw_pos as Hmw.
    (* rounds passed since the loop began *)
    pose proof (gi_Lx g I p Hpm) as HLp. rewrite Mw, Hgw in HLp.
    pose proof (gi_Ux gs Hgs p Hp) as HUp. fold mw i0 in HUp.
    pose proof (gi_w gs Hgs p Hp) as Hwp. fold mw in Hwp.
    set (wp := nth p (g_weights gs) 0) in *.
    set (tp := nth p (g_taken g) 0) in *. set (tp0 := nth p (g_taken gs) 0) in *.
    assert (E1 : (g_i g - i0 - 1) * wp < (tp - tp0 + 1) * mw) by nia.
    assert (E1' : (tp - tp0 + 1) * mw <= (D + 1) * mw) by (apply Z.mul_le_mono_nonneg_r; lia).
    assert (E2 : g_i g - i0 - 1 < (D + 1) * mw).
    { destruct (Z_lt_le_dec (g_i g - i0 - 1) 0) as [Hn|Hn]; [nia|].
      assert ((g_i g - i0 - 1) * 1 <= (g_i g - i0 - 1) * wp) by (apply Z.mul_le_mono_nonneg_l; lia). lia. }
    unfold Cmax.
    assert (Hlen : length (g_taken g) = m) by (rewrite (gi_lt g I), It; reflexivity).
    rewrite <- Hlen at 1.
    apply zsum_affine_bound.
    - rewrite (gi_lt gs Hgs), Hlen. reflexivity.
    - rewrite (gi_lw gs Hgs), Hlen. reflexivity.
    - intros j Hj. rewrite Hlen in Hj.
      assert (Hjm : (j < length (g_items g))%nat) by (rewrite It; exact Hj).
      pose proof (gi_Ux g I j Hjm) as HUj. rewrite Mw, Hgw in HUj.
      pose proof (gi_Lx gs Hgs j Hj) as HLj. fold mw i0 in HLj.
      pose proof (gi_w gs Hgs j Hj) as Hwj. fold mw in Hwj.
      set (wj := nth j (g_weights gs) 0) in *.
      set (tj := nth j (g_taken g) 0) in *. set (tj0 := nth j (g_taken gs) 0) in *.
      assert (E3 : (tj - tj0 - 1) * mw < (g_i g - i0 + 1) * wj) by nia.
      assert (E4 : (g_i g - i0 + 1) * wj <= ((D + 1) * mw + 1) * wj) by (apply Z.mul_le_mono_nonneg_r; lia).
      assert (E5 : ((D + 1) * mw + 1) * wj <= ((D + 1) * wj + 1) * mw) by nia.
      assert (E6 : tj - tj0 - 1 < (D + 1) * wj + 1) by (apply Z.mul_lt_mono_pos_r with (p := mw); lia).
      lia.
  Qed.

  Lemma R_step : forall sizes cur g cur' g',
    R sizes cur g -> zsum sizes < stop -> nextrel g cur' g' ->
    R (step_sizes sizes cur) cur' g' /\ zsum (g_taken g') = zsum (g_taken g) + 1.
  Proof.
    intros sizes cur g cur' g' HR Hrun Hrel.
    pose proof (R0_step _ _ _ _ _ (r_0 _ _ _ HR) Hrel) as HR0'.
    destruct HR as [[I It Mw (q & Hq & Hqm & Hc) Hl Lo Hi] HJ Hgw].
    destruct Hrel as (I' & E1 & E2 & E3 & E4 & q' & Q1 & Q2 & Q3 & Q4).
    assert (Hq'len : (q' < length (g_taken g))%nat) by (rewrite (gi_lt g I); exact Q1).
    split; [|rewrite Q4; apply zsum_inc_nth; exact Hq'len].
    constructor; [exact HR0'| |].
    - intros p q2 Hpos Hp. rewrite Q3 in Hpos. injection Hpos as <-.
      assert (Ht : nth p (g_taken g') 0 - ind p q' = nth p (g_taken g) 0).
      { rewrite Q4. unfold ind. destruct (Nat.eqb p q') eqn:Epq.
        - apply Nat.eqb_eq in Epq. subst p. rewrite nth_inc_nth_eq by exact Hq'len. lia.
        - apply Nat.eqb_neq in Epq. rewrite nth_inc_nth_neq by exact Epq. lia. }
      specialize (HJ p q Hq Hp).
      set (c := nth p items O) in *.
      assert (Hge : nth c sizes 0 <= nth c (step_sizes sizes cur) 0).
      { unfold step_sizes. destruct (_ <? _); [apply nth_inc_nth_ge|lia]. }
      unfold ind in HJ. destruct (Nat.eqb p q) eqn:Epq.
      + apply Nat.eqb_eq in Epq. subst p. assert (Ecur : c = cur) by (unfold c; congruence).
        unfold step_sizes. rewrite Ecur in *.
        destruct (nth cur sizes 0 <? nth cur caps 0) eqn:El.
        * apply Z.ltb_lt in El.
          assert (Hcl : (cur < length sizes)%nat) by (apply (nth_lt_in_range sizes caps); [congruence|exact El]).
          rewrite nth_inc_nth_eq by exact Hcl. lia.
        * apply Z.ltb_ge in El. lia.
      + lia.
    - congruence.
  Qed.

  Lemma grow_total_aux : forall fuel sizes cur g,
    R sizes cur g -> Z.of_nat fuel + zsum (g_taken g) > Cmax ->
    exists s' i' g', grow next fuel stop caps sizes cur g = Some (s', i', g') /\ R s' i' g'.
  Proof.
    induction fuel as [|f IH]; intros sizes cur g HR Hfuel.
    - cbn [grow]. destruct (zsum sizes <? stop) eqn:E.
      + apply Z.ltb_lt in E. pose proof (running_bound _ _ _ HR E) as Hb. simpl in Hfuel. lia.
      + eauto.
    - cbn [grow]. destruct (zsum sizes <? stop) eqn:E; [|eauto].
      apply Z.ltb_lt in E.
      destruct (next_total g (r_inv _ _ _ (r_0 _ _ _ HR))) as (it & g1 & Hn & Hrel).
      rewrite Hn. destruct (R_step _ _ _ _ _ HR E Hrel) as (HR' & Hsum).
      apply IH; [exact HR'|]. rewrite Hsum. rewrite Nat2Z.inj_succ in Hfuel. lia.
  Qed.

  Lemma grow_total : forall fuel cur,
    R0 start cur gs -> Z.of_nat fuel > (D + 1) * zsum (g_weights gs) + Z.of_nat m ->
    exists s' i' g', grow next fuel stop caps start cur gs = Some (s', i', g') /\ R0 s' i' g' /\ g_weights g' = g_weights gs.
  Proof.
    intros fuel cur HR0 Hfuel.
    assert (HR : R start cur gs).
    { constructor; [exact HR0| |].
      - intros p q _ Hp. pose proof (ind_bounds p q). lia.
      - reflexivity. }
    destruct (grow_total_aux fuel start cur gs HR ltac:(unfold Cmax; lia)) as (s' & i' & g' & Hg & HR').
    exists s', i', g'. split; [exact Hg|]. split; [apply (r_0 _ _ _ HR')|apply (r_w _ _ _ HR')].
  Qed.
End Loop.

(* ------------------------------------------------------------------ *)
(* The whole division *)

Fixpoint tgts (ws caps start : list Z) : list Z :=
  match ws, caps, start with
  | w :: wr, c :: cr, s :: sr => (if w >? 0 then c else s) :: tgts wr cr sr
  | _, _, _ => []
  end.

Lemma tgts_nth : forall ws caps start, length ws = length caps -> length caps = length start ->
  forall c, nth c (tgts ws caps start) 0 = if nth c ws 0 >? 0 then nth c caps 0 else nth c start 0.
Proof.
  induction ws as [|w wr IH]; intros [|x cr] [|s sr] H1 H2 c; simpl in *; try discriminate.
  - destruct c; reflexivity.
  - destruct c; [reflexivity|]. apply IH; congruence.
Qed.

Lemma tgts_ge : forall start caps, le_all start caps ->
  forall ws, length ws = length start -> le_all start (tgts ws caps start).
Proof.
  intros start caps H; induction H; intros [|w wr] Hl; simpl in *; try discriminate; constructor.
  - destruct (w >? 0); lia.
  - apply IHForall2. congruence.
Qed.

Lemma tgts_mono : forall caps caps', le_all caps caps' ->
  forall ws start, length ws = length start -> length caps = length start ->
  le_all (tgts ws caps start) (tgts ws caps' start).
Proof.
  intros caps caps' H; induction H; intros [|w wr] [|s sr] Hl Hc; simpl in *; try discriminate; constructor.
  - destruct (w >? 0); lia.
  - apply IHForall2; congruence.
Qed.

Definition weights (ds : list dim) := map dweight ds.
(* the total the first / second loop can reach: weighted children at
   preferred / max, weight-0 children at min *)
Definition reach_pref (ds : list dim) : Z := zsum (tgts (weights ds) (prefs ds) (mins ds)).
Definition reach_max (ds : list dim) : Z := zsum (tgts (weights ds) (maxs ds) (mins ds)).

(* the inputs on which dividing terminates *)
Definition in_domain (done : bool) (ds : list dim) (avail : Z) : Prop :=
  Z.min avail (zsum (prefs ds)) <= reach_pref ds /\
  (done = true \/ Z.min avail (zsum (maxs ds)) <= reach_max ds).

Definition Wmax (ds : list dim) : Z := fold_left Z.max (weights ds) 1.

(* iterations of one loop that always suffice: (max(0, avail) + 1) * (sum of weights) + n + 1;
   a loop cannot finish in fewer than (stop - sum of the sizes it starts from) iterations
   (grow_needs_fuel); Props/C12.v has an instance that needs about avail * (sum of weights) *)
Definition divide_fuel (ds : list dim) (avail : Z) : nat :=
  S (Z.to_nat ((Z.max 0 avail + 1) * zsum (weights ds) + Z.of_nat (length ds))).

Section Whole.
  Variable ds : list dim.
  Hypothesis Hv : Forall valid ds.
  Let ws := weights ds.
  Let n := length ds.
  Let tgt1 := tgts ws (prefs ds) (mins ds).
  Let tgt2 := tgts ws (maxs ds) (mins ds).

  Lemma len_ws : length ws = n. Proof. unfold ws, weights. apply map_length. Qed.
  Lemma len_mins : length (mins ds) = n. Proof. unfold mins. apply map_length. Qed.
  Lemma len_prefs : length (prefs ds) = n. Proof. unfold prefs. apply map_length. Qed.
  Lemma len_maxs : length (maxs ds) = n. Proof. unfold maxs. apply map_length. Qed.

  Lemma tgt1_nth : forall c, nth c tgt1 0 = if nth c ws 0 >? 0 then nth c (prefs ds) 0 else nth c (mins ds) 0.
  Proof. apply tgts_nth; rewrite ?len_ws, ?len_prefs, ?len_mins; reflexivity. Qed.
  Lemma tgt2_nth : forall c, nth c tgt2 0 = if nth c ws 0 >? 0 then nth c (maxs ds) 0 else nth c (mins ds) 0.
  Proof. apply tgts_nth; rewrite ?len_ws, ?len_maxs, ?len_mins; reflexivity. Qed.

  Lemma tgt1_le_tgt2 : le_all tgt1 tgt2.
  Proof.
    apply tgts_mono; [apply (valid_le_all ds Hv)| |]; rewrite ?len_ws, ?len_prefs, ?len_mins; reflexivity.
  Qed.

  Variables (g0 g1 : gen) (i : nat).
  Hypothesis Hinit : gen_init (seq 0 (length ws)) ws = Some g0.
  Hypothesis Hrel : nextrel g0 i g1.

  Lemma items_pos : forall p, (p < length (g_items g1))%nat ->
    (nth p (g_items g1) O < n)%nat /\ 0 < nth (nth p (g_items g1) O) ws 0.
  Proof.
    intros p Hp. destruct (gen_init_spec ws g0 Hinit) as (_ & _ & HI1 & _).
    destruct Hrel as (_ & E1 & _). rewrite E1 in *. destruct (HI1 p Hp) as (A & B & _).
    rewrite len_ws in A. auto.
  Qed.

  Lemma pos_items : forall c, 0 < nth c ws 0 -> exists p, (p < length (g_items g1))%nat /\ nth p (g_items g1) O = c.
  Proof.
    intros c Hc. destruct (gen_init_spec ws g0 Hinit) as (_ & _ & _ & HI2).
    destruct Hrel as (_ & E1 & _). rewrite E1.
    apply HI2; [|assumption].
    destruct (Nat.lt_ge_cases c (length ws)); [assumption|]. rewrite nth_overflow in Hc; lia.
  Qed.

  Lemma g1_facts : ginv g1 /\ (length (g_items g1) <= n)%nat /\
                   0 <= zsum (g_weights g1) <= zsum (weights ds).
  Proof.
    destruct (gen_init_spec ws g0 Hinit) as (I0 & Hi0 & HI1 & _).
    pose proof (gen_init_items_length ws g0 Hinit) as Hlen. rewrite len_ws in Hlen.
    destruct Hrel as (I1 & E1 & E2 & E3 & E4 & _).
    split; [exact I1|]. split; [rewrite E1; exact Hlen|].
    rewrite E2. split.
    - apply zsum_nonneg. intro k. destruct (Nat.lt_ge_cases k (length (g_items g0))) as [Hk|Hk].
      + pose proof (gi_w g0 I0 k Hk). lia.
      + rewrite nth_overflow; [lia|]. rewrite (gi_lw g0 I0). exact Hk.
    - apply gen_init_weights_sum; [|exact Hinit]. unfold ws, weights.
      clear -Hv. induction Hv; simpl; constructor; auto. destruct H as (_ & _ & _ & ?). assumption.
  Qed.

  Lemma H5_1 : forall p, (p < length (g_items g1))%nat ->
    nth (nth p (g_items g1) O) tgt1 0 = nth (nth p (g_items g1) O) (prefs ds) 0.
  Proof.
    intros p Hp. rewrite tgt1_nth. destruct (items_pos p Hp) as (_ & Hw).
    assert (nth (nth p (g_items g1) O) ws 0 >? 0 = true) as -> by (apply Z.gtb_lt; exact Hw). reflexivity.
  Qed.

  Lemma H5_2 : forall p, (p < length (g_items g1))%nat ->
    nth (nth p (g_items g1) O) tgt2 0 = nth (nth p (g_items g1) O) (maxs ds) 0.
  Proof.
    intros p Hp. rewrite tgt2_nth. destruct (items_pos p Hp) as (_ & Hw).
    assert (nth (nth p (g_items g1) O) ws 0 >? 0 = true) as -> by (apply Z.gtb_lt; exact Hw). reflexivity.
  Qed.

  Lemma R0_1 : R0 (mins ds) tgt1 g1 (mins ds) i g1.
  Proof.
    destruct Hrel as (I1 & E1 & E2 & E3 & E4 & q & Q1 & Q2 & Q3 & Q4).
    constructor; try reflexivity.
    - exact I1.
    - exists q. rewrite E1. auto.
    - apply le_all_refl.
    - apply tgts_ge; [apply (valid_le_all ds Hv)|]. rewrite len_ws, len_mins. reflexivity.
  Qed.

  Lemma H3_1 : forall c, nth c (mins ds) 0 < nth c tgt1 0 ->
    exists p, (p < length (g_items g1))%nat /\ nth p (g_items g1) O = c.
  Proof.
    intros c Hc. rewrite tgt1_nth in Hc. destruct (nth c ws 0 >? 0) eqn:E; [|lia].
    apply pos_items. apply Z.gtb_lt. exact E.
  Qed.

  (* second loop, from wherever the first one stopped *)
  Variables (s1 : list Z) (i1 : nat) (g2 : gen).
  Hypothesis Hend1 : R0 (mins ds) tgt1 g1 s1 i1 g2.

  Lemma R0_2 : R0 s1 tgt2 g2 s1 i1 g2.
  Proof.
    destruct Hend1 as [I It Mw (q & Hq & Hqm & Hc) Hl Lo Hi].
    constructor; try reflexivity.
    - exact I.
    - exists q. rewrite It. auto.
    - apply le_all_refl.
    - eapply le_all_trans; [exact Hi|apply tgt1_le_tgt2].
  Qed.

  Lemma H3_2 : forall c, nth c s1 0 < nth c tgt2 0 ->
    exists p, (p < length (g_items g2))%nat /\ nth p (g_items g2) O = c.
  Proof.
    intros c Hc. rewrite (r_items _ _ _ _ _ _ Hend1).
    rewrite tgt2_nth in Hc. destruct (nth c ws 0 >? 0) eqn:E.
    - apply pos_items. apply Z.gtb_lt. exact E.
    - pose proof (le_all_nth _ _ c (r_lo _ _ _ _ _ _ Hend1)). lia.
  Qed.

  Lemma H5_2' : forall p, (p < length (g_items g2))%nat ->
    nth (nth p (g_items g2) O) tgt2 0 = nth (nth p (g_items g2) O) (maxs ds) 0.
  Proof. rewrite (r_items _ _ _ _ _ _ Hend1). apply H5_2. Qed.

  Lemma len_s1 : length (maxs ds) = length s1.
  Proof. rewrite (r_len _ _ _ _ _ _ Hend1), len_maxs, len_mins. reflexivity. Qed.
End Whole.

Lemma divide_unfold : forall fuel done ds avail g0 i g1,
  Forall valid ds -> ds <> [] -> zsum (mins ds) <= avail ->
  gen_init (seq 0 (length (weights ds))) (weights ds) = Some g0 ->
  next g0 = Some (i, g1) ->
  divide_pinned fuel done ds avail =
  match grow next fuel (Z.min avail (zsum (prefs ds))) (prefs ds) (mins ds) i g1 with
  | None => OutOfFuel
  | Some (s1, i1, g2) =>
      if done then Sizes s1 else
      match grow next fuel (Z.min avail (zsum (maxs ds))) (maxs ds) s1 i1 g2 with
      | None => OutOfFuel
      | Some (s2, _, _) => Sizes s2
      end
  end.
Proof.
  intros fuel done ds avail g0 i g1 Hv Hne Hfit Hinit Hn.
  unfold divide_pinned. destruct ds as [|d0 dr]; [congruence|].
  rewrite (sum_layout_valid _ Hv). cbn [dmin dmax dpref].
  unfold weights in Hinit. rewrite map_length in Hinit.
  unfold mins in Hfit.
  assert (E : zsum (map dmin (d0 :: dr)) >? avail = false) by (rewrite Z.gtb_ltb; apply Z.ltb_ge; lia).
  rewrite E, Hinit, Hn. reflexivity.
Qed.

Lemma fuel_arith : forall mZ nZ D a mu W,
  0 <= mZ <= nZ -> 0 <= D -> 0 <= a <= (D + 1) * W + 3 -> 1 <= mu <= W ->
  mZ * ((D + a) * mu + 1) <= nZ * ((D + ((D + 1) * W + 3)) * W + 1).
Proof.
  intros mZ nZ D a mu W Hm HD Ha Hmu.
  assert (H1 : (D + a) * mu <= (D + ((D + 1) * W + 3)) * W) by (apply Z.mul_le_mono_nonneg; lia).
  assert (H0 : 0 <= (D + a) * mu) by (apply Z.mul_nonneg_nonneg; lia).
  apply Z.mul_le_mono_nonneg; lia.
Qed.

(* On the terminating inputs the division returns within divide_fuel
   iterations per loop. *)
Theorem divide_terminates : forall done ds avail fuel,
  Forall valid ds -> in_domain done ds avail -> (divide_fuel ds avail <= fuel)%nat ->
  divide_pinned fuel done ds avail <> OutOfFuel.
Proof.
  intros done ds avail fuel Hv (Hdp & Hdm) Hfuel.
  destruct ds as [|d0 dr] eqn:Eds; [discriminate|]. rewrite <- Eds in *.
  assert (Hne : ds <> []) by (rewrite Eds; discriminate).
  destruct (Z_le_gt_dec (zsum (mins ds)) avail) as [Hfit|Hsmall].
  2:{ assert (divide_pinned fuel done ds avail = TooSmall) as -> by (apply divide_too_small; auto). discriminate. }
  destruct (gen_init (seq 0 (length (weights ds))) (weights ds)) as [g0|] eqn:Hinit.
  2:{ unfold divide_pinned. rewrite Eds. rewrite <- Eds. rewrite (sum_layout_valid _ Hv). cbn [dmin].
      assert (E : zsum (map dmin ds) >? avail = false) by (rewrite Z.gtb_ltb; apply Z.ltb_ge; unfold mins in Hfit; lia).
      rewrite E. unfold weights in Hinit. rewrite map_length in Hinit. rewrite Hinit. discriminate. }
  destruct (gen_init_spec _ _ Hinit) as (I0 & _).
  destruct (next_total g0 I0) as (i & g1 & Hn & Hrel).
  rewrite (divide_unfold fuel done ds avail g0 i g1 Hv Hne Hfit Hinit Hn).
  destruct (g1_facts ds Hv g0 g1 i Hinit Hrel) as (I1 & Hm & Hw0 & Hw1).
  destruct (valid_sums ds Hv) as (S0 & S1 & S2). fold (mins ds) in *. fold (prefs ds) in *. fold (maxs ds) in *.
  set (D := Z.max 0 avail).
  assert (HX : Z.of_nat fuel > (D + 1) * zsum (g_weights g1) + Z.of_nat (length (g_items g1))).
  { unfold divide_fuel in Hfuel. fold D in Hfuel.
    set (X := (D + 1) * zsum (weights ds) + Z.of_nat (length ds)) in *.
    assert ((D + 1) * zsum (g_weights g1) <= (D + 1) * zsum (weights ds)) by (apply Z.mul_le_mono_nonneg_l; lia).
    assert (0 <= X) by (unfold X; assert (0 <= (D + 1) * zsum (weights ds)) by (apply Z.mul_nonneg_nonneg; lia); lia).
    assert (Z.of_nat (S (Z.to_nat X)) <= Z.of_nat fuel) by (apply inj_le; exact Hfuel).
    rewrite Nat2Z.inj_succ, Z2Nat.id in H1 by assumption. unfold X in *. lia. }
  assert (Hlen1 : length (prefs ds) = length (mins ds)) by (unfold prefs, mins; rewrite !map_length; reflexivity).
  destruct (grow_total (prefs ds) (mins ds) (tgts (weights ds) (prefs ds) (mins ds))
              (Z.min avail (zsum (prefs ds))) D g1 I1 Hlen1
              (H3_1 ds g0 g1 i Hinit Hrel) (H5_1 ds g0 g1 i Hinit Hrel) Hdp ltac:(lia) ltac:(lia)
              fuel i (R0_1 ds Hv g0 g1 i Hrel) HX) as (s1 & i1 & g2 & Hg1 & Hend1 & Hw2).
  rewrite Hg1. destruct done; [discriminate|].
  destruct Hdm as [?|Hdm]; [discriminate|].
  pose proof (R0_2 ds Hv g1 s1 i1 g2 Hend1) as HR2.
  pose proof (r_inv _ _ _ _ _ _ Hend1) as I2.
  pose proof (le_all_sum _ _ (r_lo _ _ _ _ _ _ Hend1)) as Hs1.
  assert (HC2 : Z.of_nat fuel > (D + 1) * zsum (g_weights g2) + Z.of_nat (length (g_items g2))).
  { rewrite Hw2, (r_items _ _ _ _ _ _ Hend1). exact HX. }
  destruct (grow_total (maxs ds) s1 (tgts (weights ds) (maxs ds) (mins ds))
              (Z.min avail (zsum (maxs ds))) D g2 I2 (len_s1 ds g1 s1 i1 g2 Hend1)
              (H3_2 ds g0 g1 i Hinit Hrel s1 i1 g2 Hend1) (H5_2' ds g0 g1 i Hinit Hrel s1 i1 g2 Hend1)
              Hdm ltac:(lia) ltac:(lia) fuel i1 HR2 HC2) as (s2 & i2 & g3 & Hg2 & _).
  rewrite Hg2. discriminate.
Qed.

(* On all other inputs whose minimums fit and that have a weighted child,
   the division never returns, whatever the fuel. *)
Theorem divide_hangs : forall done ds avail,
  Forall valid ds -> zsum (mins ds) <= avail ->
  (exists c, 0 < nth c (weights ds) 0) ->
  ~ in_domain done ds avail ->
  forall fuel, divide_pinned fuel done ds avail = OutOfFuel.
Proof.
  intros done ds avail Hv Hfit (c & Hc) Hnd fuel.
  assert (Hne : ds <> []) by (intro; subst ds; destruct c; simpl in Hc; lia).
  assert (Hcl : (c < length (weights ds))%nat).
  { destruct (Nat.lt_ge_cases c (length (weights ds))); [assumption|]. rewrite nth_overflow in Hc; lia. }
  destruct (gen_init_some _ c Hcl Hc) as (g0 & Hinit).
  destruct (gen_init_spec _ _ Hinit) as (I0 & _).
  destruct (next_total g0 I0) as (i & g1 & Hn & Hrel).
  rewrite (divide_unfold fuel done ds avail g0 i g1 Hv Hne Hfit Hinit Hn).
  destruct (g1_facts ds Hv g0 g1 i Hinit Hrel) as (I1 & _).
  assert (Hlen1 : length (prefs ds) = length (mins ds)) by (unfold prefs, mins; rewrite !map_length; reflexivity).
  destruct (Z_le_gt_dec (Z.min avail (zsum (prefs ds))) (reach_pref ds)) as [Hdp|Hndp].
  - destruct (grow next fuel (Z.min avail (zsum (prefs ds))) (prefs ds) (mins ds) i g1)
      as [[[s1 i1] g2]|] eqn:Hg1; [|reflexivity].
    pose proof (grow_R0 (prefs ds) (mins ds) _ _ g1 (H5_1 ds g0 g1 i Hinit Hrel) _ _ _ _ _ _ _
                        (R0_1 ds Hv g0 g1 i Hrel) Hg1) as Hend1.
    destruct done.
    + exfalso. apply Hnd. split; [exact Hdp|left; reflexivity].
    + assert (Hndm : reach_max ds < Z.min avail (zsum (maxs ds))).
      { destruct (Z_le_gt_dec (Z.min avail (zsum (maxs ds))) (reach_max ds)); [|lia].
        exfalso. apply Hnd. split; [exact Hdp|right; assumption]. }
      rewrite (grow_stuck (maxs ds) s1 (tgts (weights ds) (maxs ds) (mins ds)) _ g2
                 (len_s1 ds g1 s1 i1 g2 Hend1) (H5_2' ds g0 g1 i Hinit Hrel s1 i1 g2 Hend1)
                 fuel i1 (R0_2 ds Hv g1 s1 i1 g2 Hend1) Hndm).
      reflexivity.
  - assert (Hlt : zsum (tgts (weights ds) (prefs ds) (mins ds)) < Z.min avail (zsum (prefs ds)))
      by (unfold reach_pref in Hndp; lia).
    rewrite (grow_stuck (prefs ds) (mins ds) (tgts (weights ds) (prefs ds) (mins ds)) _ g1
               Hlen1 (H5_1 ds g0 g1 i Hinit Hrel) fuel i (R0_1 ds Hv g0 g1 i Hrel) Hlt).
    reflexivity.
Qed.

(* every child has weight 0 and the minimums fit: ValueError *)
Theorem divide_no_weights : forall fuel done ds avail,
  Forall valid ds -> ds <> [] -> zsum (mins ds) <= avail ->
  (forall c, nth c (weights ds) 0 <= 0) ->
  divide_pinned fuel done ds avail = NoWeights.
Proof.
  intros fuel done ds avail Hv Hne Hfit Hz.
  unfold divide_pinned. destruct ds as [|d0 dr] eqn:Eds; [congruence|]. rewrite <- Eds in *.
  rewrite (sum_layout_valid _ Hv). cbn [dmin].
  assert (E : zsum (map dmin ds) >? avail = false) by (rewrite Z.gtb_ltb; apply Z.ltb_ge; unfold mins in Hfit; lia).
  rewrite E.
  pose proof (gen_init_none (weights ds) (fun c _ => Hz c)) as Hnone.
  unfold weights in Hnone. rewrite map_length in Hnone. rewrite Hnone. reflexivity.
Qed.

(* the hand-found input (DESIGN F4) *)
Definition f4_dims : list dim := [mkdim 0 5 5 0; mkdim 0 0 0 1].

Theorem divide_f4_hangs : Forall valid f4_dims /\ forall fuel, divide_pinned fuel false f4_dims 10 = OutOfFuel.
Proof.
  assert (Hv : Forall valid f4_dims).
  { repeat constructor; cbn [dmin dmax dpref dweight]; lia. }
  split; [exact Hv|].
  apply divide_hangs.
  - exact Hv.
  - vm_compute. discriminate.
  - exists 1%nat. vm_compute. reflexivity.
  - intros (H & _). vm_compute in H. apply H. reflexivity.
Qed.

(* ------------------------------------------------------------------ *)
(* HSplit / VSplit: the division runs on _all_children *)

Lemma split_divide_eq : forall core fuel orient done align pad cs avail,
  split_divide_with core fuel orient done align pad cs avail =
  if (orient =? 0) && (match cs with [] => true | _ => false end) then Sizes []
  else core fuel (if orient =? 0 then done else false) (all_children align pad cs) avail.
Proof.
  intros. unfold split_divide_with. destruct (orient =? 0); [|reflexivity].
  destruct cs; reflexivity.
Qed.

Lemma draw_sizes : forall orient cs nall l start avail,
  ((orient =? 1) && (match cs with [] => true | _ => false end) = false) ->
  (length l <= nall)%nat ->
  draw orient cs nall (Sizes l) start avail =
  fst (regions_from start l) ++
  (if start + avail - (start + zsum l) >? 0 then [(1, start + zsum l, start + avail - (start + zsum l))] else []).
Proof.
  intros orient cs nall l start avail H Hl. unfold draw. rewrite H.
  rewrite firstn_all2 by exact Hl.
  destruct (regions_chain l start) as (_ & He & _).
  destruct (regions_from start l) as [r e]. simpl in *. subst e. reflexivity.
Qed.
