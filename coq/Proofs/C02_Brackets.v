(* C02 - find_enclosing_bracket_right/left, find_matching_bracket_position:
   the target is inside the text, holds the partner bracket, respects the
   given limit, and the span between cursor and target is balanced. *)
From Coq Require Import ZArith List Bool Lia.
From PTK Require Import Lib.Sx Lib.Py Gen.Whitespace Model.Document Model.C02_DocQueries Proofs.C02_Base.
Import ListNotations.
Open Scope Z_scope.

(* net nesting of a span: l counts +1 (tested first, as in the code), r counts -1 *)
Fixpoint net (l r : Z) (s : str) : Z :=
  match s with
  | [] => 0
  | c :: rest => (if c =? l then 1 else if c =? r then -1 else 0) + net l r rest
  end.

(* every prefix of s (up to k characters) keeps the nesting >= 0 and the whole is 0 *)
Definition balanced_span (l r : Z) (s : str) : Prop :=
  net l r s = 0 /\ forall j : nat, 0 <= net l r (firstn j s).

(* ---------------------------------------------------------------------- *)
(* list helpers *)

Lemma nth_error_firstn_some {T} (l : list T) : forall n k x,
  nth_error (firstn n l) k = Some x -> (k < n)%nat /\ nth_error l k = Some x.
Proof.
  induction l as [|y l IH]; intros n k x.
  - rewrite firstn_nil. destruct k; discriminate.
  - destruct n as [|n]; [destruct k; discriminate|]. cbn [firstn].
    destruct k as [|k]; cbn [nth_error].
    + intros H. split; [lia|exact H].
    + intros H. destruct (IH _ _ _ H). split; [lia|assumption].
Qed.

Lemma nth_error_skipn_eq {T} (l : list T) : forall a k, nth_error (skipn a l) k = nth_error l (a + k).
Proof.
  induction l as [|y l IH]; intros a k.
  - rewrite skipn_nil. destruct k, a; reflexivity.
  - destruct a as [|a]; [reflexivity|]. cbn [skipn Nat.add nth_error]. apply IH.
Qed.

Lemma nth_error_rev_some {T} (l : list T) k x :
  nth_error (rev l) k = Some x -> (k < length l)%nat /\ nth_error l (length l - 1 - k) = Some x.
Proof.
  intros H. assert (Hk : (k < length l)%nat).
  { rewrite <- rev_length. apply nth_error_Some. congruence. }
  split; [exact Hk|].
  pose proof (nth_error_nth _ _ x H) as Hn. rewrite rev_nth in Hn by exact Hk.
  replace (length l - 1 - k)%nat with (length l - S k)%nat by lia.
  rewrite (nth_error_nth' l x) by lia. f_equal. exact Hn.
Qed.

Lemma length_rev_eq {T} (l : list T) : length (rev l) = length l.
Proof. apply rev_length. Qed.

Lemma firstn_firstn_le {T} (l : list T) i j : (i <= j)%nat -> firstn i (firstn j l) = firstn i l.
Proof. intros H. rewrite firstn_firstn. f_equal. lia. Qed.

Lemma index_some {T} (s : list T) i x :
  0 <= i -> index s i = Some x -> i < len s /\ nth_error s (Z.to_nat i) = Some x.
Proof.
  intros Hi. unfold index. cbv zeta. destruct (i <? 0) eqn:E; [lia|].
  destruct ((i <? 0) || (len s <=? i)) eqn:E2; [discriminate|].
  apply orb_false_elim in E2 as [_ E3]. intros H. split; [lia|exact H].
Qed.

(* elements of s[lo:hi] for non-negative bounds *)
Lemma nth_error_slice2 {T} (s : list T) lo hi k x :
  0 <= lo -> 0 <= hi -> nth_error (slice2 s lo hi) k = Some x ->
  nth_error s (Z.to_nat lo + k) = Some x /\ lo + Z.of_nat k < hi /\ lo + Z.of_nat k < len s /\
  slice2 s lo hi = firstn (Z.to_nat (Z.min hi (len s) - lo)) (skipn (Z.to_nat lo) s).
Proof.
  intros Hlo Hhi. unfold slice2, slice, adj_index.
  destruct (lo <? 0) eqn:E1; [lia|]. destruct (hi <? 0) eqn:E2; [lia|].
  destruct (Z.min lo (len s) <? Z.min hi (len s)) eqn:E3; [|destruct k; discriminate].
  assert (Ha : Z.min lo (len s) = lo) by lia. rewrite Ha.
  intros H. apply nth_error_firstn_some in H as [Hk H]. rewrite nth_error_skipn_eq in H.
  split; [exact H|]. split; [lia|]. split; [lia|reflexivity].
Qed.

Lemma slice2_len_le {T} (s : list T) lo hi :
  0 <= lo -> 0 <= hi -> len (slice2 s lo hi) <= Z.max 0 (Z.min hi (len s) - lo).
Proof.
  intros Hlo Hhi. unfold slice2, slice, adj_index.
  destruct (lo <? 0) eqn:E1; [lia|]. destruct (hi <? 0) eqn:E2; [lia|].
  destruct (Z.min lo (len s) <? Z.min hi (len s)) eqn:E3.
  - rewrite len_firstn. lia.
  - change (len (@nil T)) with 0. lia.
Qed.

(* ---------------------------------------------------------------------- *)
(* the two scans *)

Lemma scan_right_spec l r s : forall i stack v,
  1 <= stack -> scan_right l r s i stack = Some v ->
  exists k : nat, v = i + Z.of_nat k /\ (k < length s)%nat /\ nth_error s k = Some r /\ r <> l /\
    stack + net l r (firstn k s) = 1 /\
    (forall j : nat, (j <= k)%nat -> 1 <= stack + net l r (firstn j s)).
Proof.
  induction s as [|c s IH]; intros i stack v Hst; cbn [scan_right]; [discriminate|]. cbv zeta.
  assert (Hstep : forall stack', 1 <= stack' ->
            (if c =? l then 1 else if c =? r then -1 else 0) = stack' - stack ->
            scan_right l r s (i + 1) stack' = Some v ->
            exists k : nat, v = i + Z.of_nat k /\ (k < length (c :: s))%nat /\
              nth_error (c :: s) k = Some r /\ r <> l /\
              stack + net l r (firstn k (c :: s)) = 1 /\
              (forall j : nat, (j <= k)%nat -> 1 <= stack + net l r (firstn j (c :: s)))).
  { intros stack' Hst' Hd H.
    destruct (IH _ _ _ Hst' H) as (k & Hv & Hk & Hn & Hrl & Hnet & Hpre).
    exists (S k). cbn [firstn net nth_error length].
    split; [lia|]. split; [lia|]. split; [exact Hn|]. split; [exact Hrl|]. split; [lia|].
    intros [|j] Hj; cbn [firstn net]; [lia|]. specialize (Hpre j ltac:(lia)). lia. }
  destruct (c =? l) eqn:El.
  - destruct (stack + 1 =? 0) eqn:E0; [lia|]. apply Hstep; lia.
  - destruct (c =? r) eqn:Er.
    + destruct (stack - 1 =? 0) eqn:E0.
      * intros H; injection H as <-. exists 0%nat. cbn [firstn net nth_error length].
        apply Z.eqb_eq in Er. subst c.
        split; [lia|]. split; [lia|]. split; [reflexivity|]. split; [lia|]. split; [lia|].
        intros j Hj. replace j with 0%nat by lia. cbn [firstn net]. lia.
      * apply Hstep; lia.
    + destruct (stack =? 0) eqn:E0; [lia|]. apply Hstep; lia.
Qed.

Lemma scan_left_spec l r s : forall k0 stack v,
  1 <= stack -> scan_left l r s k0 stack = Some v ->
  exists k : nat, v = - (k0 + Z.of_nat k) /\ (k < length s)%nat /\ nth_error s k = Some l /\ l <> r /\
    stack + net r l (firstn k s) = 1 /\
    (forall j : nat, (j <= k)%nat -> 1 <= stack + net r l (firstn j s)).
Proof.
  induction s as [|c s IH]; intros k0 stack v Hst; cbn [scan_left]; [discriminate|]. cbv zeta.
  assert (Hstep : forall stack', 1 <= stack' ->
            (if c =? r then 1 else if c =? l then -1 else 0) = stack' - stack ->
            scan_left l r s (k0 + 1) stack' = Some v ->
            exists k : nat, v = - (k0 + Z.of_nat k) /\ (k < length (c :: s))%nat /\
              nth_error (c :: s) k = Some l /\ l <> r /\
              stack + net r l (firstn k (c :: s)) = 1 /\
              (forall j : nat, (j <= k)%nat -> 1 <= stack + net r l (firstn j (c :: s)))).
  { intros stack' Hst' Hd H.
    destruct (IH _ _ _ Hst' H) as (k & Hv & Hk & Hn & Hrl & Hnet & Hpre).
    exists (S k). cbn [firstn net nth_error length].
    split; [lia|]. split; [lia|]. split; [exact Hn|]. split; [exact Hrl|]. split; [lia|].
    intros [|j] Hj; cbn [firstn net]; [lia|]. specialize (Hpre j ltac:(lia)). lia. }
  destruct (c =? r) eqn:Er.
  - destruct (stack + 1 =? 0) eqn:E0; [lia|]. apply Hstep; lia.
  - destruct (c =? l) eqn:El.
    + destruct (stack - 1 =? 0) eqn:E0.
      * intros H; injection H as <-. exists 0%nat. cbn [firstn net nth_error length].
        apply Z.eqb_eq in El. subst c.
        split; [lia|]. split; [lia|]. split; [reflexivity|]. split; [lia|]. split; [lia|].
        intros j Hj. replace j with 0%nat by lia. cbn [firstn net]. lia.
      * apply Hstep; lia.
    + destruct (stack =? 0) eqn:E0; [lia|]. apply Hstep; lia.
Qed.

(* ---------------------------------------------------------------------- *)
(* find_enclosing_bracket_right *)

Lemma opt_is_current d c :
  valid d -> opt_is (current_char d) c = true ->
  dcur d < len (dtext d) /\ nth_error (dtext d) (Z.to_nat (dcur d)) = Some c.
Proof.
  intros [H0 H1]. unfold opt_is, current_char.
  destruct (index (dtext d) (dcur d)) as [x|] eqn:E; [|discriminate].
  intros Hx. apply Z.eqb_eq in Hx. subst x. now apply index_some in E.
Qed.

Lemma enclosing_right_spec d l r ep v :
  valid d -> find_enclosing_bracket_right d l r ep = Some v ->
  0 <= v /\ dcur d + v < len (dtext d) /\
  nth_error (dtext d) (Z.to_nat (dcur d + v)) = Some r /\
  (forall e, ep = Some e -> v <> 0 -> dcur d + v < e) /\
  (0 < v -> r <> l /\
     balanced_span l r (firstn (Z.to_nat (v - 1)) (skipn (Z.to_nat (dcur d + 1)) (dtext d)))).
Proof.
  intros Hv. unfold find_enclosing_bracket_right. cbv zeta.
  destruct (opt_is (current_char d) r) eqn:Ec.
  - intros H; injection H as <-. destruct (opt_is_current d r Hv Ec) as [Hlt Hn].
    rewrite Z.add_0_r. split; [lia|]. split; [exact Hlt|]. split; [exact Hn|].
    split; [intros e _ Hne; lia|lia].
  - set (e := match ep with None => len (dtext d) | Some e => Z.min (len (dtext d)) e end).
    destruct (e <? 0) eqn:Ee; [discriminate|].
    intros H. apply scan_right_spec in H; [|lia].
    destruct H as (k & Hvk & Hk & Hn & Hrl & Hnet & Hpre).
    destruct Hv as [Hc0 Hc1].
    apply nth_error_slice2 in Hn as (Hn & Hlt & Hlt2 & Hsl); [|lia|lia].
    split; [lia|]. split; [lia|].
    split; [replace (Z.to_nat (dcur d + v)) with (Z.to_nat (dcur d + 1) + k)%nat by lia; exact Hn|].
    split.
    + intros e' He' _. subst ep. unfold e in Hlt. lia.
    + intros _. split; [exact Hrl|].
      assert (Hfk : forall j : nat, (j <= k)%nat ->
                firstn j (slice2 (dtext d) (dcur d + 1) e) = firstn j (skipn (Z.to_nat (dcur d + 1)) (dtext d))).
      { intros j Hj. rewrite Hsl. apply firstn_firstn_le. lia. }
      replace (Z.to_nat (v - 1)) with k by lia. split.
      * rewrite <- Hfk by lia. lia.
      * intros j. destruct (Nat.le_gt_cases j k) as [Hj|Hj].
        -- rewrite firstn_firstn_le by exact Hj. rewrite <- Hfk by exact Hj.
           specialize (Hpre j Hj). lia.
        -- rewrite firstn_firstn. replace (Nat.min j k) with k by lia.
           rewrite <- Hfk by lia. lia.
Qed.

(* ---------------------------------------------------------------------- *)
(* find_enclosing_bracket_left *)

Lemma slice2_rev_prefix (t : str) sp cur (k : nat) :
  0 <= sp -> sp <= cur -> cur <= len t -> Z.of_nat k <= cur - sp ->
  firstn k (rev (slice2 t sp cur)) = firstn k (rev (firstn (Z.to_nat cur) t)).
Proof.
  intros H0 H1 H2 Hk.
  rewrite slice2_in_range by lia.
  replace (Z.to_nat (cur - sp)) with (Z.to_nat cur - Z.to_nat sp)%nat by lia.
  rewrite <- skipn_firstn_comm.
  set (p := firstn (Z.to_nat cur) t).
  assert (Hp : length p = Z.to_nat cur).
  { unfold p. rewrite firstn_length. unfold len in H2. lia. }
  replace (rev (skipn (Z.to_nat sp) p)) with (firstn (length p - Z.to_nat sp) (rev p))
    by (rewrite firstn_rev; f_equal; f_equal; lia).
  apply firstn_firstn_le. lia.
Qed.

Lemma enclosing_left_spec d l r sp v :
  valid d -> find_enclosing_bracket_left d l r sp = Some v ->
  v <= 0 /\ 0 <= dcur d + v /\ dcur d + v < len (dtext d) /\
  nth_error (dtext d) (Z.to_nat (dcur d + v)) = Some l /\
  (forall s, sp = Some s -> v <> 0 -> s <= dcur d + v) /\
  (v < 0 -> l <> r /\
     balanced_span r l (firstn (Z.to_nat (- v - 1)) (rev (firstn (Z.to_nat (dcur d)) (dtext d))))).
Proof.
  intros Hv. unfold find_enclosing_bracket_left. cbv zeta.
  destruct (opt_is (current_char d) l) eqn:Ec.
  - intros H; injection H as <-. destruct (opt_is_current d l Hv Ec) as [Hlt Hn].
    rewrite Z.add_0_r. destruct Hv. split; [lia|]. split; [lia|]. split; [exact Hlt|].
    split; [exact Hn|]. split; [intros s _ Hne; lia|lia].
  - set (s0 := match sp with None => 0 | Some s => Z.max 0 s end).
    intros H. apply scan_left_spec in H; [|lia].
    destruct H as (k & Hvk & Hk & Hn & Hlr & Hnet & Hpre).
    destruct Hv as [Hc0 Hc1].
    apply nth_error_rev_some in Hn as [Hk' Hn].
    assert (Hs0 : 0 <= s0) by (unfold s0; destruct sp; lia).
    pose proof (slice2_len_le (dtext d) s0 (dcur d) Hs0 Hc0) as Hlen.
    assert (Hlen' : Z.of_nat (length (slice2 (dtext d) s0 (dcur d))) <= dcur d - s0).
    { unfold len in Hlen. lia. }
    apply nth_error_slice2 in Hn as (Hn & Hlt & Hlt2 & Hsl); [|lia|lia].
    (* the slice has exactly cur - s0 elements *)
    assert (Hexact : Z.of_nat (length (slice2 (dtext d) s0 (dcur d))) = dcur d - s0).
    { rewrite Hsl. rewrite firstn_length, skipn_length. unfold len in *. lia. }
    split; [lia|]. split; [lia|]. split; [lia|]. split; [|split].
    + replace (Z.to_nat (dcur d + v))
        with (Z.to_nat s0 + (length (slice2 (dtext d) s0 (dcur d)) - 1 - k))%nat by lia.
      exact Hn.
    + intros s Hs _. subst sp. unfold s0 in *. lia.
    + intros _. split; [exact Hlr|].
      rewrite length_rev_eq in Hk.
      assert (Hfk : forall j : nat, (j <= k)%nat ->
                firstn j (rev (slice2 (dtext d) s0 (dcur d))) =
                firstn j (rev (firstn (Z.to_nat (dcur d)) (dtext d)))).
      { intros j Hj. apply slice2_rev_prefix; lia. }
      replace (Z.to_nat (- v - 1)) with k by lia. split.
      * rewrite <- Hfk by lia. lia.
      * intros j. destruct (Nat.le_gt_cases j k) as [Hj|Hj].
        -- rewrite firstn_firstn_le by exact Hj. rewrite <- Hfk by exact Hj.
           specialize (Hpre j Hj). lia.
        -- rewrite firstn_firstn. replace (Nat.min j k) with k by lia.
           rewrite <- Hfk by lia. lia.
Qed.

(* ---------------------------------------------------------------------- *)
(* find_matching_bracket_position *)

Lemma matching_loop_spec d sp ep pairs :
  valid d ->
  let v := matching_bracket_loop d sp ep pairs in
  0 <= dcur d + v <= len (dtext d) /\
  (v <> 0 -> exists a b, In (a, b) pairs /\
     ((0 < v /\ opt_is (current_char d) a = true /\
       nth_error (dtext d) (Z.to_nat (dcur d + v)) = Some b /\
       balanced_span a b (firstn (Z.to_nat (v - 1)) (skipn (Z.to_nat (dcur d + 1)) (dtext d)))) \/
      (v < 0 /\ opt_is (current_char d) b = true /\
       nth_error (dtext d) (Z.to_nat (dcur d + v)) = Some a /\
       balanced_span b a (firstn (Z.to_nat (- v - 1)) (rev (firstn (Z.to_nat (dcur d)) (dtext d))))))).
Proof.
  intros Hv. cbv zeta. induction pairs as [|[a b] rest IH]; cbn [matching_bracket_loop].
  - destruct Hv as [Hv0 Hv1]. split; [lia|]. intros Hz; lia.
  - destruct (opt_is (current_char d) a) eqn:Ea.
    + destruct (find_enclosing_bracket_right d a b ep) as [v|] eqn:E.
      * destruct (enclosing_right_spec d a b ep v Hv E) as (H0 & H1 & H2 & _ & H4).
        destruct Hv as [Hv0 Hv1]. split; [lia|]. intros Hne. exists a, b. split; [now left|]. left.
        assert (0 < v) by lia. destruct (H4 ltac:(lia)) as [_ Hb]. repeat split; try assumption; apply Hb.
      * destruct Hv as [Hv0 Hv1]. split; [lia|]. intros Hz; lia.
    + destruct (opt_is (current_char d) b) eqn:Eb.
      * destruct (find_enclosing_bracket_left d a b sp) as [v|] eqn:E.
        -- destruct (enclosing_left_spec d a b sp v Hv E) as (H0 & H1 & H2 & H3 & _ & H5).
           destruct Hv as [Hv0 Hv1]. split; [lia|]. intros Hne. exists a, b. split; [now left|]. right.
           assert (Hneg : v < 0) by lia. destruct (H5 Hneg) as [_ Hb].
           split; [exact Hneg|]. split; [exact Eb|]. split; [exact H3|exact Hb].
        -- destruct Hv as [Hv0 Hv1]. split; [lia|]. intros Hz; lia.
      * destruct IH as [IH1 IH2]. split; [exact IH1|]. intros Hne.
        destruct (IH2 Hne) as (a' & b' & Hin & Hcase). exists a', b'. split; [now right|exact Hcase].
Qed.

Lemma matching_bracket_in_bounds d sp ep :
  valid d -> 0 <= dcur d + find_matching_bracket_position d sp ep <= len (dtext d).
Proof. intros Hv. apply (matching_loop_spec d sp ep bracket_pairs Hv). Qed.
