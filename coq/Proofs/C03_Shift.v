(* C03 - why the shift loop without "break" behaves like one with "break" on
   this table in the pass that follows a new character: every slice of length
   >= 2 of a pending string that is still a prefix of a longer match has no
   match itself, so the only slice the loop can match is the first character. *)
From Coq Require Import ZArith List Bool Lia.
From PTK Require Import Lib.Sx Lib.Py Lib.C03_Str Gen.C03_AnsiSequences Model.C03_Vt100Parser
  Model.C03_Break Proofs.C03_Table Proofs.C03_Process Proofs.C03_Lossless.
Import ListNotations.
Open Scope Z_scope.

(* ---------------------------------------------------------------------- *)
(* table facts, recomputed when the table changes *)

Definition opt_none {T} (o : option T) : bool := match o with None => true | Some _ => false end.

(* no key looks like a CPR/mouse prefix *)
Definition table_no_regex_prefix_b : bool :=
  forallb (fun kv => negb (cpr_prefix_re (fst kv)) && negb (mouse_prefix_re (fst kv))) ansi_table.
Lemma table_no_regex_prefix : table_no_regex_prefix_b = true.
Proof. vm_compute. reflexivity. Qed.

(* no proper prefix of length >= 2 of a key has a match *)
Definition table_inner_none_b : bool :=
  forallb (fun kv => forallb (fun j => opt_none (get_match (firstn j (fst kv))))
                             (seq 2 (length (fst kv) - 2))) ansi_table.
Lemma table_inner_none : table_inner_none_b = true.
Proof. vm_compute. reflexivity. Qed.

Lemma c_is_digit_60 : is_digit 60 = false. Proof. vm_compute. reflexivity. Qed.
Lemma c_is_digit_77 : is_digit 77 = false. Proof. vm_compute. reflexivity. Qed.
Lemma c_is_ds_77 : is_ds 77 = false. Proof. vm_compute. reflexivity. Qed.
Lemma c_is_ds_82 : is_ds 82 = false. Proof. vm_compute. reflexivity. Qed.

(* ---------------------------------------------------------------------- *)
(* the prefix patterns and the full patterns are disjoint *)

Lemma skip_digits_forallb (P : Z -> bool) s : forallb P s = true -> forallb P (skip_digits s) = true.
Proof.
  induction s as [|c s IH]; intros H; [reflexivity|]. cbn [skip_digits].
  destruct (is_digit c); [|exact H]. cbn [forallb] in H. apply andb_true_iff in H. now apply IH.
Qed.
Lemma digits1_forallb (P : Z -> bool) s u : digits1 s = Some u -> forallb P s = true -> forallb P u = true.
Proof.
  destruct s as [|c s]; cbn [digits1]; [discriminate|]. destruct (is_digit c); [|discriminate].
  intros E H. injection E as <-. cbn [forallb] in H. apply andb_true_iff in H. now apply skip_digits_forallb.
Qed.
Lemma skip_ds_all s : forallb is_ds s = true -> skip_ds s = [].
Proof.
  induction s as [|c s IH]; intros H; [reflexivity|]. cbn [forallb] in H. apply andb_true_iff in H.
  destruct H as [H1 H2]. cbn [skip_ds]. rewrite H1. now apply IH.
Qed.

Lemma all_ds_no_full r :
  forallb is_ds r = true -> cpr_re (27 :: 91 :: r) = false /\ mouse_re (27 :: 91 :: r) = false.
Proof.
  intros H. split.
  - unfold cpr_re. cbn [strip_csi]. rewrite !Z.eqb_refl. cbn [andb].
    destruct (digits1 r) as [u|] eqn:E1; [|reflexivity].
    pose proof (digits1_forallb is_ds _ _ E1 H) as Hu.
    destruct u as [|c r2]; [reflexivity|]. cbn [forallb] in Hu. apply andb_true_iff in Hu. destruct Hu as [_ Hr2].
    destruct (digits1 r2) as [w|] eqn:E2; [|apply andb_false_r].
    pose proof (digits1_forallb is_ds _ _ E2 Hr2) as Hw.
    destruct w as [|x [|y w']]; try apply andb_false_r.
    cbn [forallb] in Hw. rewrite andb_true_r in Hw.
    destruct (x =? 82) eqn:Ex; [|apply andb_false_r]. apply Z.eqb_eq in Ex. subst.
    rewrite c_is_ds_82 in Hw. discriminate.
  - unfold mouse_re. cbn [strip_csi]. rewrite !Z.eqb_refl. cbn [andb].
    apply orb_false_iff. split.
    + assert (Hs : forallb is_ds (strip_lt r) = true).
      { unfold strip_lt. destruct r as [|c t]; [reflexivity|]. destruct (c =? 60); [|exact H].
        cbn [forallb] in H. now apply andb_true_iff in H. }
      destruct (strip_lt r) as [|c t]; [reflexivity|]. cbn [forallb] in Hs. apply andb_true_iff in Hs.
      destruct Hs as [_ Ht]. rewrite (skip_ds_all _ Ht). apply andb_false_r.
    + destruct r as [|m [|a [|b [|c [|d r']]]]]; try reflexivity.
      cbn [forallb] in H. apply andb_true_iff in H. destruct H as [Hm _].
      destruct (m =? 77) eqn:Em; [|reflexivity]. apply Z.eqb_eq in Em. subst. rewrite c_is_ds_77 in Hm. discriminate.
Qed.

Lemma cpr_prefix_no_full p : cpr_prefix_re p = true -> cpr_re p = false /\ mouse_re p = false.
Proof.
  unfold cpr_prefix_re. destruct (strip_csi p) as [r|] eqn:E; [|discriminate].
  apply strip_csi_some in E. subst. apply all_ds_no_full.
Qed.

Lemma mouse_prefix_no_full p : mouse_prefix_re p = true -> cpr_re p = false /\ mouse_re p = false.
Proof.
  unfold mouse_prefix_re. destruct (strip_csi p) as [r|] eqn:E; [|discriminate].
  apply strip_csi_some in E. subst. intros H. apply orb_true_iff in H. destruct H as [H|H].
  - destruct r as [|c t]; [now apply all_ds_no_full|].
    unfold strip_lt in H. destruct (c =? 60) eqn:Ec; [|now apply all_ds_no_full].
    apply Z.eqb_eq in Ec. subst. split.
    + unfold cpr_re. cbn [strip_csi digits1]. rewrite !Z.eqb_refl. cbn [andb]. unfold digits1. now rewrite c_is_digit_60.
    + unfold mouse_re. cbn [strip_csi]. rewrite !Z.eqb_refl. cbn [andb]. unfold strip_lt.
      change (60 =? 60) with true. cbv iota. apply orb_false_iff. split.
      * destruct t as [|c t']; [reflexivity|]. cbn [forallb] in H. apply andb_true_iff in H. destruct H as [_ Ht].
        rewrite (skip_ds_all _ Ht). apply andb_false_r.
      * destruct t as [|a [|b [|c [|d r']]]]; reflexivity.
  - destruct r as [|m t]; [discriminate|].
    apply andb_true_iff in H. destruct H as [H _]. apply andb_true_iff in H. destruct H as [Hm Hl].
    apply Z.eqb_eq in Hm. subst. apply Nat.leb_le in Hl. split.
    + unfold cpr_re. cbn [strip_csi digits1]. rewrite !Z.eqb_refl. cbn [andb]. unfold digits1. now rewrite c_is_digit_77.
    + unfold mouse_re. cbn [strip_csi]. rewrite !Z.eqb_refl. cbn [andb]. unfold strip_lt.
      change (77 =? 60) with false. cbv iota. rewrite c_is_ds_77. cbn [andb orb].
      destruct t as [|a [|b [|c [|d r']]]]; try reflexivity. cbn [length] in Hl. lia.
Qed.

(* ---------------------------------------------------------------------- *)
(* a prefix of a longer match of length >= 2 has no match *)

Lemma lp_long_no_match p :
  is_prefix_longer p = true -> (2 <= length p)%nat -> get_match p = None.
Proof.
  unfold is_prefix_longer. intros H L.
  destruct (cpr_prefix_re p || mouse_prefix_re p) eqn:R.
  - assert (F : cpr_re p = false /\ mouse_re p = false).
    { apply orb_true_iff in R. destruct R as [R|R]; [now apply cpr_prefix_no_full|now apply mouse_prefix_no_full]. }
    destruct F as [F1 F2]. unfold get_match. rewrite F1, F2.
    destruct (lookup p ansi_table) as [v|] eqn:E; [|reflexivity]. exfalso.
    apply lookup_In in E.
    pose proof (proj1 (forallb_forall _ _) table_no_regex_prefix _ E) as T. cbn [fst] in T.
    apply andb_true_iff in T. destruct T as [T1 T2]. apply negb_true_iff in T1, T2.
    rewrite T1, T2 in R. discriminate.
  - unfold table_longer in H. apply existsb_exists in H. destruct H as [[k v] [HIn H]]. cbn [fst] in H.
    apply andb_true_iff in H. destruct H as [H1 H2]. apply negb_true_iff in H2. apply str_eqb_neq in H2.
    apply startswith_iff in H1. destruct H1 as [t ->].
    assert (Ht : t <> []) by (intros ->; rewrite app_nil_r in H2; congruence).
    pose proof (proj1 (forallb_forall _ _) table_inner_none _ HIn) as T. cbn [fst] in T.
    assert (Hj : In (length p) (seq 2 (length (p ++ t) - 2))).
    { apply in_seq. rewrite app_length. destruct t; [congruence|]. cbn [length]. lia. }
    pose proof (proj1 (forallb_forall _ _) T _ Hj) as T'. cbv beta in T'. cbn [fst] in T'.
    rewrite firstn_app, Nat.sub_diag, firstn_all in T'. cbn [firstn] in T'. rewrite app_nil_r in T'.
    destruct (get_match p); [discriminate|reflexivity].
Qed.

(* prefixes of length >= 2 of a prefix-of-longer-match are again such *)
Lemma forallb_firstn {T} (P : T -> bool) n s : forallb P s = true -> forallb P (firstn n s) = true.
Proof.
  revert s. induction n as [|n IH]; intros s H; [reflexivity|]. destruct s as [|x s]; [reflexivity|].
  cbn [forallb] in H. apply andb_true_iff in H. destruct H as [H1 H2]. cbn [firstn forallb]. rewrite H1. now apply IH.
Qed.

Lemma lp_firstn q j :
  is_prefix_longer q = true -> (2 <= j)%nat -> is_prefix_longer (firstn j q) = true.
Proof.
  intros H Hj. destruct j as [|[|j]]; try lia. unfold is_prefix_longer in *.
  destruct (cpr_prefix_re q) eqn:C.
  - unfold cpr_prefix_re in C. destruct (strip_csi q) as [r|] eqn:E; [|discriminate].
    apply strip_csi_some in E. subst. cbn [firstn].
    assert (X : cpr_prefix_re (27 :: 91 :: firstn j r) = true).
    { unfold cpr_prefix_re. cbn [strip_csi]. rewrite !Z.eqb_refl. cbn [andb]. now apply forallb_firstn. }
    now rewrite X.
  - destruct (mouse_prefix_re q) eqn:M; cbn [orb] in H.
    + unfold mouse_prefix_re in M. destruct (strip_csi q) as [r|] eqn:E; [|discriminate].
      apply strip_csi_some in E. subst. cbn [firstn].
      assert (X : mouse_prefix_re (27 :: 91 :: firstn j r) = true).
      { unfold mouse_prefix_re. cbn [strip_csi]. rewrite !Z.eqb_refl. cbn [andb].
        apply orb_true_iff in M. destruct M as [M|M].
        - apply orb_true_iff. left. destruct r as [|c t]; [destruct j; reflexivity|].
          destruct j as [|j]; [reflexivity|]. cbn [firstn]. unfold strip_lt in *.
          destruct (c =? 60); [now apply forallb_firstn|].
          change (c :: firstn j t) with (firstn (S j) (c :: t)). now apply forallb_firstn.
        - destruct r as [|m t]; [discriminate|]. destruct j as [|j]; [reflexivity|].
          apply orb_true_iff. right. cbn [firstn].
          apply andb_true_iff in M. destruct M as [M M3]. apply andb_true_iff in M. destruct M as [M1 M2].
          rewrite M1. cbn [andb]. apply andb_true_iff. split.
          + apply Nat.leb_le. apply Nat.leb_le in M2. rewrite firstn_length. lia.
          + now apply forallb_firstn. }
      rewrite X. now rewrite orb_true_r.
    + assert (X : table_longer (firstn (S (S j)) q) = true).
      { unfold table_longer in *. apply existsb_exists in H. destruct H as [[k v] [HIn H]]. cbn [fst] in H.
        apply andb_true_iff in H. destruct H as [H1 H2]. apply negb_true_iff in H2. apply str_eqb_neq in H2.
        apply startswith_iff in H1. destruct H1 as [t ->].
        apply existsb_exists. exists (q ++ t, v). split; [exact HIn|]. cbn [fst].
        apply andb_true_iff. split.
        - apply startswith_iff. exists (skipn (S (S j)) q ++ t). now rewrite app_assoc, firstn_skipn.
        - apply negb_true_iff. apply str_eqb_neq. intros E.
          apply (f_equal (@length Z)) in E. rewrite app_length, firstn_length in E.
          destruct t; [rewrite app_nil_r in H2; congruence|]. cbn [length] in E. lia. }
      rewrite X. now destruct (_ || _).
Qed.

Lemma lp_slices_no_match q j :
  is_prefix_longer q = true -> (2 <= j <= length q)%nat -> get_match (firstn j q) = None.
Proof.
  intros H Hj. apply lp_long_no_match; [apply lp_firstn; [exact H|lia]|].
  rewrite firstn_length. lia.
Qed.

(* ---------------------------------------------------------------------- *)
(* the loop with a break *)

(* [match_loop_brk] is defined in Model/C03_Break.v *)

Lemma match_loop_S i st found :
  match_loop (S i) st found =
  match get_match (firstn (S i) (prefix st)) with
  | Some ks => match_loop i (set_prefix (skipn (S i) (prefix st)) (call_handler ks (firstn (S i) (prefix st)) st)) true
  | None => match_loop i st found
  end.
Proof. reflexivity. Qed.
Lemma match_loop_brk_S i st :
  match_loop_brk (S i) st =
  match get_match (firstn (S i) (prefix st)) with
  | Some ks => (set_prefix (skipn (S i) (prefix st)) (call_handler ks (firstn (S i) (prefix st)) st), true)
  | None => match_loop_brk i st
  end.
Proof. reflexivity. Qed.

Lemma match_loop_skip n : forall st found,
  (forall j, (2 <= j <= S n)%nat -> get_match (firstn j (prefix st)) = None) ->
  match_loop (S n) st found = match_loop 1 st found.
Proof.
  induction n as [|n IH]; intros st found H; [reflexivity|].
  rewrite match_loop_S, (H (S (S n))) by lia. apply IH. intros j Hj. apply H. lia.
Qed.
Lemma match_loop_brk_skip n : forall st,
  (forall j, (2 <= j <= S n)%nat -> get_match (firstn j (prefix st)) = None) ->
  match_loop_brk (S n) st = match_loop_brk 1 st.
Proof.
  induction n as [|n IH]; intros st H; [reflexivity|].
  rewrite match_loop_brk_S, (H (S (S n))) by lia. apply IH. intros j Hj. apply H. lia.
Qed.

(* In the pass that follows a new character: pending q (still a prefix of a
   longer match, or empty) plus the character, no exact match - the loop as
   written and the loop with a break do the same. *)
Lemma first_pass_break_equiv st q c :
  prefix st = q ++ [c] -> (q = [] \/ is_prefix_longer q = true) -> get_match (q ++ [c]) = None ->
  match_loop (length (prefix st)) st false = match_loop_brk (length (prefix st)) st.
Proof.
  intros Hp Hq Hm.
  assert (N : forall j, (2 <= j <= length (prefix st))%nat -> get_match (firstn j (prefix st)) = None).
  { intros j Hj. rewrite Hp in *. rewrite app_length in Hj. cbn [length] in Hj.
    destruct (Nat.eq_dec j (length q + 1)) as [->|Hne].
    - replace (length q + 1)%nat with (length (q ++ [c])) by (rewrite app_length; reflexivity).
      now rewrite firstn_all.
    - rewrite firstn_app. replace (j - length q)%nat with 0%nat by lia. cbn [firstn]. rewrite app_nil_r.
      destruct Hq as [->|Hq]; [cbn [length] in *; lia|]. apply lp_slices_no_match; [exact Hq|lia]. }
  destruct (length (prefix st)) as [|n]; [reflexivity|].
  rewrite match_loop_skip by exact N. rewrite match_loop_brk_skip by exact N.
  rewrite match_loop_S, match_loop_brk_S. destruct (get_match (firstn 1 (prefix st))); reflexivity.
Qed.

(* The loop as written is "longest match first, repeatedly, with a decreasing
   length bound": whatever was found before, if the longest matching slice of
   length <= n is the one of length i, the loop emits it and goes on with the
   remainder and the bound i - 1.  A second key press in the same pass therefore
   is the longest matching slice of length < i of the remainder. *)
Lemma match_loop_unfold n : forall i st found ks,
  (1 <= i <= n)%nat ->
  (forall j, (i < j <= n)%nat -> get_match (firstn j (prefix st)) = None) ->
  get_match (firstn i (prefix st)) = Some ks ->
  match_loop n st found =
  match_loop (i - 1) (set_prefix (skipn i (prefix st)) (call_handler ks (firstn i (prefix st)) st)) true.
Proof.
  induction n as [|n IH]; intros i st found ks Hi Hnone Hm; [lia|].
  destruct (Nat.eq_dec i (S n)) as [->|Hneq].
  - rewrite match_loop_S, Hm. now rewrite Nat.sub_succ, Nat.sub_0_r.
  - rewrite match_loop_S, (Hnone (S n)) by lia. apply IH; try lia; auto. intros j Hj. apply Hnone. lia.
Qed.
