(* C09 - line-wise facts: pasting LINES data, dd / yy against the line list.
   Uses C02's proved row/column lemmas (Proofs/C02_Coords.v). *)
From Coq Require Import ZArith List Bool Lia PeanoNat.
From PTK Require Import Lib.Sx Lib.Py Model.Document Model.BufferEdit Proofs.BufferEditFacts
  Proofs.C02_Base Proofs.C02_Coords
  Model.C09_Kill Proofs.C09_Ring Proofs.C09_KillFacts Proofs.C09_YankFacts Proofs.C09_CutFacts.
Import ListNotations.
Open Scope Z_scope.

Lemma row_bounds d : valid d -> 0 <= cursor_position_row d < len (lines d).
Proof.
  intros Hv.
  assert (Hr : cursor_position_row d = fst (translate_index_to_position d (dcur d))).
  { unfold cursor_position_row, translate_index_to_position.
    destruct (find_line_start_index d (dcur d)); reflexivity. }
  destruct (translate_index_to_position d (dcur d)) as [row col] eqn:E.
  destruct (C02c_index_to_position_spec d (dcur d) row col Hv E) as (_ & _ & _ & _ & Hb & _).
  rewrite Hr. cbn [fst]. exact Hb.
Qed.

Lemma slice_to_clamped {T} (s : list T) n : 0 <= n -> slice_to s n = firstn (Z.to_nat n) s.
Proof.
  intros Hn. destruct (Z.le_gt_cases n (len s)).
  - apply slice_to_in_range; lia.
  - rewrite slice_to_over by lia. symmetry. apply firstn_all2. unfold len in *. lia.
Qed.

Lemma slice_from_skipn {T} (s : list T) n : 0 <= n -> slice_from s n = skipn (Z.to_nat n) s.
Proof.
  intros Hn. destruct (Z.le_gt_cases n (len s)).
  - apply slice_from_in_range; lia.
  - rewrite slice_from_over by lia. symmetry. apply skipn_all2. unfold len in *. lia.
Qed.

Lemma slice2_firstn_skipn {T} (s : list T) a n :
  0 <= a <= len s -> 0 <= n ->
  slice2 s a (a + n) = firstn (Z.to_nat n) (skipn (Z.to_nat a) s).
Proof.
  intros Ha Hn. rewrite slice2_clamped by lia.
  destruct (Z.le_gt_cases (a + n) (len s)).
  - rewrite Z.min_l by lia. f_equal. lia.
  - rewrite Z.min_r by lia.
    rewrite !firstn_all2; [reflexivity| |]; rewrite skipn_length; unfold len in *; lia.
Qed.

Lemma len_join_concat (A : list str) :
  len (join [NL] A) = len (concat_lines A) + Z.max 0 (len A - 1).
Proof.
  unfold concat_lines. induction A as [|x A IH]; [reflexivity|].
  destruct A as [|y A].
  - cbn [join concat]. rewrite app_nil_r. change (len [x]) with 1. lia.
  - rewrite join_cons2. cbn [concat] in *. rewrite !len_app, len_cons, IH.
    rewrite !len_app. rewrite !len_cons. pose proof (len_nonneg A). lia.
Qed.

Lemma repeat_list_nonempty {T} (x : T) n : 1 <= n -> repeat_list x (Z.to_nat n) <> [].
Proof.
  intros Hn. destruct (Z.to_nat n) eqn:E; [lia|]. cbn [repeat_list]. discriminate.
Qed.

(* Pasting LINES data n >= 1 times (p / P of a dd / yy / V register): the new
   text is the old line list with n copies of the data inserted below (p, emacs
   yank) or above (P) the cursor line; every old line is kept, in order. *)
Lemma doc_paste_lines d data mode n :
  valid d -> ctype data = LINES -> 1 <= n ->
  mode = EMACS \/ mode = VI_BEFORE \/ mode = VI_AFTER ->
  let ls := lines d in
  let at_ := if mode =? VI_BEFORE then cursor_position_row d else cursor_position_row d + 1 in
  exists c',
    doc_paste d data mode n =
    Some (join [NL] (firstn (Z.to_nat at_) ls ++ repeat_list (ctext data) (Z.to_nat n)
                     ++ skipn (Z.to_nat at_) ls), c').
Proof.
  intros Hv Hty Hn Hm ls at_. pose proof (row_bounds d Hv) as Hr. fold ls in Hr.
  unfold doc_paste. replace (n <? 1) with false by lia. rewrite Hty.
  change (LINES =? CHARACTERS) with false. change (LINES =? LINES) with true. cbv iota.
  fold ls. set (row := cursor_position_row d) in *.
  set (ins := repeat_list (ctext data) (Z.to_nat n)).
  assert (Hins : ins <> []) by (apply repeat_list_nonempty; exact Hn).
  assert (Hcur : forall k, 0 <= k <= len ls ->
            len (concat_lines (firstn (Z.to_nat k) ls)) + k
            <= len (join [NL] (firstn (Z.to_nat k) ls ++ ins ++ skipn (Z.to_nat k) ls))).
  { intros k Hk. set (A := firstn (Z.to_nat k) ls). set (B := ins ++ skipn (Z.to_nat k) ls).
    assert (HlA : len A = k) by (unfold A; rewrite len_firstn; lia).
    assert (HB : B <> []) by (unfold B; destruct ins; [congruence|discriminate]).
    rewrite join_app. pose proof (len_join_concat A) as HjA.
    pose proof (len_nonneg (join [NL] B)) as HjB.
    destruct A as [|a0 A'] eqn:EA.
    - change (len (@nil str)) with 0 in HlA. subst k.
      change (len (concat_lines (@nil str))) with 0. lia.
    - destruct B as [|b0 B']; [congruence|].
      rewrite !len_app, HjA, HlA. change (len [NL]) with 1. lia. }
  assert (Hat : at_ = if mode =? VI_BEFORE then row else row + 1) by reflexivity.
  destruct (mode =? VI_BEFORE) eqn:Eb.
  - rewrite slice_to_in_range, slice_from_in_range by lia.
    rewrite Hat. unfold mk_document.
    pose proof (Hcur row ltac:(lia)) as H1.
    match goal with |- context [len ?x <? ?y] => destruct (len x <? y) eqn:E end; [lia|].
    eexists; reflexivity.
  - rewrite slice_to_in_range, slice_from_in_range by lia.
    rewrite Hat. unfold mk_document.
    pose proof (Hcur (row + 1) ltac:(lia)) as H2.
    match goal with |- context [len ?x <? ?y] => destruct (len x <? y) eqn:E end; [lia|].
    eexists; reflexivity.
Qed.

(* dd with a count >= 0 on a consistent buffer, in list terms: the lines
   row .. row+count-1 go to the register, all other lines stay in order *)
Lemma vi_dd_firstn s arg :
  Inv (sb s) -> 0 <= arg ->
  let ls := lines (cur_doc s) in
  let row := cursor_position_row (cur_doc s) in
  exists s', vi_dd s arg = (0, s') /\
    btext (sb s') = join [NL] (firstn (Z.to_nat row) ls ++ skipn (Z.to_nat (row + arg)) ls) /\
    ring_get (sring s') = mkclip (join [NL] (firstn (Z.to_nat arg) (skipn (Z.to_nat row) ls))) LINES.
Proof.
  intros Hi Ha ls row.
  assert (Hv : valid (cur_doc s)) by exact Hi.
  pose proof (row_bounds _ Hv) as Hr. fold ls row in Hr.
  destruct (vi_dd_exact s arg) as [s' [Hd [Ht Hg]]].
  exists s'. split; [exact Hd|]. split.
  - rewrite Ht. unfold dd_spec. fold ls row.
    rewrite slice_to_in_range by lia. rewrite slice_from_skipn by lia. reflexivity.
  - rewrite Hg. fold ls row. rewrite slice2_firstn_skipn by lia. reflexivity.
Qed.

(* yy with a count >= 0: the register holds the count lines from the cursor line on *)
Lemma vi_yy_firstn s arg :
  Inv (sb s) -> 0 <= arg ->
  exists s', vi_yy s arg = (0, s') /\ sb s' = sb s /\
    ring_get (sring s') =
      mkclip (join [NL] (firstn (Z.to_nat arg)
                (skipn (Z.to_nat (cursor_position_row (cur_doc s))) (lines (cur_doc s))))) LINES.
Proof.
  intros Hi Ha.
  assert (Hv : valid (cur_doc s)) by exact Hi.
  pose proof (row_bounds _ Hv) as Hr.
  destruct (vi_yy_pure s arg) as [s' [Hy [Hb Hg]]].
  exists s'. split; [exact Hy|]. split; [exact Hb|].
  rewrite Hg. rewrite slice_from_skipn by lia. rewrite slice_to_clamped by lia. reflexivity.
Qed.

(* register fidelity end to end: reg-y in visual mode, then reg-p / reg-P with a
   count n: exactly n copies of the selected characters are inserted at the
   position the mode defines, nothing else changes *)
Lemma visual_register_yank_then_paste s orig r (before : bool) n :
  Inv (sb s) -> 0 <= orig <= len (btext (sb s)) -> is_register_name r = true ->
  selected_chars s orig <> [] ->
  exists s1 s2,
    vi_visual s (orig, CHARACTERS) 4 r = (0, s1) /\
    vi_paste_reg s1 r (if before then VI_BEFORE else VI_AFTER) n = (0, s2) /\
    let at_ := paste_at (if before then VI_BEFORE else VI_AFTER) (bcur (sb s)) (len (btext (sb s))) in
    btext (sb s2) = firstn (Z.to_nat at_) (btext (sb s))
                    ++ repeat_str (selected_chars s orig) (Z.to_nat n)
                    ++ skipn (Z.to_nat at_) (btext (sb s)) /\
    sregs s2 = sregs s1 /\ sring s2 = sring s.
Proof.
  intros Hi Ho Hr Hne.
  destruct (visual_register_yank s orig r Hi Ho Hr Hne) as [s1 [Hv [Hb [Hring [_ [Hg _]]]]]].
  exists s1. unfold vi_paste_reg. rewrite Hr, Hg.
  unfold buf_paste, cur_doc, bdoc. rewrite Hb.
  destruct Hi as [H0 H1].
  destruct (doc_paste_chars_n (btext (sb s)) (bcur (sb s)) (mkclip (selected_chars s orig) CHARACTERS)
              (if before then VI_BEFORE else VI_AFTER) n (conj H0 H1) eq_refl) as [c' Hd].
  { destruct before; [right; now left|right; now right]. }
  rewrite Hd. eexists. split; [exact Hv|]. split; [reflexivity|].
  cbn [with_dbp set_doc upd with_buf sb sring sregs btext ctext]. repeat split. exact Hring.
Qed.
