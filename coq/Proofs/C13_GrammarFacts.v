(* The history file as a grammar, and FileHistory.load_history_strings as its
   parser: parse (print doc) = the entries of doc, for EVERY document.

     doc   ::= item*
     item  ::= junk line | entry           (no two entries next to each other)
     junk  ::= any LF-free bytes not starting with '+', then "\n"
               ("# 2026-10-01 ..." comment lines, blank lines, foreign text,
                also bytes that are not UTF-8)
     entry ::= ('+' utf8(line) "\n")+      for the lines of string.split("\n")

   store_string writes  junk("") junk("# " ts) entry(s).  *)
From Coq Require Import ZArith List Bool Lia.
From PTK Require Import Lib.Sx Lib.Py Model.C13_Utf8 Model.C13_HistFile Proofs.C13_Utf8Facts Proofs.C13_HistFileFacts.
Import ListNotations.
Open Scope Z_scope.

Inductive item := Junk (j : bytes) | Entry (s : str).

Definition item_ok (it : item) : Prop :=
  match it with
  | Junk j => nolf j /\ match j with [] => True | b :: _ => b <> PLUS end
  | Entry s => forallb is_scalar s = true
  end.

Definition print_item (it : item) : bytes :=
  match it with Junk j => j ++ [NL] | Entry s => store_body s end.
Definition print_doc (d : list item) : bytes := flat_map print_item d.

Definition starts_entry (d : list item) : bool := match d with Entry _ :: _ => true | _ => false end.
Fixpoint separated (d : list item) : bool :=
  match d with
  | [] => true
  | Junk _ :: r => separated r
  | Entry _ :: r => negb (starts_entry r) && separated r
  end.
Definition entries (d : list item) : list str :=
  flat_map (fun it => match it with Entry s => [s] | Junk _ => [] end) d.

Lemma junk_nonplus j :
  item_ok (Junk j) -> startswith (utf8_dec (j ++ [NL])) [PLUS] = false.
Proof.
  intros [_ H]. destruct j as [|b t]; [exact nonplus_lf|]. cbn [app]. now apply nonplus_head.
Qed.

Lemma loop_doc d : forall st ln,
  Forall item_ok d -> separated d = true -> (starts_entry d = true -> ln = []) ->
  exists st' ln',
    (forall Y, load_loop (lines_of (print_doc d ++ Y)) st ln = load_loop (lines_of Y) st' ln')
    /\ add st' ln' = add st ln ++ entries d.
Proof.
  induction d as [|it d IH]; intros st ln Hok Hsep Hln.
  - exists st, ln. split; [reflexivity|]. cbn. now rewrite app_nil_r.
  - inversion Hok as [|? ? Hit Hr]; subst. destruct it as [j|s].
    + cbn [separated] in Hsep.
      destruct (IH (add st ln) [] Hr Hsep (fun _ => eq_refl)) as (st' & ln' & HY & Hadd).
      exists st', ln'. split.
      * intros Y. unfold print_doc. cbn [flat_map print_item]. rewrite <- !app_assoc. cbn [app].
        rewrite lines_of_app_lf by apply Hit.
        rewrite loop_nonplus by now apply junk_nonplus. apply HY.
      * rewrite Hadd. cbn [entries flat_map app]. now rewrite add_nil.
    + cbn [separated] in Hsep. apply andb_true_iff in Hsep as [Hne Hsep].
      rewrite (Hln eq_refl).
      assert (Hln' : starts_entry d = true -> elines s = []).
      { intros E. rewrite E in Hne. discriminate Hne. }
      destruct (IH st (elines s) Hr Hsep Hln') as (st' & ln' & HY & Hadd).
      exists st', ln'. split.
      * intros Y. unfold print_doc. cbn [flat_map print_item]. rewrite <- app_assoc.
        unfold store_body. rewrite loop_body by now apply split_lines_ok. cbn [app]. apply HY.
      * rewrite Hadd, add_elines, add_nil. cbn [entries flat_map app]. now rewrite <- app_assoc.
Qed.

(* parse o print = id: whatever comment lines, blank lines or foreign lines
   stand between them, the entries are read back exactly, newest first. *)
Theorem grammar_roundtrip d :
  Forall item_ok d -> separated d = true -> load_bytes (print_doc d) = rev (entries d).
Proof.
  intros Hok Hsep. unfold load_bytes.
  destruct (loop_doc d [] [] Hok Hsep (fun _ => eq_refl)) as (st' & ln' & HY & Hadd).
  specialize (HY []). rewrite app_nil_r in HY. rewrite HY. cbn [lines_of load_loop].
  rewrite Hadd. reflexivity.
Qed.

(* what store_string writes is a document of that grammar *)
Definition doc_of (rs : list (bytes * str)) : list item :=
  flat_map (fun r => [Junk []; Junk (hashline (fst r)); Entry (snd r)]) rs.

Lemma file_is_doc rs : file_of rs = print_doc (doc_of rs).
Proof.
  induction rs as [|r rs IH]; [reflexivity|].
  unfold file_of, doc_of, print_doc in *. cbn [flat_map print_item app]. rewrite <- IH.
  rewrite store_bytes_eq. cbn [app]. rewrite <- !app_assoc. reflexivity.
Qed.

Lemma doc_of_ok rs : Forall valid_rec rs ->
  Forall item_ok (doc_of rs) /\ separated (doc_of rs) = true /\ entries (doc_of rs) = map snd rs.
Proof.
  induction rs as [|r rs IH]; intros H; [repeat split; constructor|].
  inversion H as [|? ? [Hts Hs] Hr]; subst. destruct (IH Hr) as (H1 & H2 & H3).
  unfold doc_of in *. cbn [flat_map app]. split; [|split].
  - constructor; [split; [intros []|exact I]|]. constructor.
    + split; [now apply hashline_nolf|]. unfold hashline. discriminate.
    + constructor; [exact Hs|exact H1].
  - cbn [separated]. rewrite H2. destruct rs; reflexivity.
  - cbn [entries flat_map app map]. f_equal. exact H3.
Qed.

(* A cut right after a '+' marker (the first one of a record): the loader
   returns one EMPTY string for the record that was being written - that is
   the "at most the final entry damaged" of the property - and every earlier
   entry. *)
Theorem torn_after_plus rs ts :
  Forall valid_rec rs -> nolf ts ->
  load_bytes (file_of rs ++ store_head ts ++ [PLUS]) = [] :: rev (map snd rs).
Proof.
  intros H Hts. unfold load_bytes.
  destruct (loop_file rs [] [] H) as (st' & ln' & HY & Hadd). rewrite HY.
  assert (E : store_head ts ++ [PLUS] = NL :: (hashline ts ++ NL :: [PLUS])).
  { unfold store_head, hashline. cbn [app]. rewrite <- app_assoc. reflexivity. }
  rewrite E. cbn [lines_of]. rewrite Z.eqb_refl.
  rewrite loop_nonplus by exact nonplus_lf.
  rewrite lines_of_app_lf by now apply hashline_nolf.
  rewrite loop_nonplus by (apply nonplus_head; discriminate).
  rewrite add_nil. cbn [lines_of]. change (PLUS =? NL) with false. cbv iota.
  rewrite loop_plus. cbn [load_loop app]. rewrite Hadd. cbn [add app].
  rewrite rev_app_distr. reflexivity.
Qed.

Lemma file_is_doc_ok rs :
  file_of rs = print_doc (doc_of rs) /\
  (Forall valid_rec rs ->
   Forall item_ok (doc_of rs) /\ separated (doc_of rs) = true /\ entries (doc_of rs) = map snd rs).
Proof. split; [exact (file_is_doc rs)|exact (doc_of_ok rs)]. Qed.
