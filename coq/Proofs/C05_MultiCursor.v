(* C05: the multiple-cursor range invariant.  In Vi insert-multiple mode the
   five editing handlers keep every cursor of Buffer.multiple_cursor_positions
   inside the text (and the list non-decreasing).  Uses the index <-> (row,
   col) facts proved for C02 (Proofs/C02_Coords.v). *)
From Coq Require Import ZArith List Bool Lia.
From PTK Require Import Lib.Sx Lib.Py Model.Document Model.C05_Editor
  Proofs.C05_EditorFacts Proofs.C02_Coords.
Import ListNotations.
Open Scope Z_scope.

(* non-decreasing, starting at or above [lo] *)
Fixpoint msorted (lo : Z) (ps : list Z) : Prop :=
  match ps with
  | [] => True
  | p :: r => lo <= p /\ msorted p r
  end.

Definition upto (L : Z) (ps : list Z) : Prop := forall p, In p ps -> p <= L.

(* well-formed multiple cursors: sorted from 0 and not beyond the text *)
Definition MWF (s : est) : Prop := msorted 0 (emc s) /\ upto (len (et s)) (emc s).

Lemma msorted_weaken lo lo' ps : lo' <= lo -> msorted lo ps -> msorted lo' ps.
Proof. destruct ps as [|p r]; cbn [msorted]; [tauto|]. intros H [H1 H2]. split; [lia|exact H2]. Qed.

Lemma msorted_lower lo ps : msorted lo ps -> forall p, In p ps -> lo <= p.
Proof.
  revert lo; induction ps as [|q r IH]; intros lo H p Hp; [destruct Hp|].
  destruct H as [H1 H2]. destruct Hp as [<-|Hp]; [exact H1|]. specialize (IH q H2 p Hp). lia.
Qed.

Lemma MWF_MInv s : MWF s -> MInv s.
Proof.
  intros [Hs Hu] p Hp. split; [apply (msorted_lower 0 (emc s) Hs p Hp)|apply Hu, Hp].
Qed.

(* ---------------------------------------------------------------------- *)
(* positions computed as running sums of part lengths (Backspace, Delete) *)

Lemma accumulate_spec (parts : list str) : forall acc,
  msorted acc (accumulate (map len parts) acc) /\
  upto (acc + len (concat parts)) (accumulate (map len parts) acc).
Proof.
  induction parts as [|x r IH]; intros acc; cbn [map accumulate concat msorted].
  - split; [exact I|intros p []].
  - destruct (IH (acc + len x)) as [H1 H2]. pose proof (len_nonneg x).
    split; [split; [lia|exact H1]|].
    intros p [<-|Hp]; rewrite len_app; pose proof (len_nonneg (concat r)); [lia|].
    specialize (H2 p Hp). lia.
Qed.

(* ---------------------------------------------------------------------- *)
(* text and positions of _insert_text_multiple_cursors *)

Lemma len_mc_insert_text t data : forall ps p,
  0 <= p -> msorted p ps -> upto (len t) ps -> p <= len t ->
  len (mc_insert_text t ps p data) = len t - p + len ps * len data.
Proof.
  induction ps as [|p2 r IH]; intros p H0 Hs Hu Hp; cbn [mc_insert_text].
  - rewrite len_slice_from_in by lia. change (len (@nil Z)) with 0. lia.
  - destruct Hs as [H1 H2]. assert (Hp2 : p2 <= len t) by (apply Hu; now left).
    rewrite !len_app, slice2_in_range by lia. rewrite len_firstn, len_skipn.
    rewrite IH; [|lia|exact H2|intros q Hq; apply Hu; now right|exact Hp2].
    rewrite len_cons. lia.
Qed.

Lemma mc_shift_spec : forall ps i lo L,
  0 <= i -> msorted lo ps -> upto L ps ->
  msorted (lo + i) (mc_shift ps i) /\ upto (L + i + len ps) (mc_shift ps i).
Proof.
  induction ps as [|p r IH]; intros i lo L Hi Hs Hu; cbn [mc_shift msorted].
  - split; [exact I|intros q []].
  - destruct Hs as [H1 H2]. assert (HpL : p <= L) by (apply Hu; now left).
    destruct (IH (i + 1) p L ltac:(lia) H2 ltac:(intros q Hq; apply Hu; now right)) as [A B].
    rewrite len_cons. pose proof (len_nonneg r). split.
    + split; [lia|]. eapply msorted_weaken; [|exact A]. lia.
    + intros q [<-|Hq]; [lia|]. specialize (B q Hq). lia.
Qed.

(* ---------------------------------------------------------------------- *)
(* a monotone, nearly-identity map keeps the list sorted *)

Lemma msorted_map (R : Z -> Prop) (f : Z -> Z) : forall ps lo,
  (forall p q, R p -> R q -> p <= q -> f p <= f q) ->
  R lo -> (forall q, In q ps -> R q) -> msorted lo ps -> msorted (f lo) (map f ps).
Proof.
  induction ps as [|p r IH]; intros lo Hm Hlo HR Hs; cbn [map msorted]; [exact I|].
  destruct Hs as [H1 H2]. split.
  - apply Hm; [exact Hlo|apply HR; now left|exact H1].
  - apply IH; [exact Hm|apply HR; now left|intros q Hq; apply HR; now right|exact H2].
Qed.

(* ---------------------------------------------------------------------- *)
(* (row, col) facts from C02 *)

Lemma index_nth_default {T} (l : list T) k x d : index l k = Some x -> 0 <= k -> nth (Z.to_nat k) l d = x.
Proof.
  unfold index. intros H Hk. destruct (k <? 0) eqn:E; [lia|].
  destruct ((k <? 0) || (len l <=? k)); [discriminate|]. now apply nth_error_nth.
Qed.

Lemma col_le s p : 0 <= p <= len (et s) -> 0 <= ecol_of s p <= p.
Proof.
  intros Hp. unfold ecol_of.
  destruct (translate_index_to_position (edoc s) p) as [row col] eqn:E.
  destruct (C02c_index_to_position_spec (edoc s) p row col Hp E) as (_ & Hc & _). exact Hc.
Qed.

Lemma right_room s p l :
  0 <= p <= len (et s) ->
  index (lines (edoc s)) (erow_of s p) = Some l -> ecol_of s p < len l -> p + 1 <= len (et s).
Proof.
  intros Hp Hi Hlt. unfold erow_of, ecol_of in *.
  rewrite (translate_index_to_position_locate (edoc s) p Hp) in *. cbn [fst snd] in *.
  destruct (doc_struct (edoc s) p Hp) as (pre & post & Ht & Hpre & _ & _ & _ & _ & Hrow & _ & _).
  rewrite (index_nth_default _ _ l [] Hi (proj1 Hrow)) in Ht.
  change (dtext (edoc s)) with (et s) in Ht. rewrite Ht, !len_app.
  pose proof (len_nonneg post). lia.
Qed.

(* ---------------------------------------------------------------------- *)
(* set_text: what the text is afterwards *)

Lemma set_text_ok_text s v s1 : set_text s v = EOk s1 -> et s1 = v /\ emc s1 = emc s.
Proof.
  unfold set_text. set (s0 := if len v <? ec s then set_cursor s (len v) else s).
  assert (H0 : et s0 = et s /\ emc s0 = emc s).
  { unfold s0. destruct (len v <? ec s); [|tauto]. unfold set_cursor. destruct (_ =? ec s); tauto. }
  destruct (ero s0); [discriminate|]. destruct (str_eqb v (et s0)) eqn:E; intros H; injection H as <-.
  - apply str_eqb_eq in E. split; [now symmetry|tauto].
  - cbn [et emc with_tc]. tauto.
Qed.

Lemma set_text_err_state s v c s1 : set_text s v = EErr c s1 -> et s1 = et s /\ emc s1 = emc s.
Proof.
  unfold set_text. set (s0 := if len v <? ec s then set_cursor s (len v) else s).
  assert (H0 : et s0 = et s /\ emc s0 = emc s).
  { unfold s0. destruct (len v <? ec s); [|tauto]. unfold set_cursor. destruct (_ =? ec s); tauto. }
  destruct (ero s0).
  - intros H. injection H as Hc Hs1. subst s1. exact H0.
  - destruct (str_eqb _ _); discriminate.
Qed.

Lemma set_cursor_mc s v : emc (set_cursor s v) = emc s.
Proof. unfold set_cursor. destruct (_ =? ec s); reflexivity. Qed.

Lemma MWF_same s s' : et s' = et s -> emc s' = emc s -> MWF s -> MWF s'.
Proof. unfold MWF. intros -> ->. tauto. Qed.

(* ---------------------------------------------------------------------- *)
(* the five handlers *)

Definition multi_handler (h : handler) : Prop :=
  h = HViInsertMulti \/ h = HViBackspaceMulti \/ h = HViDeleteMulti \/ h = HViLeftMulti \/ h = HViRightMulti.

Lemma run_multi_wf h s arg data :
  multi_handler h -> MWF s -> (h = HViInsertMulti -> 1 <= len data) ->
  MWF (eres_st (run_handler h s arg data)).
Proof.
  intros Hh HW Hd. pose proof HW as [Hs Hu].
  destruct Hh as [ -> | [ -> | [ -> | [ -> | -> ] ] ] ]; cbn [run_handler].
  - (* insert at every cursor *)
    specialize (Hd eq_refl).
    destruct (set_text s (mc_insert_text (et s) (emc s) 0 data)) as [s1|c s1] eqn:E; cbn [ebind eres_st].
    + destruct (set_text_ok_text _ _ _ E) as [Ht Hm].
      unfold MWF. rewrite set_cursor_text, set_cursor_mc. cbn [et emc with_mc]. rewrite Ht.
      rewrite len_mc_insert_text by (try lia; try assumption; apply len_nonneg).
      destruct (mc_shift_spec (emc s) 0 0 (len (et s)) ltac:(lia) Hs Hu) as [A B].
      split; [exact A|]. intros p Hp. specialize (B p Hp). pose proof (len_nonneg (emc s)). nia.
    + destruct (set_text_err_state _ _ _ _ E) as [Ht Hm]. now apply (MWF_same s).
  - (* backspace *)
    destruct (mc_backspace_parts (et s) (emc s) 0) as [parts del].
    destruct (existsb _ _); cbn [eres_st]; [exact HW|]. destruct del; cbn [eres_st]; [|exact HW].
    destruct (set_text s _) as [s1|c s1] eqn:E; cbn [ebind eres_st].
    + destruct (set_text_ok_text _ _ _ E) as [Ht Hm].
      unfold MWF. rewrite set_cursor_text, set_cursor_mc. cbn [et emc with_mc]. rewrite Ht, len_app.
      destruct (accumulate_spec parts 0) as [A B]. split; [exact A|].
      intros p Hp. specialize (B p Hp).
      match goal with |- context [len (slice_from ?a ?b)] => pose proof (len_nonneg (slice_from a b)) end. lia.
    + destruct (set_text_err_state _ _ _ _ E) as [Ht Hm]. now apply (MWF_same s).
  - (* delete *)
    destruct (mc_delete_parts (et s) (emc s) 0) as [[parts pf] del].
    destruct del; cbn [eres_st]; [|exact HW].
    destruct (set_text s _) as [s1|c s1] eqn:E; cbn [ebind eres_st].
    + destruct (set_text_ok_text _ _ _ E) as [Ht Hm].
      unfold MWF. cbn [et emc with_mc]. rewrite Ht, len_app.
      destruct (accumulate_spec parts 0) as [A B]. split; [exact A|].
      intros p Hp. specialize (B p Hp).
      match goal with |- context [len (slice_from ?a ?b)] => pose proof (len_nonneg (slice_from a b)) end. lia.
    + destruct (set_text_err_state _ _ _ _ E) as [Ht Hm]. now apply (MWF_same s).
  - (* left *)
    set (f := fun p => if 0 <? ecol_of s p then p - 1 else p).
    assert (HR : forall q, In q (emc s) -> 0 <= q <= len (et s)) by (apply MWF_MInv, HW).
    assert (Hf : forall q, 0 <= q <= len (et s) -> q - 1 <= f q <= q /\ 0 <= f q).
    { intros q Hq. unfold f. pose proof (col_le s q Hq). destruct (0 <? ecol_of s q) eqn:E; lia. }
    assert (HW' : MWF (with_mc s (map f (emc s)))).
    { unfold MWF; cbn [et emc with_mc]. split.
      - apply (msorted_weaken (f 0)); [pose proof (len_nonneg (et s)); apply Hf; lia|].
        apply (msorted_map (fun q => 0 <= q <= len (et s))); [|pose proof (len_nonneg (et s)); lia|exact HR|exact Hs].
        intros p q Hp Hq Hpq. destruct (Z.eq_dec p q) as [->|]; [lia|].
        pose proof (Hf p Hp). pose proof (Hf q Hq). lia.
      - intros p Hp. apply in_map_iff in Hp as (q & <- & Hq). pose proof (Hf q (HR q Hq)). specialize (Hu q Hq). lia. }
    match goal with |- context [if ?c then _ else _] => destruct c end; cbn [eres_st]; [|exact HW'].
    apply (MWF_same (with_mc s (map f (emc s)))); [apply set_cursor_text|apply set_cursor_mc|exact HW'].
  - (* right *)
    set (g := fun p => match index (lines (edoc s)) (erow_of s p) with
                       | Some l => if ecol_of s p <? len l then p + 1 else p
                       | None => p end).
    assert (HR : forall q, In q (emc s) -> 0 <= q <= len (et s)) by (apply MWF_MInv, HW).
    assert (Hg : forall q, 0 <= q <= len (et s) -> q <= g q <= q + 1 /\ g q <= len (et s)).
    { intros q Hq. unfold g. destruct (index (lines (edoc s)) (erow_of s q)) as [l|] eqn:Ei; [|lia].
      destruct (ecol_of s q <? len l) eqn:E; [|lia].
      pose proof (right_room s q l Hq Ei ltac:(lia)). lia. }
    assert (HW' : MWF (with_mc s (map g (emc s)))).
    { unfold MWF; cbn [et emc with_mc]. split.
      - apply (msorted_weaken (g 0)); [pose proof (len_nonneg (et s)); pose proof (Hg 0 ltac:(lia)); lia|].
        apply (msorted_map (fun q => 0 <= q <= len (et s))); [|pose proof (len_nonneg (et s)); lia|exact HR|exact Hs].
        intros p q Hp Hq Hpq. destruct (Z.eq_dec p q) as [->|]; [lia|].
        pose proof (Hg p Hp). pose proof (Hg q Hq). lia.
      - intros p Hp. apply in_map_iff in Hp as (q & <- & Hq). apply Hg, HR, Hq. }
    match goal with |- context [if ?c then _ else _] => destruct c end; cbn [eres_st]; [exact HW'|].
    apply (MWF_same (with_mc s (map g (emc s)))); [apply set_cursor_text|apply set_cursor_mc|exact HW'].
Qed.

(* ... and through _call_handler (the cursor fix-up and leaving temporary
   navigation mode touch neither the text nor the cursors) *)
Lemma fix_vi_text_mc s : et (fix_vi_cursor_position s) = et s /\ emc (fix_vi_cursor_position s) = emc s.
Proof.
  unfold fix_vi_cursor_position. destruct (_ && _ && _); [|tauto].
  unfold with_pref; cbn [et emc with_tc]. rewrite set_cursor_text, set_cursor_mc. tauto.
Qed.

Lemma call_multi_wf h s arg data :
  multi_handler h -> MWF s -> (h = HViInsertMulti -> 1 <= len data) ->
  MWF (eres_st (call_handler h s arg data)).
Proof.
  intros Hh HW Hd. pose proof (run_multi_wf h s arg data Hh HW Hd) as H1.
  unfold call_handler.
  assert (Hgen : forall s1, MWF s1 ->
     MWF ((fun s1 => if vtemp s && evi s1 && negb (vop s1)
                     then with_vi s1 (vmode s1) (vop s1) (voparg s1) (vdig s1) false else s1)
            (fix_vi_cursor_position s1))).
  { intros s1 W. destruct (fix_vi_text_mc s1) as [A B].
    destruct (_ && _ && _); apply (MWF_same s1); cbn [et emc with_vi]; assumption. }
  destruct (run_handler h s arg data) as [s1|c s1]; cbn [eres_st] in *.
  - now apply (Hgen s1).
  - destruct (c =? E_READONLY); cbn [eres_st]; [now apply (Hgen s1)|exact H1].
Qed.

(* sequences of insert-multiple editing keys *)
Definition mstep (s : est) (k : handler * Z * str) : est :=
  let '(h, arg, data) := k in eres_st (call_handler h s arg data).

Lemma multi_steps_wf ks : forall s,
  (forall h a d, In (h, a, d) ks -> multi_handler h /\ (h = HViInsertMulti -> 1 <= len d)) ->
  MWF s -> MWF (fold_left mstep ks s).
Proof.
  induction ks as [|[[h a] d] ks IH]; intros s Hk HW; cbn [fold_left]; [exact HW|].
  apply IH; [intros h' a' d' Hin; apply (Hk h' a' d'); now right|].
  cbn [mstep]. destruct (Hk h a d ltac:(now left)) as [Hm Hd]. now apply call_multi_wf.
Qed.
