(* C02 - find_backwards in whole-text coordinates (no mirrored text in the
   statement), and has_match_at_current_position exactly. *)
From Coq Require Import ZArith List Bool Lia Sorted.
From PTK Require Import Lib.Sx Lib.Py Gen.Whitespace Model.Document Model.C02_DocQueries
  Proofs.C02_Base Proofs.C02_Find Proofs.C02_FindExact.
Import ListNotations.
Open Scope Z_scope.

(* where the scanned text starts: 0, or the start of the current line *)
Definition back_lo (d : doc) (il : bool) : Z :=
  if il then dcur d - len (current_line_before_cursor d) else 0.

Lemma skipn_len_app {T} (p x : list T) : skipn (Z.to_nat (len p)) (p ++ x) = x.
Proof.
  rewrite Z2N_len, skipn_app, skipn_all, Nat.sub_diag. reflexivity.
Qed.

(* an occurrence in a segment m of p ++ m ++ q is an occurrence in the whole
   that lies inside the segment *)
Lemma occ_segment ceq sub (p m q : str) k : 0 <= k ->
  (occ ceq sub m k <->
   occ ceq sub (p ++ m ++ q) (len p + k) /\ len p + k + len sub <= len p + len m).
Proof.
  intros Hk. rewrite (occ_prefix ceq sub m q k).
  rewrite <- (skipn_len_app p (m ++ q)) at 1.
  rewrite (occ_skipn ceq sub (p ++ m ++ q) (len p) k).
  - split; intros [H1 H2]; (split; [exact H1|lia]).
  - rewrite len_app. pose proof (len_nonneg p). pose proof (len_nonneg (m ++ q)). lia.
  - exact Hk.
Qed.

Definition back_text (d : doc) (il : bool) : str :=
  if il then current_line_before_cursor d else text_before_cursor d.

(* the text as prefix ++ scanned segment ++ text after the cursor *)
Lemma back_decomp d (il : bool) : valid d ->
  exists p,
    dtext d = p ++ (back_text d il) ++ text_after_cursor d /\
    len p = back_lo d il /\
    len p + len (back_text d il) = dcur d.
Proof.
  intros Hv. unfold back_lo, back_text. destruct il; cbv iota.
  - destruct (clb_split d) as [p [Hp _]]. exists p.
    pose proof (f_equal (@len Z) Hp) as HL. rewrite len_app, (len_tb d Hv) in HL.
    split; [|lia]. rewrite <- (tb_ta d Hv) at 1. rewrite Hp at 1. now rewrite <- app_assoc.
  - exists []. cbn [app]. split; [now rewrite (tb_ta d Hv)|]. rewrite (len_tb d Hv).
    change (len (@nil Z)) with 0. lia.
Qed.

Lemma back_pred ceq d sub (il : bool) q : valid d -> 0 <= q ->
  (occ ceq (rev sub) (rev (back_text d il)) q <->
   occ ceq sub (dtext d) (dcur d - q - len sub) /\ back_lo d il <= dcur d - q - len sub).
Proof.
  intros Hv Hq. destruct (back_decomp d il Hv) as [p [Ht [Hp Hc]]].
  remember (back_text d il) as before eqn:Eb. clear Eb.
  rewrite occ_rev.
  destruct (Z_lt_dec (len before - q - len sub) 0) as [Hneg|Hpos].
  - split.
    + intros [[H0 _] _]. exfalso. lia.
    + intros [_ H]. exfalso. lia.
  - rewrite (occ_segment ceq sub p before (text_after_cursor d)) by lia. rewrite <- Ht.
    replace (len p + (len before - q - len sub)) with (dcur d - q - len sub) by lia.
    split; intros [H1 H2]; (split; [exact H1|lia]).
Qed.

Lemma fstep_rev sub : fstep (rev sub) = fstep sub.
Proof. unfold fstep. now rewrite len_rev. Qed.

Lemma fstep_nonneg sub : 0 <= fstep sub.
Proof. unfold fstep. lia. Qed.

(* find_backwards in whole-text coordinates, also for in_current_line: q is
   the distance from the cursor back to the END of an occurrence; the answers
   are the greedy enumeration (nearest first, the next one at least
   max(1, len sub) further away) of the q >= 0 such that sub occurs in the TEXT
   at cursor - q - len sub and that start is not before lo (0, or the start of
   the current line). *)
Theorem find_backwards_exact_text ceq d sub (il : bool) count l :
  valid d ->
  greedy (fun q => occ ceq sub (dtext d) (dcur d - q - len sub) /\ back_lo d il <= dcur d - q - len sub)
         (fstep sub) 0 l ->
  dfind_backwards ceq d sub il count = option_map (fun q => - q - len sub) (nth_match l count).
Proof.
  intros Hv G. apply find_backwards_exact. cbv zeta.
  change (greedy (occ ceq (rev sub) (rev (back_text d il))) (fstep sub) 0 l).
  refine (greedy_ext _ _ (fstep sub) (fstep_nonneg sub) 0 l _ G).
  intros k Hk. symmetry. now apply back_pred.
Qed.

(* such a list always exists (and is unique: greedy_unique) *)
Lemma find_backwards_greedy_exists ceq d sub (il : bool) : valid d ->
  exists l,
    greedy (fun q => occ ceq sub (dtext d) (dcur d - q - len sub) /\ back_lo d il <= dcur d - q - len sub)
           (fstep sub) 0 l.
Proof.
  intros Hv.
  exists (find_iter ceq (rev sub) (rev (back_text d il))).
  pose proof (find_iter_greedy ceq (rev sub)
                (rev (back_text d il))) as G0.
  rewrite fstep_rev in G0. unfold back_text at 1.
  refine (greedy_ext _ _ (fstep sub) (fstep_nonneg sub) 0 _ _ G0).
  intros k Hk. now apply back_pred.
Qed.

(* count = 1 is the nearest occurrence that ends at or before the cursor (and
   starts at or after lo); None iff there is none *)
Theorem find_backwards_first_is_nearest ceq d sub (il : bool) :
  valid d ->
  (forall r, dfind_backwards ceq d sub il 1 = Some r ->
     forall k, occ ceq sub (dtext d) k -> back_lo d il <= k -> k + len sub <= dcur d -> k <= dcur d + r) /\
  (dfind_backwards ceq d sub il 1 = None ->
     forall k, occ ceq sub (dtext d) k -> back_lo d il <= k -> k + len sub <= dcur d -> False).
Proof.
  intros Hv. destruct (find_backwards_greedy_exists ceq d sub il Hv) as [l G].
  rewrite (find_backwards_exact_text ceq d sub il 1 l Hv G).
  assert (Hq : forall k, occ ceq sub (dtext d) k -> back_lo d il <= k -> k + len sub <= dcur d ->
                0 <= dcur d - k - len sub /\
                (occ ceq sub (dtext d) (dcur d - (dcur d - k - len sub) - len sub) /\
                 back_lo d il <= dcur d - (dcur d - k - len sub) - len sub)).
  { intros k Ho Hlo Hhi. split; [lia|].
    replace (dcur d - (dcur d - k - len sub) - len sub) with k by lia. split; assumption. }
  unfold nth_match. change (1 <? 1) with false. change (Z.to_nat (1 - 1)) with 0%nat.
  inversion G as [f Hno|f m l' Hm HP Hlt Hg]; subst; cbn [nth_error option_map]; split.
  - intros r Hr. discriminate.
  - intros _ k Ho Hlo Hhi. destruct (Hq k Ho Hlo Hhi) as [H0 HQ]. exact (Hno _ H0 HQ).
  - intros r Hr k Ho Hlo Hhi. injection Hr as <-. destruct (Hq k Ho Hlo Hhi) as [H0 HQ].
    destruct (Z_lt_dec (dcur d - k - len sub) m) as [Hl|Hl]; [|lia].
    exfalso. apply (Hlt (dcur d - k - len sub)); [lia|exact HQ].
  - intros H. discriminate.
Qed.

(* ---------------------------------------------------------------------- *)
(* has_match_at_current_position *)

Lemma startswith_is_by s : forall p, startswith s p = startswith_by ceq_exact s p.
Proof.
  induction s as [|x s IH]; intros [|y p]; cbn [startswith startswith_by]; try reflexivity.
  unfold ceq_exact at 1. now rewrite IH.
Qed.

(* self.text.find(sub, cursor) == cursor: exactly "sub occurs in the text at
   the cursor (and fits)" *)
Theorem has_match_exact d sub : valid d ->
  (has_match_at_current_position d sub = true <-> occ ceq_exact sub (dtext d) (dcur d)).
Proof.
  intros Hv. unfold has_match_at_current_position, occ, occurs_at.
  rewrite startswith_is_by, (ta_skipn d Hv). destruct Hv as [H0 H1]. split.
  - intros H. split; [split; [exact H0|exact H]|].
    apply (startswith_by_len ceq_exact) in H. rewrite len_skipn in H. lia.
  - intros [[_ H] _]. exact H.
Qed.
