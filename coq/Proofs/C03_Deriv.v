(* C03 - the derivative matcher decides the declarative semantics of the
   regular-expression ASTs, hence each hand recogniser IS the matcher run on
   the AST regenerated from /repo's pattern string, for all strings. *)
From Coq Require Import ZArith List Bool Lia.
From PTK Require Import Lib.Sx Lib.Py Lib.C03_Regex Gen.C03_AnsiSequences Gen.C03_Regexes
  Model.C03_Vt100Parser Model.C03_RegexMatch Proofs.C03_Regex.
Import ListNotations.
Open Scope Z_scope.

Lemma m_none s : ~ matches RNone s.
Proof. intros H. inversion H. Qed.

Lemma m_eps_inv s : matches REps s -> s = [].
Proof. intros H. now inversion H. Qed.

Lemma star_nil_or_cons a s :
  matches (RStar a) s -> s = [] \/ exists c s1 s2, s = c :: s1 ++ s2 /\ matches a (c :: s1) /\ matches (RStar a) s2.
Proof.
  intros H. remember (RStar a) as r eqn:Er. induction H; try discriminate Er.
  - now left.
  - injection Er as ->. destruct s1 as [|c s1].
    + cbn [app]. now apply IHmatches2.
    + right. exists c, s1, s2. auto.
Qed.

Lemma nullable_spec r : nullable r = true <-> matches r [].
Proof.
  induction r as [| |cs|a IHa b IHb|a IHa b IHb|a IHa|a IHa|a IHa]; cbn [nullable].
  - split; [discriminate|intros H; now apply m_none in H].
  - split; [intros _; constructor|reflexivity].
  - split; [discriminate|intros H; apply m_set_inv in H; destruct H as (c & E & _); discriminate E].
  - rewrite andb_true_iff, IHa, IHb. split.
    + intros [H1 H2]. change (@nil Z) with (@nil Z ++ []). now constructor.
    + intros H. apply m_cat_inv in H. destruct H as (s1 & s2 & E & H1 & H2).
      symmetry in E. apply app_eq_nil in E. destruct E as [-> ->]. now split.
  - rewrite orb_true_iff, IHa, IHb. split.
    + intros [H|H]; [now apply MAltL|now apply MAltR].
    + apply m_alt_inv.
  - split; [intros _; constructor|reflexivity].
  - rewrite IHa. split.
    + intros H. change (@nil Z) with (@nil Z ++ []). apply MPlus; [exact H|constructor].
    + intros H. apply m_plus_inv in H. destruct H as (s1 & s2 & E & H1 & _).
      symmetry in E. apply app_eq_nil in E. destruct E as [-> _]. exact H1.
  - split; [intros _; constructor|reflexivity].
Qed.

Lemma star_step a c s1 s2 : matches a (c :: s1) -> matches (RStar a) s2 -> matches (RStar a) (c :: s1 ++ s2).
Proof. intros H1 H2. change (c :: s1 ++ s2) with ((c :: s1) ++ s2). now constructor. Qed.

Lemma deriv_spec r : forall c s, matches (deriv c r) s <-> matches r (c :: s).
Proof.
  induction r as [| |cs|a IHa b IHb|a IHa b IHb|a IHa|a IHa|a IHa]; intros c s; cbn [deriv].
  - split; intros H; now apply m_none in H.
  - split; intros H; [now apply m_none in H|apply m_eps_inv in H; discriminate H].
  - destruct (cset_mem cs c) eqn:E; split; intros H.
    + apply m_eps_inv in H. subst. now constructor.
    + apply m_set_inv in H. destruct H as (c' & E' & _). injection E' as _ ->. constructor.
    + now apply m_none in H.
    + apply m_set_inv in H. destruct H as (c' & E' & M). injection E' as <- _. congruence.
  - split; intros H.
    + apply m_alt_inv in H. destruct H as [H|H].
      * apply m_cat_inv in H. destruct H as (s1 & s2 & -> & H1 & H2). apply IHa in H1.
        change (c :: s1 ++ s2) with ((c :: s1) ++ s2). now constructor.
      * destruct (nullable a) eqn:N; [|now apply m_none in H].
        apply nullable_spec in N. apply IHb in H. change (c :: s) with ([] ++ c :: s). now constructor.
    + apply m_cat_inv in H. destruct H as (s1 & s2 & E & H1 & H2). destruct s1 as [|x s1].
      * cbn [app] in E. subst s2. apply MAltR. apply nullable_spec in H1. rewrite H1. now apply IHb.
      * cbn [app] in E. injection E as <- ->. apply MAltL. constructor; [now apply IHa|exact H2].
  - split; intros H.
    + apply m_alt_inv in H. destruct H as [H|H]; [apply MAltL; now apply IHa|apply MAltR; now apply IHb].
    + apply m_alt_inv in H. destruct H as [H|H]; [apply MAltL; now apply IHa|apply MAltR; now apply IHb].
  - split; intros H.
    + apply m_cat_inv in H. destruct H as (s1 & s2 & -> & H1 & H2). apply IHa in H1. now apply star_step.
    + apply star_nil_or_cons in H. destruct H as [E|(c' & s1 & s2 & E & H1 & H2)]; [discriminate E|].
      injection E as <- ->. constructor; [now apply IHa|exact H2].
  - split; intros H.
    + apply m_cat_inv in H. destruct H as (s1 & s2 & -> & H1 & H2). apply IHa in H1.
      change (c :: s1 ++ s2) with ((c :: s1) ++ s2). now apply MPlus.
    + apply m_plus_inv in H. destruct H as (s1 & s2 & E & H1 & H2). destruct s1 as [|x s1].
      * cbn [app] in E. subst s2. apply star_nil_or_cons in H2.
        destruct H2 as [E|(c' & t1 & t2 & E & G1 & G2)]; [discriminate E|].
        injection E as <- ->. constructor; [now apply IHa|exact G2].
      * cbn [app] in E. injection E as <- ->. constructor; [now apply IHa|exact H2].
  - split; intros H.
    + apply MOpt1. now apply IHa.
    + apply m_opt_inv in H. destruct H as [E|H]; [discriminate E|now apply IHa].
Qed.

(* the matcher decides the language, for every AST and every string *)
Lemma dmatch_spec s : forall r, dmatch r s = true <-> matches r s.
Proof.
  unfold dmatch. induction s as [|c s IH]; intros r; cbn [fold_left].
  - apply nullable_spec.
  - rewrite IH. apply deriv_spec.
Qed.

Lemma bool_eq_of_iff (a b : bool) (P : Prop) : (a = true <-> P) -> (b = true <-> P) -> a = b.
Proof.
  intros [A1 A2] [B1 B2]. destruct a, b; try reflexivity.
  - symmetry. apply B2, A1. reflexivity.
  - apply A2, B1. reflexivity.
Qed.

(* each hand recogniser is the matcher on the regenerated AST *)
Lemma cpr_re_is_dmatch p : cpr_re p = dmatch ast_cpr_response_re p.
Proof. apply (bool_eq_of_iff _ _ _ (cpr_re_regex p) (dmatch_spec p _)). Qed.
Lemma mouse_re_is_dmatch p : mouse_re p = dmatch ast_mouse_event_re p.
Proof. apply (bool_eq_of_iff _ _ _ (mouse_re_regex p) (dmatch_spec p _)). Qed.
Lemma cpr_prefix_re_is_dmatch p : cpr_prefix_re p = dmatch ast_cpr_response_prefix_re p.
Proof. apply (bool_eq_of_iff _ _ _ (cpr_prefix_re_regex p) (dmatch_spec p _)). Qed.
Lemma mouse_prefix_re_is_dmatch p : mouse_prefix_re p = dmatch ast_mouse_event_prefix_re p.
Proof. apply (bool_eq_of_iff _ _ _ (mouse_prefix_re_regex p) (dmatch_spec p _)). Qed.
