(* C20 - facts about the proxy part of the model that hold for EVERY label
   list: what writers put in under the lock leaves the flush thread in the
   same order, nothing is lost or duplicated on the way. *)
From Coq Require Import ZArith List Bool Lia.
From PTK Require Import Lib.Sx Model.C20_StdoutProxy.
Import ListNotations.
Open Scope Z_scope.

Lemma split_last_some : forall d b a, split_last d = Some (b, a) -> d = b ++ 10 :: a.
Proof.
  induction d as [|c r IH]; intros b a H; cbn [split_last] in H.
  - discriminate.
  - destruct (split_last r) as [[b' a']|] eqn:E.
    + inversion H; subst. rewrite <- app_comm_cons. f_equal. apply IH. reflexivity.
    + destruct (Z.eqb c 10) eqn:Ec; [|discriminate].
      inversion H; subst. apply Z.eqb_eq in Ec. subst. reflexivity.
Qed.

Lemma split_last_none : forall d, split_last d = None -> ~ In 10 d.
Proof.
  induction d as [|c r IH]; intros H; cbn [split_last] in H.
  - intros [].
  - destruct (split_last r) as [[b' a']|] eqn:E; [discriminate|].
    destruct (Z.eqb c 10) eqn:Ec; [discriminate|].
    apply Z.eqb_neq in Ec. intros [K|K]; [congruence|]. now apply IH.
Qed.

(* the remainder kept in _buffer has no newline *)
Lemma split_last_after : forall d b a, split_last d = Some (b, a) -> ~ In 10 a.
Proof.
  induction d as [|c r IH]; intros b a H; cbn [split_last] in H.
  - discriminate.
  - destruct (split_last r) as [[b' a']|] eqn:E.
    + inversion H; subst. eapply IH. reflexivity.
    + destruct (Z.eqb c 10) eqn:Ec; [|discriminate].
      inversion H; subst. now apply split_last_none.
Qed.

(* all text the proxy has ever been given that is accounted for: handed on by
   the flush thread, in its hands, queued, buffered - in this order *)
Definition ptext (p : proxy) : text := concat (handed p) ++ proxy_text p.

Ltac norm :=
  unfold ptext, proxy_text, queue_text in *;
  repeat (progress (cbn [buf queue fth handed f_text item_text map concat app];
                    rewrite ?map_app, ?concat_app, ?app_nil_r, <- ?app_assoc)).

Lemma ptext_write : forall p d, ptext (do_write p d) = ptext p ++ d.
Proof.
  intros p d. unfold do_write. destruct (split_last d) as [[b a]|] eqn:E.
  - apply split_last_some in E. subst d. norm. reflexivity.
  - norm. reflexivity.
Qed.

Lemma ptext_flush : forall p, ptext (do_flush p) = ptext p.
Proof. intros p. unfold do_flush. norm. reflexivity. Qed.

Lemma ptext_close : forall p, ptext (do_close p) = ptext p.
Proof. intros p. unfold do_close. norm. reflexivity. Qed.

Lemma ptext_fget : forall p, ptext (do_fget p) = ptext p.
Proof.
  intros [b q f h]. unfold do_fget. cbn [fth queue buf handed].
  destruct f; try reflexivity. destruct q as [|[s|] q]; try reflexivity.
  destruct s; norm; reflexivity.
Qed.

Lemma ptext_fnowait : forall p, ptext (do_fnowait p) = ptext p.
Proof.
  intros [b q f h]. unfold do_fnowait. cbn [fth queue buf handed].
  destruct f; try reflexivity. destruct q as [|[s|] q]; norm; reflexivity.
Qed.

Lemma ptext_fchoose : forall p e, ptext (do_fchoose p e) = ptext p.
Proof.
  intros [b q f h] e. unfold do_fchoose. cbn [fth queue buf handed].
  destruct f; try reflexivity.
Qed.

Lemma ptext_handover : forall p acc dn path f',
  fth p = FChosen acc dn path -> f_text f' = [] ->
  ptext (set_fth p f' (handed p ++ [acc])) = ptext p.
Proof.
  intros [b q f h] acc dn path f' H H'. cbn [fth] in H. subst f. unfold set_fth. norm.
  rewrite H'. reflexivity.
Qed.

Lemma after_batch_text : forall dn, f_text (after_batch dn) = [].
Proof. intros []; reflexivity. Qed.

Lemma loop_step_px : forall w s, px (loop_step w s) = px s.
Proof.
  intros w s. unfold loop_step. destruct (lclosed (en s)); [reflexivity|].
  destruct (loopq (en s)); [reflexivity|].
  destruct (get_app_or_none _ _ && _); [|reflexivity].
  destruct (submit _ _ _ _ _); reflexivity.
Qed.

Lemma ptext_step : forall s l, raw_label l = true -> ptext (px (step s l)) = ptext (px s) ++ wdata l.
Proof.
  intros s l R. destruct l; try discriminate R; cbn [step wdata px]; rewrite ?app_nil_r;
    try (solve [repeat (match goal with
    | |- context [if ?b then _ else _] => destruct b
    | |- context [match ?x with _ => _ end] => destruct x
    end); reflexivity]).
  - apply ptext_write.
  - apply ptext_flush.
  - apply ptext_close.
  - apply ptext_fget.
  - apply ptext_fnowait.
  - apply ptext_fchoose.
  - destruct (fth (px s)) as [| | |acc dn [k|]| |] eqn:E; try reflexivity.
    + destruct (Nat.eqb k (lid (en s)) && negb (lclosed (en s))); cbn [px];
        (eapply ptext_handover; [eassumption|apply after_batch_text]).
    + cbn [px]. eapply ptext_handover; [eassumption|apply after_batch_text].
  - rewrite loop_step_px. reflexivity.
Qed.

Lemma stream_cons : forall l ls, stream (l :: ls) = wdata l ++ stream ls.
Proof. reflexivity. Qed.

Lemma ptext_run : forall ls s, forallb raw_label ls = true ->
  ptext (px (run s ls)) = ptext (px s) ++ stream ls.
Proof.
  induction ls as [|l ls IH]; intros s R.
  - cbn. now rewrite app_nil_r.
  - cbn [forallb] in R. apply andb_true_iff in R. destruct R as [R1 R2].
    change (run s (l :: ls)) with (run (step s l) ls). rewrite (IH _ R2), (ptext_step _ _ R1), stream_cons.
    now rewrite app_assoc.
Qed.

(* print()/flush() through the patched stream are proxy.write()/flush() while
   sys.stdout is the proxy and nothing afterwards *)
Lemma patched_step : forall s l, l <> LRestore -> patched (en (step s l)) = patched (en s).
Proof.
  intros s l N. destruct l; try congruence; cbn [step]; unfold loop_step;
    repeat (match goal with
      | |- context [if ?b then _ else _] => destruct b eqn:?
      | |- context [match ?x with _ => _ end] => destruct x eqn:?
      end); cbn [en patched set_loopq]; congruence.
Qed.

Lemma desugar_run : forall ls s, run s ls = run s (desugar (patched (en s)) ls).
Proof.
  induction ls as [|l ls IH]; intros s; [reflexivity|].
  assert (G : forall l', l' <> LRestore -> run s (l' :: ls) = run s (l' :: desugar (patched (en s)) ls)).
  { intros l' N. change (run (step s l') ls = run (step s l') (desugar (patched (en s)) ls)).
    rewrite IH, (patched_step s l' N). reflexivity. }
  destruct l; cbn [desugar]; try (apply G; discriminate).
  - (* LPW *)
    change (run s (LPW t d :: ls)) with (run (step s (LPW t d)) ls). cbn [step].
    destruct (patched (en s)) eqn:P.
    + change (run s (LW t d :: desugar true ls)) with (run (step s (LW t d)) (desugar true ls)).
      rewrite IH. cbn [step en]. rewrite P. reflexivity.
    + rewrite IH, P. reflexivity.
  - (* LPFlush *)
    change (run s (LPFlush t :: ls)) with (run (step s (LPFlush t)) ls). cbn [step].
    destruct (patched (en s)) eqn:P.
    + change (run s (LFlush t :: desugar true ls)) with (run (step s (LFlush t)) (desugar true ls)).
      rewrite IH. cbn [step en]. rewrite P. reflexivity.
    + rewrite IH, P. reflexivity.
  - (* LRestore *)
    change (run s (LRestore :: ls)) with (run (step s LRestore) ls).
    change (run s (LRestore :: desugar false ls)) with (run (step s LRestore) (desugar false ls)).
    rewrite IH. reflexivity.
Qed.

Lemma desugar_raw : forall ls p, forallb raw_label (desugar p ls) = true.
Proof.
  induction ls as [|l ls IH]; intros p; [reflexivity|].
  destruct l; cbn [desugar forallb raw_label andb]; try apply IH; destruct p; cbn [forallb raw_label andb]; apply IH.
Qed.

(* queue order = lock order; the single consumer hands on in queue order *)
Lemma queue_order : forall c ls, forallb raw_label ls = true ->
  let s := run (init c) ls in
  concat (handed (px s)) ++ f_text (fth (px s)) ++ queue_text (px s) ++ buf (px s) = stream ls.
Proof. intros c ls R. cbn zeta. pose proof (ptext_run ls (init c) R) as H. exact H. Qed.

(* the stream is the concatenation of the write calls' texts, each one whole,
   in lock order; a thread's calls appear in that thread's program order *)
Lemma stream_writes : forall ls, stream ls = concat (map snd (writes ls)).
Proof.
  induction ls as [|l ls IH]; [reflexivity|].
  rewrite stream_cons, IH. destruct l; reflexivity.
Qed.

Definition of_thread (t : Z) (l : label) : bool :=
  match l with LW u _ => Z.eqb u t | _ => false end.

Lemma writes_thread_order : forall t ls,
  filter (fun w => Z.eqb (fst w) t) (writes ls) = writes (filter (of_thread t) ls).
Proof.
  intros t. induction ls as [|l ls IH]; [reflexivity|].
  destruct l; cbn [writes filter of_thread fst]; try exact IH.
  destruct (Z.eqb t0 t); cbn [writes]; now rewrite IH.
Qed.

(* for EVERY label list, prints through the patched stream included *)
Lemma queue_order_all : forall c r ls,
  let s := run (init2 c r) ls in
  concat (handed (px s)) ++ f_text (fth (px s)) ++ queue_text (px s) ++ buf (px s) = stream (desugar true ls).
Proof.
  intros c r ls. cbn zeta. rewrite (desugar_run ls (init2 c r)).
  change (patched (en (init2 c r))) with true.
  exact (ptext_run (desugar true ls) (init2 c r) (desugar_raw ls true)).
Qed.
