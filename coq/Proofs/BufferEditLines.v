(* Line-level frame lemmas for C01: newline, transform_current_line,
   join_next_line.  "Only the characters they address are altered." *)
From Coq Require Import ZArith List Bool Lia.
From PTK Require Import Lib.Sx Lib.Py Model.Document Model.BufferEdit Proofs.BufferEditFacts.
Import ListNotations.
Open Scope Z_scope.

(* ---------------------------------------------------------------------- *)
(* partition / rpartition *)

Lemma before_first_split c s :
  exists rest, s = before_first c s ++ rest /\
               (rest = [] \/ exists r, rest = c :: r) /\
               mem_Z c (before_first c s) = false.
Proof.
  induction s as [|x s IH]; cbn [before_first].
  - exists []. repeat split; auto.
  - destruct (x =? c) eqn:E.
    + exists (x :: s). split; [reflexivity|]. split; [|reflexivity].
      right. exists s. f_equal. lia.
    + destruct IH as [rest [H1 [H2 H3]]]. exists rest. split.
      * cbn [app]. now rewrite <- H1.
      * split; [exact H2|]. cbn [mem_Z]. now rewrite E.
Qed.

Lemma mem_Z_app c a b : mem_Z c (a ++ b) = mem_Z c a || mem_Z c b.
Proof. induction a as [|x a IH]; cbn [app mem_Z]; [reflexivity|]. rewrite IH. now rewrite orb_assoc. Qed.

Lemma mem_Z_rev c s : mem_Z c (rev s) = mem_Z c s.
Proof.
  induction s as [|x s IH]; [reflexivity|]. cbn [rev]. rewrite mem_Z_app, IH. cbn [mem_Z].
  rewrite orb_false_r. apply orb_comm.
Qed.

Lemma after_last_split c s :
  exists pre, s = pre ++ after_last c s /\
              (pre = [] \/ exists p, pre = p ++ [c]) /\
              mem_Z c (after_last c s) = false.
Proof.
  unfold after_last. destruct (before_first_split c (rev s)) as [rest [H1 [H2 H3]]].
  exists (rev rest). split.
  - rewrite <- (rev_involutive s) at 1. rewrite H1 at 1. now rewrite rev_app_distr.
  - split.
    + destruct H2 as [->|[r ->]]; [now left|]. right. exists (rev r). reflexivity.
    + now rewrite mem_Z_rev.
Qed.

Lemma firstn_len_app {T} (a b : list T) : firstn (Z.to_nat (len a)) (a ++ b) = a.
Proof.
  unfold len. rewrite Nat2Z.id. rewrite firstn_app, Nat.sub_diag, firstn_all. cbn [firstn].
  now rewrite app_nil_r.
Qed.

Lemma skipn_len_app {T} (a b : list T) : skipn (Z.to_nat (len a)) (a ++ b) = b.
Proof.
  unfold len. rewrite Nat2Z.id. rewrite skipn_app, Nat.sub_diag, skipn_all. reflexivity.
Qed.

(* The decomposition of a buffer around its current line. *)
Record line_split (b : buf) (pre line post : str) : Prop := {
  ls_text : btext b = pre ++ line ++ post;
  ls_line : mem_Z NL line = false;
  ls_pre : pre = [] \/ exists p, pre = p ++ [NL];
  ls_post : post = [] \/ exists r, post = NL :: r;
  ls_cur : len pre <= bcur b <= len pre + len line;
  ls_before : current_line_before_cursor (bdoc b) = firstn (Z.to_nat (bcur b - len pre)) line;
  ls_after : current_line_after_cursor (bdoc b) = skipn (Z.to_nat (bcur b - len pre)) line
}.

Lemma current_line_split b :
  Inv b -> exists pre line post, line_split b pre line post.
Proof.
  intros [H0 H1].
  unfold current_line_before_cursor, current_line_after_cursor,
    text_before_cursor, text_after_cursor, bdoc; cbn [dtext dcur].
  set (t := btext b) in *. set (c := bcur b) in *.
  assert (Hb : slice_to t c = firstn (Z.to_nat c) t) by (apply slice_to_in_range; lia).
  assert (Ha : slice_from t c = skipn (Z.to_nat c) t) by (apply slice_from_in_range; lia).
  destruct (after_last_split NL (firstn (Z.to_nat c) t)) as [pre [Hp1 [Hp2 Hp3]]].
  destruct (before_first_split NL (skipn (Z.to_nat c) t)) as [post [Hq1 [Hq2 Hq3]]].
  set (l1 := after_last NL (firstn (Z.to_nat c) t)) in *.
  set (l2 := before_first NL (skipn (Z.to_nat c) t)) in *.
  assert (Hlen : len (firstn (Z.to_nat c) t) = c) by (rewrite len_firstn; lia).
  assert (Hc : c = len pre + len l1) by (rewrite <- Hlen, Hp1 at 1; now rewrite len_app).
  exists pre, (l1 ++ l2), post.
  assert (Hk : Z.to_nat (c - len pre) = Z.to_nat (len l1)) by (f_equal; lia).
  constructor; fold t c.
  - rewrite <- (firstn_skipn (Z.to_nat c) t) at 1. rewrite Hp1, Hq1 at 1.
    now rewrite <- !app_assoc.
  - rewrite mem_Z_app, Hp3, Hq3. reflexivity.
  - exact Hp2.
  - exact Hq2.
  - rewrite len_app. pose proof (len_nonneg l1). pose proof (len_nonneg l2). lia.
  - unfold current_line_before_cursor, text_before_cursor, bdoc; cbn [dtext dcur]. fold t c.
    rewrite Hb. fold l1. rewrite Hk. now rewrite firstn_len_app.
  - unfold current_line_after_cursor, text_after_cursor, bdoc; cbn [dtext dcur]. fold t c.
    rewrite Ha. fold l2. rewrite Hk. now rewrite skipn_len_app.
Qed.

(* ---------------------------------------------------------------------- *)
(* transform_current_line alters only the current line *)

Lemma transform_current_line_spec F b pre line post :
  Inv b -> line_split b pre line post ->
  exists c', transform_current_line F b = Ok (mkbuf (pre ++ F line ++ post) c') [] /\ 0 <= c'.
Proof.
  intros [H0 H1] S. destruct S as [Ht Hl _ _ Hc Hb Ha].
  unfold transform_current_line, get_start_of_line_position, get_end_of_line_position.
  rewrite Hb, Ha. cbn [bdoc dtext dcur].
  pose proof (len_nonneg pre). pose proof (len_nonneg line). pose proof (len_nonneg post).
  assert (Hlt : len (btext b) = len pre + len line + len post) by (rewrite Ht, !len_app; lia).
  rewrite len_firstn, len_skipn.
  replace (bcur b + - Z.min (Z.of_nat (Z.to_nat (bcur b - len pre))) (len line)) with (len pre) by lia.
  replace (bcur b + Z.max 0 (len line - Z.of_nat (Z.to_nat (bcur b - len pre))))
    with (len pre + len line) by lia.
  rewrite slice_to_in_range, slice2_in_range, slice_from_in_range by lia.
  replace (len pre + len line - len pre) with (len line) by lia.
  rewrite Ht. rewrite firstn_len_app, skipn_len_app.
  rewrite firstn_len_app.
  replace (len pre + len line) with (len (pre ++ line)) by (rewrite len_app; lia).
  rewrite (app_assoc pre line post), skipn_len_app.
  unfold set_text; cbn [bcur btext]. eexists; split; [reflexivity|].
  match goal with |- context [if ?c then _ else _] => destruct c end; [apply len_nonneg|exact H0].
Qed.

(* ---------------------------------------------------------------------- *)
(* newline: before ++ "\n" ++ margin ++ after, margin = blanks copied from
   the start of the current line (or nothing) *)

Fixpoint all_space (s : str) : bool :=
  match s with [] => true | x :: r => is_space x && all_space r end.

Lemma lstrip_prefix p s : exists m, s = m ++ lstrip_by p s /\ forallb p m = true.
Proof.
  induction s as [|x s IH]; cbn [lstrip_by].
  - exists []. auto.
  - destruct (p x) eqn:E.
    + destruct IH as [m [H1 H2]]. exists (x :: m). cbn [app forallb]. rewrite E, H2.
      split; [now rewrite <- H1|reflexivity].
    + exists []. auto.
Qed.

Lemma leading_whitespace_spec d :
  exists rest, current_line d = leading_whitespace_in_current_line d ++ rest /\
               forallb is_space (leading_whitespace_in_current_line d) = true.
Proof.
  unfold leading_whitespace_in_current_line.
  set (cl := current_line d).
  destruct (lstrip_prefix is_space cl) as [m [H1 H2]].
  exists (lstrip_by is_space cl).
  assert (Hl : len cl - len (lstrip_by is_space cl) = len m).
  { rewrite H1 at 1. rewrite len_app. lia. }
  rewrite Hl. pose proof (len_nonneg m). pose proof (len_nonneg (lstrip_by is_space cl)).
  rewrite slice_to_in_range by lia.
  assert (Hf : firstn (Z.to_nat (len m)) cl = m) by (rewrite H1; apply firstn_len_app).
  rewrite Hf. split; [exact H1|exact H2].
Qed.

Lemma newline_spec b cm :
  Inv b ->
  exists m,
    newline b cm =
    Ok (mkbuf (firstn (Z.to_nat (bcur b)) (btext b) ++ NL :: m ++ skipn (Z.to_nat (bcur b)) (btext b))
              (bcur b + 1 + len m)) [] /\
    forallb is_space m = true /\ (cm = false -> m = []).
Proof.
  intros H. unfold newline. destruct cm.
  - exists (leading_whitespace_in_current_line (bdoc b)). rewrite insert_text_spec by exact H.
    split; [|split; [|discriminate]].
    + f_equal. f_equal. rewrite len_cons. lia.
    + destruct (leading_whitespace_spec (bdoc b)) as [_ [_ Hs]]. exact Hs.
  - exists []. rewrite insert_text_spec by exact H. split; [|split; reflexivity].
    f_equal. f_equal. change (len [NL]) with 1. change (len (@nil Z)) with 0. lia.
Qed.

(* ---------------------------------------------------------------------- *)
(* join_next_line: only the line ending after the current line and the
   blanks that follow it are replaced by the separator *)

Lemma set_cursor_in_range b v :
  0 <= v <= len (btext b) -> set_cursor b v = mkbuf (btext b) v.
Proof.
  intros H. unfold set_cursor.
  destruct (len (btext b) <? v) eqn:E1; [lia|]. destruct (v <? 0) eqn:E2; [lia|].
  f_equal. lia.
Qed.

Lemma join_next_line_spec b sep pre line r :
  Inv b -> line_split b pre line (NL :: r) -> on_last_line (bdoc b) = false ->
  exists c',
    join_next_line b sep = Ok (mkbuf (pre ++ line ++ sep ++ lstrip_by (Z.eqb SP) r) c') [] /\
    0 <= c'.
Proof.
  intros [H0 H1] S Hlast. destruct S as [Ht Hl _ _ Hc _ Ha].
  unfold join_next_line. rewrite Hlast. unfold get_end_of_line_position. rewrite Ha.
  pose proof (len_nonneg pre). pose proof (len_nonneg line). pose proof (len_nonneg r).
  assert (Hlt : len (btext b) = len pre + len line + 1 + len r).
  { rewrite Ht, !len_app, len_cons. lia. }
  rewrite len_skipn.
  replace (bcur b + Z.max 0 (len line - Z.of_nat (Z.to_nat (bcur b - len pre))))
    with (len pre + len line) by lia.
  rewrite set_cursor_in_range by lia.
  set (e := len pre + len line).
  set (b1 := mkbuf (btext b) e).
  assert (HI1 : Inv b1) by (unfold Inv, b1; cbn [bcur btext]; lia).
  pose proof (delete_spec b1 1 HI1 ltac:(lia)) as Hd. cbn zeta in Hd.
  unfold b1 in Hd at 2 3 4 5 6 7. cbn [bcur btext] in Hd.
  replace (Z.min 1 (len (btext b) - e)) with 1 in Hd by lia.
  rewrite Hd. cbn [bind].
  assert (He : e = len (pre ++ line)) by (unfold e; rewrite len_app; lia).
  assert (Hf : firstn (Z.to_nat e) (btext b) = pre ++ line).
  { rewrite Ht, He, app_assoc. apply firstn_len_app. }
  assert (Hs : skipn (Z.to_nat (e + 1)) (btext b) = r).
  { replace (e + 1) with (len ((pre ++ line) ++ [NL])) by (rewrite len_app, <- He; reflexivity).
    rewrite Ht. replace (pre ++ line ++ NL :: r) with (((pre ++ line) ++ [NL]) ++ r)
      by (rewrite <- !app_assoc; reflexivity).
    apply skipn_len_app. }
  rewrite Hf, Hs.
  unfold text_before_cursor, text_after_cursor, bdoc; cbn [dtext dcur btext bcur].
  assert (Hl2 : len ((pre ++ line) ++ r) = e + len r) by (rewrite len_app, <- He; lia).
  change (bcur b1) with e. rewrite slice_to_in_range, slice_from_in_range by lia.
  rewrite He, firstn_len_app, skipn_len_app.
  unfold set_text; cbn [bcur btext]. rewrite <- app_assoc.
  eexists; split; [reflexivity|].
  match goal with |- context [if ?c then _ else _] => destruct c end; [apply len_nonneg|lia].
Qed.
