(* C10: print_formatted_text (the safe print path) never sends ESC for the
   printed text - and nothing more: other control characters of the text pass.
   The readline-like completion listing prints completion display text through
   it, so on /repo HEAD displayed content reaches the terminal raw
   (readline_listing_pinned_refuted, the code before commit 1d18ea6); since the
   repair only the CR LF of the row ends remain (readline_listing_clean). *)
From Coq Require Import ZArith List Bool Lia.
From PTK Require Import Lib.Sx Lib.Py Gen.C10_DisplayMappings Model.C10_Screen Model.C10_Producers
     Model.C10_Wire Model.C10_Print
     Proofs.C10_TableFacts Proofs.C10_CopyFacts Proofs.C10_RenderFacts Proofs.C10_ProducerFacts.
Import ListNotations.
Open Scope Z_scope.

(* every token of the print path: printed text goes through `write`; a raw
   token is a renderer sequence or the text of a marked fragment *)
Definition ptok_ok (P : list Z -> Prop) (fs : list frag) (t : token) : Prop :=
  match torigin t with
  | FromCell => tkind t = KWrite /\ exists f, In f fs /\ contains ZWE_MARK (fst f) = false /\
                                              ttext t = nl_to_crlf (strip_cr (snd f)) /\ P (snd f)
  | FromZWE => tkind t = KRaw /\ exists f, In f fs /\ contains ZWE_MARK (fst f) = true /\ ttext t = snd f
  | FromRenderer => tkind t = KRaw
  end.

Lemma print_tokens_ok sty (P : list Z -> Prop) fs :
  (forall f, In f fs -> contains ZWE_MARK (fst f) = false -> P (snd f)) ->
  Forall (ptok_ok P fs) (print_formatted_text sty fs).
Proof.
  intro HP. unfold print_formatted_text. apply Forall_rev. constructor; [exact eq_refl|].
  assert (G : forall l st, incl l fs -> Forall (ptok_ok P fs) (pout st) ->
                           Forall (ptok_ok P fs) (pout (fold_left (print_frag sty) l st))).
  { induction l as [|f r IH]; intros st Hi Hs; [exact Hs|]. cbn [fold_left]. apply IH.
    - intros x Hx. apply Hi. right. exact Hx.
    - assert (Hf : In f fs) by (apply Hi; left; reflexivity).
      unfold print_frag. cbn [pout]. constructor.
      + destruct (contains ZWE_MARK (fst f)) eqn:E; cbn.
        * split; [reflexivity|]. exists f. auto.
        * split; [reflexivity|]. exists f. repeat split; auto.
      + destruct (match plast st with Some l0 => l0 =? _ | None => false end); [exact Hs|].
        constructor; [exact eq_refl | exact Hs]. }
  apply G; [apply incl_refl|]. constructor; [exact eq_refl|]. constructor; [exact eq_refl | constructor].
Qed.

(* the safe print path never sends ESC for the printed text *)
Theorem print_no_esc sty fs : forall o, In (o, 27) (tagged_stream (print_formatted_text sty fs)) ->
  o = FromRenderer \/ o = FromZWE.
Proof.
  intros o Hin. unfold tagged_stream in Hin. apply in_flat_map in Hin. destruct Hin as (t & Ht & Hb).
  apply in_map_iff in Hb. destruct Hb as (c & E & Hc). inversion E; subst.
  pose proof (print_tokens_ok sty (fun _ => True) fs (fun _ _ _ => I)) as H.
  rewrite Forall_forall in H. specialize (H t Ht). unfold ptok_ok in H.
  destruct (torigin t); [|left; reflexivity | right; reflexivity].
  exfalso. destruct H as [Hk _]. unfold tok_bytes in Hc. rewrite Hk in Hc. exact (vt_write_no_esc _ Hc).
Qed.

(* ... but it is not a sanitiser: before commit 1d18ea6 the readline-like listing sent
   a completion's display text with its control characters (BEL here) *)
Theorem readline_listing_pinned_refuted :
  exists rows sty c, is_control c = true /\
    In (FromCell, c) (tagged_stream (print_formatted_text sty (readline_fragments_pinned rows))).
Proof.
  exists [[([], [([], [100; 7; 155])], 1)]], (fun _ => mksty 0 [] false), 7.
  split; [reflexivity|]. vm_compute. tauto.
Qed.

(* ------------------------------------------------------------ with the repair *)

Definition text_clean_or_nl (t : list Z) : Prop := forall c, In c t -> is_control c = false \/ c = 10.

Lemma show_char_clean c : control_free (show_char c) = true.
Proof.
  unfold show_char. destruct (dm_lookup c) as [v|] eqn:E; [exact (table_values_clean c v E)|].
  cbn. rewrite (not_in_table_not_control c E). reflexivity.
Qed.

Lemma flat_show_clean t : text_clean_or_nl (flat_map show_char t).
Proof.
  intros c Hc. apply in_flat_map in Hc. destruct Hc as (c0 & _ & Hc). left.
  exact (control_free_In _ _ (show_char_clean c0) Hc).
Qed.

Lemma spaces_clean n : text_clean_or_nl (str_mul [32] n).
Proof.
  unfold str_mul. induction (Z.to_nat n) as [|k IH]; intros c Hc; [destruct Hc|].
  cbn in Hc. destruct Hc as [<-|Hc]; [left; reflexivity | exact (IH c Hc)].
Qed.

Lemma with_style_S_RL_marked st : contains ZWE_MARK (S_RL ++ 32 :: st) = contains ZWE_MARK st.
Proof. rewrite contains_sep; [reflexivity | discriminate | exact mark_no_space]. Qed.

Lemma mapped_fragments_clean rows f :
  In f (readline_fragments rows) -> contains ZWE_MARK (fst f) = false -> text_clean_or_nl (snd f).
Proof.
  unfold readline_fragments, with_style. cbn [nonempty S_RL]. fold S_RL.
  intros Hin Hm. apply in_map_iff in Hin. destruct Hin as (f0 & E & H0). subst f. cbn [fst snd] in *.
  rewrite with_style_S_RL_marked in Hm.
  apply in_flat_map in H0. destruct H0 as (row & _ & H0). apply in_app_or in H0. destruct H0 as [H0|H0].
  - apply in_flat_map in H0. destruct H0 as (it & _ & H0). unfold readline_item in H0.
    apply in_app_or in H0. destruct H0 as [H0|[<-|[]]]; [|apply spaces_clean].
    unfold show_control_characters in H0. apply in_map_iff in H0. destruct H0 as (f1 & E & _).
    destruct (contains ZWE_MARK (fst f1)) eqn:E1; subst f0; cbn [fst snd] in *; [congruence | apply flat_show_clean].
  - destruct H0 as [<-|[]]. intros c [<-|[]]. right. reflexivity.
Qed.

Lemma crlf_controls t : text_clean_or_nl t -> forall c, In c (nl_to_crlf (strip_cr t)) ->
  is_control c = true -> c = 13 \/ c = 10.
Proof.
  intros Ht c Hc Hctl. unfold nl_to_crlf in Hc. apply in_flat_map in Hc. destruct Hc as (c0 & H0 & Hc).
  unfold strip_cr in H0. apply filter_In in H0. destruct H0 as [H0 _].
  destruct (c0 =? 10) eqn:E.
  - cbn in Hc. destruct Hc as [<-|[<-|[]]]; [left | right]; reflexivity.
  - destruct Hc as [<-|[]]. destruct (Ht c0 H0) as [Hn|Hn]; [congruence|]. apply Z.eqb_neq in E. contradiction.
Qed.

(* with _show_control_characters in place the only control characters of the
   printed completion text are the CR LF that end the rows *)
Theorem readline_listing_clean sty rows : forall o c,
  In (o, c) (tagged_stream (print_formatted_text sty (readline_fragments rows))) ->
  is_control c = true -> o = FromRenderer \/ o = FromZWE \/ (o = FromCell /\ (c = 13 \/ c = 10)).
Proof.
  intros o c Hin Hctl. unfold tagged_stream in Hin. apply in_flat_map in Hin. destruct Hin as (t & Ht & Hb).
  apply in_map_iff in Hb. destruct Hb as (c' & E & Hc). inversion E; subst.
  pose proof (print_tokens_ok sty text_clean_or_nl _ (mapped_fragments_clean rows)) as H.
  rewrite Forall_forall in H. specialize (H t Ht). unfold ptok_ok in H.
  destruct (torigin t); [|left; reflexivity | right; left; reflexivity].
  right. right. split; [reflexivity|]. destruct H as [Hk (f & _ & _ & Ex & HP)].
  unfold tok_bytes in Hc. rewrite Hk in Hc. apply (vt_write_controls _ _ Hc) in Hctl as Hc'.
  rewrite Ex in Hc'. exact (crlf_controls _ HP c Hc' Hctl).
Qed.
