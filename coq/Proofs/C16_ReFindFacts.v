(* The finditer loop over the compiled escaped needle = the scan [find_nth]
   of Model/C16_Search.v; Document.find / find_backwards over re.finditer =
   [doc_find] / [doc_find_backwards] with the relation [ceq_sre]. *)
From Coq Require Import ZArith List Bool Lia.
From PTK Require Import Lib.Sx Lib.Py Model.Document Model.C16_Regex Model.C16_Search Model.C16_SearchSpec
  Model.C16_ReFind Proofs.C16_MatchFacts Proofs.C16_SearchFacts Proofs.C16_RegexFacts.
Import ListNotations.
Open Scope Z_scope.

Lemma nth_error_nil {T} k : @nth_error T [] k = None.
Proof. destruct k; reflexivity. Qed.

Lemma finditer_is_find_nth ic needle : forall s i skip k,
  nth_error (finditer_ops (map (compile_lit ic) needle) s i skip) k
  = find_nth ceq_sre ic needle s i skip k.
Proof.
  induction s as [|t r IH]; intros i skip k.
  - destruct skip as [|sk]; cbn [finditer_ops find_nth].
    + rewrite match_ops_match_at. destruct (match_at ceq_sre ic needle []).
      * destruct k as [|k']; [reflexivity|]. cbn [nth_error]. apply nth_error_nil.
      * apply nth_error_nil.
    + apply nth_error_nil.
  - destruct skip as [|sk]; cbn [finditer_ops find_nth].
    + rewrite match_ops_match_at. destruct (match_at ceq_sre ic needle (t :: r)).
      * destruct k as [|k']; [reflexivity|]. cbn [nth_error]. rewrite map_length. apply IH.
      * apply IH.
    + apply IH.
Qed.

Lemma enumerate_pick_nth l : forall i count,
  enumerate_pick l i count
  = if count <? i + 1 then None else nth_error l (Z.to_nat (count - i - 1)).
Proof.
  induction l as [|m r IH]; intros i count; cbn [enumerate_pick].
  - destruct (count <? i + 1); [reflexivity|]. symmetry. apply nth_error_nil.
  - destruct (i + 1 =? count) eqn:E.
    + apply Z.eqb_eq in E. destruct (count <? i + 1) eqn:E2; [lia|].
      replace (count - i - 1) with 0 by lia. reflexivity.
    + apply Z.eqb_neq in E. rewrite IH.
      destruct (count <? i + 1) eqn:E2.
      * destruct (count <? i + 1 + 1) eqn:E3; [reflexivity|lia].
      * destruct (count <? i + 1 + 1) eqn:E3; [lia|].
        replace (Z.to_nat (count - i - 1)) with (S (Z.to_nat (count - (i + 1) - 1))) by lia.
        reflexivity.
Qed.

(* picking the count-th match of finditer over the escaped needle = the scan *)
Lemma pick_escaped ic needle text count :
  exists it, re_finditer (re_escape needle) text ic = Some it /\
    enumerate_pick it 0 count
    = if count <? 1 then None else find_nth ceq_sre ic needle text 0 O (Z.to_nat (count - 1)).
Proof.
  unfold re_finditer. rewrite compile_escaped. eexists. split; [reflexivity|].
  rewrite enumerate_pick_nth. change (0 + 1) with 1.
  destruct (count <? 1); [reflexivity|].
  replace (count - 0 - 1) with (count - 1) by lia. apply finditer_is_find_nth.
Qed.

Lemma doc_find_re_eq d sub icp ic count :
  doc_find_re d sub icp ic count = Some (doc_find ceq_sre d sub icp ic count).
Proof.
  unfold doc_find_re, doc_find. destruct icp; cbn [negb andb].
  - destruct (pick_escaped ic sub (text_after_cursor d) count) as (it & -> & ->).
    destruct (count <? 1); [reflexivity|].
    destruct (find_nth ceq_sre ic sub (text_after_cursor d) 0 0 (Z.to_nat (count - 1))); reflexivity.
  - destruct (len (text_after_cursor d) =? 0); [reflexivity|].
    destruct (pick_escaped ic sub (slice_from (text_after_cursor d) 1) count) as (it & -> & ->).
    destruct (count <? 1); [reflexivity|].
    destruct (find_nth ceq_sre ic sub (slice_from (text_after_cursor d) 1) 0 0 (Z.to_nat (count - 1))); reflexivity.
Qed.

Lemma doc_find_backwards_re_eq d sub ic count :
  doc_find_backwards_re d sub ic count = Some (doc_find_backwards ceq_sre d sub ic count).
Proof.
  unfold doc_find_backwards_re, doc_find_backwards.
  destruct (pick_escaped ic (rev sub) (rev (text_before_cursor d)) count) as (it & -> & ->).
  destruct (count <? 1); [reflexivity|].
  destruct (find_nth ceq_sre ic (rev sub) (rev (text_before_cursor d)) 0 0 (Z.to_nat (count - 1))); reflexivity.
Qed.

(* what finditer yields over the escaped needle, in the vocabulary of the
   specification: its (k+1)-th element is the (k+1)-th match of the leftmost
   non-overlapping scan of REAL occurrences, and it has no (k+1)-th element
   exactly when that scan has fewer *)
Lemma finditer_spec ic needle text k :
  exists it, re_finditer (re_escape needle) text ic = Some it /\
    match nth_error it k with
    | Some j => 0 <= j /\ nth_match ceq_sre ic needle text 0 k (Z.to_nat j)
    | None => forall p, ~ nth_match ceq_sre ic needle text 0 k p
    end.
Proof.
  unfold re_finditer. rewrite compile_escaped. eexists. split; [reflexivity|].
  rewrite finditer_is_find_nth.
  pose proof (find_nth_spec ceq_sre ic needle text k 0%nat 0 (Nat.le_0_l _)) as H.
  cbn [skipn] in H.
  destruct (find_nth ceq_sre ic needle text 0 0 k) as [j|]; [|exact H].
  destruct H as [H1 H2]. split; [exact H1|].
  replace (0 + Z.to_nat (j - 0))%nat with (Z.to_nat j) in H2 by (rewrite Z.sub_0_r; reflexivity).
  exact H2.
Qed.

(* the nearest-occurrence theorems, stated for Document.find / find_backwards
   as written over re.finditer(re.escape(sub), ...) *)
Lemma doc_find_re_nearest (d : doc) (sub : str) (icp ic : bool) :
  0 <= dcur d <= len (dtext d) ->
  let lo := if icp then dcur d else dcur d + 1 in
  match doc_find_re d sub icp ic 1 with
  | Some (Some r) => lo <= dcur d + r /\ occurs ceq_sre ic sub (dtext d) (dcur d + r) /\
                     forall q, lo <= q < dcur d + r -> ~ occurs ceq_sre ic sub (dtext d) q
  | Some None => forall q, lo <= q -> ~ occurs ceq_sre ic sub (dtext d) q
  | None => False
  end.
Proof.
  intro H. rewrite doc_find_re_eq. exact (doc_find_spec ceq_sre d sub icp ic H).
Qed.

Lemma doc_find_backwards_re_nearest (d : doc) (sub : str) (ic : bool) :
  0 <= dcur d <= len (dtext d) ->
  match doc_find_backwards_re d sub ic 1 with
  | Some (Some r) => 0 <= dcur d + r /\ dcur d + r + len sub <= dcur d /\
                     occurs ceq_sre ic sub (dtext d) (dcur d + r) /\
                     forall q, occurs ceq_sre ic sub (dtext d) q -> q + len sub <= dcur d -> q <= dcur d + r
  | Some None => forall q, occurs ceq_sre ic sub (dtext d) q -> ~ q + len sub <= dcur d
  | None => False
  end.
Proof.
  intro H. rewrite doc_find_backwards_re_eq. exact (doc_find_backwards_spec ceq_sre d sub ic H).
Qed.
