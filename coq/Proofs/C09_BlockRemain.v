(* C09 round 7 - what REMAINS after a visual BLOCK cut: the text with exactly the
   per-row index ranges [start(l) + left, start(l) + min(len(line l), right)) taken
   out (rows between the corners that reach the left column), nothing else touched. *)
From Coq Require Import ZArith List Bool Lia PeanoNat.
From PTK Require Import Lib.Sx Lib.Py Model.Document Model.BufferEdit Proofs.BufferEditFacts
  Proofs.C02_Base Proofs.C02_Coords
  Model.C09_Kill Proofs.C09_KillFacts Proofs.C09_CutFacts Proofs.C09_BlockAccept Proofs.C09_BlockSpan.
Import ListNotations.
Open Scope Z_scope.

(* text with the (ascending, disjoint) index ranges rs removed, scanning from [last] *)
Fixpoint strip (t : str) (rs : list (Z * Z)) (last : Z) : str :=
  match rs with
  | [] => slice_from t last
  | (a, b) :: r => slice2 t last a ++ strip t r b
  end.

Lemma cut_loop_rem t rs : forall lt nc rem parts,
  let '(lt', _, rem', _) := cut_loop t rs lt nc rem parts in
  rem' ++ slice_from t lt' = rem ++ strip t rs lt.
Proof.
  induction rs as [|[a b] rs IH]; intros lt nc rem parts; cbn [cut_loop strip]; [reflexivity|].
  specialize (IH b (if lt =? 0 then a else nc) (rem ++ slice2 t lt a) (parts ++ [slice2 t a b])).
  destruct (cut_loop t rs b _ _ _) as [[[lt' nc'] rem'] parts']. rewrite IH. now rewrite <- app_assoc.
Qed.

(* the index ranges of the block: row l starts at offs (lines d) l *)
Definition block_ranges (d : doc) (fc tc r1 r2 : Z) : list (Z * Z) :=
  flat_map (fun l => let line := nth (Z.to_nat l) (lines d) [] in
                     let st := offs (lines d) (Z.to_nat l) in
                     if fc <=? len line then [(st + fc, st + Z.min (len line) tc)] else [])
           (range_from r1 (Z.to_nat (r2 + 1 - r1))).

Lemma block_cut_remaining t cur orig (vi : bool) :
  0 <= cur <= len t -> 0 <= orig <= len t ->
  let d := mkdoc t cur in
  let p1 := translate_index_to_position d (Z.min cur orig) in
  let p2 := translate_index_to_position d (Z.max cur orig) in
  let fc := Z.min (snd p1) (snd p2) in
  let tc := Z.max (snd p1) (snd p2) + (if vi then 1 else 0) in
  exists nc,
    fst (doc_cut_selection d (orig, BLOCK) vi) =
    mk_document (strip t (block_ranges d fc tc (fst p1) (fst p2)) 0) nc.
Proof.
  intros Hc Ho d p1 p2 fc tc.
  assert (H1 : 0 <= Z.min cur orig <= len (dtext d)) by (cbn [d dtext]; lia).
  assert (H2 : 0 <= Z.max cur orig <= len (dtext d)) by (cbn [d dtext]; lia).
  destruct (translate_index_to_position d (Z.min cur orig)) as [r1 c1] eqn:E1.
  destruct (translate_index_to_position d (Z.max cur orig)) as [r2 c2] eqn:E2.
  destruct (C02c_index_to_position_spec d _ r1 c1 H1 E1) as (_ & C1 & _ & _ & R1 & _).
  destruct (C02c_index_to_position_spec d _ r2 c2 H2 E2) as (_ & C2 & _ & _ & R2 & _).
  cbn [fst snd] in *. subst p1 p2. cbn [fst snd] in fc, tc |- *.
  unfold doc_cut_selection, selection_ranges. cbn [d dcur dtext]. fold d.
  change (BLOCK =? BLOCK) with true. cbv iota. rewrite E1, E2.
  fold fc. replace (Z.max c1 c2 + (if vi then 1 else 0)) with tc by reflexivity.
  set (rows := range_from r1 (Z.to_nat (r2 + 1 - r1))).
  set (f := fun l : Z => let ll := len (line_at d l) in
              if fc <=? ll then [(translate_row_col_to_index d l fc, translate_row_col_to_index d l (Z.min ll tc))]
              else []).
  assert (Hf : flat_map f rows = block_ranges d fc tc r1 r2).
  { unfold block_ranges. fold rows.
    assert (Hrows : forall l, In l rows -> 0 <= l < line_count d).
    { intros l Hl. apply range_from_in in Hl. lia. }
    clearbody rows. induction rows as [|l rows IH]; [reflexivity|].
    cbn [flat_map]. rewrite IH by (intros x Hx; apply Hrows; now right). f_equal.
    assert (Hl : 0 <= l < line_count d) by (apply Hrows; now left).
    unfold f. cbv zeta. rewrite (line_at_nth d l Hl).
    set (line := nth (Z.to_nat l) (lines d) []).
    destruct (fc <=? len line) eqn:Ef; [|reflexivity].
    assert (Hfc : 0 <= fc) by (unfold fc; lia).
    assert (Htc : fc <= tc) by (unfold fc, tc; destruct vi; lia).
    assert (Hn : (Z.to_nat l < length (lines d))%nat) by (unfold line_count, len in Hl; lia).
    rewrite !C02c_row_col_to_index_valid by (try exact Hl; fold line; lia).
    rewrite starts_nth by exact Hn. rewrite Z.add_0_l. reflexivity. }
  rewrite Hf.
  pose proof (cut_loop_rem t (block_ranges d fc tc r1 r2) 0 cur [] []) as Hr.
  destruct (cut_loop t (block_ranges d fc tc r1 r2) 0 cur [] []) as [[[lt nc] rem] parts].
  cbn [fst snd app] in *. rewrite Hr. exists nc. reflexivity.
Qed.

(* sanity: block "b / e" out of "abc / def" *)
Lemma block_remaining_example :
  let t := [97; 98; 99; 10; 100; 101; 102] in
  strip t (block_ranges (mkdoc t 5) 1 2 0 1) 0 = [97; 99; 10; 100; 102].
Proof. vm_compute. reflexivity. Qed.
